(* Props/C07.v -- property theorems only: Theorem / exact lemma / Check (pins the statement) / Print Assumptions.

   C07: sparse products equal dense products; transpose is the adjoint; scaling scales every product.
   All theorems are about the Gallina model Model/Sparse.v of src/sparse.rs (tied to the code by the
   correspondence check of driver/c07.py), over ANY arithmetic satisfying the ring laws, for every
   well-formed compressed-column matrix of any shape and any values (no size bound).

   [sp_entry s i j] is the (i,j) entry of the matrix the storage denotes: the sum of the values of
   column segment j whose row index is i.  Difference from DESIGN Appendix E: the pinned statements
   there use [to_dense s] on the right-hand side; that is false for storage holding one position
   twice (multiply sums duplicates, to_dense keeps the last), so the theorems are stated against
   [sp_entry], which is what the loops compute for every well-formed storage, duplicates included;
   [to_dense_entry] (below, under NoDupKeys) identifies [sp_entry] with the entries of [sp_to_dense]. *)
From Coq Require Import List Arith ZArith QArith Qcanon Lia.
From OV Require Import Base.Panic Base.Arith Base.Flat Model.Vector Model.Matrix Model.Sparse Inst.QcInst
                       Proofs.SparseBase Proofs.SparseMul Proofs.SparseWf Proofs.SparseHist
                       Proofs.SparseViews Proofs.SparseRefine Proofs.SparseTranspose Proofs.SparseFinal.
Import ListNotations.
Local Open Scope nat_scope.

Theorem sp_mul_spec : forall (A : Arith), RingLaws A -> forall (s : sparse A) (x : list A),
  wfS s -> length x = sp_cols s ->
  sp_mul s x = Ok (dmulv (sp_entry s) (sp_rows s) (sp_cols s) x).
Proof. intros A RL s x. exact (sp_mul_spec_lemma RL s x). Qed.
Check sp_mul_spec : forall (A : Arith), RingLaws A -> forall (s : sparse A) (x : list A),
  wfS s -> length x = sp_cols s ->
  sp_mul s x = Ok (dmulv (sp_entry s) (sp_rows s) (sp_cols s) x).
Print Assumptions sp_mul_spec.

Theorem sp_tmul_spec : forall (A : Arith), RingLaws A -> forall (s : sparse A) (y : list A),
  wfS s -> length y = sp_rows s ->
  sp_tmul s y = Ok (dtmulv (sp_entry s) (sp_rows s) (sp_cols s) y).
Proof. intros A RL s y. exact (sp_tmul_spec_lemma RL s y). Qed.
Check sp_tmul_spec : forall (A : Arith), RingLaws A -> forall (s : sparse A) (y : list A),
  wfS s -> length y = sp_rows s ->
  sp_tmul s y = Ok (dtmulv (sp_entry s) (sp_rows s) (sp_cols s) y).
Print Assumptions sp_tmul_spec.

(* <y, A x> = <A^T y, x> *)
Theorem sp_adjoint : forall (A : Arith), RingLaws A -> forall (s : sparse A) (x y : list A),
  wfS s -> length x = sp_cols s -> length y = sp_rows s ->
  exists u w d, sp_mul s x = Ok u /\ sp_tmul s y = Ok w /\ dot y u = Ok d /\ dot w x = Ok d.
Proof. intros A RL s x y. exact (sp_adjoint_lemma RL s x y). Qed.
Check sp_adjoint : forall (A : Arith), RingLaws A -> forall (s : sparse A) (x y : list A),
  wfS s -> length x = sp_cols s -> length y = sp_rows s ->
  exists u w d, sp_mul s x = Ok u /\ sp_tmul s y = Ok w /\ dot y u = Ok d /\ dot w x = Ok d.
Print Assumptions sp_adjoint.

(* (scale a A) x = (A x) * a *)
Theorem sp_scale_mul : forall (A : Arith), RingLaws A -> forall (s : sparse A) (a : A) (x : list A),
  wfS s -> length x = sp_cols s ->
  exists s' u, sp_scale s a = Ok s' /\ wfS s' /\ sp_mul s x = Ok u /\ sp_mul s' x = Ok (vscale u a).
Proof. intros A RL s a x. exact (sp_scale_mul_lemma RL s a x). Qed.
Check sp_scale_mul : forall (A : Arith), RingLaws A -> forall (s : sparse A) (a : A) (x : list A),
  wfS s -> length x = sp_cols s ->
  exists s' u, sp_scale s a = Ok s' /\ wfS s' /\ sp_mul s x = Ok u /\ sp_mul s' x = Ok (vscale u a).
Print Assumptions sp_scale_mul.

(* P2: multiplying by the explicit transpose equals the transposed product *)
Theorem sp_transpose_mul : forall (A : Arith), RingLaws A -> forall (s : sparse A) (y : list A),
  wfS s -> length y = sp_rows s ->
  exists s' w, sp_transpose s = Ok s' /\ sp_mul s' y = Ok w /\ sp_tmul s y = Ok w.
Proof. intros A RL s y. exact (sp_transpose_mul_lemma RL s y). Qed.
Check sp_transpose_mul : forall (A : Arith), RingLaws A -> forall (s : sparse A) (y : list A),
  wfS s -> length y = sp_rows s ->
  exists s' w, sp_transpose s = Ok s' /\ sp_mul s' y = Ok w /\ sp_tmul s y = Ok w.
Print Assumptions sp_transpose_mul.

(* the matrix the products are stated against is the dense conversion: for storage with no position
   stored twice, entry (i,j) of to_dense (read through the modelled dense index) is sp_entry s i j *)
Theorem to_dense_entry : forall (A : Arith), RingLaws A -> forall (s : sparse A), wfS s -> NoDupKeys s ->
  exists D, sp_to_dense s = Ok D /\ rows D = sp_rows s /\ cols D = sp_cols s /\
    forall i j, i < sp_rows s -> j < sp_cols s -> mget D i j = Ok (sp_entry s i j).
Proof. intros A RL s. exact (to_dense_entry_lemma RL s). Qed.
Check to_dense_entry : forall (A : Arith), RingLaws A -> forall (s : sparse A), wfS s -> NoDupKeys s ->
  exists D, sp_to_dense s = Ok D /\ rows D = sp_rows s /\ cols D = sp_cols s /\
    forall i j, i < sp_rows s -> j < sp_cols s -> mget D i j = Ok (sp_entry s i j).
Print Assumptions to_dense_entry.

(* ---- non-vacuity: the hypotheses hold for a concrete non-trivial input at the exact instance ----
   a 3x4 matrix with an empty column, a column holding two entries out of row order, and a vector
   that is not all-ones. *)
Definition ex_s : sparse AQ :=
  @mkS AQ 3 4 4 [q 2 1; q (-1) 2; q 7 1; q 5 3] [2; 0; 1; 2] [0; 0; 2; 3; 4].
Definition ex_x : list AQ := [q 1 1; q 2 1; q (-3) 1; q 1 2].
Definition ex_y : list AQ := [q 4 1; q (-1) 1; q 2 1].

Example AQ_RingLaws : RingLaws AQ.
Proof. constructor. exact Qcrt. Qed.

Example ex_s_wf : wfS ex_s.
Proof.
  unfold wfS, ex_s; cbn [sp_rows sp_cols sp_nonzero sp_val sp_row_index sp_col_start length nth Nat.add].
  repeat split; try reflexivity.
  - intros j Hj. do 4 (destruct j as [|j]; [cbn [nth Nat.add]; lia|]). lia.
  - intros k Hk. do 4 (destruct k as [|k]; [cbn [nth]; lia|]). lia.
Qed.

Example sp_mul_spec_nonvacuous : wfS ex_s /\ length ex_x = sp_cols ex_s /\
  fl_res (fl_list flat_q) (sp_mul ex_s ex_x) = [0; 3;  2; -1; 1;  2; -21; 1;  2; 29; 6]%Z.   (* [-1; -21; 29/6] *)
Proof. split; [exact ex_s_wf|]. split; [reflexivity|]. vm_compute. reflexivity. Qed.

Example sp_tmul_spec_nonvacuous : wfS ex_s /\ length ex_y = sp_rows ex_s /\
  fl_res (fl_list flat_q) (sp_tmul ex_s ex_y) = [0; 4;  2; 0; 1;  2; 2; 1;  2; -7; 1;  2; 10; 3]%Z.   (* [0; 2; -7; 10/3] *)
Proof. split; [exact ex_s_wf|]. split; [reflexivity|]. vm_compute. reflexivity. Qed.

Example sp_adjoint_nonvacuous : wfS ex_s /\ length ex_x = sp_cols ex_s /\ length ex_y = sp_rows ex_s.
Proof. split; [exact ex_s_wf|]. split; reflexivity. Qed.

Example sp_scale_mul_nonvacuous : wfS ex_s /\ length ex_x = sp_cols ex_s.
Proof. split; [exact ex_s_wf|]. reflexivity. Qed.

Example sp_transpose_mul_nonvacuous : wfS ex_s /\ length ex_y = sp_rows ex_s /\
  fl_res (fl_list flat_q) (let* t := sp_transpose ex_s in sp_mul t ex_y) = [0; 4;  2; 0; 1;  2; 2; 1;  2; -7; 1;  2; 10; 3]%Z.
Proof. split; [exact ex_s_wf|]. split; [reflexivity|]. vm_compute. reflexivity. Qed.

Example ex_s_nodup : NoDupKeys ex_s.
Proof.
  unfold NoDupKeys, ents, visits, seg, ent, ex_s, trow, tcol.
  cbn [sp_rows sp_cols sp_nonzero sp_val sp_row_index sp_col_start seq flat_map map nth Nat.add Nat.sub app fst snd].
  repeat constructor; cbn [In]; intros H; repeat (destruct H as [H|H]; [discriminate H|]); destruct H.
Qed.

Example to_dense_entry_nonvacuous : wfS ex_s /\ NoDupKeys ex_s.
Proof. split; [exact ex_s_wf|exact ex_s_nodup]. Qed.

(* ---- tie to the source by proof (package r2c): the functions regenerated from /repo/src on this run by the Rust-subset ->
   Gallina translator (driver/rust2coq.py -> gen/Src*.v) are equal, for all arguments, to the hand-written model functions
   the theorems above are about (Proofs/SrcEq*.v).  A change of a loop bound, index, operator or statement order in the
   source breaks the corresponding src_<function> lemma and with it this obligation. *)
From OV Require Proofs.SrcEqSparse.
Theorem model_is_source_C07_Sparse : forall A : Arith, @SrcEqSparse.model_is_source_Sparse A.
Proof. intros A. exact SrcEqSparse.model_is_source_Sparse_lemma. Qed.
Check model_is_source_C07_Sparse : forall A : Arith, @SrcEqSparse.model_is_source_Sparse A.
Print Assumptions model_is_source_C07_Sparse.
(* ======================================================================================================
   C07 (sparse products), rounding half -- package round.  Append to Props/C07.v.
   The compressed-sparse-column product "to rounding accuracy", Model/Sparse.v [sp_mul] in the STANDARD MODEL of
   floating-point arithmetic (the same Gallina [sp_mul] at ARm): fl(A x) = (A + dA) x where dA has the sparsity
   pattern of A and perturbs every STORED value of row i by a relative amount |th| <= gam m_i, m_i = the number of
   entries stored in row i ([row_entries s i]: the (column, storage index) pairs of row i in accumulation order).
   Unproved remainder: the standard model itself for IEEE binary64 (only dot / dense multiply are tied to the
   primitive-float instance, Props/C15.v and Props/C03.v); transpose_multiply (same loop shape, not stated).
   ====================================================================================================== *)
From Coq Require Import Reals Lra Lia.
From OV Require Import Base.RoundModel Proofs.SparseBase Proofs.RoundDot Proofs.RoundSparse Proofs.RoundFlx Proofs.RoundExamples.

Theorem sp_mul_backward_error : forall (u : R), (0 <= u < 1)%R ->
  forall (fadd fsub fmul fdiv : R -> R -> R),
  (forall x y : R, exists d : R, (Rabs d <= u)%R /\ fadd x y = ((x + y) * (1 + d))%R) ->
  (forall x y : R, exists d : R, (Rabs d <= u)%R /\ fmul x y = (x * y * (1 + d))%R) ->
  (forall a b : R, fadd 0%R (fmul a b) = fmul a b) ->
  forall (s : sparse (ARm fadd fsub fmul fdiv)) (x y : list R),
  wfS s -> sp_mul s x = Ok y ->
  length y = sp_rows s /\
  forall i, (i < sp_rows s)%nat -> (INR (length (row_entries s i)) * u < 1)%R ->
    exists th : nat -> R,
      (forall t, (t < length (row_entries s i))%nat ->
         (Rabs (th t) <= gam u (length (row_entries s i)))%R) /\
      nth i y 0%R = Rsum (length (row_entries s i))
                      (fun t => (re_val s i t * (1 + th t)
                                 * nth (re_col s i t) x 0)%R).
Proof. intros u Hu fadd fsub fmul fdiv Ha Hm H0 s x y. exact (sp_mul_backward_error_lemma u Hu fadd fsub fmul fdiv Ha Hm H0 s x y). Qed.
Check sp_mul_backward_error : forall (u : R), (0 <= u < 1)%R ->
  forall (fadd fsub fmul fdiv : R -> R -> R),
  (forall x y : R, exists d : R, (Rabs d <= u)%R /\ fadd x y = ((x + y) * (1 + d))%R) ->
  (forall x y : R, exists d : R, (Rabs d <= u)%R /\ fmul x y = (x * y * (1 + d))%R) ->
  (forall a b : R, fadd 0%R (fmul a b) = fmul a b) ->
  forall (s : sparse (ARm fadd fsub fmul fdiv)) (x y : list R),
  wfS s -> sp_mul s x = Ok y ->
  length y = sp_rows s /\
  forall i, (i < sp_rows s)%nat -> (INR (length (row_entries s i)) * u < 1)%R ->
    exists th : nat -> R,
      (forall t, (t < length (row_entries s i))%nat ->
         (Rabs (th t) <= gam u (length (row_entries s i)))%R) /\
      nth i y 0%R = Rsum (length (row_entries s i))
                      (fun t => (re_val s i t * (1 + th t)
                                 * nth (re_col s i t) x 0)%R).
Print Assumptions sp_mul_backward_error.
(* the 2x2 matrix [[1,0],[2,3]] in compressed-column form times [5,6], in the arithmetic that rounds every operation *)
Example sp_mul_backward_error_nonvacuous :
  (0 <= ux < 1)%R /\
  (forall x y : R, exists d : R, (Rabs d <= ux)%R /\ xadd x y = ((x + y) * (1 + d))%R) /\
  (forall x y : R, exists d : R, (Rabs d <= ux)%R /\ xmul x y = (x * y * (1 + d))%R) /\
  (forall a b : R, xadd 0%R (xmul a b) = xmul a b) /\
  wfS ex_sp /\ (exists y, sp_mul ex_sp [5%R; 6%R] = Ok y) /\
  (forall i, (i < sp_rows ex_sp)%nat -> (INR (length (row_entries ex_sp i)) * ux < 1)%R) /\
  length (row_entries ex_sp 1) = 2%nat.
Proof.
  split; [exact ux_range|]. split; [exact xadd_ok|]. split; [exact xmul_ok|]. split; [exact xadd_0_mul|].
  split; [exact ex_sp_wf|]. split; [eexists; reflexivity|]. split; [exact ex_sp_rows|reflexivity].
Qed.

Theorem sp_mul_forward_error : forall (u : R), (0 <= u < 1)%R ->
  forall (fadd fsub fmul fdiv : R -> R -> R),
  (forall x y : R, exists d : R, (Rabs d <= u)%R /\ fadd x y = ((x + y) * (1 + d))%R) ->
  (forall x y : R, exists d : R, (Rabs d <= u)%R /\ fmul x y = (x * y * (1 + d))%R) ->
  (forall a b : R, fadd 0%R (fmul a b) = fmul a b) ->
  forall (s : sparse (ARm fadd fsub fmul fdiv)) (x y : list R),
  wfS s -> sp_mul s x = Ok y ->
  forall i, (i < sp_rows s)%nat -> (INR (length (row_entries s i)) * u < 1)%R ->
    (Rabs (nth i y 0 - Rsum (length (row_entries s i))
                         (fun t => re_val s i t * nth (re_col s i t) x 0))
       <= gam u (length (row_entries s i))
          * Rsum (length (row_entries s i))
              (fun t => Rabs (re_val s i t) * Rabs (nth (re_col s i t) x 0)))%R.
Proof. intros u Hu fadd fsub fmul fdiv Ha Hm H0 s x y. exact (sp_mul_forward_error_lemma u Hu fadd fsub fmul fdiv Ha Hm H0 s x y). Qed.
Check sp_mul_forward_error : forall (u : R), (0 <= u < 1)%R ->
  forall (fadd fsub fmul fdiv : R -> R -> R),
  (forall x y : R, exists d : R, (Rabs d <= u)%R /\ fadd x y = ((x + y) * (1 + d))%R) ->
  (forall x y : R, exists d : R, (Rabs d <= u)%R /\ fmul x y = (x * y * (1 + d))%R) ->
  (forall a b : R, fadd 0%R (fmul a b) = fmul a b) ->
  forall (s : sparse (ARm fadd fsub fmul fdiv)) (x y : list R),
  wfS s -> sp_mul s x = Ok y ->
  forall i, (i < sp_rows s)%nat -> (INR (length (row_entries s i)) * u < 1)%R ->
    (Rabs (nth i y 0 - Rsum (length (row_entries s i))
                         (fun t => re_val s i t * nth (re_col s i t) x 0))
       <= gam u (length (row_entries s i))
          * Rsum (length (row_entries s i))
              (fun t => Rabs (re_val s i t) * Rabs (nth (re_col s i t) x 0)))%R.
Print Assumptions sp_mul_forward_error.
Example sp_mul_forward_error_nonvacuous :   (* same instance *)
  (0 <= ux < 1)%R /\ wfS ex_sp /\ (exists y, sp_mul ex_sp [5%R; 6%R] = Ok y) /\
  (forall i, (i < sp_rows ex_sp)%nat -> (INR (length (row_entries ex_sp i)) * ux < 1)%R).
Proof. split; [exact ux_range|]. split; [exact ex_sp_wf|]. split; [eexists; reflexivity|exact ex_sp_rows]. Qed.

(* ---- the same at the PRIMITIVE-FLOAT instance (IEEE binary64, u = 2^-53), through Flocq: for every finite component
   of the result whose products do not underflow; no hypothesis about rounding remains ---- *)
From Coq Require Import Floats.
From OV Require Import Inst.FloatInst Proofs.ComplexRound Proofs.RoundDotFloat.

Theorem sp_mul_backward_error_float : forall (s : sparse AF) (x y : list PrimFloat.float),
  wfS s -> sp_mul (A := AF) s x = Ok y ->
  length y = sp_rows s /\
  forall i, (i < sp_rows s)%nat -> ffinite (nth i y 0%float) ->
    (forall t, (t < length (row_entries s i))%nat ->
       no_underflow (FR (re_val s i t) * FR (nth (re_col s i t) x 0%float))%R) ->
    (INR (length (row_entries s i)) * u64 < 1)%R ->
    exists th : nat -> R,
      (forall t, (t < length (row_entries s i))%nat -> (Rabs (th t) <= g64 (length (row_entries s i)))%R) /\
      FR (nth i y 0%float) = Rsum (length (row_entries s i))
                               (fun t => (FR (re_val s i t) * (1 + th t) * FR (nth (re_col s i t) x 0%float))%R).
Proof. exact sp_mul_backward_error_float_lemma. Qed.
Check sp_mul_backward_error_float : forall (s : sparse AF) (x y : list PrimFloat.float),
  wfS s -> sp_mul (A := AF) s x = Ok y ->
  length y = sp_rows s /\
  forall i, (i < sp_rows s)%nat -> ffinite (nth i y 0%float) ->
    (forall t, (t < length (row_entries s i))%nat ->
       no_underflow (FR (re_val s i t) * FR (nth (re_col s i t) x 0%float))%R) ->
    (INR (length (row_entries s i)) * u64 < 1)%R ->
    exists th : nat -> R,
      (forall t, (t < length (row_entries s i))%nat -> (Rabs (th t) <= g64 (length (row_entries s i)))%R) /\
      FR (nth i y 0%float) = Rsum (length (row_entries s i))
                               (fun t => (FR (re_val s i t) * (1 + th t) * FR (nth (re_col s i t) x 0%float))%R).
Print Assumptions sp_mul_backward_error_float.
(* [[1.5,0],[2,3]] in compressed-column form times [3,4] in binary64; row 1 accumulates two products *)
Example sp_mul_backward_error_float_nonvacuous :
  let s := @mkS AF 2 2 3 [1.5%float; 2%float; 3%float] [0%nat; 1%nat; 1%nat] [0%nat; 2%nat; 3%nat] in
  let x := [3%float; 4%float] in
  wfS s /\ exists y, sp_mul (A := AF) s x = Ok y /\ ffinite (nth 1 y 0%float) /\
    (forall t, (t < length (row_entries s 1))%nat ->
       no_underflow (FR (re_val s 1 t) * FR (nth (re_col s 1 t) x 0%float))%R) /\
    (INR (length (row_entries s 1)) * u64 < 1)%R /\ length (row_entries s 1) = 2%nat.
Proof.
  cbn zeta. split.
  { unfold wfS; cbn. repeat split; try reflexivity.
    - intros [|[|j]] Hj; cbn; lia.
    - intros [|[|[|k]]] Hk; cbn; lia. }
  eexists. split; [vm_compute; reflexivity|]. split; [apply ffinite_SF; reflexivity|].
  assert (E2 : FR 2%float = 2%R) by fr_eval. assert (E3 : FR 3%float = 3%R) by fr_eval.
  assert (E4 : FR 4%float = 4%R) by fr_eval.
  split; [|split; [cbn; pose proof u64_small; lra|reflexivity]].
  intros [|[|t]] Ht; cbn in Ht; try lia; unfold re_val, re_col; cbn -[FR]; rewrite ?E2, ?E3, ?E4;
    apply no_underflow_ge1; rewrite Rabs_pos_eq; lra.
Qed.

(* ---- the dense formulation: fl(A x) = (A + dA) x, |dA| <= gam |A| componentwise ----
   sp_rentry s i j = the (i,j) entry the structure denotes over the reals (sum of the stored values of row i that sit in
   column j), sp_rabs s i j = the sum of their absolute values; the two agree in absolute value when no position of the
   row is stored twice (sp_rabs_nodup). *)
From OV Require Import Proofs.RoundSparseDense.

Theorem sp_mul_dense_backward_error : forall (u : R), (0 <= u < 1)%R ->
  forall (fadd fsub fmul fdiv : R -> R -> R),
  (forall x y : R, exists d : R, (Rabs d <= u)%R /\ fadd x y = ((x + y) * (1 + d))%R) ->
  (forall x y : R, exists d : R, (Rabs d <= u)%R /\ fmul x y = (x * y * (1 + d))%R) ->
  (forall a b : R, fadd 0%R (fmul a b) = fmul a b) ->
  forall (s : sparse (ARm fadd fsub fmul fdiv)) (x y : list R),
  wfS s -> sp_mul s x = Ok y ->
  length y = sp_rows s /\
  exists dA : nat -> nat -> R,
    forall i, (i < sp_rows s)%nat -> (INR (length (row_entries s i)) * u < 1)%R ->
      (forall j, (j < sp_cols s)%nat ->
         (Rabs (dA i j) <= gam u (length (row_entries s i)) * sp_rabs fadd fsub fmul fdiv s i j)%R) /\
      nth i y 0%R = Rsum (sp_cols s) (fun j => ((sp_rentry fadd fsub fmul fdiv s i j + dA i j) * nth j x 0)%R).
Proof. intros u Hu fadd fsub fmul fdiv Ha Hm H0 s x y. exact (sp_mul_dense_backward_error_lemma u Hu fadd fsub fmul fdiv Ha Hm H0 s x y). Qed.
Check sp_mul_dense_backward_error : forall (u : R), (0 <= u < 1)%R ->
  forall (fadd fsub fmul fdiv : R -> R -> R),
  (forall x y : R, exists d : R, (Rabs d <= u)%R /\ fadd x y = ((x + y) * (1 + d))%R) ->
  (forall x y : R, exists d : R, (Rabs d <= u)%R /\ fmul x y = (x * y * (1 + d))%R) ->
  (forall a b : R, fadd 0%R (fmul a b) = fmul a b) ->
  forall (s : sparse (ARm fadd fsub fmul fdiv)) (x y : list R),
  wfS s -> sp_mul s x = Ok y ->
  length y = sp_rows s /\
  exists dA : nat -> nat -> R,
    forall i, (i < sp_rows s)%nat -> (INR (length (row_entries s i)) * u < 1)%R ->
      (forall j, (j < sp_cols s)%nat ->
         (Rabs (dA i j) <= gam u (length (row_entries s i)) * sp_rabs fadd fsub fmul fdiv s i j)%R) /\
      nth i y 0%R = Rsum (sp_cols s) (fun j => ((sp_rentry fadd fsub fmul fdiv s i j + dA i j) * nth j x 0)%R).
Print Assumptions sp_mul_dense_backward_error.
Example sp_mul_dense_backward_error_nonvacuous :   (* the instance of sp_mul_backward_error_nonvacuous; its rows store no position twice *)
  (0 <= ux < 1)%R /\ wfS ex_sp /\ (exists y, sp_mul ex_sp [5%R; 6%R] = Ok y) /\
  (forall i, (i < sp_rows ex_sp)%nat -> (INR (length (row_entries ex_sp i)) * ux < 1)%R) /\
  (forall i, (i < sp_rows ex_sp)%nat -> row_nodup xadd xsub xmul xdiv ex_sp i).
Proof.
  split; [exact ux_range|]. split; [exact ex_sp_wf|]. split; [eexists; reflexivity|]. split; [exact ex_sp_rows|].
  intros [|[|i]] Hi; cbn in Hi; try lia; intros t t' Ht Ht'; cbn in Ht, Ht'.
  - assert (t = 0%nat) by lia. assert (t' = 0%nat) by lia. congruence.
  - destruct t as [|[|t]], t' as [|[|t']]; try lia; cbn; intros E; try reflexivity; discriminate.
Qed.

(* ---- transpose_multiply (sp_tmul): the gather loop, standard model and primitive floats ----
   [col_entries s j] lists the (column, storage index) pairs of column j in storage order; every stored value of
   column j is perturbed relatively by at most gam c_j, c_j = the number of entries stored in column j. *)
From OV Require Import Proofs.RoundSparseT.

Theorem sp_tmul_backward_error : forall (u : R), (0 <= u < 1)%R ->
  forall (fadd fsub fmul fdiv : R -> R -> R),
  (forall x y : R, exists d : R, (Rabs d <= u)%R /\ fadd x y = ((x + y) * (1 + d))%R) ->
  (forall x y : R, exists d : R, (Rabs d <= u)%R /\ fmul x y = (x * y * (1 + d))%R) ->
  (forall a b : R, fadd 0%R (fmul a b) = fmul a b) ->
  forall (s : sparse (ARm fadd fsub fmul fdiv)) (x y : list R),
  wfS s -> sp_tmul s x = Ok y ->
  length y = sp_cols s /\
  forall j, (j < sp_cols s)%nat -> (INR (length (col_entries s j)) * u < 1)%R ->
    exists th : nat -> R,
      (forall t, (t < length (col_entries s j))%nat -> (Rabs (th t) <= gam u (length (col_entries s j)))%R) /\
      nth j y 0%R = Rsum (length (col_entries s j))
                      (fun t => (ce_val s j t * (1 + th t) * nth (ce_row s j t) x 0)%R).
Proof. intros u Hu fadd fsub fmul fdiv Ha Hm H0 s x y. exact (sp_tmul_backward_error_lemma u Hu fadd fsub fmul fdiv Ha Hm H0 s x y). Qed.
Check sp_tmul_backward_error : forall (u : R), (0 <= u < 1)%R ->
  forall (fadd fsub fmul fdiv : R -> R -> R),
  (forall x y : R, exists d : R, (Rabs d <= u)%R /\ fadd x y = ((x + y) * (1 + d))%R) ->
  (forall x y : R, exists d : R, (Rabs d <= u)%R /\ fmul x y = (x * y * (1 + d))%R) ->
  (forall a b : R, fadd 0%R (fmul a b) = fmul a b) ->
  forall (s : sparse (ARm fadd fsub fmul fdiv)) (x y : list R),
  wfS s -> sp_tmul s x = Ok y ->
  length y = sp_cols s /\
  forall j, (j < sp_cols s)%nat -> (INR (length (col_entries s j)) * u < 1)%R ->
    exists th : nat -> R,
      (forall t, (t < length (col_entries s j))%nat -> (Rabs (th t) <= gam u (length (col_entries s j)))%R) /\
      nth j y 0%R = Rsum (length (col_entries s j))
                      (fun t => (ce_val s j t * (1 + th t) * nth (ce_row s j t) x 0)%R).
Print Assumptions sp_tmul_backward_error.
Example sp_tmul_backward_error_nonvacuous :   (* the matrix of sp_mul_backward_error_nonvacuous, transposed product with [5,6] *)
  (0 <= ux < 1)%R /\ wfS ex_sp /\ (exists y, sp_tmul ex_sp [5%R; 6%R] = Ok y) /\
  (forall j, (j < sp_cols ex_sp)%nat -> (INR (length (col_entries ex_sp j)) * ux < 1)%R) /\
  length (col_entries ex_sp 0) = 2%nat.
Proof.
  split; [exact ux_range|]. split; [exact ex_sp_wf|]. split; [eexists; reflexivity|]. split; [|reflexivity].
  intros [|[|j]] Hj; cbn in Hj; try lia; cbn; pose proof ux_small; lra.
Qed.

Theorem sp_tmul_backward_error_float : forall (s : sparse AF) (x y : list PrimFloat.float),
  wfS s -> sp_tmul (A := AF) s x = Ok y ->
  length y = sp_cols s /\
  forall j, (j < sp_cols s)%nat -> ffinite (nth j y 0%float) ->
    (forall t, (t < length (col_entries s j))%nat ->
       no_underflow (FR (ce_val s j t) * FR (nth (ce_row s j t) x 0%float))%R) ->
    (INR (length (col_entries s j)) * u64 < 1)%R ->
    exists th : nat -> R,
      (forall t, (t < length (col_entries s j))%nat -> (Rabs (th t) <= g64 (length (col_entries s j)))%R) /\
      FR (nth j y 0%float) = Rsum (length (col_entries s j))
                               (fun t => (FR (ce_val s j t) * (1 + th t) * FR (nth (ce_row s j t) x 0%float))%R).
Proof. exact sp_tmul_backward_error_float_lemma. Qed.
Check sp_tmul_backward_error_float : forall (s : sparse AF) (x y : list PrimFloat.float),
  wfS s -> sp_tmul (A := AF) s x = Ok y ->
  length y = sp_cols s /\
  forall j, (j < sp_cols s)%nat -> ffinite (nth j y 0%float) ->
    (forall t, (t < length (col_entries s j))%nat ->
       no_underflow (FR (ce_val s j t) * FR (nth (ce_row s j t) x 0%float))%R) ->
    (INR (length (col_entries s j)) * u64 < 1)%R ->
    exists th : nat -> R,
      (forall t, (t < length (col_entries s j))%nat -> (Rabs (th t) <= g64 (length (col_entries s j)))%R) /\
      FR (nth j y 0%float) = Rsum (length (col_entries s j))
                               (fun t => (FR (ce_val s j t) * (1 + th t) * FR (nth (ce_row s j t) x 0%float))%R).
Print Assumptions sp_tmul_backward_error_float.
Example sp_tmul_backward_error_float_nonvacuous :   (* column 0 of [[1.5,0],[2,3]] gathers two products *)
  let s := @mkS AF 2 2 3 [1.5%float; 2%float; 3%float] [0%nat; 1%nat; 1%nat] [0%nat; 2%nat; 3%nat] in
  let x := [3%float; 4%float] in
  wfS s /\ exists y, sp_tmul (A := AF) s x = Ok y /\ ffinite (nth 0 y 0%float) /\
    (forall t, (t < length (col_entries s 0))%nat ->
       no_underflow (FR (ce_val s 0 t) * FR (nth (ce_row s 0 t) x 0%float))%R) /\
    (INR (length (col_entries s 0)) * u64 < 1)%R /\ length (col_entries s 0) = 2%nat.
Proof.
  cbn zeta. split.
  { unfold wfS; cbn. repeat split; try reflexivity.
    - intros [|[|j]] Hj; cbn; lia.
    - intros [|[|[|k]]] Hk; cbn; lia. }
  eexists. split; [vm_compute; reflexivity|]. split; [apply ffinite_SF; reflexivity|].
  assert (E15 : FR 1.5%float = 1.5%R) by fr_eval. assert (E2 : FR 2%float = 2%R) by fr_eval.
  assert (E3 : FR 3%float = 3%R) by fr_eval. assert (E4 : FR 4%float = 4%R) by fr_eval.
  split; [|split; [cbn; pose proof u64_small; lra|reflexivity]].
  intros [|[|t]] Ht; cbn in Ht; try lia; unfold ce_val, ce_row; cbn -[FR]; rewrite ?E15, ?E2, ?E3, ?E4;
    apply no_underflow_ge1; rewrite Rabs_pos_eq; lra.
Qed.

(* ======================================================================================================
   C07 (sparse products), duplicate positions -- package dups.  Append to Props/C07.v.
   sp_mul_spec / sp_tmul_spec / sp_adjoint / sp_transpose_mul above hold for EVERY well-formed storage: the products are
   the dense products of the matrix [sp_entry s], whose (i,j) entry is the SUM of the values stored for (i,j)
   (sp_entry_is_sum; [dvals s i j] = those values in storage order, Proofs/SparseDup.v).  to_dense keeps the LAST stored
   value (Props/C06.v to_dense_last_duplicate).  Hence: the sparse product equals the product with the dense conversion
   (the model's own Matrix::multiply applied to to_dense s) for all vectors IFF at every position the duplicates sum to the
   last one (sp_mul_to_dense_iff, sp_tmul_to_dense_iff); with no position stored twice they do (nodup_first_last_sum,
   sp_mul_to_dense_nodup; to_dense_entry re-derived); adjointness and the product with the explicit transpose need no
   condition, and transposition preserves every entry sum (adjoint_with_duplicates).
   ====================================================================================================== *)
From Coq Require Import Permutation.
From OV Require Proofs.Matrix.
From OV Require Import Proofs.SparseDup Proofs.SparseDupOps Proofs.SparseDupMul Proofs.SparseDupOrder Proofs.SparseDupExamples.

(* the entry the products work with is the SUM of the values stored for the position (the definition of sp_entry, restated through dvals) *)
Theorem sp_entry_is_sum : forall (A : Arith) (s : sparse A) i j, sp_entry s i j = suml (dvals s i j).
Proof. intros A s i j. exact (sp_entry_is_sum_lemma s i j). Qed.
Check sp_entry_is_sum : forall (A : Arith) (s : sparse A) i j, sp_entry s i j = suml (dvals s i j).
Print Assumptions sp_entry_is_sum.
Example sp_entry_is_sum_nonvacuous :   (* 2 + 30 + 500 at position (1,1) of dup_s *)
  length (dvals dup_s 1 1) = 3 /\ flat_q (sp_entry dup_s 1 1) = [2; 532; 1]%Z.
Proof. split; [reflexivity|vm_compute; reflexivity]. Qed.

(* no position stored twice: at most one value per position, so first = last = sum *)
Theorem nodup_first_last_sum : forall (A : Arith), RingLaws A -> forall (s : sparse A) i j, wfS s -> NoDupKeys s -> j < sp_cols s ->
  length (dvals s i j) <= 1 /\ hd (@Arith.zero A) (dvals s i j) = last (dvals s i j) (@Arith.zero A) /\
  last (dvals s i j) (@Arith.zero A) = sp_entry s i j.
Proof. intros A RL s i j. exact (nodup_first_last_sum_lemma RL s i j). Qed.
Check nodup_first_last_sum : forall (A : Arith), RingLaws A -> forall (s : sparse A) i j, wfS s -> NoDupKeys s -> j < sp_cols s ->
  length (dvals s i j) <= 1 /\ hd (@Arith.zero A) (dvals s i j) = last (dvals s i j) (@Arith.zero A) /\
  last (dvals s i j) (@Arith.zero A) = sp_entry s i j.
Print Assumptions nodup_first_last_sum.
Example nodup_first_last_sum_nonvacuous :
  RingLaws AQ /\ wfS nd_s /\ NoDupKeys nd_s /\ 1 < sp_cols nd_s /\ length (dvals nd_s 2 1) = 1.
Proof. split; [exact dup_RingLaws|]. split; [exact nd_s_wf|]. split; [exact nd_s_nodup|]. split; [cbn; lia|reflexivity]. Qed.

(* to_dense_entry (above), re-derived from to_dense_last_duplicate *)
Theorem to_dense_entry_from_duplicates : forall (A : Arith), RingLaws A -> forall (s : sparse A), wfS s -> NoDupKeys s ->
  exists D, sp_to_dense s = Ok D /\ rows D = sp_rows s /\ cols D = sp_cols s /\
    forall i j, i < sp_rows s -> j < sp_cols s -> mget D i j = Ok (sp_entry s i j).
Proof. intros A RL s. exact (to_dense_entry_rederived_lemma RL s). Qed.
Check to_dense_entry_from_duplicates : forall (A : Arith), RingLaws A -> forall (s : sparse A), wfS s -> NoDupKeys s ->
  exists D, sp_to_dense s = Ok D /\ rows D = sp_rows s /\ cols D = sp_cols s /\
    forall i j, i < sp_rows s -> j < sp_cols s -> mget D i j = Ok (sp_entry s i j).
Print Assumptions to_dense_entry_from_duplicates.
Example to_dense_entry_from_duplicates_nonvacuous :
  RingLaws AQ /\ wfS nd_s /\ NoDupKeys nd_s.
Proof. split; [exact dup_RingLaws|]. split; [exact nd_s_wf|exact nd_s_nodup]. Qed.

(* multiply = Matrix::multiply of the dense conversion, for all vectors, IFF at every position the stored duplicates sum to the last one *)
Theorem sp_mul_to_dense_iff : forall (A : Arith), RingLaws A -> forall (s : sparse A), wfS s ->
  exists D, sp_to_dense s = Ok D /\ rows D = sp_rows s /\ cols D = sp_cols s /\
    (forall i j, i < sp_rows s -> j < sp_cols s -> mget D i j = Ok (last (dvals s i j) (@Arith.zero A))) /\
    ((forall x, length x = sp_cols s -> sp_mul s x = multiply D x) <->
     (forall i j, i < sp_rows s -> j < sp_cols s -> suml (dvals s i j) = last (dvals s i j) (@Arith.zero A))).
Proof. intros A RL s. exact (sp_mul_to_dense_iff_lemma RL s). Qed.
Check sp_mul_to_dense_iff : forall (A : Arith), RingLaws A -> forall (s : sparse A), wfS s ->
  exists D, sp_to_dense s = Ok D /\ rows D = sp_rows s /\ cols D = sp_cols s /\
    (forall i j, i < sp_rows s -> j < sp_cols s -> mget D i j = Ok (last (dvals s i j) (@Arith.zero A))) /\
    ((forall x, length x = sp_cols s -> sp_mul s x = multiply D x) <->
     (forall i j, i < sp_rows s -> j < sp_cols s -> suml (dvals s i j) = last (dvals s i j) (@Arith.zero A))).
Print Assumptions sp_mul_to_dense_iff.
Example sp_mul_to_dense_iff_nonvacuous :   (* on dup_s the two products differ: [-11; -1064] against [-11; -1000] *)
  RingLaws AQ /\ wfS dup_s /\ length dup_x = sp_cols dup_s /\
  fl_res (fl_list flat_q) (sp_mul dup_s dup_x) <> fl_res (fl_list flat_q) (let* D := sp_to_dense dup_s in multiply D dup_x).
Proof. split; [exact dup_RingLaws|]. split; [exact dup_s_wf|]. split; [reflexivity|]. vm_compute. discriminate. Qed.

(* transpose_multiply = the transposed dense product of the dense conversion, for all vectors, IFF the same condition holds ([dlast s i j] = last (dvals s i j) (@Arith.zero A); [Matrix.msp r c f D]: D is a well-formed r x c dense matrix with entries f) *)
Theorem sp_tmul_to_dense_iff : forall (A : Arith), RingLaws A -> forall (s : sparse A), wfS s ->
  exists D, sp_to_dense s = Ok D /\ Proofs.Matrix.msp (sp_rows s) (sp_cols s) (dlast s) D /\
    ((forall y, length y = sp_rows s -> sp_tmul s y = Ok (dtmulv (Proofs.Matrix.entry D) (sp_rows s) (sp_cols s) y)) <->
     (forall i j, i < sp_rows s -> j < sp_cols s -> suml (dvals s i j) = last (dvals s i j) (@Arith.zero A))).
Proof. intros A RL s. exact (sp_tmul_to_dense_iff_lemma RL s). Qed.
Check sp_tmul_to_dense_iff : forall (A : Arith), RingLaws A -> forall (s : sparse A), wfS s ->
  exists D, sp_to_dense s = Ok D /\ Proofs.Matrix.msp (sp_rows s) (sp_cols s) (dlast s) D /\
    ((forall y, length y = sp_rows s -> sp_tmul s y = Ok (dtmulv (Proofs.Matrix.entry D) (sp_rows s) (sp_cols s) y)) <->
     (forall i j, i < sp_rows s -> j < sp_cols s -> suml (dvals s i j) = last (dvals s i j) (@Arith.zero A))).
Print Assumptions sp_tmul_to_dense_iff.
Example sp_tmul_to_dense_iff_nonvacuous :
  RingLaws AQ /\ wfS dup_s /\ length dup_y = sp_rows dup_s /\ flat_q (suml (dvals dup_s 1 1)) <> flat_q (last (dvals dup_s 1 1) (@Arith.zero AQ)).
Proof. split; [exact dup_RingLaws|]. split; [exact dup_s_wf|]. split; [reflexivity|]. vm_compute. discriminate. Qed.

(* DESIGN Appendix E in its original form: with no position stored twice the sparse product IS the dense product of to_dense *)
Theorem sp_mul_to_dense_nodup : forall (A : Arith), RingLaws A -> forall (s : sparse A) (x : list A), wfS s -> NoDupKeys s -> length x = sp_cols s ->
  exists D, sp_to_dense s = Ok D /\ sp_mul s x = multiply D x.
Proof. intros A RL s x. exact (sp_mul_to_dense_nodup_lemma RL s x). Qed.
Check sp_mul_to_dense_nodup : forall (A : Arith), RingLaws A -> forall (s : sparse A) (x : list A), wfS s -> NoDupKeys s -> length x = sp_cols s ->
  exists D, sp_to_dense s = Ok D /\ sp_mul s x = multiply D x.
Print Assumptions sp_mul_to_dense_nodup.
Example sp_mul_to_dense_nodup_nonvacuous :
  RingLaws AQ /\ wfS nd_s /\ NoDupKeys nd_s /\ length [q 1 1; q 2 1; q (-3) 1; q 1 2] = sp_cols nd_s.
Proof. split; [exact dup_RingLaws|]. split; [exact nd_s_wf|]. split; [exact nd_s_nodup|reflexivity]. Qed.

(* adjointness and the explicit transpose with duplicates: no condition; transposition keeps the stored values of every position in order, hence every entry sum *)
Theorem adjoint_with_duplicates : forall (A : Arith), RingLaws A -> forall (s : sparse A) (x y : list A),
  wfS s -> length x = sp_cols s -> length y = sp_rows s ->
  (exists u w d, sp_mul s x = Ok u /\ sp_tmul s y = Ok w /\ dot y u = Ok d /\ dot w x = Ok d) /\
  (exists s' w, sp_transpose s = Ok s' /\ wfS s' /\ sp_mul s' y = Ok w /\ sp_tmul s y = Ok w /\
     forall i j, i < sp_rows s -> j < sp_cols s -> dvals s' j i = dvals s i j /\ sp_entry s' j i = sp_entry s i j).
Proof. intros A RL s x y. exact (adjoint_with_duplicates_lemma RL s x y). Qed.
Check adjoint_with_duplicates : forall (A : Arith), RingLaws A -> forall (s : sparse A) (x y : list A),
  wfS s -> length x = sp_cols s -> length y = sp_rows s ->
  (exists u w d, sp_mul s x = Ok u /\ sp_tmul s y = Ok w /\ dot y u = Ok d /\ dot w x = Ok d) /\
  (exists s' w, sp_transpose s = Ok s' /\ wfS s' /\ sp_mul s' y = Ok w /\ sp_tmul s y = Ok w /\
     forall i j, i < sp_rows s -> j < sp_cols s -> dvals s' j i = dvals s i j /\ sp_entry s' j i = sp_entry s i j).
Print Assumptions adjoint_with_duplicates.
Example adjoint_with_duplicates_nonvacuous :   (* <y, A x> = <A^T y, x> = -7503 on dup_s *)
  RingLaws AQ /\ wfS dup_s /\ length dup_x = sp_cols dup_s /\ length dup_y = sp_rows dup_s /\ ~ NoDupKeys dup_s /\
  fl_res flat_q (let* u := sp_mul dup_s dup_x in dot dup_y u) = [2; -7503; 1]%Z.
Proof. split; [exact dup_RingLaws|]. split; [exact dup_s_wf|]. split; [reflexivity|]. split; [reflexivity|]. split; [exact dup_s_has_duplicates|]. vm_compute. reflexivity. Qed.

(* the products do not depend on the order of the triplets at all, duplicates or not (lookups and to_dense do: Props/C06.v from_triplets_duplicates) *)
Theorem from_triplets_products_order_independent : forall (A : Arith), RingLaws A -> forall r c (ts ts' : list (triplet A)),
  Permutation ts ts' -> (forall t, In t ts -> trow t < r /\ tcol t < c) ->
  exists s s', sp_from_triplets r c ts = Ok s /\ sp_from_triplets r c ts' = Ok s' /\
    (forall i j, i < r -> j < c -> sp_entry s i j = sp_entry s' i j) /\
    (forall x, length x = c -> sp_mul s x = sp_mul s' x) /\
    (forall y, length y = r -> sp_tmul s y = sp_tmul s' y).
Proof. intros A RL r c ts ts'. exact (from_triplets_products_order_independent_lemma RL r c ts ts'). Qed.
Check from_triplets_products_order_independent : forall (A : Arith), RingLaws A -> forall r c (ts ts' : list (triplet A)),
  Permutation ts ts' -> (forall t, In t ts -> trow t < r /\ tcol t < c) ->
  exists s s', sp_from_triplets r c ts = Ok s /\ sp_from_triplets r c ts' = Ok s' /\
    (forall i j, i < r -> j < c -> sp_entry s i j = sp_entry s' i j) /\
    (forall x, length x = c -> sp_mul s x = sp_mul s' x) /\
    (forall y, length y = r -> sp_tmul s y = sp_tmul s' y).
Print Assumptions from_triplets_products_order_independent.
Example from_triplets_products_order_independent_nonvacuous :   (* the reversed list: get(1,1) changes from 2 to 500, the products do not change *)
  RingLaws AQ /\ Permutation dup_ts (rev dup_ts) /\ (forall t, In t dup_ts -> trow t < 2 /\ tcol t < 2) /\
  fl_res (fun o : option AQ => flat_q (oval o)) (let* s := sp_from_triplets 2 2 dup_ts in sp_get s 1 1)
  <> fl_res (fun o : option AQ => flat_q (oval o)) (let* s := sp_from_triplets 2 2 (rev dup_ts) in sp_get s 1 1).
Proof. split; [exact dup_RingLaws|]. split; [apply Permutation_rev|]. split; [exact dup_ts_in_range|]. vm_compute. discriminate. Qed.

(* ---- round 7 (linearity): both sparse products are linear maps of their vector argument.  Stated with the
   library's own guarded vector operations (vadd / vsub: size guard then element-wise; vscale: vector * scalar),
   for every well-formed storage (duplicates included), any shape, any ring.  Together with sp_mul_spec this is
   what "sparse products equal dense products" implies for combinations of products (residuals b - A x,
   updates A (x + alpha p)) as the Krylov solvers of C08/C09 form them. *)
From OV Require Proofs.SparseLinear.

Theorem sp_mul_add : forall (A : Arith), RingLaws A -> forall (s : sparse A) (x y : list A),
  wfS s -> length x = sp_cols s -> length y = sp_cols s ->
  exists xy u v uv, vadd x y = Ok xy /\ sp_mul s x = Ok u /\ sp_mul s y = Ok v /\ vadd u v = Ok uv /\ sp_mul s xy = Ok uv.
Proof. intros A RL s x y. exact (SparseLinear.sp_mul_add_lemma RL s x y). Qed.
Check sp_mul_add : forall (A : Arith), RingLaws A -> forall (s : sparse A) (x y : list A),
  wfS s -> length x = sp_cols s -> length y = sp_cols s ->
  exists xy u v uv, vadd x y = Ok xy /\ sp_mul s x = Ok u /\ sp_mul s y = Ok v /\ vadd u v = Ok uv /\ sp_mul s xy = Ok uv.
Print Assumptions sp_mul_add.

Theorem sp_mul_sub : forall (A : Arith), RingLaws A -> forall (s : sparse A) (x y : list A),
  wfS s -> length x = sp_cols s -> length y = sp_cols s ->
  exists xy u v uv, vsub x y = Ok xy /\ sp_mul s x = Ok u /\ sp_mul s y = Ok v /\ vsub u v = Ok uv /\ sp_mul s xy = Ok uv.
Proof. intros A RL s x y. exact (SparseLinear.sp_mul_sub_lemma RL s x y). Qed.
Check sp_mul_sub : forall (A : Arith), RingLaws A -> forall (s : sparse A) (x y : list A),
  wfS s -> length x = sp_cols s -> length y = sp_cols s ->
  exists xy u v uv, vsub x y = Ok xy /\ sp_mul s x = Ok u /\ sp_mul s y = Ok v /\ vsub u v = Ok uv /\ sp_mul s xy = Ok uv.
Print Assumptions sp_mul_sub.

Theorem sp_mul_scale_vec : forall (A : Arith), RingLaws A -> forall (s : sparse A) (x : list A) (a : A),
  wfS s -> length x = sp_cols s ->
  exists u, sp_mul s x = Ok u /\ sp_mul s (vscale x a) = Ok (vscale u a).
Proof. intros A RL s x a. exact (SparseLinear.sp_mul_scale_vec_lemma RL s x a). Qed.
Check sp_mul_scale_vec : forall (A : Arith), RingLaws A -> forall (s : sparse A) (x : list A) (a : A),
  wfS s -> length x = sp_cols s ->
  exists u, sp_mul s x = Ok u /\ sp_mul s (vscale x a) = Ok (vscale u a).
Print Assumptions sp_mul_scale_vec.

Theorem sp_mul_zero : forall (A : Arith), RingLaws A -> forall (s : sparse A), wfS s ->
  sp_mul s (repeat (@Arith.zero A) (sp_cols s)) = Ok (repeat (@Arith.zero A) (sp_rows s)).
Proof. intros A RL s. exact (SparseLinear.sp_mul_zero_lemma RL s). Qed.
Check sp_mul_zero : forall (A : Arith), RingLaws A -> forall (s : sparse A), wfS s ->
  sp_mul s (repeat (@Arith.zero A) (sp_cols s)) = Ok (repeat (@Arith.zero A) (sp_rows s)).
Print Assumptions sp_mul_zero.

Theorem sp_tmul_add : forall (A : Arith), RingLaws A -> forall (s : sparse A) (x y : list A),
  wfS s -> length x = sp_rows s -> length y = sp_rows s ->
  exists xy u v uv, vadd x y = Ok xy /\ sp_tmul s x = Ok u /\ sp_tmul s y = Ok v /\ vadd u v = Ok uv /\ sp_tmul s xy = Ok uv.
Proof. intros A RL s x y. exact (SparseLinear.sp_tmul_add_lemma RL s x y). Qed.
Check sp_tmul_add : forall (A : Arith), RingLaws A -> forall (s : sparse A) (x y : list A),
  wfS s -> length x = sp_rows s -> length y = sp_rows s ->
  exists xy u v uv, vadd x y = Ok xy /\ sp_tmul s x = Ok u /\ sp_tmul s y = Ok v /\ vadd u v = Ok uv /\ sp_tmul s xy = Ok uv.
Print Assumptions sp_tmul_add.

Theorem sp_tmul_scale_vec : forall (A : Arith), RingLaws A -> forall (s : sparse A) (y : list A) (a : A),
  wfS s -> length y = sp_rows s ->
  exists w, sp_tmul s y = Ok w /\ sp_tmul s (vscale y a) = Ok (vscale w a).
Proof. intros A RL s y a. exact (SparseLinear.sp_tmul_scale_vec_lemma RL s y a). Qed.
Check sp_tmul_scale_vec : forall (A : Arith), RingLaws A -> forall (s : sparse A) (y : list A) (a : A),
  wfS s -> length y = sp_rows s ->
  exists w, sp_tmul s y = Ok w /\ sp_tmul s (vscale y a) = Ok (vscale w a).
Print Assumptions sp_tmul_scale_vec.

Theorem sp_tmul_zero : forall (A : Arith), RingLaws A -> forall (s : sparse A), wfS s ->
  sp_tmul s (repeat (@Arith.zero A) (sp_rows s)) = Ok (repeat (@Arith.zero A) (sp_cols s)).
Proof. intros A RL s. exact (SparseLinear.sp_tmul_zero_lemma RL s). Qed.
Check sp_tmul_zero : forall (A : Arith), RingLaws A -> forall (s : sparse A), wfS s ->
  sp_tmul s (repeat (@Arith.zero A) (sp_rows s)) = Ok (repeat (@Arith.zero A) (sp_cols s)).
Print Assumptions sp_tmul_zero.

(* non-vacuity: the linearity hypotheses hold at the exact instance, and the model computes A(x + x) = 2 A x there *)
Example sp_mul_add_nonvacuous : wfS ex_s /\ length ex_x = sp_cols ex_s /\
  fl_res (fl_list flat_q) (let* xx := vadd ex_x ex_x in sp_mul ex_s xx) = [0; 3;  2; -2; 1;  2; -42; 1;  2; 29; 3]%Z.
Proof. split; [exact ex_s_wf|]. split; [reflexivity|]. vm_compute. reflexivity. Qed.
