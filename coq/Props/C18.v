(* Props/C18.v -- property theorems only: Theorem / exact lemma / Check (pins the statement) /
   Print Assumptions.  C18: the finite-difference Jacobian (Mat64::jacobian,
   Matrix::<Cmplx>::jacobian_cmplx; model: Model/Newton.v jacobian, generic in the element
   arithmetic [NA O]; f64: d = delta, Cmplx: d = Cmplx::new(delta, 0.0)).

   Statements differ from DESIGN Appendix E where the model forces it:
   * the model returns the matrix TOGETHER with the list of call points, and the user function
     may panic ([res]); jacobian_shape therefore states totality (no panic, for every m and n,
     which is what the pre-repair set_col violated: Legacy/C18Refuted.v) under the hypotheses that
     the function is total with m components and that division by d does not panic (floats:
     always; exact field: d <> 0), instead of "jacobian = Ok J -> ...";
   * jacobian_calls needs (a + d) - d = a, i.e. ring laws: on f64 the restored coordinate may
     drift by an ulp for non-dyadic data (the float model reproduces the drift; tie).
   * jacobian_entry likewise needs the ring laws (the perturbed point of column j is x + d e_j
     only if the earlier coordinates were restored exactly);
   * in jacobian_affine the map x -> Mx + c is the textbook sum [aff] over the entries
     M[i,k] = [ment M i k] (Appendix E conventions), the conclusion is equality of records.
   The truncation bound (block newton2) and the float halves -- exactness on dyadic data, restoration drift, rounding
   floor, total error (block jacexact, end of file) -- are proved further down. *)
From Coq Require Import List Arith ZArith QArith Qcanon.
From OV Require Import Base.Panic Base.Arith Model.Vector Model.Matrix Model.Newton
  Proofs.Matrix Proofs.Newton Proofs.NewtonJac Inst.QcInst Legacy.C18Refuted.
Import ListNotations.
Local Open Scope nat_scope.

Theorem jacobian_shape : forall (O : NOps) (f : list (NA O) -> res (list (NA O))) (x : list (NA O)) (d : NA O) (m : nat),
  (forall y, length y = length x -> exists v, f y = Ok v /\ length v = m) ->
  (forall a : NA O, exists q, div a d = Ok q) ->
  exists J evs, jacobian O f x d = Ok (J, evs) /\
                wf J /\ rows J = m /\ cols J = length x /\ length evs = S (length x).
Proof. intros O f x d m Hf Hd. exact (jacobian_shape_lemma O f x d m Hf Hd). Qed.
Check jacobian_shape : forall (O : NOps) (f : list (NA O) -> res (list (NA O))) (x : list (NA O)) (d : NA O) (m : nat),
  (forall y, length y = length x -> exists v, f y = Ok v /\ length v = m) ->
  (forall a : NA O, exists q, div a d = Ok q) ->
  exists J evs, jacobian O f x d = Ok (J, evs) /\
                wf J /\ rows J = m /\ cols J = length x /\ length evs = S (length x).
Print Assumptions jacobian_shape.

(* the hypotheses hold for the map R^3 -> R^1 of the legacy witness (m < n), and the result is
   the exact 1 x 3 Jacobian *)
Example jacobian_shape_nonvacuous :
  (forall y, length y = length x31 -> exists v, f31 y = Ok v /\ length v = 1%nat) /\
  (forall a : AQ, exists q0, div a d31 = Ok q0) /\
  exists J evs, jacobian (NReal AQ) f31 x31 d31 = Ok (J, evs) /\
                rows J = 1%nat /\ cols J = 3%nat /\ map this (buf J) = [1#1; 2#1; 3#1]%Q.
Proof.
  split; [|split].
  - intros [|a [|b [|c [|? ?]]]] H; try discriminate. cbn. eauto.
  - intros a. exists (a / d31)%Qc. reflexivity.
  - exact (proj2 jacobian_legacy_refuted).
Qed.

(* whatever the function (ragged, panicking): if a matrix is returned it is rows x cols =
   (components of f(x)) x (length of x) with a buffer of that size *)
Theorem jacobian_shape_any : forall (O : NOps) (f : list (NA O) -> res (list (NA O))) (x : list (NA O)) (d : NA O) J evs,
  jacobian O f x d = Ok (J, evs) ->
  exists f0, f x = Ok f0 /\ rows J = length f0 /\ cols J = length x /\
             length (buf J) = length f0 * length x.
Proof. intros O f x d J evs H. exact (jacobian_shape_partial O f x d J evs H). Qed.
Check jacobian_shape_any : forall (O : NOps) (f : list (NA O) -> res (list (NA O))) (x : list (NA O)) (d : NA O) J evs,
  jacobian O f x d = Ok (J, evs) ->
  exists f0, f x = Ok f0 /\ rows J = length f0 /\ cols J = length x /\
             length (buf J) = length f0 * length x.
Print Assumptions jacobian_shape_any.

Theorem jacobian_calls : forall (O : NOps), RingLaws (NA O) ->
  forall (f : list (NA O) -> res (list (NA O))) (x : list (NA O)) (d : NA O) J evs,
  jacobian O f x d = Ok (J, evs) ->
  evs = x :: map (perturbed O x d) (seq 0 (length x)).
Proof. intros O RL f x d J evs H. exact (jacobian_calls_lemma O RL f x d J evs H). Qed.
Check jacobian_calls : forall (O : NOps), RingLaws (NA O) ->
  forall (f : list (NA O) -> res (list (NA O))) (x : list (NA O)) (d : NA O) J evs,
  jacobian O f x d = Ok (J, evs) ->
  evs = x :: map (perturbed O x d) (seq 0 (length x)).
Print Assumptions jacobian_calls.

Example jacobian_calls_nonvacuous :
  exists J evs, jacobian (NReal AQ) f31 x31 d31 = Ok (J, evs) /\
    map (map this) evs = [[1#1; 2#1; 3#1]; [1025#1024; 2#1; 3#1]; [1#1; 2049#1024; 3#1]; [1#1; 2#1; 3073#1024]]%Q.
Proof. do 2 eexists. split; [vm_compute; reflexivity|]. vm_compute. reflexivity. Qed.

(* entry (i, j) is the forward difference quotient ( f_i(x + d e_j) - f_i(x) ) / d *)
Theorem jacobian_entry : forall (O : NOps), RingLaws (NA O) ->
  forall (f : list (NA O) -> res (list (NA O))) (x : list (NA O)) (d : NA O) J evs,
  jacobian O f x d = Ok (J, evs) ->
  exists f0, f x = Ok f0 /\ rows J = length f0 /\ cols J = length x /\
    forall i j, i < length f0 -> j < length x ->
      exists fj q, f (perturbed O x d j) = Ok fj /\
                   div (sub (nth i fj zero) (nth i f0 zero)) d = Ok q /\ mget J i j = Ok q.
Proof. intros O RL f x d J evs H. exact (jacobian_entry_lemma O RL f x d J evs H). Qed.
Check jacobian_entry : forall (O : NOps), RingLaws (NA O) ->
  forall (f : list (NA O) -> res (list (NA O))) (x : list (NA O)) (d : NA O) J evs,
  jacobian O f x d = Ok (J, evs) ->
  exists f0, f x = Ok f0 /\ rows J = length f0 /\ cols J = length x /\
    forall i j, i < length f0 -> j < length x ->
      exists fj q, f (perturbed O x d j) = Ok fj /\
                   div (sub (nth i fj zero) (nth i f0 zero)) d = Ok q /\ mget J i j = Ok q.
Print Assumptions jacobian_entry.
(* non-vacuity: jacobian_calls_nonvacuous above exhibits an input with jacobian ... = Ok *)

(* exact on affine maps over a field: the Jacobian of x -> Mx + c is M itself *)
Theorem jacobian_affine : forall (O : NOps), FieldLaws (NA O) ->
  forall (M : matrix (NA O)) (c x : list (NA O)) (d : NA O),
  d <> zero -> wf M -> length x = cols M ->
  exists evs, jacobian O (fun p => Ok (aff O M c p)) x d = Ok (M, evs).
Proof. intros O FL M c x d Hd W Lx. exact (jacobian_affine_eq O FL M c x d Hd W Lx). Qed.
Check jacobian_affine : forall (O : NOps), FieldLaws (NA O) ->
  forall (M : matrix (NA O)) (c x : list (NA O)) (d : NA O),
  d <> zero -> wf M -> length x = cols M ->
  exists evs, jacobian O (fun p => Ok (aff O M c p)) x d = Ok (M, evs).
Print Assumptions jacobian_affine.

(* the hypotheses hold for a 2 x 3 matrix (m < n) at Qc, delta = 1/1024 *)
Example jacobian_affine_nonvacuous :
  let M := @mkM AQ [q 1 1; q 2 1; q 3 1; q (-1) 2; q 0 1; q 5 4] 2 3 in
  d31 <> zero /\ wf M /\ length x31 = cols M /\
  exists evs, jacobian (NReal AQ) (fun p => Ok (aff (NReal AQ) M [q 1 2; q 7 1] p)) x31 d31 = Ok (M, evs).
Proof.
  intros M. assert (Hd : d31 <> zero) by (intros H; apply (f_equal this) in H; discriminate).
  repeat split; auto. exact (jacobian_affine (NReal AQ) AQ_FieldLaws M _ x31 d31 Hd eq_refl eq_refl).
Qed.

(* the legacy variant (set_col guard `rows <= col`) panics on the same input *)
Theorem jacobian_legacy_is_refuted :
  jacobian_legacy (NReal AQ) f31 x31 d31 = Panic Guard /\
  exists J evs, jacobian (NReal AQ) f31 x31 d31 = Ok (J, evs) /\
                rows J = 1%nat /\ cols J = 3%nat /\ map this (buf J) = [1#1; 2#1; 3#1]%Q.
Proof. exact jacobian_legacy_refuted. Qed.
Check jacobian_legacy_is_refuted :
  jacobian_legacy (NReal AQ) f31 x31 d31 = Panic Guard /\
  exists J evs, jacobian (NReal AQ) f31 x31 d31 = Ok (J, evs) /\
                rows J = 1%nat /\ cols J = 3%nat /\ map this (buf J) = [1#1; 2#1; 3#1]%Q.
Print Assumptions jacobian_legacy_is_refuted.
(* ======================================================================================
   C18, round two (package newton2) -- to be appended at the END of Props/C18.v.
   The O(delta) claim, over the reals (NRl = the real instance of Proofs/NewtonReal.v): whatever matrix
   Mat64::jacobian returns, entry (i, j) differs from the partial derivative d f_i / d x_j at x by at most
   (|delta| / 2) * sup |d^2 f_i / d x_j^2| over the segment between x and x + delta e_j.
   g is the restriction of component i to that segment, g(t) = f_i(x + t e_j); g1 = g', g2 = g''.
   Still not proved: float rounding of the quotient (tie + search). *)
From Coq Require Import Reals Lra.
From OV Require Import Proofs.NewtonReal Proofs.Newton2Jac.
Local Close Scope R_scope.
Local Open Scope nat_scope.

Theorem jacobian_truncation : forall (F : list R -> res (list R)) (x : list R) (dl : R) (J : matrix AR) evs,
  jacobian NRl F x dl = Ok (J, evs) ->
  forall (i j : nat) (g g1 g2 : R -> R) (B : R),
  i < rows J -> j < length x ->
  (forall t, (Rmin 0 dl <= t <= Rmax 0 dl)%R -> exists v, F (perturbed NRl x t j) = Ok v /\ nth i v 0%R = g t) ->
  (forall t, (Rmin 0 dl <= t <= Rmax 0 dl)%R -> derivable_pt_lim g t (g1 t)) ->
  (forall t, (Rmin 0 dl <= t <= Rmax 0 dl)%R -> derivable_pt_lim g1 t (g2 t)) ->
  (forall t, (Rmin 0 dl <= t <= Rmax 0 dl)%R -> (Rabs (g2 t) <= B)%R) ->
  exists q : R, mget J i j = Ok q /\ (Rabs (q - g1 0) <= Rabs dl / 2 * B)%R.
Proof. exact jacobian_truncation_lemma. Qed.
Check jacobian_truncation : forall (F : list R -> res (list R)) (x : list R) (dl : R) (J : matrix AR) evs,
  jacobian NRl F x dl = Ok (J, evs) ->
  forall (i j : nat) (g g1 g2 : R -> R) (B : R),
  i < rows J -> j < length x ->
  (forall t, (Rmin 0 dl <= t <= Rmax 0 dl)%R -> exists v, F (perturbed NRl x t j) = Ok v /\ nth i v 0%R = g t) ->
  (forall t, (Rmin 0 dl <= t <= Rmax 0 dl)%R -> derivable_pt_lim g t (g1 t)) ->
  (forall t, (Rmin 0 dl <= t <= Rmax 0 dl)%R -> derivable_pt_lim g1 t (g2 t)) ->
  (forall t, (Rmin 0 dl <= t <= Rmax 0 dl)%R -> (Rabs (g2 t) <= B)%R) ->
  exists q : R, mget J i j = Ok q /\ (Rabs (q - g1 0) <= Rabs dl / 2 * B)%R.
Print Assumptions jacobian_truncation.

(* F(x, y) = (x^2 y, x + y^3) at (1, 2), delta = 1/4, entry (0, 0): g(t) = 2 (1 + t)^2, g' = 4 (1 + t), g'' = 4 = B;
   the entry is 9/2, the partial derivative 4, and the bound (1/4)/2 * 4 = 1/2 is attained *)
Example jacobian_truncation_nonvacuous :
  exists J evs, jacobian NRl Fw [1%R; 2%R] (1 / 4)%R = Ok (J, evs) /\ 0 < rows J /\
    (forall t, (Rmin 0 (1 / 4) <= t <= Rmax 0 (1 / 4))%R ->
       exists v, Fw (perturbed NRl [1%R; 2%R] t 0) = Ok v /\ nth 0 v 0%R = (2 * ((1 + t) * (1 + t)))%R) /\
    (forall t, derivable_pt_lim (fun t => 2 * ((1 + t) * (1 + t)))%R t (4 * (1 + t))%R) /\
    (forall t, derivable_pt_lim (fun t => 4 * (1 + t))%R t 4%R) /\
    (Rabs 4 <= 4)%R.
Proof. exact jacobian_truncation_witness. Qed.

(* the calculus behind it, either sign of the step: |(g(d) - g(0))/d - g'(0)| <= (|d|/2) sup |g''| *)
Theorem forward_difference_truncation : forall (g g1 g2 : R -> R) (d B : R),
  (forall t, (Rmin 0 d <= t <= Rmax 0 d)%R -> derivable_pt_lim g t (g1 t)) ->
  (forall t, (Rmin 0 d <= t <= Rmax 0 d)%R -> derivable_pt_lim g1 t (g2 t)) ->
  (forall t, (Rmin 0 d <= t <= Rmax 0 d)%R -> (Rabs (g2 t) <= B)%R) ->
  d <> 0%R ->
  (Rabs ((g d - g 0) / d - g1 0) <= Rabs d / 2 * B)%R.
Proof. exact fwd_diff_trunc. Qed.
Check forward_difference_truncation : forall (g g1 g2 : R -> R) (d B : R),
  (forall t, (Rmin 0 d <= t <= Rmax 0 d)%R -> derivable_pt_lim g t (g1 t)) ->
  (forall t, (Rmin 0 d <= t <= Rmax 0 d)%R -> derivable_pt_lim g1 t (g2 t)) ->
  (forall t, (Rmin 0 d <= t <= Rmax 0 d)%R -> (Rabs (g2 t) <= B)%R) ->
  d <> 0%R ->
  (Rabs ((g d - g 0) / d - g1 0) <= Rabs d / 2 * B)%R.
Print Assumptions forward_difference_truncation.
(* non-vacuity: jacobian_truncation_nonvacuous exhibits g, g', g'' = 4 on [0, 1/4] *)

(* the complex Jacobian (Matrix::<Cmplx>::jacobian_cmplx at Newton2Inst.NCR = NCplx SolveC.SAR): the step is the REAL
   number delta, embedded as (delta, 0); gr, gi are the real and imaginary parts of f_i(x + t e_j) for real t *)
From OV Require Model.Complex Proofs.SolveR Proofs.SolveC Proofs.Newton2Inst Proofs.Newton2JacC.
Theorem jacobian_truncation_C : forall (F : list SolveC.ACR -> res (list SolveC.ACR)) (x : list SolveC.ACR) (dl : R)
    (J : matrix SolveC.ACR) evs,
  jacobian Newton2Inst.NCR F x (emb Newton2Inst.NCR dl) = Ok (J, evs) ->
  forall (i j : nat) (gr gr1 gr2 gi gi1 gi2 : R -> R) (Br Bi : R),
  i < rows J -> j < length x ->
  (forall t, (Rmin 0 dl <= t <= Rmax 0 dl)%R ->
     exists v, F (perturbed Newton2Inst.NCR x (Complex.mkC (A:=SolveR.AR) t 0%R) j) = Ok v /\
               Complex.re (nth i v (zero : SolveC.ACR)) = gr t /\ Complex.im (nth i v (zero : SolveC.ACR)) = gi t) ->
  (forall t, (Rmin 0 dl <= t <= Rmax 0 dl)%R -> derivable_pt_lim gr t (gr1 t)) ->
  (forall t, (Rmin 0 dl <= t <= Rmax 0 dl)%R -> derivable_pt_lim gr1 t (gr2 t)) ->
  (forall t, (Rmin 0 dl <= t <= Rmax 0 dl)%R -> (Rabs (gr2 t) <= Br)%R) ->
  (forall t, (Rmin 0 dl <= t <= Rmax 0 dl)%R -> derivable_pt_lim gi t (gi1 t)) ->
  (forall t, (Rmin 0 dl <= t <= Rmax 0 dl)%R -> derivable_pt_lim gi1 t (gi2 t)) ->
  (forall t, (Rmin 0 dl <= t <= Rmax 0 dl)%R -> (Rabs (gi2 t) <= Bi)%R) ->
  exists q : SolveC.ACR, mget J i j = Ok q /\
    (Rabs (Complex.re q - gr1 0) <= Rabs dl / 2 * Br)%R /\ (Rabs (Complex.im q - gi1 0) <= Rabs dl / 2 * Bi)%R.
Proof. exact Newton2JacC.jacobian_truncation_C_lemma. Qed.
Check jacobian_truncation_C : forall (F : list SolveC.ACR -> res (list SolveC.ACR)) (x : list SolveC.ACR) (dl : R)
    (J : matrix SolveC.ACR) evs,
  jacobian Newton2Inst.NCR F x (emb Newton2Inst.NCR dl) = Ok (J, evs) ->
  forall (i j : nat) (gr gr1 gr2 gi gi1 gi2 : R -> R) (Br Bi : R),
  i < rows J -> j < length x ->
  (forall t, (Rmin 0 dl <= t <= Rmax 0 dl)%R ->
     exists v, F (perturbed Newton2Inst.NCR x (Complex.mkC (A:=SolveR.AR) t 0%R) j) = Ok v /\
               Complex.re (nth i v (zero : SolveC.ACR)) = gr t /\ Complex.im (nth i v (zero : SolveC.ACR)) = gi t) ->
  (forall t, (Rmin 0 dl <= t <= Rmax 0 dl)%R -> derivable_pt_lim gr t (gr1 t)) ->
  (forall t, (Rmin 0 dl <= t <= Rmax 0 dl)%R -> derivable_pt_lim gr1 t (gr2 t)) ->
  (forall t, (Rmin 0 dl <= t <= Rmax 0 dl)%R -> (Rabs (gr2 t) <= Br)%R) ->
  (forall t, (Rmin 0 dl <= t <= Rmax 0 dl)%R -> derivable_pt_lim gi t (gi1 t)) ->
  (forall t, (Rmin 0 dl <= t <= Rmax 0 dl)%R -> derivable_pt_lim gi1 t (gi2 t)) ->
  (forall t, (Rmin 0 dl <= t <= Rmax 0 dl)%R -> (Rabs (gi2 t) <= Bi)%R) ->
  exists q : SolveC.ACR, mget J i j = Ok q /\
    (Rabs (Complex.re q - gr1 0) <= Rabs dl / 2 * Br)%R /\ (Rabs (Complex.im q - gi1 0) <= Rabs dl / 2 * Bi)%R.
Print Assumptions jacobian_truncation_C.

(* F(z) = (z^2) at z = 1 + i, delta = 1/4: re f(1 + t + i) = (1 + t)^2 - 1, im f(1 + t + i) = 2 (1 + t) *)
Example jacobian_truncation_C_nonvacuous :
  exists J evs, jacobian Newton2Inst.NCR Newton2JacC.Fwc [Complex.mkC (A:=SolveR.AR) 1%R 1%R] (emb Newton2Inst.NCR (1 / 4)%R) = Ok (J, evs) /\
    0 < rows J /\
    (forall t, (Rmin 0 (1 / 4) <= t <= Rmax 0 (1 / 4))%R ->
       exists v, Newton2JacC.Fwc (perturbed Newton2Inst.NCR [Complex.mkC (A:=SolveR.AR) 1%R 1%R] (Complex.mkC (A:=SolveR.AR) t 0%R) 0) = Ok v /\
                 Complex.re (nth 0 v (zero : SolveC.ACR)) = ((1 + t) * (1 + t) - 1)%R /\
                 Complex.im (nth 0 v (zero : SolveC.ACR)) = (2 * (1 + t))%R) /\
    (forall t, derivable_pt_lim (fun t => (1 + t) * (1 + t) - 1)%R t (2 * (1 + t))%R) /\
    (forall t, derivable_pt_lim (fun t => 2 * (1 + t))%R t 2%R) /\ (Rabs 2 <= 2)%R /\
    (forall t, derivable_pt_lim (fun _ : R => 2%R) t 0%R) /\ (Rabs 0 <= 0)%R.
Proof. exact Newton2JacC.jacobian_truncation_C_witness. Qed.

(* exactness beyond affine maps: the finite-difference Jacobian of a DECOUPLED map F(x)_i = f_i(x_i) is exactly diagonal
   over R, for every dimension: off the diagonal the quotient is (f_i(x_i) - f_i(x_i)) / delta = 0 *)
From OV Require Proofs.SolveBase Proofs.Newton2Sys1d Proofs.Newton2DiagFD.
Theorem jacobian_decoupled_diagonal : forall (dim : nat) (f : nat -> R -> R) (F : list R -> res (list R)),
  (forall x, length x = dim ->
     exists v, F x = Ok v /\ length v = dim /\ forall i, i < dim -> nth i v 0%R = f i (nth i x 0%R)) ->
  forall (x : list R) (d : R), length x = dim -> d <> 0%R ->
  exists J evs, jacobian NRl F x d = Ok (J, evs) /\ wf J /\ rows J = dim /\ cols J = dim /\
    forall i j, i < dim -> j < dim ->
      SolveBase.ent J i j = if i =? j then ((f i (nth i x 0 + d) - f i (nth i x 0)) / d)%R else 0%R.
Proof. exact Newton2DiagFD.jacobian_decoupled. Qed.
Check jacobian_decoupled_diagonal : forall (dim : nat) (f : nat -> R -> R) (F : list R -> res (list R)),
  (forall x, length x = dim ->
     exists v, F x = Ok v /\ length v = dim /\ forall i, i < dim -> nth i v 0%R = f i (nth i x 0%R)) ->
  forall (x : list R) (d : R), length x = dim -> d <> 0%R ->
  exists J evs, jacobian NRl F x d = Ok (J, evs) /\ wf J /\ rows J = dim /\ cols J = dim /\
    forall i j, i < dim -> j < dim ->
      SolveBase.ent J i j = if i =? j then ((f i (nth i x 0 + d) - f i (nth i x 0)) / d)%R else 0%R.
Print Assumptions jacobian_decoupled_diagonal.
(* F(x, y) = (x^3 - 2, y^3 - 2) is decoupled *)
From OV Require Proofs.Newton2Wit.
Example jacobian_decoupled_diagonal_nonvacuous :
  (forall x, length x = 2 ->
     exists v, Newton2Wit.F2w x = Ok v /\ length v = 2 /\
       forall i, i < 2 -> nth i v 0%R = (fun _ : nat => Newton2Wit.cube2) i (nth i x 0%R)) /\
  length [1%R; 2%R] = 2 /\ (1 / 4)%R <> 0%R.
Proof. split; [exact Newton2Wit.F2w_spec|]. split; [reflexivity|]. apply Rgt_not_eq. lra. Qed.
(* ---- tie of the model to the source of this run (package r2c2): gen/SrcNewton.v / gen/SrcNewtonC.v are regenerated from
   src/newton.rs and src/matrix/functions.rs by driver/rust2coq.py on every check run; Proofs/SrcEqNewton.v and
   Proofs/SrcEqNewtonC.v prove ERASURE -- each of the six regenerated solve methods and of the two finite-difference Jacobians
   equals the instrumented model of Model/Newton.v (at NReal A resp. NCplx S) with the recorded call points projected away,
   for every arithmetic, every configuration and every closure (an arbitrary function X -> res X); panics included. *)
From OV Require Proofs.SrcEqNewton.
Theorem model_is_source_C18_Newton : forall A : Arith, @SrcEqNewton.model_is_source_Newton A.
Proof. intros A. exact SrcEqNewton.model_is_source_Newton_lemma. Qed.
Check model_is_source_C18_Newton : forall A : Arith, @SrcEqNewton.model_is_source_Newton A.
Print Assumptions model_is_source_C18_Newton.
From OV Require Proofs.SrcEqNewtonC.
Theorem model_is_source_C18_NewtonC : forall S : SArith, @SrcEqNewtonC.model_is_source_NewtonC S.
Proof. intros S. exact SrcEqNewtonC.model_is_source_NewtonC_lemma. Qed.
Check model_is_source_C18_NewtonC : forall S : SArith, @SrcEqNewtonC.model_is_source_NewtonC S.
Print Assumptions model_is_source_C18_NewtonC.

(* ======================================================================================
   C18, round four (package jacexact) -- to be appended at the END of Props/C18.v.
   (1) what the finite-difference Jacobian computes over ANY arithmetic (no ring law);  (2) "exact on dyadic data" at IEEE binary64:
   for an affine map on dyadic data the returned matrix IS M, bit for bit, and every coordinate is restored exactly (real and complex
   variant), with Examples outside the bounds where neither holds;  (3) in the standard model of floating-point arithmetic: the drift
   of the restored coordinates (all columns), the rounding floor of the difference quotient for any function, the total error
   (truncation + floor + drift) and the optimal-step trade-off.
   (4) drift and rounding floor AT BINARY64 ITSELF (primitive floats through Flocq's specification), any closure, "whenever finite".
   Still not proved: a complex total-error statement (truncation is jacobian_truncation_C, the floor jacobian_rounding_floor_C / jacobian_entry_floor_C_float); that the closure's own
   evaluation error eps is small is the user's obligation (it is a hypothesis everywhere). *)
From Coq Require Import Reals Lra Lia ZArith.
From Coq Require Floats.
From Flocq Require Core.Core.
From OV Require Base.RoundModel Inst.FloatInst Model.Complex Proofs.ComplexRound Proofs.RoundFlx
  Proofs.JacExactGen Proofs.JacExactFloat Proofs.JacExactFloatGen Proofs.JacExactFloatC Proofs.JacExactRound Proofs.JacExactRoundEx Proofs.JacExactRoundC
  Proofs.JacExactFloatRound Proofs.JacExactFloatRoundC.
Local Close Scope R_scope.
Local Open Scope nat_scope.

(* ANY arithmetic, ANY function (no ring law: binary64 included): the calls are made at x and at the points call_pt 0 .. call_pt (n-1)
   (coordinates: jacobian_call_point_coordinates below), and entry (i, j) is ( f_i(call_pt j) - f_i(x) ) / d with the arithmetic's own - and / *)
Theorem jacobian_entries_any : forall (O : NOps) (f : list (NA O) -> res (list (NA O))) (x : list (NA O)) (d : NA O) (J : matrix (NA O)) (evs : list (list (NA O))),
  jacobian O f x d = Ok (J, evs) ->
  evs = x :: map (JacExactGen.call_pt O x d) (seq 0 (length x)) /\
  exists f0, f x = Ok f0 /\ wf J /\ rows J = length f0 /\ cols J = length x /\
    forall i j, (i < length f0)%nat -> (j < length x)%nat ->
      exists fj q, f (JacExactGen.call_pt O x d j) = Ok fj /\ length fj = length f0 /\
                   div (sub (nth i fj zero) (nth i f0 zero)) d = Ok q /\ mget J i j = Ok q.
Proof. exact JacExactGen.jacobian_gen_lemma. Qed.
Check jacobian_entries_any : forall (O : NOps) (f : list (NA O) -> res (list (NA O))) (x : list (NA O)) (d : NA O) (J : matrix (NA O)) (evs : list (list (NA O))),
  jacobian O f x d = Ok (J, evs) ->
  evs = x :: map (JacExactGen.call_pt O x d) (seq 0 (length x)) /\
  exists f0, f x = Ok f0 /\ wf J /\ rows J = length f0 /\ cols J = length x /\
    forall i j, (i < length f0)%nat -> (j < length x)%nat ->
      exists fj q, f (JacExactGen.call_pt O x d j) = Ok fj /\ length fj = length f0 /\
                   div (sub (nth i fj zero) (nth i f0 zero)) d = Ok q /\ mget J i j = Ok q.
Print Assumptions jacobian_entries_any.
(* non-vacuity at binary64 with a non-dyadic step, where (a + d) - d = a fails (JacExactFloat.exj_inexact): the run returns *)
Example jacobian_entries_any_nonvacuous :
  exists J evs, jacobian (NReal FloatInst.AF) (fun p => Ok (aff (NReal FloatInst.AF) JacExactFloat.exj_M JacExactFloat.exj_c p))
                  JacExactFloat.exj_x2 JacExactFloat.exj_d2 = Ok (J, evs).
Proof. do 2 eexists. vm_compute. reflexivity. Qed.

(* the point of the j-th call: coordinate j is x_j + d, the coordinates before j have been through  += d; -= d,  the others are x_k *)
Theorem jacobian_call_point_coordinates : forall (O : NOps) (x : list (NA O)) (d : NA O) (j k : nat), (j < length x)%nat ->
  nth k (JacExactGen.call_pt O x d j) zero =
    if (k =? j)%nat then add (nth j x zero) d else if (k <? j)%nat then sub (add (nth k x zero) d) d else nth k x zero.
Proof. exact JacExactGen.call_pt_coords. Qed.
Check jacobian_call_point_coordinates : forall (O : NOps) (x : list (NA O)) (d : NA O) (j k : nat), (j < length x)%nat ->
  nth k (JacExactGen.call_pt O x d j) zero =
    if (k =? j)%nat then add (nth j x zero) d else if (k <? j)%nat then sub (add (nth k x zero) d) d else nth k x zero.
Print Assumptions jacobian_call_point_coordinates.

(* the state vector the Rust loop ends with (jacobian_tr = jacobian + the final `state`): every coordinate is (x_k + d) - d *)
Theorem jacobian_final_state_any : forall (O : NOps) (f : list (NA O) -> res (list (NA O))) (x : list (NA O)) (d : NA O) (st : list (NA O)) (J : matrix (NA O))
    (evs : list (list (NA O))),
  jacobian_tr O f x d = Ok (st, J, evs) ->
  length st = length x /\
  forall k, nth k st zero = if (k <? length x)%nat then sub (add (nth k x zero) d) d else nth k x zero.
Proof. exact JacExactGen.jacobian_final_state_lemma. Qed.
Check jacobian_final_state_any : forall (O : NOps) (f : list (NA O) -> res (list (NA O))) (x : list (NA O)) (d : NA O) (st : list (NA O)) (J : matrix (NA O))
    (evs : list (list (NA O))),
  jacobian_tr O f x d = Ok (st, J, evs) ->
  length st = length x /\
  forall k, nth k st zero = if (k <? length x)%nat then sub (add (nth k x zero) d) d else nth k x zero.
Print Assumptions jacobian_final_state_any.

(* jacobian_calls / jacobian_entry without ring laws: it is enough that the restoration is exact ON THE COORDINATES OF x *)
Theorem jacobian_exact_restore : forall (O : NOps) (f : list (NA O) -> res (list (NA O))) (x : list (NA O)) (d : NA O) (J : matrix (NA O)) (evs : list (list (NA O))),
  (forall k, (k < length x)%nat -> sub (add (nth k x zero) d) d = nth k x zero) ->
  jacobian O f x d = Ok (J, evs) ->
  evs = x :: map (perturbed O x d) (seq 0 (length x)) /\
  exists f0, f x = Ok f0 /\ wf J /\ rows J = length f0 /\ cols J = length x /\
    forall i j, (i < length f0)%nat -> (j < length x)%nat ->
      exists fj q, f (perturbed O x d j) = Ok fj /\ length fj = length f0 /\
                   div (sub (nth i fj zero) (nth i f0 zero)) d = Ok q /\ mget J i j = Ok q.
Proof. exact JacExactGen.jacobian_gen_exact_restore. Qed.
Check jacobian_exact_restore : forall (O : NOps) (f : list (NA O) -> res (list (NA O))) (x : list (NA O)) (d : NA O) (J : matrix (NA O)) (evs : list (list (NA O))),
  (forall k, (k < length x)%nat -> sub (add (nth k x zero) d) d = nth k x zero) ->
  jacobian O f x d = Ok (J, evs) ->
  evs = x :: map (perturbed O x d) (seq 0 (length x)) /\
  exists f0, f x = Ok f0 /\ wf J /\ rows J = length f0 /\ cols J = length x /\
    forall i j, (i < length f0)%nat -> (j < length x)%nat ->
      exists fj q, f (perturbed O x d j) = Ok fj /\ length fj = length f0 /\
                   div (sub (nth i fj zero) (nth i f0 zero)) d = Ok q /\ mget J i j = Ok q.
Print Assumptions jacobian_exact_restore.
(* non-vacuity at binary64: dyadic point, delta = 2^-20 *)
Example jacobian_exact_restore_nonvacuous :
  (forall k, (k < length JacExactFloat.exj_x)%nat ->
     @sub FloatInst.AF (@add FloatInst.AF (nth k JacExactFloat.exj_x (@zero FloatInst.AF)) JacExactFloat.exj_d) JacExactFloat.exj_d =
     nth k JacExactFloat.exj_x (@zero FloatInst.AF)) /\
  exists J evs, jacobian (NReal FloatInst.AF) (fun p => Ok (aff (NReal FloatInst.AF) JacExactFloat.exj_M JacExactFloat.exj_c p))
                  JacExactFloat.exj_x JacExactFloat.exj_d = Ok (J, evs).
Proof.
  split; [|do 2 eexists; exact JacExactFloat.exj_value].
  intros k Hk. do 3 (destruct k as [|k]; [vm_compute; reflexivity|]). cbn in Hk. lia.
Qed.

(* C18 "exact on dyadic data", Mat64::jacobian at IEEE binary64 (NReal AF; the affine map is the Gallina function [aff] of
   jacobian_affine run with the binary64 operations: row i = ((0 + M_i0 p_0) + M_i1 p_1 + ...) + c_i).
   Data: M_ik = Mz i k 2^eM, x_k = Xz k 2^eX, c_i = Cz i 2^(eM+eX), delta = Dd 2^eX with Dd > 0 (delta = 2^-k: eX <= -k, Dd = 2^(-k-eX));
   zsumn n f = Sum_(k<n) f k.  Conclusion: no operation rounds; the matrix returned IS M (bit for bit), the state is x again after
   every column (calls at x + delta e_j, final state x).  FR = real value, ffinite = finite, bpow radix2 e = 2^e.
   No M_ik and no x_k may be the negative zero: the code returns +0 for an entry -0 and restores x_k = -0 as +0 (third Example). *)
Theorem jacobian_affine_exact_float : forall (M : matrix FloatInst.AF) (c x : list PrimFloat.float) (d : PrimFloat.float)
    (Mz : nat -> nat -> Z) (Cz Xz : nat -> Z) (Dd eM eX : Z),
  wf M -> length x = cols M ->
  (forall i j, (i < rows M)%nat -> (j < cols M)%nat ->
     ComplexRound.ffinite (ment (NReal FloatInst.AF) M i j) /\
     ComplexRound.FR (ment (NReal FloatInst.AF) M i j) = (IZR (Mz i j) * Flocq.Core.Raux.bpow Flocq.Core.Zaux.radix2 eM)%R /\
     ment (NReal FloatInst.AF) M i j <> PrimFloat.neg_zero) ->
  (forall j, (j < cols M)%nat ->
     ComplexRound.ffinite (nth j x (@zero FloatInst.AF)) /\
     ComplexRound.FR (nth j x (@zero FloatInst.AF)) = (IZR (Xz j) * Flocq.Core.Raux.bpow Flocq.Core.Zaux.radix2 eX)%R /\
     nth j x (@zero FloatInst.AF) <> PrimFloat.neg_zero) ->
  (forall i, (i < rows M)%nat ->
     ComplexRound.ffinite (nth i c (@zero FloatInst.AF)) /\
     ComplexRound.FR (nth i c (@zero FloatInst.AF)) = (IZR (Cz i) * Flocq.Core.Raux.bpow Flocq.Core.Zaux.radix2 (eM + eX))%R) ->
  ComplexRound.ffinite d -> ComplexRound.FR d = (IZR Dd * Flocq.Core.Raux.bpow Flocq.Core.Zaux.radix2 eX)%R -> (0 < Dd)%Z ->
  (-1074 <= eX <= 971)%Z -> (-1074 <= eM <= 971)%Z -> (-1074 <= eM + eX <= 971)%Z ->
  (forall j, (j < cols M)%nat -> (Z.abs (Xz j) + Dd < 2 ^ 53)%Z) ->
  (forall i, (i < rows M)%nat ->
     (JacExactFloat.zsumn (cols M) (fun k => Z.abs (Mz i k) * (Z.abs (Xz k) + Dd)) + Z.abs (Cz i) < 2 ^ 53)%Z) ->
  jacobian_tr (NReal FloatInst.AF) (fun p => Ok (aff (NReal FloatInst.AF) M c p)) x d =
    Ok (x, M, x :: map (perturbed (NReal FloatInst.AF) x d) (seq 0 (length x))) /\
  jacobian (NReal FloatInst.AF) (fun p => Ok (aff (NReal FloatInst.AF) M c p)) x d =
    Ok (M, x :: map (perturbed (NReal FloatInst.AF) x d) (seq 0 (length x))).
Proof. exact JacExactFloat.jacobian_affine_exact_float_thm. Qed.
Check jacobian_affine_exact_float : forall (M : matrix FloatInst.AF) (c x : list PrimFloat.float) (d : PrimFloat.float)
    (Mz : nat -> nat -> Z) (Cz Xz : nat -> Z) (Dd eM eX : Z),
  wf M -> length x = cols M ->
  (forall i j, (i < rows M)%nat -> (j < cols M)%nat ->
     ComplexRound.ffinite (ment (NReal FloatInst.AF) M i j) /\
     ComplexRound.FR (ment (NReal FloatInst.AF) M i j) = (IZR (Mz i j) * Flocq.Core.Raux.bpow Flocq.Core.Zaux.radix2 eM)%R /\
     ment (NReal FloatInst.AF) M i j <> PrimFloat.neg_zero) ->
  (forall j, (j < cols M)%nat ->
     ComplexRound.ffinite (nth j x (@zero FloatInst.AF)) /\
     ComplexRound.FR (nth j x (@zero FloatInst.AF)) = (IZR (Xz j) * Flocq.Core.Raux.bpow Flocq.Core.Zaux.radix2 eX)%R /\
     nth j x (@zero FloatInst.AF) <> PrimFloat.neg_zero) ->
  (forall i, (i < rows M)%nat ->
     ComplexRound.ffinite (nth i c (@zero FloatInst.AF)) /\
     ComplexRound.FR (nth i c (@zero FloatInst.AF)) = (IZR (Cz i) * Flocq.Core.Raux.bpow Flocq.Core.Zaux.radix2 (eM + eX))%R) ->
  ComplexRound.ffinite d -> ComplexRound.FR d = (IZR Dd * Flocq.Core.Raux.bpow Flocq.Core.Zaux.radix2 eX)%R -> (0 < Dd)%Z ->
  (-1074 <= eX <= 971)%Z -> (-1074 <= eM <= 971)%Z -> (-1074 <= eM + eX <= 971)%Z ->
  (forall j, (j < cols M)%nat -> (Z.abs (Xz j) + Dd < 2 ^ 53)%Z) ->
  (forall i, (i < rows M)%nat ->
     (JacExactFloat.zsumn (cols M) (fun k => Z.abs (Mz i k) * (Z.abs (Xz k) + Dd)) + Z.abs (Cz i) < 2 ^ 53)%Z) ->
  jacobian_tr (NReal FloatInst.AF) (fun p => Ok (aff (NReal FloatInst.AF) M c p)) x d =
    Ok (x, M, x :: map (perturbed (NReal FloatInst.AF) x d) (seq 0 (length x))) /\
  jacobian (NReal FloatInst.AF) (fun p => Ok (aff (NReal FloatInst.AF) M c p)) x d =
    Ok (M, x :: map (perturbed (NReal FloatInst.AF) x d) (seq 0 (length x))).
Print Assumptions jacobian_affine_exact_float.
Example jacobian_affine_exact_float_nonvacuous :
  wf JacExactFloat.exj_M /\ length JacExactFloat.exj_x = cols JacExactFloat.exj_M /\
  (forall i j, (i < rows JacExactFloat.exj_M)%nat -> (j < cols JacExactFloat.exj_M)%nat ->
     ComplexRound.ffinite (ment (NReal FloatInst.AF) JacExactFloat.exj_M i j) /\
     ComplexRound.FR (ment (NReal FloatInst.AF) JacExactFloat.exj_M i j) =
       (IZR (JacExactFloat.exj_Mz i j) * Flocq.Core.Raux.bpow Flocq.Core.Zaux.radix2 0)%R /\
     ment (NReal FloatInst.AF) JacExactFloat.exj_M i j <> PrimFloat.neg_zero) /\
  (forall j, (j < cols JacExactFloat.exj_M)%nat ->
     ComplexRound.ffinite (nth j JacExactFloat.exj_x (@zero FloatInst.AF)) /\
     ComplexRound.FR (nth j JacExactFloat.exj_x (@zero FloatInst.AF)) = (IZR (JacExactFloat.exj_Xz j) * Flocq.Core.Raux.bpow Flocq.Core.Zaux.radix2 (-20))%R /\
     nth j JacExactFloat.exj_x (@zero FloatInst.AF) <> PrimFloat.neg_zero) /\
  (forall i, (i < rows JacExactFloat.exj_M)%nat ->
     ComplexRound.ffinite (nth i JacExactFloat.exj_c (@zero FloatInst.AF)) /\
     ComplexRound.FR (nth i JacExactFloat.exj_c (@zero FloatInst.AF)) = (IZR (JacExactFloat.exj_Cz i) * Flocq.Core.Raux.bpow Flocq.Core.Zaux.radix2 (0 + -20))%R) /\
  ComplexRound.ffinite JacExactFloat.exj_d /\
  ComplexRound.FR JacExactFloat.exj_d = (IZR 1 * Flocq.Core.Raux.bpow Flocq.Core.Zaux.radix2 (-20))%R /\ (0 < 1)%Z /\
  (forall j, (j < cols JacExactFloat.exj_M)%nat -> (Z.abs (JacExactFloat.exj_Xz j) + 1 < 2 ^ 53)%Z) /\
  (forall i, (i < rows JacExactFloat.exj_M)%nat ->
     (JacExactFloat.zsumn (cols JacExactFloat.exj_M) (fun k => Z.abs (JacExactFloat.exj_Mz i k) * (Z.abs (JacExactFloat.exj_Xz k) + 1))
      + Z.abs (JacExactFloat.exj_Cz i) < 2 ^ 53)%Z) /\
  (* delta = 2^-20, M = [1 2 3; -1 0 5], x = (0.5, -1.25, 3), c = (0.5, 7): the run, by evaluation *)
  jacobian (NReal FloatInst.AF) (fun p => Ok (aff (NReal FloatInst.AF) JacExactFloat.exj_M JacExactFloat.exj_c p))
           JacExactFloat.exj_x JacExactFloat.exj_d =
    Ok (JacExactFloat.exj_M, JacExactFloat.exj_evs).
Proof.
  split; [reflexivity|]. split; [reflexivity|]. split; [exact JacExactFloat.exj_M_dy|]. split; [exact JacExactFloat.exj_x_dy|].
  split; [exact JacExactFloat.exj_c_dy|]. split; [exact (proj1 JacExactFloat.exj_d_dy)|]. split; [exact (proj2 JacExactFloat.exj_d_dy)|].
  split; [lia|]. split; [exact JacExactFloat.exj_bx|]. split; [exact JacExactFloat.exj_brow|]. exact JacExactFloat.exj_value.
Qed.
(* OUTSIDE the hypotheses, delta = 1e-8 (the binary64 number 0x1.5798ee2308c3ap-27, not dyadic on the grid of x): every non-zero entry is
   wrong (0.99999999392... for 1: error ~ u/delta), and x_0 = 0.9999999999 is restored ONE ULP SMALLER, so that columns 1, 2 are
   evaluated at a point that is not x + delta e_j *)
Example jacobian_affine_float_inexact_nondyadic :
  exists st J evs, jacobian_tr (NReal FloatInst.AF) (fun p => Ok (aff (NReal FloatInst.AF) JacExactFloat.exj_M JacExactFloat.exj_c p))
                     JacExactFloat.exj_x2 JacExactFloat.exj_d2 = Ok (st, J, evs) /\
    map (fun k => PrimFloat.eqb (nth k (buf J) (@zero FloatInst.AF)) (nth k (buf JacExactFloat.exj_M) (@zero FloatInst.AF))) (seq 0 6) =
      [false; false; false; false; true; false] /\
    PrimFloat.eqb (nth 0 st (@zero FloatInst.AF)) (nth 0 JacExactFloat.exj_x2 (@zero FloatInst.AF)) = false /\
    PrimFloat.ltb (nth 0 st (@zero FloatInst.AF)) (nth 0 JacExactFloat.exj_x2 (@zero FloatInst.AF)) = true /\
    nth 0 (nth 2 evs []) (@zero FloatInst.AF) = nth 0 st (@zero FloatInst.AF).
Proof. exact JacExactFloat.exj_inexact. Qed.
(* the sign hypotheses are needed: x_0 = -0 is restored as +0, the entry M_01 = -0 is returned as +0 *)
Example jacobian_affine_float_negzero :
  exists st J evs,
    jacobian_tr (NReal FloatInst.AF)
      (fun p => Ok (aff (NReal FloatInst.AF) JacExactFloat.exj_Mneg JacExactFloat.exj_c p))
      JacExactFloat.exj_xneg JacExactFloat.exj_d = Ok (st, J, evs) /\
    PrimFloat.get_sign (nth 0 st (@zero FloatInst.AF)) = false /\ PrimFloat.get_sign (nth 1 (buf J) (@one FloatInst.AF)) = false /\
    PrimFloat.get_sign PrimFloat.neg_zero = true.
Proof. exact JacExactFloat.exj_negzero. Qed.

(* the exactness at binary64 does not depend on HOW the closure evaluates the map, only on its n + 1 values being held exactly:
   ANY total closure F with  F(x)_i = N0 i 2^E  and  F(x + delta e_j)_i = (N0 i + Mz i j Dd) 2^E  (exactly; the latter not -0),
   x_k = Xz k 2^eX, delta = Dd 2^eX:  the matrix returned is the float matrix M with M_ij = Mz i j 2^(E - eX), bit for bit *)
Theorem jacobian_exact_float_any_closure : forall (F : list PrimFloat.float -> res (list PrimFloat.float)) (M : matrix FloatInst.AF)
    (x : list PrimFloat.float) (d : PrimFloat.float) (Mz : nat -> nat -> Z) (N0 Xz : nat -> Z) (Dd E eX : Z),
  wf M -> length x = cols M ->
  (forall y, length y = length x -> exists v, F y = Ok v /\ length v = rows M) ->
  (forall i j, (i < rows M)%nat -> (j < cols M)%nat ->
     ComplexRound.ffinite (ment (NReal FloatInst.AF) M i j) /\ ComplexRound.FR (ment (NReal FloatInst.AF) M i j) = (IZR (Mz i j) * Flocq.Core.Raux.bpow Flocq.Core.Zaux.radix2 (E - eX))%R /\
     ment (NReal FloatInst.AF) M i j <> PrimFloat.neg_zero) ->
  (forall j, (j < cols M)%nat ->
     ComplexRound.ffinite (nth j x (@zero FloatInst.AF)) /\ ComplexRound.FR (nth j x (@zero FloatInst.AF)) = (IZR (Xz j) * Flocq.Core.Raux.bpow Flocq.Core.Zaux.radix2 eX)%R /\ nth j x (@zero FloatInst.AF) <> PrimFloat.neg_zero) ->
  ComplexRound.ffinite d -> ComplexRound.FR d = (IZR Dd * Flocq.Core.Raux.bpow Flocq.Core.Zaux.radix2 eX)%R -> (0 < Dd)%Z ->
  (-1074 <= eX <= 971)%Z -> (-1074 <= E <= 971)%Z -> (-1074 <= E - eX <= 971)%Z ->
  (forall j, (j < cols M)%nat -> (Z.abs (Xz j) + Dd < 2 ^ 53)%Z) ->
  (forall i j, (i < rows M)%nat -> (j < cols M)%nat -> (Z.abs (Mz i j * Dd) < 2 ^ 53)%Z) ->
  (forall v i, F x = Ok v -> (i < rows M)%nat ->
     ComplexRound.ffinite (nth i v (@zero FloatInst.AF)) /\ ComplexRound.FR (nth i v (@zero FloatInst.AF)) = (IZR (N0 i) * Flocq.Core.Raux.bpow Flocq.Core.Zaux.radix2 E)%R) ->
  (forall v i j, (j < cols M)%nat -> F (perturbed (NReal FloatInst.AF) x d j) = Ok v -> (i < rows M)%nat ->
     ComplexRound.ffinite (nth i v (@zero FloatInst.AF)) /\ ComplexRound.FR (nth i v (@zero FloatInst.AF)) = (IZR (N0 i + Mz i j * Dd) * Flocq.Core.Raux.bpow Flocq.Core.Zaux.radix2 E)%R /\
     nth i v (@zero FloatInst.AF) <> PrimFloat.neg_zero) ->
  jacobian_tr (NReal FloatInst.AF) F x d = Ok (x, M, x :: map (perturbed (NReal FloatInst.AF) x d) (seq 0 (length x))) /\
  jacobian (NReal FloatInst.AF) F x d = Ok (M, x :: map (perturbed (NReal FloatInst.AF) x d) (seq 0 (length x))).
Proof. exact JacExactFloatGen.jacobian_exact_float_gen_thm. Qed.
Check jacobian_exact_float_any_closure : forall (F : list PrimFloat.float -> res (list PrimFloat.float)) (M : matrix FloatInst.AF)
    (x : list PrimFloat.float) (d : PrimFloat.float) (Mz : nat -> nat -> Z) (N0 Xz : nat -> Z) (Dd E eX : Z),
  wf M -> length x = cols M ->
  (forall y, length y = length x -> exists v, F y = Ok v /\ length v = rows M) ->
  (forall i j, (i < rows M)%nat -> (j < cols M)%nat ->
     ComplexRound.ffinite (ment (NReal FloatInst.AF) M i j) /\ ComplexRound.FR (ment (NReal FloatInst.AF) M i j) = (IZR (Mz i j) * Flocq.Core.Raux.bpow Flocq.Core.Zaux.radix2 (E - eX))%R /\
     ment (NReal FloatInst.AF) M i j <> PrimFloat.neg_zero) ->
  (forall j, (j < cols M)%nat ->
     ComplexRound.ffinite (nth j x (@zero FloatInst.AF)) /\ ComplexRound.FR (nth j x (@zero FloatInst.AF)) = (IZR (Xz j) * Flocq.Core.Raux.bpow Flocq.Core.Zaux.radix2 eX)%R /\ nth j x (@zero FloatInst.AF) <> PrimFloat.neg_zero) ->
  ComplexRound.ffinite d -> ComplexRound.FR d = (IZR Dd * Flocq.Core.Raux.bpow Flocq.Core.Zaux.radix2 eX)%R -> (0 < Dd)%Z ->
  (-1074 <= eX <= 971)%Z -> (-1074 <= E <= 971)%Z -> (-1074 <= E - eX <= 971)%Z ->
  (forall j, (j < cols M)%nat -> (Z.abs (Xz j) + Dd < 2 ^ 53)%Z) ->
  (forall i j, (i < rows M)%nat -> (j < cols M)%nat -> (Z.abs (Mz i j * Dd) < 2 ^ 53)%Z) ->
  (forall v i, F x = Ok v -> (i < rows M)%nat ->
     ComplexRound.ffinite (nth i v (@zero FloatInst.AF)) /\ ComplexRound.FR (nth i v (@zero FloatInst.AF)) = (IZR (N0 i) * Flocq.Core.Raux.bpow Flocq.Core.Zaux.radix2 E)%R) ->
  (forall v i j, (j < cols M)%nat -> F (perturbed (NReal FloatInst.AF) x d j) = Ok v -> (i < rows M)%nat ->
     ComplexRound.ffinite (nth i v (@zero FloatInst.AF)) /\ ComplexRound.FR (nth i v (@zero FloatInst.AF)) = (IZR (N0 i + Mz i j * Dd) * Flocq.Core.Raux.bpow Flocq.Core.Zaux.radix2 E)%R /\
     nth i v (@zero FloatInst.AF) <> PrimFloat.neg_zero) ->
  jacobian_tr (NReal FloatInst.AF) F x d = Ok (x, M, x :: map (perturbed (NReal FloatInst.AF) x d) (seq 0 (length x))) /\
  jacobian (NReal FloatInst.AF) F x d = Ok (M, x :: map (perturbed (NReal FloatInst.AF) x d) (seq 0 (length x))).
Print Assumptions jacobian_exact_float_any_closure.
(* non-vacuity: jacobian_affine_cfirst_exact_float below is an instance (its proof discharges every hypothesis above for the closure affc) *)

(* the evaluation order of the check's own affine test closures (driver/newtonlib.py affine_exprs):
     affc M c p, row i = ((c_i + M_i0 p_0) + M_i1 p_1) + ...      (sum_from acc n f = acc + f 0 + ... + f (n-1), left to right)
   same data, same bounds as jacobian_affine_exact_float, c_i not -0: the RULE of driver/c18.py ("delta = 2^-k where every operation is
   exact") is this theorem -- M on the grid 1/8 in [-4,4], x on the grid 1/16 in [-4,4], delta = 2^-k, k = 4..26, n <= 6 satisfy it *)
Theorem jacobian_affine_cfirst_exact_float : forall (M : matrix FloatInst.AF) (c x : list PrimFloat.float) (d : PrimFloat.float)
    (Mz : nat -> nat -> Z) (Cz Xz : nat -> Z) (Dd eM eX : Z),
  wf M -> length x = cols M ->
  (forall i j, (i < rows M)%nat -> (j < cols M)%nat ->
     ComplexRound.ffinite (ment (NReal FloatInst.AF) M i j) /\
     ComplexRound.FR (ment (NReal FloatInst.AF) M i j) = (IZR (Mz i j) * Flocq.Core.Raux.bpow Flocq.Core.Zaux.radix2 eM)%R /\
     ment (NReal FloatInst.AF) M i j <> PrimFloat.neg_zero) ->
  (forall j, (j < cols M)%nat ->
     ComplexRound.ffinite (nth j x (@zero FloatInst.AF)) /\
     ComplexRound.FR (nth j x (@zero FloatInst.AF)) = (IZR (Xz j) * Flocq.Core.Raux.bpow Flocq.Core.Zaux.radix2 eX)%R /\
     nth j x (@zero FloatInst.AF) <> PrimFloat.neg_zero) ->
  (forall i, (i < rows M)%nat ->
     ComplexRound.ffinite (nth i c (@zero FloatInst.AF)) /\
     ComplexRound.FR (nth i c (@zero FloatInst.AF)) = (IZR (Cz i) * Flocq.Core.Raux.bpow Flocq.Core.Zaux.radix2 (eM + eX))%R /\
     nth i c (@zero FloatInst.AF) <> PrimFloat.neg_zero) ->
  ComplexRound.ffinite d -> ComplexRound.FR d = (IZR Dd * Flocq.Core.Raux.bpow Flocq.Core.Zaux.radix2 eX)%R -> (0 < Dd)%Z ->
  (-1074 <= eX <= 971)%Z -> (-1074 <= eM <= 971)%Z -> (-1074 <= eM + eX <= 971)%Z ->
  (forall j, (j < cols M)%nat -> (Z.abs (Xz j) + Dd < 2 ^ 53)%Z) ->
  (forall i, (i < rows M)%nat ->
     (JacExactFloat.zsumn (cols M) (fun k => Z.abs (Mz i k) * (Z.abs (Xz k) + Dd)) + Z.abs (Cz i) < 2 ^ 53)%Z) ->
  jacobian_tr (NReal FloatInst.AF) (fun p => Ok (JacExactFloatGen.affc (NReal FloatInst.AF) M c p)) x d =
    Ok (x, M, x :: map (perturbed (NReal FloatInst.AF) x d) (seq 0 (length x))) /\
  jacobian (NReal FloatInst.AF) (fun p => Ok (JacExactFloatGen.affc (NReal FloatInst.AF) M c p)) x d =
    Ok (M, x :: map (perturbed (NReal FloatInst.AF) x d) (seq 0 (length x))).
Proof. exact JacExactFloatGen.jacobian_affine_cfirst_exact_float_thm. Qed.
Check jacobian_affine_cfirst_exact_float : forall (M : matrix FloatInst.AF) (c x : list PrimFloat.float) (d : PrimFloat.float)
    (Mz : nat -> nat -> Z) (Cz Xz : nat -> Z) (Dd eM eX : Z),
  wf M -> length x = cols M ->
  (forall i j, (i < rows M)%nat -> (j < cols M)%nat ->
     ComplexRound.ffinite (ment (NReal FloatInst.AF) M i j) /\
     ComplexRound.FR (ment (NReal FloatInst.AF) M i j) = (IZR (Mz i j) * Flocq.Core.Raux.bpow Flocq.Core.Zaux.radix2 eM)%R /\
     ment (NReal FloatInst.AF) M i j <> PrimFloat.neg_zero) ->
  (forall j, (j < cols M)%nat ->
     ComplexRound.ffinite (nth j x (@zero FloatInst.AF)) /\
     ComplexRound.FR (nth j x (@zero FloatInst.AF)) = (IZR (Xz j) * Flocq.Core.Raux.bpow Flocq.Core.Zaux.radix2 eX)%R /\
     nth j x (@zero FloatInst.AF) <> PrimFloat.neg_zero) ->
  (forall i, (i < rows M)%nat ->
     ComplexRound.ffinite (nth i c (@zero FloatInst.AF)) /\
     ComplexRound.FR (nth i c (@zero FloatInst.AF)) = (IZR (Cz i) * Flocq.Core.Raux.bpow Flocq.Core.Zaux.radix2 (eM + eX))%R /\
     nth i c (@zero FloatInst.AF) <> PrimFloat.neg_zero) ->
  ComplexRound.ffinite d -> ComplexRound.FR d = (IZR Dd * Flocq.Core.Raux.bpow Flocq.Core.Zaux.radix2 eX)%R -> (0 < Dd)%Z ->
  (-1074 <= eX <= 971)%Z -> (-1074 <= eM <= 971)%Z -> (-1074 <= eM + eX <= 971)%Z ->
  (forall j, (j < cols M)%nat -> (Z.abs (Xz j) + Dd < 2 ^ 53)%Z) ->
  (forall i, (i < rows M)%nat ->
     (JacExactFloat.zsumn (cols M) (fun k => Z.abs (Mz i k) * (Z.abs (Xz k) + Dd)) + Z.abs (Cz i) < 2 ^ 53)%Z) ->
  jacobian_tr (NReal FloatInst.AF) (fun p => Ok (JacExactFloatGen.affc (NReal FloatInst.AF) M c p)) x d =
    Ok (x, M, x :: map (perturbed (NReal FloatInst.AF) x d) (seq 0 (length x))) /\
  jacobian (NReal FloatInst.AF) (fun p => Ok (JacExactFloatGen.affc (NReal FloatInst.AF) M c p)) x d =
    Ok (M, x :: map (perturbed (NReal FloatInst.AF) x d) (seq 0 (length x))).
Print Assumptions jacobian_affine_cfirst_exact_float.
Example jacobian_affine_cfirst_exact_float_nonvacuous :
  (forall i, (i < rows JacExactFloat.exj_M)%nat -> nth i JacExactFloat.exj_c (@zero FloatInst.AF) <> PrimFloat.neg_zero) /\
  (* the other hypotheses: jacobian_affine_exact_float_nonvacuous (same data); the run, by evaluation: *)
  jacobian (NReal FloatInst.AF) (fun p => Ok (JacExactFloatGen.affc (NReal FloatInst.AF) JacExactFloat.exj_M JacExactFloat.exj_c p))
           JacExactFloat.exj_x JacExactFloat.exj_d = Ok (JacExactFloat.exj_M, JacExactFloat.exj_evs).
Proof. split; [exact JacExactFloatGen.exj_c_nz|exact JacExactFloatGen.exj_value_cfirst]. Qed.

(* C18 "exact on dyadic data", Matrix::<Cmplx>::jacobian_cmplx at binary64 (NCplx SAF, step emb d = Cmplx::new(delta, 0.0): REAL, added to
   the real part; the quotient is the complex division by (delta, 0)).  GAUSSIAN-DYADIC data:
     gdy z a b e  :=  re z, im z finite with values a 2^e, b 2^e;     cnnz z  :=  neither part is the negative zero;
   M_ik = (Mr + i Mi) 2^eM, x_k = (Xr + i Xi) 2^eX, c_i = (Cr + i Ci) 2^(eM+eX), delta = Dd 2^eX, Dd > 0.  The two extra bounds
   (Dd^2, (|Mr|+|Mi|) Dd^2 < 2^53; exponents 2 eX and eM + 2 eX in range) come from the division, which multiplies by delta first.
   Conclusion as in the real case: the returned matrix is M bit for bit, every coordinate is restored exactly. *)
Theorem jacobian_affine_exact_float_C : forall (M : matrix (Complex.CArith FloatInst.SAF)) (c x : list (Complex.cplx FloatInst.AF)) (d : PrimFloat.float)
    (Mr Mi : nat -> nat -> Z) (Cr Ci Xr Xi : nat -> Z) (Dd eM eX : Z),
  wf M -> length x = cols M ->
  (forall i j, (i < rows M)%nat -> (j < cols M)%nat ->
     JacExactFloatC.gdy (ment (NCplx FloatInst.SAF) M i j) (Mr i j) (Mi i j) eM /\ JacExactFloatC.cnnz (ment (NCplx FloatInst.SAF) M i j)) ->
  (forall j, (j < cols M)%nat -> JacExactFloatC.gdy (nth j x (@zero (Complex.CArith FloatInst.SAF))) (Xr j) (Xi j) eX /\ JacExactFloatC.cnnz (nth j x (@zero (Complex.CArith FloatInst.SAF)))) ->
  (forall i, (i < rows M)%nat -> JacExactFloatC.gdy (nth i c (@zero (Complex.CArith FloatInst.SAF))) (Cr i) (Ci i) (eM + eX)) ->
  ComplexRound.ffinite d -> ComplexRound.FR d = (IZR Dd * Flocq.Core.Raux.bpow Flocq.Core.Zaux.radix2 eX)%R -> (0 < Dd)%Z ->
  (-1074 <= eX <= 971)%Z -> (-1074 <= eM <= 971)%Z -> (-1074 <= eM + eX <= 971)%Z ->
  (-1074 <= eX + eX <= 971)%Z -> (-1074 <= eM + eX + eX <= 971)%Z ->
  (forall j, (j < cols M)%nat -> (Z.abs (Xr j) + Dd < 2 ^ 53 /\ Z.abs (Xi j) < 2 ^ 53)%Z) ->
  (forall i, (i < rows M)%nat ->
     (JacExactFloat.zsumn (cols M) (fun k => (Z.abs (Mr i k) + Z.abs (Mi i k)) * (Z.abs (Xr k) + Z.abs (Xi k) + Dd))
      + (Z.abs (Cr i) + Z.abs (Ci i)) < 2 ^ 53)%Z) ->
  (Dd * Dd < 2 ^ 53)%Z ->
  (forall i j, (i < rows M)%nat -> (j < cols M)%nat -> ((Z.abs (Mr i j) + Z.abs (Mi i j)) * (Dd * Dd) < 2 ^ 53)%Z) ->
  jacobian_tr (NCplx FloatInst.SAF) (fun p => Ok (aff (NCplx FloatInst.SAF) M c p)) x (emb (NCplx FloatInst.SAF) d) =
    Ok (x, M, x :: map (perturbed (NCplx FloatInst.SAF) x (emb (NCplx FloatInst.SAF) d)) (seq 0 (length x))) /\
  jacobian (NCplx FloatInst.SAF) (fun p => Ok (aff (NCplx FloatInst.SAF) M c p)) x (emb (NCplx FloatInst.SAF) d) =
    Ok (M, x :: map (perturbed (NCplx FloatInst.SAF) x (emb (NCplx FloatInst.SAF) d)) (seq 0 (length x))).
Proof. exact JacExactFloatC.jacobian_affine_exact_float_C_thm. Qed.
Check jacobian_affine_exact_float_C : forall (M : matrix (Complex.CArith FloatInst.SAF)) (c x : list (Complex.cplx FloatInst.AF)) (d : PrimFloat.float)
    (Mr Mi : nat -> nat -> Z) (Cr Ci Xr Xi : nat -> Z) (Dd eM eX : Z),
  wf M -> length x = cols M ->
  (forall i j, (i < rows M)%nat -> (j < cols M)%nat ->
     JacExactFloatC.gdy (ment (NCplx FloatInst.SAF) M i j) (Mr i j) (Mi i j) eM /\ JacExactFloatC.cnnz (ment (NCplx FloatInst.SAF) M i j)) ->
  (forall j, (j < cols M)%nat -> JacExactFloatC.gdy (nth j x (@zero (Complex.CArith FloatInst.SAF))) (Xr j) (Xi j) eX /\ JacExactFloatC.cnnz (nth j x (@zero (Complex.CArith FloatInst.SAF)))) ->
  (forall i, (i < rows M)%nat -> JacExactFloatC.gdy (nth i c (@zero (Complex.CArith FloatInst.SAF))) (Cr i) (Ci i) (eM + eX)) ->
  ComplexRound.ffinite d -> ComplexRound.FR d = (IZR Dd * Flocq.Core.Raux.bpow Flocq.Core.Zaux.radix2 eX)%R -> (0 < Dd)%Z ->
  (-1074 <= eX <= 971)%Z -> (-1074 <= eM <= 971)%Z -> (-1074 <= eM + eX <= 971)%Z ->
  (-1074 <= eX + eX <= 971)%Z -> (-1074 <= eM + eX + eX <= 971)%Z ->
  (forall j, (j < cols M)%nat -> (Z.abs (Xr j) + Dd < 2 ^ 53 /\ Z.abs (Xi j) < 2 ^ 53)%Z) ->
  (forall i, (i < rows M)%nat ->
     (JacExactFloat.zsumn (cols M) (fun k => (Z.abs (Mr i k) + Z.abs (Mi i k)) * (Z.abs (Xr k) + Z.abs (Xi k) + Dd))
      + (Z.abs (Cr i) + Z.abs (Ci i)) < 2 ^ 53)%Z) ->
  (Dd * Dd < 2 ^ 53)%Z ->
  (forall i j, (i < rows M)%nat -> (j < cols M)%nat -> ((Z.abs (Mr i j) + Z.abs (Mi i j)) * (Dd * Dd) < 2 ^ 53)%Z) ->
  jacobian_tr (NCplx FloatInst.SAF) (fun p => Ok (aff (NCplx FloatInst.SAF) M c p)) x (emb (NCplx FloatInst.SAF) d) =
    Ok (x, M, x :: map (perturbed (NCplx FloatInst.SAF) x (emb (NCplx FloatInst.SAF) d)) (seq 0 (length x))) /\
  jacobian (NCplx FloatInst.SAF) (fun p => Ok (aff (NCplx FloatInst.SAF) M c p)) x (emb (NCplx FloatInst.SAF) d) =
    Ok (M, x :: map (perturbed (NCplx FloatInst.SAF) x (emb (NCplx FloatInst.SAF) d)) (seq 0 (length x))).
Print Assumptions jacobian_affine_exact_float_C.
Example jacobian_affine_exact_float_C_nonvacuous :
  wf JacExactFloatC.exc_M /\ length JacExactFloatC.exc_x = cols JacExactFloatC.exc_M /\
  (forall i j, (i < rows JacExactFloatC.exc_M)%nat -> (j < cols JacExactFloatC.exc_M)%nat ->
     JacExactFloatC.gdy (ment (NCplx FloatInst.SAF) JacExactFloatC.exc_M i j) (JacExactFloatC.exc_Mr i j) (JacExactFloatC.exc_Mi i j) 0 /\
     JacExactFloatC.cnnz (ment (NCplx FloatInst.SAF) JacExactFloatC.exc_M i j)) /\
  (forall j, (j < cols JacExactFloatC.exc_M)%nat ->
     JacExactFloatC.gdy (nth j JacExactFloatC.exc_x (@zero (Complex.CArith FloatInst.SAF))) (JacExactFloatC.exc_Xr j) (JacExactFloatC.exc_Xi j) (-20) /\
     JacExactFloatC.cnnz (nth j JacExactFloatC.exc_x (@zero (Complex.CArith FloatInst.SAF)))) /\
  (forall i, (i < rows JacExactFloatC.exc_M)%nat ->
     JacExactFloatC.gdy (nth i JacExactFloatC.exc_c (@zero (Complex.CArith FloatInst.SAF))) (JacExactFloatC.exc_Cr i) (JacExactFloatC.exc_Ci i) (0 + -20)) /\
  ComplexRound.ffinite JacExactFloat.exj_d /\
  ComplexRound.FR JacExactFloat.exj_d = (IZR 1 * Flocq.Core.Raux.bpow Flocq.Core.Zaux.radix2 (-20))%R /\
  (forall j, (j < cols JacExactFloatC.exc_M)%nat ->
     (Z.abs (JacExactFloatC.exc_Xr j) + 1 < 2 ^ 53 /\ Z.abs (JacExactFloatC.exc_Xi j) < 2 ^ 53)%Z) /\
  (forall i, (i < rows JacExactFloatC.exc_M)%nat ->
     (JacExactFloat.zsumn (cols JacExactFloatC.exc_M)
        (fun k => (Z.abs (JacExactFloatC.exc_Mr i k) + Z.abs (JacExactFloatC.exc_Mi i k)) *
                  (Z.abs (JacExactFloatC.exc_Xr k) + Z.abs (JacExactFloatC.exc_Xi k) + 1))
      + (Z.abs (JacExactFloatC.exc_Cr i) + Z.abs (JacExactFloatC.exc_Ci i)) < 2 ^ 53)%Z) /\
  (forall i j, (i < rows JacExactFloatC.exc_M)%nat -> (j < cols JacExactFloatC.exc_M)%nat ->
     ((Z.abs (JacExactFloatC.exc_Mr i j) + Z.abs (JacExactFloatC.exc_Mi i j)) * (1 * 1) < 2 ^ 53)%Z) /\
  (* delta = 2^-20, M = [1+2i, -1; 3i, 2-i], x = (0.5 - 1.25 i, 3 + 0.75 i), c = (0.5 + 0.25 i, 1): the run returns M *)
  exists evs, jacobian (NCplx FloatInst.SAF) (fun p => Ok (aff (NCplx FloatInst.SAF) JacExactFloatC.exc_M JacExactFloatC.exc_c p))
                JacExactFloatC.exc_x (emb (NCplx FloatInst.SAF) JacExactFloat.exj_d) = Ok (JacExactFloatC.exc_M, evs).
Proof.
  split; [reflexivity|]. split; [reflexivity|]. split; [exact JacExactFloatC.exc_M_dy|]. split; [exact JacExactFloatC.exc_x_dy|].
  split; [exact JacExactFloatC.exc_c_dy|]. split; [exact (proj1 JacExactFloat.exj_d_dy)|]. split; [exact (proj2 JacExactFloat.exj_d_dy)|].
  split; [exact JacExactFloatC.exc_bx|]. split; [exact JacExactFloatC.exc_brow|]. split; [exact JacExactFloatC.exc_bmd|].
  eexists. exact JacExactFloatC.exc_value.
Qed.
(* outside the hypotheses (delta = 1e-8, re x_0 = 0.9999999999): the real parts of all non-zero entries are wrong, the entry -1 + 0 i
   comes back with a NEGATIVE imaginary part (-2.2e-8), and re x_0 is restored one ulp smaller *)
Example jacobian_affine_float_C_inexact_nondyadic :
  exists st J evs,
    jacobian_tr (NCplx FloatInst.SAF) (fun p => Ok (aff (NCplx FloatInst.SAF) JacExactFloatC.exc_M JacExactFloatC.exc_c p))
                JacExactFloatC.exc_x2
                (emb (NCplx FloatInst.SAF) JacExactFloat.exj_d2) = Ok (st, J, evs) /\
    map (fun k => PrimFloat.eqb (Complex.re (nth k (buf J) (@zero (Complex.CArith FloatInst.SAF)))) (Complex.re (nth k (buf JacExactFloatC.exc_M) (@zero (Complex.CArith FloatInst.SAF))))) (seq 0 4) =
      [false; false; true; false] /\
    PrimFloat.ltb (Complex.im (nth 1 (buf J) (@zero (Complex.CArith FloatInst.SAF)))) (@zero FloatInst.AF) = true /\
    PrimFloat.ltb (Complex.re (nth 0 st (@zero (Complex.CArith FloatInst.SAF)))) (Complex.re (nth 0 JacExactFloatC.exc_x2 (@zero (Complex.CArith FloatInst.SAF)))) = true.
Proof. exact JacExactFloatC.exc_inexact. Qed.
(* im x_0 = -0 comes back as +0 -- already the first perturbed call is made at im = +0 *)
Example jacobian_affine_float_C_negzero :
  exists st J evs,
    jacobian_tr (NCplx FloatInst.SAF) (fun p => Ok (aff (NCplx FloatInst.SAF) JacExactFloatC.exc_M JacExactFloatC.exc_c p))
                JacExactFloatC.exc_xneg
                (emb (NCplx FloatInst.SAF) JacExactFloat.exj_d) = Ok (st, J, evs) /\
    PrimFloat.get_sign (Complex.im (nth 0 st (@zero (Complex.CArith FloatInst.SAF)))) = false /\
    PrimFloat.get_sign (Complex.im (nth 0 (nth 1 evs []) (@zero (Complex.CArith FloatInst.SAF)))) = false /\
    PrimFloat.get_sign PrimFloat.neg_zero = true.
Proof. exact JacExactFloatC.exc_negzero. Qed.

(* ---- the standard model of floating-point arithmetic (Base/RoundModel.v; every operation = exact result times (1 + e), |e| <= u) ----
   state[j] += delta; state[j] -= delta  on non-dyadic data: the coordinate comes back within (2u + u^2)(|x_j| + |delta|) of x_j *)
Theorem restore_drift : forall (u : R), (0 <= u < 1)%R ->
  forall (fadd fsub fmul fdiv : R -> R -> R),
  (forall x y : R, exists e : R, (Rabs e <= u)%R /\ fadd x y = ((x + y) * (1 + e))%R) ->
  (forall x y : R, exists e : R, (Rabs e <= u)%R /\ fsub x y = ((x - y) * (1 + e))%R) ->
  forall x d : R,
  (Rabs (fsub (fadd x d) d - x) <= u * (1 + u) * Rabs (x + d) + u * Rabs x)%R /\
  (Rabs (fsub (fadd x d) d - x) <= (2 * u + u * u) * (Rabs x + Rabs d))%R.
Proof. intros u Hu fadd fsub fmul fdiv Ha Hs. exact (JacExactRound.restore_drift_lemma u Hu fadd fsub Ha Hs). Qed.
Check restore_drift : forall (u : R), (0 <= u < 1)%R ->
  forall (fadd fsub fmul fdiv : R -> R -> R),
  (forall x y : R, exists e : R, (Rabs e <= u)%R /\ fadd x y = ((x + y) * (1 + e))%R) ->
  (forall x y : R, exists e : R, (Rabs e <= u)%R /\ fsub x y = ((x - y) * (1 + e))%R) ->
  forall x d : R,
  (Rabs (fsub (fadd x d) d - x) <= u * (1 + u) * Rabs (x + d) + u * Rabs x)%R /\
  (Rabs (fsub (fadd x d) d - x) <= (2 * u + u * u) * (Rabs x + Rabs d))%R.
Print Assumptions restore_drift.
(* the hypotheses hold for round-to-nearest-even in precision 53, u = 2^-53 (Proofs/RoundFlx.v) *)
Example restore_drift_nonvacuous :
  (0 <= RoundFlx.ux < 1)%R /\
  (forall x y : R, exists e : R, (Rabs e <= RoundFlx.ux)%R /\ RoundFlx.xadd x y = ((x + y) * (1 + e))%R) /\
  (forall x y : R, exists e : R, (Rabs e <= RoundFlx.ux)%R /\ RoundFlx.xsub x y = ((x - y) * (1 + e))%R) /\
  (forall x y : R, y <> 0%R -> exists e : R, (Rabs e <= RoundFlx.ux)%R /\ RoundFlx.xdiv x y = (x / y * (1 + e))%R).
Proof. split; [exact RoundFlx.ux_range|]. split; [exact RoundFlx.xadd_ok|]. split; [exact RoundFlx.xsub_ok|exact RoundFlx.xdiv_ok]. Qed.

(* all columns: column j is evaluated at a point whose coordinate j is fl(x_j + delta), whose coordinates k < j have drifted by at most
   (2u + u^2)(|x_k| + |delta|) and whose coordinates k > j are x_k; the loop ends with a state within that distance of x *)
Theorem jacobian_call_points_drift : forall (u : R), (0 <= u < 1)%R ->
  forall (fadd fsub fmul fdiv : R -> R -> R),
  (forall x y : R, exists e : R, (Rabs e <= u)%R /\ fadd x y = ((x + y) * (1 + e))%R) ->
  (forall x y : R, exists e : R, (Rabs e <= u)%R /\ fsub x y = ((x - y) * (1 + e))%R) ->
  forall (F : list R -> res (list R)) (x : list R) (d : R) (st : list R) (J : matrix (RoundModel.ARm fadd fsub fmul fdiv))
    (evs : list (list R)),
  jacobian_tr (NReal (RoundModel.ARm fadd fsub fmul fdiv)) F x d = Ok (st, J, evs) ->
  evs = x :: map (JacExactGen.call_pt (NReal (RoundModel.ARm fadd fsub fmul fdiv)) x d) (seq 0 (length x)) /\
  (forall j k, (j < length x)%nat ->
     (Rabs (nth k (JacExactGen.call_pt (NReal (RoundModel.ARm fadd fsub fmul fdiv)) x d j) 0 - (if (k =? j)%nat then nth j x 0 + d else nth k x 0)) <=
       (if (k =? j)%nat then u * Rabs (nth k x 0 + d)
        else if (k <? j)%nat then (2 * u + u * u) * (Rabs (nth k x 0) + Rabs d) else 0))%R) /\
  length st = length x /\
  (forall k, (Rabs (nth k st 0 - nth k x 0) <= (2 * u + u * u) * (Rabs (nth k x 0) + Rabs d))%R).
Proof. intros u Hu fadd fsub fmul fdiv Ha Hs. exact (JacExactRound.jacobian_call_points_drift_explicit u Hu fadd fsub fmul fdiv Ha Hs). Qed.
Check jacobian_call_points_drift : forall (u : R), (0 <= u < 1)%R ->
  forall (fadd fsub fmul fdiv : R -> R -> R),
  (forall x y : R, exists e : R, (Rabs e <= u)%R /\ fadd x y = ((x + y) * (1 + e))%R) ->
  (forall x y : R, exists e : R, (Rabs e <= u)%R /\ fsub x y = ((x - y) * (1 + e))%R) ->
  forall (F : list R -> res (list R)) (x : list R) (d : R) (st : list R) (J : matrix (RoundModel.ARm fadd fsub fmul fdiv))
    (evs : list (list R)),
  jacobian_tr (NReal (RoundModel.ARm fadd fsub fmul fdiv)) F x d = Ok (st, J, evs) ->
  evs = x :: map (JacExactGen.call_pt (NReal (RoundModel.ARm fadd fsub fmul fdiv)) x d) (seq 0 (length x)) /\
  (forall j k, (j < length x)%nat ->
     (Rabs (nth k (JacExactGen.call_pt (NReal (RoundModel.ARm fadd fsub fmul fdiv)) x d j) 0 - (if (k =? j)%nat then nth j x 0 + d else nth k x 0)) <=
       (if (k =? j)%nat then u * Rabs (nth k x 0 + d)
        else if (k <? j)%nat then (2 * u + u * u) * (Rabs (nth k x 0) + Rabs d) else 0))%R) /\
  length st = length x /\
  (forall k, (Rabs (nth k st 0 - nth k x 0) <= (2 * u + u * u) * (Rabs (nth k x 0) + Rabs d))%R).
Print Assumptions jacobian_call_points_drift.
Example jacobian_call_points_drift_nonvacuous :
  exists st (J : matrix RoundFlx.AFlx) evs,
    jacobian_tr (NReal RoundFlx.AFlx) JacExactRoundEx.Fq [1%R; 2%R] (1 / 4)%R = Ok (st, J, evs).
Proof. exact JacExactRoundEx.jacobian_tr_round_witness. Qed.

(* the ROUNDING FLOOR of the difference quotient, for ANY function: F is the computed function (any code run in the model arithmetic),
   f_i the exact component it approximates with relative error eps at the two call points x and p_j = call_pt j.  Then
     | J_ij - (f_i(p_j) - f_i(x)) / delta |  <=  ( 2u + u^2 + eps (1+u)^2 ) ( |f_i(p_j)| + |f_i(x)| ) / |delta| :
   the floor c u |f| / |delta| (eps = c' u) that no choice of delta removes *)
Theorem jacobian_rounding_floor : forall (u : R), (0 <= u < 1)%R ->
  forall (fadd fsub fmul fdiv : R -> R -> R),
  (forall x y : R, exists e : R, (Rabs e <= u)%R /\ fadd x y = ((x + y) * (1 + e))%R) ->
  (forall x y : R, exists e : R, (Rabs e <= u)%R /\ fsub x y = ((x - y) * (1 + e))%R) ->
  (forall x y : R, y <> 0%R -> exists e : R, (Rabs e <= u)%R /\ fdiv x y = (x / y * (1 + e))%R) ->
  forall (F : list R -> res (list R)) (x : list R) (d : R) (J : matrix (RoundModel.ARm fadd fsub fmul fdiv)) (evs : list (list R)),
  jacobian (NReal (RoundModel.ARm fadd fsub fmul fdiv)) F x d = Ok (J, evs) -> d <> 0%R ->
  forall (i j : nat) (fi : list R -> R) (eps : R),
  (i < rows J)%nat -> (j < length x)%nat -> (0 <= eps)%R ->
  (forall v, F x = Ok v -> (Rabs (nth i v 0 - fi x) <= eps * Rabs (fi x))%R) ->
  (forall v, F (JacExactGen.call_pt (NReal (RoundModel.ARm fadd fsub fmul fdiv)) x d j) = Ok v ->
     (Rabs (nth i v 0 - fi (JacExactGen.call_pt (NReal (RoundModel.ARm fadd fsub fmul fdiv)) x d j)) <= eps * Rabs (fi (JacExactGen.call_pt (NReal (RoundModel.ARm fadd fsub fmul fdiv)) x d j)))%R) ->
  exists q : R, mget J i j = Ok q /\
    (Rabs (q - (fi (JacExactGen.call_pt (NReal (RoundModel.ARm fadd fsub fmul fdiv)) x d j) - fi x) / d) <=
      ((2 * u + u * u) * Rabs (fi (JacExactGen.call_pt (NReal (RoundModel.ARm fadd fsub fmul fdiv)) x d j) - fi x) +
       eps * ((1 + u) * (1 + u)) * (Rabs (fi (JacExactGen.call_pt (NReal (RoundModel.ARm fadd fsub fmul fdiv)) x d j)) + Rabs (fi x))) / Rabs d)%R /\
    (Rabs (q - (fi (JacExactGen.call_pt (NReal (RoundModel.ARm fadd fsub fmul fdiv)) x d j) - fi x) / d) <=
      (2 * u + u * u + eps * ((1 + u) * (1 + u))) * (Rabs (fi (JacExactGen.call_pt (NReal (RoundModel.ARm fadd fsub fmul fdiv)) x d j)) + Rabs (fi x)) / Rabs d)%R.
Proof. intros u Hu fadd fsub fmul fdiv Ha Hs Hd. exact (JacExactRound.jacobian_rounding_floor_lemma u Hu fadd fsub fmul fdiv Hs Hd). Qed.
Check jacobian_rounding_floor : forall (u : R), (0 <= u < 1)%R ->
  forall (fadd fsub fmul fdiv : R -> R -> R),
  (forall x y : R, exists e : R, (Rabs e <= u)%R /\ fadd x y = ((x + y) * (1 + e))%R) ->
  (forall x y : R, exists e : R, (Rabs e <= u)%R /\ fsub x y = ((x - y) * (1 + e))%R) ->
  (forall x y : R, y <> 0%R -> exists e : R, (Rabs e <= u)%R /\ fdiv x y = (x / y * (1 + e))%R) ->
  forall (F : list R -> res (list R)) (x : list R) (d : R) (J : matrix (RoundModel.ARm fadd fsub fmul fdiv)) (evs : list (list R)),
  jacobian (NReal (RoundModel.ARm fadd fsub fmul fdiv)) F x d = Ok (J, evs) -> d <> 0%R ->
  forall (i j : nat) (fi : list R -> R) (eps : R),
  (i < rows J)%nat -> (j < length x)%nat -> (0 <= eps)%R ->
  (forall v, F x = Ok v -> (Rabs (nth i v 0 - fi x) <= eps * Rabs (fi x))%R) ->
  (forall v, F (JacExactGen.call_pt (NReal (RoundModel.ARm fadd fsub fmul fdiv)) x d j) = Ok v ->
     (Rabs (nth i v 0 - fi (JacExactGen.call_pt (NReal (RoundModel.ARm fadd fsub fmul fdiv)) x d j)) <= eps * Rabs (fi (JacExactGen.call_pt (NReal (RoundModel.ARm fadd fsub fmul fdiv)) x d j)))%R) ->
  exists q : R, mget J i j = Ok q /\
    (Rabs (q - (fi (JacExactGen.call_pt (NReal (RoundModel.ARm fadd fsub fmul fdiv)) x d j) - fi x) / d) <=
      ((2 * u + u * u) * Rabs (fi (JacExactGen.call_pt (NReal (RoundModel.ARm fadd fsub fmul fdiv)) x d j) - fi x) +
       eps * ((1 + u) * (1 + u)) * (Rabs (fi (JacExactGen.call_pt (NReal (RoundModel.ARm fadd fsub fmul fdiv)) x d j)) + Rabs (fi x))) / Rabs d)%R /\
    (Rabs (q - (fi (JacExactGen.call_pt (NReal (RoundModel.ARm fadd fsub fmul fdiv)) x d j) - fi x) / d) <=
      (2 * u + u * u + eps * ((1 + u) * (1 + u))) * (Rabs (fi (JacExactGen.call_pt (NReal (RoundModel.ARm fadd fsub fmul fdiv)) x d j)) + Rabs (fi x)) / Rabs d)%R.
Print Assumptions jacobian_rounding_floor.
(* F(a, b) = (fl(fl(a a) b)) in round-to-nearest precision 53, f(a, b) = a^2 b, eps = 2u + u^2, at (1, 2), delta = 1/4 *)
Example jacobian_rounding_floor_nonvacuous :
  exists (J : matrix RoundFlx.AFlx) evs,
    jacobian (NReal RoundFlx.AFlx) JacExactRoundEx.Fq [1%R; 2%R] (1 / 4)%R = Ok (J, evs) /\ (1 / 4)%R <> 0%R /\
    (0 < rows J)%nat /\ (0 < length [1%R; 2%R])%nat /\ (0 <= JacExactRoundEx.epsq)%R /\
    (forall v, JacExactRoundEx.Fq [1%R; 2%R] = Ok v ->
       (Rabs (nth 0 v 0 - JacExactRoundEx.fq [1%R; 2%R]) <= JacExactRoundEx.epsq * Rabs (JacExactRoundEx.fq [1%R; 2%R]))%R) /\
    (forall v, JacExactRoundEx.Fq (JacExactGen.call_pt (NReal RoundFlx.AFlx) [1%R; 2%R] (1 / 4)%R 0) = Ok v ->
       (Rabs (nth 0 v 0 - JacExactRoundEx.fq (JacExactGen.call_pt (NReal RoundFlx.AFlx) [1%R; 2%R] (1 / 4)%R 0)) <=
        JacExactRoundEx.epsq * Rabs (JacExactRoundEx.fq (JacExactGen.call_pt (NReal RoundFlx.AFlx) [1%R; 2%R] (1 / 4)%R 0)))%R) /\
    (forall t, derivable_pt_lim (fun t => JacExactRoundEx.fq (upd_list [1%R; 2%R] 0 (nth 0 [1%R; 2%R] 0%R + t)%R)) t (4 * (1 + t))%R) /\
    (forall t, derivable_pt_lim (fun t => 4 * (1 + t))%R t 4%R) /\
    (Rabs 4 <= 4)%R.
Proof. exact JacExactRoundEx.jacobian_round_witness. Qed.

(* TOTAL error of an entry against the partial derivative g1 0 = d f_i / d x_j (x), g(t) = f_i(x + t e_j) in exact arithmetic:
     truncation (|delta|/2) sup|g''|   [jacobian_truncation]   +   rounding floor   [jacobian_rounding_floor]   +   Dr / |delta|,
   Dr a bound on |f_i(p_j) - f_i(x + delta e_j)|, the effect of evaluating column j at the drifted point (jacobian_drift_lipschitz) *)
Theorem jacobian_total_error : forall (u : R), (0 <= u < 1)%R ->
  forall (fadd fsub fmul fdiv : R -> R -> R),
  (forall x y : R, exists e : R, (Rabs e <= u)%R /\ fadd x y = ((x + y) * (1 + e))%R) ->
  (forall x y : R, exists e : R, (Rabs e <= u)%R /\ fsub x y = ((x - y) * (1 + e))%R) ->
  (forall x y : R, y <> 0%R -> exists e : R, (Rabs e <= u)%R /\ fdiv x y = (x / y * (1 + e))%R) ->
  forall (F : list R -> res (list R)) (x : list R) (d : R) (J : matrix (RoundModel.ARm fadd fsub fmul fdiv)) (evs : list (list R)),
  jacobian (NReal (RoundModel.ARm fadd fsub fmul fdiv)) F x d = Ok (J, evs) -> d <> 0%R ->
  forall (i j : nat) (fi : list R -> R) (eps Dr : R) (g1 g2 : R -> R) (B : R),
  (i < rows J)%nat -> (j < length x)%nat -> (0 <= eps)%R ->
  (forall v, F x = Ok v -> (Rabs (nth i v 0 - fi x) <= eps * Rabs (fi x))%R) ->
  (forall v, F (JacExactGen.call_pt (NReal (RoundModel.ARm fadd fsub fmul fdiv)) x d j) = Ok v ->
     (Rabs (nth i v 0 - fi (JacExactGen.call_pt (NReal (RoundModel.ARm fadd fsub fmul fdiv)) x d j)) <= eps * Rabs (fi (JacExactGen.call_pt (NReal (RoundModel.ARm fadd fsub fmul fdiv)) x d j)))%R) ->
  (forall t, (Rmin 0 d <= t <= Rmax 0 d)%R -> derivable_pt_lim (fun t => fi (upd_list x j (nth j x 0 + t)%R)) t (g1 t)) ->
  (forall t, (Rmin 0 d <= t <= Rmax 0 d)%R -> derivable_pt_lim g1 t (g2 t)) ->
  (forall t, (Rmin 0 d <= t <= Rmax 0 d)%R -> (Rabs (g2 t) <= B)%R) ->
  (Rabs (fi (JacExactGen.call_pt (NReal (RoundModel.ARm fadd fsub fmul fdiv)) x d j) - fi (upd_list x j (nth j x 0 + d)%R)) <= Dr)%R ->
  exists q : R, mget J i j = Ok q /\
    (Rabs (q - g1 0) <=
      Rabs d / 2 * B +
      ((2 * u + u * u) * Rabs (fi (JacExactGen.call_pt (NReal (RoundModel.ARm fadd fsub fmul fdiv)) x d j) - fi x) +
       eps * ((1 + u) * (1 + u)) * (Rabs (fi (JacExactGen.call_pt (NReal (RoundModel.ARm fadd fsub fmul fdiv)) x d j)) + Rabs (fi x))) / Rabs d +
      Dr / Rabs d)%R.
Proof. intros u Hu fadd fsub fmul fdiv Ha Hs Hd. exact (JacExactRound.jacobian_total_error_lemma u Hu fadd fsub fmul fdiv Hs Hd). Qed.
Check jacobian_total_error : forall (u : R), (0 <= u < 1)%R ->
  forall (fadd fsub fmul fdiv : R -> R -> R),
  (forall x y : R, exists e : R, (Rabs e <= u)%R /\ fadd x y = ((x + y) * (1 + e))%R) ->
  (forall x y : R, exists e : R, (Rabs e <= u)%R /\ fsub x y = ((x - y) * (1 + e))%R) ->
  (forall x y : R, y <> 0%R -> exists e : R, (Rabs e <= u)%R /\ fdiv x y = (x / y * (1 + e))%R) ->
  forall (F : list R -> res (list R)) (x : list R) (d : R) (J : matrix (RoundModel.ARm fadd fsub fmul fdiv)) (evs : list (list R)),
  jacobian (NReal (RoundModel.ARm fadd fsub fmul fdiv)) F x d = Ok (J, evs) -> d <> 0%R ->
  forall (i j : nat) (fi : list R -> R) (eps Dr : R) (g1 g2 : R -> R) (B : R),
  (i < rows J)%nat -> (j < length x)%nat -> (0 <= eps)%R ->
  (forall v, F x = Ok v -> (Rabs (nth i v 0 - fi x) <= eps * Rabs (fi x))%R) ->
  (forall v, F (JacExactGen.call_pt (NReal (RoundModel.ARm fadd fsub fmul fdiv)) x d j) = Ok v ->
     (Rabs (nth i v 0 - fi (JacExactGen.call_pt (NReal (RoundModel.ARm fadd fsub fmul fdiv)) x d j)) <= eps * Rabs (fi (JacExactGen.call_pt (NReal (RoundModel.ARm fadd fsub fmul fdiv)) x d j)))%R) ->
  (forall t, (Rmin 0 d <= t <= Rmax 0 d)%R -> derivable_pt_lim (fun t => fi (upd_list x j (nth j x 0 + t)%R)) t (g1 t)) ->
  (forall t, (Rmin 0 d <= t <= Rmax 0 d)%R -> derivable_pt_lim g1 t (g2 t)) ->
  (forall t, (Rmin 0 d <= t <= Rmax 0 d)%R -> (Rabs (g2 t) <= B)%R) ->
  (Rabs (fi (JacExactGen.call_pt (NReal (RoundModel.ARm fadd fsub fmul fdiv)) x d j) - fi (upd_list x j (nth j x 0 + d)%R)) <= Dr)%R ->
  exists q : R, mget J i j = Ok q /\
    (Rabs (q - g1 0) <=
      Rabs d / 2 * B +
      ((2 * u + u * u) * Rabs (fi (JacExactGen.call_pt (NReal (RoundModel.ARm fadd fsub fmul fdiv)) x d j) - fi x) +
       eps * ((1 + u) * (1 + u)) * (Rabs (fi (JacExactGen.call_pt (NReal (RoundModel.ARm fadd fsub fmul fdiv)) x d j)) + Rabs (fi x))) / Rabs d +
      Dr / Rabs d)%R.
Print Assumptions jacobian_total_error.
(* non-vacuity: jacobian_rounding_floor_nonvacuous above exhibits F, f, eps, g' = 4 (1 + t), g'' = 4 = B; Dr can be taken
   to be |f(p_0) - f(x + delta e_0)| itself *)

(* the drift term Dr of jacobian_total_error from coordinate-wise Lipschitz constants L_k of f_i around x + delta e_j (on the drift box):
     Dr = L_j u |x_j + delta| + Sum_(k<j) L_k (2u + u^2)(|x_k| + |delta|)         (Rsum n f = Sum_(k<n) f k) *)
Theorem jacobian_drift_lipschitz : forall (u : R), (0 <= u < 1)%R ->
  forall (fadd fsub fmul fdiv : R -> R -> R),
  (forall x y : R, exists e : R, (Rabs e <= u)%R /\ fadd x y = ((x + y) * (1 + e))%R) ->
  (forall x y : R, exists e : R, (Rabs e <= u)%R /\ fsub x y = ((x - y) * (1 + e))%R) ->
  forall (x : list R) (d : R) (j : nat) (fi : list R -> R) (L : nat -> R),
  (j < length x)%nat -> (forall k, (0 <= L k)%R) ->
  (forall p, length p = length x ->
     (forall k, (Rabs (nth k p 0 - nth k (upd_list x j (nth j x 0 + d)%R) 0) <=
        (if (k =? j)%nat then u * Rabs (nth k x 0 + d)
         else if (k <? j)%nat then (2 * u + u * u) * (Rabs (nth k x 0) + Rabs d) else 0))%R) ->
     (Rabs (fi p - fi (upd_list x j (nth j x 0 + d)%R)) <=
       RoundModel.Rsum (length x) (fun k => L k * Rabs (nth k p 0 - nth k (upd_list x j (nth j x 0 + d)%R) 0)))%R) ->
  (Rabs (fi (JacExactGen.call_pt (NReal (RoundModel.ARm fadd fsub fmul fdiv)) x d j) - fi (upd_list x j (nth j x 0 + d)%R)) <=
    RoundModel.Rsum (length x) (fun k => L k * (if (k =? j)%nat then u * Rabs (nth k x 0 + d)
                                                 else if (k <? j)%nat then (2 * u + u * u) * (Rabs (nth k x 0) + Rabs d) else 0)))%R.
Proof. intros u Hu fadd fsub fmul fdiv Ha Hs. exact (JacExactRound.drift_lipschitz_explicit u Hu fadd fsub fmul fdiv Ha Hs). Qed.
Check jacobian_drift_lipschitz : forall (u : R), (0 <= u < 1)%R ->
  forall (fadd fsub fmul fdiv : R -> R -> R),
  (forall x y : R, exists e : R, (Rabs e <= u)%R /\ fadd x y = ((x + y) * (1 + e))%R) ->
  (forall x y : R, exists e : R, (Rabs e <= u)%R /\ fsub x y = ((x - y) * (1 + e))%R) ->
  forall (x : list R) (d : R) (j : nat) (fi : list R -> R) (L : nat -> R),
  (j < length x)%nat -> (forall k, (0 <= L k)%R) ->
  (forall p, length p = length x ->
     (forall k, (Rabs (nth k p 0 - nth k (upd_list x j (nth j x 0 + d)%R) 0) <=
        (if (k =? j)%nat then u * Rabs (nth k x 0 + d)
         else if (k <? j)%nat then (2 * u + u * u) * (Rabs (nth k x 0) + Rabs d) else 0))%R) ->
     (Rabs (fi p - fi (upd_list x j (nth j x 0 + d)%R)) <=
       RoundModel.Rsum (length x) (fun k => L k * Rabs (nth k p 0 - nth k (upd_list x j (nth j x 0 + d)%R) 0)))%R) ->
  (Rabs (fi (JacExactGen.call_pt (NReal (RoundModel.ARm fadd fsub fmul fdiv)) x d j) - fi (upd_list x j (nth j x 0 + d)%R)) <=
    RoundModel.Rsum (length x) (fun k => L k * (if (k =? j)%nat then u * Rabs (nth k x 0 + d)
                                                 else if (k <? j)%nat then (2 * u + u * u) * (Rabs (nth k x 0) + Rabs d) else 0)))%R.
Print Assumptions jacobian_drift_lipschitz.
Example jacobian_drift_lipschitz_nonvacuous :
  (0 < length [1%R; 2%R])%nat /\ (forall k, (0 <= JacExactRoundEx.Llin k)%R) /\
  forall p, length p = length [1%R; 2%R] ->
    (Rabs (JacExactRoundEx.flin p - JacExactRoundEx.flin (upd_list [1%R; 2%R] 0 (nth 0 [1%R; 2%R] 0 + 1 / 4)%R)) <=
      RoundModel.Rsum (length [1%R; 2%R])
        (fun k => JacExactRoundEx.Llin k * Rabs (nth k p 0 - nth k (upd_list [1%R; 2%R] 0 (nth 0 [1%R; 2%R] 0 + 1 / 4)%R) 0)))%R.
Proof. exact JacExactRoundEx.drift_lipschitz_witness. Qed.

(* the textbook trade-off between the two terms of jacobian_total_error: truncation (B/2) delta + floor K / delta  (B = sup|g''|,
   K = (2u + u^2 + eps (1+u)^2)(|f_i(p_j)| + |f_i(x)|) ~ u |f|) is at least sqrt(2 B K) for EVERY step, with equality at
   delta = sqrt(2K/B) ~ sqrt(u): half the digits is the best a forward difference can do *)
Theorem fd_optimal_step : forall (B K : R), (0 < B)%R -> (0 < K)%R ->
  (forall d, (0 < d)%R -> (R_sqrt.sqrt (2 * B * K) <= B / 2 * d + K / d)%R) /\
  (0 < R_sqrt.sqrt (2 * K / B))%R /\
  (B / 2 * R_sqrt.sqrt (2 * K / B) + K / R_sqrt.sqrt (2 * K / B))%R = R_sqrt.sqrt (2 * B * K).
Proof. exact JacExactRound.fd_optimal_step_lemma. Qed.
Check fd_optimal_step : forall (B K : R), (0 < B)%R -> (0 < K)%R ->
  (forall d, (0 < d)%R -> (R_sqrt.sqrt (2 * B * K) <= B / 2 * d + K / d)%R) /\
  (0 < R_sqrt.sqrt (2 * K / B))%R /\
  (B / 2 * R_sqrt.sqrt (2 * K / B) + K / R_sqrt.sqrt (2 * K / B))%R = R_sqrt.sqrt (2 * B * K).
Print Assumptions fd_optimal_step.
Example fd_optimal_step_nonvacuous : (0 < 4)%R /\ (0 < 4 * RoundFlx.ux)%R.
Proof. exact JacExactRoundEx.fd_optimal_witness. Qed.

(* the complex Jacobian in the standard model (NCplx over ARm; SARm adds a square root and `n as f64`, which the Jacobian does not use):
   the step (delta, 0) is added componentwise -- the real part drifts like a real coordinate, the imaginary part goes through  (+ 0) (- 0)
   (exact in IEEE arithmetic up to the sign of a zero; the standard model charges (2u + u^2)|im x_k|) *)
Theorem jacobian_call_points_drift_C : forall (u : R), (0 <= u < 1)%R ->
  forall (fadd fsub fmul fdiv : R -> R -> R) (fsqrt : R -> R),
  (forall x y : R, exists e : R, (Rabs e <= u)%R /\ fadd x y = ((x + y) * (1 + e))%R) ->
  (forall x y : R, exists e : R, (Rabs e <= u)%R /\ fsub x y = ((x - y) * (1 + e))%R) ->
  forall (F : list (Complex.cplx (RoundModel.ARm fadd fsub fmul fdiv)) -> res (list (Complex.cplx (RoundModel.ARm fadd fsub fmul fdiv)))) (x : list (Complex.cplx (RoundModel.ARm fadd fsub fmul fdiv))) (d : R) (st : list (Complex.cplx (RoundModel.ARm fadd fsub fmul fdiv))) (J : matrix (NA (NCplx (JacExactRoundC.SARm fadd fsub fmul fdiv fsqrt)))) (evs : list (list (Complex.cplx (RoundModel.ARm fadd fsub fmul fdiv)))),
  jacobian_tr (NCplx (JacExactRoundC.SARm fadd fsub fmul fdiv fsqrt)) F x (emb (NCplx (JacExactRoundC.SARm fadd fsub fmul fdiv fsqrt)) d) = Ok (st, J, evs) ->
  evs = x :: map (JacExactGen.call_pt (NCplx (JacExactRoundC.SARm fadd fsub fmul fdiv fsqrt)) x (emb (NCplx (JacExactRoundC.SARm fadd fsub fmul fdiv fsqrt)) d)) (seq 0 (length x)) /\
  (forall j k, (j < length x)%nat ->
     (Rabs (Complex.re (nth k (JacExactGen.call_pt (NCplx (JacExactRoundC.SARm fadd fsub fmul fdiv fsqrt)) x (emb (NCplx (JacExactRoundC.SARm fadd fsub fmul fdiv fsqrt)) d) j) (@zero (NA (NCplx (JacExactRoundC.SARm fadd fsub fmul fdiv fsqrt))))) -
            (if (k =? j)%nat then Complex.re (nth k x (@zero (NA (NCplx (JacExactRoundC.SARm fadd fsub fmul fdiv fsqrt))))) + d else Complex.re (nth k x (@zero (NA (NCplx (JacExactRoundC.SARm fadd fsub fmul fdiv fsqrt)))))))
       <= (if (k =? j)%nat then u * Rabs (Complex.re (nth k x (@zero (NA (NCplx (JacExactRoundC.SARm fadd fsub fmul fdiv fsqrt))))) + d)
           else if (k <? j)%nat then (2 * u + u * u) * (Rabs (Complex.re (nth k x (@zero (NA (NCplx (JacExactRoundC.SARm fadd fsub fmul fdiv fsqrt)))))) + Rabs d) else 0))%R /\
     (Rabs (Complex.im (nth k (JacExactGen.call_pt (NCplx (JacExactRoundC.SARm fadd fsub fmul fdiv fsqrt)) x (emb (NCplx (JacExactRoundC.SARm fadd fsub fmul fdiv fsqrt)) d) j) (@zero (NA (NCplx (JacExactRoundC.SARm fadd fsub fmul fdiv fsqrt))))) - Complex.im (nth k x (@zero (NA (NCplx (JacExactRoundC.SARm fadd fsub fmul fdiv fsqrt))))))
       <= (if (k =? j)%nat then u * Rabs (Complex.im (nth k x (@zero (NA (NCplx (JacExactRoundC.SARm fadd fsub fmul fdiv fsqrt))))))
           else if (k <? j)%nat then (2 * u + u * u) * Rabs (Complex.im (nth k x (@zero (NA (NCplx (JacExactRoundC.SARm fadd fsub fmul fdiv fsqrt)))))) else 0))%R) /\
  length st = length x /\
  (forall k, (Rabs (Complex.re (nth k st (@zero (NA (NCplx (JacExactRoundC.SARm fadd fsub fmul fdiv fsqrt))))) - Complex.re (nth k x (@zero (NA (NCplx (JacExactRoundC.SARm fadd fsub fmul fdiv fsqrt)))))) <=
              (2 * u + u * u) * (Rabs (Complex.re (nth k x (@zero (NA (NCplx (JacExactRoundC.SARm fadd fsub fmul fdiv fsqrt)))))) + Rabs d))%R /\
             (Rabs (Complex.im (nth k st (@zero (NA (NCplx (JacExactRoundC.SARm fadd fsub fmul fdiv fsqrt))))) - Complex.im (nth k x (@zero (NA (NCplx (JacExactRoundC.SARm fadd fsub fmul fdiv fsqrt)))))) <= (2 * u + u * u) * Rabs (Complex.im (nth k x (@zero (NA (NCplx (JacExactRoundC.SARm fadd fsub fmul fdiv fsqrt)))))))%R).
Proof. intros u Hu fadd fsub fmul fdiv fsqrt Ha Hs. exact (JacExactRoundC.jacobian_call_points_drift_C_explicit u Hu fadd fsub fmul fdiv fsqrt Ha Hs). Qed.
Check jacobian_call_points_drift_C : forall (u : R), (0 <= u < 1)%R ->
  forall (fadd fsub fmul fdiv : R -> R -> R) (fsqrt : R -> R),
  (forall x y : R, exists e : R, (Rabs e <= u)%R /\ fadd x y = ((x + y) * (1 + e))%R) ->
  (forall x y : R, exists e : R, (Rabs e <= u)%R /\ fsub x y = ((x - y) * (1 + e))%R) ->
  forall (F : list (Complex.cplx (RoundModel.ARm fadd fsub fmul fdiv)) -> res (list (Complex.cplx (RoundModel.ARm fadd fsub fmul fdiv)))) (x : list (Complex.cplx (RoundModel.ARm fadd fsub fmul fdiv))) (d : R) (st : list (Complex.cplx (RoundModel.ARm fadd fsub fmul fdiv))) (J : matrix (NA (NCplx (JacExactRoundC.SARm fadd fsub fmul fdiv fsqrt)))) (evs : list (list (Complex.cplx (RoundModel.ARm fadd fsub fmul fdiv)))),
  jacobian_tr (NCplx (JacExactRoundC.SARm fadd fsub fmul fdiv fsqrt)) F x (emb (NCplx (JacExactRoundC.SARm fadd fsub fmul fdiv fsqrt)) d) = Ok (st, J, evs) ->
  evs = x :: map (JacExactGen.call_pt (NCplx (JacExactRoundC.SARm fadd fsub fmul fdiv fsqrt)) x (emb (NCplx (JacExactRoundC.SARm fadd fsub fmul fdiv fsqrt)) d)) (seq 0 (length x)) /\
  (forall j k, (j < length x)%nat ->
     (Rabs (Complex.re (nth k (JacExactGen.call_pt (NCplx (JacExactRoundC.SARm fadd fsub fmul fdiv fsqrt)) x (emb (NCplx (JacExactRoundC.SARm fadd fsub fmul fdiv fsqrt)) d) j) (@zero (NA (NCplx (JacExactRoundC.SARm fadd fsub fmul fdiv fsqrt))))) -
            (if (k =? j)%nat then Complex.re (nth k x (@zero (NA (NCplx (JacExactRoundC.SARm fadd fsub fmul fdiv fsqrt))))) + d else Complex.re (nth k x (@zero (NA (NCplx (JacExactRoundC.SARm fadd fsub fmul fdiv fsqrt)))))))
       <= (if (k =? j)%nat then u * Rabs (Complex.re (nth k x (@zero (NA (NCplx (JacExactRoundC.SARm fadd fsub fmul fdiv fsqrt))))) + d)
           else if (k <? j)%nat then (2 * u + u * u) * (Rabs (Complex.re (nth k x (@zero (NA (NCplx (JacExactRoundC.SARm fadd fsub fmul fdiv fsqrt)))))) + Rabs d) else 0))%R /\
     (Rabs (Complex.im (nth k (JacExactGen.call_pt (NCplx (JacExactRoundC.SARm fadd fsub fmul fdiv fsqrt)) x (emb (NCplx (JacExactRoundC.SARm fadd fsub fmul fdiv fsqrt)) d) j) (@zero (NA (NCplx (JacExactRoundC.SARm fadd fsub fmul fdiv fsqrt))))) - Complex.im (nth k x (@zero (NA (NCplx (JacExactRoundC.SARm fadd fsub fmul fdiv fsqrt))))))
       <= (if (k =? j)%nat then u * Rabs (Complex.im (nth k x (@zero (NA (NCplx (JacExactRoundC.SARm fadd fsub fmul fdiv fsqrt))))))
           else if (k <? j)%nat then (2 * u + u * u) * Rabs (Complex.im (nth k x (@zero (NA (NCplx (JacExactRoundC.SARm fadd fsub fmul fdiv fsqrt)))))) else 0))%R) /\
  length st = length x /\
  (forall k, (Rabs (Complex.re (nth k st (@zero (NA (NCplx (JacExactRoundC.SARm fadd fsub fmul fdiv fsqrt))))) - Complex.re (nth k x (@zero (NA (NCplx (JacExactRoundC.SARm fadd fsub fmul fdiv fsqrt)))))) <=
              (2 * u + u * u) * (Rabs (Complex.re (nth k x (@zero (NA (NCplx (JacExactRoundC.SARm fadd fsub fmul fdiv fsqrt)))))) + Rabs d))%R /\
             (Rabs (Complex.im (nth k st (@zero (NA (NCplx (JacExactRoundC.SARm fadd fsub fmul fdiv fsqrt))))) - Complex.im (nth k x (@zero (NA (NCplx (JacExactRoundC.SARm fadd fsub fmul fdiv fsqrt)))))) <= (2 * u + u * u) * Rabs (Complex.im (nth k x (@zero (NA (NCplx (JacExactRoundC.SARm fadd fsub fmul fdiv fsqrt)))))))%R).
Print Assumptions jacobian_call_points_drift_C.
(* non-vacuity: at the exact instance (u = 0, exact operations) the standard-model hypotheses hold and the run of
   jacobian_truncation_C_nonvacuous applies; at binary64 jacobian_affine_float_C_inexact_nondyadic exhibits the drift of re x_0 *)
Example jacobian_call_points_drift_C_nonvacuous :
  (0 <= 0 < 1)%R /\
  (forall x y : R, exists e : R, (Rabs e <= 0)%R /\ Rplus x y = ((x + y) * (1 + e))%R) /\
  (forall x y : R, exists e : R, (Rabs e <= 0)%R /\ Rminus x y = ((x - y) * (1 + e))%R) /\
  exists st J evs,
    jacobian_tr (NCplx (JacExactRoundC.SARm Rplus Rminus Rmult Rdiv R_sqrt.sqrt))
      (fun p => Ok p) [Complex.mkC (A := RoundModel.ARm Rplus Rminus Rmult Rdiv) 1%R 1%R]
      (emb (NCplx (JacExactRoundC.SARm Rplus Rminus Rmult Rdiv R_sqrt.sqrt)) (1 / 4)%R) = Ok (st, J, evs).
Proof.
  split; [lra|]. split; [intros x y; exists 0%R; split; [rewrite Rabs_R0; lra|ring]|].
  split; [intros x y; exists 0%R; split; [rewrite Rabs_R0; lra|ring]|].
  do 3 eexists. cbn. reflexivity.
Qed.

(* the rounding floor of the complex entry, any function: the complex subtraction rounds each part once, the complex division by
   (delta, 0) -- den = delta delta + 0 0, (re z delta + im z 0) / den, (im z delta - re z 0) / den -- five more times:
   each part of J_ij is the exact quotient of the returned parts up to gam 6 = 6u / (1 - 6u).  Ar + i Ai, Br + i Bi = the exact values
   of f_i at the two call points, known to absolute errors ea, eb in each part *)
Theorem jacobian_rounding_floor_C : forall (u : R), (0 <= u < 1)%R ->
  forall (fadd fsub fmul fdiv : R -> R -> R) (fsqrt : R -> R),
  (forall x y : R, exists e : R, (Rabs e <= u)%R /\ fadd x y = ((x + y) * (1 + e))%R) ->
  (forall x y : R, exists e : R, (Rabs e <= u)%R /\ fsub x y = ((x - y) * (1 + e))%R) ->
  (forall x y : R, exists e : R, (Rabs e <= u)%R /\ fmul x y = (x * y * (1 + e))%R) ->
  (forall x y : R, y <> 0%R -> exists e : R, (Rabs e <= u)%R /\ fdiv x y = (x / y * (1 + e))%R) ->
  forall (F : list (Complex.cplx (RoundModel.ARm fadd fsub fmul fdiv)) -> res (list (Complex.cplx (RoundModel.ARm fadd fsub fmul fdiv)))) (x : list (Complex.cplx (RoundModel.ARm fadd fsub fmul fdiv))) (d : R) (J : matrix (NA (NCplx (JacExactRoundC.SARm fadd fsub fmul fdiv fsqrt)))) (evs : list (list (Complex.cplx (RoundModel.ARm fadd fsub fmul fdiv)))),
  jacobian (NCplx (JacExactRoundC.SARm fadd fsub fmul fdiv fsqrt)) F x (emb (NCplx (JacExactRoundC.SARm fadd fsub fmul fdiv fsqrt)) d) = Ok (J, evs) -> d <> 0%R -> (INR 6 * u < 1)%R ->
  forall (i j : nat) (Ar Ai Br Bi ea eb : R), (i < rows J)%nat -> (j < length x)%nat ->
  (forall v, F (JacExactGen.call_pt (NCplx (JacExactRoundC.SARm fadd fsub fmul fdiv fsqrt)) x (emb (NCplx (JacExactRoundC.SARm fadd fsub fmul fdiv fsqrt)) d) j) = Ok v ->
     (Rabs (Complex.re (nth i v (@zero (NA (NCplx (JacExactRoundC.SARm fadd fsub fmul fdiv fsqrt))))) - Ar) <= ea)%R /\ (Rabs (Complex.im (nth i v (@zero (NA (NCplx (JacExactRoundC.SARm fadd fsub fmul fdiv fsqrt))))) - Ai) <= ea)%R) ->
  (forall v, F x = Ok v -> (Rabs (Complex.re (nth i v (@zero (NA (NCplx (JacExactRoundC.SARm fadd fsub fmul fdiv fsqrt))))) - Br) <= eb)%R /\ (Rabs (Complex.im (nth i v (@zero (NA (NCplx (JacExactRoundC.SARm fadd fsub fmul fdiv fsqrt))))) - Bi) <= eb)%R) ->
  exists q : (Complex.cplx (RoundModel.ARm fadd fsub fmul fdiv)), mget J i j = Ok q /\
    (Rabs (Complex.re q - (Ar - Br) / d) <=
       (RoundModel.gam u 6 * Rabs (Ar - Br) + (1 + RoundModel.gam u 6) * (ea + eb)) / Rabs d)%R /\
    (Rabs (Complex.im q - (Ai - Bi) / d) <=
       (RoundModel.gam u 6 * Rabs (Ai - Bi) + (1 + RoundModel.gam u 6) * (ea + eb)) / Rabs d)%R.
Proof. intros u Hu fadd fsub fmul fdiv fsqrt Ha Hs Hm Hd. exact (JacExactRoundC.jacobian_rounding_floor_C_lemma u Hu fadd fsub fmul fdiv fsqrt Ha Hs Hm Hd). Qed.
Check jacobian_rounding_floor_C : forall (u : R), (0 <= u < 1)%R ->
  forall (fadd fsub fmul fdiv : R -> R -> R) (fsqrt : R -> R),
  (forall x y : R, exists e : R, (Rabs e <= u)%R /\ fadd x y = ((x + y) * (1 + e))%R) ->
  (forall x y : R, exists e : R, (Rabs e <= u)%R /\ fsub x y = ((x - y) * (1 + e))%R) ->
  (forall x y : R, exists e : R, (Rabs e <= u)%R /\ fmul x y = (x * y * (1 + e))%R) ->
  (forall x y : R, y <> 0%R -> exists e : R, (Rabs e <= u)%R /\ fdiv x y = (x / y * (1 + e))%R) ->
  forall (F : list (Complex.cplx (RoundModel.ARm fadd fsub fmul fdiv)) -> res (list (Complex.cplx (RoundModel.ARm fadd fsub fmul fdiv)))) (x : list (Complex.cplx (RoundModel.ARm fadd fsub fmul fdiv))) (d : R) (J : matrix (NA (NCplx (JacExactRoundC.SARm fadd fsub fmul fdiv fsqrt)))) (evs : list (list (Complex.cplx (RoundModel.ARm fadd fsub fmul fdiv)))),
  jacobian (NCplx (JacExactRoundC.SARm fadd fsub fmul fdiv fsqrt)) F x (emb (NCplx (JacExactRoundC.SARm fadd fsub fmul fdiv fsqrt)) d) = Ok (J, evs) -> d <> 0%R -> (INR 6 * u < 1)%R ->
  forall (i j : nat) (Ar Ai Br Bi ea eb : R), (i < rows J)%nat -> (j < length x)%nat ->
  (forall v, F (JacExactGen.call_pt (NCplx (JacExactRoundC.SARm fadd fsub fmul fdiv fsqrt)) x (emb (NCplx (JacExactRoundC.SARm fadd fsub fmul fdiv fsqrt)) d) j) = Ok v ->
     (Rabs (Complex.re (nth i v (@zero (NA (NCplx (JacExactRoundC.SARm fadd fsub fmul fdiv fsqrt))))) - Ar) <= ea)%R /\ (Rabs (Complex.im (nth i v (@zero (NA (NCplx (JacExactRoundC.SARm fadd fsub fmul fdiv fsqrt))))) - Ai) <= ea)%R) ->
  (forall v, F x = Ok v -> (Rabs (Complex.re (nth i v (@zero (NA (NCplx (JacExactRoundC.SARm fadd fsub fmul fdiv fsqrt))))) - Br) <= eb)%R /\ (Rabs (Complex.im (nth i v (@zero (NA (NCplx (JacExactRoundC.SARm fadd fsub fmul fdiv fsqrt))))) - Bi) <= eb)%R) ->
  exists q : (Complex.cplx (RoundModel.ARm fadd fsub fmul fdiv)), mget J i j = Ok q /\
    (Rabs (Complex.re q - (Ar - Br) / d) <=
       (RoundModel.gam u 6 * Rabs (Ar - Br) + (1 + RoundModel.gam u 6) * (ea + eb)) / Rabs d)%R /\
    (Rabs (Complex.im q - (Ai - Bi) / d) <=
       (RoundModel.gam u 6 * Rabs (Ai - Bi) + (1 + RoundModel.gam u 6) * (ea + eb)) / Rabs d)%R.
Print Assumptions jacobian_rounding_floor_C.
Example jacobian_rounding_floor_C_nonvacuous :
  (INR 6 * 0 < 1)%R /\
  (forall x y : R, exists e : R, (Rabs e <= 0)%R /\ Rmult x y = (x * y * (1 + e))%R) /\
  (forall x y : R, y <> 0%R -> exists e : R, (Rabs e <= 0)%R /\ Rdiv x y = (x / y * (1 + e))%R) /\
  exists J evs,
    jacobian (NCplx (JacExactRoundC.SARm Rplus Rminus Rmult Rdiv R_sqrt.sqrt))
      (fun p => Ok p) [Complex.mkC (A := RoundModel.ARm Rplus Rminus Rmult Rdiv) 1%R 1%R]
      (emb (NCplx (JacExactRoundC.SARm Rplus Rminus Rmult Rdiv R_sqrt.sqrt)) (1 / 4)%R) = Ok (J, evs) /\ (0 < rows J)%nat.
Proof.
  split; [lra|]. split; [intros x y; exists 0%R; split; [rewrite Rabs_R0; lra|ring]|].
  split; [intros x y Hy; exists 0%R; split; [rewrite Rabs_R0; lra|field; exact Hy]|].
  do 2 eexists. split; [cbn; reflexivity|]. cbn. lia.
Qed.

(* ---- the same AT IEEE BINARY64 ITSELF (NReal AF, the instance the correspondence check runs against the Rust code): the standard-model
   hypotheses are discharged through Flocq's specification of the primitive floats; u64 = 2^-53; "whenever the computed value is finite"
   (a finite result has finite operands and no overflow happened on the way; + and - have relative error <= u64 even on subnormals) ----
   state[j] += delta; state[j] -= delta at binary64 *)
Theorem restore_drift_float : forall x d : PrimFloat.float, ComplexRound.ffinite (PrimFloat.sub (PrimFloat.add x d) d) ->
  ComplexRound.ffinite x /\ ComplexRound.ffinite d /\ ComplexRound.ffinite (PrimFloat.add x d) /\
  (Rabs (ComplexRound.FR (PrimFloat.sub (PrimFloat.add x d) d) - ComplexRound.FR x) <=
    (2 * ComplexRound.u64 + ComplexRound.u64 * ComplexRound.u64) * (Rabs (ComplexRound.FR x) + Rabs (ComplexRound.FR d)))%R.
Proof. exact JacExactFloatRound.restore_drift_float. Qed.
Check restore_drift_float : forall x d : PrimFloat.float, ComplexRound.ffinite (PrimFloat.sub (PrimFloat.add x d) d) ->
  ComplexRound.ffinite x /\ ComplexRound.ffinite d /\ ComplexRound.ffinite (PrimFloat.add x d) /\
  (Rabs (ComplexRound.FR (PrimFloat.sub (PrimFloat.add x d) d) - ComplexRound.FR x) <=
    (2 * ComplexRound.u64 + ComplexRound.u64 * ComplexRound.u64) * (Rabs (ComplexRound.FR x) + Rabs (ComplexRound.FR d)))%R.
Print Assumptions restore_drift_float.
Example restore_drift_float_nonvacuous :
  ComplexRound.ffinite (PrimFloat.sub (PrimFloat.add (nth 0 JacExactFloat.exj_x2 (@zero FloatInst.AF)) JacExactFloat.exj_d2) JacExactFloat.exj_d2) /\
  (* ... and the drift is real: x_0 = 0.9999999999, delta = 1e-8 comes back one ulp smaller *)
  PrimFloat.ltb (PrimFloat.sub (PrimFloat.add (nth 0 JacExactFloat.exj_x2 (@zero FloatInst.AF)) JacExactFloat.exj_d2) JacExactFloat.exj_d2)
                (nth 0 JacExactFloat.exj_x2 (@zero FloatInst.AF)) = true.
Proof. split; [apply ComplexRound.ffinite_SF|]; vm_compute; reflexivity. Qed.

(* all columns of Mat64::jacobian at binary64, any closure: if the state the loop ends with is finite, the j-th call was made within
   u |x_j + delta| (coordinate j), (2u + u^2)(|x_k| + |delta|) (k < j), 0 (k > j) of x + delta e_j *)
Theorem jacobian_call_points_drift_float : forall (F : list PrimFloat.float -> res (list PrimFloat.float)) (x : list PrimFloat.float) (d : PrimFloat.float)
    (st : list PrimFloat.float) (J : matrix FloatInst.AF) (evs : list (list PrimFloat.float)),
  jacobian_tr (NReal FloatInst.AF) F x d = Ok (st, J, evs) ->
  (forall k, (k < length x)%nat -> ComplexRound.ffinite (nth k st (@zero FloatInst.AF))) ->
  evs = x :: map (JacExactGen.call_pt (NReal FloatInst.AF) x d) (seq 0 (length x)) /\ length st = length x /\
  (forall k, (k < length x)%nat -> ComplexRound.ffinite (nth k x (@zero FloatInst.AF)) /\ ComplexRound.ffinite (PrimFloat.add (nth k x (@zero FloatInst.AF)) d)) /\
  (forall j k, (j < length x)%nat -> (k < length x)%nat ->
     (Rabs (ComplexRound.FR (nth k (JacExactGen.call_pt (NReal FloatInst.AF) x d j) (@zero FloatInst.AF)) -
            (if (k =? j)%nat then ComplexRound.FR (nth j x (@zero FloatInst.AF)) + ComplexRound.FR d else ComplexRound.FR (nth k x (@zero FloatInst.AF)))) <=
       (if (k =? j)%nat then ComplexRound.u64 * Rabs (ComplexRound.FR (nth k x (@zero FloatInst.AF)) + ComplexRound.FR d)
        else if (k <? j)%nat then (2 * ComplexRound.u64 + ComplexRound.u64 * ComplexRound.u64) * (Rabs (ComplexRound.FR (nth k x (@zero FloatInst.AF))) + Rabs (ComplexRound.FR d)) else 0))%R) /\
  (forall k, (k < length x)%nat ->
     (Rabs (ComplexRound.FR (nth k st (@zero FloatInst.AF)) - ComplexRound.FR (nth k x (@zero FloatInst.AF))) <=
       (2 * ComplexRound.u64 + ComplexRound.u64 * ComplexRound.u64) * (Rabs (ComplexRound.FR (nth k x (@zero FloatInst.AF))) + Rabs (ComplexRound.FR d)))%R).
Proof. exact JacExactFloatRound.jacobian_call_points_drift_float_lemma. Qed.
Check jacobian_call_points_drift_float : forall (F : list PrimFloat.float -> res (list PrimFloat.float)) (x : list PrimFloat.float) (d : PrimFloat.float)
    (st : list PrimFloat.float) (J : matrix FloatInst.AF) (evs : list (list PrimFloat.float)),
  jacobian_tr (NReal FloatInst.AF) F x d = Ok (st, J, evs) ->
  (forall k, (k < length x)%nat -> ComplexRound.ffinite (nth k st (@zero FloatInst.AF))) ->
  evs = x :: map (JacExactGen.call_pt (NReal FloatInst.AF) x d) (seq 0 (length x)) /\ length st = length x /\
  (forall k, (k < length x)%nat -> ComplexRound.ffinite (nth k x (@zero FloatInst.AF)) /\ ComplexRound.ffinite (PrimFloat.add (nth k x (@zero FloatInst.AF)) d)) /\
  (forall j k, (j < length x)%nat -> (k < length x)%nat ->
     (Rabs (ComplexRound.FR (nth k (JacExactGen.call_pt (NReal FloatInst.AF) x d j) (@zero FloatInst.AF)) -
            (if (k =? j)%nat then ComplexRound.FR (nth j x (@zero FloatInst.AF)) + ComplexRound.FR d else ComplexRound.FR (nth k x (@zero FloatInst.AF)))) <=
       (if (k =? j)%nat then ComplexRound.u64 * Rabs (ComplexRound.FR (nth k x (@zero FloatInst.AF)) + ComplexRound.FR d)
        else if (k <? j)%nat then (2 * ComplexRound.u64 + ComplexRound.u64 * ComplexRound.u64) * (Rabs (ComplexRound.FR (nth k x (@zero FloatInst.AF))) + Rabs (ComplexRound.FR d)) else 0))%R) /\
  (forall k, (k < length x)%nat ->
     (Rabs (ComplexRound.FR (nth k st (@zero FloatInst.AF)) - ComplexRound.FR (nth k x (@zero FloatInst.AF))) <=
       (2 * ComplexRound.u64 + ComplexRound.u64 * ComplexRound.u64) * (Rabs (ComplexRound.FR (nth k x (@zero FloatInst.AF))) + Rabs (ComplexRound.FR d)))%R).
Print Assumptions jacobian_call_points_drift_float.
Example jacobian_call_points_drift_float_nonvacuous :
  jacobian_tr (NReal FloatInst.AF) JacExactFloatRound.exf_F JacExactFloatRound.exf_x JacExactFloatRound.exf_d =
    Ok ([@one FloatInst.AF], JacExactFloatRound.exf_J, [[@one FloatInst.AF]; [JacExactFloatRound.exf_p0]]) /\
  (forall k, (k < length JacExactFloatRound.exf_x)%nat -> ComplexRound.ffinite (nth k [@one FloatInst.AF] (@zero FloatInst.AF))).
Proof. split; [exact JacExactFloatRound.exf_run|exact (proj1 JacExactFloatRound.exf_conditions)]. Qed.

(* the rounding floor of an entry of Mat64::jacobian at binary64, any closure F: q = (f^_i(p_j) (-) f^_i(x)) (/) delta on the values the closure
   RETURNED; A, B0 = the exact values they approximate with relative error eps (eps = 0, A = FR f^_i(p_j), B0 = FR f^_i(x): the quotient
   of the returned values).  no_underflow v := v = 0 \/ 2^-1022 <= |v| *)
Theorem jacobian_entry_floor_float : forall (F : list PrimFloat.float -> res (list PrimFloat.float)) (x : list PrimFloat.float) (d : PrimFloat.float)
    (J : matrix FloatInst.AF) (evs : list (list PrimFloat.float)),
  jacobian (NReal FloatInst.AF) F x d = Ok (J, evs) ->
  exists f0, F x = Ok f0 /\ rows J = length f0 /\ cols J = length x /\
  forall i j, (i < length f0)%nat -> (j < length x)%nat ->
    exists fj q, F (JacExactGen.call_pt (NReal FloatInst.AF) x d j) = Ok fj /\ mget J i j = Ok q /\
      q = PrimFloat.div (PrimFloat.sub (nth i fj (@zero FloatInst.AF)) (nth i f0 (@zero FloatInst.AF))) d /\
      forall (A B0 eps : R),
        ComplexRound.ffinite q -> ComplexRound.FR d <> 0%R ->
        ComplexRound.no_underflow (ComplexRound.FR (PrimFloat.sub (nth i fj (@zero FloatInst.AF)) (nth i f0 (@zero FloatInst.AF))) / ComplexRound.FR d)%R -> (0 <= eps)%R ->
        (Rabs (ComplexRound.FR (nth i fj (@zero FloatInst.AF)) - A) <= eps * Rabs A)%R -> (Rabs (ComplexRound.FR (nth i f0 (@zero FloatInst.AF)) - B0) <= eps * Rabs B0)%R ->
        (Rabs (ComplexRound.FR q - (A - B0) / ComplexRound.FR d) <=
          ((2 * ComplexRound.u64 + ComplexRound.u64 * ComplexRound.u64) * Rabs (A - B0) + eps * ((1 + ComplexRound.u64) * (1 + ComplexRound.u64)) * (Rabs A + Rabs B0)) / Rabs (ComplexRound.FR d))%R.
Proof. exact JacExactFloatRound.jacobian_entry_floor_float_lemma. Qed.
Check jacobian_entry_floor_float : forall (F : list PrimFloat.float -> res (list PrimFloat.float)) (x : list PrimFloat.float) (d : PrimFloat.float)
    (J : matrix FloatInst.AF) (evs : list (list PrimFloat.float)),
  jacobian (NReal FloatInst.AF) F x d = Ok (J, evs) ->
  exists f0, F x = Ok f0 /\ rows J = length f0 /\ cols J = length x /\
  forall i j, (i < length f0)%nat -> (j < length x)%nat ->
    exists fj q, F (JacExactGen.call_pt (NReal FloatInst.AF) x d j) = Ok fj /\ mget J i j = Ok q /\
      q = PrimFloat.div (PrimFloat.sub (nth i fj (@zero FloatInst.AF)) (nth i f0 (@zero FloatInst.AF))) d /\
      forall (A B0 eps : R),
        ComplexRound.ffinite q -> ComplexRound.FR d <> 0%R ->
        ComplexRound.no_underflow (ComplexRound.FR (PrimFloat.sub (nth i fj (@zero FloatInst.AF)) (nth i f0 (@zero FloatInst.AF))) / ComplexRound.FR d)%R -> (0 <= eps)%R ->
        (Rabs (ComplexRound.FR (nth i fj (@zero FloatInst.AF)) - A) <= eps * Rabs A)%R -> (Rabs (ComplexRound.FR (nth i f0 (@zero FloatInst.AF)) - B0) <= eps * Rabs B0)%R ->
        (Rabs (ComplexRound.FR q - (A - B0) / ComplexRound.FR d) <=
          ((2 * ComplexRound.u64 + ComplexRound.u64 * ComplexRound.u64) * Rabs (A - B0) + eps * ((1 + ComplexRound.u64) * (1 + ComplexRound.u64)) * (Rabs A + Rabs B0)) / Rabs (ComplexRound.FR d))%R.
Print Assumptions jacobian_entry_floor_float.
(* the identity on R^1 at x = 1, delta = 0.1 (not dyadic): the entry is 1.0000000000000009 > 1 *)
Example jacobian_entry_floor_float_nonvacuous :
  jacobian (NReal FloatInst.AF) JacExactFloatRound.exf_F JacExactFloatRound.exf_x JacExactFloatRound.exf_d =
    Ok (JacExactFloatRound.exf_J, [[@one FloatInst.AF]; [JacExactFloatRound.exf_p0]]) /\
  ComplexRound.ffinite (PrimFloat.div (PrimFloat.sub JacExactFloatRound.exf_p0 (@one FloatInst.AF)) JacExactFloatRound.exf_d) /\
  ComplexRound.FR JacExactFloatRound.exf_d <> 0%R /\
  ComplexRound.no_underflow (ComplexRound.FR (PrimFloat.sub JacExactFloatRound.exf_p0 (@one FloatInst.AF)) / ComplexRound.FR JacExactFloatRound.exf_d)%R /\
  PrimFloat.ltb (@one FloatInst.AF) (PrimFloat.div (PrimFloat.sub JacExactFloatRound.exf_p0 (@one FloatInst.AF)) JacExactFloatRound.exf_d) = true.
Proof.
  split; [unfold jacobian; rewrite JacExactFloatRound.exf_run; reflexivity|]. exact (proj2 JacExactFloatRound.exf_conditions).
Qed.

(* TOTAL error of an entry of Mat64::jacobian at binary64 against the partial derivative g1 0 of the exact function f_i at the real point
   FR x: truncation + rounding floor + drift, exactly as jacobian_total_error, with every rounding hypothesis discharged *)
Theorem jacobian_total_error_float : forall (F : list PrimFloat.float -> res (list PrimFloat.float)) (x : list PrimFloat.float) (d : PrimFloat.float)
    (J : matrix FloatInst.AF) (evs : list (list PrimFloat.float)),
  jacobian (NReal FloatInst.AF) F x d = Ok (J, evs) ->
  exists f0, F x = Ok f0 /\ rows J = length f0 /\ cols J = length x /\
  forall i j, (i < length f0)%nat -> (j < length x)%nat ->
    exists fj q, F (JacExactGen.call_pt (NReal FloatInst.AF) x d j) = Ok fj /\ mget J i j = Ok q /\
      forall (fi : list R -> R) (eps Dr : R) (g1 g2 : R -> R) (B : R),
        ComplexRound.ffinite q -> (ComplexRound.FR d) <> 0%R ->
        ComplexRound.no_underflow (ComplexRound.FR (PrimFloat.sub (nth i fj (@zero FloatInst.AF)) (nth i f0 (@zero FloatInst.AF))) / (ComplexRound.FR d))%R -> (0 <= eps)%R ->
        (Rabs (ComplexRound.FR (nth i fj (@zero FloatInst.AF)) - fi (map ComplexRound.FR (JacExactGen.call_pt (NReal FloatInst.AF) x d j))) <= eps * Rabs (fi (map ComplexRound.FR (JacExactGen.call_pt (NReal FloatInst.AF) x d j))))%R ->
        (Rabs (ComplexRound.FR (nth i f0 (@zero FloatInst.AF)) - fi (map ComplexRound.FR x)) <= eps * Rabs (fi (map ComplexRound.FR x)))%R ->
        (forall t, (Rmin 0 (ComplexRound.FR d) <= t <= Rmax 0 (ComplexRound.FR d))%R ->
           derivable_pt_lim (fun t => fi (upd_list (map ComplexRound.FR x) j (nth j (map ComplexRound.FR x) 0 + t)%R)) t (g1 t)) ->
        (forall t, (Rmin 0 (ComplexRound.FR d) <= t <= Rmax 0 (ComplexRound.FR d))%R -> derivable_pt_lim g1 t (g2 t)) ->
        (forall t, (Rmin 0 (ComplexRound.FR d) <= t <= Rmax 0 (ComplexRound.FR d))%R -> (Rabs (g2 t) <= B)%R) ->
        (Rabs (fi (map ComplexRound.FR (JacExactGen.call_pt (NReal FloatInst.AF) x d j)) - fi (upd_list (map ComplexRound.FR x) j (nth j (map ComplexRound.FR x) 0 + (ComplexRound.FR d))%R)) <= Dr)%R ->
        (Rabs (ComplexRound.FR q - g1 0) <=
          Rabs (ComplexRound.FR d) / 2 * B +
          ((2 * ComplexRound.u64 + ComplexRound.u64 * ComplexRound.u64) * Rabs (fi (map ComplexRound.FR (JacExactGen.call_pt (NReal FloatInst.AF) x d j)) - fi (map ComplexRound.FR x)) +
           eps * ((1 + ComplexRound.u64) * (1 + ComplexRound.u64)) * (Rabs (fi (map ComplexRound.FR (JacExactGen.call_pt (NReal FloatInst.AF) x d j))) + Rabs (fi (map ComplexRound.FR x)))) / Rabs (ComplexRound.FR d) +
          Dr / Rabs (ComplexRound.FR d))%R.
Proof. exact JacExactFloatRound.jacobian_total_error_float_lemma. Qed.
Check jacobian_total_error_float : forall (F : list PrimFloat.float -> res (list PrimFloat.float)) (x : list PrimFloat.float) (d : PrimFloat.float)
    (J : matrix FloatInst.AF) (evs : list (list PrimFloat.float)),
  jacobian (NReal FloatInst.AF) F x d = Ok (J, evs) ->
  exists f0, F x = Ok f0 /\ rows J = length f0 /\ cols J = length x /\
  forall i j, (i < length f0)%nat -> (j < length x)%nat ->
    exists fj q, F (JacExactGen.call_pt (NReal FloatInst.AF) x d j) = Ok fj /\ mget J i j = Ok q /\
      forall (fi : list R -> R) (eps Dr : R) (g1 g2 : R -> R) (B : R),
        ComplexRound.ffinite q -> (ComplexRound.FR d) <> 0%R ->
        ComplexRound.no_underflow (ComplexRound.FR (PrimFloat.sub (nth i fj (@zero FloatInst.AF)) (nth i f0 (@zero FloatInst.AF))) / (ComplexRound.FR d))%R -> (0 <= eps)%R ->
        (Rabs (ComplexRound.FR (nth i fj (@zero FloatInst.AF)) - fi (map ComplexRound.FR (JacExactGen.call_pt (NReal FloatInst.AF) x d j))) <= eps * Rabs (fi (map ComplexRound.FR (JacExactGen.call_pt (NReal FloatInst.AF) x d j))))%R ->
        (Rabs (ComplexRound.FR (nth i f0 (@zero FloatInst.AF)) - fi (map ComplexRound.FR x)) <= eps * Rabs (fi (map ComplexRound.FR x)))%R ->
        (forall t, (Rmin 0 (ComplexRound.FR d) <= t <= Rmax 0 (ComplexRound.FR d))%R ->
           derivable_pt_lim (fun t => fi (upd_list (map ComplexRound.FR x) j (nth j (map ComplexRound.FR x) 0 + t)%R)) t (g1 t)) ->
        (forall t, (Rmin 0 (ComplexRound.FR d) <= t <= Rmax 0 (ComplexRound.FR d))%R -> derivable_pt_lim g1 t (g2 t)) ->
        (forall t, (Rmin 0 (ComplexRound.FR d) <= t <= Rmax 0 (ComplexRound.FR d))%R -> (Rabs (g2 t) <= B)%R) ->
        (Rabs (fi (map ComplexRound.FR (JacExactGen.call_pt (NReal FloatInst.AF) x d j)) - fi (upd_list (map ComplexRound.FR x) j (nth j (map ComplexRound.FR x) 0 + (ComplexRound.FR d))%R)) <= Dr)%R ->
        (Rabs (ComplexRound.FR q - g1 0) <=
          Rabs (ComplexRound.FR d) / 2 * B +
          ((2 * ComplexRound.u64 + ComplexRound.u64 * ComplexRound.u64) * Rabs (fi (map ComplexRound.FR (JacExactGen.call_pt (NReal FloatInst.AF) x d j)) - fi (map ComplexRound.FR x)) +
           eps * ((1 + ComplexRound.u64) * (1 + ComplexRound.u64)) * (Rabs (fi (map ComplexRound.FR (JacExactGen.call_pt (NReal FloatInst.AF) x d j))) + Rabs (fi (map ComplexRound.FR x)))) / Rabs (ComplexRound.FR d) +
          Dr / Rabs (ComplexRound.FR d))%R.
Print Assumptions jacobian_total_error_float.
(* the run of jacobian_entry_floor_float_nonvacuous with f_0 = first coordinate, eps = 0, g(t) = 1 + t, B = 0, Dr = u |1 + delta| *)
Example jacobian_total_error_float_nonvacuous :
  (forall t, derivable_pt_lim (fun t => nth 0 (upd_list (map ComplexRound.FR JacExactFloatRound.exf_x) 0
                                                  (nth 0 (map ComplexRound.FR JacExactFloatRound.exf_x) 0 + t)%R) 0%R) t 1%R) /\
  (forall t, derivable_pt_lim (fun _ : R => 1%R) t 0%R) /\ (Rabs 0 <= 0)%R /\
  (Rabs (nth 0 (map ComplexRound.FR (JacExactGen.call_pt (NReal FloatInst.AF) JacExactFloatRound.exf_x JacExactFloatRound.exf_d 0)) 0 -
         nth 0 (upd_list (map ComplexRound.FR JacExactFloatRound.exf_x) 0
                  (nth 0 (map ComplexRound.FR JacExactFloatRound.exf_x) 0 + ComplexRound.FR JacExactFloatRound.exf_d)%R) 0) <=
   ComplexRound.u64 * Rabs (ComplexRound.FR (@one FloatInst.AF) + ComplexRound.FR JacExactFloatRound.exf_d))%R.
Proof. exact JacExactFloatRound.exf_total_conditions. Qed.

(* the drift term Dr at binary64 from coordinate-wise Lipschitz constants of f_i (here over all points of the dimension of x) *)
Theorem jacobian_drift_lipschitz_float : forall (F : list PrimFloat.float -> res (list PrimFloat.float)) (x : list PrimFloat.float) (d : PrimFloat.float)
    (st : list PrimFloat.float) (J : matrix FloatInst.AF) (evs : list (list PrimFloat.float)) (j : nat) (fi : list R -> R) (L : nat -> R),
  jacobian_tr (NReal FloatInst.AF) F x d = Ok (st, J, evs) ->
  (forall k, (k < length x)%nat -> ComplexRound.ffinite (nth k st (@zero FloatInst.AF))) ->
  (j < length x)%nat -> (forall k, (0 <= L k)%R) ->
  (forall p, length p = length x ->
     (Rabs (fi p - fi (upd_list (map ComplexRound.FR x) j (nth j (map ComplexRound.FR x) 0 + (ComplexRound.FR d))%R)) <=
       RoundModel.Rsum (length x) (fun k => L k * Rabs (nth k p 0 - nth k (upd_list (map ComplexRound.FR x) j (nth j (map ComplexRound.FR x) 0 + (ComplexRound.FR d))%R) 0)))%R) ->
  (Rabs (fi (map ComplexRound.FR (JacExactGen.call_pt (NReal FloatInst.AF) x d j)) - fi (upd_list (map ComplexRound.FR x) j (nth j (map ComplexRound.FR x) 0 + (ComplexRound.FR d))%R)) <=
    RoundModel.Rsum (length x)
      (fun k => L k * (if (k =? j)%nat then ComplexRound.u64 * Rabs (nth k (map ComplexRound.FR x) 0 + (ComplexRound.FR d))
                       else if (k <? j)%nat then (2 * ComplexRound.u64 + ComplexRound.u64 * ComplexRound.u64) * (Rabs (nth k (map ComplexRound.FR x) 0) + Rabs (ComplexRound.FR d)) else 0)))%R.
Proof. exact JacExactFloatRound.drift_lipschitz_float_lemma. Qed.
Check jacobian_drift_lipschitz_float : forall (F : list PrimFloat.float -> res (list PrimFloat.float)) (x : list PrimFloat.float) (d : PrimFloat.float)
    (st : list PrimFloat.float) (J : matrix FloatInst.AF) (evs : list (list PrimFloat.float)) (j : nat) (fi : list R -> R) (L : nat -> R),
  jacobian_tr (NReal FloatInst.AF) F x d = Ok (st, J, evs) ->
  (forall k, (k < length x)%nat -> ComplexRound.ffinite (nth k st (@zero FloatInst.AF))) ->
  (j < length x)%nat -> (forall k, (0 <= L k)%R) ->
  (forall p, length p = length x ->
     (Rabs (fi p - fi (upd_list (map ComplexRound.FR x) j (nth j (map ComplexRound.FR x) 0 + (ComplexRound.FR d))%R)) <=
       RoundModel.Rsum (length x) (fun k => L k * Rabs (nth k p 0 - nth k (upd_list (map ComplexRound.FR x) j (nth j (map ComplexRound.FR x) 0 + (ComplexRound.FR d))%R) 0)))%R) ->
  (Rabs (fi (map ComplexRound.FR (JacExactGen.call_pt (NReal FloatInst.AF) x d j)) - fi (upd_list (map ComplexRound.FR x) j (nth j (map ComplexRound.FR x) 0 + (ComplexRound.FR d))%R)) <=
    RoundModel.Rsum (length x)
      (fun k => L k * (if (k =? j)%nat then ComplexRound.u64 * Rabs (nth k (map ComplexRound.FR x) 0 + (ComplexRound.FR d))
                       else if (k <? j)%nat then (2 * ComplexRound.u64 + ComplexRound.u64 * ComplexRound.u64) * (Rabs (nth k (map ComplexRound.FR x) 0) + Rabs (ComplexRound.FR d)) else 0)))%R.
Print Assumptions jacobian_drift_lipschitz_float.
(* non-vacuity: jacobian_call_points_drift_float_nonvacuous (the run, finite final state) and jacobian_drift_lipschitz_nonvacuous
   (a function with Lipschitz constants 3, 2) *)

(* Matrix::<Cmplx>::jacobian_cmplx at binary64, any closure, finite final state: the IMAGINARY parts keep their value at every call and
   at the end ((y + 0) - 0 is exact in IEEE arithmetic; only the sign of a zero can change), the REAL parts drift as in Mat64::jacobian *)
Theorem jacobian_call_points_drift_C_float : forall (F : list (Complex.cplx FloatInst.AF) -> res (list (Complex.cplx FloatInst.AF))) (x : list (Complex.cplx FloatInst.AF)) (d : PrimFloat.float)
    (st : list (Complex.cplx FloatInst.AF)) (J : matrix (NA (NCplx FloatInst.SAF))) (evs : list (list (Complex.cplx FloatInst.AF))),
  jacobian_tr (NCplx FloatInst.SAF) F x (emb (NCplx FloatInst.SAF) d) = Ok (st, J, evs) ->
  (forall k, (k < length x)%nat ->
     ComplexRound.ffinite (Complex.re (nth k st (@zero (Complex.CArith FloatInst.SAF)))) /\ ComplexRound.ffinite (Complex.im (nth k st (@zero (Complex.CArith FloatInst.SAF))))) ->
  evs = x :: map (JacExactGen.call_pt (NCplx FloatInst.SAF) x (emb (NCplx FloatInst.SAF) d)) (seq 0 (length x)) /\ length st = length x /\
  (forall k, (k < length x)%nat ->
     ComplexRound.ffinite (Complex.re (nth k x (@zero (Complex.CArith FloatInst.SAF)))) /\ ComplexRound.ffinite (Complex.im (nth k x (@zero (Complex.CArith FloatInst.SAF))))) /\
  (forall j k, (j < length x)%nat -> (k < length x)%nat ->
     ComplexRound.FR (Complex.im (nth k (JacExactGen.call_pt (NCplx FloatInst.SAF) x (emb (NCplx FloatInst.SAF) d) j) (@zero (Complex.CArith FloatInst.SAF)))) = ComplexRound.FR (Complex.im (nth k x (@zero (Complex.CArith FloatInst.SAF)))) /\
     (Rabs (ComplexRound.FR (Complex.re (nth k (JacExactGen.call_pt (NCplx FloatInst.SAF) x (emb (NCplx FloatInst.SAF) d) j) (@zero (Complex.CArith FloatInst.SAF)))) -
            (if (k =? j)%nat then ComplexRound.FR (Complex.re (nth j x (@zero (Complex.CArith FloatInst.SAF)))) + ComplexRound.FR d
             else ComplexRound.FR (Complex.re (nth k x (@zero (Complex.CArith FloatInst.SAF)))))) <=
       (if (k =? j)%nat then ComplexRound.u64 * Rabs (ComplexRound.FR (Complex.re (nth k x (@zero (Complex.CArith FloatInst.SAF)))) + ComplexRound.FR d)
        else if (k <? j)%nat
             then (2 * ComplexRound.u64 + ComplexRound.u64 * ComplexRound.u64) * (Rabs (ComplexRound.FR (Complex.re (nth k x (@zero (Complex.CArith FloatInst.SAF))))) + Rabs (ComplexRound.FR d)) else 0))%R) /\
  (forall k, (k < length x)%nat ->
     ComplexRound.FR (Complex.im (nth k st (@zero (Complex.CArith FloatInst.SAF)))) = ComplexRound.FR (Complex.im (nth k x (@zero (Complex.CArith FloatInst.SAF)))) /\
     (Rabs (ComplexRound.FR (Complex.re (nth k st (@zero (Complex.CArith FloatInst.SAF)))) - ComplexRound.FR (Complex.re (nth k x (@zero (Complex.CArith FloatInst.SAF))))) <=
       (2 * ComplexRound.u64 + ComplexRound.u64 * ComplexRound.u64) * (Rabs (ComplexRound.FR (Complex.re (nth k x (@zero (Complex.CArith FloatInst.SAF))))) + Rabs (ComplexRound.FR d)))%R).
Proof. exact JacExactFloatRoundC.jacobian_call_points_drift_C_float_lemma. Qed.
Check jacobian_call_points_drift_C_float : forall (F : list (Complex.cplx FloatInst.AF) -> res (list (Complex.cplx FloatInst.AF))) (x : list (Complex.cplx FloatInst.AF)) (d : PrimFloat.float)
    (st : list (Complex.cplx FloatInst.AF)) (J : matrix (NA (NCplx FloatInst.SAF))) (evs : list (list (Complex.cplx FloatInst.AF))),
  jacobian_tr (NCplx FloatInst.SAF) F x (emb (NCplx FloatInst.SAF) d) = Ok (st, J, evs) ->
  (forall k, (k < length x)%nat ->
     ComplexRound.ffinite (Complex.re (nth k st (@zero (Complex.CArith FloatInst.SAF)))) /\ ComplexRound.ffinite (Complex.im (nth k st (@zero (Complex.CArith FloatInst.SAF))))) ->
  evs = x :: map (JacExactGen.call_pt (NCplx FloatInst.SAF) x (emb (NCplx FloatInst.SAF) d)) (seq 0 (length x)) /\ length st = length x /\
  (forall k, (k < length x)%nat ->
     ComplexRound.ffinite (Complex.re (nth k x (@zero (Complex.CArith FloatInst.SAF)))) /\ ComplexRound.ffinite (Complex.im (nth k x (@zero (Complex.CArith FloatInst.SAF))))) /\
  (forall j k, (j < length x)%nat -> (k < length x)%nat ->
     ComplexRound.FR (Complex.im (nth k (JacExactGen.call_pt (NCplx FloatInst.SAF) x (emb (NCplx FloatInst.SAF) d) j) (@zero (Complex.CArith FloatInst.SAF)))) = ComplexRound.FR (Complex.im (nth k x (@zero (Complex.CArith FloatInst.SAF)))) /\
     (Rabs (ComplexRound.FR (Complex.re (nth k (JacExactGen.call_pt (NCplx FloatInst.SAF) x (emb (NCplx FloatInst.SAF) d) j) (@zero (Complex.CArith FloatInst.SAF)))) -
            (if (k =? j)%nat then ComplexRound.FR (Complex.re (nth j x (@zero (Complex.CArith FloatInst.SAF)))) + ComplexRound.FR d
             else ComplexRound.FR (Complex.re (nth k x (@zero (Complex.CArith FloatInst.SAF)))))) <=
       (if (k =? j)%nat then ComplexRound.u64 * Rabs (ComplexRound.FR (Complex.re (nth k x (@zero (Complex.CArith FloatInst.SAF)))) + ComplexRound.FR d)
        else if (k <? j)%nat
             then (2 * ComplexRound.u64 + ComplexRound.u64 * ComplexRound.u64) * (Rabs (ComplexRound.FR (Complex.re (nth k x (@zero (Complex.CArith FloatInst.SAF))))) + Rabs (ComplexRound.FR d)) else 0))%R) /\
  (forall k, (k < length x)%nat ->
     ComplexRound.FR (Complex.im (nth k st (@zero (Complex.CArith FloatInst.SAF)))) = ComplexRound.FR (Complex.im (nth k x (@zero (Complex.CArith FloatInst.SAF)))) /\
     (Rabs (ComplexRound.FR (Complex.re (nth k st (@zero (Complex.CArith FloatInst.SAF)))) - ComplexRound.FR (Complex.re (nth k x (@zero (Complex.CArith FloatInst.SAF))))) <=
       (2 * ComplexRound.u64 + ComplexRound.u64 * ComplexRound.u64) * (Rabs (ComplexRound.FR (Complex.re (nth k x (@zero (Complex.CArith FloatInst.SAF))))) + Rabs (ComplexRound.FR d)))%R).
Print Assumptions jacobian_call_points_drift_C_float.
Example jacobian_call_points_drift_C_float_nonvacuous :
  exists st J evs,
    jacobian_tr (NCplx FloatInst.SAF) (fun p => Ok (aff (NCplx FloatInst.SAF) JacExactFloatC.exc_M JacExactFloatC.exc_c p)) JacExactFloatC.exc_x2
                (emb (NCplx FloatInst.SAF) JacExactFloat.exj_d2) = Ok (st, J, evs) /\
    forall k, (k < length JacExactFloatC.exc_x2)%nat ->
      ComplexRound.ffinite (Complex.re (nth k st (@zero (Complex.CArith FloatInst.SAF)))) /\ ComplexRound.ffinite (Complex.im (nth k st (@zero (Complex.CArith FloatInst.SAF)))).
Proof. exact JacExactFloatRoundC.excf_conditions. Qed.

(* the rounding floor of an entry of Matrix::<Cmplx>::jacobian_cmplx at binary64, any closure: q = (f^(p_j) - f^(x)) / (delta, 0) with the
   model's complex float operations.  If both parts of q are finite, the denominator delta delta + 0 0 is finite and non-zero and neither
   the three products nor the two quotients underflow, each part of q is the exact quotient of the returned parts up to gam 6,
   u = 2^-53 (jacobian_rounding_floor_C with every rounding hypothesis discharged) *)
Theorem jacobian_entry_floor_C_float : forall (F : list (Complex.cplx FloatInst.AF) -> res (list (Complex.cplx FloatInst.AF))) (x : list (Complex.cplx FloatInst.AF)) (d : PrimFloat.float) (J : matrix (NA (NCplx FloatInst.SAF))) (evs : list (list (Complex.cplx FloatInst.AF))),
  jacobian (NCplx FloatInst.SAF) F x (emb (NCplx FloatInst.SAF) d) = Ok (J, evs) ->
  exists f0, F x = Ok f0 /\ rows J = length f0 /\ cols J = length x /\
  forall i j, (i < length f0)%nat -> (j < length x)%nat ->
    exists fj q, F (JacExactGen.call_pt (NCplx FloatInst.SAF) x (emb (NCplx FloatInst.SAF) d) j) = Ok fj /\ mget J i j = Ok q /\
      Complex.cdiv (Complex.csub (nth i fj (@zero (Complex.CArith FloatInst.SAF))) (nth i f0 (@zero (Complex.CArith FloatInst.SAF)))) (emb (NCplx FloatInst.SAF) d) = Ok q /\
      forall (Ar Ai Br Bi ea eb : R),
        ComplexRound.ffinite (Complex.re q) -> ComplexRound.ffinite (Complex.im q) -> ComplexRound.FR (PrimFloat.add (PrimFloat.mul d d) (PrimFloat.mul (@zero FloatInst.AF) (@zero FloatInst.AF))) <> 0%R ->
        ComplexRound.no_underflow (ComplexRound.FR (Complex.re (Complex.csub (nth i fj (@zero (Complex.CArith FloatInst.SAF))) (nth i f0 (@zero (Complex.CArith FloatInst.SAF))))) * ComplexRound.FR d)%R ->
        ComplexRound.no_underflow (ComplexRound.FR (Complex.im (Complex.csub (nth i fj (@zero (Complex.CArith FloatInst.SAF))) (nth i f0 (@zero (Complex.CArith FloatInst.SAF))))) * ComplexRound.FR d)%R ->
        ComplexRound.no_underflow (ComplexRound.FR d * ComplexRound.FR d)%R ->
        ComplexRound.no_underflow
          (ComplexRound.FR (PrimFloat.add (PrimFloat.mul (Complex.re (Complex.csub (nth i fj (@zero (Complex.CArith FloatInst.SAF))) (nth i f0 (@zero (Complex.CArith FloatInst.SAF))))) d) (PrimFloat.mul (Complex.im (Complex.csub (nth i fj (@zero (Complex.CArith FloatInst.SAF))) (nth i f0 (@zero (Complex.CArith FloatInst.SAF))))) (@zero FloatInst.AF)))
           / ComplexRound.FR (PrimFloat.add (PrimFloat.mul d d) (PrimFloat.mul (@zero FloatInst.AF) (@zero FloatInst.AF))))%R ->
        ComplexRound.no_underflow
          (ComplexRound.FR (PrimFloat.sub (PrimFloat.mul (Complex.im (Complex.csub (nth i fj (@zero (Complex.CArith FloatInst.SAF))) (nth i f0 (@zero (Complex.CArith FloatInst.SAF))))) d) (PrimFloat.mul (Complex.re (Complex.csub (nth i fj (@zero (Complex.CArith FloatInst.SAF))) (nth i f0 (@zero (Complex.CArith FloatInst.SAF))))) (@zero FloatInst.AF)))
           / ComplexRound.FR (PrimFloat.add (PrimFloat.mul d d) (PrimFloat.mul (@zero FloatInst.AF) (@zero FloatInst.AF))))%R ->
        (Rabs (ComplexRound.FR (Complex.re (nth i fj (@zero (Complex.CArith FloatInst.SAF)))) - Ar) <= ea)%R -> (Rabs (ComplexRound.FR (Complex.im (nth i fj (@zero (Complex.CArith FloatInst.SAF)))) - Ai) <= ea)%R ->
        (Rabs (ComplexRound.FR (Complex.re (nth i f0 (@zero (Complex.CArith FloatInst.SAF)))) - Br) <= eb)%R -> (Rabs (ComplexRound.FR (Complex.im (nth i f0 (@zero (Complex.CArith FloatInst.SAF)))) - Bi) <= eb)%R ->
        (Rabs (ComplexRound.FR (Complex.re q) - (Ar - Br) / ComplexRound.FR d) <=
           (RoundModel.gam ComplexRound.u64 6 * Rabs (Ar - Br) + (1 + RoundModel.gam ComplexRound.u64 6) * (ea + eb)) / Rabs (ComplexRound.FR d))%R /\
        (Rabs (ComplexRound.FR (Complex.im q) - (Ai - Bi) / ComplexRound.FR d) <=
           (RoundModel.gam ComplexRound.u64 6 * Rabs (Ai - Bi) + (1 + RoundModel.gam ComplexRound.u64 6) * (ea + eb)) / Rabs (ComplexRound.FR d))%R.
Proof. exact JacExactFloatRoundC.jacobian_entry_floor_C_float_lemma. Qed.
Check jacobian_entry_floor_C_float : forall (F : list (Complex.cplx FloatInst.AF) -> res (list (Complex.cplx FloatInst.AF))) (x : list (Complex.cplx FloatInst.AF)) (d : PrimFloat.float) (J : matrix (NA (NCplx FloatInst.SAF))) (evs : list (list (Complex.cplx FloatInst.AF))),
  jacobian (NCplx FloatInst.SAF) F x (emb (NCplx FloatInst.SAF) d) = Ok (J, evs) ->
  exists f0, F x = Ok f0 /\ rows J = length f0 /\ cols J = length x /\
  forall i j, (i < length f0)%nat -> (j < length x)%nat ->
    exists fj q, F (JacExactGen.call_pt (NCplx FloatInst.SAF) x (emb (NCplx FloatInst.SAF) d) j) = Ok fj /\ mget J i j = Ok q /\
      Complex.cdiv (Complex.csub (nth i fj (@zero (Complex.CArith FloatInst.SAF))) (nth i f0 (@zero (Complex.CArith FloatInst.SAF)))) (emb (NCplx FloatInst.SAF) d) = Ok q /\
      forall (Ar Ai Br Bi ea eb : R),
        ComplexRound.ffinite (Complex.re q) -> ComplexRound.ffinite (Complex.im q) -> ComplexRound.FR (PrimFloat.add (PrimFloat.mul d d) (PrimFloat.mul (@zero FloatInst.AF) (@zero FloatInst.AF))) <> 0%R ->
        ComplexRound.no_underflow (ComplexRound.FR (Complex.re (Complex.csub (nth i fj (@zero (Complex.CArith FloatInst.SAF))) (nth i f0 (@zero (Complex.CArith FloatInst.SAF))))) * ComplexRound.FR d)%R ->
        ComplexRound.no_underflow (ComplexRound.FR (Complex.im (Complex.csub (nth i fj (@zero (Complex.CArith FloatInst.SAF))) (nth i f0 (@zero (Complex.CArith FloatInst.SAF))))) * ComplexRound.FR d)%R ->
        ComplexRound.no_underflow (ComplexRound.FR d * ComplexRound.FR d)%R ->
        ComplexRound.no_underflow
          (ComplexRound.FR (PrimFloat.add (PrimFloat.mul (Complex.re (Complex.csub (nth i fj (@zero (Complex.CArith FloatInst.SAF))) (nth i f0 (@zero (Complex.CArith FloatInst.SAF))))) d) (PrimFloat.mul (Complex.im (Complex.csub (nth i fj (@zero (Complex.CArith FloatInst.SAF))) (nth i f0 (@zero (Complex.CArith FloatInst.SAF))))) (@zero FloatInst.AF)))
           / ComplexRound.FR (PrimFloat.add (PrimFloat.mul d d) (PrimFloat.mul (@zero FloatInst.AF) (@zero FloatInst.AF))))%R ->
        ComplexRound.no_underflow
          (ComplexRound.FR (PrimFloat.sub (PrimFloat.mul (Complex.im (Complex.csub (nth i fj (@zero (Complex.CArith FloatInst.SAF))) (nth i f0 (@zero (Complex.CArith FloatInst.SAF))))) d) (PrimFloat.mul (Complex.re (Complex.csub (nth i fj (@zero (Complex.CArith FloatInst.SAF))) (nth i f0 (@zero (Complex.CArith FloatInst.SAF))))) (@zero FloatInst.AF)))
           / ComplexRound.FR (PrimFloat.add (PrimFloat.mul d d) (PrimFloat.mul (@zero FloatInst.AF) (@zero FloatInst.AF))))%R ->
        (Rabs (ComplexRound.FR (Complex.re (nth i fj (@zero (Complex.CArith FloatInst.SAF)))) - Ar) <= ea)%R -> (Rabs (ComplexRound.FR (Complex.im (nth i fj (@zero (Complex.CArith FloatInst.SAF)))) - Ai) <= ea)%R ->
        (Rabs (ComplexRound.FR (Complex.re (nth i f0 (@zero (Complex.CArith FloatInst.SAF)))) - Br) <= eb)%R -> (Rabs (ComplexRound.FR (Complex.im (nth i f0 (@zero (Complex.CArith FloatInst.SAF)))) - Bi) <= eb)%R ->
        (Rabs (ComplexRound.FR (Complex.re q) - (Ar - Br) / ComplexRound.FR d) <=
           (RoundModel.gam ComplexRound.u64 6 * Rabs (Ar - Br) + (1 + RoundModel.gam ComplexRound.u64 6) * (ea + eb)) / Rabs (ComplexRound.FR d))%R /\
        (Rabs (ComplexRound.FR (Complex.im q) - (Ai - Bi) / ComplexRound.FR d) <=
           (RoundModel.gam ComplexRound.u64 6 * Rabs (Ai - Bi) + (1 + RoundModel.gam ComplexRound.u64 6) * (ea + eb)) / Rabs (ComplexRound.FR d))%R.
Print Assumptions jacobian_entry_floor_C_float.
(* the identity on C^1 at 1 + i, delta = 0.1 (not dyadic): the entry is 1.0000000000000007 + 0 i *)
Example jacobian_entry_floor_C_float_nonvacuous :
  jacobian (NCplx FloatInst.SAF) (fun p => Ok p) JacExactFloatRoundC.excf_x (emb (NCplx FloatInst.SAF) JacExactFloatRound.exf_d) =
    Ok (JacExactFloatRoundC.excf_J, [JacExactFloatRoundC.excf_x; [JacExactFloatRoundC.excf_a]]) /\
  let z := Complex.csub JacExactFloatRoundC.excf_a (nth 0 JacExactFloatRoundC.excf_x (@zero (Complex.CArith FloatInst.SAF))) in
  let den := PrimFloat.add (PrimFloat.mul JacExactFloatRound.exf_d JacExactFloatRound.exf_d)
                           (PrimFloat.mul (@zero FloatInst.AF) (@zero FloatInst.AF)) in
  ComplexRound.ffinite (Complex.re (nth 0 (buf JacExactFloatRoundC.excf_J) (@zero (Complex.CArith FloatInst.SAF)))) /\
  ComplexRound.ffinite (Complex.im (nth 0 (buf JacExactFloatRoundC.excf_J) (@zero (Complex.CArith FloatInst.SAF)))) /\
  ComplexRound.FR den <> 0%R /\
  ComplexRound.no_underflow (ComplexRound.FR (Complex.re z) * ComplexRound.FR JacExactFloatRound.exf_d)%R /\
  ComplexRound.no_underflow (ComplexRound.FR (Complex.im z) * ComplexRound.FR JacExactFloatRound.exf_d)%R /\
  ComplexRound.no_underflow (ComplexRound.FR JacExactFloatRound.exf_d * ComplexRound.FR JacExactFloatRound.exf_d)%R /\
  ComplexRound.no_underflow
    (ComplexRound.FR (PrimFloat.add (PrimFloat.mul (Complex.re z) JacExactFloatRound.exf_d) (PrimFloat.mul (Complex.im z) (@zero FloatInst.AF)))
     / ComplexRound.FR den)%R /\
  ComplexRound.no_underflow
    (ComplexRound.FR (PrimFloat.sub (PrimFloat.mul (Complex.im z) JacExactFloatRound.exf_d) (PrimFloat.mul (Complex.re z) (@zero FloatInst.AF)))
     / ComplexRound.FR den)%R.
Proof. split; [exact JacExactFloatRoundC.excf_run|exact JacExactFloatRoundC.excf_floor_conditions]. Qed.
