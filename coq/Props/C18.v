(* Props/C18.v -- property theorems only: Theorem / exact lemma / Check (pins the statement) /
   Print Assumptions.  C18: the finite-difference Jacobian (Mat64::jacobian,
   Matrix::<Cmplx>::jacobian_cmplx; model: Model/Newton.v jacobian, generic in the element
   arithmetic [NA O]; f64: d = delta, Cmplx: d = Cmplx::new(delta, 0.0)).

   Statements differ from DESIGN Appendix E where the model forces it:
   * the model returns the matrix TOGETHER with the list of call points, and the user function
     may panic ([res]); jacobian_shape therefore states totality (no panic, for every m and n,
     which is what the pre-repair set_col violated: Legacy/C18Refuted.v) under the hypotheses that
     the function is total with m components and that division by d does not panic (floats:
     always; exact field: d <> 0), instead of "jacobian = Ok J -> ...";
   * jacobian_calls needs (a + d) - d = a, i.e. ring laws: on f64 the restored coordinate may
     drift by an ulp for non-dyadic data (the float model reproduces the drift; tie).
   * jacobian_entry likewise needs the ring laws (the perturbed point of column j is x + d e_j
     only if the earlier coordinates were restored exactly);
   * in jacobian_affine the map x -> Mx + c is the textbook sum [aff] over the entries
     M[i,k] = [ment M i k] (Appendix E conventions), the conclusion is equality of records.
   Not proved: the O(delta) truncation bound for smooth maps and float rounding (tie + search). *)
From Coq Require Import List Arith ZArith QArith Qcanon.
From OV Require Import Base.Panic Base.Arith Model.Vector Model.Matrix Model.Newton
  Proofs.Matrix Proofs.Newton Proofs.NewtonJac Inst.QcInst Legacy.C18Refuted.
Import ListNotations.
Local Open Scope nat_scope.

Theorem jacobian_shape : forall (O : NOps) (f : list (NA O) -> res (list (NA O))) (x : list (NA O)) (d : NA O) (m : nat),
  (forall y, length y = length x -> exists v, f y = Ok v /\ length v = m) ->
  (forall a : NA O, exists q, div a d = Ok q) ->
  exists J evs, jacobian O f x d = Ok (J, evs) /\
                wf J /\ rows J = m /\ cols J = length x /\ length evs = S (length x).
Proof. intros O f x d m Hf Hd. exact (jacobian_shape_lemma O f x d m Hf Hd). Qed.
Check jacobian_shape : forall (O : NOps) (f : list (NA O) -> res (list (NA O))) (x : list (NA O)) (d : NA O) (m : nat),
  (forall y, length y = length x -> exists v, f y = Ok v /\ length v = m) ->
  (forall a : NA O, exists q, div a d = Ok q) ->
  exists J evs, jacobian O f x d = Ok (J, evs) /\
                wf J /\ rows J = m /\ cols J = length x /\ length evs = S (length x).
Print Assumptions jacobian_shape.

(* the hypotheses hold for the map R^3 -> R^1 of the legacy witness (m < n), and the result is
   the exact 1 x 3 Jacobian *)
Example jacobian_shape_nonvacuous :
  (forall y, length y = length x31 -> exists v, f31 y = Ok v /\ length v = 1%nat) /\
  (forall a : AQ, exists q0, div a d31 = Ok q0) /\
  exists J evs, jacobian (NReal AQ) f31 x31 d31 = Ok (J, evs) /\
                rows J = 1%nat /\ cols J = 3%nat /\ map this (buf J) = [1#1; 2#1; 3#1]%Q.
Proof.
  split; [|split].
  - intros [|a [|b [|c [|? ?]]]] H; try discriminate. cbn. eauto.
  - intros a. exists (a / d31)%Qc. reflexivity.
  - exact (proj2 jacobian_legacy_refuted).
Qed.

(* whatever the function (ragged, panicking): if a matrix is returned it is rows x cols =
   (components of f(x)) x (length of x) with a buffer of that size *)
Theorem jacobian_shape_any : forall (O : NOps) (f : list (NA O) -> res (list (NA O))) (x : list (NA O)) (d : NA O) J evs,
  jacobian O f x d = Ok (J, evs) ->
  exists f0, f x = Ok f0 /\ rows J = length f0 /\ cols J = length x /\
             length (buf J) = length f0 * length x.
Proof. intros O f x d J evs H. exact (jacobian_shape_partial O f x d J evs H). Qed.
Check jacobian_shape_any : forall (O : NOps) (f : list (NA O) -> res (list (NA O))) (x : list (NA O)) (d : NA O) J evs,
  jacobian O f x d = Ok (J, evs) ->
  exists f0, f x = Ok f0 /\ rows J = length f0 /\ cols J = length x /\
             length (buf J) = length f0 * length x.
Print Assumptions jacobian_shape_any.

Theorem jacobian_calls : forall (O : NOps), RingLaws (NA O) ->
  forall (f : list (NA O) -> res (list (NA O))) (x : list (NA O)) (d : NA O) J evs,
  jacobian O f x d = Ok (J, evs) ->
  evs = x :: map (perturbed O x d) (seq 0 (length x)).
Proof. intros O RL f x d J evs H. exact (jacobian_calls_lemma O RL f x d J evs H). Qed.
Check jacobian_calls : forall (O : NOps), RingLaws (NA O) ->
  forall (f : list (NA O) -> res (list (NA O))) (x : list (NA O)) (d : NA O) J evs,
  jacobian O f x d = Ok (J, evs) ->
  evs = x :: map (perturbed O x d) (seq 0 (length x)).
Print Assumptions jacobian_calls.

Example jacobian_calls_nonvacuous :
  exists J evs, jacobian (NReal AQ) f31 x31 d31 = Ok (J, evs) /\
    map (map this) evs = [[1#1; 2#1; 3#1]; [1025#1024; 2#1; 3#1]; [1#1; 2049#1024; 3#1]; [1#1; 2#1; 3073#1024]]%Q.
Proof. do 2 eexists. split; [vm_compute; reflexivity|]. vm_compute. reflexivity. Qed.

(* entry (i, j) is the forward difference quotient ( f_i(x + d e_j) - f_i(x) ) / d *)
Theorem jacobian_entry : forall (O : NOps), RingLaws (NA O) ->
  forall (f : list (NA O) -> res (list (NA O))) (x : list (NA O)) (d : NA O) J evs,
  jacobian O f x d = Ok (J, evs) ->
  exists f0, f x = Ok f0 /\ rows J = length f0 /\ cols J = length x /\
    forall i j, i < length f0 -> j < length x ->
      exists fj q, f (perturbed O x d j) = Ok fj /\
                   div (sub (nth i fj zero) (nth i f0 zero)) d = Ok q /\ mget J i j = Ok q.
Proof. intros O RL f x d J evs H. exact (jacobian_entry_lemma O RL f x d J evs H). Qed.
Check jacobian_entry : forall (O : NOps), RingLaws (NA O) ->
  forall (f : list (NA O) -> res (list (NA O))) (x : list (NA O)) (d : NA O) J evs,
  jacobian O f x d = Ok (J, evs) ->
  exists f0, f x = Ok f0 /\ rows J = length f0 /\ cols J = length x /\
    forall i j, i < length f0 -> j < length x ->
      exists fj q, f (perturbed O x d j) = Ok fj /\
                   div (sub (nth i fj zero) (nth i f0 zero)) d = Ok q /\ mget J i j = Ok q.
Print Assumptions jacobian_entry.
(* non-vacuity: jacobian_calls_nonvacuous above exhibits an input with jacobian ... = Ok *)

(* exact on affine maps over a field: the Jacobian of x -> Mx + c is M itself *)
Theorem jacobian_affine : forall (O : NOps), FieldLaws (NA O) ->
  forall (M : matrix (NA O)) (c x : list (NA O)) (d : NA O),
  d <> zero -> wf M -> length x = cols M ->
  exists evs, jacobian O (fun p => Ok (aff O M c p)) x d = Ok (M, evs).
Proof. intros O FL M c x d Hd W Lx. exact (jacobian_affine_eq O FL M c x d Hd W Lx). Qed.
Check jacobian_affine : forall (O : NOps), FieldLaws (NA O) ->
  forall (M : matrix (NA O)) (c x : list (NA O)) (d : NA O),
  d <> zero -> wf M -> length x = cols M ->
  exists evs, jacobian O (fun p => Ok (aff O M c p)) x d = Ok (M, evs).
Print Assumptions jacobian_affine.

(* the hypotheses hold for a 2 x 3 matrix (m < n) at Qc, delta = 1/1024 *)
Example jacobian_affine_nonvacuous :
  let M := @mkM AQ [q 1 1; q 2 1; q 3 1; q (-1) 2; q 0 1; q 5 4] 2 3 in
  d31 <> zero /\ wf M /\ length x31 = cols M /\
  exists evs, jacobian (NReal AQ) (fun p => Ok (aff (NReal AQ) M [q 1 2; q 7 1] p)) x31 d31 = Ok (M, evs).
Proof.
  intros M. assert (Hd : d31 <> zero) by (intros H; apply (f_equal this) in H; discriminate).
  repeat split; auto. exact (jacobian_affine (NReal AQ) AQ_FieldLaws M _ x31 d31 Hd eq_refl eq_refl).
Qed.

(* the legacy variant (set_col guard `rows <= col`) panics on the same input *)
Theorem jacobian_legacy_is_refuted :
  jacobian_legacy (NReal AQ) f31 x31 d31 = Panic Guard /\
  exists J evs, jacobian (NReal AQ) f31 x31 d31 = Ok (J, evs) /\
                rows J = 1%nat /\ cols J = 3%nat /\ map this (buf J) = [1#1; 2#1; 3#1]%Q.
Proof. exact jacobian_legacy_refuted. Qed.
Check jacobian_legacy_is_refuted :
  jacobian_legacy (NReal AQ) f31 x31 d31 = Panic Guard /\
  exists J evs, jacobian (NReal AQ) f31 x31 d31 = Ok (J, evs) /\
                rows J = 1%nat /\ cols J = 3%nat /\ map this (buf J) = [1#1; 2#1; 3#1]%Q.
Print Assumptions jacobian_legacy_is_refuted.
(* ---- tie of the model to the source of this run (package r2c2): gen/SrcNewton.v / gen/SrcNewtonC.v are regenerated from
   src/newton.rs and src/matrix/functions.rs by driver/rust2coq.py on every check run; Proofs/SrcEqNewton.v and
   Proofs/SrcEqNewtonC.v prove ERASURE -- each of the six regenerated solve methods and of the two finite-difference Jacobians
   equals the instrumented model of Model/Newton.v (at NReal A resp. NCplx S) with the recorded call points projected away,
   for every arithmetic, every configuration and every closure (an arbitrary function X -> res X); panics included. *)
From OV Require Proofs.SrcEqNewton.
Theorem model_is_source_C18_Newton : forall A : Arith, @SrcEqNewton.model_is_source_Newton A.
Proof. intros A. exact SrcEqNewton.model_is_source_Newton_lemma. Qed.
Check model_is_source_C18_Newton : forall A : Arith, @SrcEqNewton.model_is_source_Newton A.
Print Assumptions model_is_source_C18_Newton.
From OV Require Proofs.SrcEqNewtonC.
Theorem model_is_source_C18_NewtonC : forall S : SArith, @SrcEqNewtonC.model_is_source_NewtonC S.
Proof. intros S. exact SrcEqNewtonC.model_is_source_NewtonC_lemma. Qed.
Check model_is_source_C18_NewtonC : forall S : SArith, @SrcEqNewtonC.model_is_source_NewtonC S.
Print Assumptions model_is_source_C18_NewtonC.
