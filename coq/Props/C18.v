(* Props/C18.v -- stub, to be filled in *)
