(* Props/C18.v -- property theorems only: Theorem / exact lemma / Check (pins the statement) /
   Print Assumptions.  C18: the finite-difference Jacobian (Mat64::jacobian,
   Matrix::<Cmplx>::jacobian_cmplx; model: Model/Newton.v jacobian, generic in the element
   arithmetic [NA O]; f64: d = delta, Cmplx: d = Cmplx::new(delta, 0.0)).

   Statements differ from DESIGN Appendix E where the model forces it:
   * the model returns the matrix TOGETHER with the list of call points, and the user function
     may panic ([res]); jacobian_shape therefore states totality (no panic, for every m and n,
     which is what the pre-repair set_col violated: Legacy/C18Refuted.v) under the hypotheses that
     the function is total with m components and that division by d does not panic (floats:
     always; exact field: d <> 0), instead of "jacobian = Ok J -> ...";
   * jacobian_calls needs (a + d) - d = a, i.e. ring laws: on f64 the restored coordinate may
     drift by an ulp for non-dyadic data (the float model reproduces the drift; tie).
   * jacobian_entry likewise needs the ring laws (the perturbed point of column j is x + d e_j
     only if the earlier coordinates were restored exactly);
   * in jacobian_affine the map x -> Mx + c is the textbook sum [aff] over the entries
     M[i,k] = [ment M i k] (Appendix E conventions), the conclusion is equality of records.
   Not proved: the O(delta) truncation bound for smooth maps and float rounding (tie + search). *)
From Coq Require Import List Arith ZArith QArith Qcanon.
From OV Require Import Base.Panic Base.Arith Model.Vector Model.Matrix Model.Newton
  Proofs.Matrix Proofs.Newton Proofs.NewtonJac Inst.QcInst Legacy.C18Refuted.
Import ListNotations.
Local Open Scope nat_scope.

Theorem jacobian_shape : forall (O : NOps) (f : list (NA O) -> res (list (NA O))) (x : list (NA O)) (d : NA O) (m : nat),
  (forall y, length y = length x -> exists v, f y = Ok v /\ length v = m) ->
  (forall a : NA O, exists q, div a d = Ok q) ->
  exists J evs, jacobian O f x d = Ok (J, evs) /\
                wf J /\ rows J = m /\ cols J = length x /\ length evs = S (length x).
Proof. intros O f x d m Hf Hd. exact (jacobian_shape_lemma O f x d m Hf Hd). Qed.
Check jacobian_shape : forall (O : NOps) (f : list (NA O) -> res (list (NA O))) (x : list (NA O)) (d : NA O) (m : nat),
  (forall y, length y = length x -> exists v, f y = Ok v /\ length v = m) ->
  (forall a : NA O, exists q, div a d = Ok q) ->
  exists J evs, jacobian O f x d = Ok (J, evs) /\
                wf J /\ rows J = m /\ cols J = length x /\ length evs = S (length x).
Print Assumptions jacobian_shape.

(* the hypotheses hold for the map R^3 -> R^1 of the legacy witness (m < n), and the result is
   the exact 1 x 3 Jacobian *)
Example jacobian_shape_nonvacuous :
  (forall y, length y = length x31 -> exists v, f31 y = Ok v /\ length v = 1%nat) /\
  (forall a : AQ, exists q0, div a d31 = Ok q0) /\
  exists J evs, jacobian (NReal AQ) f31 x31 d31 = Ok (J, evs) /\
                rows J = 1%nat /\ cols J = 3%nat /\ map this (buf J) = [1#1; 2#1; 3#1]%Q.
Proof.
  split; [|split].
  - intros [|a [|b [|c [|? ?]]]] H; try discriminate. cbn. eauto.
  - intros a. exists (a / d31)%Qc. reflexivity.
  - exact (proj2 jacobian_legacy_refuted).
Qed.

(* whatever the function (ragged, panicking): if a matrix is returned it is rows x cols =
   (components of f(x)) x (length of x) with a buffer of that size *)
Theorem jacobian_shape_any : forall (O : NOps) (f : list (NA O) -> res (list (NA O))) (x : list (NA O)) (d : NA O) J evs,
  jacobian O f x d = Ok (J, evs) ->
  exists f0, f x = Ok f0 /\ rows J = length f0 /\ cols J = length x /\
             length (buf J) = length f0 * length x.
Proof. intros O f x d J evs H. exact (jacobian_shape_partial O f x d J evs H). Qed.
Check jacobian_shape_any : forall (O : NOps) (f : list (NA O) -> res (list (NA O))) (x : list (NA O)) (d : NA O) J evs,
  jacobian O f x d = Ok (J, evs) ->
  exists f0, f x = Ok f0 /\ rows J = length f0 /\ cols J = length x /\
             length (buf J) = length f0 * length x.
Print Assumptions jacobian_shape_any.

Theorem jacobian_calls : forall (O : NOps), RingLaws (NA O) ->
  forall (f : list (NA O) -> res (list (NA O))) (x : list (NA O)) (d : NA O) J evs,
  jacobian O f x d = Ok (J, evs) ->
  evs = x :: map (perturbed O x d) (seq 0 (length x)).
Proof. intros O RL f x d J evs H. exact (jacobian_calls_lemma O RL f x d J evs H). Qed.
Check jacobian_calls : forall (O : NOps), RingLaws (NA O) ->
  forall (f : list (NA O) -> res (list (NA O))) (x : list (NA O)) (d : NA O) J evs,
  jacobian O f x d = Ok (J, evs) ->
  evs = x :: map (perturbed O x d) (seq 0 (length x)).
Print Assumptions jacobian_calls.

Example jacobian_calls_nonvacuous :
  exists J evs, jacobian (NReal AQ) f31 x31 d31 = Ok (J, evs) /\
    map (map this) evs = [[1#1; 2#1; 3#1]; [1025#1024; 2#1; 3#1]; [1#1; 2049#1024; 3#1]; [1#1; 2#1; 3073#1024]]%Q.
Proof. do 2 eexists. split; [vm_compute; reflexivity|]. vm_compute. reflexivity. Qed.

(* entry (i, j) is the forward difference quotient ( f_i(x + d e_j) - f_i(x) ) / d *)
Theorem jacobian_entry : forall (O : NOps), RingLaws (NA O) ->
  forall (f : list (NA O) -> res (list (NA O))) (x : list (NA O)) (d : NA O) J evs,
  jacobian O f x d = Ok (J, evs) ->
  exists f0, f x = Ok f0 /\ rows J = length f0 /\ cols J = length x /\
    forall i j, i < length f0 -> j < length x ->
      exists fj q, f (perturbed O x d j) = Ok fj /\
                   div (sub (nth i fj zero) (nth i f0 zero)) d = Ok q /\ mget J i j = Ok q.
Proof. intros O RL f x d J evs H. exact (jacobian_entry_lemma O RL f x d J evs H). Qed.
Check jacobian_entry : forall (O : NOps), RingLaws (NA O) ->
  forall (f : list (NA O) -> res (list (NA O))) (x : list (NA O)) (d : NA O) J evs,
  jacobian O f x d = Ok (J, evs) ->
  exists f0, f x = Ok f0 /\ rows J = length f0 /\ cols J = length x /\
    forall i j, i < length f0 -> j < length x ->
      exists fj q, f (perturbed O x d j) = Ok fj /\
                   div (sub (nth i fj zero) (nth i f0 zero)) d = Ok q /\ mget J i j = Ok q.
Print Assumptions jacobian_entry.
(* non-vacuity: jacobian_calls_nonvacuous above exhibits an input with jacobian ... = Ok *)

(* exact on affine maps over a field: the Jacobian of x -> Mx + c is M itself *)
Theorem jacobian_affine : forall (O : NOps), FieldLaws (NA O) ->
  forall (M : matrix (NA O)) (c x : list (NA O)) (d : NA O),
  d <> zero -> wf M -> length x = cols M ->
  exists evs, jacobian O (fun p => Ok (aff O M c p)) x d = Ok (M, evs).
Proof. intros O FL M c x d Hd W Lx. exact (jacobian_affine_eq O FL M c x d Hd W Lx). Qed.
Check jacobian_affine : forall (O : NOps), FieldLaws (NA O) ->
  forall (M : matrix (NA O)) (c x : list (NA O)) (d : NA O),
  d <> zero -> wf M -> length x = cols M ->
  exists evs, jacobian O (fun p => Ok (aff O M c p)) x d = Ok (M, evs).
Print Assumptions jacobian_affine.

(* the hypotheses hold for a 2 x 3 matrix (m < n) at Qc, delta = 1/1024 *)
Example jacobian_affine_nonvacuous :
  let M := @mkM AQ [q 1 1; q 2 1; q 3 1; q (-1) 2; q 0 1; q 5 4] 2 3 in
  d31 <> zero /\ wf M /\ length x31 = cols M /\
  exists evs, jacobian (NReal AQ) (fun p => Ok (aff (NReal AQ) M [q 1 2; q 7 1] p)) x31 d31 = Ok (M, evs).
Proof.
  intros M. assert (Hd : d31 <> zero) by (intros H; apply (f_equal this) in H; discriminate).
  repeat split; auto. exact (jacobian_affine (NReal AQ) AQ_FieldLaws M _ x31 d31 Hd eq_refl eq_refl).
Qed.

(* the legacy variant (set_col guard `rows <= col`) panics on the same input *)
Theorem jacobian_legacy_is_refuted :
  jacobian_legacy (NReal AQ) f31 x31 d31 = Panic Guard /\
  exists J evs, jacobian (NReal AQ) f31 x31 d31 = Ok (J, evs) /\
                rows J = 1%nat /\ cols J = 3%nat /\ map this (buf J) = [1#1; 2#1; 3#1]%Q.
Proof. exact jacobian_legacy_refuted. Qed.
Check jacobian_legacy_is_refuted :
  jacobian_legacy (NReal AQ) f31 x31 d31 = Panic Guard /\
  exists J evs, jacobian (NReal AQ) f31 x31 d31 = Ok (J, evs) /\
                rows J = 1%nat /\ cols J = 3%nat /\ map this (buf J) = [1#1; 2#1; 3#1]%Q.
Print Assumptions jacobian_legacy_is_refuted.
(* ======================================================================================
   C18, round two (package newton2) -- to be appended at the END of Props/C18.v.
   The O(delta) claim, over the reals (NRl = the real instance of Proofs/NewtonReal.v): whatever matrix
   Mat64::jacobian returns, entry (i, j) differs from the partial derivative d f_i / d x_j at x by at most
   (|delta| / 2) * sup |d^2 f_i / d x_j^2| over the segment between x and x + delta e_j.
   g is the restriction of component i to that segment, g(t) = f_i(x + t e_j); g1 = g', g2 = g''.
   Still not proved: float rounding of the quotient (tie + search). *)
From Coq Require Import Reals Lra.
From OV Require Import Proofs.NewtonReal Proofs.Newton2Jac.
Local Close Scope R_scope.
Local Open Scope nat_scope.

Theorem jacobian_truncation : forall (F : list R -> res (list R)) (x : list R) (dl : R) (J : matrix AR) evs,
  jacobian NRl F x dl = Ok (J, evs) ->
  forall (i j : nat) (g g1 g2 : R -> R) (B : R),
  i < rows J -> j < length x ->
  (forall t, (Rmin 0 dl <= t <= Rmax 0 dl)%R -> exists v, F (perturbed NRl x t j) = Ok v /\ nth i v 0%R = g t) ->
  (forall t, (Rmin 0 dl <= t <= Rmax 0 dl)%R -> derivable_pt_lim g t (g1 t)) ->
  (forall t, (Rmin 0 dl <= t <= Rmax 0 dl)%R -> derivable_pt_lim g1 t (g2 t)) ->
  (forall t, (Rmin 0 dl <= t <= Rmax 0 dl)%R -> (Rabs (g2 t) <= B)%R) ->
  exists q : R, mget J i j = Ok q /\ (Rabs (q - g1 0) <= Rabs dl / 2 * B)%R.
Proof. exact jacobian_truncation_lemma. Qed.
Check jacobian_truncation : forall (F : list R -> res (list R)) (x : list R) (dl : R) (J : matrix AR) evs,
  jacobian NRl F x dl = Ok (J, evs) ->
  forall (i j : nat) (g g1 g2 : R -> R) (B : R),
  i < rows J -> j < length x ->
  (forall t, (Rmin 0 dl <= t <= Rmax 0 dl)%R -> exists v, F (perturbed NRl x t j) = Ok v /\ nth i v 0%R = g t) ->
  (forall t, (Rmin 0 dl <= t <= Rmax 0 dl)%R -> derivable_pt_lim g t (g1 t)) ->
  (forall t, (Rmin 0 dl <= t <= Rmax 0 dl)%R -> derivable_pt_lim g1 t (g2 t)) ->
  (forall t, (Rmin 0 dl <= t <= Rmax 0 dl)%R -> (Rabs (g2 t) <= B)%R) ->
  exists q : R, mget J i j = Ok q /\ (Rabs (q - g1 0) <= Rabs dl / 2 * B)%R.
Print Assumptions jacobian_truncation.

(* F(x, y) = (x^2 y, x + y^3) at (1, 2), delta = 1/4, entry (0, 0): g(t) = 2 (1 + t)^2, g' = 4 (1 + t), g'' = 4 = B;
   the entry is 9/2, the partial derivative 4, and the bound (1/4)/2 * 4 = 1/2 is attained *)
Example jacobian_truncation_nonvacuous :
  exists J evs, jacobian NRl Fw [1%R; 2%R] (1 / 4)%R = Ok (J, evs) /\ 0 < rows J /\
    (forall t, (Rmin 0 (1 / 4) <= t <= Rmax 0 (1 / 4))%R ->
       exists v, Fw (perturbed NRl [1%R; 2%R] t 0) = Ok v /\ nth 0 v 0%R = (2 * ((1 + t) * (1 + t)))%R) /\
    (forall t, derivable_pt_lim (fun t => 2 * ((1 + t) * (1 + t)))%R t (4 * (1 + t))%R) /\
    (forall t, derivable_pt_lim (fun t => 4 * (1 + t))%R t 4%R) /\
    (Rabs 4 <= 4)%R.
Proof. exact jacobian_truncation_witness. Qed.

(* the calculus behind it, either sign of the step: |(g(d) - g(0))/d - g'(0)| <= (|d|/2) sup |g''| *)
Theorem forward_difference_truncation : forall (g g1 g2 : R -> R) (d B : R),
  (forall t, (Rmin 0 d <= t <= Rmax 0 d)%R -> derivable_pt_lim g t (g1 t)) ->
  (forall t, (Rmin 0 d <= t <= Rmax 0 d)%R -> derivable_pt_lim g1 t (g2 t)) ->
  (forall t, (Rmin 0 d <= t <= Rmax 0 d)%R -> (Rabs (g2 t) <= B)%R) ->
  d <> 0%R ->
  (Rabs ((g d - g 0) / d - g1 0) <= Rabs d / 2 * B)%R.
Proof. exact fwd_diff_trunc. Qed.
Check forward_difference_truncation : forall (g g1 g2 : R -> R) (d B : R),
  (forall t, (Rmin 0 d <= t <= Rmax 0 d)%R -> derivable_pt_lim g t (g1 t)) ->
  (forall t, (Rmin 0 d <= t <= Rmax 0 d)%R -> derivable_pt_lim g1 t (g2 t)) ->
  (forall t, (Rmin 0 d <= t <= Rmax 0 d)%R -> (Rabs (g2 t) <= B)%R) ->
  d <> 0%R ->
  (Rabs ((g d - g 0) / d - g1 0) <= Rabs d / 2 * B)%R.
Print Assumptions forward_difference_truncation.
(* non-vacuity: jacobian_truncation_nonvacuous exhibits g, g', g'' = 4 on [0, 1/4] *)

(* the complex Jacobian (Matrix::<Cmplx>::jacobian_cmplx at Newton2Inst.NCR = NCplx SolveC.SAR): the step is the REAL
   number delta, embedded as (delta, 0); gr, gi are the real and imaginary parts of f_i(x + t e_j) for real t *)
From OV Require Model.Complex Proofs.SolveR Proofs.SolveC Proofs.Newton2Inst Proofs.Newton2JacC.
Theorem jacobian_truncation_C : forall (F : list SolveC.ACR -> res (list SolveC.ACR)) (x : list SolveC.ACR) (dl : R)
    (J : matrix SolveC.ACR) evs,
  jacobian Newton2Inst.NCR F x (emb Newton2Inst.NCR dl) = Ok (J, evs) ->
  forall (i j : nat) (gr gr1 gr2 gi gi1 gi2 : R -> R) (Br Bi : R),
  i < rows J -> j < length x ->
  (forall t, (Rmin 0 dl <= t <= Rmax 0 dl)%R ->
     exists v, F (perturbed Newton2Inst.NCR x (Complex.mkC (A:=SolveR.AR) t 0%R) j) = Ok v /\
               Complex.re (nth i v (zero : SolveC.ACR)) = gr t /\ Complex.im (nth i v (zero : SolveC.ACR)) = gi t) ->
  (forall t, (Rmin 0 dl <= t <= Rmax 0 dl)%R -> derivable_pt_lim gr t (gr1 t)) ->
  (forall t, (Rmin 0 dl <= t <= Rmax 0 dl)%R -> derivable_pt_lim gr1 t (gr2 t)) ->
  (forall t, (Rmin 0 dl <= t <= Rmax 0 dl)%R -> (Rabs (gr2 t) <= Br)%R) ->
  (forall t, (Rmin 0 dl <= t <= Rmax 0 dl)%R -> derivable_pt_lim gi t (gi1 t)) ->
  (forall t, (Rmin 0 dl <= t <= Rmax 0 dl)%R -> derivable_pt_lim gi1 t (gi2 t)) ->
  (forall t, (Rmin 0 dl <= t <= Rmax 0 dl)%R -> (Rabs (gi2 t) <= Bi)%R) ->
  exists q : SolveC.ACR, mget J i j = Ok q /\
    (Rabs (Complex.re q - gr1 0) <= Rabs dl / 2 * Br)%R /\ (Rabs (Complex.im q - gi1 0) <= Rabs dl / 2 * Bi)%R.
Proof. exact Newton2JacC.jacobian_truncation_C_lemma. Qed.
Check jacobian_truncation_C : forall (F : list SolveC.ACR -> res (list SolveC.ACR)) (x : list SolveC.ACR) (dl : R)
    (J : matrix SolveC.ACR) evs,
  jacobian Newton2Inst.NCR F x (emb Newton2Inst.NCR dl) = Ok (J, evs) ->
  forall (i j : nat) (gr gr1 gr2 gi gi1 gi2 : R -> R) (Br Bi : R),
  i < rows J -> j < length x ->
  (forall t, (Rmin 0 dl <= t <= Rmax 0 dl)%R ->
     exists v, F (perturbed Newton2Inst.NCR x (Complex.mkC (A:=SolveR.AR) t 0%R) j) = Ok v /\
               Complex.re (nth i v (zero : SolveC.ACR)) = gr t /\ Complex.im (nth i v (zero : SolveC.ACR)) = gi t) ->
  (forall t, (Rmin 0 dl <= t <= Rmax 0 dl)%R -> derivable_pt_lim gr t (gr1 t)) ->
  (forall t, (Rmin 0 dl <= t <= Rmax 0 dl)%R -> derivable_pt_lim gr1 t (gr2 t)) ->
  (forall t, (Rmin 0 dl <= t <= Rmax 0 dl)%R -> (Rabs (gr2 t) <= Br)%R) ->
  (forall t, (Rmin 0 dl <= t <= Rmax 0 dl)%R -> derivable_pt_lim gi t (gi1 t)) ->
  (forall t, (Rmin 0 dl <= t <= Rmax 0 dl)%R -> derivable_pt_lim gi1 t (gi2 t)) ->
  (forall t, (Rmin 0 dl <= t <= Rmax 0 dl)%R -> (Rabs (gi2 t) <= Bi)%R) ->
  exists q : SolveC.ACR, mget J i j = Ok q /\
    (Rabs (Complex.re q - gr1 0) <= Rabs dl / 2 * Br)%R /\ (Rabs (Complex.im q - gi1 0) <= Rabs dl / 2 * Bi)%R.
Print Assumptions jacobian_truncation_C.

(* F(z) = (z^2) at z = 1 + i, delta = 1/4: re f(1 + t + i) = (1 + t)^2 - 1, im f(1 + t + i) = 2 (1 + t) *)
Example jacobian_truncation_C_nonvacuous :
  exists J evs, jacobian Newton2Inst.NCR Newton2JacC.Fwc [Complex.mkC (A:=SolveR.AR) 1%R 1%R] (emb Newton2Inst.NCR (1 / 4)%R) = Ok (J, evs) /\
    0 < rows J /\
    (forall t, (Rmin 0 (1 / 4) <= t <= Rmax 0 (1 / 4))%R ->
       exists v, Newton2JacC.Fwc (perturbed Newton2Inst.NCR [Complex.mkC (A:=SolveR.AR) 1%R 1%R] (Complex.mkC (A:=SolveR.AR) t 0%R) 0) = Ok v /\
                 Complex.re (nth 0 v (zero : SolveC.ACR)) = ((1 + t) * (1 + t) - 1)%R /\
                 Complex.im (nth 0 v (zero : SolveC.ACR)) = (2 * (1 + t))%R) /\
    (forall t, derivable_pt_lim (fun t => (1 + t) * (1 + t) - 1)%R t (2 * (1 + t))%R) /\
    (forall t, derivable_pt_lim (fun t => 2 * (1 + t))%R t 2%R) /\ (Rabs 2 <= 2)%R /\
    (forall t, derivable_pt_lim (fun _ : R => 2%R) t 0%R) /\ (Rabs 0 <= 0)%R.
Proof. exact Newton2JacC.jacobian_truncation_C_witness. Qed.

(* exactness beyond affine maps: the finite-difference Jacobian of a DECOUPLED map F(x)_i = f_i(x_i) is exactly diagonal
   over R, for every dimension: off the diagonal the quotient is (f_i(x_i) - f_i(x_i)) / delta = 0 *)
From OV Require Proofs.SolveBase Proofs.Newton2Sys1d Proofs.Newton2DiagFD.
Theorem jacobian_decoupled_diagonal : forall (dim : nat) (f : nat -> R -> R) (F : list R -> res (list R)),
  (forall x, length x = dim ->
     exists v, F x = Ok v /\ length v = dim /\ forall i, i < dim -> nth i v 0%R = f i (nth i x 0%R)) ->
  forall (x : list R) (d : R), length x = dim -> d <> 0%R ->
  exists J evs, jacobian NRl F x d = Ok (J, evs) /\ wf J /\ rows J = dim /\ cols J = dim /\
    forall i j, i < dim -> j < dim ->
      SolveBase.ent J i j = if i =? j then ((f i (nth i x 0 + d) - f i (nth i x 0)) / d)%R else 0%R.
Proof. exact Newton2DiagFD.jacobian_decoupled. Qed.
Check jacobian_decoupled_diagonal : forall (dim : nat) (f : nat -> R -> R) (F : list R -> res (list R)),
  (forall x, length x = dim ->
     exists v, F x = Ok v /\ length v = dim /\ forall i, i < dim -> nth i v 0%R = f i (nth i x 0%R)) ->
  forall (x : list R) (d : R), length x = dim -> d <> 0%R ->
  exists J evs, jacobian NRl F x d = Ok (J, evs) /\ wf J /\ rows J = dim /\ cols J = dim /\
    forall i j, i < dim -> j < dim ->
      SolveBase.ent J i j = if i =? j then ((f i (nth i x 0 + d) - f i (nth i x 0)) / d)%R else 0%R.
Print Assumptions jacobian_decoupled_diagonal.
(* F(x, y) = (x^3 - 2, y^3 - 2) is decoupled *)
From OV Require Proofs.Newton2Wit.
Example jacobian_decoupled_diagonal_nonvacuous :
  (forall x, length x = 2 ->
     exists v, Newton2Wit.F2w x = Ok v /\ length v = 2 /\
       forall i, i < 2 -> nth i v 0%R = (fun _ : nat => Newton2Wit.cube2) i (nth i x 0%R)) /\
  length [1%R; 2%R] = 2 /\ (1 / 4)%R <> 0%R.
Proof. split; [exact Newton2Wit.F2w_spec|]. split; [reflexivity|]. apply Rgt_not_eq. lra. Qed.
(* ---- tie of the model to the source of this run (package r2c2): gen/SrcNewton.v / gen/SrcNewtonC.v are regenerated from
   src/newton.rs and src/matrix/functions.rs by driver/rust2coq.py on every check run; Proofs/SrcEqNewton.v and
   Proofs/SrcEqNewtonC.v prove ERASURE -- each of the six regenerated solve methods and of the two finite-difference Jacobians
   equals the instrumented model of Model/Newton.v (at NReal A resp. NCplx S) with the recorded call points projected away,
   for every arithmetic, every configuration and every closure (an arbitrary function X -> res X); panics included. *)
From OV Require Proofs.SrcEqNewton.
Theorem model_is_source_C18_Newton : forall A : Arith, @SrcEqNewton.model_is_source_Newton A.
Proof. intros A. exact SrcEqNewton.model_is_source_Newton_lemma. Qed.
Check model_is_source_C18_Newton : forall A : Arith, @SrcEqNewton.model_is_source_Newton A.
Print Assumptions model_is_source_C18_Newton.
From OV Require Proofs.SrcEqNewtonC.
Theorem model_is_source_C18_NewtonC : forall S : SArith, @SrcEqNewtonC.model_is_source_NewtonC S.
Proof. intros S. exact SrcEqNewtonC.model_is_source_NewtonC_lemma. Qed.
Check model_is_source_C18_NewtonC : forall S : SArith, @SrcEqNewtonC.model_is_source_NewtonC S.
Print Assumptions model_is_source_C18_NewtonC.
