(* Props/C05.v -- stub, to be filled in *)
