(* Props/C05.v -- property theorems only: Theorem / exact lemma / Check (pins the statement) / Print Assumptions.
   Tridiagonal matrices (src/tridiagonal.rs, model coq/Model/Tridiag.v).
     wfT t      : |main| = n, |sub| = |sup| = n - 1           (what every constructor establishes)
     dense t    : nat -> nat -> A, the textbook matrix with the same three diagonals (the "dense twin")
     in_band i j: i = j \/ i = j + 1 \/ i + 1 = j
     entry m i j: element (i,j) of the flat row-major dense matrix returned by convert *)
From Coq Require Import List Arith Bool ZArith QArith Qcanon Floats.
Local Open Scope nat_scope.
From OV Require Import Base.Panic Base.Arith Model.Vector Model.Matrix Model.Tridiag Inst.QcInst Inst.FloatInst Proofs.Tridiag Proofs.TridiagSolve Proofs.TridiagDet Proofs.TridiagTotal.
Import ListNotations.

(* ---- views: index, convert, transpose (every n >= 1, every entry value, any arithmetic) ---- *)
Theorem tridiag_views : forall (A : Arith) (t : tridiag A), wfT t -> 1 <= tn t ->
  (forall i j, i < tn t -> j < tn t -> in_band i j -> tindex t i j = Ok (dense t i j)) /\
  (forall i j, tn t <= i \/ tn t <= j \/ ~ in_band i j -> tindex t i j = Panic Guard) /\
  (forall i j, ~ in_band i j -> dense t i j = zero) /\
  (exists m, tconvert t = Ok m /\ wfM m /\ rows m = tn t /\ cols m = tn t /\
             forall i j, i < tn t -> j < tn t -> entry m i j = dense t i j) /\
  (wfT (ttranspose t) /\ tn (ttranspose t) = tn t /\ forall i j, dense (ttranspose t) i j = dense t j i).
Proof. intros A t. exact (tridiag_views_lemma t). Qed.
Check tridiag_views : forall (A : Arith) (t : tridiag A), wfT t -> 1 <= tn t ->
  (forall i j, i < tn t -> j < tn t -> in_band i j -> tindex t i j = Ok (dense t i j)) /\
  (forall i j, tn t <= i \/ tn t <= j \/ ~ in_band i j -> tindex t i j = Panic Guard) /\
  (forall i j, ~ in_band i j -> dense t i j = zero) /\
  (exists m, tconvert t = Ok m /\ wfM m /\ rows m = tn t /\ cols m = tn t /\
             forall i j, i < tn t -> j < tn t -> entry m i j = dense t i j) /\
  (wfT (ttranspose t) /\ tn (ttranspose t) = tn t /\ forall i j, dense (ttranspose t) i j = dense t j i).
Print Assumptions tridiag_views.

(* a concrete non-trivial input meeting the hypotheses: the 3x3 matrix [[1,2,0],[3,4,5],[0,6,7]] over Qc *)
Definition ex3 : tridiag AQ := @mkT AQ [q 3 1; q 6 1] [q 1 1; q 4 1; q 7 1] [q 2 1; q 5 1] 3.
Example tridiag_views_nonvacuous : wfT ex3 /\ 1 <= tn ex3.
Proof. unfold wfT; cbn; auto. Qed.

(* ---- writes through IndexMut change exactly the addressed entry, or are refused ---- *)
Theorem tridiag_writes : forall (A : Arith) (t : tridiag A) i j (x : A), wfT t ->
  (i < tn t -> j < tn t -> in_band i j ->
     exists t', tset t i j x = Ok t' /\ wfT t' /\ tn t' = tn t /\
       forall a b, a < tn t -> b < tn t -> dense t' a b = if (a =? i) && (b =? j) then x else dense t a b) /\
  (tn t <= i \/ tn t <= j \/ ~ in_band i j -> tset t i j x = Panic Guard).
Proof. intros A t i j x. exact (tridiag_writes_lemma t i j x). Qed.
Check tridiag_writes : forall (A : Arith) (t : tridiag A) i j (x : A), wfT t ->
  (i < tn t -> j < tn t -> in_band i j ->
     exists t', tset t i j x = Ok t' /\ wfT t' /\ tn t' = tn t /\
       forall a b, a < tn t -> b < tn t -> dense t' a b = if (a =? i) && (b =? j) then x else dense t a b) /\
  (tn t <= i \/ tn t <= j \/ ~ in_band i j -> tset t i j x = Panic Guard).
Print Assumptions tridiag_writes.
Example tridiag_writes_nonvacuous : wfT ex3 /\ 2 < tn ex3 /\ 1 < tn ex3 /\ in_band 2 1.
Proof. unfold wfT, in_band; cbn; repeat split; auto. Qed.

(* ... and so does any history of writes: refused writes leave the matrix as it was ([wstep]), accepted ones update the
   textbook matrix pointwise ([dstep]); well-formedness is an invariant of the history *)
Theorem tridiag_write_history : forall (A : Arith) (ws : list (nat * nat * A)) (t : tridiag A), wfT t ->
  wfT (fold_left wstep ws t) /\ tn (fold_left wstep ws t) = tn t /\
  forall a b, a < tn t -> b < tn t ->
    dense (fold_left wstep ws t) a b = fold_left (dstep (tn t)) ws (dense t) a b.
Proof. intros A ws t. exact (write_history_lemma ws t). Qed.
Check tridiag_write_history : forall (A : Arith) (ws : list (nat * nat * A)) (t : tridiag A), wfT t ->
  wfT (fold_left wstep ws t) /\ tn (fold_left wstep ws t) = tn t /\
  forall a b, a < tn t -> b < tn t ->
    dense (fold_left wstep ws t) a b = fold_left (dstep (tn t)) ws (dense t) a b.
Print Assumptions tridiag_write_history.

(* ---- arithmetic = arithmetic on the dense twin (ring laws: -0 = 0, 0 + 0 = 0, 0 * s = 0) ---- *)
Theorem tridiag_arith : forall (A : Arith), RingLaws A -> forall (a b : tridiag A) (s : A),
  wfT a -> wfT b -> tn a = tn b ->
  (wfT (tneg a) /\ tn (tneg a) = tn a /\ forall i j, dense (tneg a) i j = (- dense a i j)%A) /\
  (exists c, tadd a b = Ok c /\ wfT c /\ tn c = tn a /\ forall i j, dense c i j = (dense a i j + dense b i j)%A) /\
  (exists c, tminus a b = Ok c /\ wfT c /\ tn c = tn a /\ forall i j, dense c i j = (dense a i j - dense b i j)%A) /\
  (wfT (tscale a s) /\ tn (tscale a s) = tn a /\ forall i j, dense (tscale a s) i j = (dense a i j * s)%A) /\
  (wfT (tscale_l s a) /\ tn (tscale_l s a) = tn a /\ forall i j, dense (tscale_l s a) i j = (s * dense a i j)%A).
Proof. intros A RL a b s. exact (tridiag_arith_lemma RL a b s). Qed.
Check tridiag_arith : forall (A : Arith), RingLaws A -> forall (a b : tridiag A) (s : A),
  wfT a -> wfT b -> tn a = tn b ->
  (wfT (tneg a) /\ tn (tneg a) = tn a /\ forall i j, dense (tneg a) i j = (- dense a i j)%A) /\
  (exists c, tadd a b = Ok c /\ wfT c /\ tn c = tn a /\ forall i j, dense c i j = (dense a i j + dense b i j)%A) /\
  (exists c, tminus a b = Ok c /\ wfT c /\ tn c = tn a /\ forall i j, dense c i j = (dense a i j - dense b i j)%A) /\
  (wfT (tscale a s) /\ tn (tscale a s) = tn a /\ forall i j, dense (tscale a s) i j = (dense a i j * s)%A) /\
  (wfT (tscale_l s a) /\ tn (tscale_l s a) = tn a /\ forall i j, dense (tscale_l s a) i j = (s * dense a i j)%A).
Print Assumptions tridiag_arith.
Example tridiag_arith_nonvacuous : wfT ex3 /\ wfT (ttranspose ex3) /\ tn ex3 = tn (ttranspose ex3).
Proof. unfold wfT; cbn; auto. Qed.

(* mismatched sizes are refused *)
Theorem tridiag_arith_rejects : forall (A : Arith) (a b : tridiag A), tn a <> tn b ->
  tadd a b = Panic Guard /\ tminus a b = Panic Guard.
Proof. intros A a b. exact (tadd_rejects a b). Qed.
Check tridiag_arith_rejects : forall (A : Arith) (a b : tridiag A), tn a <> tn b ->
  tadd a b = Panic Guard /\ tminus a b = Panic Guard.
Print Assumptions tridiag_arith_rejects.
Example tridiag_arith_rejects_nonvacuous : tn ex3 <> tn (@mkT AQ [] [q 1 1] [] 1).
Proof. cbn. discriminate. Qed.

(* T += s, T -= s, T *= s act on the stored (in-band) elements *)
Theorem tridiag_scalar_assign : forall (A : Arith), RingLaws A -> forall (t : tridiag A) (s : A), wfT t ->
  (wfT (tadd_assign_s t s) /\ tn (tadd_assign_s t s) = tn t /\
   forall i j, i < tn t -> j < tn t -> in_band i j -> dense (tadd_assign_s t s) i j = (dense t i j + s)%A) /\
  (wfT (tsub_assign_s t s) /\ tn (tsub_assign_s t s) = tn t /\
   forall i j, i < tn t -> j < tn t -> in_band i j -> dense (tsub_assign_s t s) i j = (dense t i j - s)%A) /\
  (wfT (tmul_assign_s t s) /\ tn (tmul_assign_s t s) = tn t /\
   forall i j, dense (tmul_assign_s t s) i j = (dense t i j * s)%A).
Proof. intros A RL t s. exact (tridiag_scalar_assign_lemma RL t s). Qed.
Check tridiag_scalar_assign : forall (A : Arith), RingLaws A -> forall (t : tridiag A) (s : A), wfT t ->
  (wfT (tadd_assign_s t s) /\ tn (tadd_assign_s t s) = tn t /\
   forall i j, i < tn t -> j < tn t -> in_band i j -> dense (tadd_assign_s t s) i j = (dense t i j + s)%A) /\
  (wfT (tsub_assign_s t s) /\ tn (tsub_assign_s t s) = tn t /\
   forall i j, i < tn t -> j < tn t -> in_band i j -> dense (tsub_assign_s t s) i j = (dense t i j - s)%A) /\
  (wfT (tmul_assign_s t s) /\ tn (tmul_assign_s t s) = tn t /\
   forall i j, dense (tmul_assign_s t s) i j = (dense t i j * s)%A).
Print Assumptions tridiag_scalar_assign.
Example tridiag_scalar_assign_nonvacuous : wfT ex3 /\ 1 < tn ex3 /\ 2 < tn ex3 /\ in_band 1 2.
Proof. unfold wfT, in_band; cbn; repeat split; auto. Qed.

(* ---- &T * &v = dense twin times v, for every n >= 1 (n = 1 needs the repair 1f8b278) ---- *)
Theorem tridiag_mul_spec : forall (A : Arith), RingLaws A -> forall (t : tridiag A) (v : list A),
  wfT t -> 1 <= tn t -> length v = tn t ->
  exists w, tmul t v = Ok w /\ length w = tn t /\
    forall i, i < tn t -> nth i w zero = sum_n (tn t) (fun j => (dense t i j * nth j v zero)%A).
Proof. intros A RL t v. exact (tmul_spec_lemma RL t v). Qed.
Check tridiag_mul_spec : forall (A : Arith), RingLaws A -> forall (t : tridiag A) (v : list A),
  wfT t -> 1 <= tn t -> length v = tn t ->
  exists w, tmul t v = Ok w /\ length w = tn t /\
    forall i, i < tn t -> nth i w zero = sum_n (tn t) (fun j => (dense t i j * nth j v zero)%A).
Print Assumptions tridiag_mul_spec.
Example tridiag_mul_spec_nonvacuous :
  wfT ex3 /\ 1 <= tn ex3 /\ length ([q 1 1; q (-1) 2; q 2 1] : list AQ) = tn ex3 /\
  wfT (@mkT AQ [] [q 3 2] [] 1) /\ 1 <= 1 /\ length ([q (-4) 1] : list AQ) = 1.       (* and the n = 1 boundary *)
Proof. unfold wfT; cbn; auto 10. Qed.

(* the pre-repair product (Legacy/C05Refuted.v) is refuted by the committed witness and panics on every 1x1 input:
   the hypothesis 1 <= tn t of [tridiag_mul_spec] cannot be met by the pinned code at n = 1 *)
From OV Require Import Legacy.C05Refuted.
Check tridiag_mul_legacy_refuted :
  exists (t : tridiag AQ) (v : list AQ), wfT t /\ 1 <= tn t /\ length v = tn t /\ tmul_legacy t v = Panic Index.
Check tridiag_mul_legacy_panics_on_every_1x1 : forall (A : Arith) (t : tridiag A) (v : list A),
  wfT t -> tn t = 1 -> length v = 1 -> tmul_legacy t v = Panic Index.

Theorem tridiag_mul_rejects : forall (A : Arith) (t : tridiag A) (v : list A),
  length v <> tn t -> tmul t v = Panic Guard.
Proof. intros A t v. exact (tmul_rejects t v). Qed.
Check tridiag_mul_rejects : forall (A : Arith) (t : tridiag A) (v : list A),
  length v <> tn t -> tmul t v = Panic Guard.
Print Assumptions tridiag_mul_rejects.
Example tridiag_mul_rejects_nonvacuous : length ([q 1 1] : list AQ) <> tn ex3.
Proof. cbn. discriminate. Qed.

(* ---- Thomas solve over an exact field: the exact solution, or a refusal at the first zero pivot ----
   Differences from DESIGN Appendix E, all strengthenings or notation: the solution is stated row by row
   (sum over the dense twin), the Ok branch also says that every pivot is non-zero, and [thomas_pivot]
   is computed with the arithmetic's own division, so [thomas_pivot t k = Ok zero] means: pivots 0..k-1
   are non-zero (no DivZero) and pivot k vanishes -- k is the step at which the code refuses. *)
Theorem thomas_exact_or_refuses : forall (A : Arith), FieldLaws A -> forall (t : tridiag A) (r : list A),
  wfT t -> 1 <= tn t -> length r = tn t ->
  (exists u, tsolve t r = Ok u /\ length u = tn t /\
     (forall i, i < tn t -> sum_n (tn t) (fun j => (dense t i j * nth j u zero)%A) = nth i r zero) /\
     (forall k, k < tn t -> exists p, thomas_pivot t k = Ok p /\ p <> zero)) \/
  (tsolve t r = Panic Guard /\ exists k, k < tn t /\ thomas_pivot t k = Ok zero).
Proof. intros A FL t r. exact (thomas_lemma FL t r). Qed.
Check thomas_exact_or_refuses : forall (A : Arith), FieldLaws A -> forall (t : tridiag A) (r : list A),
  wfT t -> 1 <= tn t -> length r = tn t ->
  (exists u, tsolve t r = Ok u /\ length u = tn t /\
     (forall i, i < tn t -> sum_n (tn t) (fun j => (dense t i j * nth j u zero)%A) = nth i r zero) /\
     (forall k, k < tn t -> exists p, thomas_pivot t k = Ok p /\ p <> zero)) \/
  (tsolve t r = Panic Guard /\ exists k, k < tn t /\ thomas_pivot t k = Ok zero).
Print Assumptions thomas_exact_or_refuses.
(* both branches are inhabited over Qc: ex3 is solved; [[1,1],[1,1]] is refused at step 1 *)
Example thomas_nonvacuous :
  wfT ex3 /\ 1 <= tn ex3 /\ length ([q 1 1; q 2 1; q 3 1] : list AQ) = tn ex3 /\
  is_ok (tsolve ex3 ([q 1 1; q 2 1; q 3 1] : list AQ)) = true /\
  tsolve (@mkT AQ [q 1 1] [q 1 1; q 1 1] [q 1 1] 2) ([q 1 1; q 2 1] : list AQ) = Panic Guard /\
  is_ok (tsolve (@mkT AQ [q 1 1] [q 0 1; q 1 1] [q 1 1] 2) ([q 1 1; q 2 1] : list AQ)) = false.
Proof. unfold wfT; cbn [tn tmain tsub tsup ex3 length]. repeat split; auto; vm_compute; reflexivity. Qed.

(* the instance the exact tier of the correspondence check runs: Qc *)
Theorem thomas_exact_or_refuses_Qc : forall (t : tridiag AQ) (r : list AQ),
  wfT t -> 1 <= tn t -> length r = tn t ->
  (exists u, tsolve t r = Ok u /\ length u = tn t /\
     (forall i, i < tn t -> sum_n (tn t) (fun j => (dense t i j * nth j u zero)%A) = nth i r zero) /\
     (forall k, k < tn t -> exists p, thomas_pivot t k = Ok p /\ p <> zero)) \/
  (tsolve t r = Panic Guard /\ exists k, k < tn t /\ thomas_pivot t k = Ok zero).
Proof. exact (thomas_lemma AQ_FieldLaws). Qed.
Check thomas_exact_or_refuses_Qc : forall (t : tridiag AQ) (r : list AQ),
  wfT t -> 1 <= tn t -> length r = tn t ->
  (exists u, tsolve t r = Ok u /\ length u = tn t /\
     (forall i, i < tn t -> sum_n (tn t) (fun j => (dense t i j * nth j u zero)%A) = nth i r zero) /\
     (forall k, k < tn t -> exists p, thomas_pivot t k = Ok p /\ p <> zero)) \/
  (tsolve t r = Panic Guard /\ exists k, k < tn t /\ thomas_pivot t k = Ok zero).
Print Assumptions thomas_exact_or_refuses_Qc.

(* ---- shape of solve over ANY arithmetic whose division answers for a divisor that is not == 0 (exact fields, f64,
   Complex<f64>): Ok with n components, or the zero-pivot refusal; never a bounds failure, underflow or division panic ---- *)
Theorem thomas_shape_any_arith : forall (A : Arith),
  (forall x y : A, eqb y zero = false -> exists z, div x y = Ok z) ->
  forall (t : tridiag A) (r : list A), wfT t -> 1 <= tn t -> length r = tn t ->
  (exists u, tsolve t r = Ok u /\ length u = tn t) \/ tsolve t r = Panic Guard.
Proof. intros A Hdiv t r. exact (thomas_shape_lemma Hdiv t r). Qed.
Check thomas_shape_any_arith : forall (A : Arith),
  (forall x y : A, eqb y zero = false -> exists z, div x y = Ok z) ->
  forall (t : tridiag A) (r : list A), wfT t -> 1 <= tn t -> length r = tn t ->
  (exists u, tsolve t r = Ok u /\ length u = tn t) \/ tsolve t r = Panic Guard.
Print Assumptions thomas_shape_any_arith.
(* the hypothesis holds of the two float instances the correspondence check runs (their division never panics) *)
Example thomas_shape_any_arith_nonvacuous :
  (forall x y : AF, eqb y zero = false -> exists z, div x y = Ok z) /\
  (forall x y : ACF, eqb y zero = false -> exists z, div x y = Ok z).
Proof. split; intros x y _; eexists; reflexivity. Qed.

(* ---- T / s and T /= s over a field: entrywise division, or the arithmetic's own division-by-zero panic ---- *)
Theorem tridiag_div_scalar : forall (A : Arith) (FL : FieldLaws A) (t : tridiag A) (s : A), wfT t ->
  (s <> zero ->
     exists c, tdiv t s = Ok c /\ tdiv_assign_s t s = Ok c /\ wfT c /\ tn c = tn t /\
               forall i j, dense c i j = (dense t i j * fl_inv A FL s)%A) /\
  (s = zero -> 1 <= tn t -> tdiv t s = Panic DivZero /\ tdiv_assign_s t s = Panic DivZero).
Proof. intros A FL t s. exact (tdiv_spec_lemma FL t s). Qed.
Check tridiag_div_scalar : forall (A : Arith) (FL : FieldLaws A) (t : tridiag A) (s : A), wfT t ->
  (s <> zero ->
     exists c, tdiv t s = Ok c /\ tdiv_assign_s t s = Ok c /\ wfT c /\ tn c = tn t /\
               forall i j, dense c i j = (dense t i j * fl_inv A FL s)%A) /\
  (s = zero -> 1 <= tn t -> tdiv t s = Panic DivZero /\ tdiv_assign_s t s = Panic DivZero).
Print Assumptions tridiag_div_scalar.
Example tridiag_div_scalar_nonvacuous : wfT ex3 /\ q 3 2 <> (zero : AQ) /\ 1 <= tn ex3.
Proof. unfold wfT; cbn [tn tmain tsub tsup ex3 length]. repeat split; auto. discriminate. Qed.

(* ---- constructors: well-shaped diagonals are stored as given; ill-shaped ones are refused ---- *)
Theorem tridiag_constructors : forall (A : Arith) (sub main sup : list A) (a b c : A) (n : nat),
  (1 <= length main -> length sub = length main - 1 -> length sup = length main - 1 ->
     exists t, with_vecs sub main sup = Ok t /\ wfT t /\ tn t = length main /\
               tsub t = sub /\ tmain t = main /\ tsup t = sup) /\
  (1 <= length main -> (length sub <> length main - 1 \/ length sup <> length main - 1) ->
     with_vecs sub main sup = Panic Guard) /\
  (1 <= n -> exists t, with_elements a b c n = Ok t /\ wfT t /\ tn t = n /\
     forall i j, i < n -> j < n -> dense t i j =
       if i =? j then b else if i =? j + 1 then a else if i + 1 =? j then c else zero).
Proof. intros A sub main sup a b c n. exact (tridiag_constructors_lemma sub main sup a b c n). Qed.
Check tridiag_constructors : forall (A : Arith) (sub main sup : list A) (a b c : A) (n : nat),
  (1 <= length main -> length sub = length main - 1 -> length sup = length main - 1 ->
     exists t, with_vecs sub main sup = Ok t /\ wfT t /\ tn t = length main /\
               tsub t = sub /\ tmain t = main /\ tsup t = sup) /\
  (1 <= length main -> (length sub <> length main - 1 \/ length sup <> length main - 1) ->
     with_vecs sub main sup = Panic Guard) /\
  (1 <= n -> exists t, with_elements a b c n = Ok t /\ wfT t /\ tn t = n /\
     forall i j, i < n -> j < n -> dense t i j =
       if i =? j then b else if i =? j + 1 then a else if i + 1 =? j then c else zero).
Print Assumptions tridiag_constructors.
Example tridiag_constructors_nonvacuous :
  1 <= length (tmain ex3) /\ length (tsub ex3) = length (tmain ex3) - 1 /\ length (tsup ex3) = length (tmain ex3) - 1.
Proof. cbn. auto. Qed.

(* ---- det: the three-term continuant recurrence, for every n >= 1 and ANY arithmetic (floats included) ----
   tdet t is the continuant K n of the three diagonals, K being pinned by its defining equations below.
   (K n = \det of the dense twin over every field is [tridiag_det_is_det] at the end of this file.) *)
Theorem tridiag_det_is_continuant : forall (A : Arith) (t : tridiag A), wfT t -> 1 <= tn t ->
  tdet t = Ok (continuant t (tn t)) /\
  continuant t 0 = one /\
  continuant t 1 = (nth 0 (tmain t) zero * one)%A /\
  forall k, continuant t (S (S k)) =
    (nth (S k) (tmain t) zero * continuant t (S k) - nth k (tsub t) zero * nth k (tsup t) zero * continuant t k)%A.
Proof. intros A t. exact (tdet_continuant_lemma t). Qed.
Check tridiag_det_is_continuant : forall (A : Arith) (t : tridiag A), wfT t -> 1 <= tn t ->
  tdet t = Ok (continuant t (tn t)) /\
  continuant t 0 = one /\
  continuant t 1 = (nth 0 (tmain t) zero * one)%A /\
  forall k, continuant t (S (S k)) =
    (nth (S k) (tmain t) zero * continuant t (S k) - nth k (tsub t) zero * nth k (tsup t) zero * continuant t k)%A.
Print Assumptions tridiag_det_is_continuant.
Example tridiag_det_is_continuant_nonvacuous :      (* also at the float instance: no algebraic law is assumed *)
  wfT ex3 /\ 1 <= tn ex3 /\ wfT (@mkT AF [1%float] [2%float; 3%float] [4%float] 2) /\ 1 <= 2.
Proof. unfold wfT; cbn; repeat split; auto. Qed.

(* over an exact field, det is the product of the Thomas pivots whenever elimination meets no zero pivot
   (so det and solve describe one and the same elimination) *)
Theorem tridiag_det_pivot_product : forall (A : Arith), FieldLaws A -> forall (t : tridiag A),
  wfT t -> 1 <= tn t ->
  (forall k, k < tn t -> exists p, thomas_pivot t k = Ok p /\ p <> zero) ->
  tdet t = Ok (prod_n (tn t) (fun k => match thomas_pivot t k with Ok p => p | Panic _ => zero end)).
Proof. intros A FL t. exact (tdet_pivots_lemma FL t). Qed.
Check tridiag_det_pivot_product : forall (A : Arith), FieldLaws A -> forall (t : tridiag A),
  wfT t -> 1 <= tn t ->
  (forall k, k < tn t -> exists p, thomas_pivot t k = Ok p /\ p <> zero) ->
  tdet t = Ok (prod_n (tn t) (fun k => match thomas_pivot t k with Ok p => p | Panic _ => zero end)).
Print Assumptions tridiag_det_pivot_product.
Example tridiag_det_pivot_product_nonvacuous :
  wfT ex3 /\ 1 <= tn ex3 /\
  forallb (fun k => match thomas_pivot ex3 k with Ok p => negb (Qc_eqb p (q 0 1)) | Panic _ => false end) (seq 0 (tn ex3)) = true.
Proof. unfold wfT; cbn [tn tmain tsub tsup ex3 length]. repeat split; auto. Qed.

(* ---- det is the determinant of the dense twin (mathcomp's \det), for every n >= 1, over every field ----
   [ArithOfField abs ltb leb] is the Arith whose carrier, 0, 1, +, -, *, / and == are those of the mathcomp
   fieldType F (abs/ltb/leb are unused by det and arbitrary); [dense_mx t] is the n x n mathcomp matrix
   \matrix_(i, j) dense t i j.  Proof: tdet = continuant (above) and continuant = \det by Laplace expansion
   along the last row and then along the last column of the remaining minor (Proofs/TridiagBridge.v). *)
From mathcomp Require ssreflect.ssrnat algebra.ssralg algebra.matrix algebra.rat.
From OV Require Import Proofs.TridiagBridge.
Theorem tridiag_det_is_det : forall (F : ssralg.GRing.Field.type) (abs' : ssralg.GRing.Field.sort F -> ssralg.GRing.Field.sort F)
  (ltb' leb' : ssralg.GRing.Field.sort F -> ssralg.GRing.Field.sort F -> bool)
  (t : tridiag (ArithOfField abs' ltb' leb')), wfT t -> 1 <= tn t ->
  tdet t = Ok (@matrix.determinant (ssralg.GRing.Field.ringType F) (tn t) (dense_mx t)).
Proof. intros F abs' ltb' leb' t. exact (tdet_is_det_lemma (t := t)). Qed.
Check tridiag_det_is_det : forall (F : ssralg.GRing.Field.type) (abs' : ssralg.GRing.Field.sort F -> ssralg.GRing.Field.sort F)
  (ltb' leb' : ssralg.GRing.Field.sort F -> ssralg.GRing.Field.sort F -> bool)
  (t : tridiag (ArithOfField abs' ltb' leb')), wfT t -> 1 <= tn t ->
  tdet t = Ok (@matrix.determinant (ssralg.GRing.Field.ringType F) (tn t) (dense_mx t)).
Print Assumptions tridiag_det_is_det.
(* an instance: mathcomp's rationals, the matrix [[2,1],[1,1]] *)
Example tridiag_det_is_det_nonvacuous :
  let F := rat.rat_fieldType in
  let one' := @ssralg.GRing.one (ssralg.GRing.Field.ringType F) in
  let A' := ArithOfField (F := F) (fun x => x) (fun _ _ => false) (fun _ _ => false) in
  let t := @mkT A' [one'] [@ssralg.GRing.add (ssralg.GRing.Field.zmodType F) one' one'; one'] [one'] 2 in
  wfT t /\ 1 <= tn t.
Proof. cbv zeta. unfold wfT. cbn [tn tmain tsub tsup length]. repeat split; auto. Qed.

(* ---- over the reals: a strictly (row) diagonally dominant system is never refused ----
   [AR_c05] is the Arith of Coq's real numbers (division by 0 = Panic DivZero, == decided by Req_EM_T);
   [dominant t] : for every row i < n,  |main[i]| > |sub[i-1]| + |sup[i]|  (a missing neighbour counts 0).
   Every pivot then satisfies |beta_k| > |sup[k]| >= 0.  This is the exact-arithmetic half of what the
   property says about diagonally dominant f64 systems; rounding (backward stability) is not proved. *)
From Coq Require Import Reals Lra.
From OV Require Import Proofs.TridiagDominant.
Theorem thomas_dominant_never_refuses : forall (t : tridiag AR_c05) (r : list AR_c05),
  wfT t -> dominant t -> (1 <= tn t)%nat -> length r = tn t ->
  exists u, tsolve t r = Ok u /\ length u = tn t /\
    forall i, (i < tn t)%nat -> sum_n (tn t) (fun j => (dense t i j * nth j u zero)%A) = nth i r zero.
Proof. intros t r W D. exact (dominant_solved_lemma t W D r). Qed.
Check thomas_dominant_never_refuses : forall (t : tridiag AR_c05) (r : list AR_c05),
  wfT t -> dominant t -> (1 <= tn t)%nat -> length r = tn t ->
  exists u, tsolve t r = Ok u /\ length u = tn t /\
    forall i, (i < tn t)%nat -> sum_n (tn t) (fun j => (dense t i j * nth j u zero)%A) = nth i r zero.
Print Assumptions thomas_dominant_never_refuses.
Print Assumptions tridiag_views.   (* separator: a closed theorem ends the axiom list above for the driver's output parser *)
(* [[4,1,0],[1,-4,2],[0,-1,3]] is dominant *)
Example thomas_dominant_nonvacuous :
  let t := @mkT AR_c05 [1%R; (-1)%R] [4%R; (-4)%R; 3%R] [1%R; 2%R] 3 in
  wfT t /\ dominant t /\ (1 <= tn t)%nat.
Proof.
  cbv zeta. split; [unfold wfT; cbn; auto|]. split; [|cbn; auto].
  intros i Hi. cbn [tn] in Hi.
  destruct i as [|[|[|i]]]; [| | |exfalso; apply (Nat.lt_irrefl 3); apply (Nat.le_lt_trans _ (S (S (S i)))); [apply le_n_S, le_n_S, le_n_S, Nat.le_0_l|exact Hi]];
    cbn [nth tmain tsub tsup]; unfold Rabs; repeat destruct Rcase_abs; lra.
Qed.

(* ---- what solve computes over ANY arithmetic (no law assumed; the IEEE float instances included) ----
   [fwd_rel t r n bl gl yl] (Proofs/TridiagTrace.v) says, with the arithmetic's own operations in the code's association:
     bl_0 = main_0, bl_0 /= 0, yl_0 = r_0 / bl_0, and for 1 <= k < n:
     gl_k = sup_{k-1} / bl_{k-1},  bl_k = main_k - sub_{k-1} * gl_k,  bl_k /= 0,  yl_k = (r_k - sub_{k-1} * yl_{k-1}) / bl_k *)
From OV Require Import Proofs.TridiagTrace Proofs.TridiagRound.
Theorem thomas_trace : forall (A : Arith) (t : tridiag A) (r u : list A),
  wfT t -> (1 <= tn t)%nat -> length r = tn t -> tsolve t r = Ok u ->
  exists bl gl yl : list A,
    length u = tn t /\ length bl = tn t /\ length gl = tn t /\ length yl = tn t /\
    fwd_rel t r (tn t) bl gl yl /\
    nth (tn t - 1) u zero = nth (tn t - 1) yl zero /\
    (forall i, (i + 1 < tn t)%nat -> nth i u zero = (nth i yl zero - nth (i + 1) gl zero * nth (i + 1) u zero)%A).
Proof. intros A t r u W Hn Hr. exact (thomas_trace_lemma t r W Hn Hr u). Qed.
Check thomas_trace : forall (A : Arith) (t : tridiag A) (r u : list A),
  wfT t -> (1 <= tn t)%nat -> length r = tn t -> tsolve t r = Ok u ->
  exists bl gl yl : list A,
    length u = tn t /\ length bl = tn t /\ length gl = tn t /\ length yl = tn t /\
    fwd_rel t r (tn t) bl gl yl /\
    nth (tn t - 1) u zero = nth (tn t - 1) yl zero /\
    (forall i, (i + 1 < tn t)%nat -> nth i u zero = (nth i yl zero - nth (i + 1) gl zero * nth (i + 1) u zero)%A).
Print Assumptions thomas_trace.
Example thomas_trace_nonvacuous :       (* a float system that is solved *)
  let t := @mkT AF [1%float] [4%float; 3%float] [2%float] 2 in
  wfT t /\ (1 <= tn t)%nat /\ length [1%float; 2%float] = tn t /\ is_ok (tsolve t [1%float; 2%float]) = true.
Proof. cbv zeta. unfold wfT. cbn [tn tmain tsub tsup length]. repeat split; auto. Qed.

(* ---- backward error of solve in the STANDARD MODEL of floating-point arithmetic ----
   The operations are arbitrary functions on the reals that commit a relative error of at most u <= 1/64 per operation
   (no underflow/overflow): this is the textbook abstraction of binary64 (u = 2^-53), NOT the IEEE instance AF that the
   correspondence check runs -- but it is the same Gallina function [tsolve], instantiated at [ARnd fadd fsub fmul fdiv].
   Whenever solve answers, the computed x solves a nearby tridiagonal system exactly, row by row (missing neighbours
   are the padding zeros of 0 :: sub, 0 :: x and of nth's default); [gl] are the computed multipliers gamma_i.
   For a diagonally dominant matrix |gamma_i| is about <= 1, so that the perturbation is of order u |T|: the
   backward stability the property claims for diagonally dominant f64 systems, in the form of Higham (sec. 9.6).
   Not proved: the bound |gamma_i| <= 1 + O(u) under dominance, and the absence of underflow/overflow. *)
Theorem thomas_backward_error : forall (u : R), (0 <= u <= 1 / 64)%R ->
  forall (fadd fsub fmul fdiv : R -> R -> R),
  (forall x y, exists d, (Rabs d <= u)%R /\ fsub x y = ((x - y) * (1 + d))%R) ->
  (forall x y, exists d, (Rabs d <= u)%R /\ fmul x y = (x * y * (1 + d))%R) ->
  (forall x y, y <> 0%R -> exists d, (Rabs d <= u)%R /\ fdiv x y = (x / y * (1 + d))%R) ->
  forall (t : tridiag (ARnd fadd fsub fmul fdiv)) (r x : list R),
  wfT t -> (1 <= tn t)%nat -> length r = tn t -> tsolve t r = Ok x ->
  length x = tn t /\
  exists gl : list R, length gl = tn t /\
  forall i, (i < tn t)%nat -> exists ea eb ec eg,
    (Rabs ea <= 3 * u /\ Rabs eb <= 5 * u /\ Rabs ec <= 5 * u /\ Rabs eg <= 9 * u /\
     nth i (0 :: tsub t) 0 * (1 + ea) * nth i (0 :: x) 0
     + (nth i (tmain t) 0 * (1 + eb) + nth i (0 :: tsub t) 0 * nth i gl 0 * eg) * nth i x 0
     + nth i (tsup t) 0 * (1 + ec) * nth (i + 1) x 0 = nth i r 0)%R.
Proof. intros u Hu fadd fsub fmul fdiv Hs Hm Hd t r x. exact (thomas_backward_error_lemma u Hu fadd fsub fmul fdiv Hs Hm Hd t r x). Qed.
Check thomas_backward_error : forall (u : R), (0 <= u <= 1 / 64)%R ->
  forall (fadd fsub fmul fdiv : R -> R -> R),
  (forall x y, exists d, (Rabs d <= u)%R /\ fsub x y = ((x - y) * (1 + d))%R) ->
  (forall x y, exists d, (Rabs d <= u)%R /\ fmul x y = (x * y * (1 + d))%R) ->
  (forall x y, y <> 0%R -> exists d, (Rabs d <= u)%R /\ fdiv x y = (x / y * (1 + d))%R) ->
  forall (t : tridiag (ARnd fadd fsub fmul fdiv)) (r x : list R),
  wfT t -> (1 <= tn t)%nat -> length r = tn t -> tsolve t r = Ok x ->
  length x = tn t /\
  exists gl : list R, length gl = tn t /\
  forall i, (i < tn t)%nat -> exists ea eb ec eg,
    (Rabs ea <= 3 * u /\ Rabs eb <= 5 * u /\ Rabs ec <= 5 * u /\ Rabs eg <= 9 * u /\
     nth i (0 :: tsub t) 0 * (1 + ea) * nth i (0 :: x) 0
     + (nth i (tmain t) 0 * (1 + eb) + nth i (0 :: tsub t) 0 * nth i gl 0 * eg) * nth i x 0
     + nth i (tsup t) 0 * (1 + ec) * nth (i + 1) x 0 = nth i r 0)%R.
Print Assumptions thomas_backward_error.
Print Assumptions tridiag_views.   (* separator, as above *)
(* the hypotheses are met by operations that do commit errors (u = 1/64: subtraction rounds up by 1/64, multiplication
   down by 1/128, division is exact), and solve answers on a 1x1 system with them *)
Example thomas_backward_error_nonvacuous :
  let u := (1 / 64)%R in
  let fsub := fun x y => ((x - y) * (1 + 1 / 64))%R in
  let fmul := fun x y => (x * y * (1 + - (1 / 128)))%R in
  let fdiv := fun x y => (x / y)%R in
  (0 <= u <= 1 / 64)%R /\
  (forall x y, exists d, (Rabs d <= u)%R /\ fsub x y = ((x - y) * (1 + d))%R) /\
  (forall x y, exists d, (Rabs d <= u)%R /\ fmul x y = (x * y * (1 + d))%R) /\
  (forall x y, y <> 0%R -> exists d, (Rabs d <= u)%R /\ fdiv x y = (x / y * (1 + d))%R) /\
  let t := @mkT (ARnd Rplus fsub fmul fdiv) [] [2%R] [] 1 in
  wfT t /\ (1 <= tn t)%nat /\ length [1%R] = tn t /\ tsolve t [1%R] = Ok [fdiv 1%R 2%R].
Proof.
  cbv zeta. split; [lra|]. split; [|split; [|split]].
  - intros x y. exists (1 / 64)%R. split; [|reflexivity]. unfold Rabs. destruct Rcase_abs; lra.
  - intros x y. exists (- (1 / 128))%R. split; [|reflexivity]. unfold Rabs. destruct Rcase_abs; lra.
  - intros x y _. exists 0%R. split; [|ring]. rewrite Rabs_R0. lra.
  - unfold wfT. cbn [tn tmain tsub tsup length]. repeat split; auto.
    unfold tsolve. cbn. destruct (Req_EM_T 2 0); [lra|reflexivity].
Qed.

(* ---- backward stability for diagonally dominant systems, standard model of floating-point arithmetic ----
   [dominant_u u t] : for every row  main_i /= 0  and  (|sub_{i-1}| + |sup_i|)(1+u) <= |main_i|(1-u)
   (row dominance with the margin that rounding needs).  Then every computed multiplier has |gamma_i| <= 1 and the
   computed x solves (T + dT) x = r exactly with  |dT| <= u * (3|a_i|, 5|b_i| + 9|a_i|, 5|c_i|)  entrywise:
   Thomas solve is componentwise backward stable on diagonally dominant systems -- in the standard model
   (relative error u per operation, no underflow/overflow), which is what the property's f64 clause abstracts to. *)
Theorem thomas_dominant_backward_stable : forall (u : R), (0 <= u <= 1 / 64)%R ->
  forall (fadd fsub fmul fdiv : R -> R -> R),
  (forall x y, exists d, (Rabs d <= u)%R /\ fsub x y = ((x - y) * (1 + d))%R) ->
  (forall x y, exists d, (Rabs d <= u)%R /\ fmul x y = (x * y * (1 + d))%R) ->
  (forall x y, y <> 0%R -> exists d, (Rabs d <= u)%R /\ fdiv x y = (x / y * (1 + d))%R) ->
  forall (t : tridiag (ARnd fadd fsub fmul fdiv)) (r x : list R),
  wfT t -> (1 <= tn t)%nat -> length r = tn t -> dominant_u u fadd fsub fmul fdiv t -> tsolve t r = Ok x ->
  length x = tn t /\
  forall i, (i < tn t)%nat -> exists da db dc,
    (Rabs da <= 3 * u * Rabs (nth i (0 :: tsub t) 0) /\
     Rabs db <= 5 * u * Rabs (nth i (tmain t) 0) + 9 * u * Rabs (nth i (0 :: tsub t) 0) /\
     Rabs dc <= 5 * u * Rabs (nth i (tsup t) 0) /\
     (nth i (0 :: tsub t) 0 + da) * nth i (0 :: x) 0 + (nth i (tmain t) 0 + db) * nth i x 0
     + (nth i (tsup t) 0 + dc) * nth (i + 1) x 0 = nth i r 0)%R.
Proof. intros u Hu fadd fsub fmul fdiv Hs Hm Hd t r x. exact (thomas_dominant_backward_stable_lemma u Hu fadd fsub fmul fdiv Hs Hm Hd t r x). Qed.
Check thomas_dominant_backward_stable : forall (u : R), (0 <= u <= 1 / 64)%R ->
  forall (fadd fsub fmul fdiv : R -> R -> R),
  (forall x y, exists d, (Rabs d <= u)%R /\ fsub x y = ((x - y) * (1 + d))%R) ->
  (forall x y, exists d, (Rabs d <= u)%R /\ fmul x y = (x * y * (1 + d))%R) ->
  (forall x y, y <> 0%R -> exists d, (Rabs d <= u)%R /\ fdiv x y = (x / y * (1 + d))%R) ->
  forall (t : tridiag (ARnd fadd fsub fmul fdiv)) (r x : list R),
  wfT t -> (1 <= tn t)%nat -> length r = tn t -> dominant_u u fadd fsub fmul fdiv t -> tsolve t r = Ok x ->
  length x = tn t /\
  forall i, (i < tn t)%nat -> exists da db dc,
    (Rabs da <= 3 * u * Rabs (nth i (0 :: tsub t) 0) /\
     Rabs db <= 5 * u * Rabs (nth i (tmain t) 0) + 9 * u * Rabs (nth i (0 :: tsub t) 0) /\
     Rabs dc <= 5 * u * Rabs (nth i (tsup t) 0) /\
     (nth i (0 :: tsub t) 0 + da) * nth i (0 :: x) 0 + (nth i (tmain t) 0 + db) * nth i x 0
     + (nth i (tsup t) 0 + dc) * nth (i + 1) x 0 = nth i r 0)%R.
Print Assumptions thomas_dominant_backward_stable.
Print Assumptions tridiag_views.   (* separator, as above *)
(* with the error-committing operations of the previous example, the 2x2 system [[4,1],[1,4]] x = [1,2] is dominant with
   the margin and is solved *)
Example thomas_dominant_backward_stable_nonvacuous :
  let u := (1 / 64)%R in
  let fsub := fun x y => ((x - y) * (1 + 1 / 64))%R in
  let fmul := fun x y => (x * y * (1 + - (1 / 128)))%R in
  let fdiv := fun x y => (x / y)%R in
  let t := @mkT (ARnd Rplus fsub fmul fdiv) [1%R] [4%R; 4%R] [1%R] 2 in
  wfT t /\ (1 <= tn t)%nat /\ length [1%R; 2%R] = tn t /\ dominant_u u Rplus fsub fmul fdiv t /\
  exists x, tsolve t [1%R; 2%R] = Ok x.
Proof.
  cbv zeta. split; [unfold wfT; cbn; auto|]. split; [cbn; auto|]. split; [reflexivity|]. split.
  - intros i Hi. cbn [tn] in Hi.
    destruct i as [|[|i]]; [| |exfalso; apply (Nat.lt_irrefl 2); apply (Nat.le_lt_trans _ (S (S i))); [apply le_n_S, le_n_S, Nat.le_0_l|exact Hi]];
      cbn [nth tmain tsub tsup]; (split; [lra|]); unfold Rabs; repeat destruct Rcase_abs; lra.
  - unfold tsolve. cbn. destruct (Req_EM_T 4 0) as [E|_]; [lra|].
    match goal with |- context [Req_EM_T ?b 0] => destruct (Req_EM_T b 0) as [E|_] end.
    + exfalso. lra.
    + eexists. reflexivity.
Qed.

(* ---- ... and such a system is never refused: strict dominance with the margin, standard model ----
   [dominant_su u t] : (|sub_{i-1}| + |sup_i|)(1+u) < |main_i|(1-u) for every row.  Then solve answers (no pivot,
   as computed with rounding, can vanish) and the answer is backward stable as above. *)
Theorem thomas_dominant_solved_and_stable : forall (u : R), (0 <= u <= 1 / 64)%R ->
  forall (fadd fsub fmul fdiv : R -> R -> R),
  (forall x y, exists d, (Rabs d <= u)%R /\ fsub x y = ((x - y) * (1 + d))%R) ->
  (forall x y, exists d, (Rabs d <= u)%R /\ fmul x y = (x * y * (1 + d))%R) ->
  (forall x y, y <> 0%R -> exists d, (Rabs d <= u)%R /\ fdiv x y = (x / y * (1 + d))%R) ->
  forall (t : tridiag (ARnd fadd fsub fmul fdiv)) (r : list R),
  wfT t -> (1 <= tn t)%nat -> length r = tn t -> dominant_su u fadd fsub fmul fdiv t ->
  exists x, tsolve t r = Ok x /\ length x = tn t /\
  forall i, (i < tn t)%nat -> exists da db dc,
    (Rabs da <= 3 * u * Rabs (nth i (0 :: tsub t) 0) /\
     Rabs db <= 5 * u * Rabs (nth i (tmain t) 0) + 9 * u * Rabs (nth i (0 :: tsub t) 0) /\
     Rabs dc <= 5 * u * Rabs (nth i (tsup t) 0) /\
     (nth i (0 :: tsub t) 0 + da) * nth i (0 :: x) 0 + (nth i (tmain t) 0 + db) * nth i x 0
     + (nth i (tsup t) 0 + dc) * nth (i + 1) x 0 = nth i r 0)%R.
Proof. intros u Hu fadd fsub fmul fdiv Hs Hm Hd t r. exact (thomas_dominant_solved_and_stable_lemma u Hu fadd fsub fmul fdiv Hs Hm Hd t r). Qed.
Check thomas_dominant_solved_and_stable : forall (u : R), (0 <= u <= 1 / 64)%R ->
  forall (fadd fsub fmul fdiv : R -> R -> R),
  (forall x y, exists d, (Rabs d <= u)%R /\ fsub x y = ((x - y) * (1 + d))%R) ->
  (forall x y, exists d, (Rabs d <= u)%R /\ fmul x y = (x * y * (1 + d))%R) ->
  (forall x y, y <> 0%R -> exists d, (Rabs d <= u)%R /\ fdiv x y = (x / y * (1 + d))%R) ->
  forall (t : tridiag (ARnd fadd fsub fmul fdiv)) (r : list R),
  wfT t -> (1 <= tn t)%nat -> length r = tn t -> dominant_su u fadd fsub fmul fdiv t ->
  exists x, tsolve t r = Ok x /\ length x = tn t /\
  forall i, (i < tn t)%nat -> exists da db dc,
    (Rabs da <= 3 * u * Rabs (nth i (0 :: tsub t) 0) /\
     Rabs db <= 5 * u * Rabs (nth i (tmain t) 0) + 9 * u * Rabs (nth i (0 :: tsub t) 0) /\
     Rabs dc <= 5 * u * Rabs (nth i (tsup t) 0) /\
     (nth i (0 :: tsub t) 0 + da) * nth i (0 :: x) 0 + (nth i (tmain t) 0 + db) * nth i x 0
     + (nth i (tsup t) 0 + dc) * nth (i + 1) x 0 = nth i r 0)%R.
Print Assumptions thomas_dominant_solved_and_stable.
Print Assumptions tridiag_views.   (* separator, as above *)
Example thomas_dominant_solved_and_stable_nonvacuous :    (* the 2x2 system of the previous example is strictly dominant with the margin *)
  let u := (1 / 64)%R in
  let fsub := fun x y => ((x - y) * (1 + 1 / 64))%R in
  let fmul := fun x y => (x * y * (1 + - (1 / 128)))%R in
  let fdiv := fun x y => (x / y)%R in
  let t := @mkT (ARnd Rplus fsub fmul fdiv) [1%R] [4%R; 4%R] [1%R] 2 in
  wfT t /\ (1 <= tn t)%nat /\ length [1%R; 2%R] = tn t /\ dominant_su u Rplus fsub fmul fdiv t.
Proof.
  cbv zeta. split; [unfold wfT; cbn; auto|]. split; [cbn; auto|]. split; [reflexivity|].
  intros i Hi. cbn [tn] in Hi.
  destruct i as [|[|i]]; [| |exfalso; apply (Nat.lt_irrefl 2); apply (Nat.le_lt_trans _ (S (S i))); [apply le_n_S, le_n_S, Nat.le_0_l|exact Hi]];
    cbn [nth tmain tsub tsup]; unfold Rabs; repeat destruct Rcase_abs; lra.
Qed.

(* ---- tie to the source by proof (package r2c): the functions regenerated from /repo/src on this run by the Rust-subset ->
   Gallina translator (driver/rust2coq.py -> gen/Src*.v) are equal, for all arguments, to the hand-written model functions
   the theorems above are about (Proofs/SrcEq*.v).  A change of a loop bound, index, operator or statement order in the
   source breaks the corresponding src_<function> lemma and with it this obligation. *)
From OV Require Proofs.SrcEqTridiag.
Theorem model_is_source_C05_Tridiag : forall A : Arith, @SrcEqTridiag.model_is_source_Tridiag A.
Proof. intros A. exact SrcEqTridiag.model_is_source_Tridiag_lemma. Qed.
Check model_is_source_C05_Tridiag : forall A : Arith, @SrcEqTridiag.model_is_source_Tridiag A.
Print Assumptions model_is_source_C05_Tridiag.
(* ---- tie of the model to the source of this run (package r2c2): gen/SrcWrapTridiag.v is regenerated on every check run from
   src/tridiagonal.rs: empty, size, the three diagonal accessors, Clone, the consuming matrix * vector;
   Proofs/SrcEqWrapTridiag.v proves each regenerated function equal to its hand-written model. *)
From OV Require Proofs.SrcEqWrapTridiag.
Theorem model_is_source_C05_WrapTridiag : forall A : Arith, @SrcEqWrapTridiag.model_is_source_WrapTridiag A.
Proof. intros A. exact SrcEqWrapTridiag.model_is_source_WrapTridiag_lemma. Qed.
Check model_is_source_C05_WrapTridiag : forall A : Arith, @SrcEqWrapTridiag.model_is_source_WrapTridiag A.
Print Assumptions model_is_source_C05_WrapTridiag.

(* Proofs/Round2PinThomas.v -- package round2, pin blocks for C05 (append to Props/C05.v).  Compiled copy of the blocks,
   in the scope context of Props/C05.v (nat_scope open, Reals imported, R_scope not open).
   ======================================================================================================
   C05 (tridiagonal solve), rounding half AT BINARY64 -- package round2.
   Proofs/TridiagRound.v (round one) proves the componentwise backward error of Thomas solve in the STANDARD MODEL of
   rounding.  The theorems below are about [tsolve (A := AF) t r] itself -- the primitive-float instance the
   correspondence check runs bit-exactly against the Rust code -- through Flocq's specification of the primitive
   operations; u64 = 2^-53, eta64 = 2^-1075, FR = real value of a float, ffinite = "is a finite float".
   Trace functions (float expressions in the data, Proofs/Round2Thomas.v):
     tbeta t k    the pivots        beta_0 = main_0,  beta_k = main_k - sub_(k-1) * gamma_k
     tgamma t k   the multipliers   gamma_k = sup_(k-1) / beta_(k-1)            (gamma_0 = 0)
     tnum t r k   the numerators    num_0 = r_0,  num_k = r_k - sub_(k-1) * y_(k-1)
     ty t r k     the forward sweep y_k = num_k / beta_k
   no_underflow v  :=  v = 0 \/ 2^-1022 <= |v|   (the exact product/quotient is not in the subnormal range).
   Ladder of results (every one for EVERY size n):
     thomas_backward_error_float             finite answer + finite pivots + no subnormal product/quotient -> exact row-wise
                                             perturbed system (3u,5u,5u,9u), any matrix
     thomas_dominant_backward_stable_float   the same for dominant matrices: |dT| <= (3u|a|, 5u|b|+9u|a|, 5u|c|)
     thomas_dominant_float_partial           dominant + entries scaled (|b|<=2^300, off-diagonals 0 or >=2^-300): never refused for
                                             ANY right-hand side; pivot/multiplier conditions discharged from the data
     thomas_backward_error_float_uf          gradual underflow allowed in the right-hand-side part: residual r_i + dr_i,
                                             |dr_i| <= 2^-1075 (1 + 2|a_i| + 3|beta_i|)
     thomas_dominant_float_uf_partial        dominant + scaled: finite answer -> backward stable up to |dr_i| <= 2^-1075 (1 + 11|b_i|)
     thomas_dominant_float_residual          the same conclusion as a row-wise residual bound (the quantity the oracle measures)
     thomas_dominant_float                   hypotheses ON THE DATA ONLY (entries finite, 2^-300 <= |b_i| <= 2^300, off-diagonals 0 or
                                             >= 2^-300, |r_i| <= 2^300, 2(|a_i|+|c_i|) <= |b_i|): solved, every x_i finite, backward stable
                                             up to 2^-1075 (1 + 11|b_i|) per row -- no overflow anywhere, underflow accounted for
   Unproved remainder: underflow in the MATRIX part (pivots/multipliers) is excluded (by hypothesis or by the scaling bounds), not
   analysed; for merely dominant systems (margin (1+u)/(1-u) instead of the factor 2) finiteness of the answer is a hypothesis.
   ====================================================================================================== *)
From Coq Require Import List Arith Bool ZArith QArith Qcanon Floats.
Local Open Scope nat_scope.
From OV Require Import Base.Panic Base.Arith Model.Vector Model.Matrix Model.Tridiag Inst.QcInst Inst.FloatInst Proofs.Tridiag Proofs.TridiagSolve Proofs.TridiagDet Proofs.TridiagTotal.
Import ListNotations.
From Coq Require Import Reals Lra.
From OV Require Import Proofs.TridiagTrace Proofs.TridiagRound.
(* ---- the blocks start here ---- *)
From Flocq Require Import Core.
From OV Require Import Proofs.ComplexRound Proofs.RoundDotFloat Proofs.Round2Thomas Proofs.Round2ThomasB.

(* Thomas solve at binary64, componentwise backward error: whenever solve answers x, every x_i and every pivot is finite and
   no product/quotient of the two sweeps is subnormal, the real values of x solve a nearby tridiagonal system EXACTLY, row by
   row:  a_i (1+ea) x_(i-1) + ( b_i (1+eb) + a_i gamma_i eg ) x_i + c_i (1+ec) x_(i+1) = r_i ,
   |ea| <= 3u, |eb| <= 5u, |ec| <= 5u, |eg| <= 9u, u = 2^-53.  A finite answer alone does not suffice (see
   thomas_finite_answer_hides_overflow_example below): the pivots must be finite. *)
Theorem thomas_backward_error_float : forall (t : tridiag AF) (r x : list pfloat),
  wfT t -> (1 <= tn t)%nat -> length r = tn t -> tsolve (A := AF) t r = Ok x ->
  (forall i, (i < tn t)%nat -> ffinite (nth i x 0%float)) ->
  (forall k, (k < tn t)%nat -> ffinite (tbeta t k)) ->
  (forall k, (k + 1 < tn t)%nat ->
     no_underflow (FR (nth k (tsup t) 0%float) / FR (tbeta t k))%R /\
     no_underflow (FR (nth k (tsub t) 0%float) * FR (tgamma t (k + 1)))%R) ->
  ((forall k, (k < tn t)%nat -> no_underflow (FR (tnum t r k) / FR (tbeta t k))%R) /\
  (forall k, (k + 1 < tn t)%nat ->
     no_underflow (FR (nth k (tsub t) 0%float) * FR (ty t r k))%R /\
     no_underflow (FR (tgamma t (k + 1)) * FR (nth (k + 1) x 0%float))%R)) ->
  length x = tn t /\
  forall i, (i < tn t)%nat -> exists ea eb ec eg : R,
    (Rabs ea <= 3 * u64 /\ Rabs eb <= 5 * u64 /\ Rabs ec <= 5 * u64 /\ Rabs eg <= 9 * u64 /\
     FR (nth i (0%float :: tsub t) 0%float) * (1 + ea) * FR (nth i (0%float :: x) 0%float)
     + (FR (nth i (tmain t) 0%float) * (1 + eb)
        + FR (nth i (0%float :: tsub t) 0%float) * FR (tgamma t i) * eg) * FR (nth i x 0%float)
     + FR (nth i (tsup t) 0%float) * (1 + ec) * FR (nth (i + 1) x 0%float) = FR (nth i r 0%float))%R.
Proof. intros t r x. exact (thomas_backward_error_float_lemma t r x). Qed.
Check thomas_backward_error_float : forall (t : tridiag AF) (r x : list pfloat),
  wfT t -> (1 <= tn t)%nat -> length r = tn t -> tsolve (A := AF) t r = Ok x ->
  (forall i, (i < tn t)%nat -> ffinite (nth i x 0%float)) ->
  (forall k, (k < tn t)%nat -> ffinite (tbeta t k)) ->
  (forall k, (k + 1 < tn t)%nat ->
     no_underflow (FR (nth k (tsup t) 0%float) / FR (tbeta t k))%R /\
     no_underflow (FR (nth k (tsub t) 0%float) * FR (tgamma t (k + 1)))%R) ->
  ((forall k, (k < tn t)%nat -> no_underflow (FR (tnum t r k) / FR (tbeta t k))%R) /\
  (forall k, (k + 1 < tn t)%nat ->
     no_underflow (FR (nth k (tsub t) 0%float) * FR (ty t r k))%R /\
     no_underflow (FR (tgamma t (k + 1)) * FR (nth (k + 1) x 0%float))%R)) ->
  length x = tn t /\
  forall i, (i < tn t)%nat -> exists ea eb ec eg : R,
    (Rabs ea <= 3 * u64 /\ Rabs eb <= 5 * u64 /\ Rabs ec <= 5 * u64 /\ Rabs eg <= 9 * u64 /\
     FR (nth i (0%float :: tsub t) 0%float) * (1 + ea) * FR (nth i (0%float :: x) 0%float)
     + (FR (nth i (tmain t) 0%float) * (1 + eb)
        + FR (nth i (0%float :: tsub t) 0%float) * FR (tgamma t i) * eg) * FR (nth i x 0%float)
     + FR (nth i (tsup t) 0%float) * (1 + ec) * FR (nth (i + 1) x 0%float) = FR (nth i r 0%float))%R.
Print Assumptions thomas_backward_error_float.
(* [[4,1,0],[1,4,1],[0,1,4]] x = [1,2,3] at binary64 (gamma_2 = 1/3.75, y_1 = 1.75/3.75, ... are inexact) *)
Example thomas_backward_error_float_nonvacuous :
  let t := exT_t in let r := exT_r in let x := exT_x in
  wfT t /\ (1 <= tn t)%nat /\ length r = tn t /\ tsolve (A := AF) t r = Ok x /\
  (forall i, (i < tn t)%nat -> ffinite (nth i x 0%float)) /\
  (forall k, (k < tn t)%nat -> ffinite (tbeta t k)) /\
  (forall k, (k + 1 < tn t)%nat ->
     no_underflow (FR (nth k (tsup t) 0%float) / FR (tbeta t k))%R /\
     no_underflow (FR (nth k (tsub t) 0%float) * FR (tgamma t (k + 1)))%R) /\
  (forall k, (k < tn t)%nat -> no_underflow (FR (tnum t r k) / FR (tbeta t k))%R) /\
  (forall k, (k + 1 < tn t)%nat ->
     no_underflow (FR (nth k (tsub t) 0%float) * FR (ty t r k))%R /\
     no_underflow (FR (tgamma t (k + 1)) * FR (nth (k + 1) x 0%float))%R).
Proof.
  cbv zeta. destruct exT_conditions as (W & Hn & Hr & Fx & Fb & UM & UQ & UR).
  split; [exact W|]. split; [exact Hn|]. split; [exact Hr|]. split; [exact exT_solve|]. split; [exact Fx|].
  split; [exact Fb|]. split; [exact UM|]. split; [exact UQ|exact UR].
Qed.

(* the same for strictly diagonally dominant systems (margin (1+u)/(1-u)): backward stability at binary64,
   (T + dT) x = r with |da_i| <= 3u |a_i|, |db_i| <= 5u |b_i| + 9u |a_i|, |dc_i| <= 5u |c_i| *)
Theorem thomas_dominant_backward_stable_float : forall (t : tridiag AF) (r x : list pfloat),
  wfT t -> (1 <= tn t)%nat -> length r = tn t ->
  (forall i, (i < tn t)%nat ->
     ((Rabs (FR (nth i (0%float :: tsub t) 0%float)) + Rabs (FR (nth i (tsup t) 0%float))) * (1 + u64)
      < Rabs (FR (nth i (tmain t) 0%float)) * (1 - u64))%R) ->
  tsolve (A := AF) t r = Ok x ->
  (forall i, (i < tn t)%nat -> ffinite (nth i x 0%float)) ->
  (forall k, (k < tn t)%nat -> ffinite (tbeta t k)) ->
  (forall k, (k + 1 < tn t)%nat ->
     no_underflow (FR (nth k (tsup t) 0%float) / FR (tbeta t k))%R /\
     no_underflow (FR (nth k (tsub t) 0%float) * FR (tgamma t (k + 1)))%R) ->
  ((forall k, (k < tn t)%nat -> no_underflow (FR (tnum t r k) / FR (tbeta t k))%R) /\
  (forall k, (k + 1 < tn t)%nat ->
     no_underflow (FR (nth k (tsub t) 0%float) * FR (ty t r k))%R /\
     no_underflow (FR (tgamma t (k + 1)) * FR (nth (k + 1) x 0%float))%R)) ->
  length x = tn t /\
  forall i, (i < tn t)%nat -> exists da db dc : R,
    (Rabs da <= 3 * u64 * Rabs (FR (nth i (0%float :: tsub t) 0%float)) /\
     Rabs db <= 5 * u64 * Rabs (FR (nth i (tmain t) 0%float)) + 9 * u64 * Rabs (FR (nth i (0%float :: tsub t) 0%float)) /\
     Rabs dc <= 5 * u64 * Rabs (FR (nth i (tsup t) 0%float)) /\
     (FR (nth i (0%float :: tsub t) 0%float) + da) * FR (nth i (0%float :: x) 0%float)
     + (FR (nth i (tmain t) 0%float) + db) * FR (nth i x 0%float)
     + (FR (nth i (tsup t) 0%float) + dc) * FR (nth (i + 1) x 0%float) = FR (nth i r 0%float))%R.
Proof. intros t r x. exact (thomas_dominant_backward_stable_float_lemma t r x). Qed.
Check thomas_dominant_backward_stable_float : forall (t : tridiag AF) (r x : list pfloat),
  wfT t -> (1 <= tn t)%nat -> length r = tn t ->
  (forall i, (i < tn t)%nat ->
     ((Rabs (FR (nth i (0%float :: tsub t) 0%float)) + Rabs (FR (nth i (tsup t) 0%float))) * (1 + u64)
      < Rabs (FR (nth i (tmain t) 0%float)) * (1 - u64))%R) ->
  tsolve (A := AF) t r = Ok x ->
  (forall i, (i < tn t)%nat -> ffinite (nth i x 0%float)) ->
  (forall k, (k < tn t)%nat -> ffinite (tbeta t k)) ->
  (forall k, (k + 1 < tn t)%nat ->
     no_underflow (FR (nth k (tsup t) 0%float) / FR (tbeta t k))%R /\
     no_underflow (FR (nth k (tsub t) 0%float) * FR (tgamma t (k + 1)))%R) ->
  ((forall k, (k < tn t)%nat -> no_underflow (FR (tnum t r k) / FR (tbeta t k))%R) /\
  (forall k, (k + 1 < tn t)%nat ->
     no_underflow (FR (nth k (tsub t) 0%float) * FR (ty t r k))%R /\
     no_underflow (FR (tgamma t (k + 1)) * FR (nth (k + 1) x 0%float))%R)) ->
  length x = tn t /\
  forall i, (i < tn t)%nat -> exists da db dc : R,
    (Rabs da <= 3 * u64 * Rabs (FR (nth i (0%float :: tsub t) 0%float)) /\
     Rabs db <= 5 * u64 * Rabs (FR (nth i (tmain t) 0%float)) + 9 * u64 * Rabs (FR (nth i (0%float :: tsub t) 0%float)) /\
     Rabs dc <= 5 * u64 * Rabs (FR (nth i (tsup t) 0%float)) /\
     (FR (nth i (0%float :: tsub t) 0%float) + da) * FR (nth i (0%float :: x) 0%float)
     + (FR (nth i (tmain t) 0%float) + db) * FR (nth i x 0%float)
     + (FR (nth i (tsup t) 0%float) + dc) * FR (nth (i + 1) x 0%float) = FR (nth i r 0%float))%R.
Print Assumptions thomas_dominant_backward_stable_float.
Example thomas_dominant_backward_stable_float_nonvacuous :
  let t := exT_t in let r := exT_r in let x := exT_x in
  wfT t /\ (1 <= tn t)%nat /\ length r = tn t /\
  (forall i, (i < tn t)%nat ->
     ((Rabs (FR (nth i (0%float :: tsub t) 0%float)) + Rabs (FR (nth i (tsup t) 0%float))) * (1 + u64)
      < Rabs (FR (nth i (tmain t) 0%float)) * (1 - u64))%R) /\
  tsolve (A := AF) t r = Ok x /\
  (forall i, (i < tn t)%nat -> ffinite (nth i x 0%float)) /\
  (forall k, (k < tn t)%nat -> ffinite (tbeta t k)) /\
  (forall k, (k + 1 < tn t)%nat ->
     no_underflow (FR (nth k (tsup t) 0%float) / FR (tbeta t k))%R /\
     no_underflow (FR (nth k (tsub t) 0%float) * FR (tgamma t (k + 1)))%R) /\
  (forall k, (k < tn t)%nat -> no_underflow (FR (tnum t r k) / FR (tbeta t k))%R) /\
  (forall k, (k + 1 < tn t)%nat ->
     no_underflow (FR (nth k (tsub t) 0%float) * FR (ty t r k))%R /\
     no_underflow (FR (tgamma t (k + 1)) * FR (nth (k + 1) x 0%float))%R).
Proof.
  cbv zeta. destruct exT_conditions as (W & Hn & Hr & Fx & Fb & UM & UQ & UR). destruct exT_data as (_ & _ & D).
  split; [exact W|]. split; [exact Hn|]. split; [exact Hr|]. split; [exact D|]. split; [exact exT_solve|].
  split; [exact Fx|]. split; [exact Fb|]. split; [exact UM|]. split; [exact UQ|exact UR].
Qed.

(* hypotheses ON THE DATA for the matrix part: all entries finite, |main_i| <= 2^300, every off-diagonal entry zero or at least
   2^-300 in magnitude, strict diagonal dominance with the rounding margin.  Then, for EVERY right-hand side (of any size n):
   no pivot and no multiplier overflows or underflows, solve never refuses, and if the answer is finite and no product/quotient
   of the right-hand-side part is subnormal, the answer is backward stable.
   PARTIAL (full statement: hypotheses on the data only, conclusion "solved, finite, backward stable"): finiteness of the answer and
   absence of underflow in the right-hand-side part remain hypotheses here; thomas_dominant_float below is the full statement for
   matrices dominant by the factor 2, thomas_dominant_float_uf_partial removes the underflow hypothesis for this class. *)
Theorem thomas_dominant_float_partial : forall (t : tridiag AF) (r : list pfloat),
  wfT t -> (1 <= tn t)%nat -> length r = tn t ->
  ((forall i, (i < tn t)%nat -> ffinite (nth i (tmain t) 0%float)) /\
   (forall i, (i + 1 < tn t)%nat -> ffinite (nth i (tsub t) 0%float) /\ ffinite (nth i (tsup t) 0%float))) ->
  ((forall i, (i < tn t)%nat -> (Rabs (FR (nth i (tmain t) 0%float)) <= bpow radix2 300)%R) /\
   (forall i, (i + 1 < tn t)%nat ->
      (FR (nth i (tsub t) 0%float) = 0%R \/ (bpow radix2 (-300) <= Rabs (FR (nth i (tsub t) 0%float)))%R) /\
      (FR (nth i (tsup t) 0%float) = 0%R \/ (bpow radix2 (-300) <= Rabs (FR (nth i (tsup t) 0%float)))%R))) ->
  (forall i, (i < tn t)%nat ->
     ((Rabs (FR (nth i (0%float :: tsub t) 0%float)) + Rabs (FR (nth i (tsup t) 0%float))) * (1 + u64)
      < Rabs (FR (nth i (tmain t) 0%float)) * (1 - u64))%R) ->
  exists x, tsolve (A := AF) t r = Ok x /\ length x = tn t /\
    ((forall i, (i < tn t)%nat -> ffinite (nth i x 0%float)) ->
  ((forall k, (k < tn t)%nat -> no_underflow (FR (tnum t r k) / FR (tbeta t k))%R) /\
  (forall k, (k + 1 < tn t)%nat ->
     no_underflow (FR (nth k (tsub t) 0%float) * FR (ty t r k))%R /\
     no_underflow (FR (tgamma t (k + 1)) * FR (nth (k + 1) x 0%float))%R)) ->
  forall i, (i < tn t)%nat -> exists da db dc : R,
    (Rabs da <= 3 * u64 * Rabs (FR (nth i (0%float :: tsub t) 0%float)) /\
     Rabs db <= 5 * u64 * Rabs (FR (nth i (tmain t) 0%float)) + 9 * u64 * Rabs (FR (nth i (0%float :: tsub t) 0%float)) /\
     Rabs dc <= 5 * u64 * Rabs (FR (nth i (tsup t) 0%float)) /\
     (FR (nth i (0%float :: tsub t) 0%float) + da) * FR (nth i (0%float :: x) 0%float)
     + (FR (nth i (tmain t) 0%float) + db) * FR (nth i x 0%float)
     + (FR (nth i (tsup t) 0%float) + dc) * FR (nth (i + 1) x 0%float) = FR (nth i r 0%float))%R).
Proof. intros t r. exact (thomas_dominant_float_partial_lemma t r). Qed.
Check thomas_dominant_float_partial : forall (t : tridiag AF) (r : list pfloat),
  wfT t -> (1 <= tn t)%nat -> length r = tn t ->
  ((forall i, (i < tn t)%nat -> ffinite (nth i (tmain t) 0%float)) /\
   (forall i, (i + 1 < tn t)%nat -> ffinite (nth i (tsub t) 0%float) /\ ffinite (nth i (tsup t) 0%float))) ->
  ((forall i, (i < tn t)%nat -> (Rabs (FR (nth i (tmain t) 0%float)) <= bpow radix2 300)%R) /\
   (forall i, (i + 1 < tn t)%nat ->
      (FR (nth i (tsub t) 0%float) = 0%R \/ (bpow radix2 (-300) <= Rabs (FR (nth i (tsub t) 0%float)))%R) /\
      (FR (nth i (tsup t) 0%float) = 0%R \/ (bpow radix2 (-300) <= Rabs (FR (nth i (tsup t) 0%float)))%R))) ->
  (forall i, (i < tn t)%nat ->
     ((Rabs (FR (nth i (0%float :: tsub t) 0%float)) + Rabs (FR (nth i (tsup t) 0%float))) * (1 + u64)
      < Rabs (FR (nth i (tmain t) 0%float)) * (1 - u64))%R) ->
  exists x, tsolve (A := AF) t r = Ok x /\ length x = tn t /\
    ((forall i, (i < tn t)%nat -> ffinite (nth i x 0%float)) ->
  ((forall k, (k < tn t)%nat -> no_underflow (FR (tnum t r k) / FR (tbeta t k))%R) /\
  (forall k, (k + 1 < tn t)%nat ->
     no_underflow (FR (nth k (tsub t) 0%float) * FR (ty t r k))%R /\
     no_underflow (FR (tgamma t (k + 1)) * FR (nth (k + 1) x 0%float))%R)) ->
  forall i, (i < tn t)%nat -> exists da db dc : R,
    (Rabs da <= 3 * u64 * Rabs (FR (nth i (0%float :: tsub t) 0%float)) /\
     Rabs db <= 5 * u64 * Rabs (FR (nth i (tmain t) 0%float)) + 9 * u64 * Rabs (FR (nth i (0%float :: tsub t) 0%float)) /\
     Rabs dc <= 5 * u64 * Rabs (FR (nth i (tsup t) 0%float)) /\
     (FR (nth i (0%float :: tsub t) 0%float) + da) * FR (nth i (0%float :: x) 0%float)
     + (FR (nth i (tmain t) 0%float) + db) * FR (nth i x 0%float)
     + (FR (nth i (tsup t) 0%float) + dc) * FR (nth (i + 1) x 0%float) = FR (nth i r 0%float))%R).
Print Assumptions thomas_dominant_float_partial.
Example thomas_dominant_float_partial_nonvacuous :
  let t := exT_t in let r := exT_r in let x := exT_x in
  wfT t /\ (1 <= tn t)%nat /\ length r = tn t /\
  ((forall i, (i < tn t)%nat -> ffinite (nth i (tmain t) 0%float)) /\
   (forall i, (i + 1 < tn t)%nat -> ffinite (nth i (tsub t) 0%float) /\ ffinite (nth i (tsup t) 0%float))) /\
  ((forall i, (i < tn t)%nat -> (Rabs (FR (nth i (tmain t) 0%float)) <= bpow radix2 300)%R) /\
   (forall i, (i + 1 < tn t)%nat ->
      (FR (nth i (tsub t) 0%float) = 0%R \/ (bpow radix2 (-300) <= Rabs (FR (nth i (tsub t) 0%float)))%R) /\
      (FR (nth i (tsup t) 0%float) = 0%R \/ (bpow radix2 (-300) <= Rabs (FR (nth i (tsup t) 0%float)))%R))) /\
  (forall i, (i < tn t)%nat ->
     ((Rabs (FR (nth i (0%float :: tsub t) 0%float)) + Rabs (FR (nth i (tsup t) 0%float))) * (1 + u64)
      < Rabs (FR (nth i (tmain t) 0%float)) * (1 - u64))%R) /\
  tsolve (A := AF) t r = Ok x /\
  (forall i, (i < tn t)%nat -> ffinite (nth i x 0%float)) /\
  (forall k, (k < tn t)%nat -> no_underflow (FR (tnum t r k) / FR (tbeta t k))%R) /\
  (forall k, (k + 1 < tn t)%nat ->
     no_underflow (FR (nth k (tsub t) 0%float) * FR (ty t r k))%R /\
     no_underflow (FR (tgamma t (k + 1)) * FR (nth (k + 1) x 0%float))%R).
Proof.
  cbv zeta. destruct exT_conditions as (W & Hn & Hr & Fx & Fb & UM & UQ & UR). destruct exT_data as (HF & HS & D).
  split; [exact W|]. split; [exact Hn|]. split; [exact Hr|]. split; [exact HF|]. split; [exact HS|]. split; [exact D|].
  split; [exact exT_solve|]. split; [exact Fx|]. split; [exact UQ|exact UR].
Qed.

(* gradual underflow allowed in the right-hand-side part (products sub*y, gamma*x and quotients num/beta may be subnormal or
   flush to zero): IEEE rounding obeys fl(v) = v(1+d) + e, |e| <= 2^-1075, and the row equations hold up to an ABSOLUTE residual
   |dr_i| <= 2^-1075 (1 + 2|a_i| + 3|beta_i|).  Only the matrix part must be free of underflow. *)
Theorem thomas_backward_error_float_uf : forall (t : tridiag AF) (r x : list pfloat),
  wfT t -> (1 <= tn t)%nat -> length r = tn t -> tsolve (A := AF) t r = Ok x ->
  (forall i, (i < tn t)%nat -> ffinite (nth i x 0%float)) ->
  (forall k, (k < tn t)%nat -> ffinite (tbeta t k)) ->
  (forall k, (k + 1 < tn t)%nat ->
     no_underflow (FR (nth k (tsup t) 0%float) / FR (tbeta t k))%R /\
     no_underflow (FR (nth k (tsub t) 0%float) * FR (tgamma t (k + 1)))%R) ->
  length x = tn t /\
  forall i, (i < tn t)%nat -> exists ea eb ec eg dr : R,
    (Rabs ea <= 3 * u64 /\ Rabs eb <= 5 * u64 /\ Rabs ec <= 5 * u64 /\ Rabs eg <= 9 * u64 /\
     Rabs dr <= eta64 * (1 + 2 * Rabs (FR (nth i (0%float :: tsub t) 0%float)) + 3 * Rabs (FR (tbeta t i))) /\
     FR (nth i (0%float :: tsub t) 0%float) * (1 + ea) * FR (nth i (0%float :: x) 0%float)
     + (FR (nth i (tmain t) 0%float) * (1 + eb)
        + FR (nth i (0%float :: tsub t) 0%float) * FR (tgamma t i) * eg) * FR (nth i x 0%float)
     + FR (nth i (tsup t) 0%float) * (1 + ec) * FR (nth (i + 1) x 0%float) = FR (nth i r 0%float) + dr)%R.
Proof. intros t r x. exact (thomas_backward_error_float_uf_lemma t r x). Qed.
Check thomas_backward_error_float_uf : forall (t : tridiag AF) (r x : list pfloat),
  wfT t -> (1 <= tn t)%nat -> length r = tn t -> tsolve (A := AF) t r = Ok x ->
  (forall i, (i < tn t)%nat -> ffinite (nth i x 0%float)) ->
  (forall k, (k < tn t)%nat -> ffinite (tbeta t k)) ->
  (forall k, (k + 1 < tn t)%nat ->
     no_underflow (FR (nth k (tsup t) 0%float) / FR (tbeta t k))%R /\
     no_underflow (FR (nth k (tsub t) 0%float) * FR (tgamma t (k + 1)))%R) ->
  length x = tn t /\
  forall i, (i < tn t)%nat -> exists ea eb ec eg dr : R,
    (Rabs ea <= 3 * u64 /\ Rabs eb <= 5 * u64 /\ Rabs ec <= 5 * u64 /\ Rabs eg <= 9 * u64 /\
     Rabs dr <= eta64 * (1 + 2 * Rabs (FR (nth i (0%float :: tsub t) 0%float)) + 3 * Rabs (FR (tbeta t i))) /\
     FR (nth i (0%float :: tsub t) 0%float) * (1 + ea) * FR (nth i (0%float :: x) 0%float)
     + (FR (nth i (tmain t) 0%float) * (1 + eb)
        + FR (nth i (0%float :: tsub t) 0%float) * FR (tgamma t i) * eg) * FR (nth i x 0%float)
     + FR (nth i (tsup t) 0%float) * (1 + ec) * FR (nth (i + 1) x 0%float) = FR (nth i r 0%float) + dr)%R.
Print Assumptions thomas_backward_error_float_uf.
(* the same matrix with r = [2^-1060; 0; 0]: y_0 = 2^-1062 and sub_0 * y_0 is subnormal (last conjunct), all hypotheses hold *)
Example thomas_backward_error_float_uf_nonvacuous :
  let t := exT_t in let r := exU_r in let x := exU_x in
  wfT t /\ (1 <= tn t)%nat /\ length r = tn t /\ tsolve (A := AF) t r = Ok x /\
  (forall i, (i < tn t)%nat -> ffinite (nth i x 0%float)) /\
  (forall k, (k < tn t)%nat -> ffinite (tbeta t k)) /\
  (forall k, (k + 1 < tn t)%nat ->
     no_underflow (FR (nth k (tsup t) 0%float) / FR (tbeta t k))%R /\
     no_underflow (FR (nth k (tsub t) 0%float) * FR (tgamma t (k + 1)))%R) /\
  ~ no_underflow (FR (nth 0 (tsub t) 0%float) * FR (ty t r 0))%R.
Proof.
  cbv zeta. destruct exT_conditions as (W & Hn & _ & _ & Fb & UM & _).
  split; [exact W|]. split; [exact Hn|]. split; [reflexivity|]. split; [exact exU_solve|]. split; [exact exU_finite|].
  split; [exact Fb|]. split; [exact UM|exact (proj2 exU_underflows)].
Qed.

(* dominant + scaled matrices (hypotheses on the data as in thomas_dominant_float_partial): a finite answer is backward stable up to the
   absolute residual |dr_i| <= 2^-1075 (1 + 11 |b_i|) -- no condition on the right-hand-side part of the computation is left.
   PARTIAL: finiteness of the answer remains a hypothesis (for the margin (1+u)/(1-u) the computed x is not bounded by the data). *)
Theorem thomas_dominant_float_uf_partial : forall (t : tridiag AF) (r : list pfloat),
  wfT t -> (1 <= tn t)%nat -> length r = tn t ->
  ((forall i, (i < tn t)%nat -> ffinite (nth i (tmain t) 0%float)) /\
   (forall i, (i + 1 < tn t)%nat -> ffinite (nth i (tsub t) 0%float) /\ ffinite (nth i (tsup t) 0%float))) ->
  ((forall i, (i < tn t)%nat -> (Rabs (FR (nth i (tmain t) 0%float)) <= bpow radix2 300)%R) /\
   (forall i, (i + 1 < tn t)%nat ->
      (FR (nth i (tsub t) 0%float) = 0%R \/ (bpow radix2 (-300) <= Rabs (FR (nth i (tsub t) 0%float)))%R) /\
      (FR (nth i (tsup t) 0%float) = 0%R \/ (bpow radix2 (-300) <= Rabs (FR (nth i (tsup t) 0%float)))%R))) ->
  (forall i, (i < tn t)%nat ->
     ((Rabs (FR (nth i (0%float :: tsub t) 0%float)) + Rabs (FR (nth i (tsup t) 0%float))) * (1 + u64)
      < Rabs (FR (nth i (tmain t) 0%float)) * (1 - u64))%R) ->
  exists x, tsolve (A := AF) t r = Ok x /\ length x = tn t /\
    ((forall i, (i < tn t)%nat -> ffinite (nth i x 0%float)) ->
  forall i, (i < tn t)%nat -> exists da db dc dr : R,
    (Rabs da <= 3 * u64 * Rabs (FR (nth i (0%float :: tsub t) 0%float)) /\
     Rabs db <= 5 * u64 * Rabs (FR (nth i (tmain t) 0%float)) + 9 * u64 * Rabs (FR (nth i (0%float :: tsub t) 0%float)) /\
     Rabs dc <= 5 * u64 * Rabs (FR (nth i (tsup t) 0%float)) /\
     Rabs dr <= eta64 * (1 + 11 * Rabs (FR (nth i (tmain t) 0%float))) /\
     (FR (nth i (0%float :: tsub t) 0%float) + da) * FR (nth i (0%float :: x) 0%float)
     + (FR (nth i (tmain t) 0%float) + db) * FR (nth i x 0%float)
     + (FR (nth i (tsup t) 0%float) + dc) * FR (nth (i + 1) x 0%float) = FR (nth i r 0%float) + dr)%R).
Proof. intros t r. exact (thomas_dominant_float_uf_partial_lemma t r). Qed.
Check thomas_dominant_float_uf_partial : forall (t : tridiag AF) (r : list pfloat),
  wfT t -> (1 <= tn t)%nat -> length r = tn t ->
  ((forall i, (i < tn t)%nat -> ffinite (nth i (tmain t) 0%float)) /\
   (forall i, (i + 1 < tn t)%nat -> ffinite (nth i (tsub t) 0%float) /\ ffinite (nth i (tsup t) 0%float))) ->
  ((forall i, (i < tn t)%nat -> (Rabs (FR (nth i (tmain t) 0%float)) <= bpow radix2 300)%R) /\
   (forall i, (i + 1 < tn t)%nat ->
      (FR (nth i (tsub t) 0%float) = 0%R \/ (bpow radix2 (-300) <= Rabs (FR (nth i (tsub t) 0%float)))%R) /\
      (FR (nth i (tsup t) 0%float) = 0%R \/ (bpow radix2 (-300) <= Rabs (FR (nth i (tsup t) 0%float)))%R))) ->
  (forall i, (i < tn t)%nat ->
     ((Rabs (FR (nth i (0%float :: tsub t) 0%float)) + Rabs (FR (nth i (tsup t) 0%float))) * (1 + u64)
      < Rabs (FR (nth i (tmain t) 0%float)) * (1 - u64))%R) ->
  exists x, tsolve (A := AF) t r = Ok x /\ length x = tn t /\
    ((forall i, (i < tn t)%nat -> ffinite (nth i x 0%float)) ->
  forall i, (i < tn t)%nat -> exists da db dc dr : R,
    (Rabs da <= 3 * u64 * Rabs (FR (nth i (0%float :: tsub t) 0%float)) /\
     Rabs db <= 5 * u64 * Rabs (FR (nth i (tmain t) 0%float)) + 9 * u64 * Rabs (FR (nth i (0%float :: tsub t) 0%float)) /\
     Rabs dc <= 5 * u64 * Rabs (FR (nth i (tsup t) 0%float)) /\
     Rabs dr <= eta64 * (1 + 11 * Rabs (FR (nth i (tmain t) 0%float))) /\
     (FR (nth i (0%float :: tsub t) 0%float) + da) * FR (nth i (0%float :: x) 0%float)
     + (FR (nth i (tmain t) 0%float) + db) * FR (nth i x 0%float)
     + (FR (nth i (tsup t) 0%float) + dc) * FR (nth (i + 1) x 0%float) = FR (nth i r 0%float) + dr)%R).
Print Assumptions thomas_dominant_float_uf_partial.
Example thomas_dominant_float_uf_partial_nonvacuous :
  let t := exT_t in let r := exU_r in let x := exU_x in
  wfT t /\ (1 <= tn t)%nat /\ length r = tn t /\
  ((forall i, (i < tn t)%nat -> ffinite (nth i (tmain t) 0%float)) /\
   (forall i, (i + 1 < tn t)%nat -> ffinite (nth i (tsub t) 0%float) /\ ffinite (nth i (tsup t) 0%float))) /\
  ((forall i, (i < tn t)%nat -> (Rabs (FR (nth i (tmain t) 0%float)) <= bpow radix2 300)%R) /\
   (forall i, (i + 1 < tn t)%nat ->
      (FR (nth i (tsub t) 0%float) = 0%R \/ (bpow radix2 (-300) <= Rabs (FR (nth i (tsub t) 0%float)))%R) /\
      (FR (nth i (tsup t) 0%float) = 0%R \/ (bpow radix2 (-300) <= Rabs (FR (nth i (tsup t) 0%float)))%R))) /\
  (forall i, (i < tn t)%nat ->
     ((Rabs (FR (nth i (0%float :: tsub t) 0%float)) + Rabs (FR (nth i (tsup t) 0%float))) * (1 + u64)
      < Rabs (FR (nth i (tmain t) 0%float)) * (1 - u64))%R) /\
  tsolve (A := AF) t r = Ok x /\
  (forall i, (i < tn t)%nat -> ffinite (nth i x 0%float)).
Proof.
  cbv zeta. destruct exT_conditions as (W & Hn & _). destruct exT_data as (HF & HS & D).
  split; [exact W|]. split; [exact Hn|]. split; [reflexivity|]. split; [exact HF|]. split; [exact HS|]. split; [exact D|].
  split; [exact exU_solve|exact exU_finite].
Qed.

(* HYPOTHESES ON THE DATA ONLY, every size n: entries finite, 2^-300 <= |main_i| <= 2^300, off-diagonal entries zero or >= 2^-300,
   |r_i| <= 2^300, dominance by the factor 2.  Then solve answers, every x_i is finite (no intermediate overflows: |y_k| <= 2^603,
   |x_k| <= 2^605, shown by induction along the two sweeps), and x is backward stable up to 2^-1075 (1 + 11|b_i|) per row. *)
Theorem thomas_dominant_float : forall (t : tridiag AF) (r : list pfloat),
  wfT t -> (1 <= tn t)%nat -> length r = tn t ->
  ((forall i, (i < tn t)%nat -> ffinite (nth i (tmain t) 0%float)) /\
   (forall i, (i + 1 < tn t)%nat -> ffinite (nth i (tsub t) 0%float) /\ ffinite (nth i (tsup t) 0%float))) ->
  ((forall i, (i < tn t)%nat -> (Rabs (FR (nth i (tmain t) 0%float)) <= bpow radix2 300)%R) /\
   (forall i, (i + 1 < tn t)%nat ->
      (FR (nth i (tsub t) 0%float) = 0%R \/ (bpow radix2 (-300) <= Rabs (FR (nth i (tsub t) 0%float)))%R) /\
      (FR (nth i (tsup t) 0%float) = 0%R \/ (bpow radix2 (-300) <= Rabs (FR (nth i (tsup t) 0%float)))%R))) ->
  (forall i, (i < tn t)%nat -> (bpow radix2 (-300) <= Rabs (FR (nth i (tmain t) 0%float)))%R) ->
  (forall i, (i < tn t)%nat ->
     (2 * (Rabs (FR (nth i (0%float :: tsub t) 0%float)) + Rabs (FR (nth i (tsup t) 0%float)))
      <= Rabs (FR (nth i (tmain t) 0%float)))%R) ->
  (forall i, (i < tn t)%nat -> ffinite (nth i r 0%float) /\ (Rabs (FR (nth i r 0%float)) <= bpow radix2 300)%R) ->
  exists x, tsolve (A := AF) t r = Ok x /\ length x = tn t /\
    (forall i, (i < tn t)%nat -> ffinite (nth i x 0%float)) /\
  forall i, (i < tn t)%nat -> exists da db dc dr : R,
    (Rabs da <= 3 * u64 * Rabs (FR (nth i (0%float :: tsub t) 0%float)) /\
     Rabs db <= 5 * u64 * Rabs (FR (nth i (tmain t) 0%float)) + 9 * u64 * Rabs (FR (nth i (0%float :: tsub t) 0%float)) /\
     Rabs dc <= 5 * u64 * Rabs (FR (nth i (tsup t) 0%float)) /\
     Rabs dr <= eta64 * (1 + 11 * Rabs (FR (nth i (tmain t) 0%float))) /\
     (FR (nth i (0%float :: tsub t) 0%float) + da) * FR (nth i (0%float :: x) 0%float)
     + (FR (nth i (tmain t) 0%float) + db) * FR (nth i x 0%float)
     + (FR (nth i (tsup t) 0%float) + dc) * FR (nth (i + 1) x 0%float) = FR (nth i r 0%float) + dr)%R.
Proof. intros t r W Hn Hr HF HS Bl SD Fr. exact (thomas_dominant_float_lemma t Hn HF HS Bl SD r W Hr Fr). Qed.
Check thomas_dominant_float : forall (t : tridiag AF) (r : list pfloat),
  wfT t -> (1 <= tn t)%nat -> length r = tn t ->
  ((forall i, (i < tn t)%nat -> ffinite (nth i (tmain t) 0%float)) /\
   (forall i, (i + 1 < tn t)%nat -> ffinite (nth i (tsub t) 0%float) /\ ffinite (nth i (tsup t) 0%float))) ->
  ((forall i, (i < tn t)%nat -> (Rabs (FR (nth i (tmain t) 0%float)) <= bpow radix2 300)%R) /\
   (forall i, (i + 1 < tn t)%nat ->
      (FR (nth i (tsub t) 0%float) = 0%R \/ (bpow radix2 (-300) <= Rabs (FR (nth i (tsub t) 0%float)))%R) /\
      (FR (nth i (tsup t) 0%float) = 0%R \/ (bpow radix2 (-300) <= Rabs (FR (nth i (tsup t) 0%float)))%R))) ->
  (forall i, (i < tn t)%nat -> (bpow radix2 (-300) <= Rabs (FR (nth i (tmain t) 0%float)))%R) ->
  (forall i, (i < tn t)%nat ->
     (2 * (Rabs (FR (nth i (0%float :: tsub t) 0%float)) + Rabs (FR (nth i (tsup t) 0%float)))
      <= Rabs (FR (nth i (tmain t) 0%float)))%R) ->
  (forall i, (i < tn t)%nat -> ffinite (nth i r 0%float) /\ (Rabs (FR (nth i r 0%float)) <= bpow radix2 300)%R) ->
  exists x, tsolve (A := AF) t r = Ok x /\ length x = tn t /\
    (forall i, (i < tn t)%nat -> ffinite (nth i x 0%float)) /\
  forall i, (i < tn t)%nat -> exists da db dc dr : R,
    (Rabs da <= 3 * u64 * Rabs (FR (nth i (0%float :: tsub t) 0%float)) /\
     Rabs db <= 5 * u64 * Rabs (FR (nth i (tmain t) 0%float)) + 9 * u64 * Rabs (FR (nth i (0%float :: tsub t) 0%float)) /\
     Rabs dc <= 5 * u64 * Rabs (FR (nth i (tsup t) 0%float)) /\
     Rabs dr <= eta64 * (1 + 11 * Rabs (FR (nth i (tmain t) 0%float))) /\
     (FR (nth i (0%float :: tsub t) 0%float) + da) * FR (nth i (0%float :: x) 0%float)
     + (FR (nth i (tmain t) 0%float) + db) * FR (nth i x 0%float)
     + (FR (nth i (tsup t) 0%float) + dc) * FR (nth (i + 1) x 0%float) = FR (nth i r 0%float) + dr)%R.
Print Assumptions thomas_dominant_float.
(* met by the matrix above with the UNDERFLOWING right-hand side r = [2^-1060; 0; 0] *)
Example thomas_dominant_float_nonvacuous :
  let t := exT_t in let r := exU_r in
  wfT t /\ (1 <= tn t)%nat /\ length r = tn t /\
  ((forall i, (i < tn t)%nat -> ffinite (nth i (tmain t) 0%float)) /\
   (forall i, (i + 1 < tn t)%nat -> ffinite (nth i (tsub t) 0%float) /\ ffinite (nth i (tsup t) 0%float))) /\
  ((forall i, (i < tn t)%nat -> (Rabs (FR (nth i (tmain t) 0%float)) <= bpow radix2 300)%R) /\
   (forall i, (i + 1 < tn t)%nat ->
      (FR (nth i (tsub t) 0%float) = 0%R \/ (bpow radix2 (-300) <= Rabs (FR (nth i (tsub t) 0%float)))%R) /\
      (FR (nth i (tsup t) 0%float) = 0%R \/ (bpow radix2 (-300) <= Rabs (FR (nth i (tsup t) 0%float)))%R))) /\
  (forall i, (i < tn t)%nat -> (bpow radix2 (-300) <= Rabs (FR (nth i (tmain t) 0%float)))%R) /\
  (forall i, (i < tn t)%nat ->
     (2 * (Rabs (FR (nth i (0%float :: tsub t) 0%float)) + Rabs (FR (nth i (tsup t) 0%float)))
      <= Rabs (FR (nth i (tmain t) 0%float)))%R) /\
  (forall i, (i < tn t)%nat -> ffinite (nth i r 0%float) /\ (Rabs (FR (nth i r 0%float)) <= bpow radix2 300)%R) /\
  ~ no_underflow (FR (nth 0 (tsub t) 0%float) * FR (ty t r 0))%R.
Proof.
  cbv zeta. destruct exT_conditions as (W & Hn & _). destruct exT_data as (HF & HS & _).
  destruct exT_data_strong as (_ & Bl & SD). destruct exU_underflows as (Fr & U).
  split; [exact W|]. split; [exact Hn|]. split; [reflexivity|]. split; [exact HF|]. split; [exact HS|]. split; [exact Bl|].
  split; [exact SD|]. split; [exact Fr|exact U].
Qed.

(* ... and by a family of EVERY size: tridiag(1, 4, 1) of order n with right-hand side (1, ..., 1); hence solve answers it with
   finite components at binary64 for every n >= 1 *)
Example thomas_dominant_float_nonvacuous_all_n : forall n, (1 <= n)%nat ->
  let t := lapT n in let r := repeat 1%float n in
  (wfT t /\ (1 <= tn t)%nat /\ length r = tn t /\
  ((forall i, (i < tn t)%nat -> ffinite (nth i (tmain t) 0%float)) /\
   (forall i, (i + 1 < tn t)%nat -> ffinite (nth i (tsub t) 0%float) /\ ffinite (nth i (tsup t) 0%float))) /\
  ((forall i, (i < tn t)%nat -> (Rabs (FR (nth i (tmain t) 0%float)) <= bpow radix2 300)%R) /\
   (forall i, (i + 1 < tn t)%nat ->
      (FR (nth i (tsub t) 0%float) = 0%R \/ (bpow radix2 (-300) <= Rabs (FR (nth i (tsub t) 0%float)))%R) /\
      (FR (nth i (tsup t) 0%float) = 0%R \/ (bpow radix2 (-300) <= Rabs (FR (nth i (tsup t) 0%float)))%R))) /\
  (forall i, (i < tn t)%nat -> (bpow radix2 (-300) <= Rabs (FR (nth i (tmain t) 0%float)))%R) /\
  (forall i, (i < tn t)%nat ->
     (2 * (Rabs (FR (nth i (0%float :: tsub t) 0%float)) + Rabs (FR (nth i (tsup t) 0%float)))
      <= Rabs (FR (nth i (tmain t) 0%float)))%R) /\
  (forall i, (i < tn t)%nat -> ffinite (nth i r 0%float) /\ (Rabs (FR (nth i r 0%float)) <= bpow radix2 300)%R)) /\
  exists x, tsolve (A := AF) t r = Ok x /\ length x = n /\ forall i, (i < n)%nat -> ffinite (nth i x 0%float).
Proof. intros n Hn. cbv zeta. split; [exact (lapT_hyps n Hn)|exact (lapT_solved n Hn)]. Qed.

(* the same in the form a numerical oracle measures: the residual of the computed solution, row by row; with
   |a_i| + |b_i| + |c_i| <= ||T||_inf it is at most 14 u ||T||_inf ||x||_inf + 2^-1075 (1 + 11|b_i|), u = 2^-53 = 1.1e-16
   (driver/c05.py allows 1e-11 (||T|| ||x|| + ||r||), about 6400 times more) *)
Theorem thomas_dominant_float_residual : forall (t : tridiag AF) (r : list pfloat),
  wfT t -> (1 <= tn t)%nat -> length r = tn t ->
  ((forall i, (i < tn t)%nat -> ffinite (nth i (tmain t) 0%float)) /\
   (forall i, (i + 1 < tn t)%nat -> ffinite (nth i (tsub t) 0%float) /\ ffinite (nth i (tsup t) 0%float))) ->
  ((forall i, (i < tn t)%nat -> (Rabs (FR (nth i (tmain t) 0%float)) <= bpow radix2 300)%R) /\
   (forall i, (i + 1 < tn t)%nat ->
      (FR (nth i (tsub t) 0%float) = 0%R \/ (bpow radix2 (-300) <= Rabs (FR (nth i (tsub t) 0%float)))%R) /\
      (FR (nth i (tsup t) 0%float) = 0%R \/ (bpow radix2 (-300) <= Rabs (FR (nth i (tsup t) 0%float)))%R))) ->
  (forall i, (i < tn t)%nat -> (bpow radix2 (-300) <= Rabs (FR (nth i (tmain t) 0%float)))%R) ->
  (forall i, (i < tn t)%nat ->
     (2 * (Rabs (FR (nth i (0%float :: tsub t) 0%float)) + Rabs (FR (nth i (tsup t) 0%float)))
      <= Rabs (FR (nth i (tmain t) 0%float)))%R) ->
  (forall i, (i < tn t)%nat -> ffinite (nth i r 0%float) /\ (Rabs (FR (nth i r 0%float)) <= bpow radix2 300)%R) ->
  exists x, tsolve (A := AF) t r = Ok x /\ length x = tn t /\
    (forall i, (i < tn t)%nat -> ffinite (nth i x 0%float)) /\
  forall i, (i < tn t)%nat ->
    (Rabs (FR (nth i r 0%float)
           - (FR (nth i (0%float :: tsub t) 0%float) * FR (nth i (0%float :: x) 0%float)
              + FR (nth i (tmain t) 0%float) * FR (nth i x 0%float)
              + FR (nth i (tsup t) 0%float) * FR (nth (i + 1) x 0%float)))
     <= u64 * (3 * Rabs (FR (nth i (0%float :: tsub t) 0%float)) * Rabs (FR (nth i (0%float :: x) 0%float))
               + (5 * Rabs (FR (nth i (tmain t) 0%float)) + 9 * Rabs (FR (nth i (0%float :: tsub t) 0%float)))
                 * Rabs (FR (nth i x 0%float))
               + 5 * Rabs (FR (nth i (tsup t) 0%float)) * Rabs (FR (nth (i + 1) x 0%float)))
        + eta64 * (1 + 11 * Rabs (FR (nth i (tmain t) 0%float))))%R.
Proof. intros t r. exact (thomas_dominant_float_residual_lemma t r). Qed.
Check thomas_dominant_float_residual : forall (t : tridiag AF) (r : list pfloat),
  wfT t -> (1 <= tn t)%nat -> length r = tn t ->
  ((forall i, (i < tn t)%nat -> ffinite (nth i (tmain t) 0%float)) /\
   (forall i, (i + 1 < tn t)%nat -> ffinite (nth i (tsub t) 0%float) /\ ffinite (nth i (tsup t) 0%float))) ->
  ((forall i, (i < tn t)%nat -> (Rabs (FR (nth i (tmain t) 0%float)) <= bpow radix2 300)%R) /\
   (forall i, (i + 1 < tn t)%nat ->
      (FR (nth i (tsub t) 0%float) = 0%R \/ (bpow radix2 (-300) <= Rabs (FR (nth i (tsub t) 0%float)))%R) /\
      (FR (nth i (tsup t) 0%float) = 0%R \/ (bpow radix2 (-300) <= Rabs (FR (nth i (tsup t) 0%float)))%R))) ->
  (forall i, (i < tn t)%nat -> (bpow radix2 (-300) <= Rabs (FR (nth i (tmain t) 0%float)))%R) ->
  (forall i, (i < tn t)%nat ->
     (2 * (Rabs (FR (nth i (0%float :: tsub t) 0%float)) + Rabs (FR (nth i (tsup t) 0%float)))
      <= Rabs (FR (nth i (tmain t) 0%float)))%R) ->
  (forall i, (i < tn t)%nat -> ffinite (nth i r 0%float) /\ (Rabs (FR (nth i r 0%float)) <= bpow radix2 300)%R) ->
  exists x, tsolve (A := AF) t r = Ok x /\ length x = tn t /\
    (forall i, (i < tn t)%nat -> ffinite (nth i x 0%float)) /\
  forall i, (i < tn t)%nat ->
    (Rabs (FR (nth i r 0%float)
           - (FR (nth i (0%float :: tsub t) 0%float) * FR (nth i (0%float :: x) 0%float)
              + FR (nth i (tmain t) 0%float) * FR (nth i x 0%float)
              + FR (nth i (tsup t) 0%float) * FR (nth (i + 1) x 0%float)))
     <= u64 * (3 * Rabs (FR (nth i (0%float :: tsub t) 0%float)) * Rabs (FR (nth i (0%float :: x) 0%float))
               + (5 * Rabs (FR (nth i (tmain t) 0%float)) + 9 * Rabs (FR (nth i (0%float :: tsub t) 0%float)))
                 * Rabs (FR (nth i x 0%float))
               + 5 * Rabs (FR (nth i (tsup t) 0%float)) * Rabs (FR (nth (i + 1) x 0%float)))
        + eta64 * (1 + 11 * Rabs (FR (nth i (tmain t) 0%float))))%R.
Print Assumptions thomas_dominant_float_residual.
Example thomas_dominant_float_residual_nonvacuous :   (* same instances as thomas_dominant_float_nonvacuous *)
  let t := exT_t in let r := exU_r in
  wfT t /\ (1 <= tn t)%nat /\ length r = tn t /\
  ((forall i, (i < tn t)%nat -> ffinite (nth i (tmain t) 0%float)) /\
   (forall i, (i + 1 < tn t)%nat -> ffinite (nth i (tsub t) 0%float) /\ ffinite (nth i (tsup t) 0%float))) /\
  ((forall i, (i < tn t)%nat -> (Rabs (FR (nth i (tmain t) 0%float)) <= bpow radix2 300)%R) /\
   (forall i, (i + 1 < tn t)%nat ->
      (FR (nth i (tsub t) 0%float) = 0%R \/ (bpow radix2 (-300) <= Rabs (FR (nth i (tsub t) 0%float)))%R) /\
      (FR (nth i (tsup t) 0%float) = 0%R \/ (bpow radix2 (-300) <= Rabs (FR (nth i (tsup t) 0%float)))%R))) /\
  (forall i, (i < tn t)%nat -> (bpow radix2 (-300) <= Rabs (FR (nth i (tmain t) 0%float)))%R) /\
  (forall i, (i < tn t)%nat ->
     (2 * (Rabs (FR (nth i (0%float :: tsub t) 0%float)) + Rabs (FR (nth i (tsup t) 0%float)))
      <= Rabs (FR (nth i (tmain t) 0%float)))%R) /\
  (forall i, (i < tn t)%nat -> ffinite (nth i r 0%float) /\ (Rabs (FR (nth i r 0%float)) <= bpow radix2 300)%R).
Proof.
  cbv zeta. destruct exT_conditions as (W & Hn & _). destruct exT_data as (HF & HS & _).
  destruct exT_data_strong as (_ & Bl & SD). destruct exU_underflows as (Fr & _).
  split; [exact W|]. split; [exact Hn|]. split; [reflexivity|]. split; [exact HF|]. split; [exact HS|]. split; [exact Bl|].
  split; [exact SD|exact Fr].
Qed.

(* why the pivots must be finite: sub = [-2^1023], main = [1; 2^1023], sup = [1], r = [1; 1].  beta_1 = 2^1023 + 2^1023 = +inf,
   y_1 = 2^1023 / inf = 0, and solve answers the FINITE vector [1; 0]; the true solution is close to [1/2; 1/2]. *)
Example thomas_finite_answer_hides_overflow_example :
  let t := @mkT AF [(-0x1p1023)%float] [1%float; 0x1p1023%float] [1%float] 2 in
  tsolve (A := AF) t [1%float; 1%float] = Ok [1%float; 0%float] /\ tbeta t 1 = infinity.
Proof. exact thomas_finite_answer_hides_overflow. Qed.

(* ---- round 7 (linearity): the tridiagonal product is the dense twin's linear map.  Stated with the library's own
   guarded vector operations (vadd / vsub / vscale / dot of Model/Vector.v), for every n >= 1 and any ring:
   additivity, homogeneity, zero, and the adjoint identity <y, T x> = <T^T y, x> linking the product with transpose
   (exchange of the sub- and super-diagonals). *)
From OV Require Proofs.TridiagLinear.

Theorem tridiag_mul_add : forall (A : Arith), RingLaws A -> forall (t : tridiag A) (x y : list A),
  wfT t -> 1 <= tn t -> length x = tn t -> length y = tn t ->
  exists xy u v uv, vadd x y = Ok xy /\ tmul t x = Ok u /\ tmul t y = Ok v /\ vadd u v = Ok uv /\ tmul t xy = Ok uv.
Proof. intros A RL t x y. exact (TridiagLinear.tmul_add_lemma RL t x y). Qed.
Check tridiag_mul_add : forall (A : Arith), RingLaws A -> forall (t : tridiag A) (x y : list A),
  wfT t -> 1 <= tn t -> length x = tn t -> length y = tn t ->
  exists xy u v uv, vadd x y = Ok xy /\ tmul t x = Ok u /\ tmul t y = Ok v /\ vadd u v = Ok uv /\ tmul t xy = Ok uv.
Print Assumptions tridiag_mul_add.

Theorem tridiag_mul_sub : forall (A : Arith), RingLaws A -> forall (t : tridiag A) (x y : list A),
  wfT t -> 1 <= tn t -> length x = tn t -> length y = tn t ->
  exists xy u v uv, vsub x y = Ok xy /\ tmul t x = Ok u /\ tmul t y = Ok v /\ vsub u v = Ok uv /\ tmul t xy = Ok uv.
Proof. intros A RL t x y. exact (TridiagLinear.tmul_sub_lemma RL t x y). Qed.
Check tridiag_mul_sub : forall (A : Arith), RingLaws A -> forall (t : tridiag A) (x y : list A),
  wfT t -> 1 <= tn t -> length x = tn t -> length y = tn t ->
  exists xy u v uv, vsub x y = Ok xy /\ tmul t x = Ok u /\ tmul t y = Ok v /\ vsub u v = Ok uv /\ tmul t xy = Ok uv.
Print Assumptions tridiag_mul_sub.

Theorem tridiag_mul_scale_vec : forall (A : Arith), RingLaws A -> forall (t : tridiag A) (x : list A) (a : A),
  wfT t -> 1 <= tn t -> length x = tn t ->
  exists u, tmul t x = Ok u /\ tmul t (vscale x a) = Ok (vscale u a).
Proof. intros A RL t x a. exact (TridiagLinear.tmul_scale_vec_lemma RL t x a). Qed.
Check tridiag_mul_scale_vec : forall (A : Arith), RingLaws A -> forall (t : tridiag A) (x : list A) (a : A),
  wfT t -> 1 <= tn t -> length x = tn t ->
  exists u, tmul t x = Ok u /\ tmul t (vscale x a) = Ok (vscale u a).
Print Assumptions tridiag_mul_scale_vec.

Theorem tridiag_mul_zero : forall (A : Arith), RingLaws A -> forall (t : tridiag A), wfT t -> 1 <= tn t ->
  tmul t (repeat (@Arith.zero A) (tn t)) = Ok (repeat (@Arith.zero A) (tn t)).
Proof. intros A RL t. exact (TridiagLinear.tmul_zero_lemma RL t). Qed.
Check tridiag_mul_zero : forall (A : Arith), RingLaws A -> forall (t : tridiag A), wfT t -> 1 <= tn t ->
  tmul t (repeat (@Arith.zero A) (tn t)) = Ok (repeat (@Arith.zero A) (tn t)).
Print Assumptions tridiag_mul_zero.

Theorem tridiag_mul_adjoint : forall (A : Arith), RingLaws A -> forall (t : tridiag A) (x y : list A),
  wfT t -> 1 <= tn t -> length x = tn t -> length y = tn t ->
  exists u w d, tmul t x = Ok u /\ tmul (ttranspose t) y = Ok w /\ dot y u = Ok d /\ dot w x = Ok d.
Proof. intros A RL t x y. exact (TridiagLinear.tmul_adjoint_lemma RL t x y). Qed.
Check tridiag_mul_adjoint : forall (A : Arith), RingLaws A -> forall (t : tridiag A) (x y : list A),
  wfT t -> 1 <= tn t -> length x = tn t -> length y = tn t ->
  exists u w d, tmul t x = Ok u /\ tmul (ttranspose t) y = Ok w /\ dot y u = Ok d /\ dot w x = Ok d.
Print Assumptions tridiag_mul_adjoint.

Example tridiag_mul_adjoint_nonvacuous :
  wfT ex3 /\ 1 <= tn ex3 /\ length ([q 1 1; q (-1) 2; q 2 1] : list AQ) = tn ex3 /\ length ([q 3 1; q 0 1; q (-2) 5] : list AQ) = tn ex3.
Proof. unfold wfT; cbn; repeat split; auto. Qed.
