(* Props/C08.v -- iterative solvers: reported success means solved.  Property theorems only:
   Theorem / exact lemma / Check (pins the statement) / Print Assumptions.
   [run mulA mulAT rows cols sv b x0 n tol] is the Gallina model of
   solve_cg / solve_bicg (itol) / solve_bicgstab / solve_qmr (coq/Model/Iter.v) on a matrix given by
   its two products; it returns (Result, final x, ghost) or a panic. *)
From Coq Require Import List Arith ZArith Floats.
From OV Require Import Base.Panic Base.Arith Model.Vector Model.Matrix Model.Sparse Model.Iter Inst.FloatInst Proofs.Iter.
Import ListNotations.

(* ---- any arithmetic (floats included), any products, any sizes ---- *)

Theorem ok_le_budget : forall (A : SArith) (mulA mulAT : list (T (SA A)) -> res (list (T (SA A)))) rows cols
    sv b x0 n tol k x g,
  run mulA mulAT rows cols sv b x0 n tol = Ok (IOk k, x, g) -> k <= n.
Proof. intros A mulA mulAT rows cols sv b x0 n tol k x g H. exact (proj1 (run_ok_inv mulA mulAT rows cols sv b x0 n tol k x g H)). Qed.
Check ok_le_budget : forall (A : SArith) (mulA mulAT : list (T (SA A)) -> res (list (T (SA A)))) rows cols
    sv b x0 n tol k x g,
  run mulA mulAT rows cols sv b x0 n tol = Ok (IOk k, x, g) -> k <= n.
Print Assumptions ok_le_budget.

Theorem zero_budget_untouched : forall (A : SArith) (mulA mulAT : list (T (SA A)) -> res (list (T (SA A)))) rows cols
    sv b x0 tol o x g,
  run mulA mulAT rows cols sv b x0 0 tol = Ok (o, x, g) -> x = x0.
Proof. intros A mulA mulAT rows cols sv b x0 tol o x g H. exact (run_zero_budget mulA mulAT rows cols sv b x0 tol o x g H). Qed.
Check zero_budget_untouched : forall (A : SArith) (mulA mulAT : list (T (SA A)) -> res (list (T (SA A)))) rows cols
    sv b x0 tol o x g,
  run mulA mulAT rows cols sv b x0 0 tol = Ok (o, x, g) -> x = x0.
Print Assumptions zero_budget_untouched.

(* [passed b tol g]: norm2 (g_t g) / (||b||, 0 replaced by 1) evaluates to a value resid with
   resid <= tol (or resid < tol), g_t g being the vector the last convergence test looked at *)
Theorem ok_passed_test : forall (A : SArith) (mulA mulAT : list (T (SA A)) -> res (list (T (SA A)))) rows cols
    sv b x0 n tol k x g,
  run mulA mulAT rows cols sv b x0 n tol = Ok (IOk k, x, g) -> passed b tol g.
Proof. intros A mulA mulAT rows cols sv b x0 n tol k x g H. exact (proj2 (run_ok_inv mulA mulAT rows cols sv b x0 n tol k x g H)). Qed.
Check ok_passed_test : forall (A : SArith) (mulA mulAT : list (T (SA A)) -> res (list (T (SA A)))) rows cols
    sv b x0 n tol k x g,
  run mulA mulAT rows cols sv b x0 n tol = Ok (IOk k, x, g) -> passed b tol g.
Print Assumptions ok_passed_test.

(* non-vacuity: the float instance on the CSC matrix [[4,1],[1,3]], b = (1,2), x0 = (2,1), tol 2^-40 answers
   Ok 2 with CG (budget 10), and answers (Err _, x0 untouched) with budget 0 *)
Definition ex_s : sparse AF := @mkS AF 2 2 4 [4; 1; 1; 3]%float [0; 1; 0; 1] [0; 2; 4].
Definition ex_tol : float := Z.ldexp 1%float (-40)%Z.
Example ok_le_budget_nonvacuous : exists x g,
  @run SAF (sp_mul ex_s) (sp_tmul ex_s) 2 2 CG [1; 2]%float [2; 1]%float 10 ex_tol = Ok (IOk 2, x, g).
Proof. apply (@ok_k_witness SAF). vm_compute. reflexivity. Qed.
Example ok_passed_test_nonvacuous : exists x g,
  @run SAF (sp_mul ex_s) (sp_tmul ex_s) 2 2 QMR [1; 2]%float [2; 1]%float 10 ex_tol = Ok (IOk 2, x, g).
Proof. apply (@ok_k_witness SAF). vm_compute. reflexivity. Qed.
Example zero_budget_untouched_nonvacuous : exists r g,
  @run SAF (sp_mul ex_s) (sp_tmul ex_s) 2 2 BiCGSTAB [1; 2]%float [2; 1]%float 0 ex_tol = Ok (r, [2; 1]%float, g).
Proof. apply (@out_x_witness SAF). vm_compute. reflexivity. Qed.
