(* Props/C08.v -- iterative solvers: reported success means solved.  Property theorems only:
   Theorem / exact lemma / Check (pins the statement) / Print Assumptions.
   [run mulA mulAT rows cols sv b x0 n tol] is the Gallina model of
   solve_cg / solve_bicg (itol) / solve_bicgstab / solve_qmr (coq/Model/Iter.v) on a matrix given by
   its two products; it returns (Result, final x, ghost) or a panic. *)
From Coq Require Import List Arith ZArith Floats Reals.
From OV Require Import Base.Panic Base.Arith Model.Vector Model.Matrix Model.Sparse Model.Iter Inst.FloatInst Inst.QcInst
  Proofs.Iter Proofs.IterField Proofs.IterInst Proofs.IterR Proofs.IterRows.
Import ListNotations.

(* ---- any arithmetic (floats included), any products, any sizes ---- *)

(* the function the correspondence check runs (CSC products of Model/Sparse.v) is [run] at those products,
   by definition: every theorem below applies to it as it stands *)
Example run_sparse_is_run : forall (A : SArith) sv (s : sparse (SA A)) b x n tol,
  run_sparse sv s b x n tol = run (sp_mul s) (sp_tmul s) (sp_rows s) (sp_cols s) sv b x n tol.
Proof. reflexivity. Qed.

Theorem ok_le_budget : forall (A : SArith) (mulA mulAT : list (T (SA A)) -> res (list (T (SA A)))) rows cols
    sv b x0 n tol k x g,
  run mulA mulAT rows cols sv b x0 n tol = Ok (IOk k, x, g) -> k <= n.
Proof. intros A mulA mulAT rows cols sv b x0 n tol k x g H. exact (proj1 (run_ok_inv mulA mulAT rows cols sv b x0 n tol k x g H)). Qed.
Check ok_le_budget : forall (A : SArith) (mulA mulAT : list (T (SA A)) -> res (list (T (SA A)))) rows cols
    sv b x0 n tol k x g,
  run mulA mulAT rows cols sv b x0 n tol = Ok (IOk k, x, g) -> k <= n.
Print Assumptions ok_le_budget.

Theorem zero_budget_untouched : forall (A : SArith) (mulA mulAT : list (T (SA A)) -> res (list (T (SA A)))) rows cols
    sv b x0 tol o x g,
  run mulA mulAT rows cols sv b x0 0 tol = Ok (o, x, g) -> x = x0.
Proof. intros A mulA mulAT rows cols sv b x0 tol o x g H. exact (run_zero_budget mulA mulAT rows cols sv b x0 tol o x g H). Qed.
Check zero_budget_untouched : forall (A : SArith) (mulA mulAT : list (T (SA A)) -> res (list (T (SA A)))) rows cols
    sv b x0 tol o x g,
  run mulA mulAT rows cols sv b x0 0 tol = Ok (o, x, g) -> x = x0.
Print Assumptions zero_budget_untouched.

(* whatever a solver returns (Ok or Err), x still has the length of the caller's x *)
Theorem x_keeps_length : forall (A : SArith) (mulA mulAT : list (T (SA A)) -> res (list (T (SA A)))) rows cols
    sv b x0 n tol o x g,
  run mulA mulAT rows cols sv b x0 n tol = Ok (o, x, g) -> length x = length x0.
Proof. intros A mulA mulAT rows cols sv b x0 n tol o x g H. exact (run_length mulA mulAT rows cols sv b x0 n tol o x g H). Qed.
Check x_keeps_length : forall (A : SArith) (mulA mulAT : list (T (SA A)) -> res (list (T (SA A)))) rows cols
    sv b x0 n tol o x g,
  run mulA mulAT rows cols sv b x0 n tol = Ok (o, x, g) -> length x = length x0.
Print Assumptions x_keeps_length.

(* [passed b tol g]: norm2 (g_t g) / (||b||, 0 replaced by 1) evaluates to a value resid with
   resid <= tol (or resid < tol), g_t g being the vector the last convergence test looked at *)
Theorem ok_passed_test : forall (A : SArith) (mulA mulAT : list (T (SA A)) -> res (list (T (SA A)))) rows cols
    sv b x0 n tol k x g,
  run mulA mulAT rows cols sv b x0 n tol = Ok (IOk k, x, g) -> passed b tol g.
Proof. intros A mulA mulAT rows cols sv b x0 n tol k x g H. exact (proj2 (run_ok_inv mulA mulAT rows cols sv b x0 n tol k x g H)). Qed.
Check ok_passed_test : forall (A : SArith) (mulA mulAT : list (T (SA A)) -> res (list (T (SA A)))) rows cols
    sv b x0 n tol k x g,
  run mulA mulAT rows cols sv b x0 n tol = Ok (IOk k, x, g) -> passed b tol g.
Print Assumptions ok_passed_test.

(* non-vacuity: the float instance on the CSC matrix [[4,1],[1,3]], b = (1,2), x0 = (2,1), tol 2^-40 answers
   Ok 2 with CG (budget 10), and answers (Err _, x0 untouched) with budget 0 *)
Definition ex_s : sparse AF := @mkS AF 2 2 4 [4; 1; 1; 3]%float [0; 1; 0; 1] [0; 2; 4].
Definition ex_tol : float := Z.ldexp 1%float (-40)%Z.
Example ok_le_budget_nonvacuous : exists x g,
  @run SAF (sp_mul ex_s) (sp_tmul ex_s) 2 2 CG [1; 2]%float [2; 1]%float 10 ex_tol = Ok (IOk 2, x, g).
Proof. apply (@ok_k_witness SAF). vm_compute. reflexivity. Qed.
Example ok_passed_test_nonvacuous : exists x g,
  @run SAF (sp_mul ex_s) (sp_tmul ex_s) 2 2 QMR [1; 2]%float [2; 1]%float 10 ex_tol = Ok (IOk 2, x, g).
Proof. apply (@ok_k_witness SAF). vm_compute. reflexivity. Qed.
Example zero_budget_untouched_nonvacuous : exists r g,
  @run SAF (sp_mul ex_s) (sp_tmul ex_s) 2 2 BiCGSTAB [1; 2]%float [2; 1]%float 0 ex_tol = Ok (r, [2; 1]%float, g).
Proof. apply (@out_x_witness SAF). vm_compute. reflexivity. Qed.

(* ---- any field (FieldLaws), ANY square-root function, any matrix given by a linear product
        [LinOp n mulA]: total on vectors of length n, additive, homogeneous.  The statements are
        about every value the solver can return -- Ok or Err, from every exit, for every budget --
        so they say that the recurrence vector equals the true residual b - A x at every iteration.
        (g_t g is the recurrence residual the last test looked at; over a field a division by
        zero is a panic, so a run that meets one returns nothing and the statements are silent.) ---- *)

Theorem residual_invariant_cg : forall (A : SArith), FieldLaws (SA A) ->
  forall n (mulA : list (T (SA A)) -> res (list (T (SA A)))) cols b x0 max tol r x g,
  LinOp n mulA -> solve_cg mulA n cols b x0 max tol = Ok (r, x, g) ->
  exists ax, mulA x = Ok ax /\ g_t g = zipw sub b ax.
Proof. intros A FL n mulA cols b x0 max tol r x g LO H. exact (solve_cg_tracks FL n mulA LO cols b x0 max tol (r, x, g) H). Qed.
Check residual_invariant_cg : forall (A : SArith), FieldLaws (SA A) ->
  forall n (mulA : list (T (SA A)) -> res (list (T (SA A)))) cols b x0 max tol r x g,
  LinOp n mulA -> solve_cg mulA n cols b x0 max tol = Ok (r, x, g) ->
  exists ax, mulA x = Ok ax /\ g_t g = zipw sub b ax.
Print Assumptions residual_invariant_cg.

Theorem residual_invariant_bicg : forall (A : SArith), FieldLaws (SA A) ->
  forall n (mulA mulAT : list (T (SA A)) -> res (list (T (SA A)))) cols itol b x0 max tol r x g,
  LinOp n mulA -> solve_bicg mulA mulAT n cols itol b x0 max tol = Ok (r, x, g) ->
  exists ax, mulA x = Ok ax /\ g_t g = zipw sub b ax.
Proof. intros A FL n mulA mulAT cols itol b x0 max tol r x g LO H. exact (solve_bicg_tracks FL n mulA mulAT LO cols itol b x0 max tol (r, x, g) H). Qed.
Check residual_invariant_bicg : forall (A : SArith), FieldLaws (SA A) ->
  forall n (mulA mulAT : list (T (SA A)) -> res (list (T (SA A)))) cols itol b x0 max tol r x g,
  LinOp n mulA -> solve_bicg mulA mulAT n cols itol b x0 max tol = Ok (r, x, g) ->
  exists ax, mulA x = Ok ax /\ g_t g = zipw sub b ax.
Print Assumptions residual_invariant_bicg.

Theorem residual_invariant_bicgstab : forall (A : SArith), FieldLaws (SA A) ->
  forall n (mulA : list (T (SA A)) -> res (list (T (SA A)))) cols b x0 max tol r x g,
  LinOp n mulA -> solve_bicgstab mulA n cols b x0 max tol = Ok (r, x, g) ->
  exists ax, mulA x = Ok ax /\ g_t g = zipw sub b ax.
Proof. intros A FL n mulA cols b x0 max tol r x g LO H. exact (solve_bicgstab_tracks FL n mulA LO cols b x0 max tol (r, x, g) H). Qed.
Check residual_invariant_bicgstab : forall (A : SArith), FieldLaws (SA A) ->
  forall n (mulA : list (T (SA A)) -> res (list (T (SA A)))) cols b x0 max tol r x g,
  LinOp n mulA -> solve_bicgstab mulA n cols b x0 max tol = Ok (r, x, g) ->
  exists ax, mulA x = Ok ax /\ g_t g = zipw sub b ax.
Print Assumptions residual_invariant_bicgstab.

Theorem residual_invariant_qmr : forall (A : SArith), FieldLaws (SA A) ->
  forall n (mulA mulAT : list (T (SA A)) -> res (list (T (SA A)))) cols b x0 max tol r x g,
  LinOp n mulA -> solve_qmr mulA mulAT n cols b x0 max tol = Ok (r, x, g) ->
  exists ax, mulA x = Ok ax /\ g_t g = zipw sub b ax.
Proof. intros A FL n mulA mulAT cols b x0 max tol r x g LO H. exact (solve_qmr_tracks FL n mulA mulAT LO cols b x0 max tol (r, x, g) H). Qed.
Check residual_invariant_qmr : forall (A : SArith), FieldLaws (SA A) ->
  forall n (mulA mulAT : list (T (SA A)) -> res (list (T (SA A)))) cols b x0 max tol r x g,
  LinOp n mulA -> solve_qmr mulA mulAT n cols b x0 max tol = Ok (r, x, g) ->
  exists ax, mulA x = Ok ax /\ g_t g = zipw sub b ax.
Print Assumptions residual_invariant_qmr.

(* Ok k: the TRUE residual passes the code's own test:  ||b - A x|| / ||b||'  <= tol  (or < tol),
   ||b||' = ||b|| with 0 replaced by 1 (nz).  Stated with the code's division and comparisons
   because an Arith carries no order laws; for an ordered field it reads ||b - A x|| <= tol ||b||'. *)
Theorem ok_means_solved : forall (A : SArith), FieldLaws (SA A) ->
  forall n (mulA mulAT : list (T (SA A)) -> res (list (T (SA A)))) cols sv b x0 max tol k x g,
  LinOp n mulA -> run mulA mulAT n cols sv b x0 max tol = Ok (IOk k, x, g) ->
  exists ax resid, mulA x = Ok ax /\
    div (norm2 (zipw sub b ax)) (nz (norm2 b)) = Ok resid /\
    (leb resid tol = true \/ ltb resid tol = true).
Proof. intros A FL n mulA mulAT cols sv b x0 max tol k x g LO H. exact (run_ok_solved FL n mulA mulAT LO cols sv b x0 max tol k x g H). Qed.
Check ok_means_solved : forall (A : SArith), FieldLaws (SA A) ->
  forall n (mulA mulAT : list (T (SA A)) -> res (list (T (SA A)))) cols sv b x0 max tol k x g,
  LinOp n mulA -> run mulA mulAT n cols sv b x0 max tol = Ok (IOk k, x, g) ->
  exists ax resid, mulA x = Ok ax /\
    div (norm2 (zipw sub b ax)) (nz (norm2 b)) = Ok resid /\
    (leb resid tol = true \/ ltb resid tol = true).
Print Assumptions ok_means_solved.

(* non-vacuity of the field-level hypotheses: Qc is a field (AQ_FieldLaws), the CSC product of
   [[4,1],[1,3]] is a LinOp (exq_lin), and every solver answers Ok k with k >= 1 on it
   (b = (1,2), x0 = (2,1), tol 1/1000; SAQ = Qc with a stand-in sqrt, see Proofs/IterInst.v) *)
Example residual_invariant_nonvacuous :
  LinOp 2 (@sp_mul AQ exq_s) /\
  (exists x g, @run SAQ (sp_mul exq_s) (sp_tmul exq_s) 2 2 CG [q 1 1; q 2 1] [q 2 1; q 1 1] 10 (q 1 1000) = Ok (IOk 2, x, g)) /\
  (exists x g, @run SAQ (sp_mul exq_s) (sp_tmul exq_s) 2 2 (BiCG 1) [q 1 1; q 2 1] [q 2 1; q 1 1] 10 (q 1 1000) = Ok (IOk 2, x, g)) /\
  (exists x g, @run SAQ (sp_mul exq_s) (sp_tmul exq_s) 2 2 (BiCG 2) [q 1 1; q 2 1] [q 2 1; q 1 1] 10 (q 1 1000) = Ok (IOk 2, x, g)) /\
  (exists x g, @run SAQ (sp_mul exq_s) (sp_tmul exq_s) 2 2 BiCGSTAB [q 1 1; q 2 1] [q 2 1; q 1 1] 10 (q 1 1000) = Ok (IOk 2, x, g)) /\
  (exists x g, @run SAQ (sp_mul exq_s) (sp_tmul exq_s) 2 2 QMR [q 1 1; q 2 1] [q 2 1; q 1 1] 10 (q 1 1000) = Ok (IOk 2, x, g)).
Proof.
  split; [exact exq_lin|].
  repeat split; apply (@ok_k_witness SAQ); vm_compute; reflexivity.
Qed.

(* ---- the hypothesis LinOp discharged for EVERY square matrix of EVERY order, given as its list of rows
        ([rmul rs v] = the code's dot product of every row with v; [rprod rs x] = the textbook product):
        Ok k means that the TRUE residual b - M x passes the code's test.  No hypothesis on the transposed
        product is needed. ---- *)
Theorem ok_means_solved_rows : forall (A : SArith), FieldLaws (SA A) ->
  forall n (rs : list (list (T (SA A)))) (mulAT : list (T (SA A)) -> res (list (T (SA A)))) cols sv b x0 max tol k x g,
  length rs = n -> Forall (fun r => length r = n) rs ->
  run (rmul rs) mulAT n cols sv b x0 max tol = Ok (IOk k, x, g) ->
  exists resid, div (norm2 (zipw sub b (rprod rs x))) (nz (norm2 b)) = Ok resid /\
                (leb resid tol = true \/ ltb resid tol = true).
Proof. intros A FL n rs mulAT cols sv b x0 max tol k x g Hn Hrs H. exact (run_ok_solved_rows FL n rs mulAT cols sv b x0 max tol k x g Hn Hrs H). Qed.
Check ok_means_solved_rows : forall (A : SArith), FieldLaws (SA A) ->
  forall n (rs : list (list (T (SA A)))) (mulAT : list (T (SA A)) -> res (list (T (SA A)))) cols sv b x0 max tol k x g,
  length rs = n -> Forall (fun r => length r = n) rs ->
  run (rmul rs) mulAT n cols sv b x0 max tol = Ok (IOk k, x, g) ->
  exists resid, div (norm2 (zipw sub b (rprod rs x))) (nz (norm2 b)) = Ok resid /\
                (leb resid tol = true \/ ltb resid tol = true).
Print Assumptions ok_means_solved_rows.

Example ok_means_solved_rows_nonvacuous : exists x g,
  @run SAQ (@rmul AQ [[q 4 1; q 1 1]; [q 1 1; q 3 1]]) (@rmul AQ [[q 4 1; q 1 1]; [q 1 1; q 3 1]]) 2 2 BiCGSTAB
       [q 1 1; q 2 1] [q 2 1; q 1 1] 10 (q 1 1000) = Ok (IOk 2, x, g).
Proof. apply (@ok_k_witness SAQ). vm_compute. reflexivity. Qed.

(* ---- the real numbers with the standard square root (SAR, Proofs/IterR.v): the same statement as an
        inequality between reals:  ||b - A x||_2 <= tol * ||b||'.  Uses the four standard-library axioms of R. ---- *)
Theorem ok_means_solved_R : forall n (mulA mulAT : list R -> res (list R)) cols sv (b x0 : list R) max (tol : R) k x g,
  @LinOp AR n mulA -> @run SAR mulA mulAT n cols sv b x0 max tol = Ok (IOk k, x, g) ->
  exists ax, mulA x = Ok ax /\
    (@norm2 SAR (@zipw AR Rminus b ax) <= tol * @nz SAR (@norm2 SAR b))%R.
Proof. intros n mulA mulAT cols sv b x0 max tol k x g LO H. exact (run_ok_solved_R n mulA mulAT LO cols sv b x0 max tol k x g H). Qed.
Check ok_means_solved_R : forall n (mulA mulAT : list R -> res (list R)) cols sv (b x0 : list R) max (tol : R) k x g,
  @LinOp AR n mulA -> @run SAR mulA mulAT n cols sv b x0 max tol = Ok (IOk k, x, g) ->
  exists ax, mulA x = Ok ax /\
    (@norm2 SAR (@zipw AR Rminus b ax) <= tol * @nz SAR (@norm2 SAR b))%R.
Print Assumptions ok_means_solved_R.

(* non-vacuity over R: the CSC matrix [[4,1],[1,3]] is a LinOp and CG answers Ok on (b := A x0, x0 = (1,2)) *)
Example ok_means_solved_R_nonvacuous :
  @LinOp AR 2 (@sp_mul AR exr_s) /\
  exists b g, length b = 2 /\
    @run SAR (@sp_mul AR exr_s) (@sp_tmul AR exr_s) 2 2 CG b [1%R; 2%R] 5 1%R = Ok (IOk 0, [1%R; 2%R], g).
Proof. split; [exact exr_lin|]. apply exr_run_ok. intros itol H; discriminate H. Qed.
(* ---- tie of the model to the source of this run (package r2c2): gen/SrcIter.v is regenerated from src/sparse.rs by
   driver/rust2coq.py on every check run; Proofs/SrcEqIter.v proves ERASURE -- each regenerated Krylov solver equals the
   hand-written model of Model/Iter.v with the ghost projected away (er (result, x, ghost) = (x, result)), for every
   arithmetic with a square root, every matrix (well-formed or not), every b, x, budget and tolerance; panics included. *)
From OV Require Proofs.SrcEqIter.
Theorem model_is_source_C08_Iter : forall F : SArith, @SrcEqIter.model_is_source_Iter F.
Proof. intros F. exact SrcEqIter.model_is_source_Iter_lemma. Qed.
Check model_is_source_C08_Iter : forall F : SArith, @SrcEqIter.model_is_source_Iter F.
Print Assumptions model_is_source_C08_Iter.
(* non-vacuity: the regenerated solvers run (float instance, the 2x2 SPD system [[4,1],[1,3]] x = [1,2]) and converge in
   two iterations to x = [1/11, 7/11] up to rounding -- the erasure equations above are not between two panics *)
From Coq Require Import Floats.
From OV Require Import Inst.FloatInst.
Example model_is_source_C08_Iter_nonvacuous :
  let M : sparse AF := @mkS AF 2 2 4 [4;1;1;3]%float [0;1;0;1] [0;2;4] in
  match SrcIter.s_solve_cg (F:=SAF) M ([1;2]%float : list (T AF)) ([0;0]%float : list (T AF)) 10 (0x1p-30%float : T AF),
        SrcIter.s_solve_qmr (F:=SAF) M ([1;2]%float : list (T AF)) ([0;0]%float : list (T AF)) 10 (0x1p-30%float : T AF) with
  | Ok (_, IOk 2), Ok (_, IOk 2) => True
  | _, _ => False
  end.
Proof. vm_compute. exact I. Qed.
