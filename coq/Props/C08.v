(* Props/C08.v -- iterative solvers: reported success means solved.  Property theorems only:
   Theorem / exact lemma / Check (pins the statement) / Print Assumptions.
   [run mulA mulAT rows cols sv b x0 n tol] is the Gallina model of
   solve_cg / solve_bicg (itol) / solve_bicgstab / solve_qmr (coq/Model/Iter.v) on a matrix given by
   its two products; it returns (Result, final x, ghost) or a panic. *)
From Coq Require Import List Arith ZArith Floats Reals.
From OV Require Import Base.Panic Base.Arith Model.Vector Model.Matrix Model.Sparse Model.Iter Inst.FloatInst Inst.QcInst
  Proofs.Iter Proofs.IterField Proofs.IterInst Proofs.IterR Proofs.IterRows.
Import ListNotations.

(* ---- any arithmetic (floats included), any products, any sizes ---- *)

(* the function the correspondence check runs (CSC products of Model/Sparse.v) is [run] at those products,
   by definition: every theorem below applies to it as it stands *)
Example run_sparse_is_run : forall (A : SArith) sv (s : sparse (SA A)) b x n tol,
  run_sparse sv s b x n tol = run (sp_mul s) (sp_tmul s) (sp_rows s) (sp_cols s) sv b x n tol.
Proof. reflexivity. Qed.

Theorem ok_le_budget : forall (A : SArith) (mulA mulAT : list (T (SA A)) -> res (list (T (SA A)))) rows cols
    sv b x0 n tol k x g,
  run mulA mulAT rows cols sv b x0 n tol = Ok (IOk k, x, g) -> k <= n.
Proof. intros A mulA mulAT rows cols sv b x0 n tol k x g H. exact (proj1 (run_ok_inv mulA mulAT rows cols sv b x0 n tol k x g H)). Qed.
Check ok_le_budget : forall (A : SArith) (mulA mulAT : list (T (SA A)) -> res (list (T (SA A)))) rows cols
    sv b x0 n tol k x g,
  run mulA mulAT rows cols sv b x0 n tol = Ok (IOk k, x, g) -> k <= n.
Print Assumptions ok_le_budget.

Theorem zero_budget_untouched : forall (A : SArith) (mulA mulAT : list (T (SA A)) -> res (list (T (SA A)))) rows cols
    sv b x0 tol o x g,
  run mulA mulAT rows cols sv b x0 0 tol = Ok (o, x, g) -> x = x0.
Proof. intros A mulA mulAT rows cols sv b x0 tol o x g H. exact (run_zero_budget mulA mulAT rows cols sv b x0 tol o x g H). Qed.
Check zero_budget_untouched : forall (A : SArith) (mulA mulAT : list (T (SA A)) -> res (list (T (SA A)))) rows cols
    sv b x0 tol o x g,
  run mulA mulAT rows cols sv b x0 0 tol = Ok (o, x, g) -> x = x0.
Print Assumptions zero_budget_untouched.

(* whatever a solver returns (Ok or Err), x still has the length of the caller's x *)
Theorem x_keeps_length : forall (A : SArith) (mulA mulAT : list (T (SA A)) -> res (list (T (SA A)))) rows cols
    sv b x0 n tol o x g,
  run mulA mulAT rows cols sv b x0 n tol = Ok (o, x, g) -> length x = length x0.
Proof. intros A mulA mulAT rows cols sv b x0 n tol o x g H. exact (run_length mulA mulAT rows cols sv b x0 n tol o x g H). Qed.
Check x_keeps_length : forall (A : SArith) (mulA mulAT : list (T (SA A)) -> res (list (T (SA A)))) rows cols
    sv b x0 n tol o x g,
  run mulA mulAT rows cols sv b x0 n tol = Ok (o, x, g) -> length x = length x0.
Print Assumptions x_keeps_length.

(* [passed b tol g]: norm2 (g_t g) / (||b||, 0 replaced by 1) evaluates to a value resid with
   resid <= tol (or resid < tol), g_t g being the vector the last convergence test looked at *)
Theorem ok_passed_test : forall (A : SArith) (mulA mulAT : list (T (SA A)) -> res (list (T (SA A)))) rows cols
    sv b x0 n tol k x g,
  run mulA mulAT rows cols sv b x0 n tol = Ok (IOk k, x, g) -> passed b tol g.
Proof. intros A mulA mulAT rows cols sv b x0 n tol k x g H. exact (proj2 (run_ok_inv mulA mulAT rows cols sv b x0 n tol k x g H)). Qed.
Check ok_passed_test : forall (A : SArith) (mulA mulAT : list (T (SA A)) -> res (list (T (SA A)))) rows cols
    sv b x0 n tol k x g,
  run mulA mulAT rows cols sv b x0 n tol = Ok (IOk k, x, g) -> passed b tol g.
Print Assumptions ok_passed_test.

(* non-vacuity: the float instance on the CSC matrix [[4,1],[1,3]], b = (1,2), x0 = (2,1), tol 2^-40 answers
   Ok 2 with CG (budget 10), and answers (Err _, x0 untouched) with budget 0 *)
Definition ex_s : sparse AF := @mkS AF 2 2 4 [4; 1; 1; 3]%float [0; 1; 0; 1] [0; 2; 4].
Definition ex_tol : float := Z.ldexp 1%float (-40)%Z.
Example ok_le_budget_nonvacuous : exists x g,
  @run SAF (sp_mul ex_s) (sp_tmul ex_s) 2 2 CG [1; 2]%float [2; 1]%float 10 ex_tol = Ok (IOk 2, x, g).
Proof. apply (@ok_k_witness SAF). vm_compute. reflexivity. Qed.
Example ok_passed_test_nonvacuous : exists x g,
  @run SAF (sp_mul ex_s) (sp_tmul ex_s) 2 2 QMR [1; 2]%float [2; 1]%float 10 ex_tol = Ok (IOk 2, x, g).
Proof. apply (@ok_k_witness SAF). vm_compute. reflexivity. Qed.
Example zero_budget_untouched_nonvacuous : exists r g,
  @run SAF (sp_mul ex_s) (sp_tmul ex_s) 2 2 BiCGSTAB [1; 2]%float [2; 1]%float 0 ex_tol = Ok (r, [2; 1]%float, g).
Proof. apply (@out_x_witness SAF). vm_compute. reflexivity. Qed.

(* ---- any field (FieldLaws), ANY square-root function, any matrix given by a linear product
        [LinOp n mulA]: total on vectors of length n, additive, homogeneous.  The statements are
        about every value the solver can return -- Ok or Err, from every exit, for every budget --
        so they say that the recurrence vector equals the true residual b - A x at every iteration.
        (g_t g is the recurrence residual the last test looked at; over a field a division by
        zero is a panic, so a run that meets one returns nothing and the statements are silent.) ---- *)

Theorem residual_invariant_cg : forall (A : SArith), FieldLaws (SA A) ->
  forall n (mulA : list (T (SA A)) -> res (list (T (SA A)))) cols b x0 max tol r x g,
  LinOp n mulA -> solve_cg mulA n cols b x0 max tol = Ok (r, x, g) ->
  exists ax, mulA x = Ok ax /\ g_t g = zipw sub b ax.
Proof. intros A FL n mulA cols b x0 max tol r x g LO H. exact (solve_cg_tracks FL n mulA LO cols b x0 max tol (r, x, g) H). Qed.
Check residual_invariant_cg : forall (A : SArith), FieldLaws (SA A) ->
  forall n (mulA : list (T (SA A)) -> res (list (T (SA A)))) cols b x0 max tol r x g,
  LinOp n mulA -> solve_cg mulA n cols b x0 max tol = Ok (r, x, g) ->
  exists ax, mulA x = Ok ax /\ g_t g = zipw sub b ax.
Print Assumptions residual_invariant_cg.

Theorem residual_invariant_bicg : forall (A : SArith), FieldLaws (SA A) ->
  forall n (mulA mulAT : list (T (SA A)) -> res (list (T (SA A)))) cols itol b x0 max tol r x g,
  LinOp n mulA -> solve_bicg mulA mulAT n cols itol b x0 max tol = Ok (r, x, g) ->
  exists ax, mulA x = Ok ax /\ g_t g = zipw sub b ax.
Proof. intros A FL n mulA mulAT cols itol b x0 max tol r x g LO H. exact (solve_bicg_tracks FL n mulA mulAT LO cols itol b x0 max tol (r, x, g) H). Qed.
Check residual_invariant_bicg : forall (A : SArith), FieldLaws (SA A) ->
  forall n (mulA mulAT : list (T (SA A)) -> res (list (T (SA A)))) cols itol b x0 max tol r x g,
  LinOp n mulA -> solve_bicg mulA mulAT n cols itol b x0 max tol = Ok (r, x, g) ->
  exists ax, mulA x = Ok ax /\ g_t g = zipw sub b ax.
Print Assumptions residual_invariant_bicg.

Theorem residual_invariant_bicgstab : forall (A : SArith), FieldLaws (SA A) ->
  forall n (mulA : list (T (SA A)) -> res (list (T (SA A)))) cols b x0 max tol r x g,
  LinOp n mulA -> solve_bicgstab mulA n cols b x0 max tol = Ok (r, x, g) ->
  exists ax, mulA x = Ok ax /\ g_t g = zipw sub b ax.
Proof. intros A FL n mulA cols b x0 max tol r x g LO H. exact (solve_bicgstab_tracks FL n mulA LO cols b x0 max tol (r, x, g) H). Qed.
Check residual_invariant_bicgstab : forall (A : SArith), FieldLaws (SA A) ->
  forall n (mulA : list (T (SA A)) -> res (list (T (SA A)))) cols b x0 max tol r x g,
  LinOp n mulA -> solve_bicgstab mulA n cols b x0 max tol = Ok (r, x, g) ->
  exists ax, mulA x = Ok ax /\ g_t g = zipw sub b ax.
Print Assumptions residual_invariant_bicgstab.

Theorem residual_invariant_qmr : forall (A : SArith), FieldLaws (SA A) ->
  forall n (mulA mulAT : list (T (SA A)) -> res (list (T (SA A)))) cols b x0 max tol r x g,
  LinOp n mulA -> solve_qmr mulA mulAT n cols b x0 max tol = Ok (r, x, g) ->
  exists ax, mulA x = Ok ax /\ g_t g = zipw sub b ax.
Proof. intros A FL n mulA mulAT cols b x0 max tol r x g LO H. exact (solve_qmr_tracks FL n mulA mulAT LO cols b x0 max tol (r, x, g) H). Qed.
Check residual_invariant_qmr : forall (A : SArith), FieldLaws (SA A) ->
  forall n (mulA mulAT : list (T (SA A)) -> res (list (T (SA A)))) cols b x0 max tol r x g,
  LinOp n mulA -> solve_qmr mulA mulAT n cols b x0 max tol = Ok (r, x, g) ->
  exists ax, mulA x = Ok ax /\ g_t g = zipw sub b ax.
Print Assumptions residual_invariant_qmr.

(* Ok k: the TRUE residual passes the code's own test:  ||b - A x|| / ||b||'  <= tol  (or < tol),
   ||b||' = ||b|| with 0 replaced by 1 (nz).  Stated with the code's division and comparisons
   because an Arith carries no order laws; for an ordered field it reads ||b - A x|| <= tol ||b||'. *)
Theorem ok_means_solved : forall (A : SArith), FieldLaws (SA A) ->
  forall n (mulA mulAT : list (T (SA A)) -> res (list (T (SA A)))) cols sv b x0 max tol k x g,
  LinOp n mulA -> run mulA mulAT n cols sv b x0 max tol = Ok (IOk k, x, g) ->
  exists ax resid, mulA x = Ok ax /\
    div (norm2 (zipw sub b ax)) (nz (norm2 b)) = Ok resid /\
    (leb resid tol = true \/ ltb resid tol = true).
Proof. intros A FL n mulA mulAT cols sv b x0 max tol k x g LO H. exact (run_ok_solved FL n mulA mulAT LO cols sv b x0 max tol k x g H). Qed.
Check ok_means_solved : forall (A : SArith), FieldLaws (SA A) ->
  forall n (mulA mulAT : list (T (SA A)) -> res (list (T (SA A)))) cols sv b x0 max tol k x g,
  LinOp n mulA -> run mulA mulAT n cols sv b x0 max tol = Ok (IOk k, x, g) ->
  exists ax resid, mulA x = Ok ax /\
    div (norm2 (zipw sub b ax)) (nz (norm2 b)) = Ok resid /\
    (leb resid tol = true \/ ltb resid tol = true).
Print Assumptions ok_means_solved.

(* non-vacuity of the field-level hypotheses: Qc is a field (AQ_FieldLaws), the CSC product of
   [[4,1],[1,3]] is a LinOp (exq_lin), and every solver answers Ok k with k >= 1 on it
   (b = (1,2), x0 = (2,1), tol 1/1000; SAQ = Qc with a stand-in sqrt, see Proofs/IterInst.v) *)
Example residual_invariant_nonvacuous :
  LinOp 2 (@sp_mul AQ exq_s) /\
  (exists x g, @run SAQ (sp_mul exq_s) (sp_tmul exq_s) 2 2 CG [q 1 1; q 2 1] [q 2 1; q 1 1] 10 (q 1 1000) = Ok (IOk 2, x, g)) /\
  (exists x g, @run SAQ (sp_mul exq_s) (sp_tmul exq_s) 2 2 (BiCG 1) [q 1 1; q 2 1] [q 2 1; q 1 1] 10 (q 1 1000) = Ok (IOk 2, x, g)) /\
  (exists x g, @run SAQ (sp_mul exq_s) (sp_tmul exq_s) 2 2 (BiCG 2) [q 1 1; q 2 1] [q 2 1; q 1 1] 10 (q 1 1000) = Ok (IOk 2, x, g)) /\
  (exists x g, @run SAQ (sp_mul exq_s) (sp_tmul exq_s) 2 2 BiCGSTAB [q 1 1; q 2 1] [q 2 1; q 1 1] 10 (q 1 1000) = Ok (IOk 2, x, g)) /\
  (exists x g, @run SAQ (sp_mul exq_s) (sp_tmul exq_s) 2 2 QMR [q 1 1; q 2 1] [q 2 1; q 1 1] 10 (q 1 1000) = Ok (IOk 2, x, g)).
Proof.
  split; [exact exq_lin|].
  repeat split; apply (@ok_k_witness SAQ); vm_compute; reflexivity.
Qed.

(* ---- the hypothesis LinOp discharged for EVERY square matrix of EVERY order, given as its list of rows
        ([rmul rs v] = the code's dot product of every row with v; [rprod rs x] = the textbook product):
        Ok k means that the TRUE residual b - M x passes the code's test.  No hypothesis on the transposed
        product is needed. ---- *)
Theorem ok_means_solved_rows : forall (A : SArith), FieldLaws (SA A) ->
  forall n (rs : list (list (T (SA A)))) (mulAT : list (T (SA A)) -> res (list (T (SA A)))) cols sv b x0 max tol k x g,
  length rs = n -> Forall (fun r => length r = n) rs ->
  run (rmul rs) mulAT n cols sv b x0 max tol = Ok (IOk k, x, g) ->
  exists resid, div (norm2 (zipw sub b (rprod rs x))) (nz (norm2 b)) = Ok resid /\
                (leb resid tol = true \/ ltb resid tol = true).
Proof. intros A FL n rs mulAT cols sv b x0 max tol k x g Hn Hrs H. exact (run_ok_solved_rows FL n rs mulAT cols sv b x0 max tol k x g Hn Hrs H). Qed.
Check ok_means_solved_rows : forall (A : SArith), FieldLaws (SA A) ->
  forall n (rs : list (list (T (SA A)))) (mulAT : list (T (SA A)) -> res (list (T (SA A)))) cols sv b x0 max tol k x g,
  length rs = n -> Forall (fun r => length r = n) rs ->
  run (rmul rs) mulAT n cols sv b x0 max tol = Ok (IOk k, x, g) ->
  exists resid, div (norm2 (zipw sub b (rprod rs x))) (nz (norm2 b)) = Ok resid /\
                (leb resid tol = true \/ ltb resid tol = true).
Print Assumptions ok_means_solved_rows.

Example ok_means_solved_rows_nonvacuous : exists x g,
  @run SAQ (@rmul AQ [[q 4 1; q 1 1]; [q 1 1; q 3 1]]) (@rmul AQ [[q 4 1; q 1 1]; [q 1 1; q 3 1]]) 2 2 BiCGSTAB
       [q 1 1; q 2 1] [q 2 1; q 1 1] 10 (q 1 1000) = Ok (IOk 2, x, g).
Proof. apply (@ok_k_witness SAQ). vm_compute. reflexivity. Qed.

(* ---- the real numbers with the standard square root (SAR, Proofs/IterR.v): the same statement as an
        inequality between reals:  ||b - A x||_2 <= tol * ||b||'.  Uses the four standard-library axioms of R. ---- *)
Theorem ok_means_solved_R : forall n (mulA mulAT : list R -> res (list R)) cols sv (b x0 : list R) max (tol : R) k x g,
  @LinOp AR n mulA -> @run SAR mulA mulAT n cols sv b x0 max tol = Ok (IOk k, x, g) ->
  exists ax, mulA x = Ok ax /\
    (@norm2 SAR (@zipw AR Rminus b ax) <= tol * @nz SAR (@norm2 SAR b))%R.
Proof. intros n mulA mulAT cols sv b x0 max tol k x g LO H. exact (run_ok_solved_R n mulA mulAT LO cols sv b x0 max tol k x g H). Qed.
Check ok_means_solved_R : forall n (mulA mulAT : list R -> res (list R)) cols sv (b x0 : list R) max (tol : R) k x g,
  @LinOp AR n mulA -> @run SAR mulA mulAT n cols sv b x0 max tol = Ok (IOk k, x, g) ->
  exists ax, mulA x = Ok ax /\
    (@norm2 SAR (@zipw AR Rminus b ax) <= tol * @nz SAR (@norm2 SAR b))%R.
Print Assumptions ok_means_solved_R.

(* non-vacuity over R: the CSC matrix [[4,1],[1,3]] is a LinOp and CG answers Ok on (b := A x0, x0 = (1,2)) *)
Example ok_means_solved_R_nonvacuous :
  @LinOp AR 2 (@sp_mul AR exr_s) /\
  exists b g, length b = 2 /\
    @run SAR (@sp_mul AR exr_s) (@sp_tmul AR exr_s) 2 2 CG b [1%R; 2%R] 5 1%R = Ok (IOk 0, [1%R; 2%R], g).
Proof. split; [exact exr_lin|]. apply exr_run_ok. intros itol H; discriminate H. Qed.
(* ---- tie of the model to the source of this run (package r2c2): gen/SrcIter.v is regenerated from src/sparse.rs by
   driver/rust2coq.py on every check run; Proofs/SrcEqIter.v proves ERASURE -- each regenerated Krylov solver equals the
   hand-written model of Model/Iter.v with the ghost projected away (er (result, x, ghost) = (x, result)), for every
   arithmetic with a square root, every matrix (well-formed or not), every b, x, budget and tolerance; panics included. *)
From OV Require Proofs.SrcEqIter.
Theorem model_is_source_C08_Iter : forall F : SArith, @SrcEqIter.model_is_source_Iter F.
Proof. intros F. exact SrcEqIter.model_is_source_Iter_lemma. Qed.
Check model_is_source_C08_Iter : forall F : SArith, @SrcEqIter.model_is_source_Iter F.
Print Assumptions model_is_source_C08_Iter.
(* non-vacuity: the regenerated solvers run (float instance, the 2x2 SPD system [[4,1],[1,3]] x = [1,2]) and converge in
   two iterations to x = [1/11, 7/11] up to rounding -- the erasure equations above are not between two panics *)
From Coq Require Import Floats.
From OV Require Import Inst.FloatInst.
Example model_is_source_C08_Iter_nonvacuous :
  let M : sparse AF := @mkS AF 2 2 4 [4;1;1;3]%float [0;1;0;1] [0;2;4] in
  match SrcIter.s_solve_cg (F:=SAF) M ([1;2]%float : list (T AF)) ([0;0]%float : list (T AF)) 10 (0x1p-30%float : T AF),
        SrcIter.s_solve_qmr (F:=SAF) M ([1;2]%float : list (T AF)) ([0;0]%float : list (T AF)) 10 (0x1p-30%float : T AF) with
  | Ok (_, IOk 2), Ok (_, IOk 2) => True
  | _, _ => False
  end.
Proof. vm_compute. exact I. Qed.

(* ======================================================================================================
   C08 (iterative solvers), the DRIFT CLAUSE -- package round2.  Append to Props/C08.v.
   "up to the rounding drift of the residual recurrence, proportional to machine epsilon, the iteration count, ||A|| and
   the largest iterate": for the model's solve_cg / solve_bicg / solve_bicgstab (Model/Iter.v) run in the STANDARD MODEL
   of floating-point arithmetic (every operation = the exact one times (1+d), |d| <= u; rounded square root), with a
   matrix-vector product accurate to eA normwise, the recurrence residual r_k (g_t g) and the true residual b - A x_k
   differ in the 2-norm by at most
        (4j+1) / (1-rho)^(j+1) * [ (rho NA + eA) kap X + rho ||b|| ],      rho = u/(1-u),  kap = 1/(1 - gam_{n+1}),
   j = number of updates x += alpha p (= k for CG and BiCG, 2k for BiCGSTAB), NA >= ||A||_2, X = t_X (g_X g) = the
   model's own ghost trace (largest COMPUTED 2-norm of an iterate or update term) -- the quantity the oracle of
   driver/c08.py reads from the float model.  Hence Ok k => ||b - A x|| <= tol (1+O(nu)) ||b||' + that bound.
   For the model's CSC product sp_mul, eA = gam_m || |A| ||_2 (m = longest stored row): [sparse_product_accuracy].
   Comparison with the oracle's allowance 64 (k+1) eps (||A|| X + ||b||)/||b||', eps = 2u: the theorem's constant per
   iteration is 4 (NA + m || |A| ||) u X + 4 u ||b|| (CG, BiCG; twice that for BiCGSTAB) against 128 u (||A|| X + ||b||):
   the allowance is implied whenever (about) m || |A| ||_2 <= 30 ||A||_2 (CG/BiCG) resp. <= 14 ||A||_2 (BiCGSTAB):
   [ok_means_solved_oracle_allowance] below states this exactly.
   Unproved remainder: QMR (its second recurrence s ~ A d needs an invariant of its own); the standard model itself
   (no overflow/underflow; discharged for binary64 operations in Proofs/RoundDotFloat.v away from underflow).
   ====================================================================================================== *)
From Coq Require Import Reals List Lra Lia.
From OV Require Import Base.Panic Base.Arith Base.RoundModel Model.Vector Model.Sparse Model.Iter
  Proofs.SparseBase Proofs.RoundSparse Proofs.RoundSparseDense Proofs.RoundNorm2 Proofs.RoundFlx
  Proofs.Round2CGNorm Proofs.Round2CG Proofs.Round2CGMore Proofs.Round2CGOk.
Import ListNotations.

Theorem residual_drift : forall (u : R), (0 <= u < 1)%R ->
  forall (fadd fsub fmul fdiv : R -> R -> R) (fsqrt : R -> R),
  (forall x y : R, exists d : R, (Rabs d <= u)%R /\ fadd x y = ((x + y) * (1 + d))%R) ->
  (forall x y : R, exists d : R, (Rabs d <= u)%R /\ fsub x y = ((x - y) * (1 + d))%R) ->
  (forall x y : R, exists d : R, (Rabs d <= u)%R /\ fmul x y = (x * y * (1 + d))%R) ->
  (forall a b : R, fadd 0%R (fmul a b) = fmul a b) ->
  (forall x : R, (0 <= x)%R -> exists d : R, (Rabs d <= u)%R /\ fsqrt x = (R_sqrt.sqrt x * (1 + d))%R) ->
  forall n : nat, (2 * INR (n + 1) * u < 1)%R ->
  forall (a : nat -> nat -> R) (NA eA : R), (0 <= NA)%R -> (0 <= eA)%R ->
  (forall f : nat -> R, (N2 n (Ax n a f) <= NA * N2 n f)%R) ->
  forall mulA : list R -> res (list R),
  (forall v : list R, length v = n -> exists w : list R, mulA v = Ok w /\ length w = n /\
     (N2 n (fun i => vf w i - Ax n a (vf v) i) <= eA * N2 n (vf v))%R) ->
  forall (mulAT : list R -> res (list R)) (sv : solver) (b x0 : list R) (cols max : nat) (tol : R) (k : nat)
    (x : list R) (g : ghost (SARm fadd fsub fmul fdiv fsqrt)),
  sv <> QMR ->
  run (A := SARm fadd fsub fmul fdiv fsqrt) mulA mulAT n cols sv b x0 max tol = Ok (IOk k, x, g) ->
  (k <= max)%nat /\ length x = n /\ length (g_t g) = n /\ (0 <= t_X (g_X g))%R /\
  ((1 - rho u) ^ (updates sv k + 1) * N2 n (fun i => vf b i - Ax n a (vf x) i - vf (g_t g) i)
   <= (4 * INR (updates sv k) + 1) * ((rho u * NA + eA) * (kap u n * t_X (g_X g)) + rho u * N2 n (vf b)))%R.
Proof. intros u Hu fadd fsub fmul fdiv fsqrt Ha Hs Hm H0 Hq n Hn a NA eA HNA HeA HA mulA MV mulAT sv b x0 cols max tol k x g Hsv H. exact (run_drift_lemma u Hu fadd fsub fmul fdiv fsqrt Ha Hs Hm H0 Hq n Hn a NA eA HNA HeA HA mulA MV mulAT sv b x0 cols max tol k x g Hsv H). Qed.
Check residual_drift : forall (u : R), (0 <= u < 1)%R ->
  forall (fadd fsub fmul fdiv : R -> R -> R) (fsqrt : R -> R),
  (forall x y : R, exists d : R, (Rabs d <= u)%R /\ fadd x y = ((x + y) * (1 + d))%R) ->
  (forall x y : R, exists d : R, (Rabs d <= u)%R /\ fsub x y = ((x - y) * (1 + d))%R) ->
  (forall x y : R, exists d : R, (Rabs d <= u)%R /\ fmul x y = (x * y * (1 + d))%R) ->
  (forall a b : R, fadd 0%R (fmul a b) = fmul a b) ->
  (forall x : R, (0 <= x)%R -> exists d : R, (Rabs d <= u)%R /\ fsqrt x = (R_sqrt.sqrt x * (1 + d))%R) ->
  forall n : nat, (2 * INR (n + 1) * u < 1)%R ->
  forall (a : nat -> nat -> R) (NA eA : R), (0 <= NA)%R -> (0 <= eA)%R ->
  (forall f : nat -> R, (N2 n (Ax n a f) <= NA * N2 n f)%R) ->
  forall mulA : list R -> res (list R),
  (forall v : list R, length v = n -> exists w : list R, mulA v = Ok w /\ length w = n /\
     (N2 n (fun i => vf w i - Ax n a (vf v) i) <= eA * N2 n (vf v))%R) ->
  forall (mulAT : list R -> res (list R)) (sv : solver) (b x0 : list R) (cols max : nat) (tol : R) (k : nat)
    (x : list R) (g : ghost (SARm fadd fsub fmul fdiv fsqrt)),
  sv <> QMR ->
  run (A := SARm fadd fsub fmul fdiv fsqrt) mulA mulAT n cols sv b x0 max tol = Ok (IOk k, x, g) ->
  (k <= max)%nat /\ length x = n /\ length (g_t g) = n /\ (0 <= t_X (g_X g))%R /\
  ((1 - rho u) ^ (updates sv k + 1) * N2 n (fun i => vf b i - Ax n a (vf x) i - vf (g_t g) i)
   <= (4 * INR (updates sv k) + 1) * ((rho u * NA + eA) * (kap u n * t_X (g_X g)) + rho u * N2 n (vf b)))%R.
Print Assumptions residual_drift.
(* the hypotheses are met by an arithmetic that rounds every operation (53 bits, round-to-nearest-even, rounded square
   root) with the model's own CSC product of the 1x1 matrix [[2]] (NA = 2, eA = gam_1 * 2), and CG answers Ok(1) on
   2 x = 2 from x0 = 0 (one genuine iteration: the start-up test fails with resid = 1) *)
Example residual_drift_nonvacuous :
  (0 <= ux < 1)%R /\
  (forall x y : R, exists d : R, (Rabs d <= ux)%R /\ xadd x y = ((x + y) * (1 + d))%R) /\
  (forall x y : R, exists d : R, (Rabs d <= ux)%R /\ xsub x y = ((x - y) * (1 + d))%R) /\
  (forall x y : R, exists d : R, (Rabs d <= ux)%R /\ xmul x y = (x * y * (1 + d))%R) /\
  (forall x y : R, y <> 0%R -> exists d : R, (Rabs d <= ux)%R /\ xdiv x y = (x / y * (1 + d))%R) /\
  (forall a b : R, xadd 0%R (xmul a b) = xmul a b) /\
  (forall x : R, (0 <= x)%R -> exists d : R, (Rabs d <= ux)%R /\ xsqrt x = (R_sqrt.sqrt x * (1 + d))%R) /\
  (2 * INR (1 + 1) * ux < 1)%R /\ (0 <= 2)%R /\ (0 <= gam ux 1 * 2)%R /\
  (forall f : nat -> R, (N2 1 (Ax 1 (sp_rentry xadd xsub xmul xdiv sx1) f) <= 2 * N2 1 f)%R) /\
  (forall v : list R, length v = 1%nat -> exists w : list R, sp_mul sx1 v = Ok w /\ length w = 1%nat /\
     (N2 1 (fun i => vf w i - Ax 1 (sp_rentry xadd xsub xmul xdiv sx1) (vf v) i) <= (gam ux 1 * 2) * N2 1 (vf v))%R) /\
  CG <> QMR /\
  (exists g, run (A := SARm xadd xsub xmul xdiv xsqrt) (sp_mul sx1) (sp_tmul sx1) 1 1 CG [2%R] [0%R] 2 (/ 2)%R
             = Ok (IOk 1, [1%R], g)).
Proof.
  split; [exact ux_range|]. split; [exact xadd_ok|]. split; [exact xsub_ok|]. split; [exact xmul_ok|].
  split; [exact xdiv_ok|]. split; [exact xadd_0_mul|]. split; [exact xsqrt_ok|]. split; [exact ex_n_small|].
  split; [lra|]. split; [pose proof (gam_nonneg ux ux_range 1 ex_m_small); lra|].
  split; [apply sx1_norm; apply sx1_entry|]. split; [exact sx1_MV|]. split; [discriminate|exact cg_run_flx].
Qed.

Theorem ok_means_solved_rounded : forall (u : R), (0 <= u < 1)%R ->
  forall (fadd fsub fmul fdiv : R -> R -> R) (fsqrt : R -> R),
  (forall x y : R, exists d : R, (Rabs d <= u)%R /\ fadd x y = ((x + y) * (1 + d))%R) ->
  (forall x y : R, exists d : R, (Rabs d <= u)%R /\ fsub x y = ((x - y) * (1 + d))%R) ->
  (forall x y : R, exists d : R, (Rabs d <= u)%R /\ fmul x y = (x * y * (1 + d))%R) ->
  (forall x y : R, y <> 0%R -> exists d : R, (Rabs d <= u)%R /\ fdiv x y = (x / y * (1 + d))%R) ->
  (forall a b : R, fadd 0%R (fmul a b) = fmul a b) ->
  (forall x : R, (0 <= x)%R -> exists d : R, (Rabs d <= u)%R /\ fsqrt x = (R_sqrt.sqrt x * (1 + d))%R) ->
  forall n : nat, (2 * INR (n + 1) * u < 1)%R ->
  forall (a : nat -> nat -> R) (NA eA : R), (0 <= NA)%R -> (0 <= eA)%R ->
  (forall f : nat -> R, (N2 n (Ax n a f) <= NA * N2 n f)%R) ->
  forall mulA : list R -> res (list R),
  (forall v : list R, length v = n -> exists w : list R, mulA v = Ok w /\ length w = n /\
     (N2 n (fun i => vf w i - Ax n a (vf v) i) <= eA * N2 n (vf v))%R) ->
  forall (mulAT : list R -> res (list R)) (sv : solver) (b x0 : list R) (cols max : nat) (tol : R) (k : nat)
    (x : list R) (g : ghost (SARm fadd fsub fmul fdiv fsqrt)),
  sv <> QMR ->
  run (A := SARm fadd fsub fmul fdiv fsqrt) mulA mulAT n cols sv b x0 max tol = Ok (IOk k, x, g) ->
  (k <= max)%nat /\
  (N2 n (fun i => vf b i - Ax n a (vf x) i)
   <= tol * (kap u n * (1 + rho u) * (1 + gN u n)) * nzR (N2 n (vf b))
      + (4 * INR (updates sv k) + 1) * ((rho u * NA + eA) * (kap u n * t_X (g_X g)) + rho u * N2 n (vf b))
        / (1 - rho u) ^ (updates sv k + 1))%R.
Proof. intros u Hu fadd fsub fmul fdiv fsqrt Ha Hs Hm Hd H0 Hq n Hn a NA eA HNA HeA HA mulA MV mulAT sv b x0 cols max tol k x g Hsv H. exact (run_ok_means_solved_rounded_lemma u Hu fadd fsub fmul fdiv fsqrt Ha Hs Hm Hd H0 Hq n Hn a NA eA HNA HeA HA mulA MV mulAT sv b x0 cols max tol k x g Hsv H). Qed.
Check ok_means_solved_rounded : forall (u : R), (0 <= u < 1)%R ->
  forall (fadd fsub fmul fdiv : R -> R -> R) (fsqrt : R -> R),
  (forall x y : R, exists d : R, (Rabs d <= u)%R /\ fadd x y = ((x + y) * (1 + d))%R) ->
  (forall x y : R, exists d : R, (Rabs d <= u)%R /\ fsub x y = ((x - y) * (1 + d))%R) ->
  (forall x y : R, exists d : R, (Rabs d <= u)%R /\ fmul x y = (x * y * (1 + d))%R) ->
  (forall x y : R, y <> 0%R -> exists d : R, (Rabs d <= u)%R /\ fdiv x y = (x / y * (1 + d))%R) ->
  (forall a b : R, fadd 0%R (fmul a b) = fmul a b) ->
  (forall x : R, (0 <= x)%R -> exists d : R, (Rabs d <= u)%R /\ fsqrt x = (R_sqrt.sqrt x * (1 + d))%R) ->
  forall n : nat, (2 * INR (n + 1) * u < 1)%R ->
  forall (a : nat -> nat -> R) (NA eA : R), (0 <= NA)%R -> (0 <= eA)%R ->
  (forall f : nat -> R, (N2 n (Ax n a f) <= NA * N2 n f)%R) ->
  forall mulA : list R -> res (list R),
  (forall v : list R, length v = n -> exists w : list R, mulA v = Ok w /\ length w = n /\
     (N2 n (fun i => vf w i - Ax n a (vf v) i) <= eA * N2 n (vf v))%R) ->
  forall (mulAT : list R -> res (list R)) (sv : solver) (b x0 : list R) (cols max : nat) (tol : R) (k : nat)
    (x : list R) (g : ghost (SARm fadd fsub fmul fdiv fsqrt)),
  sv <> QMR ->
  run (A := SARm fadd fsub fmul fdiv fsqrt) mulA mulAT n cols sv b x0 max tol = Ok (IOk k, x, g) ->
  (k <= max)%nat /\
  (N2 n (fun i => vf b i - Ax n a (vf x) i)
   <= tol * (kap u n * (1 + rho u) * (1 + gN u n)) * nzR (N2 n (vf b))
      + (4 * INR (updates sv k) + 1) * ((rho u * NA + eA) * (kap u n * t_X (g_X g)) + rho u * N2 n (vf b))
        / (1 - rho u) ^ (updates sv k + 1))%R.
Print Assumptions ok_means_solved_rounded.
(* non-vacuity: the same instance as residual_drift_nonvacuous (all hypotheses, including the rounded division) *)
Example ok_means_solved_rounded_nonvacuous :
  (forall x y : R, y <> 0%R -> exists d : R, (Rabs d <= ux)%R /\ xdiv x y = (x / y * (1 + d))%R) /\
  (exists g, run (A := SARm xadd xsub xmul xdiv xsqrt) (sp_mul sx1) (sp_tmul sx1) 1 1 CG [2%R] [0%R] 2 (/ 2)%R
             = Ok (IOk 1, [1%R], g)).
Proof. split; [exact xdiv_ok|exact cg_run_flx]. Qed.

(* the allowance of the oracle (driver/c08.py: tol ||b||' + 64 (k+1) eps (||A|| X + ||b||), eps = 2u) as a corollary:
   it is implied when the product is accurate to eA <= c u NA and (4j+1)(1+c) amp <= 128 (k+1), where
   amp = kap (1+rho)/(1-rho)^(j+1) = 1 + O((j+n) u): for CG/BiCG any c <= 30 (amp <= 32/31), for BiCGSTAB any c <= 14 (amp <= 16/15) *)
Theorem ok_means_solved_oracle_allowance : forall (u : R), (0 <= u < 1)%R ->
  forall (fadd fsub fmul fdiv : R -> R -> R) (fsqrt : R -> R),
  (forall x y : R, exists d : R, (Rabs d <= u)%R /\ fadd x y = ((x + y) * (1 + d))%R) ->
  (forall x y : R, exists d : R, (Rabs d <= u)%R /\ fsub x y = ((x - y) * (1 + d))%R) ->
  (forall x y : R, exists d : R, (Rabs d <= u)%R /\ fmul x y = (x * y * (1 + d))%R) ->
  (forall x y : R, y <> 0%R -> exists d : R, (Rabs d <= u)%R /\ fdiv x y = (x / y * (1 + d))%R) ->
  (forall a b : R, fadd 0%R (fmul a b) = fmul a b) ->
  (forall x : R, (0 <= x)%R -> exists d : R, (Rabs d <= u)%R /\ fsqrt x = (R_sqrt.sqrt x * (1 + d))%R) ->
  forall n : nat, (2 * INR (n + 1) * u < 1)%R ->
  forall (a : nat -> nat -> R) (NA eA : R), (0 <= NA)%R -> (0 <= eA)%R ->
  (forall f : nat -> R, (N2 n (Ax n a f) <= NA * N2 n f)%R) ->
  forall mulA : list R -> res (list R),
  (forall v : list R, length v = n -> exists w : list R, mulA v = Ok w /\ length w = n /\
     (N2 n (fun i => vf w i - Ax n a (vf v) i) <= eA * N2 n (vf v))%R) ->
  forall (mulAT : list R -> res (list R)) (sv : solver) (b x0 : list R) (cols max : nat) (tol : R) (k : nat)
    (x : list R) (g : ghost (SARm fadd fsub fmul fdiv fsqrt)) (c : R),
  sv <> QMR -> (0 <= c)%R -> (eA <= c * (u * NA))%R ->
  ((4 * INR (updates sv k) + 1) * (1 + c) * amp u n (updates sv k) <= 128 * INR (k + 1))%R ->
  run (A := SARm fadd fsub fmul fdiv fsqrt) mulA mulAT n cols sv b x0 max tol = Ok (IOk k, x, g) ->
  (N2 n (fun i => vf b i - Ax n a (vf x) i)
   <= tol * (kap u n * (1 + rho u) * (1 + gN u n)) * nzR (N2 n (vf b))
      + 64 * INR (k + 1) * (2 * u) * (NA * t_X (g_X g) + N2 n (vf b)))%R.
Proof. intros u Hu fadd fsub fmul fdiv fsqrt Ha Hs Hm Hd H0 Hq n Hn a NA eA HNA HeA HA mulA MV mulAT sv b x0 cols max tol k x g c Hsv Hc He Hamp H. exact (run_ok_means_solved_allowance_lemma u Hu fadd fsub fmul fdiv fsqrt Ha Hs Hm Hd H0 Hq n Hn a NA eA HNA HeA HA mulA MV mulAT sv b x0 cols max tol k x g c Hsv Hc He Hamp H). Qed.
Check ok_means_solved_oracle_allowance : forall (u : R), (0 <= u < 1)%R ->
  forall (fadd fsub fmul fdiv : R -> R -> R) (fsqrt : R -> R),
  (forall x y : R, exists d : R, (Rabs d <= u)%R /\ fadd x y = ((x + y) * (1 + d))%R) ->
  (forall x y : R, exists d : R, (Rabs d <= u)%R /\ fsub x y = ((x - y) * (1 + d))%R) ->
  (forall x y : R, exists d : R, (Rabs d <= u)%R /\ fmul x y = (x * y * (1 + d))%R) ->
  (forall x y : R, y <> 0%R -> exists d : R, (Rabs d <= u)%R /\ fdiv x y = (x / y * (1 + d))%R) ->
  (forall a b : R, fadd 0%R (fmul a b) = fmul a b) ->
  (forall x : R, (0 <= x)%R -> exists d : R, (Rabs d <= u)%R /\ fsqrt x = (R_sqrt.sqrt x * (1 + d))%R) ->
  forall n : nat, (2 * INR (n + 1) * u < 1)%R ->
  forall (a : nat -> nat -> R) (NA eA : R), (0 <= NA)%R -> (0 <= eA)%R ->
  (forall f : nat -> R, (N2 n (Ax n a f) <= NA * N2 n f)%R) ->
  forall mulA : list R -> res (list R),
  (forall v : list R, length v = n -> exists w : list R, mulA v = Ok w /\ length w = n /\
     (N2 n (fun i => vf w i - Ax n a (vf v) i) <= eA * N2 n (vf v))%R) ->
  forall (mulAT : list R -> res (list R)) (sv : solver) (b x0 : list R) (cols max : nat) (tol : R) (k : nat)
    (x : list R) (g : ghost (SARm fadd fsub fmul fdiv fsqrt)) (c : R),
  sv <> QMR -> (0 <= c)%R -> (eA <= c * (u * NA))%R ->
  ((4 * INR (updates sv k) + 1) * (1 + c) * amp u n (updates sv k) <= 128 * INR (k + 1))%R ->
  run (A := SARm fadd fsub fmul fdiv fsqrt) mulA mulAT n cols sv b x0 max tol = Ok (IOk k, x, g) ->
  (N2 n (fun i => vf b i - Ax n a (vf x) i)
   <= tol * (kap u n * (1 + rho u) * (1 + gN u n)) * nzR (N2 n (vf b))
      + 64 * INR (k + 1) * (2 * u) * (NA * t_X (g_X g) + N2 n (vf b)))%R.
Print Assumptions ok_means_solved_oracle_allowance.
(* non-vacuity: on the instance of residual_drift_nonvacuous (n = 1, NA = 2, eA = gam_1 * 2, k = 1) the two extra
   hypotheses hold with c = 2 *)
Example ok_means_solved_oracle_allowance_nonvacuous :
  (0 <= 2)%R /\ (gam ux 1 * 2 <= 2 * (ux * 2))%R /\
  ((4 * INR (updates CG 1) + 1) * (1 + 2) * amp ux 1 (updates CG 1) <= 128 * INR (1 + 1))%R /\
  (exists g, run (A := SARm xadd xsub xmul xdiv xsqrt) (sp_mul sx1) (sp_tmul sx1) 1 1 CG [2%R] [0%R] 2 (/ 2)%R
             = Ok (IOk 1, [1%R], g)).
Proof. split; [lra|]. split; [exact ex_eA_c|]. split; [exact ex_amp|exact cg_run_flx]. Qed.

(* the same for the entry point the correspondence check runs ([run_sparse]: the solvers on a CSC matrix with the model's
   own products), every constant computable from the stored matrix: NA = ||A||_F, eA = gam_m || |A| ||_F (Frobenius
   norms), m = the longest stored row *)
Theorem run_sparse_ok_means_solved_rounded : forall (u : R), (0 <= u < 1)%R ->
  forall (fadd fsub fmul fdiv : R -> R -> R) (fsqrt : R -> R),
  (forall x y : R, exists d : R, (Rabs d <= u)%R /\ fadd x y = ((x + y) * (1 + d))%R) ->
  (forall x y : R, exists d : R, (Rabs d <= u)%R /\ fsub x y = ((x - y) * (1 + d))%R) ->
  (forall x y : R, exists d : R, (Rabs d <= u)%R /\ fmul x y = (x * y * (1 + d))%R) ->
  (forall x y : R, y <> 0%R -> exists d : R, (Rabs d <= u)%R /\ fdiv x y = (x / y * (1 + d))%R) ->
  (forall a b : R, fadd 0%R (fmul a b) = fmul a b) ->
  (forall x : R, (0 <= x)%R -> exists d : R, (Rabs d <= u)%R /\ fsqrt x = (R_sqrt.sqrt x * (1 + d))%R) ->
  forall (s : sparse (ARm fadd fsub fmul fdiv)) (n m : nat) (sv : solver) (b x0 : list R) (max : nat) (tol : R) (k : nat)
    (x : list R) (g : ghost (SARm fadd fsub fmul fdiv fsqrt)),
  wfS s -> sp_rows s = n -> sp_cols s = n ->
  (forall i, (i < n)%nat -> (length (row_entries s i) <= m)%nat) -> (INR m * u < 1)%R ->
  (2 * INR (n + 1) * u < 1)%R -> sv <> QMR ->
  run_sparse (A := SARm fadd fsub fmul fdiv fsqrt) sv s b x0 max tol = Ok (IOk k, x, g) ->
  (k <= max)%nat /\
  (N2 n (fun i => vf b i - Ax n (sp_rentry fadd fsub fmul fdiv s) (vf x) i)
   <= tol * (kap u n * (1 + rho u) * (1 + gN u n)) * nzR (N2 n (vf b))
      + (4 * INR (updates sv k) + 1)
        * ((rho u * frob n (sp_rentry fadd fsub fmul fdiv s) + gam u m * frob n (sp_rabs fadd fsub fmul fdiv s))
             * (kap u n * t_X (g_X g)) + rho u * N2 n (vf b))
        / (1 - rho u) ^ (updates sv k + 1))%R.
Proof. intros u Hu fadd fsub fmul fdiv fsqrt Ha Hs Hm Hd H0 Hq s n m sv b x0 max tol k x g. exact (run_sparse_ok_means_solved_rounded_lemma u Hu fadd fsub fmul fdiv fsqrt Ha Hs Hm Hd H0 Hq s n m sv b x0 max tol k x g). Qed.
Check run_sparse_ok_means_solved_rounded : forall (u : R), (0 <= u < 1)%R ->
  forall (fadd fsub fmul fdiv : R -> R -> R) (fsqrt : R -> R),
  (forall x y : R, exists d : R, (Rabs d <= u)%R /\ fadd x y = ((x + y) * (1 + d))%R) ->
  (forall x y : R, exists d : R, (Rabs d <= u)%R /\ fsub x y = ((x - y) * (1 + d))%R) ->
  (forall x y : R, exists d : R, (Rabs d <= u)%R /\ fmul x y = (x * y * (1 + d))%R) ->
  (forall x y : R, y <> 0%R -> exists d : R, (Rabs d <= u)%R /\ fdiv x y = (x / y * (1 + d))%R) ->
  (forall a b : R, fadd 0%R (fmul a b) = fmul a b) ->
  (forall x : R, (0 <= x)%R -> exists d : R, (Rabs d <= u)%R /\ fsqrt x = (R_sqrt.sqrt x * (1 + d))%R) ->
  forall (s : sparse (ARm fadd fsub fmul fdiv)) (n m : nat) (sv : solver) (b x0 : list R) (max : nat) (tol : R) (k : nat)
    (x : list R) (g : ghost (SARm fadd fsub fmul fdiv fsqrt)),
  wfS s -> sp_rows s = n -> sp_cols s = n ->
  (forall i, (i < n)%nat -> (length (row_entries s i) <= m)%nat) -> (INR m * u < 1)%R ->
  (2 * INR (n + 1) * u < 1)%R -> sv <> QMR ->
  run_sparse (A := SARm fadd fsub fmul fdiv fsqrt) sv s b x0 max tol = Ok (IOk k, x, g) ->
  (k <= max)%nat /\
  (N2 n (fun i => vf b i - Ax n (sp_rentry fadd fsub fmul fdiv s) (vf x) i)
   <= tol * (kap u n * (1 + rho u) * (1 + gN u n)) * nzR (N2 n (vf b))
      + (4 * INR (updates sv k) + 1)
        * ((rho u * frob n (sp_rentry fadd fsub fmul fdiv s) + gam u m * frob n (sp_rabs fadd fsub fmul fdiv s))
             * (kap u n * t_X (g_X g)) + rho u * N2 n (vf b))
        / (1 - rho u) ^ (updates sv k + 1))%R.
Print Assumptions run_sparse_ok_means_solved_rounded.
Example run_sparse_ok_means_solved_rounded_nonvacuous :
  wfS sx1 /\ sp_rows sx1 = 1%nat /\ sp_cols sx1 = 1%nat /\
  (forall i, (i < 1)%nat -> (length (row_entries sx1 i) <= 1)%nat) /\ (INR 1 * ux < 1)%R /\
  (2 * INR (1 + 1) * ux < 1)%R /\ CG <> QMR /\
  (exists g, run_sparse (A := SARm xadd xsub xmul xdiv xsqrt) CG sx1 [2%R] [0%R] 2 (/ 2)%R = Ok (IOk 1, [1%R], g)).
Proof.
  split; [exact sx1_wf|]. split; [reflexivity|]. split; [reflexivity|]. split; [exact sx1_rows|].
  split; [exact ex_m_small|]. split; [exact ex_n_small|]. split; [discriminate|exact cg_run_flx].
Qed.

(* the model's compressed-column product meets the accuracy hypothesis with eA = gam_m || |A| ||_2 *)
Theorem sparse_product_accuracy : forall (u : R), (0 <= u < 1)%R ->
  forall (fadd fsub fmul fdiv : R -> R -> R),
  (forall x y : R, exists d : R, (Rabs d <= u)%R /\ fadd x y = ((x + y) * (1 + d))%R) ->
  (forall x y : R, exists d : R, (Rabs d <= u)%R /\ fmul x y = (x * y * (1 + d))%R) ->
  (forall a b : R, fadd 0%R (fmul a b) = fmul a b) ->
  forall (s : sparse (ARm fadd fsub fmul fdiv)) (n m : nat) (NabsA : R),
  wfS s -> sp_rows s = n -> sp_cols s = n ->
  (forall i, (i < n)%nat -> (length (row_entries s i) <= m)%nat) -> (INR m * u < 1)%R -> (0 <= NabsA)%R ->
  (forall f : nat -> R, (N2 n (Ax n (sp_rabs fadd fsub fmul fdiv s) f) <= NabsA * N2 n f)%R) ->
  forall v : list R, length v = n -> exists w : list R, sp_mul s v = Ok w /\ length w = n /\
    (N2 n (fun i => vf w i - Ax n (sp_rentry fadd fsub fmul fdiv s) (vf v) i) <= (gam u m * NabsA) * N2 n (vf v))%R.
Proof. intros u Hu fadd fsub fmul fdiv Ha Hm H0 s n m NabsA. exact (sparse_MV u Hu fadd fsub fmul fdiv Ha Hm H0 s n m NabsA). Qed.
Check sparse_product_accuracy : forall (u : R), (0 <= u < 1)%R ->
  forall (fadd fsub fmul fdiv : R -> R -> R),
  (forall x y : R, exists d : R, (Rabs d <= u)%R /\ fadd x y = ((x + y) * (1 + d))%R) ->
  (forall x y : R, exists d : R, (Rabs d <= u)%R /\ fmul x y = (x * y * (1 + d))%R) ->
  (forall a b : R, fadd 0%R (fmul a b) = fmul a b) ->
  forall (s : sparse (ARm fadd fsub fmul fdiv)) (n m : nat) (NabsA : R),
  wfS s -> sp_rows s = n -> sp_cols s = n ->
  (forall i, (i < n)%nat -> (length (row_entries s i) <= m)%nat) -> (INR m * u < 1)%R -> (0 <= NabsA)%R ->
  (forall f : nat -> R, (N2 n (Ax n (sp_rabs fadd fsub fmul fdiv s) f) <= NabsA * N2 n f)%R) ->
  forall v : list R, length v = n -> exists w : list R, sp_mul s v = Ok w /\ length w = n /\
    (N2 n (fun i => vf w i - Ax n (sp_rentry fadd fsub fmul fdiv s) (vf v) i) <= (gam u m * NabsA) * N2 n (vf v))%R.
Print Assumptions sparse_product_accuracy.
Example sparse_product_accuracy_nonvacuous :
  wfS sx1 /\ sp_rows sx1 = 1%nat /\ sp_cols sx1 = 1%nat /\
  (forall i, (i < 1)%nat -> (length (row_entries sx1 i) <= 1)%nat) /\ (INR 1 * ux < 1)%R /\ (0 <= 2)%R /\
  (forall f : nat -> R, (N2 1 (Ax 1 (sp_rabs xadd xsub xmul xdiv sx1) f) <= 2 * N2 1 f)%R).
Proof.
  split; [exact sx1_wf|]. split; [reflexivity|]. split; [reflexivity|]. split; [exact sx1_rows|].
  split; [exact ex_m_small|]. split; [lra|]. apply sx1_norm. apply sx1_entry.
Qed.

(* the drift is real: at binary64 the model's CG on [[2,1],[1,2]] x = (3,3) from x0 = (1e10, 7e9) with tol = 1e-12 answers
   Ok(4) with a first residual component of 1.9e-6 (relative residual 4.5e-7): the recurrence residual passed the test,
   the true residual is five orders of magnitude above tol -- 0.12 units of k u (||A|| X + ||b||)/||b||', inside the bound *)
From Coq Require Import Floats.
From OV Require Import Inst.FloatInst Proofs.ComplexRound Proofs.Round2X1.
Example residual_drift_is_real : exists g,
  run_trip (A := SAF) CG 2 2 drift_ts [3%float; 3%float] [10000000000%float; 7000000000%float] 50 drift_tol
    = Ok (IOk 4, drift_x, g) /\
  (FR drift_tol <= 1 / 1000000000000 + 1 / 10000000000000000000000000000)%R /\
  (2 * FR (nth 0 drift_x 0%float) + FR (nth 1 drift_x 0%float) - 3 >= 1 / 1000000)%R.
Proof. exact drift_is_real. Qed.

(* pending blocks of package iter2 for Props/C08.v -- append to the END of the file, as they stand.
   The block starts with its own import sentences: they repeat the imports of the property file and add the proof files of
   this package, so the block is independent of what was appended before it (a later `Require Import Floats` -- as in the
   r2c2 block -- shadows leb/ltb/div/sqrt of Base.Arith with the primitive-float versions; re-importing Base.Arith after it
   restores them).  Compiled copy of exactly these sentences: coq/Proofs/PinTest_iter2.v *)
From Coq Require Import List Arith ZArith Floats Reals.
From OV Require Import Base.Panic Base.Arith Model.Vector Model.Matrix Model.Sparse Model.Iter Inst.FloatInst Inst.QcInst
  Proofs.Iter Proofs.IterField Proofs.IterInst Proofs.IterR Proofs.IterRows.
From OV Require Import Proofs.SparseBase Proofs.SparseMul Proofs.IterSparse Proofs.IterSparseErr Proofs.IterSparseR
  Proofs.IterSparseBreakdown Proofs.IterCGExamples.
Import ListNotations.

(* ---- round two (package iter2): the theorems above for the IMPLEMENTATION'S OWN matrix type.
        [run_sparse sv s b x0 n tol] = run at the CSC products sp_mul s / sp_tmul s and the public fields
        sp_rows s / sp_cols s (run_sparse_is_run above): the function the correspondence check runs against the
        executor.  [wfS s] = the storage invariant of C06 (Proofs/SparseBase.v; duplicates allowed);
        [sp_apply s x] = the textbook product of the matrix the storage denotes, entry i = sum_j (sp_entry s i j) x_j
        (C07: sp_mul_spec).  No hypothesis on the shape: a run that returns anything passed the solver's own
        guards, so the matrix is square and the vectors have its order (solver_guards_square). ---- *)

(* the hypothesis LinOp of ok_means_solved / residual_invariant_* / exact_guess_ok0 discharged for EVERY well-formed square
   compressed-sparse-column storage, from package sparse's sp_mul_spec (ring laws only) *)
Theorem sparse_is_linop : forall (A : Arith), RingLaws A -> forall (s : sparse A) n,
  wfS s -> sp_rows s = n -> sp_cols s = n -> LinOp n (sp_mul s).
Proof. intros A RL s n. exact (sp_mul_LinOp RL s n). Qed.
Check sparse_is_linop : forall (A : Arith), RingLaws A -> forall (s : sparse A) n,
  wfS s -> sp_rows s = n -> sp_cols s = n -> LinOp n (sp_mul s).
Print Assumptions sparse_is_linop.
Example sparse_is_linop_nonvacuous : wfS exq_s /\ sp_rows exq_s = 2 /\ sp_cols exq_s = 2.
Proof. split; [exact exq_s_wf | split; reflexivity]. Qed.

(* ... and transpose_multiply is total on vectors of length n and adjoint to multiply:  <y, A x> = <A^T y, x>  (AdjOp) *)
Theorem sparse_tmul_is_adjoint : forall (A : Arith), RingLaws A -> forall (s : sparse A) n,
  wfS s -> sp_rows s = n -> sp_cols s = n -> AdjOp n (sp_mul s) (sp_tmul s).
Proof. intros A RL s n. exact (sp_mul_AdjOp RL s n). Qed.
Check sparse_tmul_is_adjoint : forall (A : Arith), RingLaws A -> forall (s : sparse A) n,
  wfS s -> sp_rows s = n -> sp_cols s = n -> AdjOp n (sp_mul s) (sp_tmul s).
Print Assumptions sparse_tmul_is_adjoint.
Example sparse_tmul_is_adjoint_nonvacuous : wfS exq_s /\ sp_rows exq_s = 2 /\ sp_cols exq_s = 2.
Proof. split; [exact exq_s_wf | split; reflexivity]. Qed.

(* any arithmetic: whatever a solver returns (Ok or Err), the matrix was square and b, x0 have its order *)
Theorem solver_guards_square : forall (A : SArith) sv (s : sparse (SA A)) b x0 n tol o,
  run_sparse sv s b x0 n tol = Ok o ->
  sp_rows s = sp_cols s /\ length b = sp_rows s /\ length x0 = sp_rows s.
Proof. intros A sv s b x0 n tol o. exact (@run_sparse_square A sv s b x0 n tol o). Qed.
Check solver_guards_square : forall (A : SArith) sv (s : sparse (SA A)) b x0 n tol o,
  run_sparse sv s b x0 n tol = Ok o ->
  sp_rows s = sp_cols s /\ length b = sp_rows s /\ length x0 = sp_rows s.
Print Assumptions solver_guards_square.
Example solver_guards_square_nonvacuous : exists x g, @run_sparse SAQ CG exq_s [q 1 1; q 2 1] [q 2 1; q 1 1] 10 (q 1 1000) = Ok (IOk 2, x, g).
Proof. apply exq_run_sparse_ok. intros itol H; discriminate H. Qed.

(* every field, every well-formed storage, every solver, every exit (Ok or Err), every budget: the recurrence residual the
   last test looked at IS the true residual b - A x of the returned x, A the matrix the storage denotes *)
Theorem residual_invariant_sparse : forall (A : SArith), FieldLaws (SA A) ->
  forall sv (s : sparse (SA A)) b x0 max tol r x g,
  wfS s -> run_sparse sv s b x0 max tol = Ok (r, x, g) ->
  g_t g = zipw sub b (sp_apply s x) /\ length x = sp_cols s.
Proof. intros A FL sv s b x0 max tol r x g. exact (run_sparse_tracks FL sv s b x0 max tol r x g). Qed.
Check residual_invariant_sparse : forall (A : SArith), FieldLaws (SA A) ->
  forall sv (s : sparse (SA A)) b x0 max tol r x g,
  wfS s -> run_sparse sv s b x0 max tol = Ok (r, x, g) ->
  g_t g = zipw sub b (sp_apply s x) /\ length x = sp_cols s.
Print Assumptions residual_invariant_sparse.
Example residual_invariant_sparse_nonvacuous : wfS exq_s /\ forall sv, (forall itol, sv = BiCG itol -> itol = 1 \/ itol = 2) ->
  exists x g, @run_sparse SAQ sv exq_s [q 1 1; q 2 1] [q 2 1; q 1 1] 10 (q 1 1000) = Ok (IOk 2, x, g).
Proof. split; [exact exq_s_wf | exact exq_run_sparse_ok]. Qed.

Theorem residual_invariant_cg_sparse : forall (A : SArith), FieldLaws (SA A) ->
  forall (s : sparse (SA A)) b x0 max tol r x g,
  wfS s -> run_sparse CG s b x0 max tol = Ok (r, x, g) ->
  g_t g = zipw sub b (sp_apply s x) /\ length x = sp_cols s.
Proof. intros A FL s b x0 max tol r x g. exact (run_sparse_tracks FL CG s b x0 max tol r x g). Qed.
Check residual_invariant_cg_sparse : forall (A : SArith), FieldLaws (SA A) ->
  forall (s : sparse (SA A)) b x0 max tol r x g,
  wfS s -> run_sparse CG s b x0 max tol = Ok (r, x, g) ->
  g_t g = zipw sub b (sp_apply s x) /\ length x = sp_cols s.
Print Assumptions residual_invariant_cg_sparse.

Theorem residual_invariant_bicg_sparse : forall (A : SArith), FieldLaws (SA A) ->
  forall itol (s : sparse (SA A)) b x0 max tol r x g,
  wfS s -> run_sparse (BiCG itol) s b x0 max tol = Ok (r, x, g) ->
  g_t g = zipw sub b (sp_apply s x) /\ length x = sp_cols s.
Proof. intros A FL itol s b x0 max tol r x g. exact (run_sparse_tracks FL (BiCG itol) s b x0 max tol r x g). Qed.
Check residual_invariant_bicg_sparse : forall (A : SArith), FieldLaws (SA A) ->
  forall itol (s : sparse (SA A)) b x0 max tol r x g,
  wfS s -> run_sparse (BiCG itol) s b x0 max tol = Ok (r, x, g) ->
  g_t g = zipw sub b (sp_apply s x) /\ length x = sp_cols s.
Print Assumptions residual_invariant_bicg_sparse.

Theorem residual_invariant_bicgstab_sparse : forall (A : SArith), FieldLaws (SA A) ->
  forall (s : sparse (SA A)) b x0 max tol r x g,
  wfS s -> run_sparse BiCGSTAB s b x0 max tol = Ok (r, x, g) ->
  g_t g = zipw sub b (sp_apply s x) /\ length x = sp_cols s.
Proof. intros A FL s b x0 max tol r x g. exact (run_sparse_tracks FL BiCGSTAB s b x0 max tol r x g). Qed.
Check residual_invariant_bicgstab_sparse : forall (A : SArith), FieldLaws (SA A) ->
  forall (s : sparse (SA A)) b x0 max tol r x g,
  wfS s -> run_sparse BiCGSTAB s b x0 max tol = Ok (r, x, g) ->
  g_t g = zipw sub b (sp_apply s x) /\ length x = sp_cols s.
Print Assumptions residual_invariant_bicgstab_sparse.

Theorem residual_invariant_qmr_sparse : forall (A : SArith), FieldLaws (SA A) ->
  forall (s : sparse (SA A)) b x0 max tol r x g,
  wfS s -> run_sparse QMR s b x0 max tol = Ok (r, x, g) ->
  g_t g = zipw sub b (sp_apply s x) /\ length x = sp_cols s.
Proof. intros A FL s b x0 max tol r x g. exact (run_sparse_tracks FL QMR s b x0 max tol r x g). Qed.
Check residual_invariant_qmr_sparse : forall (A : SArith), FieldLaws (SA A) ->
  forall (s : sparse (SA A)) b x0 max tol r x g,
  wfS s -> run_sparse QMR s b x0 max tol = Ok (r, x, g) ->
  g_t g = zipw sub b (sp_apply s x) /\ length x = sp_cols s.
Print Assumptions residual_invariant_qmr_sparse.

(* Ok k: the TRUE residual of the returned x passes the code's own test ||b - A x|| / ||b||' <= tol (or <), for every
   well-formed storage (no hypothesis on shape, symmetry, definiteness, or on the transposed product) *)
Theorem ok_means_solved_sparse : forall (A : SArith), FieldLaws (SA A) ->
  forall sv (s : sparse (SA A)) b x0 max tol k x g,
  wfS s -> run_sparse sv s b x0 max tol = Ok (IOk k, x, g) ->
  exists resid, div (norm2 (zipw sub b (sp_apply s x))) (nz (norm2 b)) = Ok resid /\
                (leb resid tol = true \/ ltb resid tol = true).
Proof. intros A FL sv s b x0 max tol k x g. exact (run_sparse_ok_solved FL sv s b x0 max tol k x g). Qed.
Check ok_means_solved_sparse : forall (A : SArith), FieldLaws (SA A) ->
  forall sv (s : sparse (SA A)) b x0 max tol k x g,
  wfS s -> run_sparse sv s b x0 max tol = Ok (IOk k, x, g) ->
  exists resid, div (norm2 (zipw sub b (sp_apply s x))) (nz (norm2 b)) = Ok resid /\
                (leb resid tol = true \/ ltb resid tol = true).
Print Assumptions ok_means_solved_sparse.
Example ok_means_solved_sparse_nonvacuous : wfS exq_s /\ exists x g, @run_sparse SAQ BiCGSTAB exq_s [q 1 1; q 2 1] [q 2 1; q 1 1] 10 (q 1 1000) = Ok (IOk 2, x, g).
Proof. split; [exact exq_s_wf|]. apply exq_run_sparse_ok. intros itol H; discriminate H. Qed.

(* the same against the dense conversion Sparse::to_dense (DESIGN Appendix E's formulation), for storage holding no position twice:
   mentry D i j = entry (i,j) of the row-major buffer, dmulv = the textbook matrix-vector product *)
Theorem ok_means_solved_sparse_dense : forall (A : SArith), FieldLaws (SA A) ->
  forall sv (s : sparse (SA A)) b x0 max tol k x g,
  wfS s -> NoDupKeys s -> run_sparse sv s b x0 max tol = Ok (IOk k, x, g) ->
  exists D resid, sp_to_dense s = Ok D /\
    div (norm2 (zipw sub b (dmulv (mentry D) (rows D) (cols D) x))) (nz (norm2 b)) = Ok resid /\
    (leb resid tol = true \/ ltb resid tol = true).
Proof. intros A FL sv s b x0 max tol k x g. exact (run_sparse_ok_solved_dense FL sv s b x0 max tol k x g). Qed.
Check ok_means_solved_sparse_dense : forall (A : SArith), FieldLaws (SA A) ->
  forall sv (s : sparse (SA A)) b x0 max tol k x g,
  wfS s -> NoDupKeys s -> run_sparse sv s b x0 max tol = Ok (IOk k, x, g) ->
  exists D resid, sp_to_dense s = Ok D /\
    div (norm2 (zipw sub b (dmulv (mentry D) (rows D) (cols D) x))) (nz (norm2 b)) = Ok resid /\
    (leb resid tol = true \/ ltb resid tol = true).
Print Assumptions ok_means_solved_sparse_dense.
Example ok_means_solved_sparse_dense_nonvacuous : wfS exq_s /\ NoDupKeys exq_s.
Proof. split; [exact exq_s_wf | exact exq_s_nodup]. Qed.

(* over the real numbers with the standard square root:  ||b - A x||_2 <= tol * ||b||'  for every well-formed storage *)
Theorem ok_means_solved_sparse_R : forall sv (s : sparse AR) (b x0 : list R) max (tol : R) k x g,
  wfS s -> @run_sparse SAR sv s b x0 max tol = Ok (IOk k, x, g) ->
  (@norm2 SAR (@zipw AR Rminus b (@sp_apply AR s x)) <= tol * @nz SAR (@norm2 SAR b))%R.
Proof. intros sv s b x0 max tol k x g. exact (run_sparse_ok_solved_R sv s b x0 max tol k x g). Qed.
Check ok_means_solved_sparse_R : forall sv (s : sparse AR) (b x0 : list R) max (tol : R) k x g,
  wfS s -> @run_sparse SAR sv s b x0 max tol = Ok (IOk k, x, g) ->
  (@norm2 SAR (@zipw AR Rminus b (@sp_apply AR s x)) <= tol * @nz SAR (@norm2 SAR b))%R.
Print Assumptions ok_means_solved_sparse_R.
Example ok_means_solved_sparse_R_nonvacuous : wfS exr_s /\ exists b g, length b = 2 /\
    @run_sparse SAR CG exr_s b [1%R; 2%R] 5 1%R = Ok (IOk 0, [1%R; 2%R], g).
Proof. split; [exact exr_s_wf|]. apply exr_run_ok. intros itol H; discriminate H. Qed.

(* ---- the other half: what a reported FAILURE means.  ANY arithmetic (floats included), every solver, every Err exit (budget exhausted or a
   breakdown exit): the value e of Err(e) is the code's error measure norm2 / ||b||' of the very vector the ghost g_t names (the recurrence
   residual); and an Err through budget exhaustion (exit code 2) carries a value that FAILED the last convergence test *)
Theorem err_value_reported : forall (A : SArith) (mulA mulAT : list (T (SA A)) -> res (list (T (SA A)))) rows cols
    sv b x0 n tol e x g,
  run mulA mulAT rows cols sv b x0 n tol = Ok (IErr e, x, g) ->
  div (norm2 (g_t g)) (nz (norm2 b)) = Ok e /\ (g_exit g = 2 -> leb e tol = false \/ ltb e tol = false).
Proof. intros A mulA mulAT rows cols sv b x0 n tol e x g. exact (run_err_value mulA mulAT rows cols sv b x0 n tol e x g). Qed.
Check err_value_reported : forall (A : SArith) (mulA mulAT : list (T (SA A)) -> res (list (T (SA A)))) rows cols
    sv b x0 n tol e x g,
  run mulA mulAT rows cols sv b x0 n tol = Ok (IErr e, x, g) ->
  div (norm2 (g_t g)) (nz (norm2 b)) = Ok e /\ (g_exit g = 2 -> leb e tol = false \/ ltb e tol = false).
Print Assumptions err_value_reported.
Example err_value_reported_nonvacuous : exit_code kf_stab_run = Some 10 /\ exit_code kf_qmr_run = Some 21 /\ exit_code (kf_bicg_run 1) = Some 2.
Proof. split; [exact kf_stab_exit_lemma|]. split; [exact kf_qmr_exit_lemma | exact (proj1 (proj2 (proj2 bicg_no_breakdown_test_lemma)))]. Qed.

(* over a field with a linear product: Err(e) reports the TRUE relative residual ||b - A x|| / ||b||' of the returned x *)
Theorem err_reports_true_residual : forall (A : SArith), FieldLaws (SA A) ->
  forall n (mulA mulAT : list (T (SA A)) -> res (list (T (SA A)))) cols sv b x0 max tol e x g,
  LinOp n mulA -> run mulA mulAT n cols sv b x0 max tol = Ok (IErr e, x, g) ->
  exists ax, mulA x = Ok ax /\ div (norm2 (zipw sub b ax)) (nz (norm2 b)) = Ok e /\
    (g_exit g = 2 -> leb e tol = false \/ ltb e tol = false).
Proof. intros A FL n mulA mulAT cols sv b x0 max tol e x g. exact (run_err_true_residual FL n mulA mulAT cols sv b x0 max tol e x g). Qed.
Check err_reports_true_residual : forall (A : SArith), FieldLaws (SA A) ->
  forall n (mulA mulAT : list (T (SA A)) -> res (list (T (SA A)))) cols sv b x0 max tol e x g,
  LinOp n mulA -> run mulA mulAT n cols sv b x0 max tol = Ok (IErr e, x, g) ->
  exists ax, mulA x = Ok ax /\ div (norm2 (zipw sub b ax)) (nz (norm2 b)) = Ok e /\
    (g_exit g = 2 -> leb e tol = false \/ ltb e tol = false).
Print Assumptions err_reports_true_residual.
Example err_reports_true_residual_nonvacuous : LinOp 2 (@sp_mul AQ exq_s) /\ exists e x g,
    @run SAQ (sp_mul exq_s) (sp_tmul exq_s) 2 2 CG [q 1 1; q 2 1] [q 2 1; q 1 1] 1 (q 1 1000) = Ok (IErr e, x, g).
Proof. split; [exact exq_lin|]. apply (@is_err_witness SAQ). vm_compute. reflexivity. Qed.

Theorem err_reports_true_residual_sparse : forall (A : SArith), FieldLaws (SA A) ->
  forall sv (s : sparse (SA A)) b x0 max tol e x g,
  wfS s -> run_sparse sv s b x0 max tol = Ok (IErr e, x, g) ->
  div (norm2 (zipw sub b (sp_apply s x))) (nz (norm2 b)) = Ok e /\
  (g_exit g = 2 -> leb e tol = false \/ ltb e tol = false).
Proof. intros A FL sv s b x0 max tol e x g. exact (run_sparse_err_true_residual FL sv s b x0 max tol e x g). Qed.
Check err_reports_true_residual_sparse : forall (A : SArith), FieldLaws (SA A) ->
  forall sv (s : sparse (SA A)) b x0 max tol e x g,
  wfS s -> run_sparse sv s b x0 max tol = Ok (IErr e, x, g) ->
  div (norm2 (zipw sub b (sp_apply s x))) (nz (norm2 b)) = Ok e /\
  (g_exit g = 2 -> leb e tol = false \/ ltb e tol = false).
Print Assumptions err_reports_true_residual_sparse.
Example err_reports_true_residual_sparse_nonvacuous : wfS exq_s /\ exists e x g,
    @run_sparse SAQ CG exq_s [q 1 1; q 2 1] [q 2 1; q 1 1] 1 (q 1 1000) = Ok (IErr e, x, g).
Proof. split; [exact exq_s_wf|]. apply (@is_err_witness SAQ). vm_compute. reflexivity. Qed.

(* over R: e = ||b - A x||_2 / ||b||', and after budget exhaustion tol <= e: Ok k <-> solved to tol, Err(e) at exhaustion <-> not below tol *)
Theorem err_reports_true_residual_sparse_R : forall sv (s : sparse AR) (b x0 : list R) max (tol : R) e x g,
  wfS s -> @run_sparse SAR sv s b x0 max tol = Ok (IErr e, x, g) ->
  e = (@norm2 SAR (@zipw AR Rminus b (@sp_apply AR s x)) * / @nz SAR (@norm2 SAR b))%R /\
  (g_exit g = 2 -> (tol <= e)%R).
Proof. intros sv s b x0 max tol e x g. exact (run_sparse_err_true_residual_R sv s b x0 max tol e x g). Qed.
Check err_reports_true_residual_sparse_R : forall sv (s : sparse AR) (b x0 : list R) max (tol : R) e x g,
  wfS s -> @run_sparse SAR sv s b x0 max tol = Ok (IErr e, x, g) ->
  e = (@norm2 SAR (@zipw AR Rminus b (@sp_apply AR s x)) * / @nz SAR (@norm2 SAR b))%R /\
  (g_exit g = 2 -> (tol <= e)%R).
Print Assumptions err_reports_true_residual_sparse_R.
