(* Props/C08.v -- stub, to be filled in *)
