(* Props/C09.v -- stub, to be filled in *)
