(* Props/C09.v -- iterative solvers: degenerate starts.  Property theorems only.
   The CONVERGENCE half of C09 (Ok within O(n) iterations on SPD / strictly diagonally dominant systems,
   agreement with the direct solution) is NOT proved here or anywhere: it is a statement about
   floating-point Krylov iterations and is covered by the failing-input search of driver/c09.py only
   (which found the Krylov-breakdown class recorded in KNOWN_FINDINGS.txt / findings/C09-krylov-breakdown.md).
   The pre-repair BiCG and its refutation witness are in Legacy/C09Refuted.v (bicg_legacy_refuted). *)
From Coq Require Import List Arith ZArith Floats.
From OV Require Import Base.Panic Base.Arith Model.Vector Model.Matrix Model.Sparse Model.Iter Inst.QcInst Inst.FloatInst
  Proofs.Iter Proofs.IterField Proofs.IterInst Proofs.IterRows.
Import ListNotations.

(* Over any field, with any function sqrt such that sqrt 0 = 0 (and |0| = 0), any matrix given by a
   linear product, any size n, any budget, any tolerance with 0 <= tol, every solver (BiCG with either
   error measure; after the repair d2fe329): a guess whose residual b - A x0 is the zero vector is
   accepted at once -- Ok 0 -- and x0 is returned untouched.  This is exact_guess_ok0_{cg,bicg,bicgstab,qmr}
   of DESIGN Appendix E as one statement over the solver tag. *)
Theorem exact_guess_ok0 : forall (A : SArith), FieldLaws (SA A) -> SqrtLaws A ->
  forall n (mulA mulAT : list (T (SA A)) -> res (list (T (SA A)))) sv b x0 max tol ax,
  LinOp n mulA -> (forall itol, sv = BiCG itol -> itol = 1 \/ itol = 2) ->
  length b = n -> length x0 = n -> mulA x0 = Ok ax -> zipw sub b ax = repeat zero n ->
  leb zero tol = true ->
  exists g, run mulA mulAT n n sv b x0 max tol = Ok (IOk 0, x0, g).
Proof. intros A FL SL n mulA mulAT sv b x0 max tol ax LO Hit Hb Hx Eax Er Htol. exact (run_exact_guess FL SL n mulA mulAT LO sv b x0 max tol ax Hit Hb Hx Eax Er Htol). Qed.
Check exact_guess_ok0 : forall (A : SArith), FieldLaws (SA A) -> SqrtLaws A ->
  forall n (mulA mulAT : list (T (SA A)) -> res (list (T (SA A)))) sv b x0 max tol ax,
  LinOp n mulA -> (forall itol, sv = BiCG itol -> itol = 1 \/ itol = 2) ->
  length b = n -> length x0 = n -> mulA x0 = Ok ax -> zipw sub b ax = repeat zero n ->
  leb zero tol = true ->
  exists g, run mulA mulAT n n sv b x0 max tol = Ok (IOk 0, x0, g).
Print Assumptions exact_guess_ok0.

(* the same with the hypothesis LinOp discharged: EVERY square matrix of EVERY order, given as its list of rows
   (rmul = the code's dot product of each row with the vector, rprod = the textbook product) *)
Theorem exact_guess_ok0_rows : forall (A : SArith), FieldLaws (SA A) -> SqrtLaws A ->
  forall n (rs : list (list (T (SA A)))) (mulAT : list (T (SA A)) -> res (list (T (SA A)))) sv b x0 max tol,
  length rs = n -> Forall (fun r => length r = n) rs ->
  (forall itol, sv = BiCG itol -> itol = 1 \/ itol = 2) ->
  length b = n -> length x0 = n -> zipw sub b (rprod rs x0) = repeat zero n ->
  leb zero tol = true ->
  exists g, run (rmul rs) mulAT n n sv b x0 max tol = Ok (IOk 0, x0, g).
Proof. intros A FL SL n rs mulAT sv b x0 max tol Hn Hrs Hit Hb Hx Er Htol. exact (run_exact_guess_rows FL SL n rs mulAT sv b x0 max tol Hn Hrs Hit Hb Hx Er Htol). Qed.
Check exact_guess_ok0_rows : forall (A : SArith), FieldLaws (SA A) -> SqrtLaws A ->
  forall n (rs : list (list (T (SA A)))) (mulAT : list (T (SA A)) -> res (list (T (SA A)))) sv b x0 max tol,
  length rs = n -> Forall (fun r => length r = n) rs ->
  (forall itol, sv = BiCG itol -> itol = 1 \/ itol = 2) ->
  length b = n -> length x0 = n -> zipw sub b (rprod rs x0) = repeat zero n ->
  leb zero tol = true ->
  exists g, run (rmul rs) mulAT n n sv b x0 max tol = Ok (IOk 0, x0, g).
Print Assumptions exact_guess_ok0_rows.

(* non-vacuity: the identity matrix of order 2 over Qc, b = x0 = (5, -3) *)
Example exact_guess_ok0_rows_nonvacuous :
  Forall (fun r : list AQ => length r = 2) [[q 1 1; q 0 1]; [q 0 1; q 1 1]] /\
  @zipw AQ sub [q 5 1; q (-3) 1] (@rprod AQ [[q 1 1; q 0 1]; [q 0 1; q 1 1]] [q 5 1; q (-3) 1]) = repeat zero 2.
Proof.
  split; [repeat constructor|].
  cbn [rprod map dot_raw combine fold_left fst snd zipw repeat].
  apply f_equal2; [apply Qcanon.Qc_is_canon; vm_compute; reflexivity|].
  apply f_equal2; [apply Qcanon.Qc_is_canon; vm_compute; reflexivity | reflexivity].
Qed.

(* zero right-hand side with a zero guess: Ok 0, x stays the zero vector *)
Theorem zero_rhs_zero_guess_ok0 : forall (A : SArith), FieldLaws (SA A) -> SqrtLaws A ->
  forall n (mulA mulAT : list (T (SA A)) -> res (list (T (SA A)))) sv max tol,
  LinOp n mulA -> (forall itol, sv = BiCG itol -> itol = 1 \/ itol = 2) ->
  leb zero tol = true ->
  exists g, run mulA mulAT n n sv (repeat zero n) (repeat zero n) max tol = Ok (IOk 0, repeat zero n, g).
Proof. intros A FL SL n mulA mulAT sv max tol LO Hit Htol. exact (run_zero_rhs_zero_guess FL SL n mulA mulAT LO sv max tol Hit Htol). Qed.
Check zero_rhs_zero_guess_ok0 : forall (A : SArith), FieldLaws (SA A) -> SqrtLaws A ->
  forall n (mulA mulAT : list (T (SA A)) -> res (list (T (SA A)))) sv max tol,
  LinOp n mulA -> (forall itol, sv = BiCG itol -> itol = 1 \/ itol = 2) ->
  leb zero tol = true ->
  exists g, run mulA mulAT n n sv (repeat zero n) (repeat zero n) max tol = Ok (IOk 0, repeat zero n, g).
Print Assumptions zero_rhs_zero_guess_ok0.

(* a zero budget never touches x (any arithmetic; also part of C08) -- "never corrupt a correct x" *)
Theorem zero_budget_keeps_x : forall (A : SArith) (mulA mulAT : list (T (SA A)) -> res (list (T (SA A)))) rows cols
    sv b x0 tol o x g,
  run mulA mulAT rows cols sv b x0 0 tol = Ok (o, x, g) -> x = x0.
Proof. intros A mulA mulAT rows cols sv b x0 tol o x g H. exact (run_zero_budget mulA mulAT rows cols sv b x0 tol o x g H). Qed.
Check zero_budget_keeps_x : forall (A : SArith) (mulA mulAT : list (T (SA A)) -> res (list (T (SA A)))) rows cols
    sv b x0 tol o x g,
  run mulA mulAT rows cols sv b x0 0 tol = Ok (o, x, g) -> x = x0.
Print Assumptions zero_budget_keeps_x.

(* non-vacuity: Qc (AQ_FieldLaws, SAQ_SqrtLaws), the CSC matrix [[4,1],[1,3]] (exq_lin), the guess
   x0 = (1/11, 7/11) and b := A x0 (= (1,2)): b - A x0 is the zero vector; tol = 0 is allowed *)
Example exact_guess_ok0_nonvacuous :
  LinOp 2 (@sp_mul AQ exq_s) /\ SqrtLaws SAQ /\
  (exists b ax, @sp_mul AQ exq_s [q 1 11; q 7 11] = Ok ax /\ length b = 2 /\ @zipw AQ sub b ax = repeat zero 2) /\
  @leb AQ zero zero = true.
Proof.
  split; [exact exq_lin|]. split; [exact SAQ_SqrtLaws|]. split; [|reflexivity].
  rewrite exq_mul. match goal with |- exists b ax, Ok ?v = Ok ax /\ _ => exists v, v end.
  split; [reflexivity|]. split; [reflexivity|].
  exact (@zipw_sub_self SAQ AQ_FieldLaws _).
Qed.

(* ANY arithmetic, floats included: whenever the start-up residual r = b - A x0 that the code forms passes
   the code's own test (norm2 r / ||b||' <= tol), every solver -- the repaired BiCG included -- returns Ok 0
   at once and x0 is untouched.  This is the floating-point face of exact_guess_ok0 (in f64 an exact guess
   gives r = 0, norm 0, 0/||b||' = 0 <= tol); the pre-repair BiCG violates it (Legacy/C09Refuted.v). *)
Theorem startup_accepts : forall (A : SArith) (mulA mulAT : list (T (SA A)) -> res (list (T (SA A)))) rows cols
    sv b x0 max tol ax r e,
  (forall itol, sv = BiCG itol -> itol = 1 \/ itol = 2) ->
  guards rows cols b x0 = Ok tt -> mulA x0 = Ok ax -> vsub b ax = Ok r ->
  div (norm2 r) (nz (norm2 b)) = Ok e -> leb e tol = true ->
  exists g, run mulA mulAT rows cols sv b x0 max tol = Ok (IOk 0, x0, g).
Proof. intros A mulA mulAT rows cols sv b x0 max tol ax r e Hit Hg Eax Er Ee Ht. exact (run_startup_accepts mulA mulAT rows cols sv b x0 max tol ax r e Hit Hg Eax Er Ee Ht). Qed.
Check startup_accepts : forall (A : SArith) (mulA mulAT : list (T (SA A)) -> res (list (T (SA A)))) rows cols
    sv b x0 max tol ax r e,
  (forall itol, sv = BiCG itol -> itol = 1 \/ itol = 2) ->
  guards rows cols b x0 = Ok tt -> mulA x0 = Ok ax -> vsub b ax = Ok r ->
  div (norm2 r) (nz (norm2 b)) = Ok e -> leb e tol = true ->
  exists g, run mulA mulAT rows cols sv b x0 max tol = Ok (IOk 0, x0, g).
Print Assumptions startup_accepts.

(* non-vacuity in f64: diag(2,3), b = (2,3), exact guess x0 = (1,1) -- the witness of the repaired defect *)
Definition exf_s : sparse AF := @mkS AF 2 2 2 [2; 3]%float [0; 1] [0; 1; 2].
Example startup_accepts_nonvacuous :
  @guards SAF 2 2 [2; 3]%float [1; 1]%float = Ok tt /\
  @sp_mul AF exf_s [1; 1]%float = Ok [2; 3]%float /\
  @vsub AF [2; 3]%float [2; 3]%float = Ok [0; 0]%float /\
  @div AF (@norm2 SAF [0; 0]%float) (@nz SAF (@norm2 SAF [2; 3]%float)) = Ok 0%float /\
  @leb AF 0%float (Z.ldexp 1%float (-26)%Z) = true.
Proof. repeat split; vm_compute; reflexivity. Qed.
(* ---- tie of the model to the source of this run (package r2c2): gen/SrcIter.v is regenerated from src/sparse.rs by
   driver/rust2coq.py on every check run; Proofs/SrcEqIter.v proves ERASURE -- each regenerated Krylov solver equals the
   hand-written model of Model/Iter.v with the ghost projected away (er (result, x, ghost) = (x, result)), for every
   arithmetic with a square root, every matrix (well-formed or not), every b, x, budget and tolerance; panics included. *)
From OV Require Proofs.SrcEqIter.
Theorem model_is_source_C09_Iter : forall F : SArith, @SrcEqIter.model_is_source_Iter F.
Proof. intros F. exact SrcEqIter.model_is_source_Iter_lemma. Qed.
Check model_is_source_C09_Iter : forall F : SArith, @SrcEqIter.model_is_source_Iter F.
Print Assumptions model_is_source_C09_Iter.
(* non-vacuity: the regenerated solvers run (float instance, the 2x2 SPD system [[4,1],[1,3]] x = [1,2]) and converge in
   two iterations to x = [1/11, 7/11] up to rounding -- the erasure equations above are not between two panics *)
From Coq Require Import Floats.
From OV Require Import Inst.FloatInst.
Example model_is_source_C09_Iter_nonvacuous :
  let M : sparse AF := @mkS AF 2 2 4 [4;1;1;3]%float [0;1;0;1] [0;2;4] in
  match SrcIter.s_solve_cg (F:=SAF) M ([1;2]%float : list (T AF)) ([0;0]%float : list (T AF)) 10 (0x1p-30%float : T AF),
        SrcIter.s_solve_qmr (F:=SAF) M ([1;2]%float : list (T AF)) ([0;0]%float : list (T AF)) 10 (0x1p-30%float : T AF) with
  | Ok (_, IOk 2), Ok (_, IOk 2) => True
  | _, _ => False
  end.
Proof. vm_compute. exact I. Qed.
