(* Props/C09.v -- iterative solvers: degenerate starts, and convergence in exact arithmetic.  Property theorems only.
   First block: the degenerate-start half.  Block "iter2" (end of file): the CONVERGENCE half as far as exact
   arithmetic allows -- CG conjugacy and finite termination on SPD / symmetric diagonally dominant systems over R,
   BiCG = CG on symmetric matrices, BiCG bi-orthogonality and breakdown-or-terminate on arbitrary matrices, the exits of
   BiCGSTAB / QMR, and the left-eigenvector class of the breakdowns recorded in KNOWN_FINDINGS.txt /
   findings/C09-krylov-breakdown.md.  What is NOT proved here or anywhere: every statement about the FLOATING-POINT
   Krylov iterations (Ok within 3n+10 iterations, agreement with the direct solution): failing-input search of
   driver/c09.py only.  The pre-repair BiCG and its refutation witness are in Legacy/C09Refuted.v (bicg_legacy_refuted). *)
From Coq Require Import List Arith ZArith Floats.
From OV Require Import Base.Panic Base.Arith Model.Vector Model.Matrix Model.Sparse Model.Iter Inst.QcInst Inst.FloatInst
  Proofs.Iter Proofs.IterField Proofs.IterInst Proofs.IterRows.
Import ListNotations.

(* Over any field, with any function sqrt such that sqrt 0 = 0 (and |0| = 0), any matrix given by a
   linear product, any size n, any budget, any tolerance with 0 <= tol, every solver (BiCG with either
   error measure; after the repair d2fe329): a guess whose residual b - A x0 is the zero vector is
   accepted at once -- Ok 0 -- and x0 is returned untouched.  This is exact_guess_ok0_{cg,bicg,bicgstab,qmr}
   of DESIGN Appendix E as one statement over the solver tag. *)
Theorem exact_guess_ok0 : forall (A : SArith), FieldLaws (SA A) -> SqrtLaws A ->
  forall n (mulA mulAT : list (T (SA A)) -> res (list (T (SA A)))) sv b x0 max tol ax,
  LinOp n mulA -> (forall itol, sv = BiCG itol -> itol = 1 \/ itol = 2) ->
  length b = n -> length x0 = n -> mulA x0 = Ok ax -> zipw sub b ax = repeat zero n ->
  leb zero tol = true ->
  exists g, run mulA mulAT n n sv b x0 max tol = Ok (IOk 0, x0, g).
Proof. intros A FL SL n mulA mulAT sv b x0 max tol ax LO Hit Hb Hx Eax Er Htol. exact (run_exact_guess FL SL n mulA mulAT LO sv b x0 max tol ax Hit Hb Hx Eax Er Htol). Qed.
Check exact_guess_ok0 : forall (A : SArith), FieldLaws (SA A) -> SqrtLaws A ->
  forall n (mulA mulAT : list (T (SA A)) -> res (list (T (SA A)))) sv b x0 max tol ax,
  LinOp n mulA -> (forall itol, sv = BiCG itol -> itol = 1 \/ itol = 2) ->
  length b = n -> length x0 = n -> mulA x0 = Ok ax -> zipw sub b ax = repeat zero n ->
  leb zero tol = true ->
  exists g, run mulA mulAT n n sv b x0 max tol = Ok (IOk 0, x0, g).
Print Assumptions exact_guess_ok0.

(* the same with the hypothesis LinOp discharged: EVERY square matrix of EVERY order, given as its list of rows
   (rmul = the code's dot product of each row with the vector, rprod = the textbook product) *)
Theorem exact_guess_ok0_rows : forall (A : SArith), FieldLaws (SA A) -> SqrtLaws A ->
  forall n (rs : list (list (T (SA A)))) (mulAT : list (T (SA A)) -> res (list (T (SA A)))) sv b x0 max tol,
  length rs = n -> Forall (fun r => length r = n) rs ->
  (forall itol, sv = BiCG itol -> itol = 1 \/ itol = 2) ->
  length b = n -> length x0 = n -> zipw sub b (rprod rs x0) = repeat zero n ->
  leb zero tol = true ->
  exists g, run (rmul rs) mulAT n n sv b x0 max tol = Ok (IOk 0, x0, g).
Proof. intros A FL SL n rs mulAT sv b x0 max tol Hn Hrs Hit Hb Hx Er Htol. exact (run_exact_guess_rows FL SL n rs mulAT sv b x0 max tol Hn Hrs Hit Hb Hx Er Htol). Qed.
Check exact_guess_ok0_rows : forall (A : SArith), FieldLaws (SA A) -> SqrtLaws A ->
  forall n (rs : list (list (T (SA A)))) (mulAT : list (T (SA A)) -> res (list (T (SA A)))) sv b x0 max tol,
  length rs = n -> Forall (fun r => length r = n) rs ->
  (forall itol, sv = BiCG itol -> itol = 1 \/ itol = 2) ->
  length b = n -> length x0 = n -> zipw sub b (rprod rs x0) = repeat zero n ->
  leb zero tol = true ->
  exists g, run (rmul rs) mulAT n n sv b x0 max tol = Ok (IOk 0, x0, g).
Print Assumptions exact_guess_ok0_rows.

(* non-vacuity: the identity matrix of order 2 over Qc, b = x0 = (5, -3) *)
Example exact_guess_ok0_rows_nonvacuous :
  Forall (fun r : list AQ => length r = 2) [[q 1 1; q 0 1]; [q 0 1; q 1 1]] /\
  @zipw AQ sub [q 5 1; q (-3) 1] (@rprod AQ [[q 1 1; q 0 1]; [q 0 1; q 1 1]] [q 5 1; q (-3) 1]) = repeat zero 2.
Proof.
  split; [repeat constructor|].
  cbn [rprod map dot_raw combine fold_left fst snd zipw repeat].
  apply f_equal2; [apply Qcanon.Qc_is_canon; vm_compute; reflexivity|].
  apply f_equal2; [apply Qcanon.Qc_is_canon; vm_compute; reflexivity | reflexivity].
Qed.

(* zero right-hand side with a zero guess: Ok 0, x stays the zero vector *)
Theorem zero_rhs_zero_guess_ok0 : forall (A : SArith), FieldLaws (SA A) -> SqrtLaws A ->
  forall n (mulA mulAT : list (T (SA A)) -> res (list (T (SA A)))) sv max tol,
  LinOp n mulA -> (forall itol, sv = BiCG itol -> itol = 1 \/ itol = 2) ->
  leb zero tol = true ->
  exists g, run mulA mulAT n n sv (repeat zero n) (repeat zero n) max tol = Ok (IOk 0, repeat zero n, g).
Proof. intros A FL SL n mulA mulAT sv max tol LO Hit Htol. exact (run_zero_rhs_zero_guess FL SL n mulA mulAT LO sv max tol Hit Htol). Qed.
Check zero_rhs_zero_guess_ok0 : forall (A : SArith), FieldLaws (SA A) -> SqrtLaws A ->
  forall n (mulA mulAT : list (T (SA A)) -> res (list (T (SA A)))) sv max tol,
  LinOp n mulA -> (forall itol, sv = BiCG itol -> itol = 1 \/ itol = 2) ->
  leb zero tol = true ->
  exists g, run mulA mulAT n n sv (repeat zero n) (repeat zero n) max tol = Ok (IOk 0, repeat zero n, g).
Print Assumptions zero_rhs_zero_guess_ok0.

(* a zero budget never touches x (any arithmetic; also part of C08) -- "never corrupt a correct x" *)
Theorem zero_budget_keeps_x : forall (A : SArith) (mulA mulAT : list (T (SA A)) -> res (list (T (SA A)))) rows cols
    sv b x0 tol o x g,
  run mulA mulAT rows cols sv b x0 0 tol = Ok (o, x, g) -> x = x0.
Proof. intros A mulA mulAT rows cols sv b x0 tol o x g H. exact (run_zero_budget mulA mulAT rows cols sv b x0 tol o x g H). Qed.
Check zero_budget_keeps_x : forall (A : SArith) (mulA mulAT : list (T (SA A)) -> res (list (T (SA A)))) rows cols
    sv b x0 tol o x g,
  run mulA mulAT rows cols sv b x0 0 tol = Ok (o, x, g) -> x = x0.
Print Assumptions zero_budget_keeps_x.

(* non-vacuity: Qc (AQ_FieldLaws, SAQ_SqrtLaws), the CSC matrix [[4,1],[1,3]] (exq_lin), the guess
   x0 = (1/11, 7/11) and b := A x0 (= (1,2)): b - A x0 is the zero vector; tol = 0 is allowed *)
Example exact_guess_ok0_nonvacuous :
  LinOp 2 (@sp_mul AQ exq_s) /\ SqrtLaws SAQ /\
  (exists b ax, @sp_mul AQ exq_s [q 1 11; q 7 11] = Ok ax /\ length b = 2 /\ @zipw AQ sub b ax = repeat zero 2) /\
  @leb AQ zero zero = true.
Proof.
  split; [exact exq_lin|]. split; [exact SAQ_SqrtLaws|]. split; [|reflexivity].
  rewrite exq_mul. match goal with |- exists b ax, Ok ?v = Ok ax /\ _ => exists v, v end.
  split; [reflexivity|]. split; [reflexivity|].
  exact (@zipw_sub_self SAQ AQ_FieldLaws _).
Qed.

(* ANY arithmetic, floats included: whenever the start-up residual r = b - A x0 that the code forms passes
   the code's own test (norm2 r / ||b||' <= tol), every solver -- the repaired BiCG included -- returns Ok 0
   at once and x0 is untouched.  This is the floating-point face of exact_guess_ok0 (in f64 an exact guess
   gives r = 0, norm 0, 0/||b||' = 0 <= tol); the pre-repair BiCG violates it (Legacy/C09Refuted.v). *)
Theorem startup_accepts : forall (A : SArith) (mulA mulAT : list (T (SA A)) -> res (list (T (SA A)))) rows cols
    sv b x0 max tol ax r e,
  (forall itol, sv = BiCG itol -> itol = 1 \/ itol = 2) ->
  guards rows cols b x0 = Ok tt -> mulA x0 = Ok ax -> vsub b ax = Ok r ->
  div (norm2 r) (nz (norm2 b)) = Ok e -> leb e tol = true ->
  exists g, run mulA mulAT rows cols sv b x0 max tol = Ok (IOk 0, x0, g).
Proof. intros A mulA mulAT rows cols sv b x0 max tol ax r e Hit Hg Eax Er Ee Ht. exact (run_startup_accepts mulA mulAT rows cols sv b x0 max tol ax r e Hit Hg Eax Er Ee Ht). Qed.
Check startup_accepts : forall (A : SArith) (mulA mulAT : list (T (SA A)) -> res (list (T (SA A)))) rows cols
    sv b x0 max tol ax r e,
  (forall itol, sv = BiCG itol -> itol = 1 \/ itol = 2) ->
  guards rows cols b x0 = Ok tt -> mulA x0 = Ok ax -> vsub b ax = Ok r ->
  div (norm2 r) (nz (norm2 b)) = Ok e -> leb e tol = true ->
  exists g, run mulA mulAT rows cols sv b x0 max tol = Ok (IOk 0, x0, g).
Print Assumptions startup_accepts.

(* non-vacuity in f64: diag(2,3), b = (2,3), exact guess x0 = (1,1) -- the witness of the repaired defect *)
Definition exf_s : sparse AF := @mkS AF 2 2 2 [2; 3]%float [0; 1] [0; 1; 2].
Example startup_accepts_nonvacuous :
  @guards SAF 2 2 [2; 3]%float [1; 1]%float = Ok tt /\
  @sp_mul AF exf_s [1; 1]%float = Ok [2; 3]%float /\
  @vsub AF [2; 3]%float [2; 3]%float = Ok [0; 0]%float /\
  @div AF (@norm2 SAF [0; 0]%float) (@nz SAF (@norm2 SAF [2; 3]%float)) = Ok 0%float /\
  @leb AF 0%float (Z.ldexp 1%float (-26)%Z) = true.
Proof. repeat split; vm_compute; reflexivity. Qed.
(* ---- tie of the model to the source of this run (package r2c2): gen/SrcIter.v is regenerated from src/sparse.rs by
   driver/rust2coq.py on every check run; Proofs/SrcEqIter.v proves ERASURE -- each regenerated Krylov solver equals the
   hand-written model of Model/Iter.v with the ghost projected away (er (result, x, ghost) = (x, result)), for every
   arithmetic with a square root, every matrix (well-formed or not), every b, x, budget and tolerance; panics included. *)
From OV Require Proofs.SrcEqIter.
Theorem model_is_source_C09_Iter : forall F : SArith, @SrcEqIter.model_is_source_Iter F.
Proof. intros F. exact SrcEqIter.model_is_source_Iter_lemma. Qed.
Check model_is_source_C09_Iter : forall F : SArith, @SrcEqIter.model_is_source_Iter F.
Print Assumptions model_is_source_C09_Iter.
(* non-vacuity: the regenerated solvers run (float instance, the 2x2 SPD system [[4,1],[1,3]] x = [1,2]) and converge in
   two iterations to x = [1/11, 7/11] up to rounding -- the erasure equations above are not between two panics *)
From Coq Require Import Floats.
From OV Require Import Inst.FloatInst.
Example model_is_source_C09_Iter_nonvacuous :
  let M : sparse AF := @mkS AF 2 2 4 [4;1;1;3]%float [0;1;0;1] [0;2;4] in
  match SrcIter.s_solve_cg (F:=SAF) M ([1;2]%float : list (T AF)) ([0;0]%float : list (T AF)) 10 (0x1p-30%float : T AF),
        SrcIter.s_solve_qmr (F:=SAF) M ([1;2]%float : list (T AF)) ([0;0]%float : list (T AF)) 10 (0x1p-30%float : T AF) with
  | Ok (_, IOk 2), Ok (_, IOk 2) => True
  | _, _ => False
  end.
Proof. vm_compute. exact I. Qed.

(* pending blocks of package iter2 for Props/C09.v -- append to the END of the file, as they stand.
   The block starts with its own import sentences: they repeat the imports of the property file and add the proof files of
   this package, so the block is independent of what was appended before it (a later `Require Import Floats` -- as in the
   r2c2 block -- shadows leb/ltb/div/sqrt of Base.Arith with the primitive-float versions; re-importing Base.Arith after it
   restores them).  Compiled copy of exactly these sentences: coq/Proofs/PinTest_iter2.v *)
From Coq Require Import List Arith ZArith Floats Reals.
From OV Require Import Base.Panic Base.Arith Model.Vector Model.Matrix Model.Sparse Model.Iter Inst.FloatInst Inst.QcInst
  Proofs.Iter Proofs.IterField Proofs.IterInst Proofs.IterR Proofs.IterRows.
From OV Require Import Proofs.SparseBase Proofs.SparseMul Proofs.IterR Proofs.IterSparse Proofs.IterSparseR Proofs.IterSparseBreakdown Proofs.IterSparseBreakdownField Proofs.IterSparseBreakdownQMR Proofs.IterSparseBreakdownTri
  Proofs.IterCGVec Proofs.IterCGDim Proofs.IterCG Proofs.IterCGR Proofs.IterCGBi Proofs.IterCGBiOrth Proofs.IterCGSparse Proofs.IterCGDominant Proofs.IterCGOneStep Proofs.IterCGOneStepR
  Proofs.IterCGExamples.
Import ListNotations.

(* ---- round two (package iter2).  (1) the degenerate starts for the implementation's own matrix type;
        (2) the CONVERGENCE half for conjugate gradients, as far as exact arithmetic allows -- theorems about the
        MODEL's solve_cg (Model/Iter.v, cg_body: the loop of src/sparse.rs:441-487 statement by statement) over any
        field / over R with the exact square root; they say nothing about f64 rounding, which stays search-only;
        (3) the breakdown exits of BiCG / BiCGSTAB / QMR characterised (the three open findings). ---- *)

(* every well-formed square storage: a guess with b - A x0 = 0 (A the matrix the storage denotes) is accepted at once, x0 untouched *)
Theorem exact_guess_ok0_sparse : forall (A : SArith), FieldLaws (SA A) -> SqrtLaws A ->
  forall sv (s : sparse (SA A)) b x0 max tol,
  wfS s -> sp_rows s = sp_cols s -> length b = sp_rows s -> length x0 = sp_rows s ->
  (forall itol, sv = BiCG itol -> itol = 1 \/ itol = 2) ->
  zipw sub b (sp_apply s x0) = repeat zero (sp_rows s) -> leb zero tol = true ->
  exists g, run_sparse sv s b x0 max tol = Ok (IOk 0, x0, g).
Proof. intros A FL SL sv s b x0 max tol. exact (run_sparse_exact_guess FL SL sv s b x0 max tol). Qed.
Check exact_guess_ok0_sparse : forall (A : SArith), FieldLaws (SA A) -> SqrtLaws A ->
  forall sv (s : sparse (SA A)) b x0 max tol,
  wfS s -> sp_rows s = sp_cols s -> length b = sp_rows s -> length x0 = sp_rows s ->
  (forall itol, sv = BiCG itol -> itol = 1 \/ itol = 2) ->
  zipw sub b (sp_apply s x0) = repeat zero (sp_rows s) -> leb zero tol = true ->
  exists g, run_sparse sv s b x0 max tol = Ok (IOk 0, x0, g).
Print Assumptions exact_guess_ok0_sparse.
Example exact_guess_ok0_sparse_nonvacuous : wfS exq_s /\ sp_rows exq_s = sp_cols exq_s /\
  @zipw AQ sub [q 1 1; q 2 1] (@sp_apply AQ exq_s [q 1 11; q 7 11]) = repeat zero (sp_rows exq_s).
Proof. split; [exact exq_s_wf|]. split; [reflexivity | exact exq_exact_guess]. Qed.

Theorem zero_rhs_zero_guess_ok0_sparse : forall (A : SArith), FieldLaws (SA A) -> SqrtLaws A ->
  forall sv (s : sparse (SA A)) max tol,
  wfS s -> sp_rows s = sp_cols s -> (forall itol, sv = BiCG itol -> itol = 1 \/ itol = 2) -> leb zero tol = true ->
  exists g, run_sparse sv s (repeat zero (sp_rows s)) (repeat zero (sp_rows s)) max tol
            = Ok (IOk 0, repeat zero (sp_rows s), g).
Proof. intros A FL SL sv s max tol. exact (run_sparse_zero_rhs_zero_guess FL SL sv s max tol). Qed.
Check zero_rhs_zero_guess_ok0_sparse : forall (A : SArith), FieldLaws (SA A) -> SqrtLaws A ->
  forall sv (s : sparse (SA A)) max tol,
  wfS s -> sp_rows s = sp_cols s -> (forall itol, sv = BiCG itol -> itol = 1 \/ itol = 2) -> leb zero tol = true ->
  exists g, run_sparse sv s (repeat zero (sp_rows s)) (repeat zero (sp_rows s)) max tol
            = Ok (IOk 0, repeat zero (sp_rows s), g).
Print Assumptions zero_rhs_zero_guess_ok0_sparse.
Example zero_rhs_zero_guess_ok0_sparse_nonvacuous : wfS exq_s /\ sp_rows exq_s = sp_cols exq_s /\ SqrtLaws SAQ.
Proof. split; [exact exq_s_wf|]. split; [reflexivity | exact SAQ_SqrtLaws]. Qed.

(* (c) the full conjugacy invariant.  [cg_hist body s0 i s Rs Ps] (Proofs/IterCG.v): the loop started in s0 has reached iteration i
   in state s through i-1 Continue steps of its own body; Rs = the residuals r_{i-2} .. r_0 of the earlier iterations, Ps = the search
   directions p_{i-2} .. p_0, newest first.  Over ANY field, any sqrt, any total linear product symmetric w.r.t. the code's dot
   (SymOp: <u, A v> = <A u, v>), any tol / normb / start state of the right sizes: the residuals r_0 .. r_{i-1} are mutually
   orthogonal, the directions mutually A-conjugate, and the current residual is orthogonal to every direction.  (A division by zero
   is a Panic of the model, so the statement speaks of every run that did not break down.) *)
Theorem cg_full_conjugacy : forall (A : SArith), FieldLaws (SA A) ->
  forall n (mulA : list (T (SA A)) -> res (list (T (SA A)))), LinOp n mulA -> SymOp n mulA ->
  forall tol normb s0 i s Rs Ps, (length (cg_x s0) = n /\ length (cg_r s0) = n /\ length (cg_p s0) = n /\ length (cg_z s0) = n) ->
  cg_hist (cg_body mulA n tol normb) s0 i s Rs Ps ->
  ForallOrdPairs (fun u v => dot_raw u v = zero) (cg_r s :: Rs) /\
  ForallOrdPairs (fun p1 p2 => exists q2, mulA p2 = Ok q2 /\ dot_raw p1 q2 = zero) Ps /\
  Forall (fun p => dot_raw (cg_r s) p = zero) Ps /\ length Rs = i - 1 /\ length Ps = i - 1.
Proof. intros A FL n mulA LO SYM tol normb s0 i s Rs Ps. exact (cg_hist_conjugacy FL n mulA LO SYM tol normb s0 i s Rs Ps). Qed.
Check cg_full_conjugacy : forall (A : SArith), FieldLaws (SA A) ->
  forall n (mulA : list (T (SA A)) -> res (list (T (SA A)))), LinOp n mulA -> SymOp n mulA ->
  forall tol normb s0 i s Rs Ps, (length (cg_x s0) = n /\ length (cg_r s0) = n /\ length (cg_p s0) = n /\ length (cg_z s0) = n) ->
  cg_hist (cg_body mulA n tol normb) s0 i s Rs Ps ->
  ForallOrdPairs (fun u v => dot_raw u v = zero) (cg_r s :: Rs) /\
  ForallOrdPairs (fun p1 p2 => exists q2, mulA p2 = Ok q2 /\ dot_raw p1 q2 = zero) Ps /\
  Forall (fun p => dot_raw (cg_r s) p = zero) Ps /\ length Rs = i - 1 /\ length Ps = i - 1.
Print Assumptions cg_full_conjugacy.
Example cg_full_conjugacy_nonvacuous : LinOp 2 (@sp_mul AQ exq_s) /\ SymOp 2 (@sp_mul AQ exq_s) /\ @cg_lens SAQ 2 exq_s0 /\
  exists s1 Rs Ps, @cg_hist SAQ exq_body exq_s0 2 s1 Rs Ps /\ Rs = [[q (-8) 1; q (-3) 1]].
Proof. split; [exact exq_lin|]. split; [exact (sp_mul_SymOp AQ_RingLaws exq_s 2 exq_s_wf eq_refl eq_refl exq_s_sym)|]. exact exq_cg_hist. Qed.

(* (b) after every step: r_{k+1} _|_ p_k and r_{k+1} _|_ r_k  (cg_p = the direction just used, cg_z = the residual before the step) *)
Theorem cg_residuals_orthogonal : forall (A : SArith), FieldLaws (SA A) ->
  forall n (mulA : list (T (SA A)) -> res (list (T (SA A)))), LinOp n mulA -> SymOp n mulA ->
  forall tol normb s0 i s Rs Ps, (length (cg_x s0) = n /\ length (cg_r s0) = n /\ length (cg_p s0) = n /\ length (cg_z s0) = n) -> 2 <= i ->
  cg_hist (cg_body mulA n tol normb) s0 i s Rs Ps ->
  dot_raw (cg_r s) (cg_p s) = zero /\ dot_raw (cg_r s) (cg_z s) = zero.
Proof. intros A FL n mulA LO SYM tol normb s0 i s Rs Ps. exact (cg_hist_local_orth FL n mulA LO SYM tol normb s0 i s Rs Ps). Qed.
Check cg_residuals_orthogonal : forall (A : SArith), FieldLaws (SA A) ->
  forall n (mulA : list (T (SA A)) -> res (list (T (SA A)))), LinOp n mulA -> SymOp n mulA ->
  forall tol normb s0 i s Rs Ps, (length (cg_x s0) = n /\ length (cg_r s0) = n /\ length (cg_p s0) = n /\ length (cg_z s0) = n) -> 2 <= i ->
  cg_hist (cg_body mulA n tol normb) s0 i s Rs Ps ->
  dot_raw (cg_r s) (cg_p s) = zero /\ dot_raw (cg_r s) (cg_z s) = zero.
Print Assumptions cg_residuals_orthogonal.
Example cg_residuals_orthogonal_nonvacuous : LinOp 2 (@sp_mul AQ exq_s) /\ SymOp 2 (@sp_mul AQ exq_s) /\ @cg_lens SAQ 2 exq_s0 /\
  exists s1 Rs Ps, @cg_hist SAQ exq_body exq_s0 2 s1 Rs Ps /\ Rs = [[q (-8) 1; q (-3) 1]].
Proof. split; [exact exq_lin|]. split; [exact (sp_mul_SymOp AQ_RingLaws exq_s 2 exq_s_wf eq_refl eq_refl exq_s_sym)|]. exact exq_cg_hist. Qed.

(* ... and for the iteration that returns Ok: the returned residual (= b - A x by residual_invariant_cg) is orthogonal to every earlier
   residual and to every direction, the last one included *)
Theorem cg_return_conjugacy : forall (A : SArith), FieldLaws (SA A) ->
  forall n (mulA : list (T (SA A)) -> res (list (T (SA A)))), LinOp n mulA -> SymOp n mulA ->
  forall tol normb s0 i s Rs Ps k x g, (length (cg_x s0) = n /\ length (cg_r s0) = n /\ length (cg_p s0) = n /\ length (cg_z s0) = n) ->
  cg_hist (cg_body mulA n tol normb) s0 i s Rs Ps ->
  cg_body mulA n tol normb i s = Ok (Return (IOk k, x, g)) ->
  k = i /\ ForallOrdPairs (fun u v => dot_raw u v = zero) (g_t g :: cg_r s :: Rs) /\
  exists p, ForallOrdPairs (fun p1 p2 => exists q2, mulA p2 = Ok q2 /\ dot_raw p1 q2 = zero) (p :: Ps) /\
            Forall (fun p' => dot_raw (g_t g) p' = zero) (p :: Ps).
Proof. intros A FL n mulA LO SYM tol normb s0 i s Rs Ps k x g. exact (cg_return_conjugacy FL n mulA LO SYM tol normb s0 i s Rs Ps k x g). Qed.
Check cg_return_conjugacy : forall (A : SArith), FieldLaws (SA A) ->
  forall n (mulA : list (T (SA A)) -> res (list (T (SA A)))), LinOp n mulA -> SymOp n mulA ->
  forall tol normb s0 i s Rs Ps k x g, (length (cg_x s0) = n /\ length (cg_r s0) = n /\ length (cg_p s0) = n /\ length (cg_z s0) = n) ->
  cg_hist (cg_body mulA n tol normb) s0 i s Rs Ps ->
  cg_body mulA n tol normb i s = Ok (Return (IOk k, x, g)) ->
  k = i /\ ForallOrdPairs (fun u v => dot_raw u v = zero) (g_t g :: cg_r s :: Rs) /\
  exists p, ForallOrdPairs (fun p1 p2 => exists q2, mulA p2 = Ok q2 /\ dot_raw p1 q2 = zero) (p :: Ps) /\
            Forall (fun p' => dot_raw (g_t g) p' = zero) (p :: Ps).
Print Assumptions cg_return_conjugacy.
Example cg_return_conjugacy_nonvacuous : LinOp 2 (@sp_mul AQ exq_s) /\ SymOp 2 (@sp_mul AQ exq_s) /\ @cg_lens SAQ 2 exq_s0 /\
  exists s1 Rs Ps, @cg_hist SAQ exq_body exq_s0 2 s1 Rs Ps /\ Rs = [[q (-8) 1; q (-3) 1]].
Proof. split; [exact exq_lin|]. split; [exact (sp_mul_SymOp AQ_RingLaws exq_s 2 exq_s_wf eq_refl eq_refl exq_s_sym)|]. exact exq_cg_hist. Qed.

(* the solver as a whole: whenever at least one iteration was performed (Ok from the loop, or Err with a budget >= 1) the final residual
   g_t g = b - A x is orthogonal to the initial residual b - A x0 *)
Theorem cg_final_residual_orth_initial : forall (A : SArith), FieldLaws (SA A) ->
  forall n (mulA : list (T (SA A)) -> res (list (T (SA A)))), LinOp n mulA -> SymOp n mulA ->
  forall cols (b x0 : list (T (SA A))) max tol res x g,
  solve_cg mulA n cols b x0 max tol = Ok (res, x, g) ->
  g_exit g = 1 \/ (g_exit g = 2 /\ 1 <= max) ->
  exists ax0, mulA x0 = Ok ax0 /\ dot_raw (g_t g) (zipw sub b ax0) = zero.
Proof. intros A FL n mulA LO SYM cols b x0 max tol res x g. exact (solve_cg_residual_orth_initial FL n mulA LO SYM cols b x0 max tol res x g). Qed.
Check cg_final_residual_orth_initial : forall (A : SArith), FieldLaws (SA A) ->
  forall n (mulA : list (T (SA A)) -> res (list (T (SA A)))), LinOp n mulA -> SymOp n mulA ->
  forall cols (b x0 : list (T (SA A))) max tol res x g,
  solve_cg mulA n cols b x0 max tol = Ok (res, x, g) ->
  g_exit g = 1 \/ (g_exit g = 2 /\ 1 <= max) ->
  exists ax0, mulA x0 = Ok ax0 /\ dot_raw (g_t g) (zipw sub b ax0) = zero.
Print Assumptions cg_final_residual_orth_initial.
Example cg_final_residual_orth_initial_nonvacuous : LinOp 2 (@sp_mul AQ exq_s) /\ SymOp 2 (@sp_mul AQ exq_s) /\
  exists x g, @solve_cg SAQ (@sp_mul AQ exq_s) 2 2 [q 1 1; q 2 1] [q 2 1; q 1 1] 10 (q 1 1000) = Ok (IOk 2, x, g).
Proof. split; [exact exq_lin|]. split; [exact (sp_mul_SymOp AQ_RingLaws exq_s 2 exq_s_wf eq_refl eq_refl exq_s_sym)|].
  apply (@ok_k_witness SAQ). vm_compute. reflexivity. Qed.

(* ANY field (no order, no law for sqrt), A symmetric, any tol: breakdown or termination.  A run that starts iteration i >= 2 without a panic has
   divided by <r_{i-2}, r_{i-2}>; mutually orthogonal non-isotropic vectors are at most n (next theorem): whenever solve_cg returns at all with a
   budget >= n+2 it returns Ok k, k <= n+1 (over R, tol >= 0: k <= n and no panic for SPD -- cg_terminates_spd_R below) *)
Theorem cg_breakdown_or_terminates : forall (A : SArith), FieldLaws (SA A) ->
  forall n (mulA : list (T (SA A)) -> res (list (T (SA A)))), LinOp n mulA -> SymOp n mulA ->
  forall cols (b x0 : list (T (SA A))) max tol res x g,
  n + 2 <= max ->
  solve_cg mulA n cols b x0 max tol = Ok (res, x, g) ->
  exists k, res = IOk k /\ k <= n + 1.
Proof. intros A FL n mulA LO SYM cols b x0 max tol res x g. exact (cg_breakdown_or_terminates FL n mulA LO SYM cols b x0 max tol res x g). Qed.
Check cg_breakdown_or_terminates : forall (A : SArith), FieldLaws (SA A) ->
  forall n (mulA : list (T (SA A)) -> res (list (T (SA A)))), LinOp n mulA -> SymOp n mulA ->
  forall cols (b x0 : list (T (SA A))) max tol res x g,
  n + 2 <= max ->
  solve_cg mulA n cols b x0 max tol = Ok (res, x, g) ->
  exists k, res = IOk k /\ k <= n + 1.
Print Assumptions cg_breakdown_or_terminates.
Example cg_breakdown_or_terminates_nonvacuous : LinOp 2 (@sp_mul AQ exq_s) /\ SymOp 2 (@sp_mul AQ exq_s) /\
  exists x g, @solve_cg SAQ (@sp_mul AQ exq_s) 2 2 [q 1 1; q 2 1] [q 2 1; q 1 1] 10 (q 1 1000) = Ok (IOk 2, x, g).
Proof. split; [exact exq_lin|]. split; [exact (sp_mul_SymOp AQ_RingLaws exq_s 2 exq_s_wf eq_refl eq_refl exq_s_sym)|].
  apply (@ok_k_witness SAQ). vm_compute. reflexivity. Qed.

(* for the implementation's matrix type (symmetric storage, any field): after at least one iteration <b - A x, b - A x0> = 0 for the returned x *)
Theorem cg_final_residual_orth_initial_sparse : forall (A : SArith), FieldLaws (SA A) ->
  forall (s : sparse (SA A)) (b x0 : list (T (SA A))) max tol res x g,
  wfS s -> sp_symmetric s ->
  run_sparse CG s b x0 max tol = Ok (res, x, g) ->
  g_exit g = 1 \/ (g_exit g = 2 /\ 1 <= max) ->
  dot_raw (zipw sub b (sp_apply s x)) (zipw sub b (sp_apply s x0)) = zero.
Proof. intros A FL s b x0 max tol res x g. exact (cg_final_residual_orth_initial_sparse FL s b x0 max tol res x g). Qed.
Check cg_final_residual_orth_initial_sparse : forall (A : SArith), FieldLaws (SA A) ->
  forall (s : sparse (SA A)) (b x0 : list (T (SA A))) max tol res x g,
  wfS s -> sp_symmetric s ->
  run_sparse CG s b x0 max tol = Ok (res, x, g) ->
  g_exit g = 1 \/ (g_exit g = 2 /\ 1 <= max) ->
  dot_raw (zipw sub b (sp_apply s x)) (zipw sub b (sp_apply s x0)) = zero.
Print Assumptions cg_final_residual_orth_initial_sparse.
Example cg_final_residual_orth_initial_sparse_nonvacuous : wfS exq_s /\ sp_symmetric exq_s.
Proof. split; [exact exq_s_wf | exact exq_s_sym]. Qed.

Theorem cg_breakdown_or_terminates_sparse : forall (A : SArith), FieldLaws (SA A) ->
  forall (s : sparse (SA A)) (b x0 : list (T (SA A))) max tol res x g,
  wfS s -> sp_symmetric s -> sp_rows s + 2 <= max ->
  run_sparse CG s b x0 max tol = Ok (res, x, g) ->
  exists k, res = IOk k /\ k <= sp_rows s + 1.
Proof. intros A FL s b x0 max tol res x g. exact (cg_breakdown_or_terminates_sparse FL s b x0 max tol res x g). Qed.
Check cg_breakdown_or_terminates_sparse : forall (A : SArith), FieldLaws (SA A) ->
  forall (s : sparse (SA A)) (b x0 : list (T (SA A))) max tol res x g,
  wfS s -> sp_symmetric s -> sp_rows s + 2 <= max ->
  run_sparse CG s b x0 max tol = Ok (res, x, g) ->
  exists k, res = IOk k /\ k <= sp_rows s + 1.
Print Assumptions cg_breakdown_or_terminates_sparse.
Example cg_breakdown_or_terminates_sparse_nonvacuous : wfS exq_s /\ sp_symmetric exq_s.
Proof. split; [exact exq_s_wf | exact exq_s_sym]. Qed.

(* the dimension argument, any field: pairwise orthogonal vectors of F^n none of which is isotropic are at most n *)
Theorem orthogonal_family_bound : forall (A : SArith), FieldLaws (SA A) -> forall n (vs : list (list (T (SA A)))),
  Forall (fun v => length v = n) vs -> ForallOrdPairs (fun u v => dot_raw u v = zero) vs ->
  Forall (fun v => dot_raw v v <> zero) vs -> length vs <= n.
Proof. intros A FL n vs. exact (orth_family_bound FL n vs). Qed.
Check orthogonal_family_bound : forall (A : SArith), FieldLaws (SA A) -> forall n (vs : list (list (T (SA A)))),
  Forall (fun v => length v = n) vs -> ForallOrdPairs (fun u v => dot_raw u v = zero) vs ->
  Forall (fun v => dot_raw v v <> zero) vs -> length vs <= n.
Print Assumptions orthogonal_family_bound.
Example orthogonal_family_bound_nonvacuous : Forall (fun v : list AQ => length v = 2) [[q 1 1; q 1 1]; [q 1 1; q (-1) 1]] /\
  ForallOrdPairs (fun u v => @dot_raw AQ u v = zero) [[q 1 1; q 1 1]; [q 1 1; q (-1) 1]] /\
  Forall (fun v => @dot_raw AQ v v <> zero) [[q 1 1; q 1 1]; [q 1 1; q (-1) 1]].
Proof. exact exq_orth_family. Qed.

(* the state invariant the next two theorems start from holds at every state of every run (cg_lens: the four vectors of the start state have length n;
   cg_state_inv = sizes + the conjugacy invariant cgI of Proofs/IterCG.v, or "first iteration, nothing yet") *)
Theorem cg_state_invariant : forall (A : SArith), FieldLaws (SA A) ->
  forall n (mulA : list (T (SA A)) -> res (list (T (SA A)))), LinOp n mulA -> SymOp n mulA ->
  forall tol normb s0 i s Rs Ps, cg_lens n s0 ->
  cg_hist (cg_body mulA n tol normb) s0 i s Rs Ps -> cg_state_inv n mulA s0 i s Rs Ps.
Proof. intros A FL n mulA LO SYM tol normb s0 i s Rs Ps. exact (cg_hist_inv FL n mulA LO SYM tol normb s0 i s Rs Ps). Qed.
Check cg_state_invariant : forall (A : SArith), FieldLaws (SA A) ->
  forall n (mulA : list (T (SA A)) -> res (list (T (SA A)))), LinOp n mulA -> SymOp n mulA ->
  forall tol normb s0 i s Rs Ps, cg_lens n s0 ->
  cg_hist (cg_body mulA n tol normb) s0 i s Rs Ps -> cg_state_inv n mulA s0 i s Rs Ps.
Print Assumptions cg_state_invariant.
Example cg_state_invariant_nonvacuous : LinOp 2 (@sp_mul AQ exq_s) /\ SymOp 2 (@sp_mul AQ exq_s) /\ @cg_lens SAQ 2 exq_s0 /\
  exists s1 Rs Ps, @cg_hist SAQ exq_body exq_s0 2 s1 Rs Ps /\ Rs = [[q (-8) 1; q (-3) 1]].
Proof. split; [exact exq_lin|]. split; [exact (sp_mul_SymOp AQ_RingLaws exq_s 2 exq_s_wf eq_refl eq_refl exq_s_sym)|]. exact exq_cg_hist. Qed.

(* (a) over R, symmetric positive semi-definite A (PosSemi: 0 <= <v, A v>), xs any solution of A xs = b: from a state of a run
   (cg_state_inv: the invariant cg_hist_inv establishes for every state of every run; tracks: r = b - A x, residual_invariant_cg)
   one iteration moves x to x + alpha p where alpha MINIMISES t |-> |xs - (x + t p)|_A^2 (anorm2 e = <e, A e>), so the A-norm of
   the error does not increase.  step_x out = the x after the iteration, whether it continues or returns Ok *)
Theorem cg_step_is_line_minimiser_R : forall n (mulA : list R -> res (list R)), @LinOp AR n mulA -> @SymOp AR n mulA ->
  forall tol normb s0 i s Rs Ps out (b xs : list R),
  PosSemi n mulA -> length xs = n -> length b = n -> mulA xs = Ok b ->
  @cg_state_inv SAR n mulA s0 i s Rs Ps -> @tracks SAR mulA b (cg_x s) (cg_r s) ->
  @cg_body SAR mulA n tol normb i s = Ok out ->
  exists p alpha, length p = n /\ step_x out = @zipw AR Rplus (cg_x s) (@vscale AR p alpha) /\
    (forall t, (@anorm2 SAR mulA (@zipw AR Rminus xs (step_x out)) <=
                @anorm2 SAR mulA (@zipw AR Rminus xs (@zipw AR Rplus (cg_x s) (@vscale AR p t))))%R) /\
    (@anorm2 SAR mulA (@zipw AR Rminus xs (step_x out)) <= @anorm2 SAR mulA (@zipw AR Rminus xs (cg_x s)))%R.
Proof. intros n mulA LO SYM tol normb s0 i s Rs Ps out b xs. exact (cg_step_minimises_R n mulA LO SYM tol normb s0 i s Rs Ps out b xs). Qed.
Check cg_step_is_line_minimiser_R : forall n (mulA : list R -> res (list R)), @LinOp AR n mulA -> @SymOp AR n mulA ->
  forall tol normb s0 i s Rs Ps out (b xs : list R),
  PosSemi n mulA -> length xs = n -> length b = n -> mulA xs = Ok b ->
  @cg_state_inv SAR n mulA s0 i s Rs Ps -> @tracks SAR mulA b (cg_x s) (cg_r s) ->
  @cg_body SAR mulA n tol normb i s = Ok out ->
  exists p alpha, length p = n /\ step_x out = @zipw AR Rplus (cg_x s) (@vscale AR p alpha) /\
    (forall t, (@anorm2 SAR mulA (@zipw AR Rminus xs (step_x out)) <=
                @anorm2 SAR mulA (@zipw AR Rminus xs (@zipw AR Rplus (cg_x s) (@vscale AR p t))))%R) /\
    (@anorm2 SAR mulA (@zipw AR Rminus xs (step_x out)) <= @anorm2 SAR mulA (@zipw AR Rminus xs (cg_x s)))%R.
Print Assumptions cg_step_is_line_minimiser_R.
Example cg_step_is_line_minimiser_R_nonvacuous : @LinOp AR 2 (@sp_mul AR exr_s) /\ @SymOp AR 2 (@sp_mul AR exr_s) /\ PosSemi 2 (@sp_mul AR exr_s).
Proof. destruct exr_spd_hyps as (_ & _ & _ & _ & H1 & H2 & H3). split; auto. split; auto. now apply PosDef_PosSemi. Qed.

(* the classical optimality of CG: at every state of a run the iterate is the A-norm-best point of x0 + span(p_0 .. p_{k-1}) -- no linear
   combination w of the search directions used so far (in_span n Ps w) improves the error: |xs - x_k|_A <= |xs - (x_k + w)|_A *)
Theorem cg_krylov_optimal_R : forall n (mulA : list R -> res (list R)), @LinOp AR n mulA -> @SymOp AR n mulA ->
  forall s0 i s Rs Ps (b xs w : list R),
  PosSemi n mulA -> length xs = n -> length b = n -> mulA xs = Ok b ->
  @cg_state_inv SAR n mulA s0 i s Rs Ps -> @tracks SAR mulA b (cg_x s) (cg_r s) ->
  in_span n Ps w ->
  (@anorm2 SAR mulA (@zipw AR Rminus xs (cg_x s)) <= @anorm2 SAR mulA (@zipw AR Rminus xs (@zipw AR Rplus (cg_x s) w)))%R.
Proof. intros n mulA LO SYM s0 i s Rs Ps b xs w. exact (cg_krylov_optimal_R n mulA LO SYM s0 i s Rs Ps b xs w). Qed.
Check cg_krylov_optimal_R : forall n (mulA : list R -> res (list R)), @LinOp AR n mulA -> @SymOp AR n mulA ->
  forall s0 i s Rs Ps (b xs w : list R),
  PosSemi n mulA -> length xs = n -> length b = n -> mulA xs = Ok b ->
  @cg_state_inv SAR n mulA s0 i s Rs Ps -> @tracks SAR mulA b (cg_x s) (cg_r s) ->
  in_span n Ps w ->
  (@anorm2 SAR mulA (@zipw AR Rminus xs (cg_x s)) <= @anorm2 SAR mulA (@zipw AR Rminus xs (@zipw AR Rplus (cg_x s) w)))%R.
Print Assumptions cg_krylov_optimal_R.
Example cg_krylov_optimal_R_nonvacuous : @LinOp AR 2 (@sp_mul AR exr_s) /\ @SymOp AR 2 (@sp_mul AR exr_s) /\ PosSemi 2 (@sp_mul AR exr_s).
Proof. destruct exr_spd_hyps as (_ & _ & _ & _ & H1 & H2 & H3). split; auto. split; auto. now apply PosDef_PosSemi. Qed.

(* ... hence along the whole run: whatever solve_cg returns -- Ok or Err, any budget, any tol -- the error of the returned x is not larger
   in the A-norm than the error of the guess ("never corrupt a correct x", quantitatively, in exact arithmetic) *)
Theorem cg_error_monotone_R : forall n (mulA : list R -> res (list R)), @LinOp AR n mulA -> @SymOp AR n mulA ->
  forall cols (b x0 xs : list R) max tol res x g,
  PosSemi n mulA -> length xs = n -> mulA xs = Ok b ->
  @solve_cg SAR mulA n cols b x0 max tol = Ok (res, x, g) ->
  (@anorm2 SAR mulA (@zipw AR Rminus xs x) <= @anorm2 SAR mulA (@zipw AR Rminus xs x0))%R.
Proof. intros n mulA LO SYM cols b x0 xs max tol res x g. exact (cg_error_monotone_R n mulA LO SYM cols b x0 xs max tol res x g). Qed.
Check cg_error_monotone_R : forall n (mulA : list R -> res (list R)), @LinOp AR n mulA -> @SymOp AR n mulA ->
  forall cols (b x0 xs : list R) max tol res x g,
  PosSemi n mulA -> length xs = n -> mulA xs = Ok b ->
  @solve_cg SAR mulA n cols b x0 max tol = Ok (res, x, g) ->
  (@anorm2 SAR mulA (@zipw AR Rminus xs x) <= @anorm2 SAR mulA (@zipw AR Rminus xs x0))%R.
Print Assumptions cg_error_monotone_R.
Example cg_error_monotone_R_nonvacuous : @LinOp AR 2 (@sp_mul AR exr_s) /\ @SymOp AR 2 (@sp_mul AR exr_s) /\ PosSemi 2 (@sp_mul AR exr_s).
Proof. destruct exr_spd_hyps as (_ & _ & _ & _ & H1 & H2 & H3). split; auto. split; auto. now apply PosDef_PosSemi. Qed.

(* (c) finite termination.  Over R with the exact square root, A symmetric positive definite of order n (PosDef: 0 < <v, A v> for
   v <> 0), EVERY right-hand side, EVERY guess, EVERY tol >= 0 (tol = 0 included), every budget >= n: the model's solve_cg does not
   panic (no breakdown division can occur) and answers Ok k with k <= n.  With ok_means_solved_R: ||b - A x|| <= tol ||b||' *)
Theorem cg_terminates_spd_R : forall n (mulA : list R -> res (list R)), @LinOp AR n mulA -> @SymOp AR n mulA ->
  forall (b x0 : list R) max (tol : R),
  PosDef n mulA -> length b = n -> length x0 = n -> (0 <= tol)%R -> n <= max ->
  exists k x g, @solve_cg SAR mulA n n b x0 max tol = Ok (IOk k, x, g) /\ k <= n.
Proof. intros n mulA LO SYM b x0 max tol. exact (cg_terminates_spd_R n mulA LO SYM b x0 max tol). Qed.
Check cg_terminates_spd_R : forall n (mulA : list R -> res (list R)), @LinOp AR n mulA -> @SymOp AR n mulA ->
  forall (b x0 : list R) max (tol : R),
  PosDef n mulA -> length b = n -> length x0 = n -> (0 <= tol)%R -> n <= max ->
  exists k x g, @solve_cg SAR mulA n n b x0 max tol = Ok (IOk k, x, g) /\ k <= n.
Print Assumptions cg_terminates_spd_R.
Example cg_terminates_spd_R_nonvacuous : @LinOp AR 2 (@sp_mul AR exr_s) /\ @SymOp AR 2 (@sp_mul AR exr_s) /\ PosDef 2 (@sp_mul AR exr_s).
Proof. destruct exr_spd_hyps as (_ & _ & _ & _ & H1 & H2 & H3). auto. Qed.

(* the same for the implementation's own matrix type: a well-formed square CSC storage whose denoted matrix is symmetric
   (sp_entry s i j = sp_entry s j i) and positive definite (0 < <v, A v>, A v = sp_apply s v): Ok within n iterations AND solved *)
Theorem cg_terminates_spd_sparse_R : forall (s : sparse AR) (b x0 : list R) max (tol : R),
  wfS s -> sp_rows s = sp_cols s -> sp_symmetric s -> sp_posdef s ->
  length b = sp_rows s -> length x0 = sp_rows s -> (0 <= tol)%R -> sp_rows s <= max ->
  exists k x g, @run_sparse SAR CG s b x0 max tol = Ok (IOk k, x, g) /\ k <= sp_rows s /\
    (@norm2 SAR (@zipw AR Rminus b (@sp_apply AR s x)) <= tol * @nz SAR (@norm2 SAR b))%R.
Proof. intros s b x0 max tol. exact (cg_terminates_spd_sparse_R s b x0 max tol). Qed.
Check cg_terminates_spd_sparse_R : forall (s : sparse AR) (b x0 : list R) max (tol : R),
  wfS s -> sp_rows s = sp_cols s -> sp_symmetric s -> sp_posdef s ->
  length b = sp_rows s -> length x0 = sp_rows s -> (0 <= tol)%R -> sp_rows s <= max ->
  exists k x g, @run_sparse SAR CG s b x0 max tol = Ok (IOk k, x, g) /\ k <= sp_rows s /\
    (@norm2 SAR (@zipw AR Rminus b (@sp_apply AR s x)) <= tol * @nz SAR (@norm2 SAR b))%R.
Print Assumptions cg_terminates_spd_sparse_R.
Example cg_terminates_spd_sparse_R_nonvacuous : wfS exr_s /\ sp_rows exr_s = sp_cols exr_s /\ sp_symmetric exr_s /\ sp_posdef exr_s.
Proof. destruct exr_spd_hyps as (H1 & H2 & H3 & H4 & _). auto. Qed.

(* symmetric A, NOT necessarily definite (indefinite, singular): "Ok within n iterations for every tol >= 0 when no breakdown division occurs" --
   in exact arithmetic a breakdown division is a Panic of the model, so: whenever solve_cg returns at all (budget >= n) it returns Ok k, k <= n;
   it can neither exhaust its budget nor need more than n iterations *)
Theorem cg_no_breakdown_terminates_R : forall n (mulA : list R -> res (list R)), @LinOp AR n mulA -> @SymOp AR n mulA ->
  forall cols (b x0 : list R) max (tol : R) res x g,
  (0 <= tol)%R -> n <= max ->
  @solve_cg SAR mulA n cols b x0 max tol = Ok (res, x, g) ->
  exists k, res = IOk k /\ k <= n.
Proof. intros n mulA LO SYM cols b x0 max tol res x g. exact (cg_no_breakdown_terminates_R n mulA LO SYM cols b x0 max tol res x g). Qed.
Check cg_no_breakdown_terminates_R : forall n (mulA : list R -> res (list R)), @LinOp AR n mulA -> @SymOp AR n mulA ->
  forall cols (b x0 : list R) max (tol : R) res x g,
  (0 <= tol)%R -> n <= max ->
  @solve_cg SAR mulA n cols b x0 max tol = Ok (res, x, g) ->
  exists k, res = IOk k /\ k <= n.
Print Assumptions cg_no_breakdown_terminates_R.
Example cg_no_breakdown_terminates_R_nonvacuous : @LinOp AR 2 (@sp_mul AR exr_s) /\ @SymOp AR 2 (@sp_mul AR exr_s).
Proof. destruct exr_spd_hyps as (_ & _ & _ & _ & H1 & H2 & _). auto. Qed.

Theorem cg_no_breakdown_terminates_sparse_R : forall (s : sparse AR) (b x0 : list R) max (tol : R) res x g,
  wfS s -> sp_symmetric s -> (0 <= tol)%R -> sp_rows s <= max ->
  @run_sparse SAR CG s b x0 max tol = Ok (res, x, g) ->
  exists k, res = IOk k /\ k <= sp_rows s.
Proof. intros s b x0 max tol res x g. exact (cg_no_breakdown_terminates_sparse_R s b x0 max tol res x g). Qed.
Check cg_no_breakdown_terminates_sparse_R : forall (s : sparse AR) (b x0 : list R) max (tol : R) res x g,
  wfS s -> sp_symmetric s -> (0 <= tol)%R -> sp_rows s <= max ->
  @run_sparse SAR CG s b x0 max tol = Ok (res, x, g) ->
  exists k, res = IOk k /\ k <= sp_rows s.
Print Assumptions cg_no_breakdown_terminates_sparse_R.
Example cg_no_breakdown_terminates_sparse_R_nonvacuous : wfS exr_s /\ sp_symmetric exr_s.
Proof. split; [exact exr_s_wf | exact exr_s_sym]. Qed.

(* tol = 0: in exact arithmetic CG is a DIRECT solver for SPD systems -- within n iterations it returns x with A x = b exactly, and that x is
   the solution (every xs with A xs = b equals it): the "agreement with the direct solution" of C09, in exact arithmetic *)
Theorem cg_direct_solver_R : forall n (mulA : list R -> res (list R)), @LinOp AR n mulA -> @SymOp AR n mulA ->
  forall (b x0 : list R) max,
  PosDef n mulA -> length b = n -> length x0 = n -> n <= max ->
  exists k x g, @solve_cg SAR mulA n n b x0 max 0%R = Ok (IOk k, x, g) /\ k <= n /\ mulA x = Ok b /\
    forall xs, length xs = n -> mulA xs = Ok b -> xs = x.
Proof. intros n mulA LO SYM b x0 max. exact (cg_direct_solver_R n mulA LO SYM b x0 max). Qed.
Check cg_direct_solver_R : forall n (mulA : list R -> res (list R)), @LinOp AR n mulA -> @SymOp AR n mulA ->
  forall (b x0 : list R) max,
  PosDef n mulA -> length b = n -> length x0 = n -> n <= max ->
  exists k x g, @solve_cg SAR mulA n n b x0 max 0%R = Ok (IOk k, x, g) /\ k <= n /\ mulA x = Ok b /\
    forall xs, length xs = n -> mulA xs = Ok b -> xs = x.
Print Assumptions cg_direct_solver_R.
Example cg_direct_solver_R_nonvacuous : @LinOp AR 2 (@sp_mul AR exr_s) /\ @SymOp AR 2 (@sp_mul AR exr_s) /\ PosDef 2 (@sp_mul AR exr_s).
Proof. destruct exr_spd_hyps as (_ & _ & _ & _ & H1 & H2 & H3). auto. Qed.

Theorem cg_direct_solver_sparse_R : forall (s : sparse AR) (b x0 : list R) max,
  wfS s -> sp_rows s = sp_cols s -> sp_symmetric s -> sp_posdef s ->
  length b = sp_rows s -> length x0 = sp_rows s -> sp_rows s <= max ->
  exists k x g, @run_sparse SAR CG s b x0 max 0%R = Ok (IOk k, x, g) /\ k <= sp_rows s /\
    @sp_apply AR s x = b /\
    forall xs, length xs = sp_rows s -> @sp_apply AR s xs = b -> xs = x.
Proof. intros s b x0 max. exact (cg_direct_solver_sparse_R s b x0 max). Qed.
Check cg_direct_solver_sparse_R : forall (s : sparse AR) (b x0 : list R) max,
  wfS s -> sp_rows s = sp_cols s -> sp_symmetric s -> sp_posdef s ->
  length b = sp_rows s -> length x0 = sp_rows s -> sp_rows s <= max ->
  exists k x g, @run_sparse SAR CG s b x0 max 0%R = Ok (IOk k, x, g) /\ k <= sp_rows s /\
    @sp_apply AR s x = b /\
    forall xs, length xs = sp_rows s -> @sp_apply AR s xs = b -> xs = x.
Print Assumptions cg_direct_solver_sparse_R.
Example cg_direct_solver_sparse_R_nonvacuous : wfS exr_s /\ sp_rows exr_s = sp_cols exr_s /\ sp_symmetric exr_s /\ sp_posdef exr_s.
Proof. destruct exr_spd_hyps as (H1 & H2 & H3 & H4 & _). auto. Qed.

Theorem cg_error_monotone_sparse_R : forall (s : sparse AR) (b x0 xs : list R) max tol res x g,
  wfS s -> sp_symmetric s ->
  (forall v, length v = sp_cols s -> (0 <= @dot_raw AR v (@sp_apply AR s v))%R) ->
  length xs = sp_cols s -> @sp_apply AR s xs = b ->
  @run_sparse SAR CG s b x0 max tol = Ok (res, x, g) ->
  (@anorm2 SAR (@sp_mul AR s) (@zipw AR Rminus xs x) <= @anorm2 SAR (@sp_mul AR s) (@zipw AR Rminus xs x0))%R.
Proof. intros s b x0 xs max tol res x g. exact (cg_error_monotone_sparse_R s b x0 xs max tol res x g). Qed.
Check cg_error_monotone_sparse_R : forall (s : sparse AR) (b x0 xs : list R) max tol res x g,
  wfS s -> sp_symmetric s ->
  (forall v, length v = sp_cols s -> (0 <= @dot_raw AR v (@sp_apply AR s v))%R) ->
  length xs = sp_cols s -> @sp_apply AR s xs = b ->
  @run_sparse SAR CG s b x0 max tol = Ok (res, x, g) ->
  (@anorm2 SAR (@sp_mul AR s) (@zipw AR Rminus xs x) <= @anorm2 SAR (@sp_mul AR s) (@zipw AR Rminus xs x0))%R.
Print Assumptions cg_error_monotone_sparse_R.
Example cg_error_monotone_sparse_R_nonvacuous : wfS exr_s /\ sp_symmetric exr_s.
Proof. split; [exact exr_s_wf | exact exr_s_sym]. Qed.

(* on a symmetric matrix the model's BiCG IS its CG (exact arithmetic, any field): if transpose_multiply agrees with multiply on vectors of
   length n, whatever solve_cg returns -- Ok k or Err e, and x -- solve_bicg returns too, for both error measures (only the ghost differs) *)
Theorem bicg_is_cg_on_symmetric : forall (A : SArith), FieldLaws (SA A) ->
  forall n (mulA mulAT : list (T (SA A)) -> res (list (T (SA A)))), LinOp n mulA ->
  (forall v, length v = n -> mulAT v = mulA v) ->
  forall itol (b x0 : list (T (SA A))) max tol res x g, itol = 1 \/ itol = 2 ->
  solve_cg mulA n n b x0 max tol = Ok (res, x, g) ->
  exists g', solve_bicg mulA mulAT n n itol b x0 max tol = Ok (res, x, g').
Proof. intros A FL n mulA mulAT LO TS itol b x0 max tol res x g. exact (bicg_is_cg_on_symmetric FL n mulA mulAT LO TS itol b x0 max tol res x g). Qed.
Check bicg_is_cg_on_symmetric : forall (A : SArith), FieldLaws (SA A) ->
  forall n (mulA mulAT : list (T (SA A)) -> res (list (T (SA A)))), LinOp n mulA ->
  (forall v, length v = n -> mulAT v = mulA v) ->
  forall itol (b x0 : list (T (SA A))) max tol res x g, itol = 1 \/ itol = 2 ->
  solve_cg mulA n n b x0 max tol = Ok (res, x, g) ->
  exists g', solve_bicg mulA mulAT n n itol b x0 max tol = Ok (res, x, g').
Print Assumptions bicg_is_cg_on_symmetric.
Example bicg_is_cg_on_symmetric_nonvacuous : LinOp 2 (@sp_mul AQ exq_s) /\ (forall v : list AQ, length v = 2 -> sp_tmul exq_s v = sp_mul exq_s v) /\
  exists x g, @solve_cg SAQ (@sp_mul AQ exq_s) 2 2 [q 1 1; q 2 1] [q 2 1; q 1 1] 10 (q 1 1000) = Ok (IOk 2, x, g).
Proof. split; [exact exq_lin|]. split; [exact (sp_tmul_eq_mul_sym AQ_RingLaws exq_s 2 exq_s_wf eq_refl eq_refl exq_s_sym)|].
  apply (@ok_k_witness SAQ). vm_compute. reflexivity. Qed.

(* ... and every CSC storage whose denoted matrix is symmetric satisfies that hypothesis *)
Theorem sparse_symmetric_tmul_is_mul : forall (A : Arith), RingLaws A -> forall (s : sparse A) n,
  wfS s -> sp_rows s = n -> sp_cols s = n -> sp_symmetric s ->
  forall v, length v = n -> sp_tmul s v = sp_mul s v.
Proof. intros A RL s n. exact (sp_tmul_eq_mul_sym RL s n). Qed.
Check sparse_symmetric_tmul_is_mul : forall (A : Arith), RingLaws A -> forall (s : sparse A) n,
  wfS s -> sp_rows s = n -> sp_cols s = n -> sp_symmetric s ->
  forall v, length v = n -> sp_tmul s v = sp_mul s v.
Print Assumptions sparse_symmetric_tmul_is_mul.
Example sparse_symmetric_tmul_is_mul_nonvacuous : wfS exq_s /\ sp_symmetric exq_s.
Proof. split; [exact exq_s_wf | exact exq_s_sym]. Qed.

(* hence the convergence theorem transfers: BiCG (either error measure) on an SPD storage of order n over R answers Ok within n iterations, solved *)
Theorem bicg_terminates_spd_sparse_R : forall (s : sparse AR) itol (b x0 : list R) max (tol : R),
  wfS s -> sp_rows s = sp_cols s -> sp_symmetric s -> sp_posdef s -> itol = 1 \/ itol = 2 ->
  length b = sp_rows s -> length x0 = sp_rows s -> (0 <= tol)%R -> sp_rows s <= max ->
  exists k x g, @run_sparse SAR (BiCG itol) s b x0 max tol = Ok (IOk k, x, g) /\ k <= sp_rows s /\
    (@norm2 SAR (@zipw AR Rminus b (@sp_apply AR s x)) <= tol * @nz SAR (@norm2 SAR b))%R.
Proof. intros s itol b x0 max tol. exact (bicg_terminates_spd_sparse_R s itol b x0 max tol). Qed.
Check bicg_terminates_spd_sparse_R : forall (s : sparse AR) itol (b x0 : list R) max (tol : R),
  wfS s -> sp_rows s = sp_cols s -> sp_symmetric s -> sp_posdef s -> itol = 1 \/ itol = 2 ->
  length b = sp_rows s -> length x0 = sp_rows s -> (0 <= tol)%R -> sp_rows s <= max ->
  exists k x g, @run_sparse SAR (BiCG itol) s b x0 max tol = Ok (IOk k, x, g) /\ k <= sp_rows s /\
    (@norm2 SAR (@zipw AR Rminus b (@sp_apply AR s x)) <= tol * @nz SAR (@norm2 SAR b))%R.
Print Assumptions bicg_terminates_spd_sparse_R.
Example bicg_terminates_spd_sparse_R_nonvacuous : wfS exr_s /\ sp_rows exr_s = sp_cols exr_s /\ sp_symmetric exr_s /\ sp_posdef exr_s.
Proof. destruct exr_spd_hyps as (H1 & H2 & H3 & H4 & _). auto. Qed.

(* the class "strictly diagonally dominant" of C09, as far as exact-arithmetic convergence is provable: a real symmetric matrix that is strictly
   diagonally dominant with a positive diagonal (sp_sdd_pos: a_ii > sum_{j<>i} |a_ij|, read off the entries) is positive definite ... *)
Theorem sdd_symmetric_is_posdef : forall (s : sparse AR), sp_rows s = sp_cols s -> sp_symmetric s -> sp_sdd_pos s -> sp_posdef s.
Proof. intros s. exact (sdd_sym_posdef s). Qed.
Check sdd_symmetric_is_posdef : forall (s : sparse AR), sp_rows s = sp_cols s -> sp_symmetric s -> sp_sdd_pos s -> sp_posdef s.
Print Assumptions sdd_symmetric_is_posdef.
Example sdd_symmetric_is_posdef_nonvacuous : wfS exr_s /\ sp_rows exr_s = sp_cols exr_s /\ sp_symmetric exr_s /\ sp_sdd_pos exr_s.
Proof. split; [exact exr_s_wf|]. split; [reflexivity|]. split; [exact exr_s_sym | exact exr_s_sdd]. Qed.

(* ... hence on every such storage CG answers Ok within n iterations, solved, for every b, x0, tol >= 0, budget >= n *)
Theorem cg_terminates_sdd_sparse_R : forall (s : sparse AR) (b x0 : list R) max (tol : R),
  wfS s -> sp_rows s = sp_cols s -> sp_symmetric s -> sp_sdd_pos s ->
  length b = sp_rows s -> length x0 = sp_rows s -> (0 <= tol)%R -> sp_rows s <= max ->
  exists k x g, @run_sparse SAR CG s b x0 max tol = Ok (IOk k, x, g) /\ k <= sp_rows s /\
    (@norm2 SAR (@zipw AR Rminus b (@sp_apply AR s x)) <= tol * @nz SAR (@norm2 SAR b))%R.
Proof. intros s b x0 max tol. exact (cg_terminates_sdd_sparse_R s b x0 max tol). Qed.
Check cg_terminates_sdd_sparse_R : forall (s : sparse AR) (b x0 : list R) max (tol : R),
  wfS s -> sp_rows s = sp_cols s -> sp_symmetric s -> sp_sdd_pos s ->
  length b = sp_rows s -> length x0 = sp_rows s -> (0 <= tol)%R -> sp_rows s <= max ->
  exists k x g, @run_sparse SAR CG s b x0 max tol = Ok (IOk k, x, g) /\ k <= sp_rows s /\
    (@norm2 SAR (@zipw AR Rminus b (@sp_apply AR s x)) <= tol * @nz SAR (@norm2 SAR b))%R.
Print Assumptions cg_terminates_sdd_sparse_R.
Example cg_terminates_sdd_sparse_R_nonvacuous : wfS exr_s /\ sp_rows exr_s = sp_cols exr_s /\ sp_symmetric exr_s /\ sp_sdd_pos exr_s.
Proof. split; [exact exr_s_wf|]. split; [reflexivity|]. split; [exact exr_s_sym | exact exr_s_sdd]. Qed.

(* ... and so does BiCG with either error measure.  (For NONsymmetric strictly diagonally dominant systems no such theorem exists: the
   left-eigenvector breakdowns below are strictly diagonally dominant.) *)
Theorem bicg_terminates_sdd_sparse_R : forall (s : sparse AR) itol (b x0 : list R) max (tol : R),
  wfS s -> sp_rows s = sp_cols s -> sp_symmetric s -> sp_sdd_pos s -> itol = 1 \/ itol = 2 ->
  length b = sp_rows s -> length x0 = sp_rows s -> (0 <= tol)%R -> sp_rows s <= max ->
  exists k x g, @run_sparse SAR (BiCG itol) s b x0 max tol = Ok (IOk k, x, g) /\ k <= sp_rows s /\
    (@norm2 SAR (@zipw AR Rminus b (@sp_apply AR s x)) <= tol * @nz SAR (@norm2 SAR b))%R.
Proof. intros s itol b x0 max tol. exact (bicg_terminates_sdd_sparse_R s itol b x0 max tol). Qed.
Check bicg_terminates_sdd_sparse_R : forall (s : sparse AR) itol (b x0 : list R) max (tol : R),
  wfS s -> sp_rows s = sp_cols s -> sp_symmetric s -> sp_sdd_pos s -> itol = 1 \/ itol = 2 ->
  length b = sp_rows s -> length x0 = sp_rows s -> (0 <= tol)%R -> sp_rows s <= max ->
  exists k x g, @run_sparse SAR (BiCG itol) s b x0 max tol = Ok (IOk k, x, g) /\ k <= sp_rows s /\
    (@norm2 SAR (@zipw AR Rminus b (@sp_apply AR s x)) <= tol * @nz SAR (@norm2 SAR b))%R.
Print Assumptions bicg_terminates_sdd_sparse_R.
Example bicg_terminates_sdd_sparse_R_nonvacuous : wfS exr_s /\ sp_rows exr_s = sp_cols exr_s /\ sp_symmetric exr_s /\ sp_sdd_pos exr_s.
Proof. split; [exact exr_s_wf|]. split; [reflexivity|]. split; [exact exr_s_sym | exact exr_s_sdd]. Qed.

(* the positive counterpart of the left-eigenvector breakdowns, ALL FOUR solvers, over R: if the initial residual is a (right) eigenvector of A
   with a nonzero eigenvalue, the first step lands on the exact solution x0 + r0/lam and the solver answers Ok within ONE iteration -- for every
   tol >= 0 and every budget >= 1 (A arbitrary otherwise: nonsymmetric, indefinite; mulAT only has to be total) *)
Theorem eigen_start_converges_R : forall n (mulA mulAT : list R -> res (list R)), @LinOp AR n mulA ->
  (forall v, length v = n -> exists w, mulAT v = Ok w /\ length w = n) ->
  forall sv (b x0 ax : list R) (lam : R) max (tol : R),
  (forall itol, sv = BiCG itol -> itol = 1 \/ itol = 2) ->
  length b = n -> length x0 = n -> mulA x0 = Ok ax ->
  let r0 := @zipw AR Rminus b ax in
  mulA r0 = Ok (@vscale AR r0 lam) -> lam <> 0%R -> (0 <= tol)%R -> 1 <= max ->
  exists k x g, @run SAR mulA mulAT n n sv b x0 max tol = Ok (IOk k, x, g) /\ k <= 1.
Proof. intros n mulA mulAT LO TOT sv b x0 ax lam max tol. exact (eigen_start_converges_R n mulA mulAT LO TOT sv b x0 ax lam max tol). Qed.
Check eigen_start_converges_R : forall n (mulA mulAT : list R -> res (list R)), @LinOp AR n mulA ->
  (forall v, length v = n -> exists w, mulAT v = Ok w /\ length w = n) ->
  forall sv (b x0 ax : list R) (lam : R) max (tol : R),
  (forall itol, sv = BiCG itol -> itol = 1 \/ itol = 2) ->
  length b = n -> length x0 = n -> mulA x0 = Ok ax ->
  let r0 := @zipw AR Rminus b ax in
  mulA r0 = Ok (@vscale AR r0 lam) -> lam <> 0%R -> (0 <= tol)%R -> 1 <= max ->
  exists k x g, @run SAR mulA mulAT n n sv b x0 max tol = Ok (IOk k, x, g) /\ k <= 1.
Print Assumptions eigen_start_converges_R.

(* for the implementation's matrix type.  Instance: the SAME matrix [[2,-1],[0,1]] on which QMR/BiCG break down for b = (2,-2), with b = (1,0) *)
Theorem eigen_start_converges_sparse_R : forall sv (s : sparse AR) (b x0 : list R) (lam : R) max (tol : R),
  wfS s -> sp_rows s = sp_cols s ->
  (forall itol, sv = BiCG itol -> itol = 1 \/ itol = 2) ->
  length b = sp_rows s -> length x0 = sp_rows s ->
  let r0 := @zipw AR Rminus b (@sp_apply AR s x0) in
  @sp_apply AR s r0 = @vscale AR r0 lam -> lam <> 0%R -> (0 <= tol)%R -> 1 <= max ->
  exists k x g, @run_sparse SAR sv s b x0 max tol = Ok (IOk k, x, g) /\ k <= 1.
Proof. intros sv s b x0 lam max tol. exact (eigen_start_converges_sparse_R sv s b x0 lam max tol). Qed.
Check eigen_start_converges_sparse_R : forall sv (s : sparse AR) (b x0 : list R) (lam : R) max (tol : R),
  wfS s -> sp_rows s = sp_cols s ->
  (forall itol, sv = BiCG itol -> itol = 1 \/ itol = 2) ->
  length b = sp_rows s -> length x0 = sp_rows s ->
  let r0 := @zipw AR Rminus b (@sp_apply AR s x0) in
  @sp_apply AR s r0 = @vscale AR r0 lam -> lam <> 0%R -> (0 <= tol)%R -> 1 <= max ->
  exists k x g, @run_sparse SAR sv s b x0 max tol = Ok (IOk k, x, g) /\ k <= 1.
Print Assumptions eigen_start_converges_sparse_R.
Example eigen_start_converges_sparse_R_nonvacuous : wfS kr_s /\ sp_rows kr_s = sp_cols kr_s /\
  (let r0 := @zipw AR Rminus [1%R; 0%R] (@sp_apply AR kr_s [0%R; 0%R]) in @sp_apply AR kr_s r0 = @vscale AR r0 2%R).
Proof. split; [exact kr_s_wf|]. split; [reflexivity | exact kr_right_eigenvector]. Qed.

(* (d) every 1 x 1 system a x = b with a <> 0: every solver answers Ok within one iteration, for every b, x0, tol >= 0, budget >= 1 *)
Theorem one_by_one_converges_R : forall (mulA mulAT : list R -> res (list R)) (a : R) sv (b x0 : list R) max (tol : R),
  @LinOp AR 1 mulA -> (forall v, length v = 1 -> exists w, mulAT v = Ok w /\ length w = 1) ->
  mulA [1%R] = Ok [a] -> a <> 0%R ->
  (forall itol, sv = BiCG itol -> itol = 1 \/ itol = 2) ->
  length b = 1 -> length x0 = 1 -> (0 <= tol)%R -> 1 <= max ->
  exists k x g, @run SAR mulA mulAT 1 1 sv b x0 max tol = Ok (IOk k, x, g) /\ k <= 1.
Proof. intros mulA mulAT a sv b x0 max tol. exact (one_by_one_converges_R mulA mulAT a sv b x0 max tol). Qed.
Check one_by_one_converges_R : forall (mulA mulAT : list R -> res (list R)) (a : R) sv (b x0 : list R) max (tol : R),
  @LinOp AR 1 mulA -> (forall v, length v = 1 -> exists w, mulAT v = Ok w /\ length w = 1) ->
  mulA [1%R] = Ok [a] -> a <> 0%R ->
  (forall itol, sv = BiCG itol -> itol = 1 \/ itol = 2) ->
  length b = 1 -> length x0 = 1 -> (0 <= tol)%R -> 1 <= max ->
  exists k x g, @run SAR mulA mulAT 1 1 sv b x0 max tol = Ok (IOk k, x, g) /\ k <= 1.
Print Assumptions one_by_one_converges_R.

(* BiCG, ARBITRARY (nonsymmetric) matrix given by a linear product and its adjoint, any field: along every run of the model's loop (started,
   as solve_bicg starts it, with the shadow residual equal to the residual) the residuals and the shadow residuals are BI-ORTHOGONAL:
   at the state reached after k = i-1 steps there are histories R = [r_{k-1};..;r_0], RR = [rr_{k-1};..;rr_0] with <r_a, rr_b> = 0 for a <> b
   (bo (u,u') (v,v') := <u,v'> = 0 /\ <v,u'> = 0; biI = the full invariant of Proofs/IterCGBiOrth.v, both sides obtained from ONE abstract
   half_step lemma) *)
Theorem bicg_biorthogonality : forall (A : SArith), FieldLaws (SA A) ->
  forall n (mulA mulAT : list (T (SA A)) -> res (list (T (SA A)))), LinOp n mulA -> LinOp n mulAT -> AdjOp n mulA mulAT ->
  forall itol tol bnrm (s0 : @bicg_st A) i s,
  itol = 1 \/ itol = 2 -> bi_lens n s0 -> bi_rr s0 = bi_r s0 -> 2 <= i ->
  reaches (bicg_body mulA mulAT n itol tol bnrm) 1 s0 i s ->
  exists R RR P PP, length R = i - 1 /\ length RR = i - 1 /\
    ForallOrdPairs bo ((bi_r s, bi_rr s) :: combine R RR) /\
    biI n mulA mulAT (bi_x s) (bi_r s) (bi_rr s) (bi_p s) (bi_pp s) (bi_rho2 s) R RR P PP.
Proof. intros A FL n mulA mulAT LO LOT ADJ itol tol bnrm s0 i s. exact (bicg_biorthogonality FL n mulA mulAT LO LOT ADJ itol tol bnrm s0 i s). Qed.
Check bicg_biorthogonality : forall (A : SArith), FieldLaws (SA A) ->
  forall n (mulA mulAT : list (T (SA A)) -> res (list (T (SA A)))), LinOp n mulA -> LinOp n mulAT -> AdjOp n mulA mulAT ->
  forall itol tol bnrm (s0 : @bicg_st A) i s,
  itol = 1 \/ itol = 2 -> bi_lens n s0 -> bi_rr s0 = bi_r s0 -> 2 <= i ->
  reaches (bicg_body mulA mulAT n itol tol bnrm) 1 s0 i s ->
  exists R RR P PP, length R = i - 1 /\ length RR = i - 1 /\
    ForallOrdPairs bo ((bi_r s, bi_rr s) :: combine R RR) /\
    biI n mulA mulAT (bi_x s) (bi_r s) (bi_rr s) (bi_p s) (bi_pp s) (bi_rho2 s) R RR P PP.
Print Assumptions bicg_biorthogonality.
Example bicg_biorthogonality_nonvacuous : LinOp 2 (@sp_mul AQ kq_s) /\ LinOp 2 (@sp_tmul AQ kq_s) /\ AdjOp 2 (@sp_mul AQ kq_s) (@sp_tmul AQ kq_s).
Proof. split; [exact (sp_mul_LinOp AQ_RingLaws kq_s 2 kq_s_wf eq_refl eq_refl)|].
  split; [exact (sp_tmul_LinOp AQ_RingLaws kq_s 2 kq_s_wf eq_refl eq_refl) | exact (sp_mul_AdjOp AQ_RingLaws kq_s 2 kq_s_wf eq_refl eq_refl)]. Qed.

(* the solver as a whole, ANY square matrix: whenever at least one iteration was performed (Ok from the loop, or Err with a budget >= 1) the final
   residual g_t g = b - A x is orthogonal to the initial residual b - A x0 (which is the initial shadow residual) *)
Theorem bicg_final_residual_orth_initial : forall (A : SArith), FieldLaws (SA A) ->
  forall n (mulA mulAT : list (T (SA A)) -> res (list (T (SA A)))), LinOp n mulA -> LinOp n mulAT -> AdjOp n mulA mulAT ->
  forall itol (b x0 : list (T (SA A))) max tol res x g,
  solve_bicg mulA mulAT n n itol b x0 max tol = Ok (res, x, g) ->
  g_exit g = 1 \/ (g_exit g = 2 /\ 1 <= max) ->
  exists ax0, mulA x0 = Ok ax0 /\ dot_raw (g_t g) (zipw sub b ax0) = zero.
Proof. intros A FL n mulA mulAT LO LOT ADJ itol b x0 max tol res x g. exact (solve_bicg_residual_orth_initial FL n mulA mulAT LO LOT ADJ itol b x0 max tol res x g). Qed.
Check bicg_final_residual_orth_initial : forall (A : SArith), FieldLaws (SA A) ->
  forall n (mulA mulAT : list (T (SA A)) -> res (list (T (SA A)))), LinOp n mulA -> LinOp n mulAT -> AdjOp n mulA mulAT ->
  forall itol (b x0 : list (T (SA A))) max tol res x g,
  solve_bicg mulA mulAT n n itol b x0 max tol = Ok (res, x, g) ->
  g_exit g = 1 \/ (g_exit g = 2 /\ 1 <= max) ->
  exists ax0, mulA x0 = Ok ax0 /\ dot_raw (g_t g) (zipw sub b ax0) = zero.
Print Assumptions bicg_final_residual_orth_initial.

Theorem bicg_final_residual_orth_initial_sparse : forall (A : SArith) (FL : FieldLaws (SA A)) (s : sparse (SA A)) itol (b x0 : list (T (SA A))) max tol res x g,
  wfS s ->
  run_sparse (BiCG itol) s b x0 max tol = Ok (res, x, g) ->
  g_exit g = 1 \/ (g_exit g = 2 /\ 1 <= max) ->
  dot_raw (zipw sub b (sp_apply s x)) (zipw sub b (sp_apply s x0)) = zero.
Proof. intros A FL s itol b x0 max tol res x g. exact (bicg_final_residual_orth_initial_sparse FL s itol b x0 max tol res x g). Qed.
Check bicg_final_residual_orth_initial_sparse : forall (A : SArith) (FL : FieldLaws (SA A)) (s : sparse (SA A)) itol (b x0 : list (T (SA A))) max tol res x g,
  wfS s ->
  run_sparse (BiCG itol) s b x0 max tol = Ok (res, x, g) ->
  g_exit g = 1 \/ (g_exit g = 2 /\ 1 <= max) ->
  dot_raw (zipw sub b (sp_apply s x)) (zipw sub b (sp_apply s x0)) = zero.
Print Assumptions bicg_final_residual_orth_initial_sparse.
Example bicg_final_residual_orth_initial_sparse_nonvacuous : wfS exq_s /\ exists x g, @run_sparse SAQ (BiCG 1) exq_s [q 1 1; q 2 1] [q 2 1; q 1 1] 10 (q 1 1000) = Ok (IOk 2, x, g).
Proof. split; [exact exq_s_wf|]. apply exq_run_sparse_ok. intros itol H. injection H as <-. now left. Qed.

(* BREAKDOWN OR TERMINATION: a run that reaches iteration i >= 2 without a panic has divided by <r_{i-2}, rr_{i-2}>; bi-orthogonal pairs with
   nonzero pairings are at most n (biorth_bound); hence in exact arithmetic, for EVERY square matrix, b, x0, tol: solve_bicg either divides by
   zero (a Panic of the model -- exactly the breakdown for which the code has no test and f64 produces NaN) or answers Ok within n+1
   iterations; it never exhausts a budget >= n+2.  Together with bicg_left_eigenvector_breakdown: the failures of BiCG on well-posed systems ARE its breakdowns *)
Theorem bicg_breakdown_or_terminates : forall (A : SArith), FieldLaws (SA A) ->
  forall n (mulA mulAT : list (T (SA A)) -> res (list (T (SA A)))), LinOp n mulA -> LinOp n mulAT -> AdjOp n mulA mulAT ->
  forall itol (b x0 : list (T (SA A))) max tol res x g,
  n + 2 <= max ->
  solve_bicg mulA mulAT n n itol b x0 max tol = Ok (res, x, g) ->
  exists k, res = IOk k /\ k <= n + 1.
Proof. intros A FL n mulA mulAT LO LOT ADJ itol b x0 max tol res x g. exact (bicg_breakdown_or_terminates FL n mulA mulAT LO LOT ADJ itol b x0 max tol res x g). Qed.
Check bicg_breakdown_or_terminates : forall (A : SArith), FieldLaws (SA A) ->
  forall n (mulA mulAT : list (T (SA A)) -> res (list (T (SA A)))), LinOp n mulA -> LinOp n mulAT -> AdjOp n mulA mulAT ->
  forall itol (b x0 : list (T (SA A))) max tol res x g,
  n + 2 <= max ->
  solve_bicg mulA mulAT n n itol b x0 max tol = Ok (res, x, g) ->
  exists k, res = IOk k /\ k <= n + 1.
Print Assumptions bicg_breakdown_or_terminates.
Example bicg_breakdown_or_terminates_nonvacuous : LinOp 2 (@sp_mul AQ exq_s) /\ LinOp 2 (@sp_tmul AQ exq_s) /\ AdjOp 2 (@sp_mul AQ exq_s) (@sp_tmul AQ exq_s) /\
  exists x g, @solve_bicg SAQ (sp_mul exq_s) (sp_tmul exq_s) 2 2 1 [q 1 1; q 2 1] [q 2 1; q 1 1] 10 (q 1 1000) = Ok (IOk 2, x, g).
Proof. split; [exact exq_lin|]. split; [exact (sp_tmul_LinOp AQ_RingLaws exq_s 2 exq_s_wf eq_refl eq_refl)|].
  split; [exact (sp_mul_AdjOp AQ_RingLaws exq_s 2 exq_s_wf eq_refl eq_refl)|]. apply (@ok_k_witness SAQ). vm_compute. reflexivity. Qed.

(* for the implementation's matrix type: every well-formed storage (no symmetry, no dominance, no definiteness asked) *)
Theorem bicg_breakdown_or_terminates_sparse : forall (A : SArith) (FL : FieldLaws (SA A)) (s : sparse (SA A)) itol (b x0 : list (T (SA A))) max tol res x g,
  wfS s -> sp_rows s + 2 <= max ->
  run_sparse (BiCG itol) s b x0 max tol = Ok (res, x, g) ->
  exists k, res = IOk k /\ k <= sp_rows s + 1.
Proof. intros A FL s itol b x0 max tol res x g. exact (bicg_breakdown_or_terminates_sparse FL s itol b x0 max tol res x g). Qed.
Check bicg_breakdown_or_terminates_sparse : forall (A : SArith) (FL : FieldLaws (SA A)) (s : sparse (SA A)) itol (b x0 : list (T (SA A))) max tol res x g,
  wfS s -> sp_rows s + 2 <= max ->
  run_sparse (BiCG itol) s b x0 max tol = Ok (res, x, g) ->
  exists k, res = IOk k /\ k <= sp_rows s + 1.
Print Assumptions bicg_breakdown_or_terminates_sparse.
Example bicg_breakdown_or_terminates_sparse_nonvacuous : wfS exq_s /\ exists x g, @run_sparse SAQ (BiCG 2) exq_s [q 1 1; q 2 1] [q 2 1; q 1 1] 10 (q 1 1000) = Ok (IOk 2, x, g).
Proof. split; [exact exq_s_wf|]. apply exq_run_sparse_ok. intros itol H. injection H as <-. now right. Qed.

(* (3) ANY arithmetic (floats included), any products, any sizes.  The ghost exit code g_exit names the `return` taken (Model/Iter.v).
   BiCGSTAB: an Err is budget exhaustion (2), the `rho_1 == 0` exit (10) or the `omega == 0` exit (11), nothing else *)
Theorem bicgstab_err_exits : forall (A : SArith) (mulA : list (T (SA A)) -> res (list (T (SA A)))) rows cols b x0 max tol e x g,
  solve_bicgstab mulA rows cols b x0 max tol = Ok (IErr e, x, g) ->
  g_exit g = 2 \/ g_exit g = 10 \/ g_exit g = 11.
Proof. intros A mulA rows cols b x0 max tol e x g. exact (bicgstab_err_exits_lemma mulA rows cols b x0 max tol e x g). Qed.
Check bicgstab_err_exits : forall (A : SArith) (mulA : list (T (SA A)) -> res (list (T (SA A)))) rows cols b x0 max tol e x g,
  solve_bicgstab mulA rows cols b x0 max tol = Ok (IErr e, x, g) ->
  g_exit g = 2 \/ g_exit g = 10 \/ g_exit g = 11.
Print Assumptions bicgstab_err_exits.
Example bicgstab_err_exits_nonvacuous : exit_code kf_stab_run = Some 10.
Proof. exact kf_stab_exit_lemma. Qed.

(* one iteration: the `rho_1 == 0` exit is taken EXACTLY when <rtilde, r> evaluates to a value equal to zero
   (err_exit out c: the body left the loop with an Err whose exit code is c) *)
Theorem bicgstab_rho_exit_body_iff : forall (A : SArith) (mulA : list (T (SA A)) -> res (list (T (SA A)))) rows rtilde tol normb i s out,
  stab_body mulA rows rtilde tol normb i s = Ok out ->
  (err_exit out 10 <-> exists rho, dot rtilde (st_r s) = Ok rho /\ eqb rho zero = true).
Proof. intros A mulA rows rtilde tol normb i s out. exact (stab_body_rho_exit_iff mulA rows rtilde tol normb i s out). Qed.
Check bicgstab_rho_exit_body_iff : forall (A : SArith) (mulA : list (T (SA A)) -> res (list (T (SA A)))) rows rtilde tol normb i s out,
  stab_body mulA rows rtilde tol normb i s = Ok out ->
  (err_exit out 10 <-> exists rho, dot rtilde (st_r s) = Ok rho /\ eqb rho zero = true).
Print Assumptions bicgstab_rho_exit_body_iff.
Example bicgstab_rho_exit_body_iff_nonvacuous : exit_code kf_stab_run = Some 10.
Proof. exact kf_stab_exit_lemma. Qed.

(* the solver: after a start-up that did not accept the guess (the five hypotheses: the code's own start-up computations), solve_bicgstab
   gives up through `rho_1 == 0` EXACTLY when some iteration inside the budget starts from a state (reaches: through Continue steps of
   the loop's own body) whose residual r satisfies <r0, r> == 0, r0 = b - A x0 the shadow residual *)
Theorem bicgstab_rho_exit_iff : forall (A : SArith) (mulA : list (T (SA A)) -> res (list (T (SA A)))) rows cols b x0 max tol ax r0 resid,
  guards rows cols b x0 = Ok tt -> mulA x0 = Ok ax -> vsub b ax = Ok r0 ->
  div (norm2 r0) (nz (norm2 b)) = Ok resid -> leb resid tol = false ->
  ((exists e x g, solve_bicgstab mulA rows cols b x0 max tol = Ok (IErr e, x, g) /\ g_exit g = 10) <->
   (exists i s rho e, 1 <= i <= max /\
      reaches (stab_body mulA rows r0 tol (nz (norm2 b))) 1 (stab_init rows x0 r0 resid tol) i s /\
      dot r0 (st_r s) = Ok rho /\ eqb rho zero = true /\ div (norm2 (st_r s)) (nz (norm2 b)) = Ok e)).
Proof. intros A mulA rows cols b x0 max tol ax r0 resid. exact (bicgstab_rho_exit_iff_lemma mulA rows cols b x0 max tol ax r0 resid). Qed.
Check bicgstab_rho_exit_iff : forall (A : SArith) (mulA : list (T (SA A)) -> res (list (T (SA A)))) rows cols b x0 max tol ax r0 resid,
  guards rows cols b x0 = Ok tt -> mulA x0 = Ok ax -> vsub b ax = Ok r0 ->
  div (norm2 r0) (nz (norm2 b)) = Ok resid -> leb resid tol = false ->
  ((exists e x g, solve_bicgstab mulA rows cols b x0 max tol = Ok (IErr e, x, g) /\ g_exit g = 10) <->
   (exists i s rho e, 1 <= i <= max /\
      reaches (stab_body mulA rows r0 tol (nz (norm2 b))) 1 (stab_init rows x0 r0 resid tol) i s /\
      dot r0 (st_r s) = Ok rho /\ eqb rho zero = true /\ div (norm2 (st_r s)) (nz (norm2 b)) = Ok e)).
Print Assumptions bicgstab_rho_exit_iff.
Example bicgstab_rho_exit_iff_nonvacuous : exit_code kf_stab_run = Some 10.
Proof. exact kf_stab_exit_lemma. Qed.

(* the `omega == 0` exit: omega = <t, s> / <t, t>, t = A s, evaluated to a value equal to zero *)
Theorem bicgstab_omega_exit : forall (A : SArith) (mulA : list (T (SA A)) -> res (list (T (SA A)))) rows rtilde tol normb i s out,
  stab_body mulA rows rtilde tol normb i s = Ok out -> err_exit out 11 ->
  exists sv shat t ts tdt omega, ident_pre rows sv (st_shat s) = Ok shat /\ mulA shat = Ok t /\
    dot t sv = Ok ts /\ dot t t = Ok tdt /\ div ts tdt = Ok omega /\ eqb omega zero = true.
Proof. intros A mulA rows rtilde tol normb i s out. exact (stab_body_omega_exit mulA rows rtilde tol normb i s out). Qed.
Check bicgstab_omega_exit : forall (A : SArith) (mulA : list (T (SA A)) -> res (list (T (SA A)))) rows rtilde tol normb i s out,
  stab_body mulA rows rtilde tol normb i s = Ok out -> err_exit out 11 ->
  exists sv shat t ts tdt omega, ident_pre rows sv (st_shat s) = Ok shat /\ mulA shat = Ok t /\
    dot t sv = Ok ts /\ dot t t = Ok tdt /\ div ts tdt = Ok omega /\ eqb omega zero = true.
Print Assumptions bicgstab_omega_exit.

(* QMR: an Err is budget exhaustion (2) or one of the six `== 0` exits rho, xi, delta, ep, beta, gamma (20..25) *)
Theorem qmr_err_exits : forall (A : SArith) (mulA mulAT : list (T (SA A)) -> res (list (T (SA A)))) rows cols b x0 max tol e x g,
  solve_qmr mulA mulAT rows cols b x0 max tol = Ok (IErr e, x, g) ->
  g_exit g = 2 \/ 20 <= g_exit g <= 25.
Proof. intros A mulA mulAT rows cols b x0 max tol e x g. exact (qmr_err_exits_lemma mulA mulAT rows cols b x0 max tol e x g). Qed.
Check qmr_err_exits : forall (A : SArith) (mulA mulAT : list (T (SA A)) -> res (list (T (SA A)))) rows cols b x0 max tol e x g,
  solve_qmr mulA mulAT rows cols b x0 max tol = Ok (IErr e, x, g) ->
  g_exit g = 2 \/ 20 <= g_exit g <= 25.
Print Assumptions qmr_err_exits.
Example qmr_err_exits_nonvacuous : exit_code kf_qmr_run = Some 21.
Proof. exact kf_qmr_exit_lemma. Qed.

(* one iteration: the exits `rho == 0`, `xi == 0`, `delta == 0` are taken EXACTLY when rho / xi / delta = <z, y> is zero, in this order of precedence *)
Theorem qmr_exits_body_iff : forall (A : SArith) (mulA mulAT : list (T (SA A)) -> res (list (T (SA A)))) tol normb i s out,
  qmr_body mulA mulAT tol normb i s = Ok out ->
  (err_exit out 20 <-> eqb (q_rho s) zero = true) /\
  (err_exit out 21 <-> eqb (q_rho s) zero = false /\ eqb (q_xi s) zero = true) /\
  (err_exit out 22 <-> eqb (q_rho s) zero = false /\ eqb (q_xi s) zero = false /\
       exists y z delta, vdiv (q_y s) (q_rho s) = Ok y /\ vdiv (q_z s) (q_xi s) = Ok z /\
                         dot z y = Ok delta /\ eqb delta zero = true).
Proof. intros A mulA mulAT tol normb i s out. exact (qmr_body_exits_iff mulA mulAT tol normb i s out). Qed.
Check qmr_exits_body_iff : forall (A : SArith) (mulA mulAT : list (T (SA A)) -> res (list (T (SA A)))) tol normb i s out,
  qmr_body mulA mulAT tol normb i s = Ok out ->
  (err_exit out 20 <-> eqb (q_rho s) zero = true) /\
  (err_exit out 21 <-> eqb (q_rho s) zero = false /\ eqb (q_xi s) zero = true) /\
  (err_exit out 22 <-> eqb (q_rho s) zero = false /\ eqb (q_xi s) zero = false /\
       exists y z delta, vdiv (q_y s) (q_rho s) = Ok y /\ vdiv (q_z s) (q_xi s) = Ok z /\
                         dot z y = Ok delta /\ eqb delta zero = true).
Print Assumptions qmr_exits_body_iff.

(* the exits `ep == 0`, `beta == 0`, `gamma == 0`: ep = <q, A p>, beta = ep / delta, gamma = 1 / sqrt (1 + theta^2) evaluated to zero *)
Theorem qmr_late_exits : forall (A : SArith) (mulA mulAT : list (T (SA A)) -> res (list (T (SA A)))) tol normb i s out,
  qmr_body mulA mulAT tol normb i s = Ok out ->
  (err_exit out 23 -> exists p q pt ep, mulA p = Ok pt /\ dot q pt = Ok ep /\ eqb ep zero = true) /\
  (err_exit out 24 -> exists ep delta beta : T (SA A), div ep delta = Ok beta /\ eqb beta zero = true) /\
  (err_exit out 25 -> exists theta gamma : T (SA A), div one (sqrt (add one (mul theta theta))) = Ok gamma /\ eqb gamma zero = true).
Proof. intros A mulA mulAT tol normb i s out. exact (qmr_body_late_exits mulA mulAT tol normb i s out). Qed.
Check qmr_late_exits : forall (A : SArith) (mulA mulAT : list (T (SA A)) -> res (list (T (SA A)))) tol normb i s out,
  qmr_body mulA mulAT tol normb i s = Ok out ->
  (err_exit out 23 -> exists p q pt ep, mulA p = Ok pt /\ dot q pt = Ok ep /\ eqb ep zero = true) /\
  (err_exit out 24 -> exists ep delta beta : T (SA A), div ep delta = Ok beta /\ eqb beta zero = true) /\
  (err_exit out 25 -> exists theta gamma : T (SA A), div one (sqrt (add one (mul theta theta))) = Ok gamma /\ eqb gamma zero = true).
Print Assumptions qmr_late_exits.

(* the solver: solve_qmr gives up through `rho == 0` (`xi == 0`) EXACTLY when an iteration inside the budget starts from a state whose right
   Lanczos vector y (left Lanczos vector z) has 2-norm equal to zero -- rho = ||y||, xi = ||z|| at every reachable state; through
   `delta == 0` only when the normalised vectors have <z, y> == 0 *)
Theorem qmr_exits_iff : forall (A : SArith) (mulA mulAT : list (T (SA A)) -> res (list (T (SA A)))) rows cols b x0 max tol ax r0 resid,
  guards rows cols b x0 = Ok tt -> mulA x0 = Ok ax -> vsub b ax = Ok r0 ->
  div (norm2 r0) (nz (norm2 b)) = Ok resid -> leb resid tol = false ->
  let body := qmr_body mulA mulAT tol (nz (norm2 b)) in
  let init := qmr_init rows x0 r0 resid tol in
  ((exists e x g, solve_qmr mulA mulAT rows cols b x0 max tol = Ok (IErr e, x, g) /\ g_exit g = 20) <->
   (exists i s, 1 <= i <= max /\ reaches body 1 init i s /\ eqb (norm2 (q_y s)) zero = true)) /\
  ((exists e x g, solve_qmr mulA mulAT rows cols b x0 max tol = Ok (IErr e, x, g) /\ g_exit g = 21) <->
   (exists i s, 1 <= i <= max /\ reaches body 1 init i s /\
                eqb (norm2 (q_y s)) zero = false /\ eqb (norm2 (q_z s)) zero = true)) /\
  ((exists e x g, solve_qmr mulA mulAT rows cols b x0 max tol = Ok (IErr e, x, g) /\ g_exit g = 22) ->
   (exists i s y z delta, 1 <= i <= max /\ reaches body 1 init i s /\
                eqb (norm2 (q_y s)) zero = false /\ eqb (norm2 (q_z s)) zero = false /\
                vdiv (q_y s) (norm2 (q_y s)) = Ok y /\ vdiv (q_z s) (norm2 (q_z s)) = Ok z /\
                dot z y = Ok delta /\ eqb delta zero = true)).
Proof. intros A mulA mulAT rows cols b x0 max tol ax r0 resid. exact (qmr_exits_iff_lemma mulA mulAT rows cols b x0 max tol ax r0 resid). Qed.
Check qmr_exits_iff : forall (A : SArith) (mulA mulAT : list (T (SA A)) -> res (list (T (SA A)))) rows cols b x0 max tol ax r0 resid,
  guards rows cols b x0 = Ok tt -> mulA x0 = Ok ax -> vsub b ax = Ok r0 ->
  div (norm2 r0) (nz (norm2 b)) = Ok resid -> leb resid tol = false ->
  let body := qmr_body mulA mulAT tol (nz (norm2 b)) in
  let init := qmr_init rows x0 r0 resid tol in
  ((exists e x g, solve_qmr mulA mulAT rows cols b x0 max tol = Ok (IErr e, x, g) /\ g_exit g = 20) <->
   (exists i s, 1 <= i <= max /\ reaches body 1 init i s /\ eqb (norm2 (q_y s)) zero = true)) /\
  ((exists e x g, solve_qmr mulA mulAT rows cols b x0 max tol = Ok (IErr e, x, g) /\ g_exit g = 21) <->
   (exists i s, 1 <= i <= max /\ reaches body 1 init i s /\
                eqb (norm2 (q_y s)) zero = false /\ eqb (norm2 (q_z s)) zero = true)) /\
  ((exists e x g, solve_qmr mulA mulAT rows cols b x0 max tol = Ok (IErr e, x, g) /\ g_exit g = 22) ->
   (exists i s y z delta, 1 <= i <= max /\ reaches body 1 init i s /\
                eqb (norm2 (q_y s)) zero = false /\ eqb (norm2 (q_z s)) zero = false /\
                vdiv (q_y s) (norm2 (q_y s)) = Ok y /\ vdiv (q_z s) (norm2 (q_z s)) = Ok z /\
                dot z y = Ok delta /\ eqb delta zero = true)).
Print Assumptions qmr_exits_iff.
Example qmr_exits_iff_nonvacuous : exit_code kf_qmr_run = Some 21.
Proof. exact kf_qmr_exit_lemma. Qed.

(* BiCG has NO breakdown exit: its body never returns an Err (whatever <z, rr> and <A p, pp> are, it divides by them); the only Err is
   budget exhaustion after max_iter full steps *)
Theorem bicg_err_only_budget : forall (A : SArith) (mulA mulAT : list (T (SA A)) -> res (list (T (SA A)))) rows cols itol b x0 max tol e x g,
  solve_bicg mulA mulAT rows cols itol b x0 max tol = Ok (IErr e, x, g) -> g_exit g = 2.
Proof. intros A mulA mulAT rows cols itol b x0 max tol e x g. exact (bicg_err_only_budget_lemma mulA mulAT rows cols itol b x0 max tol e x g). Qed.
Check bicg_err_only_budget : forall (A : SArith) (mulA mulAT : list (T (SA A)) -> res (list (T (SA A)))) rows cols itol b x0 max tol e x g,
  solve_bicg mulA mulAT rows cols itol b x0 max tol = Ok (IErr e, x, g) -> g_exit g = 2.
Print Assumptions bicg_err_only_budget.
Example bicg_err_only_budget_nonvacuous : exit_code (kf_bicg_run 1) = Some 2.
Proof. exact (proj1 (proj2 (proj2 bicg_no_breakdown_test_lemma))). Qed.

(* ..._refuted-style, by evaluation of the float model on the committed witness corpus/C09/kf_bicg_breakdown.json
   ([[2,-1],[0,1]] x = (2,-2), x0 = 0, tol 1e-6, budget 140; kf_bicg_run itol = the term driver/iterlib.py:coq_run builds for it):
   the strictly diagonally dominant system makes BiCG divide 0/0 in its second iteration; it runs out its budget on NaN and returns
   Err(NaN) with x = (NaN, NaN), for both error measures.  (QMR on the same system: kf_qmr_exit_lemma, exit `xi == 0`.) *)
Theorem bicg_no_breakdown_test : err_nan_x_nan (kf_bicg_run 1) = true /\ err_nan_x_nan (kf_bicg_run 2) = true /\
  exit_code (kf_bicg_run 1) = Some 2 /\ exit_code (kf_bicg_run 2) = Some 2.
Proof. exact bicg_no_breakdown_test_lemma. Qed.
Check bicg_no_breakdown_test : err_nan_x_nan (kf_bicg_run 1) = true /\ err_nan_x_nan (kf_bicg_run 2) = true /\
  exit_code (kf_bicg_run 1) = Some 2 /\ exit_code (kf_bicg_run 2) = Some 2.
Print Assumptions bicg_no_breakdown_test.

(* exact arithmetic (any field): when solve_bicgstab gives up through `rho_1 == 0` the TRUE residual of the returned x is orthogonal
   to the initial residual:  <b - A x0, b - A x> = 0 *)
Theorem bicgstab_rho_exit_orthogonal : forall (A : SArith), FieldLaws (SA A) ->
  forall n (mulA : list (T (SA A)) -> res (list (T (SA A)))), LinOp n mulA ->
  forall cols (b x0 : list (T (SA A))) max tol e x g,
  solve_bicgstab mulA n cols b x0 max tol = Ok (IErr e, x, g) -> g_exit g = 10 ->
  exists ax0 ax, mulA x0 = Ok ax0 /\ mulA x = Ok ax /\
    dot_raw (zipw sub b ax0) (zipw sub b ax) = zero.
Proof. intros A FL n mulA LO cols b x0 max tol e x g. exact (bicgstab_rho_exit_orthogonal FL n mulA LO cols b x0 max tol e x g). Qed.
Check bicgstab_rho_exit_orthogonal : forall (A : SArith), FieldLaws (SA A) ->
  forall n (mulA : list (T (SA A)) -> res (list (T (SA A)))), LinOp n mulA ->
  forall cols (b x0 : list (T (SA A))) max tol e x g,
  solve_bicgstab mulA n cols b x0 max tol = Ok (IErr e, x, g) -> g_exit g = 10 ->
  exists ax0 ax, mulA x0 = Ok ax0 /\ mulA x = Ok ax /\
    dot_raw (zipw sub b ax0) (zipw sub b ax) = zero.
Print Assumptions bicgstab_rho_exit_orthogonal.
Example bicgstab_rho_exit_orthogonal_nonvacuous : exit_code kf_stab_run = Some 10.
Proof. exact kf_stab_exit_lemma. Qed.

(* the MECHANISM of the open finding solve_bicg/breakdown as a theorem, exact arithmetic (any field, any sqrt): if the initial residual is a
   left eigenvector of A (A^T r0 = lam r0, lam <> 0, <r0,r0> <> 0) and neither the start-up test nor the test after the first step
   accepts, the shadow residual vanishes after one step and the second iteration divides 0 by 0: the model panics with DivZero
   (in f64: the NaN of bicg_no_breakdown_test).  Strict diagonal dominance does not exclude it: [[2,-1],[0,1]], r0 = (2,-2), lam = 2 *)
Theorem bicg_left_eigenvector_breakdown : forall (A : SArith) (FL : FieldLaws (SA A)),
  forall n (mulA mulAT : list (T (SA A)) -> res (list (T (SA A)))), LinOp n mulA -> AdjOp n mulA mulAT ->
  forall itol (b x0 ax ar0 : list (T (SA A))) lam max tol err0 err1,
  itol = 1 \/ itol = 2 -> length b = n -> length x0 = n -> mulA x0 = Ok ax ->
  let r0 := zipw sub b ax in
  let rho := dot_raw r0 r0 in
  let alpha := mul rho (fl_inv (SA A) FL (mul rho lam)) in
  mulAT r0 = Ok (vscale r0 lam) -> lam <> zero -> rho <> zero ->
  mulA r0 = Ok ar0 ->
  div (norm2 r0) (nz (norm2 b)) = Ok err0 -> leb err0 tol = false ->
  div (norm2 (zipw sub r0 (vscale ar0 alpha))) (nz (norm2 b)) = Ok err1 -> leb err1 tol = false ->
  2 <= max ->
  solve_bicg mulA mulAT n n itol b x0 max tol = Panic DivZero.
Proof. intros A FL n mulA mulAT LO ADJ itol b x0 ax ar0 lam max tol err0 err1. exact (bicg_left_eigenvector_breakdown FL n mulA mulAT LO ADJ itol b x0 ax ar0 lam max tol err0 err1). Qed.
Check bicg_left_eigenvector_breakdown : forall (A : SArith) (FL : FieldLaws (SA A)),
  forall n (mulA mulAT : list (T (SA A)) -> res (list (T (SA A)))), LinOp n mulA -> AdjOp n mulA mulAT ->
  forall itol (b x0 ax ar0 : list (T (SA A))) lam max tol err0 err1,
  itol = 1 \/ itol = 2 -> length b = n -> length x0 = n -> mulA x0 = Ok ax ->
  let r0 := zipw sub b ax in
  let rho := dot_raw r0 r0 in
  let alpha := mul rho (fl_inv (SA A) FL (mul rho lam)) in
  mulAT r0 = Ok (vscale r0 lam) -> lam <> zero -> rho <> zero ->
  mulA r0 = Ok ar0 ->
  div (norm2 r0) (nz (norm2 b)) = Ok err0 -> leb err0 tol = false ->
  div (norm2 (zipw sub r0 (vscale ar0 alpha))) (nz (norm2 b)) = Ok err1 -> leb err1 tol = false ->
  2 <= max ->
  solve_bicg mulA mulAT n n itol b x0 max tol = Panic DivZero.
Print Assumptions bicg_left_eigenvector_breakdown.
Example bicg_left_eigenvector_breakdown_nonvacuous : wfS kq_s /\ @sp_tmul AQ kq_s [q 2 1; q (-2) 1] = Ok (@vscale AQ [q 2 1; q (-2) 1] (q 2 1)) /\
  is_divzero (@solve_bicg SAQ (@sp_mul AQ kq_s) (@sp_tmul AQ kq_s) 2 2 1 [q 2 1; q (-2) 1] [q 0 1; q 0 1] 140 (q 1 1000)) = true.
Proof. split; [exact kq_s_wf|]. split; [exact kq_left_eigenvector | exact (proj1 kq_bicg_panics)]. Qed.

(* for the implementation's matrix type (sp_tapply = the transposed product of the denoted matrix) *)
Theorem bicg_left_eigenvector_breakdown_sparse : forall (A : SArith) (FL : FieldLaws (SA A)) (s : sparse (SA A)) itol (b x0 : list (T (SA A))) lam max tol err0 err1,
  wfS s -> sp_rows s = sp_cols s -> itol = 1 \/ itol = 2 -> length b = sp_rows s -> length x0 = sp_rows s ->
  let r0 := zipw sub b (sp_apply s x0) in
  let rho := dot_raw r0 r0 in
  let alpha := mul rho (fl_inv (SA A) FL (mul rho lam)) in
  sp_tapply s r0 = vscale r0 lam -> lam <> zero -> rho <> zero ->
  div (norm2 r0) (nz (norm2 b)) = Ok err0 -> leb err0 tol = false ->
  div (norm2 (zipw sub r0 (vscale (sp_apply s r0) alpha))) (nz (norm2 b)) = Ok err1 -> leb err1 tol = false ->
  2 <= max ->
  run_sparse (BiCG itol) s b x0 max tol = Panic DivZero.
Proof. intros A FL s itol b x0 lam max tol err0 err1. exact (bicg_left_eigenvector_breakdown_sparse FL s itol b x0 lam max tol err0 err1). Qed.
Check bicg_left_eigenvector_breakdown_sparse : forall (A : SArith) (FL : FieldLaws (SA A)) (s : sparse (SA A)) itol (b x0 : list (T (SA A))) lam max tol err0 err1,
  wfS s -> sp_rows s = sp_cols s -> itol = 1 \/ itol = 2 -> length b = sp_rows s -> length x0 = sp_rows s ->
  let r0 := zipw sub b (sp_apply s x0) in
  let rho := dot_raw r0 r0 in
  let alpha := mul rho (fl_inv (SA A) FL (mul rho lam)) in
  sp_tapply s r0 = vscale r0 lam -> lam <> zero -> rho <> zero ->
  div (norm2 r0) (nz (norm2 b)) = Ok err0 -> leb err0 tol = false ->
  div (norm2 (zipw sub r0 (vscale (sp_apply s r0) alpha))) (nz (norm2 b)) = Ok err1 -> leb err1 tol = false ->
  2 <= max ->
  run_sparse (BiCG itol) s b x0 max tol = Panic DivZero.
Print Assumptions bicg_left_eigenvector_breakdown_sparse.
Example bicg_left_eigenvector_breakdown_sparse_nonvacuous : wfS kq_s /\ sp_rows kq_s = sp_cols kq_s /\ @sp_tmul AQ kq_s [q 2 1; q (-2) 1] = Ok (@vscale AQ [q 2 1; q (-2) 1] (q 2 1)) /\
  is_divzero (@run_sparse SAQ (BiCG 1) kq_s [q 2 1; q (-2) 1] [q 0 1; q 0 1] 140 (q 1 1000)) = true.
Proof. split; [exact kq_s_wf|]. split; [reflexivity|]. split; [exact kq_left_eigenvector | exact (proj1 kq_bicg_panics)]. Qed.

(* the MECHANISM of the open finding solve_bicgstab/breakdown as a theorem, exact arithmetic (any field, any sqrt, ANY lam): if the initial
   (= shadow) residual is a left eigenvector of A, <r0, r1> = <r0, s> - omega <A^T r0, s> = 0 because alpha makes <r0, s> vanish: whenever
   solve_bicgstab returns it returns from its FIRST step (Ok 1, or Err `omega == 0`) or from the first line of its second iteration
   through `rho_1 == 0`.  All three committed witnesses corpus/C09/kf_*.json are left-eigenvector starts *)
Theorem bicgstab_left_eigenvector_breakdown : forall (A : SArith), FieldLaws (SA A) ->
  forall n (mulA mulAT : list (T (SA A)) -> res (list (T (SA A)))), LinOp n mulA -> AdjOp n mulA mulAT ->
  forall (b x0 ax : list (T (SA A))) lam max tol res x g,
  mulA x0 = Ok ax ->
  let r0 := zipw sub b ax in
  mulAT r0 = Ok (vscale r0 lam) -> 2 <= max ->
  solve_bicgstab mulA n n b x0 max tol = Ok (res, x, g) ->
  res = IOk 0 \/ res = IOk 1 \/ (exists e, res = IErr e /\ (g_exit g = 10 \/ g_exit g = 11)).
Proof. intros A FL n mulA mulAT LO ADJ b x0 ax lam max tol res x g. exact (bicgstab_left_eigenvector_breakdown FL n mulA mulAT LO ADJ b x0 ax lam max tol res x g). Qed.
Check bicgstab_left_eigenvector_breakdown : forall (A : SArith), FieldLaws (SA A) ->
  forall n (mulA mulAT : list (T (SA A)) -> res (list (T (SA A)))), LinOp n mulA -> AdjOp n mulA mulAT ->
  forall (b x0 ax : list (T (SA A))) lam max tol res x g,
  mulA x0 = Ok ax ->
  let r0 := zipw sub b ax in
  mulAT r0 = Ok (vscale r0 lam) -> 2 <= max ->
  solve_bicgstab mulA n n b x0 max tol = Ok (res, x, g) ->
  res = IOk 0 \/ res = IOk 1 \/ (exists e, res = IErr e /\ (g_exit g = 10 \/ g_exit g = 11)).
Print Assumptions bicgstab_left_eigenvector_breakdown.

(* for the implementation's matrix type; instance: the committed witness [[2,0,1],[0,4,-1],[0,0,3]] x = (0,-6,6), x0 = 0, lam = 4 (over Qc: exit 10) *)
Theorem bicgstab_left_eigenvector_breakdown_sparse : forall (A : SArith) (FL : FieldLaws (SA A)) (s : sparse (SA A)) (b x0 : list (T (SA A))) lam max tol res x g,
  wfS s ->
  let r0 := zipw sub b (sp_apply s x0) in
  sp_tapply s r0 = vscale r0 lam -> 2 <= max ->
  run_sparse BiCGSTAB s b x0 max tol = Ok (res, x, g) ->
  res = IOk 0 \/ res = IOk 1 \/ (exists e, res = IErr e /\ (g_exit g = 10 \/ g_exit g = 11)).
Proof. intros A FL s b x0 lam max tol res x g. exact (bicgstab_left_eigenvector_breakdown_sparse FL s b x0 lam max tol res x g). Qed.
Check bicgstab_left_eigenvector_breakdown_sparse : forall (A : SArith) (FL : FieldLaws (SA A)) (s : sparse (SA A)) (b x0 : list (T (SA A))) lam max tol res x g,
  wfS s ->
  let r0 := zipw sub b (sp_apply s x0) in
  sp_tapply s r0 = vscale r0 lam -> 2 <= max ->
  run_sparse BiCGSTAB s b x0 max tol = Ok (res, x, g) ->
  res = IOk 0 \/ res = IOk 1 \/ (exists e, res = IErr e /\ (g_exit g = 10 \/ g_exit g = 11)).
Print Assumptions bicgstab_left_eigenvector_breakdown_sparse.
Example bicgstab_left_eigenvector_breakdown_sparse_nonvacuous : wfS k3q_s /\
  (let r0 := @zipw AQ sub [q 0 1; q (-6) 1; q 6 1] (@sp_apply AQ k3q_s [q 0 1; q 0 1; q 0 1]) in
   @sp_tapply AQ k3q_s r0 = @vscale AQ r0 (q 4 1)) /\
  exit_code_q (@run_sparse SAQ BiCGSTAB k3q_s [q 0 1; q (-6) 1; q 6 1] [q 0 1; q 0 1; q 0 1] 160 (q 1 1000000)) = Some 10.
Proof. split; [exact k3q_s_wf|]. split; [exact k3q_left_eigenvector | exact k3q_stab_exit]. Qed.

(* the MECHANISM of the open finding solve_qmr/breakdown as a theorem, over R with the exact square root: if the initial residual is a left
   eigenvector of A (A^T r0 = lam r0, lam <> 0, r0 <> 0), solve_qmr performs exactly ONE step -- the left Lanczos vector
   w~ = A^T q - beta w vanishes identically -- and then either that step's test accepted (Ok 1; Ok 0 if the guess was accepted) or the
   second iteration leaves through `rho == 0` / `xi == 0` with Err: whatever tol, budget >= 2, b.  No look-ahead, no restart *)
Theorem qmr_left_eigenvector_breakdown : forall n (mulA mulAT : list R -> res (list R)), @LinOp AR n mulA -> @LinOp AR n mulAT -> @AdjOp AR n mulA mulAT ->
  forall (b x0 ax : list R) (lam : R) max (tol : R),
  length b = n -> length x0 = n -> mulA x0 = Ok ax ->
  let r0 := @zipw AR Rminus b ax in
  mulAT r0 = Ok (@vscale AR r0 lam) -> lam <> 0%R -> r0 <> repeat 0%R n ->
  2 <= max ->
  exists res x g, @solve_qmr SAR mulA mulAT n n b x0 max tol = Ok (res, x, g) /\
    (res = IOk 0 \/ res = IOk 1 \/ (exists e, res = IErr e /\ (g_exit g = 20 \/ g_exit g = 21))).
Proof. intros n mulA mulAT LO LOT ADJ b x0 ax lam max tol. exact (qmr_left_eigenvector_breakdown n mulA mulAT LO LOT ADJ b x0 ax lam max tol). Qed.
Check qmr_left_eigenvector_breakdown : forall n (mulA mulAT : list R -> res (list R)), @LinOp AR n mulA -> @LinOp AR n mulAT -> @AdjOp AR n mulA mulAT ->
  forall (b x0 ax : list R) (lam : R) max (tol : R),
  length b = n -> length x0 = n -> mulA x0 = Ok ax ->
  let r0 := @zipw AR Rminus b ax in
  mulAT r0 = Ok (@vscale AR r0 lam) -> lam <> 0%R -> r0 <> repeat 0%R n ->
  2 <= max ->
  exists res x g, @solve_qmr SAR mulA mulAT n n b x0 max tol = Ok (res, x, g) /\
    (res = IOk 0 \/ res = IOk 1 \/ (exists e, res = IErr e /\ (g_exit g = 20 \/ g_exit g = 21))).
Print Assumptions qmr_left_eigenvector_breakdown.

(* for the implementation's matrix type; the committed witness [[2,-1],[0,1]] x = (2,-2), x0 = 0 is an instance (lam = 2) -- strictly
   diagonally dominant, condition number 3, and QMR cannot solve it for any tol below the residual of its first step *)
Theorem qmr_left_eigenvector_breakdown_sparse : forall (s : sparse AR) (b x0 : list R) (lam : R) max (tol : R),
  wfS s -> sp_rows s = sp_cols s -> length b = sp_rows s -> length x0 = sp_rows s ->
  let r0 := @zipw AR Rminus b (@sp_apply AR s x0) in
  @sp_tapply AR s r0 = @vscale AR r0 lam -> lam <> 0%R -> r0 <> repeat 0%R (sp_rows s) ->
  2 <= max ->
  exists res x g, @run_sparse SAR QMR s b x0 max tol = Ok (res, x, g) /\
    (res = IOk 0 \/ res = IOk 1 \/ (exists e, res = IErr e /\ (g_exit g = 20 \/ g_exit g = 21))).
Proof. intros s b x0 lam max tol. exact (qmr_left_eigenvector_breakdown_sparse s b x0 lam max tol). Qed.
Check qmr_left_eigenvector_breakdown_sparse : forall (s : sparse AR) (b x0 : list R) (lam : R) max (tol : R),
  wfS s -> sp_rows s = sp_cols s -> length b = sp_rows s -> length x0 = sp_rows s ->
  let r0 := @zipw AR Rminus b (@sp_apply AR s x0) in
  @sp_tapply AR s r0 = @vscale AR r0 lam -> lam <> 0%R -> r0 <> repeat 0%R (sp_rows s) ->
  2 <= max ->
  exists res x g, @run_sparse SAR QMR s b x0 max tol = Ok (res, x, g) /\
    (res = IOk 0 \/ res = IOk 1 \/ (exists e, res = IErr e /\ (g_exit g = 20 \/ g_exit g = 21))).
Print Assumptions qmr_left_eigenvector_breakdown_sparse.
Example qmr_left_eigenvector_breakdown_sparse_nonvacuous : wfS kr_s /\ sp_rows kr_s = sp_cols kr_s /\
  (let r0 := @zipw AR Rminus [2%R; (-2)%R] (@sp_apply AR kr_s [0%R; 0%R]) in
   @sp_tapply AR kr_s r0 = @vscale AR r0 2%R /\ r0 <> repeat 0%R (sp_rows kr_s)).
Proof. split; [exact kr_s_wf|]. split; [reflexivity | exact kr_left_eigenvector]. Qed.

(* a SYNTACTIC class of such starts, read off the matrix entries: if the last row of the matrix is (0, ..., 0, a) -- every upper triangular
   matrix -- then with b = c e_n (last_unit n c: supported on the last coordinate) and the zero guess the initial residual is b itself and
   A^T b = a b *)
Theorem last_row_gives_left_eigenvector : forall (A : Arith), RingLaws A -> forall (s : sparse A) n c,
  sp_rows s = S n -> sp_cols s = S n -> (forall j, j < n -> sp_entry s n j = zero) ->
  let r0 := zipw sub (last_unit n c) (sp_apply s (repeat zero (S n))) in
  r0 = last_unit n c /\ sp_tapply s r0 = vscale r0 (sp_entry s n n).
Proof. intros A RL s n c. exact (last_row_start RL s n c). Qed.
Check last_row_gives_left_eigenvector : forall (A : Arith), RingLaws A -> forall (s : sparse A) n c,
  sp_rows s = S n -> sp_cols s = S n -> (forall j, j < n -> sp_entry s n j = zero) ->
  let r0 := zipw sub (last_unit n c) (sp_apply s (repeat zero (S n))) in
  r0 = last_unit n c /\ sp_tapply s r0 = vscale r0 (sp_entry s n n).
Print Assumptions last_row_gives_left_eigenvector.
Example last_row_gives_left_eigenvector_nonvacuous : sp_rows kr_s = 2 /\ sp_cols kr_s = 2 /\ (forall j, j < 1 -> @sp_entry AR kr_s 1 j = 0%R) /\ @sp_entry AR kr_s 1 1 <> 0%R.
Proof. split; [reflexivity|]. split; [reflexivity | exact kr_last_row]. Qed.

(* hence, over R: for EVERY well-formed storage of order n+1 whose last row is (0,...,0,a), a <> 0 -- strictly diagonally dominant or not --,
   b = c e_n (c <> 0), x0 = 0: solve_qmr performs exactly one step and then gives up (or was already content).  Concrete f64 run on the
   implementation: [[2,1],[0,1]] x = (0,1): solve_qmr -> Err(0.7071), x = (0, 0.5) (solution (-0.5, 1)); solve_bicg -> Err(NaN), x = (NaN, NaN) *)
Theorem qmr_last_row_breakdown : forall (s : sparse AR) n (c : R) max (tol : R),
  wfS s -> sp_rows s = S n -> sp_cols s = S n ->
  (forall j, j < n -> @sp_entry AR s n j = 0%R) -> @sp_entry AR s n n <> 0%R -> c <> 0%R -> 2 <= max ->
  exists res x g, @run_sparse SAR QMR s (@last_unit AR n c) (repeat 0%R (S n)) max tol = Ok (res, x, g) /\
    (res = IOk 0 \/ res = IOk 1 \/ (exists e, res = IErr e /\ (g_exit g = 20 \/ g_exit g = 21))).
Proof. intros s n c max tol. exact (qmr_last_row_breakdown s n c max tol). Qed.
Check qmr_last_row_breakdown : forall (s : sparse AR) n (c : R) max (tol : R),
  wfS s -> sp_rows s = S n -> sp_cols s = S n ->
  (forall j, j < n -> @sp_entry AR s n j = 0%R) -> @sp_entry AR s n n <> 0%R -> c <> 0%R -> 2 <= max ->
  exists res x g, @run_sparse SAR QMR s (@last_unit AR n c) (repeat 0%R (S n)) max tol = Ok (res, x, g) /\
    (res = IOk 0 \/ res = IOk 1 \/ (exists e, res = IErr e /\ (g_exit g = 20 \/ g_exit g = 21))).
Print Assumptions qmr_last_row_breakdown.
Example qmr_last_row_breakdown_nonvacuous : wfS kr_s /\ sp_rows kr_s = 2 /\ sp_cols kr_s = 2 /\ (forall j, j < 1 -> @sp_entry AR kr_s 1 j = 0%R) /\ @sp_entry AR kr_s 1 1 <> 0%R.
Proof. split; [exact kr_s_wf|]. split; [reflexivity|]. split; [reflexivity | exact kr_last_row]. Qed.

(* ... and over any field BiCGSTAB never performs a second step on such an input *)
Theorem bicgstab_last_row_breakdown : forall (A : SArith) (FL : FieldLaws (SA A)) (s : sparse (SA A)) n c max tol res x g,
  wfS s -> sp_rows s = S n -> sp_cols s = S n ->
  (forall j, j < n -> sp_entry s n j = zero) -> 2 <= max ->
  run_sparse BiCGSTAB s (last_unit n c) (repeat zero (S n)) max tol = Ok (res, x, g) ->
  res = IOk 0 \/ res = IOk 1 \/ (exists e, res = IErr e /\ (g_exit g = 10 \/ g_exit g = 11)).
Proof. intros A FL s n c max tol res x g. exact (bicgstab_last_row_breakdown FL s n c max tol res x g). Qed.
Check bicgstab_last_row_breakdown : forall (A : SArith) (FL : FieldLaws (SA A)) (s : sparse (SA A)) n c max tol res x g,
  wfS s -> sp_rows s = S n -> sp_cols s = S n ->
  (forall j, j < n -> sp_entry s n j = zero) -> 2 <= max ->
  run_sparse BiCGSTAB s (last_unit n c) (repeat zero (S n)) max tol = Ok (res, x, g) ->
  res = IOk 0 \/ res = IOk 1 \/ (exists e, res = IErr e /\ (g_exit g = 10 \/ g_exit g = 11)).
Print Assumptions bicgstab_last_row_breakdown.
