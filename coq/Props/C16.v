(* Props/C16.v -- stub, to be filled in *)
