(* Props/C16.v -- property theorems only: Theorem / exact lemma / Check (pins the statement) / Print Assumptions.

   C16: the threaded dot product (Vector<f64>::dot_f64) equals the sequential one for every length and
   every worker count, and does not depend on thread scheduling.

   Proved here (all lengths, all worker counts t >= 1, all data, all completion orders):
     chunks_cover           the (start,end) pairs are in range, contiguous, start at 0, end at len, and the
                            slices concatenate to the whole vector (every index exactly once) -- including
                            len < t, len = t, t not dividing len;
     pardot_closed_form     for ANY arithmetic the result is ((0 + d_0) + d_1) + ... + d_(t-1), d_i the sequential dot
                            (from 0) of slice i: a reassociation fixed by (len, t) alone;
     pardot_exact           over any ring the chunked sum equals the sequential dot;
     schedule_independent   for ANY arithmetic (floats included) and every completion order sigma of the
                            workers the joined result is the same value: it is the same expression, so on
                            floats it is bit-identical.
   Not proved (DESIGN section 10): absence of data races / torn reads (Rust's thread::scope borrowing
   rules, trusted); that num_cpus::get() follows the affinity mask (observed by the executor in-process
   on every run).  P3 is proved as well: pardot_exact_float -- over IEEE binary64 (primitive floats related to Flocq's
   binary_float), integer-valued data with sum |v_i w_i| < 2^53 gives a result bit-identical to the sequential dot for
   every worker count.  The accuracy bound on arbitrary data ("up to reassociation") is searched, not proved. *)
From Coq Require Import List Arith Permutation QArith Qcanon ZArith.
From OV Require Import Base.Panic Base.Arith Model.Vector Model.ParDot Proofs.ParDot Proofs.ParDotFloat Inst.QcInst Inst.FloatInst.
(* the primitive-float modules are deliberately NOT imported here: Print Assumptions then shows the qualified names
   (PrimFloat.add, FloatAxioms.add_spec, ...) that the audit's allow-list recognises; float data for the examples is
   defined in Proofs/ParDotFloat.v *)
Import ListNotations.
Local Open Scope nat_scope.

Theorem chunks_cover : forall X (v : list X) t, 1 <= t ->
  (forall i, i < t -> let '(s, e) := chunk_bounds (length v) t i in s <= e <= length v) /\
  (forall i, S i < t -> snd (chunk_bounds (length v) t i) = fst (chunk_bounds (length v) t (S i))) /\
  fst (chunk_bounds (length v) t 0) = 0 /\ snd (chunk_bounds (length v) t (t - 1)) = length v /\
  concat (slices v t) = v.
Proof. intros X v t H. exact (chunks_cover_lemma v t H). Qed.
Check chunks_cover : forall X (v : list X) t, 1 <= t ->
  (forall i, i < t -> let '(s, e) := chunk_bounds (length v) t i in s <= e <= length v) /\
  (forall i, S i < t -> snd (chunk_bounds (length v) t i) = fst (chunk_bounds (length v) t (S i))) /\
  fst (chunk_bounds (length v) t 0) = 0 /\ snd (chunk_bounds (length v) t (t - 1)) = length v /\
  concat (slices v t) = v.
Print Assumptions chunks_cover.

(* non-vacuity: t does not divide len; len < t *)
Example chunks_cover_nonvacuous :
  1 <= 3 /\ slices [10; 11; 12; 13; 14; 15; 16] 3 = [[10; 11]; [12; 13]; [14; 15; 16]] /\
  1 <= 5 /\ slices [10; 11; 12] 5 = [[]; []; []; []; [10; 11; 12]].
Proof. repeat split; auto with arith. Qed.

Theorem pardot_exact : forall (A : Arith), RingLaws A -> forall t (v w : list A),
  1 <= t -> length v = length w -> pardot t v w = dot v w.
Proof. intros A RL t v w Ht Hl. exact (pardot_exact_lemma RL t v w Ht Hl). Qed.
Check pardot_exact : forall (A : Arith), RingLaws A -> forall t (v w : list A),
  1 <= t -> length v = length w -> pardot t v w = dot v w.
Print Assumptions pardot_exact.

Lemma AQ_RingLaws : RingLaws AQ.
Proof. constructor. exact Qcrt. Qed.

Example pardot_exact_nonvacuous :
  RingLaws AQ /\ 1 <= 3 /\
  length [q 1 2; q 3 1; q (-2) 3; q 5 1; q 1 1] = length [q 2 1; q 1 3; q 3 1; q 1 5; q (-7) 2] /\
  pardot (A := AQ) 3 [q 1 2; q 3 1; q (-2) 3; q 5 1; q 1 1] [q 2 1; q 1 3; q 3 1; q 1 5; q (-7) 2]
    = Ok (q (-5) 2).
Proof. split; [exact AQ_RingLaws|]. repeat split; auto with arith. Qed.

(* for ANY arithmetic, floats included: the value is this fixed reassociation of the sequential sum *)
Theorem pardot_closed_form : forall (A : Arith) t (v w : list A), 1 <= t -> length v = length w ->
  pardot t v w = Ok (fold_left (fun acc i => add acc (dot_raw (slice_of v t i) (slice_of w t i))) (seq 0 t) zero).
Proof. intros A t v w Ht Hl. exact (pardot_closed_form_lemma t v w Ht Hl). Qed.
Check pardot_closed_form : forall (A : Arith) t (v w : list A), 1 <= t -> length v = length w ->
  pardot t v w = Ok (fold_left (fun acc i => add acc (dot_raw (slice_of v t i) (slice_of w t i))) (seq 0 t) zero).
Print Assumptions pardot_closed_form.

Theorem schedule_independent : forall (A : Arith) sigma t (v w : list A),
  Permutation sigma (seq 0 t) -> run_sched sigma t v w = pardot t v w.
Proof. intros A sigma t v w HP. exact (schedule_independent_lemma sigma t v w HP). Qed.
Check schedule_independent : forall (A : Arith) sigma t (v w : list A),
  Permutation sigma (seq 0 t) -> run_sched sigma t v w = pardot t v w.
Print Assumptions schedule_independent.

(* non-vacuity, at the float instance: the last worker finishes first; the value is the chunked float sum
   (0.1*3 + 0.2*3) + ... evaluated by the IEEE machine *)
Example schedule_independent_nonvacuous :
  Permutation [2; 0; 1] (seq 0 3) /\
  run_sched (A := AF) [2; 0; 1] 3 ex_sv ex_sw = pardot (A := AF) 3 ex_sv ex_sw /\
  is_ok (pardot (A := AF) 3 ex_sv ex_sw) = true.
Proof.
  split.
  - apply perm_trans with [0; 2; 1]; [apply perm_swap|]. apply perm_skip. apply perm_swap.
  - split; vm_compute; reflexivity.
Qed.

(* ---- P3: IEEE binary64, integer-valued data with sum |v_i w_i| < 2^53: bit-identical to the sequential product ----
   [ExactW x z]: the primitive float x is finite and its real value (Flocq's B2R of Prim2B x) is the integer z.
   [audit_separator]: see Props/C15.v -- ends the axiom list of the preceding theorem for the driver's parser. *)
Lemma audit_separator : True.
Proof. exact I. Qed.

Theorem pardot_exact_float : forall t (v w : list AF) (zs ws : list Z),
  1 <= t -> Forall2 ExactW v zs -> Forall2 ExactW w ws -> length zs = length ws ->
  (zadot zs ws < 2 ^ 53)%Z -> pardot (A := AF) t v w = dot (A := AF) v w.
Proof. intros t v w zs ws Ht Hv Hw Hl Hb. exact (pardot_exact_float_lemma t v w zs ws Ht Hv Hw Hl Hb). Qed.
Check pardot_exact_float : forall t (v w : list AF) (zs ws : list Z),
  1 <= t -> Forall2 ExactW v zs -> Forall2 ExactW w ws -> length zs = length ws ->
  (zadot zs ws < 2 ^ 53)%Z -> pardot (A := AF) t v w = dot (A := AF) v w.
Print Assumptions pardot_exact_float.
Print Assumptions audit_separator.

Example pardot_exact_float_nonvacuous :
  1 <= 3 /\ Forall2 ExactW ex_fv ex_zv /\ Forall2 ExactW ex_fw ex_zw /\ length ex_zv = length ex_zw /\
  (zadot ex_zv ex_zw < 2 ^ 53)%Z /\ is_ok (pardot (A := AF) 3 ex_fv ex_fw) = true.
Proof.
  split; [auto with arith|]. split; [exact ex_fv_exact|]. split; [exact ex_fw_exact|].
  split; [reflexivity|]. split; [reflexivity|]. vm_compute. reflexivity.
Qed.
(* ---- tie of the model to the source of this run (package r2c2): gen/SrcParDot.v is regenerated from
   src/vector/vec_f64.rs (Vector<f64>::dot_f64) by driver/rust2coq.py on every check run: the size guard, num_threads (the
   parameter t), chunk_size = size / num_threads (Panic DivZero for t = 0), start / end of every worker, the checked slicing
   by the main thread, the workers as values (scope.spawn(|| BLOCK) = the computation of BLOCK) and the sum in join order.
   Proofs/SrcEqParDot.v proves it equal to pardot of Model/ParDot.v for every arithmetic, every t and all operands. *)
From OV Require Proofs.SrcEqParDot.
Theorem model_is_source_C16_ParDot : forall A : Arith, @SrcEqParDot.model_is_source_ParDot A.
Proof. intros A. exact SrcEqParDot.model_is_source_ParDot_lemma. Qed.
Check model_is_source_C16_ParDot : forall A : Arith, @SrcEqParDot.model_is_source_ParDot A.
Print Assumptions model_is_source_C16_ParDot.
