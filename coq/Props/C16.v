(* Props/C16.v -- property theorems only: Theorem / exact lemma / Check (pins the statement) / Print Assumptions.

   C16: the threaded dot product (Vector<f64>::dot_f64) equals the sequential one for every length and
   every worker count, and does not depend on thread scheduling.

   Proved here (all lengths, all worker counts t >= 1, all data, all completion orders):
     chunks_cover           the (start,end) pairs are in range, contiguous, start at 0, end at len, and the
                            slices concatenate to the whole vector (every index exactly once) -- including
                            len < t, len = t, t not dividing len;
     pardot_closed_form     for ANY arithmetic the result is ((0 + d_0) + d_1) + ... + d_(t-1), d_i the sequential dot
                            (from 0) of slice i: a reassociation fixed by (len, t) alone;
     pardot_exact           over any ring the chunked sum equals the sequential dot;
     schedule_independent   for ANY arithmetic (floats included) and every completion order sigma of the
                            workers the joined result is the same value: it is the same expression, so on
                            floats it is bit-identical.
   Not proved (DESIGN section 10): absence of data races / torn reads (Rust's thread::scope borrowing
   rules, trusted); that num_cpus::get() follows the affinity mask (observed by the executor in-process
   on every run).  P3 is proved as well: pardot_exact_float -- over IEEE binary64 (primitive floats related to Flocq's
   binary_float), integer-valued data with sum |v_i w_i| < 2^53 gives a result bit-identical to the sequential dot for
   every worker count.  The accuracy bound on arbitrary data ("up to reassociation") is searched, not proved. *)
From Coq Require Import List Arith Permutation QArith Qcanon ZArith.
From OV Require Import Base.Panic Base.Arith Model.Vector Model.ParDot Proofs.ParDot Proofs.ParDotFloat Inst.QcInst Inst.FloatInst.
(* the primitive-float modules are deliberately NOT imported here: Print Assumptions then shows the qualified names
   (PrimFloat.add, FloatAxioms.add_spec, ...) that the audit's allow-list recognises; float data for the examples is
   defined in Proofs/ParDotFloat.v *)
Import ListNotations.
Local Open Scope nat_scope.

Theorem chunks_cover : forall X (v : list X) t, 1 <= t ->
  (forall i, i < t -> let '(s, e) := chunk_bounds (length v) t i in s <= e <= length v) /\
  (forall i, S i < t -> snd (chunk_bounds (length v) t i) = fst (chunk_bounds (length v) t (S i))) /\
  fst (chunk_bounds (length v) t 0) = 0 /\ snd (chunk_bounds (length v) t (t - 1)) = length v /\
  concat (slices v t) = v.
Proof. intros X v t H. exact (chunks_cover_lemma v t H). Qed.
Check chunks_cover : forall X (v : list X) t, 1 <= t ->
  (forall i, i < t -> let '(s, e) := chunk_bounds (length v) t i in s <= e <= length v) /\
  (forall i, S i < t -> snd (chunk_bounds (length v) t i) = fst (chunk_bounds (length v) t (S i))) /\
  fst (chunk_bounds (length v) t 0) = 0 /\ snd (chunk_bounds (length v) t (t - 1)) = length v /\
  concat (slices v t) = v.
Print Assumptions chunks_cover.

(* non-vacuity: t does not divide len; len < t *)
Example chunks_cover_nonvacuous :
  1 <= 3 /\ slices [10; 11; 12; 13; 14; 15; 16] 3 = [[10; 11]; [12; 13]; [14; 15; 16]] /\
  1 <= 5 /\ slices [10; 11; 12] 5 = [[]; []; []; []; [10; 11; 12]].
Proof. repeat split; auto with arith. Qed.

Theorem pardot_exact : forall (A : Arith), RingLaws A -> forall t (v w : list A),
  1 <= t -> length v = length w -> pardot t v w = dot v w.
Proof. intros A RL t v w Ht Hl. exact (pardot_exact_lemma RL t v w Ht Hl). Qed.
Check pardot_exact : forall (A : Arith), RingLaws A -> forall t (v w : list A),
  1 <= t -> length v = length w -> pardot t v w = dot v w.
Print Assumptions pardot_exact.

Lemma AQ_RingLaws : RingLaws AQ.
Proof. constructor. exact Qcrt. Qed.

Example pardot_exact_nonvacuous :
  RingLaws AQ /\ 1 <= 3 /\
  length [q 1 2; q 3 1; q (-2) 3; q 5 1; q 1 1] = length [q 2 1; q 1 3; q 3 1; q 1 5; q (-7) 2] /\
  pardot (A := AQ) 3 [q 1 2; q 3 1; q (-2) 3; q 5 1; q 1 1] [q 2 1; q 1 3; q 3 1; q 1 5; q (-7) 2]
    = Ok (q (-5) 2).
Proof. split; [exact AQ_RingLaws|]. repeat split; auto with arith. Qed.

(* for ANY arithmetic, floats included: the value is this fixed reassociation of the sequential sum *)
Theorem pardot_closed_form : forall (A : Arith) t (v w : list A), 1 <= t -> length v = length w ->
  pardot t v w = Ok (fold_left (fun acc i => add acc (dot_raw (slice_of v t i) (slice_of w t i))) (seq 0 t) zero).
Proof. intros A t v w Ht Hl. exact (pardot_closed_form_lemma t v w Ht Hl). Qed.
Check pardot_closed_form : forall (A : Arith) t (v w : list A), 1 <= t -> length v = length w ->
  pardot t v w = Ok (fold_left (fun acc i => add acc (dot_raw (slice_of v t i) (slice_of w t i))) (seq 0 t) zero).
Print Assumptions pardot_closed_form.

Theorem schedule_independent : forall (A : Arith) sigma t (v w : list A),
  Permutation sigma (seq 0 t) -> run_sched sigma t v w = pardot t v w.
Proof. intros A sigma t v w HP. exact (schedule_independent_lemma sigma t v w HP). Qed.
Check schedule_independent : forall (A : Arith) sigma t (v w : list A),
  Permutation sigma (seq 0 t) -> run_sched sigma t v w = pardot t v w.
Print Assumptions schedule_independent.

(* non-vacuity, at the float instance: the last worker finishes first; the value is the chunked float sum
   (0.1*3 + 0.2*3) + ... evaluated by the IEEE machine *)
Example schedule_independent_nonvacuous :
  Permutation [2; 0; 1] (seq 0 3) /\
  run_sched (A := AF) [2; 0; 1] 3 ex_sv ex_sw = pardot (A := AF) 3 ex_sv ex_sw /\
  is_ok (pardot (A := AF) 3 ex_sv ex_sw) = true.
Proof.
  split.
  - apply perm_trans with [0; 2; 1]; [apply perm_swap|]. apply perm_skip. apply perm_swap.
  - split; vm_compute; reflexivity.
Qed.

(* ---- P3: IEEE binary64, integer-valued data with sum |v_i w_i| < 2^53: bit-identical to the sequential product ----
   [ExactW x z]: the primitive float x is finite and its real value (Flocq's B2R of Prim2B x) is the integer z.
   [audit_separator]: see Props/C15.v -- ends the axiom list of the preceding theorem for the driver's parser. *)
Lemma audit_separator : True.
Proof. exact I. Qed.

Theorem pardot_exact_float : forall t (v w : list AF) (zs ws : list Z),
  1 <= t -> Forall2 ExactW v zs -> Forall2 ExactW w ws -> length zs = length ws ->
  (zadot zs ws < 2 ^ 53)%Z -> pardot (A := AF) t v w = dot (A := AF) v w.
Proof. intros t v w zs ws Ht Hv Hw Hl Hb. exact (pardot_exact_float_lemma t v w zs ws Ht Hv Hw Hl Hb). Qed.
Check pardot_exact_float : forall t (v w : list AF) (zs ws : list Z),
  1 <= t -> Forall2 ExactW v zs -> Forall2 ExactW w ws -> length zs = length ws ->
  (zadot zs ws < 2 ^ 53)%Z -> pardot (A := AF) t v w = dot (A := AF) v w.
Print Assumptions pardot_exact_float.
Print Assumptions audit_separator.

Example pardot_exact_float_nonvacuous :
  1 <= 3 /\ Forall2 ExactW ex_fv ex_zv /\ Forall2 ExactW ex_fw ex_zw /\ length ex_zv = length ex_zw /\
  (zadot ex_zv ex_zw < 2 ^ 53)%Z /\ is_ok (pardot (A := AF) 3 ex_fv ex_fw) = true.
Proof.
  split; [auto with arith|]. split; [exact ex_fv_exact|]. split; [exact ex_fw_exact|].
  split; [reflexivity|]. split; [reflexivity|]. vm_compute. reflexivity.
Qed.
(* ---- tie of the model to the source of this run (package r2c2): gen/SrcParDot.v is regenerated from
   src/vector/vec_f64.rs (Vector<f64>::dot_f64) by driver/rust2coq.py on every check run: the size guard, num_threads (the
   parameter t), chunk_size = size / num_threads (Panic DivZero for t = 0), start / end of every worker, the checked slicing
   by the main thread, the workers as values (scope.spawn(|| BLOCK) = the computation of BLOCK) and the sum in join order.
   Proofs/SrcEqParDot.v proves it equal to pardot of Model/ParDot.v for every arithmetic, every t and all operands. *)
From OV Require Proofs.SrcEqParDot.
Theorem model_is_source_C16_ParDot : forall A : Arith, @SrcEqParDot.model_is_source_ParDot A.
Proof. intros A. exact SrcEqParDot.model_is_source_ParDot_lemma. Qed.
Check model_is_source_C16_ParDot : forall A : Arith, @SrcEqParDot.model_is_source_ParDot A.
Print Assumptions model_is_source_C16_ParDot.
(* ---------------------------------------------------------------------------------------------------------------
   C16, round two (package sched): the scoped-thread program as a small-step INTERLEAVING semantics
   (Model/ParSched.v): threads Main, Wk 0 .. Wk (t-1); one transition = one loop iteration / statement of one thread;
   a join blocks until the worker has published its result; a schedule is a list of thread identifiers and ANY
   thread that can move may move.  Modelling assumption (Rust's borrow checking of thread::scope, trusted): a worker
   reads only the two immutable slices it captured and writes only its own accumulator and its own join handle.
     sched_deterministic          every maximal execution -- any interleaving, ANY arithmetic (floats included) -- has
                                  exactly len + 3t + 2 steps and ends with main holding pardot t v w
     sched_terminates             no execution is longer than that, and every partial execution extends to a maximal one
     sched_no_deadlock            in every reachable state some thread can move, or main has returned pardot t v w
     sched_no_panic               no reachable state contains a panicked worker or a panicked main thread
     sched_final_state            the final STATE of every maximal execution is the same (unique normal form)
     sched_diamond                in every reachable state the steps of two different threads commute
     sched_parallel_step          pairwise different threads that can all move in a reachable state may move
                                  simultaneously: fired in any order they all succeed and reach the same state
     sched_fine_deterministic, sched_fine_refines, sched_fine_terminates, sched_fine_no_deadlock
                                  the same at the granularity of single loads, multiplications and additions (a worker
                                  iteration = four transitions): every fine step is a coarse step or a stutter, every
                                  maximal fine execution has exactly 4 len + 3t + 2 steps and returns pardot t v w
     sched_refines_run_sched      the order in which the workers finish along a maximal execution is a permutation
                                  sigma, and main returns run_sched sigma (the coarse scheduler of round one)
     sched_realises_every_order   conversely every permutation is the completion order of some maximal execution
     completion_order_refuted     the variant that adds the partial sums in completion order (a shared accumulator:
                                  seeded mutation C16-4) has two maximal executions with different binary64 results
     shared_result_in_completion_order, shared_exact, shared_two_workers_float
                                  what that variant computes, exactly: the partial sums added from 0 in ITS completion
                                  order (a permutation); over a ring that is still the sequential dot (exact arithmetic
                                  cannot see the defect); over binary64 with t <= 2 it is bit-identical to pardot on all
                                  data (the defect needs >= 3 workers and partial sums that round)
     pardot_any_workers_total     for every t >= 1 and every length: every slice is in range, the result is a value
     pardot_index_arith_in_range  every usize the spawn loop computes is <= len (no wrap-around in any profile)
     pardot_outcomes              complete outcome table: size mismatch -> Guard (whatever t); t = 0 -> DivZero
                                  (`self.size() / num_threads` panics: Rust integer division by zero panics in every
                                  profile); otherwise a value.  num_cpus::get() >= 1 is TRUSTED (num_cpus 1.16 on
                                  Linux: min(cgroup quota, popcount of sched_getaffinity) when the quota is > 0, else
                                  the popcount, else max(1, sysconf); a running thread's affinity mask is never empty)
     pardot_one_worker_float, pardot_more_workers_float, sched_few_elements_float
                                  binary64, ALL data (NaN, infinities, signed zeros, overflow): with one worker and with
                                  more workers than elements (every t > len -- worker counts no machine here offers)
                                  the threaded product, and every interleaved execution, is bit-identical to dot
     pardot_forward_error, dot_forward_error, pardot_vs_dot_reassociation, sched_forward_error
                                  ARBITRARY data, standard model of floating-point arithmetic (relative error <= u per
                                  + and *, no under/overflow): |fl(pardot) - exact| <= ((1+u)^(len+t+1) - 1) sum|v_i w_i|,
                                  the sequential dot with exponent len+1, hence the two agree "up to reassociation";
                                  so does every interleaved execution.  (Round one: searched only.)
     pardot_forward_error_tight   the same with the exponent (longest chunk) + t + 1, about len/t + t: the threaded
                                  product has the SMALLER worst-case bound (blocked summation)
     sched_exact, sched_exact_float   over a ring / on exactly summable binary64 data every maximal execution returns
                                  the sequential dot (bit for bit).
   --------------------------------------------------------------------------------------------------------------- *)
From OV Require Import Model.ParSched Proofs.ParSched Proofs.ParSchedOrder Proofs.ParSchedReal Proofs.ParSchedConfl
  Proofs.ParSchedRefuted Proofs.ParSchedFloat Proofs.ParSchedTop Proofs.ParSchedMore Proofs.ParSchedWorkers Proofs.ParSchedShared Proofs.ParSchedFine.

Theorem sched_deterministic : forall (A : Arith) (v w : list A) t s0 n s,
  par_program v w t = Ok s0 -> steps v w t n s0 s -> terminal v w t s ->
  n = length v + 3 * t + 2 /\ main s = MRet (pardot t v w).
Proof. intros A v w t s0 n s HP HS HT. exact (sched_deterministic_lemma v w t s0 n s HP HS HT). Qed.
Check sched_deterministic : forall (A : Arith) (v w : list A) t s0 n s,
  par_program v w t = Ok s0 -> steps v w t n s0 s -> terminal v w t s ->
  n = length v + 3 * t + 2 /\ main s = MRet (pardot t v w).
Print Assumptions sched_deterministic.

(* non-vacuity, at the float instance: three different interleavings of the same program (workers starting while
   main is still spawning; main joining handle 0 while workers 1 and 2 still run), completion orders 0,1,2 and 0,2,1,
   each a maximal execution of 3 + 3*3 + 2 = 14 steps; data on which the ORDER of the final additions matters *)
Example sched_deterministic_nonvacuous :
  forall sch, sch = cx_real1 \/ sch = cx_real2 \/ sch = cx_real3 ->
  exists s, par_program cx_v cx_w 3 = Ok (sched_init 3) /\
    exec cx_v cx_w 3 sch (sched_init 3) = Some s /\ steps cx_v cx_w 3 14 (sched_init 3) s /\
    terminal cx_v cx_w 3 s /\ main s = MRet (A := AF) (Ok zero).
Proof. exact cx_real_execution. Qed.

Theorem sched_terminates : forall (A : Arith) (v w : list A) t s0 n s,
  par_program v w t = Ok s0 -> steps v w t n s0 s ->
  n <= length v + 3 * t + 2 /\ exists m s', steps v w t m s s' /\ terminal v w t s'.
Proof. intros A v w t s0 n s HP HS. exact (sched_terminates_lemma v w t s0 n s HP HS). Qed.
Check sched_terminates : forall (A : Arith) (v w : list A) t s0 n s,
  par_program v w t = Ok s0 -> steps v w t n s0 s ->
  n <= length v + 3 * t + 2 /\ exists m s', steps v w t m s s' /\ terminal v w t s'.
Print Assumptions sched_terminates.

Theorem sched_no_deadlock : forall (A : Arith) (v w : list A) t s0 n s,
  par_program v w t = Ok s0 -> steps v w t n s0 s ->
  (exists s', step v w t s s') \/ main s = MRet (pardot t v w).
Proof. intros A v w t s0 n s HP HS. exact (sched_no_deadlock_lemma v w t s0 n s HP HS). Qed.
Check sched_no_deadlock : forall (A : Arith) (v w : list A) t s0 n s,
  par_program v w t = Ok s0 -> steps v w t n s0 s ->
  (exists s', step v w t s s') \/ main s = MRet (pardot t v w).
Print Assumptions sched_no_deadlock.

Theorem sched_no_panic : forall (A : Arith) (v w : list A) t s0 n s,
  par_program v w t = Ok s0 -> steps v w t n s0 s ->
  (forall k, nth_error (ws s) k <> Some WPanicked) /\ (forall r, main s = MRet r -> exists x, r = Ok x).
Proof. intros A v w t s0 n s HP HS. exact (sched_no_panic_lemma v w t s0 n s HP HS). Qed.
Check sched_no_panic : forall (A : Arith) (v w : list A) t s0 n s,
  par_program v w t = Ok s0 -> steps v w t n s0 s ->
  (forall k, nth_error (ws s) k <> Some WPanicked) /\ (forall r, main s = MRet r -> exists x, r = Ok x).
Print Assumptions sched_no_panic.

Theorem sched_final_state : forall (A : Arith) (v w : list A) t s0 n s,
  par_program v w t = Ok s0 -> steps v w t n s0 s -> terminal v w t s ->
  s = mkState (MRet (pardot t v w)) (repeat WJoined t).
Proof. intros A v w t s0 n s HP HS HT. exact (sched_final_state_lemma v w t s0 n s HP HS HT). Qed.
Check sched_final_state : forall (A : Arith) (v w : list A) t s0 n s,
  par_program v w t = Ok s0 -> steps v w t n s0 s -> terminal v w t s ->
  s = mkState (MRet (pardot t v w)) (repeat WJoined t).
Print Assumptions sched_final_state.

Theorem sched_diamond : forall (A : Arith) (v w : list A) t s0 n s th1 th2 s1 s2,
  par_program v w t = Ok s0 -> steps v w t n s0 s -> th1 <> th2 ->
  fire v w t th1 s = Some s1 -> fire v w t th2 s = Some s2 ->
  exists s', fire v w t th2 s1 = Some s' /\ fire v w t th1 s2 = Some s'.
Proof.
  intros A v w t s0 n s th1 th2 s1 s2 HP HS Hne H1 H2.
  exact (sched_diamond_lemma v w t s0 n s th1 th2 s1 s2 HP HS Hne H1 H2).
Qed.
Check sched_diamond : forall (A : Arith) (v w : list A) t s0 n s th1 th2 s1 s2,
  par_program v w t = Ok s0 -> steps v w t n s0 s -> th1 <> th2 ->
  fire v w t th1 s = Some s1 -> fire v w t th2 s = Some s2 ->
  exists s', fire v w t th2 s1 = Some s' /\ fire v w t th1 s2 = Some s'.
Print Assumptions sched_diamond.

(* non-vacuity: after the three spawns and one step of worker 0, worker 0 (about to publish), worker 1 and main are
   all able to move *)
Example sched_diamond_nonvacuous :
  exists s, steps cx_v cx_w 3 4 (sched_init 3) s /\
    is_some (fire cx_v cx_w 3 Main s) = true /\ is_some (fire cx_v cx_w 3 (Wk 0) s) = true /\
    is_some (fire cx_v cx_w 3 (Wk 1) s) = true.
Proof. exact cx_three_enabled. Qed.

Theorem sched_parallel_step : forall (A : Arith) (v w : list A) t s0 n s l l',
  par_program v w t = Ok s0 -> steps v w t n s0 s ->
  NoDup l -> (forall th, In th l -> exists s1, fire v w t th s = Some s1) -> Permutation l l' ->
  exists s', exec v w t l s = Some s' /\ exec v w t l' s = Some s'.
Proof.
  intros A v w t s0 n s l l' HP HS ND HE HPm. exact (sched_parallel_step_lemma v w t s0 n s l l' HP HS ND HE HPm).
Qed.
Check sched_parallel_step : forall (A : Arith) (v w : list A) t s0 n s l l',
  par_program v w t = Ok s0 -> steps v w t n s0 s ->
  NoDup l -> (forall th, In th l -> exists s1, fire v w t th s = Some s1) -> Permutation l l' ->
  exists s', exec v w t l s = Some s' /\ exec v w t l' s = Some s'.
Print Assumptions sched_parallel_step.

Theorem sched_fine_deterministic : forall (A : Arith) (v w : list A) t sch s, 1 <= t -> length v = length w ->
  exec_fine v w t sch (fine_init t) = Some s -> terminal_fine v w t s ->
  length sch = 4 * length v + 3 * t + 2 /\ f_main s = MRet (pardot t v w).
Proof. intros A v w t sch s Ht Hl HE HT. exact (sched_fine_deterministic_exec v w t Ht Hl sch s HE HT). Qed.
Check sched_fine_deterministic : forall (A : Arith) (v w : list A) t sch s, 1 <= t -> length v = length w ->
  exec_fine v w t sch (fine_init t) = Some s -> terminal_fine v w t s ->
  length sch = 4 * length v + 3 * t + 2 /\ f_main s = MRet (pardot t v w).
Print Assumptions sched_fine_deterministic.

(* non-vacuity, binary64: after the three spawns the three workers advance in lock step, one micro-step each in turn
   (load, load, multiply, add, publish): 4*3 + 3*3 + 2 = 23 steps *)
Example sched_fine_deterministic_nonvacuous :
  1 <= 3 /\ length cx_v = length cx_w /\ length cx_fine = 23 /\
  exists s, exec_fine cx_v cx_w 3 cx_fine (fine_init 3) = Some s /\ terminal_fine cx_v cx_w 3 s /\
            f_main s = MRet (pardot (A := AF) 3 cx_v cx_w).
Proof. exact cx_fine_execution. Qed.

Theorem sched_fine_refines : forall (A : Arith) (v w : list A) t sch s, 1 <= t -> length v = length w ->
  exec_fine v w t sch (fine_init t) = Some s ->
  exists sch', exec v w t sch' (sched_init t) = Some (abs_state s) /\ length sch' <= length sch.
Proof. intros A v w t sch s Ht Hl HE. exact (sched_fine_refines_lemma v w t sch s Ht Hl HE). Qed.
Check sched_fine_refines : forall (A : Arith) (v w : list A) t sch s, 1 <= t -> length v = length w ->
  exec_fine v w t sch (fine_init t) = Some s ->
  exists sch', exec v w t sch' (sched_init t) = Some (abs_state s) /\ length sch' <= length sch.
Print Assumptions sched_fine_refines.

Theorem sched_fine_terminates : forall (A : Arith) (v w : list A) t sch s, 1 <= t -> length v = length w ->
  exec_fine v w t sch (fine_init t) = Some s -> length sch <= 4 * length v + 3 * t + 2.
Proof. intros A v w t sch s Ht Hl HE. exact (sched_fine_bounded_exec v w t Ht Hl sch s HE). Qed.
Check sched_fine_terminates : forall (A : Arith) (v w : list A) t sch s, 1 <= t -> length v = length w ->
  exec_fine v w t sch (fine_init t) = Some s -> length sch <= 4 * length v + 3 * t + 2.
Print Assumptions sched_fine_terminates.

Theorem sched_fine_no_deadlock : forall (A : Arith) (v w : list A) t sch s, 1 <= t -> length v = length w ->
  exec_fine v w t sch (fine_init t) = Some s ->
  (exists th s', fire_fine v w t th s = Some s') \/ f_main s = MRet (pardot t v w).
Proof. intros A v w t sch s Ht Hl HE. exact (sched_fine_no_deadlock_exec v w t Ht Hl sch s HE). Qed.
Check sched_fine_no_deadlock : forall (A : Arith) (v w : list A) t sch s, 1 <= t -> length v = length w ->
  exec_fine v w t sch (fine_init t) = Some s ->
  (exists th s', fire_fine v w t th s = Some s') \/ f_main s = MRet (pardot t v w).
Print Assumptions sched_fine_no_deadlock.

Theorem sched_refines_run_sched : forall (A : Arith) (v w : list A) t s0 sch s,
  par_program v w t = Ok s0 -> exec v w t sch s0 = Some s -> terminal v w t s ->
  Permutation (completions v w t sch s0) (seq 0 t) /\
  main s = MRet (run_sched (completions v w t sch s0) t v w).
Proof. intros A v w t s0 sch s HP HE HT. exact (sched_refines_run_sched_lemma v w t s0 sch s HP HE HT). Qed.
Check sched_refines_run_sched : forall (A : Arith) (v w : list A) t s0 sch s,
  par_program v w t = Ok s0 -> exec v w t sch s0 = Some s -> terminal v w t s ->
  Permutation (completions v w t sch s0) (seq 0 t) /\
  main s = MRet (run_sched (completions v w t sch s0) t v w).
Print Assumptions sched_refines_run_sched.

Example sched_refines_run_sched_nonvacuous :
  completions cx_v cx_w 3 cx_real1 (sched_init 3) = [0; 1; 2] /\
  completions cx_v cx_w 3 cx_real3 (sched_init 3) = [0; 2; 1].
Proof. exact cx_completions. Qed.

Theorem sched_realises_every_order : forall (A : Arith) (v w : list A) t s0 sigma,
  par_program v w t = Ok s0 -> Permutation sigma (seq 0 t) ->
  exists sch s, exec v w t sch s0 = Some s /\ terminal v w t s /\ completions v w t sch s0 = sigma.
Proof. intros A v w t s0 sigma HP HS. exact (sched_realises_every_order_lemma v w t s0 sigma HP HS). Qed.
Check sched_realises_every_order : forall (A : Arith) (v w : list A) t s0 sigma,
  par_program v w t = Ok s0 -> Permutation sigma (seq 0 t) ->
  exists sch s, exec v w t sch s0 = Some s /\ terminal v w t s /\ completions v w t sch s0 = sigma.
Print Assumptions sched_realises_every_order.

(* the refuted variant: partial sums added into a shared total in COMPLETION order (seeded mutation C16-4) *)
Theorem completion_order_refuted :
  exists (v w : list AF) (t : nat) (sch1 sch2 : list tid) (s1 s2 : @sstate AF) (r1 r2 : AF),
    1 <= t /\ length v = length w /\
    exec_shared v w t sch1 (shared_init t) = Some s1 /\ terminal_shared v w t s1 /\ s_main s1 = MRet (Ok r1) /\
    exec_shared v w t sch2 (shared_init t) = Some s2 /\ terminal_shared v w t s2 /\ s_main s2 = MRet (Ok r2) /\
    r1 <> r2.
Proof. exact completion_order_refuted_lemma. Qed.
Check completion_order_refuted :
  exists (v w : list AF) (t : nat) (sch1 sch2 : list tid) (s1 s2 : @sstate AF) (r1 r2 : AF),
    1 <= t /\ length v = length w /\
    exec_shared v w t sch1 (shared_init t) = Some s1 /\ terminal_shared v w t s1 /\ s_main s1 = MRet (Ok r1) /\
    exec_shared v w t sch2 (shared_init t) = Some s2 /\ terminal_shared v w t s2 /\ s_main s2 = MRet (Ok r2) /\
    r1 <> r2.
Print Assumptions completion_order_refuted.
Print Assumptions audit_separator.

Theorem shared_result_in_completion_order : forall (A : Arith) (v w : list A) t sch s,
  1 <= t -> length v = length w ->
  exec_shared v w t sch (shared_init t) = Some s -> terminal_shared v w t s ->
  Permutation (completions_shared v w t sch (shared_init t)) (seq 0 t) /\
  s_main s = MRet (Ok (fold_left (fun acc k => add acc (dot_raw (slice_of v t k) (slice_of w t k)))
                                 (completions_shared v w t sch (shared_init t)) zero)).
Proof. intros A v w t sch s Ht Hl HE HT. exact (shared_result_exec v w t Ht Hl sch s HE HT). Qed.
Check shared_result_in_completion_order : forall (A : Arith) (v w : list A) t sch s,
  1 <= t -> length v = length w ->
  exec_shared v w t sch (shared_init t) = Some s -> terminal_shared v w t s ->
  Permutation (completions_shared v w t sch (shared_init t)) (seq 0 t) /\
  s_main s = MRet (Ok (fold_left (fun acc k => add acc (dot_raw (slice_of v t k) (slice_of w t k)))
                                 (completions_shared v w t sch (shared_init t)) zero)).
Print Assumptions shared_result_in_completion_order.

Example shared_result_in_completion_order_nonvacuous :
  1 <= 3 /\ length cx_v = length cx_w /\
  (exists s, exec_shared cx_v cx_w 3 cx_sch2 (shared_init 3) = Some s /\ terminal_shared cx_v cx_w 3 s) /\
  completions_shared cx_v cx_w 3 cx_sch2 (shared_init 3) = [0; 2; 1].
Proof. exact cx_shared_execution. Qed.

Theorem shared_exact : forall (A : Arith), RingLaws A -> forall (v w : list A) t sch s,
  1 <= t -> length v = length w ->
  exec_shared v w t sch (shared_init t) = Some s -> terminal_shared v w t s -> s_main s = MRet (dot v w).
Proof. intros A RL v w t sch s Ht Hl HE HT. exact (shared_exact_exec RL v w t sch s Ht Hl HE HT). Qed.
Check shared_exact : forall (A : Arith), RingLaws A -> forall (v w : list A) t sch s,
  1 <= t -> length v = length w ->
  exec_shared v w t sch (shared_init t) = Some s -> terminal_shared v w t s -> s_main s = MRet (dot v w).
Print Assumptions shared_exact.

Theorem shared_two_workers_float : forall (v w : list AF) t sch s, 1 <= t -> t <= 2 -> length v = length w ->
  exec_shared (A := AF) v w t sch (shared_init t) = Some s -> terminal_shared v w t s ->
  s_main s = MRet (pardot (A := AF) t v w).
Proof. intros v w t sch s Ht Ht2 Hl HE HT. exact (shared_two_workers_float_exec v w t sch s Ht Ht2 Hl HE HT). Qed.
Check shared_two_workers_float : forall (v w : list AF) t sch s, 1 <= t -> t <= 2 -> length v = length w ->
  exec_shared (A := AF) v w t sch (shared_init t) = Some s -> terminal_shared v w t s ->
  s_main s = MRet (pardot (A := AF) t v w).
Print Assumptions shared_two_workers_float.
Print Assumptions audit_separator.

Theorem pardot_any_workers_total : forall (A : Arith) t (v w : list A), 1 <= t -> length v = length w ->
  (forall i, i < t -> exists a b, job v w t i = Ok (a, b) /\ length a = length b) /\
  exists x, pardot t v w = Ok x.
Proof. intros A t v w Ht Hl. exact (pardot_any_workers_total_lemma t v w Ht Hl). Qed.
Check pardot_any_workers_total : forall (A : Arith) t (v w : list A), 1 <= t -> length v = length w ->
  (forall i, i < t -> exists a b, job v w t i = Ok (a, b) /\ length a = length b) /\
  exists x, pardot t v w = Ok x.
Print Assumptions pardot_any_workers_total.

(* non-vacuity: more workers than elements (chunk size 0: every worker but the last gets an empty slice) *)
Example pardot_any_workers_total_nonvacuous :
  1 <= 7 /\ length [q 1 2; q 3 1] = length [q 2 1; q 1 3] /\
  jobs (A := AQ) [q 1 2; q 3 1] [q 2 1; q 1 3] 7
    = Ok [([], []); ([], []); ([], []); ([], []); ([], []); ([], []); ([q 1 2; q 3 1], [q 2 1; q 1 3])] /\
  pardot (A := AQ) 7 [q 1 2; q 3 1] [q 2 1; q 1 3] = Ok (q 2 1).
Proof. repeat split; auto with arith. Qed.

Theorem pardot_index_arith_in_range : forall (len t i : nat), 1 <= t -> i < t ->
  0 <= t - 1 /\ t - 1 + 1 = t /\ i * (len / t) <= len /\ (i <> t - 1 -> (i + 1) * (len / t) <= len) /\
  fst (chunk_bounds len t i) <= snd (chunk_bounds len t i) <= len.
Proof. intros len t i Ht Hi. exact (pardot_index_arith_in_range_lemma len t i Ht Hi). Qed.
Check pardot_index_arith_in_range : forall (len t i : nat), 1 <= t -> i < t ->
  0 <= t - 1 /\ t - 1 + 1 = t /\ i * (len / t) <= len /\ (i <> t - 1 -> (i + 1) * (len / t) <= len) /\
  fst (chunk_bounds len t i) <= snd (chunk_bounds len t i) <= len.
Print Assumptions pardot_index_arith_in_range.

Theorem pardot_outcomes : forall (A : Arith) t (v w : list A),
  (length v <> length w -> pardot t v w = Panic Guard) /\
  (length v = length w -> t = 0 -> pardot t v w = Panic DivZero) /\
  (length v = length w -> 1 <= t -> exists x, pardot t v w = Ok x).
Proof. intros A t v w. exact (pardot_outcomes_lemma t v w). Qed.
Check pardot_outcomes : forall (A : Arith) t (v w : list A),
  (length v <> length w -> pardot t v w = Panic Guard) /\
  (length v = length w -> t = 0 -> pardot t v w = Panic DivZero) /\
  (length v = length w -> 1 <= t -> exists x, pardot t v w = Ok x).
Print Assumptions pardot_outcomes.

Theorem sched_exact : forall (A : Arith), RingLaws A -> forall (v w : list A) t s0 n s,
  par_program v w t = Ok s0 -> steps v w t n s0 s -> terminal v w t s -> main s = MRet (dot v w).
Proof. intros A RL v w t s0 n s HP HS HT. exact (sched_exact_lemma A RL v w t s0 n s HP HS HT). Qed.
Check sched_exact : forall (A : Arith), RingLaws A -> forall (v w : list A) t s0 n s,
  par_program v w t = Ok s0 -> steps v w t n s0 s -> terminal v w t s -> main s = MRet (dot v w).
Print Assumptions sched_exact.

Theorem sched_exact_float : forall (v w : list AF) (zv zw : list Z) t s0 n s,
  Forall2 ExactW v zv -> Forall2 ExactW w zw -> length zv = length zw -> (zadot zv zw < 2 ^ 53)%Z ->
  par_program (A := AF) v w t = Ok s0 -> steps v w t n s0 s -> terminal v w t s ->
  main s = MRet (dot (A := AF) v w).
Proof.
  intros v w zv zw t s0 n s Hv Hw Hl Hb HP HS HT.
  exact (sched_exact_float_lemma v w zv zw t s0 n s Hv Hw Hl Hb HP HS HT).
Qed.
Check sched_exact_float : forall (v w : list AF) (zv zw : list Z) t s0 n s,
  Forall2 ExactW v zv -> Forall2 ExactW w zw -> length zv = length zw -> (zadot zv zw < 2 ^ 53)%Z ->
  par_program (A := AF) v w t = Ok s0 -> steps v w t n s0 s -> terminal v w t s ->
  main s = MRet (dot (A := AF) v w).
Print Assumptions sched_exact_float.
Print Assumptions audit_separator.

(* non-vacuity: integer-valued binary64 data (Proofs/ParDotFloat.v), 5 elements, 3 workers *)
Example sched_exact_float_nonvacuous :
  Forall2 ExactW ex_fv ex_zv /\ Forall2 ExactW ex_fw ex_zw /\ length ex_zv = length ex_zw /\
  (zadot ex_zv ex_zw < 2 ^ 53)%Z /\ par_program (A := AF) ex_fv ex_fw 3 = Ok (sched_init 3) /\
  exists s, steps (A := AF) ex_fv ex_fw 3 16 (sched_init 3) s /\ terminal (A := AF) ex_fv ex_fw 3 s.
Proof. exact ex_float_execution. Qed.

Theorem pardot_one_worker_float : forall (v w : list AF), length v = length w ->
  pardot (A := AF) 1 v w = dot (A := AF) v w.
Proof. intros v w Hl. exact (pardot_one_worker_float_lemma v w Hl). Qed.
Check pardot_one_worker_float : forall (v w : list AF), length v = length w ->
  pardot (A := AF) 1 v w = dot (A := AF) v w.
Print Assumptions pardot_one_worker_float.
Print Assumptions audit_separator.

Theorem pardot_more_workers_float : forall t (v w : list AF), length v < t -> length v = length w ->
  pardot (A := AF) t v w = dot (A := AF) v w.
Proof. intros t v w Hlt Hl. exact (pardot_more_workers_float_lemma t v w Hlt Hl). Qed.
Check pardot_more_workers_float : forall t (v w : list AF), length v < t -> length v = length w ->
  pardot (A := AF) t v w = dot (A := AF) v w.
Print Assumptions pardot_more_workers_float.
Print Assumptions audit_separator.

(* non-vacuity: 6 elements among which an infinity, a NaN, a negative zero, a subnormal and two products that overflow;
   17 workers (one more than the machine of the tie has CPUs) *)
Example pardot_more_workers_float_nonvacuous :
  length ex_wild_v < 17 /\ length ex_wild_v = length ex_wild_w /\ is_ok (pardot (A := AF) 17 ex_wild_v ex_wild_w) = true.
Proof. exact ex_wild_ok. Qed.

Theorem sched_few_elements_float : forall (v w : list AF) t s0 n s, t = 1 \/ length v < t ->
  par_program (A := AF) v w t = Ok s0 -> steps v w t n s0 s -> terminal v w t s ->
  main s = MRet (dot (A := AF) v w).
Proof. intros v w t s0 n s Hc HP HS HT. exact (sched_few_elements_float_lemma v w t s0 n s Hc HP HS HT). Qed.
Check sched_few_elements_float : forall (v w : list AF) t s0 n s, t = 1 \/ length v < t ->
  par_program (A := AF) v w t = Ok s0 -> steps v w t n s0 s -> terminal v w t s ->
  main s = MRet (dot (A := AF) v w).
Print Assumptions sched_few_elements_float.
Print Assumptions audit_separator.

(* ---- arbitrary data: equal "up to reassociation", standard model of floating-point arithmetic ---- *)
From Coq Require Import Reals.
From OV Require Import Proofs.VectorR Proofs.TridiagRound Proofs.ParSchedAccuracy.

Theorem pardot_forward_error : forall (u : R), (0 <= u <= 1)%R -> forall fadd fsub fmul fdiv : R -> R -> R,
  (forall x y : R, exists d : R, (Rabs d <= u)%R /\ fadd x y = ((x + y) * (1 + d))%R) ->
  (forall x y : R, exists d : R, (Rabs d <= u)%R /\ fmul x y = (x * y * (1 + d))%R) ->
  forall (t : nat) (v w : list R), 1 <= t -> length v = length w ->
  exists r : R, pardot (A := ARnd fadd fsub fmul fdiv) t v w = Ok r /\
    (Rabs (r - dot_raw (A := AR) v w)
     <= ((1 + u) ^ (length v + t + 1) - 1) * dot_raw (A := AR) (map Rabs v) (map Rabs w))%R.
Proof. intros u Hu fadd fsub fmul fdiv Hadd Hmul t v w Ht Hl. exact (pardot_forward_error_ex u Hu fadd fsub fmul fdiv Hadd Hmul t v w Ht Hl). Qed.
Check pardot_forward_error : forall (u : R), (0 <= u <= 1)%R -> forall fadd fsub fmul fdiv : R -> R -> R,
  (forall x y : R, exists d : R, (Rabs d <= u)%R /\ fadd x y = ((x + y) * (1 + d))%R) ->
  (forall x y : R, exists d : R, (Rabs d <= u)%R /\ fmul x y = (x * y * (1 + d))%R) ->
  forall (t : nat) (v w : list R), 1 <= t -> length v = length w ->
  exists r : R, pardot (A := ARnd fadd fsub fmul fdiv) t v w = Ok r /\
    (Rabs (r - dot_raw (A := AR) v w)
     <= ((1 + u) ^ (length v + t + 1) - 1) * dot_raw (A := AR) (map Rabs v) (map Rabs w))%R.
Print Assumptions pardot_forward_error.
Print Assumptions audit_separator.

(* non-vacuity: an inexact arithmetic in the model (every sum and product 25% too large, u = 1/2) *)
Example pardot_forward_error_nonvacuous :
  (0 <= / 2 <= 1)%R /\
  (forall x y : R, exists d : R, (Rabs d <= / 2)%R /\ ((x + y) * (1 + / 4))%R = ((x + y) * (1 + d))%R) /\
  (forall x y : R, exists d : R, (Rabs d <= / 2)%R /\ (x * y * (1 + / 4))%R = (x * y * (1 + d))%R).
Proof. exact std_model_example. Qed.

Theorem pardot_forward_error_tight : forall (u : R), (0 <= u <= 1)%R -> forall fadd fsub fmul fdiv : R -> R -> R,
  (forall x y : R, exists d : R, (Rabs d <= u)%R /\ fadd x y = ((x + y) * (1 + d))%R) ->
  (forall x y : R, exists d : R, (Rabs d <= u)%R /\ fmul x y = (x * y * (1 + d))%R) ->
  forall (t : nat) (v w : list R), 1 <= t -> length v = length w ->
  exists r : R, pardot (A := ARnd fadd fsub fmul fdiv) t v w = Ok r /\
    (Rabs (r - dot_raw (A := AR) v w)
     <= ((1 + u) ^ ((length v - (t - 1) * (length v / t)) + t + 1) - 1) * dot_raw (A := AR) (map Rabs v) (map Rabs w))%R.
Proof. intros u Hu fadd fsub fmul fdiv Hadd Hmul t v w Ht Hl. exact (pardot_forward_error_tight_ex u Hu fadd fsub fmul fdiv Hadd Hmul t v w Ht Hl). Qed.
Check pardot_forward_error_tight : forall (u : R), (0 <= u <= 1)%R -> forall fadd fsub fmul fdiv : R -> R -> R,
  (forall x y : R, exists d : R, (Rabs d <= u)%R /\ fadd x y = ((x + y) * (1 + d))%R) ->
  (forall x y : R, exists d : R, (Rabs d <= u)%R /\ fmul x y = (x * y * (1 + d))%R) ->
  forall (t : nat) (v w : list R), 1 <= t -> length v = length w ->
  exists r : R, pardot (A := ARnd fadd fsub fmul fdiv) t v w = Ok r /\
    (Rabs (r - dot_raw (A := AR) v w)
     <= ((1 + u) ^ ((length v - (t - 1) * (length v / t)) + t + 1) - 1) * dot_raw (A := AR) (map Rabs v) (map Rabs w))%R.
Print Assumptions pardot_forward_error_tight.
Print Assumptions audit_separator.

Theorem dot_forward_error : forall (u : R), (0 <= u <= 1)%R -> forall fadd fsub fmul fdiv : R -> R -> R,
  (forall x y : R, exists d : R, (Rabs d <= u)%R /\ fadd x y = ((x + y) * (1 + d))%R) ->
  (forall x y : R, exists d : R, (Rabs d <= u)%R /\ fmul x y = (x * y * (1 + d))%R) ->
  forall (v w : list R), length v = length w ->
  exists r : R, dot (A := ARnd fadd fsub fmul fdiv) v w = Ok r /\
    (Rabs (r - dot_raw (A := AR) v w)
     <= ((1 + u) ^ (length v + 1) - 1) * dot_raw (A := AR) (map Rabs v) (map Rabs w))%R.
Proof. intros u Hu fadd fsub fmul fdiv Hadd Hmul v w Hl. exact (dot_forward_error_ex u Hu fadd fsub fmul fdiv Hadd Hmul v w Hl). Qed.
Check dot_forward_error : forall (u : R), (0 <= u <= 1)%R -> forall fadd fsub fmul fdiv : R -> R -> R,
  (forall x y : R, exists d : R, (Rabs d <= u)%R /\ fadd x y = ((x + y) * (1 + d))%R) ->
  (forall x y : R, exists d : R, (Rabs d <= u)%R /\ fmul x y = (x * y * (1 + d))%R) ->
  forall (v w : list R), length v = length w ->
  exists r : R, dot (A := ARnd fadd fsub fmul fdiv) v w = Ok r /\
    (Rabs (r - dot_raw (A := AR) v w)
     <= ((1 + u) ^ (length v + 1) - 1) * dot_raw (A := AR) (map Rabs v) (map Rabs w))%R.
Print Assumptions dot_forward_error.
Print Assumptions audit_separator.

Theorem pardot_vs_dot_reassociation : forall (u : R), (0 <= u <= 1)%R -> forall fadd fsub fmul fdiv : R -> R -> R,
  (forall x y : R, exists d : R, (Rabs d <= u)%R /\ fadd x y = ((x + y) * (1 + d))%R) ->
  (forall x y : R, exists d : R, (Rabs d <= u)%R /\ fmul x y = (x * y * (1 + d))%R) ->
  forall (t : nat) (v w : list R), 1 <= t -> length v = length w ->
  exists rp rs : R, pardot (A := ARnd fadd fsub fmul fdiv) t v w = Ok rp /\ dot (A := ARnd fadd fsub fmul fdiv) v w = Ok rs /\
    (Rabs (rp - rs)
     <= (((1 + u) ^ (length v + t + 1) - 1) + ((1 + u) ^ (length v + 1) - 1)) * dot_raw (A := AR) (map Rabs v) (map Rabs w))%R.
Proof. intros u Hu fadd fsub fmul fdiv Hadd Hmul t v w Ht Hl. exact (pardot_vs_dot_ex u Hu fadd fsub fmul fdiv Hadd Hmul t v w Ht Hl). Qed.
Check pardot_vs_dot_reassociation : forall (u : R), (0 <= u <= 1)%R -> forall fadd fsub fmul fdiv : R -> R -> R,
  (forall x y : R, exists d : R, (Rabs d <= u)%R /\ fadd x y = ((x + y) * (1 + d))%R) ->
  (forall x y : R, exists d : R, (Rabs d <= u)%R /\ fmul x y = (x * y * (1 + d))%R) ->
  forall (t : nat) (v w : list R), 1 <= t -> length v = length w ->
  exists rp rs : R, pardot (A := ARnd fadd fsub fmul fdiv) t v w = Ok rp /\ dot (A := ARnd fadd fsub fmul fdiv) v w = Ok rs /\
    (Rabs (rp - rs)
     <= (((1 + u) ^ (length v + t + 1) - 1) + ((1 + u) ^ (length v + 1) - 1)) * dot_raw (A := AR) (map Rabs v) (map Rabs w))%R.
Print Assumptions pardot_vs_dot_reassociation.
Print Assumptions audit_separator.

Theorem sched_forward_error : forall (u : R), (0 <= u <= 1)%R -> forall fadd fsub fmul fdiv : R -> R -> R,
  (forall x y : R, exists d : R, (Rabs d <= u)%R /\ fadd x y = ((x + y) * (1 + d))%R) ->
  (forall x y : R, exists d : R, (Rabs d <= u)%R /\ fmul x y = (x * y * (1 + d))%R) ->
  forall (v w : list R) t s0 n s,
  par_program (A := ARnd fadd fsub fmul fdiv) v w t = Ok s0 ->
  steps (A := ARnd fadd fsub fmul fdiv) v w t n s0 s -> terminal (A := ARnd fadd fsub fmul fdiv) v w t s ->
  exists r : R, main s = MRet (A := ARnd fadd fsub fmul fdiv) (Ok r) /\
    (Rabs (r - dot_raw (A := AR) v w)
     <= ((1 + u) ^ (length v + t + 1) - 1) * dot_raw (A := AR) (map Rabs v) (map Rabs w))%R.
Proof.
  intros u Hu fadd fsub fmul fdiv Hadd Hmul v w t s0 n s HP HS HT.
  exact (sched_forward_error_ex u Hu fadd fsub fmul fdiv Hadd Hmul v w t s0 n s HP HS HT).
Qed.
Check sched_forward_error : forall (u : R), (0 <= u <= 1)%R -> forall fadd fsub fmul fdiv : R -> R -> R,
  (forall x y : R, exists d : R, (Rabs d <= u)%R /\ fadd x y = ((x + y) * (1 + d))%R) ->
  (forall x y : R, exists d : R, (Rabs d <= u)%R /\ fmul x y = (x * y * (1 + d))%R) ->
  forall (v w : list R) t s0 n s,
  par_program (A := ARnd fadd fsub fmul fdiv) v w t = Ok s0 ->
  steps (A := ARnd fadd fsub fmul fdiv) v w t n s0 s -> terminal (A := ARnd fadd fsub fmul fdiv) v w t s ->
  exists r : R, main s = MRet (A := ARnd fadd fsub fmul fdiv) (Ok r) /\
    (Rabs (r - dot_raw (A := AR) v w)
     <= ((1 + u) ^ (length v + t + 1) - 1) * dot_raw (A := AR) (map Rabs v) (map Rabs w))%R.
Print Assumptions sched_forward_error.
Print Assumptions audit_separator.
