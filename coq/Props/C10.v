(* Props/C10.v -- property theorems only: Theorem / exact lemma / Check (pins the statement) / Print Assumptions.

   What is proved here is about the executable model coq/Model/Roots.v -- the SAME definition whose
   float instance (IEEE binary64 + the recorded libm calls) follows src/polynomial/mod.rs bit for bit on
   every case of every check run.  NOT proved (and false of the code on the recorded classes
   KF-C10-A/B/C/E): accuracy of the floating-point values returned, convergence of Laguerre's iteration. *)
From Coq Require Import List Arith.
From OV Require Import Base.Panic Base.Arith gen.Params Model.Roots Proofs.Roots.
Import ListNotations.

(* ---- any arithmetic (floats with any oracle table included) ---- *)

(* poly_solve returns exactly n = |coeffs| - 1 values whenever it returns *)
Theorem roots_length : forall (RA : RootArith) coeffs refine rs tr,
  poly_solve RA coeffs refine = Ok (rs, tr) -> length rs = length coeffs - 1.
Proof. intros RA coeffs refine rs tr. exact (roots_length_lemma RA coeffs refine rs tr). Qed.
Check roots_length : forall (RA : RootArith) coeffs refine rs tr,
  poly_solve RA coeffs refine = Ok (rs, tr) -> length rs = length coeffs - 1.
Print Assumptions roots_length.

(* a degree-0 polynomial is rejected: the guard panic of mod.rs:256 *)
Theorem degree0_rejected : forall (RA : RootArith) (c : KK RA) refine, poly_solve RA [c] refine = Panic Guard.
Proof. intros RA c refine. exact (degree0_rejected_lemma RA c refine). Qed.
Check degree0_rejected : forall (RA : RootArith) (c : KK RA) refine, poly_solve RA [c] refine = Panic Guard.
Print Assumptions degree0_rejected.

(* laguer makes at most MAXIT - 1 passes, MAXIT = MT * MR regenerated from the source *)
Theorem laguer_bounded : forall (RA : RootArith) a x l,
  laguer RA a x = Ok l -> liters l <= LAGUER_MT * LAGUER_MR - 1.
Proof. intros RA a x l. exact (laguer_bounded_lemma RA a x l). Qed.
Check laguer_bounded : forall (RA : RootArith) a x l,
  laguer RA a x = Ok l -> liters l <= LAGUER_MT * LAGUER_MR - 1.
Print Assumptions laguer_bounded.
