(* Props/C10.v -- stub, to be filled in *)
