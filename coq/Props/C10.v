(* Props/C10.v -- property theorems only: Theorem / exact lemma / Check (pins the statement) / Print Assumptions.

   What is proved here is about the executable model coq/Model/Roots.v -- ONE definition over a two-sorted
   arithmetic [RootArith], whose float instance [FloatRA tbl] (IEEE binary64 + the recorded libm calls)
   follows src/polynomial/mod.rs bit for bit on every case of every check run, and whose abstract-field
   instance [FieldRA A FL O] carries the closed-form theorems below (O : FieldOps A collects everything
   left ARBITRARY: the complex square root and power primitives, Cmplx::new, conj, real/imaginary parts,
   absolute values -- hence every sign choice the code makes --, f64::sqrt, f64::max, EPS, frac[]).

   NOT proved, and false of the code on the recorded classes KF-C10-A/B/C/E: that the floating-point
   values returned are accurate roots; that Laguerre's iteration converges.  Those halves are covered by
   the bit-for-bit tie and the failing-input search of driver/c10.py. *)
From Coq Require Import List Arith.
From OV Require Import Base.Panic Base.Arith gen.Params Model.Roots
                       Proofs.Roots Proofs.RootsMore Proofs.RootsSafe Proofs.RootsRing Proofs.RootsField Proofs.RootsExamples.
Import ListNotations.

(* ================= any arithmetic (floats with any oracle table included) ================= *)

(* poly_solve returns exactly n = |coeffs| - 1 values whenever it returns *)
Theorem roots_length : forall (RA : RootArith) coeffs refine rs tr,
  poly_solve RA coeffs refine = Ok (rs, tr) -> length rs = length coeffs - 1.
Proof. intros RA coeffs refine rs tr. exact (roots_length_lemma RA coeffs refine rs tr). Qed.
Check roots_length : forall (RA : RootArith) coeffs refine rs tr,
  poly_solve RA coeffs refine = Ok (rs, tr) -> length rs = length coeffs - 1.
Print Assumptions roots_length.
(* (x-1)(x-2)(x-3)(x-4) over f64 with the recorded libm calls, refine = true: 4 values, 8 laguer calls *)
Example roots_length_nonvacuous :
  exists rs tr, roots_f64 tbl_1234 p1234 true = Ok (rs, tr) /\ length rs = 4 /\ length tr = 8.
Proof. exact ex_roots_float. Qed.

(* a degree-0 polynomial is rejected: the guard panic of mod.rs:256 *)
Theorem degree0_rejected : forall (RA : RootArith) (c : KK RA) refine, poly_solve RA [c] refine = Panic Guard.
Proof. intros RA c refine. exact (degree0_rejected_lemma RA c refine). Qed.
Check degree0_rejected : forall (RA : RootArith) (c : KK RA) refine, poly_solve RA [c] refine = Panic Guard.
Print Assumptions degree0_rejected.

(* laguer makes at most MAXIT - 1 passes, MAXIT = MT * MR regenerated from the source (gen/Params.v) *)
Theorem laguer_bounded : forall (RA : RootArith) a x l,
  laguer RA a x = Ok l -> liters l <= LAGUER_MT * LAGUER_MR - 1.
Proof. intros RA a x l. exact (laguer_bounded_lemma RA a x l). Qed.
Check laguer_bounded : forall (RA : RootArith) a x l,
  laguer RA a x = Ok l -> liters l <= LAGUER_MT * LAGUER_MR - 1.
Print Assumptions laguer_bounded.
Example laguer_bounded_nonvacuous :
  exists l, laguer (FloatRA tbl_1234) c1234 cz0 = Ok l
            /\ lwhy l = Converged /\ liters l = 4.
Proof. exact ex_laguer_float. Qed.

(* an Exhausted exit (the cause of KF-C10-A) has used every one of the MAXIT - 1 passes *)
Theorem laguer_exhausted_full : forall (RA : RootArith) a x l,
  laguer RA a x = Ok l -> lwhy l = Exhausted -> liters l = LAGUER_MT * LAGUER_MR - 1.
Proof. intros RA a x l. exact (laguer_exhausted_lemma RA a x l). Qed.
Check laguer_exhausted_full : forall (RA : RootArith) a x l,
  laguer RA a x = Ok l -> lwhy l = Exhausted -> liters l = LAGUER_MT * LAGUER_MR - 1.
Print Assumptions laguer_exhausted_full.


(* exit Converged => the code's own test |p(x)| <= EPS * err (conv_test: the inner loop at the RETURNED x gives
   (b, err, _, _) with b.abs() <= err * EPS) held at the returned iterate *)
Theorem laguer_converged_small : forall (RA : RootArith) a x l,
  laguer RA a x = Ok l -> lwhy l = Converged -> conv_test RA a (length a - 1) (lx l).
Proof. intros RA a x l. exact (laguer_converged_lemma RA a x l). Qed.
Check laguer_converged_small : forall (RA : RootArith) a x l,
  laguer RA a x = Ok l -> lwhy l = Converged -> conv_test RA a (length a - 1) (lx l).
Print Assumptions laguer_converged_small.
(* non-vacuity: laguer_bounded_nonvacuous above is a call that exits Converged *)

(* the number of laguer calls: one per root while deflating (degree >= 4), one more per root when polishing *)
Theorem trace_length : forall (RA : RootArith) coeffs refine rs tr,
  poly_solve RA coeffs refine = Ok (rs, tr) ->
  length tr = (if 3 <? length coeffs - 1 then length coeffs - 1 else 0) + (if refine then length coeffs - 1 else 0).
Proof. intros RA coeffs refine rs tr. exact (trace_length_lemma RA coeffs refine rs tr). Qed.
Check trace_length : forall (RA : RootArith) coeffs refine rs tr,
  poly_solve RA coeffs refine = Ok (rs, tr) ->
  length tr = (if 3 <? length coeffs - 1 then length coeffs - 1 else 0) + (if refine then length coeffs - 1 else 0).
Print Assumptions trace_length.
(* non-vacuity: roots_length_nonvacuous (degree 4, refine: 4 + 4 = 8 calls) *)

(* refine = true: EVERY value of the unpolished run is passed through laguer on the undeflated polynomial, in order,
   and replaced by the result *)
Theorem refine_polishes_all : forall (RA : RootArith) coeffs rs tr,
  poly_solve RA coeffs true = Ok (rs, tr) ->
  exists rs0 tr0 (ls : list (lres (KK RA))),
    poly_solve RA coeffs false = Ok (rs0, tr0) /\ length ls = length coeffs - 1 /\ tr = tr0 ++ ls /\
    forall j, j < length coeffs - 1 ->
      exists l, nth_error ls j = Some l /\ laguer RA coeffs (nth j rs0 zero) = Ok l /\ nth j rs zero = lx l.
Proof. intros RA coeffs rs tr. exact (refine_polishes_all_lemma RA coeffs rs tr). Qed.
Check refine_polishes_all : forall (RA : RootArith) coeffs rs tr,
  poly_solve RA coeffs true = Ok (rs, tr) ->
  exists rs0 tr0 (ls : list (lres (KK RA))),
    poly_solve RA coeffs false = Ok (rs0, tr0) /\ length ls = length coeffs - 1 /\ tr = tr0 ++ ls /\
    forall j, j < length coeffs - 1 ->
      exists l, nth_error ls j = Some l /\ laguer RA coeffs (nth j rs0 zero) = Ok l /\ nth j rs zero = lx l.
Print Assumptions refine_polishes_all.

(* a polished root whose polishing call (entry |tr| - n + j of the trace) exits Converged passes the code's own
   smallness test ON THE UNDEFLATED POLYNOMIAL *)
Theorem polished_converged : forall (RA : RootArith) coeffs rs tr j l,
  poly_solve RA coeffs true = Ok (rs, tr) -> j < length coeffs - 1 ->
  nth_error tr (length tr - (length coeffs - 1) + j) = Some l -> lwhy l = Converged ->
  conv_test RA coeffs (length coeffs - 1) (nth j rs zero).
Proof. intros RA coeffs rs tr j l H. exact (polished_converged_lemma RA coeffs rs tr j l H). Qed.
Check polished_converged : forall (RA : RootArith) coeffs rs tr j l,
  poly_solve RA coeffs true = Ok (rs, tr) -> j < length coeffs - 1 ->
  nth_error tr (length tr - (length coeffs - 1) + j) = Some l -> lwhy l = Converged ->
  conv_test RA coeffs (length coeffs - 1) (nth j rs zero).
Print Assumptions polished_converged.
Example polished_converged_nonvacuous :
  exists rs tr l, roots_f64 tbl_1234 p1234 true = Ok (rs, tr) /\
                  nth_error tr (length tr - (length p1234 - 1) + 0) = Some l /\ lwhy l = Converged.
Proof. exact ex_polish_float. Qed.

(* real-axis snapping: the value is kept, or its imaginary part is replaced by zero *)
Theorem snap_cases : forall (RA : RootArith) (x : KK RA), snap RA x = x \/ snap RA x = mkk RA (kre RA x) zero.
Proof. intros RA x. exact (snap_cases_lemma RA x). Qed.
Check snap_cases : forall (RA : RootArith) (x : KK RA), snap RA x = x \/ snap RA x = mkk RA (kre RA x) zero.
Print Assumptions snap_cases.


(* ================= any commutative ring on KK (nothing assumed of RR, of the oracles, of the tests) ================= *)

(* ev, dv, hv are p(x), p'(x), p''(x)/2: the Taylor expansion at x *)
Theorem taylor_expansion : forall (RA : RootArith), RingLaws (KK RA) -> forall (l : list (KK RA)) (x t : KK RA),
  ev RA l (x + t)%A = (ev RA l x + t * dv RA l x + t * t * hv RA l x + t * t * t * tv RA l x t)%A.
Proof. intros RA RL l x t. exact (taylor_lemma RA RL l x t). Qed.
Check taylor_expansion : forall (RA : RootArith), RingLaws (KK RA) -> forall (l : list (KK RA)) (x t : KK RA),
  ev RA l (x + t)%A = (ev RA l x + t * dv RA l x + t * t * hv RA l x + t * t * t * tv RA l x t)%A.
Print Assumptions taylor_expansion.

(* laguer's inner loop returns (p(x), p'(x), p''(x)/2) and the running error bound
   errv(a_m) = |a_m|,  errv(c + X Q) = |(c + X Q)(x)| + |x| errv(Q) *)
Theorem horner_triple : forall (RA : RootArith), RingLaws (KK RA) -> forall a m x b err d f,
  m + 1 = length a -> horner3 RA a m x = Ok (b, err, d, f) ->
  b = ev RA a x /\ d = dv RA a x /\ f = hv RA a x /\ err = errv RA a x.
Proof. intros RA RL a m x b err d f. exact (horner_triple_lemma RA RL a m x b err d f). Qed.
Check horner_triple : forall (RA : RootArith), RingLaws (KK RA) -> forall a m x b err d f,
  m + 1 = length a -> horner3 RA a m x = Ok (b, err, d, f) ->
  b = ev RA a x /\ d = dv RA a x /\ f = hv RA a x /\ err = errv RA a x.
Print Assumptions horner_triple.
Example horner_triple_nonvacuous :
  RingLaws (KK (RA7 f0)) /\ exists b e d f, horner3 (RA7 f0) [f1; f2; f3; f1] 3 f2 = Ok (b, e, d, f).
Proof. split; [exact A7_RingLaws | exact ex_horner7]. Qed.


(* the meaning of a Converged exit: |p(x)| <= EPS * errv(p, x) at the returned iterate (the code's own test, with the
   values the inner loop computes identified as p(x) and the running error bound) *)
Theorem converged_means_small : forall (RA : RootArith), RingLaws (KK RA) -> forall a x l,
  laguer RA a x = Ok l -> lwhy l = Converged ->
  leb (kabs RA (ev RA a (lx l))) (mul (errv RA a (lx l)) (reps RA)) = true.
Proof. intros RA RL a x l. exact (laguer_converged_meaning RA RL a x l). Qed.
Check converged_means_small : forall (RA : RootArith), RingLaws (KK RA) -> forall a x l,
  laguer RA a x = Ok l -> lwhy l = Converged ->
  leb (kabs RA (ev RA a (lx l))) (mul (errv RA a (lx l)) (reps RA)) = true.
Print Assumptions converged_means_small.

(* ... and for a polished value: the test is on the UNDEFLATED polynomial *)
Theorem polished_converged_small : forall (RA : RootArith), RingLaws (KK RA) -> forall coeffs rs tr j l,
  poly_solve RA coeffs true = Ok (rs, tr) -> j < length coeffs - 1 ->
  nth_error tr (length tr - (length coeffs - 1) + j) = Some l -> lwhy l = Converged ->
  leb (kabs RA (ev RA coeffs (nth j rs zero))) (mul (errv RA coeffs (nth j rs zero)) (reps RA)) = true.
Proof. intros RA RL coeffs rs tr j l. exact (polished_converged_meaning RA RL coeffs rs tr j l). Qed.
Check polished_converged_small : forall (RA : RootArith), RingLaws (KK RA) -> forall coeffs rs tr j l,
  poly_solve RA coeffs true = Ok (rs, tr) -> j < length coeffs - 1 ->
  nth_error tr (length tr - (length coeffs - 1) + j) = Some l -> lwhy l = Converged ->
  leb (kabs RA (ev RA coeffs (nth j rs zero))) (mul (errv RA coeffs (nth j rs zero)) (reps RA)) = true.
Print Assumptions polished_converged_small.
(* non-vacuity over GF(7) (EPS = 0, so Converged means p(x) = 0 exactly): x^4, refine = true *)
Example polished_converged_small_nonvacuous :
  RingLaws (KK RA7r) /\
  exists rs tr l, poly_solve RA7r [f0; f0; f0; f0; f1] true = Ok (rs, tr) /\
                  nth_error tr (length tr - 4 + 0) = Some l /\ lwhy l = Converged.
Proof. split; [exact A7_RingLaws | exact ex_polish7]. Qed.

(* forward deflation: p(t) = (t - x) q(t) + p(x), everything above index j untouched *)
Theorem deflate_spec : forall (RA : RootArith), RingLaws (KK RA) -> forall ad j x ad' r,
  deflate RA ad j x = Ok (ad', r) ->
  length ad' = length ad /\ skipn (j + 1) ad' = skipn (j + 1) ad /\
  (forall t, ev RA (firstn (j + 2) ad) t = ((t - x) * ev RA (firstn (j + 1) ad') t + r)%A) /\
  r = ev RA (firstn (j + 2) ad) x.
Proof. intros RA RL ad j x ad' r. exact (deflate_spec_lemma RA RL ad j x ad' r). Qed.
Check deflate_spec : forall (RA : RootArith), RingLaws (KK RA) -> forall ad j x ad' r,
  deflate RA ad j x = Ok (ad', r) ->
  length ad' = length ad /\ skipn (j + 1) ad' = skipn (j + 1) ad /\
  (forall t, ev RA (firstn (j + 2) ad) t = ((t - x) * ev RA (firstn (j + 1) ad') t + r)%A) /\
  r = ev RA (firstn (j + 2) ad) x.
Print Assumptions deflate_spec.
Example deflate_spec_nonvacuous :
  RingLaws (KK (RA7 f0)) /\ exists ad' r, deflate (RA7 f0) [f1; f2; f3; f1] 2 f2 = Ok (ad', r).
Proof. split; [exact A7_RingLaws | exact ex_deflate7]. Qed.


(* the whole deflation phase (degree >= 4, no refinement): p is recomposed EXACTLY from the values found (in the order
   found, index n-1 first; each is the snapped result of one laguer call) and one residual per value,
     p(t) = (t - x_{n-1}) ((t - x_{n-2}) ( ... ((t - x_0) a_n + r_0) ... ) + r_{n-2}) + r_{n-1},
   so if every value is an exact root of its own deflated polynomial (all residuals 0) then p(t) = a_n prod (t - x_j).
   In floating point the residuals are not 0 and nothing bounds them: that is the recorded finding KF-C10-C. *)
Theorem deflation_recomposes : forall (RA : RootArith), RingLaws (KK RA) -> forall coeffs rs tr,
  3 < length coeffs - 1 -> poly_solve RA coeffs false = Ok (rs, tr) ->
  exists L : list (KK RA * KK RA),
    map fst L = rev rs /\ map fst L = map (fun l => snap RA (lx l)) tr /\
    (forall t, ev RA coeffs t = comp RA L (nth (length coeffs - 1) coeffs zero) t) /\
    (Forall (fun xr => snd xr = zero) L ->
     forall t, ev RA coeffs t = (linprod RA (rev rs) t * nth (length coeffs - 1) coeffs zero)%A).
Proof. intros RA RL coeffs rs tr. exact (deflation_recomposes_lemma RA RL coeffs rs tr). Qed.
Check deflation_recomposes : forall (RA : RootArith), RingLaws (KK RA) -> forall coeffs rs tr,
  3 < length coeffs - 1 -> poly_solve RA coeffs false = Ok (rs, tr) ->
  exists L : list (KK RA * KK RA),
    map fst L = rev rs /\ map fst L = map (fun l => snap RA (lx l)) tr /\
    (forall t, ev RA coeffs t = comp RA L (nth (length coeffs - 1) coeffs zero) t) /\
    (Forall (fun xr => snd xr = zero) L ->
     forall t, ev RA coeffs t = (linprod RA (rev rs) t * nth (length coeffs - 1) coeffs zero)%A).
Print Assumptions deflation_recomposes.
(* x^4 over GF(7) *)
Example deflation_recomposes_nonvacuous :
  RingLaws (KK RA7r) /\
  exists tr, poly_solve RA7r [f0; f0; f0; f0; f1] false = Ok ([f0; f0; f0; f0], tr) /\ length tr = 4.
Proof. split; [exact A7_RingLaws | exact ex_deflation7]. Qed.

(* ================= the closed forms over an abstract field ================= *)

(* degree 1: the value returned is the root *)
Theorem linear_root : forall (A : Arith) (FL : FieldLaws A) (O : FieldOps A) (c0 c1 : A),
  c1 <> zero -> exists r, poly_solve (FieldRA A FL O) [c0; c1] false = Ok ([r], []) /\ (c1 * r + c0 = zero)%A.
Proof. intros A FL O c0 c1 H. exact (linear_root_lemma A FL O c0 c1 false H eq_refl). Qed.
Check linear_root : forall (A : Arith) (FL : FieldLaws A) (O : FieldOps A) (c0 c1 : A),
  c1 <> zero -> exists r, poly_solve (FieldRA A FL O) [c0; c1] false = Ok ([r], []) /\ (c1 * r + c0 = zero)%A.
Print Assumptions linear_root.
Example linear_root_nonvacuous : (f3 : A7) <> zero.
Proof. exact ex_linear7. Qed.

(* degree 2: whatever sign the code chooses (f_re, f_conj, leb are arbitrary), if the square root primitive
   returned a square root of the discriminant and q <> 0 (r0 = q/a <> 0), the two values are THE two roots *)
Theorem quadratic_factors : forall (A : Arith) (FL : FieldLaws A) (O : FieldOps A) (a b c r0 r1 : A),
  (f_sqrt A O (b * b - a * natA A 4 * c) * f_sqrt A O (b * b - a * natA A 4 * c) = b * b - a * natA A 4 * c)%A ->
  natA A 2 <> zero -> a <> zero ->
  quadratic_solve (FieldRA A FL O) a b c = Ok [r0; r1] -> r0 <> zero ->
  forall x : A, (a * x * x + b * x + c = a * (x - r0) * (x - r1))%A.
Proof. intros A FL O a b c r0 r1. exact (quadratic_factors_lemma A FL O a b c r0 r1). Qed.
Check quadratic_factors : forall (A : Arith) (FL : FieldLaws A) (O : FieldOps A) (a b c r0 r1 : A),
  (f_sqrt A O (b * b - a * natA A 4 * c) * f_sqrt A O (b * b - a * natA A 4 * c) = b * b - a * natA A 4 * c)%A ->
  natA A 2 <> zero -> a <> zero ->
  quadratic_solve (FieldRA A FL O) a b c = Ok [r0; r1] -> r0 <> zero ->
  forall x : A, (a * x * x + b * x + c = a * (x - r0) * (x - r1))%A.
Print Assumptions quadratic_factors.
(* x^2 + 4x + 2 = (x-1)(x-2) over GF(7) *)
Example quadratic_factors_nonvacuous :
  let a : A7 := f1 in let b : A7 := f4 in let c : A7 := f2 in
  ((f1 : A7) * f1 = b * b - a * natA A7 4 * c)%A /\ natA A7 2 <> zero /\ a <> zero /\
  quadratic_solve (RA7 f1) a b c = Ok [f1; f2] /\ (f1 : A7) <> zero.
Proof. exact ex_quadratic7. Qed.

(* degree 2, the repaired branch (fix 1e066e6): b = c = 0 gives the double root 0; the legacy code panics
   (exact arithmetic) / returns NaN (floats: Legacy/C10Refuted.v) *)
Theorem quadratic_q0 : forall (A : Arith) (FL : FieldLaws A) (O : FieldOps A) (a : A),
  (f_sqrt A O zero * f_sqrt A O zero = zero)%A -> natA A 2 <> zero -> a <> zero ->
  quadratic_solve (FieldRA A FL O) a zero zero = Ok [zero; zero] /\
  quadratic_solve_gen (FieldRA A FL O) false a zero zero = Panic DivZero.
Proof. intros A FL O a. exact (quadratic_q0_lemma A FL O a). Qed.
Check quadratic_q0 : forall (A : Arith) (FL : FieldLaws A) (O : FieldOps A) (a : A),
  (f_sqrt A O zero * f_sqrt A O zero = zero)%A -> natA A 2 <> zero -> a <> zero ->
  quadratic_solve (FieldRA A FL O) a zero zero = Ok [zero; zero] /\
  quadratic_solve_gen (FieldRA A FL O) false a zero zero = Panic DivZero.
Print Assumptions quadratic_q0.

(* degree 2 never panics on a nonzero leading coefficient *)
Theorem quadratic_total : forall (A : Arith) (FL : FieldLaws A) (O : FieldOps A) (a b c : A),
  a <> zero -> exists r0 r1, quadratic_solve (FieldRA A FL O) a b c = Ok [r0; r1].
Proof. intros A FL O a b c. exact (quadratic_total_lemma A FL O a b c). Qed.
Check quadratic_total : forall (A : Arith) (FL : FieldLaws A) (O : FieldOps A) (a b c : A),
  a <> zero -> exists r0 r1, quadratic_solve (FieldRA A FL O) a b c = Ok [r0; r1].
Print Assumptions quadratic_total.

(* degree 3 (Cardano), for EITHER sign test (cs = true: the repaired code, fix eb1fb9c; cs = false: legacy) and for
   the triple-root branch: if the sqrt primitive returned a square root of the radicand, the pow primitive a cube
   root of `base`, and the constant (-0.5, sqrt(3)/2) is a primitive cube root of unity, then whenever the function
   returns (no division by k = 0), the three values are THE three roots *)
Theorem cubic_factors : forall (A : Arith) (FL : FieldLaws A) (O : FieldOps A) (cs : bool) (a b c d r0 r1 r2 : A),
  (f_sqrt A O (cubic_rad A FL O a b c d) * f_sqrt A O (cubic_rad A FL O a b c d) = cubic_rad A FL O a b c d)%A ->
  cube A (f_pow A O (cubic_base A FL O cs a b c d) (f_mk A O (one * fl_inv A FL (natA A 3))%A zero))
    = cubic_base A FL O cs a b c d ->
  (let u := f_mk A O (- fl_inv A FL (one + one))%A (f_rsqrt A O (natA A 3) * fl_inv A FL (natA A 2))%A in
   u * u + u + one = zero)%A ->
  natA A 2 <> zero -> natA A 3 <> zero -> a <> zero ->
  cubic_solve_gen (FieldRA A FL O) cs a b c d = Ok [r0; r1; r2] ->
  forall x : A, (a * x * x * x + b * x * x + c * x + d = a * (x - r0) * (x - r1) * (x - r2))%A.
Proof. intros A FL O cs a b c d r0 r1 r2. exact (cubic_factors_lemma A FL O cs a b c d r0 r1 r2). Qed.
Check cubic_factors : forall (A : Arith) (FL : FieldLaws A) (O : FieldOps A) (cs : bool) (a b c d r0 r1 r2 : A),
  (f_sqrt A O (cubic_rad A FL O a b c d) * f_sqrt A O (cubic_rad A FL O a b c d) = cubic_rad A FL O a b c d)%A ->
  cube A (f_pow A O (cubic_base A FL O cs a b c d) (f_mk A O (one * fl_inv A FL (natA A 3))%A zero))
    = cubic_base A FL O cs a b c d ->
  (let u := f_mk A O (- fl_inv A FL (one + one))%A (f_rsqrt A O (natA A 3) * fl_inv A FL (natA A 2))%A in
   u * u + u + one = zero)%A ->
  natA A 2 <> zero -> natA A 3 <> zero -> a <> zero ->
  cubic_solve_gen (FieldRA A FL O) cs a b c d = Ok [r0; r1; r2] ->
  forall x : A, (a * x * x * x + b * x * x + c * x + d = a * (x - r0) * (x - r1) * (x - r2))%A.
Print Assumptions cubic_factors.
(* x^3 + 4x + 5 = (x-6)^2 (x-2) over GF(7) (u = 2 is a primitive cube root of unity there): Cardano branch *)
Example cubic_factors_nonvacuous :
  let a : A7 := f1 in let b : A7 := f0 in let c : A7 := f4 in let d : A7 := f5 in
  cubic_rad A7 A7_FieldLaws (O7 f0) a b c d = f0 /\
  cubic_base A7 A7_FieldLaws (O7 f0) true a b c d = f1 /\
  (let u : A7 := f2 in u * u + u + one = zero)%A /\
  natA A7 2 <> zero /\ natA A7 3 <> zero /\ a <> zero /\
  cubic_solve (RA7 f0) a b c d = Ok [f6; f6; f2].
Proof. exact ex_cubic7. Qed.
(* 2 (x-1)^3 over GF(7): the triple-root branch *)
Example cubic_factors_triple_nonvacuous : cubic_solve (RA7 f0) (f2 : A7) f1 f6 f5 = Ok [f1; f1; f1].
Proof. exact ex_triple7. Qed.

(* ================= the float instance ================= *)
(* (last in the file: its Print Assumptions lists Coq's primitive-float constants, which are not axioms of this development) *)
(* index safety of the float instance, whatever the three libm-backed primitives return (ANY oracle table), for every
   nonempty coefficient list and both refinement settings: no Vec access of poly_solve / laguer / the deflation is out
   of bounds (frac[iter / MT] included: frac[] has MR + 1 entries, regenerated from the source) and no usize subtraction
   underflows.  With roots_length / degree0_rejected: the ONLY panic of Polynomial::roots is the degree-0 guard
   (the empty coefficient list underflows in `coeffs.size() - 1`: empty_rejected_lemma). *)
Theorem float_roots_memory_safe : forall (tbl : list PrimFloat.float) coeffs refine,
  coeffs <> [] ->
  poly_solve (FloatRA tbl) coeffs refine <> Panic Index /\ poly_solve (FloatRA tbl) coeffs refine <> Panic Underflow.
Proof. intros tbl coeffs refine. exact (float_roots_memory_safe_both tbl coeffs refine). Qed.
Check float_roots_memory_safe : forall (tbl : list PrimFloat.float) coeffs refine,
  coeffs <> [] ->
  poly_solve (FloatRA tbl) coeffs refine <> Panic Index /\ poly_solve (FloatRA tbl) coeffs refine <> Panic Underflow.
Print Assumptions float_roots_memory_safe.

(* ---- tie of the model to the source of this run (package r2c2): gen/SrcRoots.v is regenerated from src/polynomial/mod.rs
   (quadratic_solve, cubic_solve, laguer, poly_solve and the two public `roots`) by driver/rust2coq.py on every check run, over
   the model's two-sorted RootArith (f64 / Cmplx; the libm-backed Complex::sqrt / pow / polar are its oracle operations);
   Proofs/SrcEqRoots.v proves each regenerated function equal to Model/Roots.v -- laguer / poly_solve / roots as ERASURE
   lemmas (the exit reasons and the traces of the laguer calls projected away) -- for EVERY RootArith: the float instance with
   its oracle table (what the correspondence check runs) and the field instance of the theorems above alike. *)
From OV Require Proofs.SrcEqRoots.
Theorem model_is_source_C10_Roots : forall RA : RootArith, SrcEqRoots.model_is_source_Roots RA.
Proof. intros RA. exact (SrcEqRoots.model_is_source_Roots_lemma RA). Qed.
Check model_is_source_C10_Roots : forall RA : RootArith, SrcEqRoots.model_is_source_Roots RA.
Print Assumptions model_is_source_C10_Roots.
