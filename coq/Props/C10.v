(* Props/C10.v -- property theorems only: Theorem / exact lemma / Check (pins the statement) / Print Assumptions.

   What is proved here is about the executable model coq/Model/Roots.v -- ONE definition over a two-sorted
   arithmetic [RootArith], whose float instance [FloatRA tbl] (IEEE binary64 + the recorded libm calls)
   follows src/polynomial/mod.rs bit for bit on every case of every check run, and whose abstract-field
   instance [FieldRA A FL O] carries the closed-form theorems below (O : FieldOps A collects everything
   left ARBITRARY: the complex square root and power primitives, Cmplx::new, conj, real/imaginary parts,
   absolute values -- hence every sign choice the code makes --, f64::sqrt, f64::max, EPS, frac[]).

   NOT proved, and false of the code on the recorded classes KF-C10-A/B/C/E: that the floating-point
   values returned are accurate roots; that Laguerre's iteration converges.  Those halves are covered by
   the bit-for-bit tie and the failing-input search of driver/c10.py. *)
From Coq Require Import List Arith.
From OV Require Import Base.Panic Base.Arith gen.Params Model.Roots
                       Proofs.Roots Proofs.RootsMore Proofs.RootsSafe Proofs.RootsRing Proofs.RootsField Proofs.RootsExamples.
Import ListNotations.

(* ================= any arithmetic (floats with any oracle table included) ================= *)

(* poly_solve returns exactly n = |coeffs| - 1 values whenever it returns *)
Theorem roots_length : forall (RA : RootArith) coeffs refine rs tr,
  poly_solve RA coeffs refine = Ok (rs, tr) -> length rs = length coeffs - 1.
Proof. intros RA coeffs refine rs tr. exact (roots_length_lemma RA coeffs refine rs tr). Qed.
Check roots_length : forall (RA : RootArith) coeffs refine rs tr,
  poly_solve RA coeffs refine = Ok (rs, tr) -> length rs = length coeffs - 1.
Print Assumptions roots_length.
(* (x-1)(x-2)(x-3)(x-4) over f64 with the recorded libm calls, refine = true: 4 values, 8 laguer calls *)
Example roots_length_nonvacuous :
  exists rs tr, roots_f64 tbl_1234 p1234 true = Ok (rs, tr) /\ length rs = 4 /\ length tr = 8.
Proof. exact ex_roots_float. Qed.

(* a degree-0 polynomial is rejected: the guard panic of mod.rs:256 *)
Theorem degree0_rejected : forall (RA : RootArith) (c : KK RA) refine, poly_solve RA [c] refine = Panic Guard.
Proof. intros RA c refine. exact (degree0_rejected_lemma RA c refine). Qed.
Check degree0_rejected : forall (RA : RootArith) (c : KK RA) refine, poly_solve RA [c] refine = Panic Guard.
Print Assumptions degree0_rejected.

(* laguer makes at most MAXIT - 1 passes, MAXIT = MT * MR regenerated from the source (gen/Params.v) *)
Theorem laguer_bounded : forall (RA : RootArith) a x l,
  laguer RA a x = Ok l -> liters l <= LAGUER_MT * LAGUER_MR - 1.
Proof. intros RA a x l. exact (laguer_bounded_lemma RA a x l). Qed.
Check laguer_bounded : forall (RA : RootArith) a x l,
  laguer RA a x = Ok l -> liters l <= LAGUER_MT * LAGUER_MR - 1.
Print Assumptions laguer_bounded.
Example laguer_bounded_nonvacuous :
  exists l, laguer (FloatRA tbl_1234) c1234 cz0 = Ok l
            /\ lwhy l = Converged /\ liters l = 4.
Proof. exact ex_laguer_float. Qed.

(* an Exhausted exit (the cause of KF-C10-A) has used every one of the MAXIT - 1 passes *)
Theorem laguer_exhausted_full : forall (RA : RootArith) a x l,
  laguer RA a x = Ok l -> lwhy l = Exhausted -> liters l = LAGUER_MT * LAGUER_MR - 1.
Proof. intros RA a x l. exact (laguer_exhausted_lemma RA a x l). Qed.
Check laguer_exhausted_full : forall (RA : RootArith) a x l,
  laguer RA a x = Ok l -> lwhy l = Exhausted -> liters l = LAGUER_MT * LAGUER_MR - 1.
Print Assumptions laguer_exhausted_full.


(* exit Converged => the code's own test |p(x)| <= EPS * err (conv_test: the inner loop at the RETURNED x gives
   (b, err, _, _) with b.abs() <= err * EPS) held at the returned iterate *)
Theorem laguer_converged_small : forall (RA : RootArith) a x l,
  laguer RA a x = Ok l -> lwhy l = Converged -> conv_test RA a (length a - 1) (lx l).
Proof. intros RA a x l. exact (laguer_converged_lemma RA a x l). Qed.
Check laguer_converged_small : forall (RA : RootArith) a x l,
  laguer RA a x = Ok l -> lwhy l = Converged -> conv_test RA a (length a - 1) (lx l).
Print Assumptions laguer_converged_small.
(* non-vacuity: laguer_bounded_nonvacuous above is a call that exits Converged *)

(* the number of laguer calls: one per root while deflating (degree >= 4), one more per root when polishing *)
Theorem trace_length : forall (RA : RootArith) coeffs refine rs tr,
  poly_solve RA coeffs refine = Ok (rs, tr) ->
  length tr = (if 3 <? length coeffs - 1 then length coeffs - 1 else 0) + (if refine then length coeffs - 1 else 0).
Proof. intros RA coeffs refine rs tr. exact (trace_length_lemma RA coeffs refine rs tr). Qed.
Check trace_length : forall (RA : RootArith) coeffs refine rs tr,
  poly_solve RA coeffs refine = Ok (rs, tr) ->
  length tr = (if 3 <? length coeffs - 1 then length coeffs - 1 else 0) + (if refine then length coeffs - 1 else 0).
Print Assumptions trace_length.
(* non-vacuity: roots_length_nonvacuous (degree 4, refine: 4 + 4 = 8 calls) *)

(* refine = true: EVERY value of the unpolished run is passed through laguer on the undeflated polynomial, in order,
   and replaced by the result *)
Theorem refine_polishes_all : forall (RA : RootArith) coeffs rs tr,
  poly_solve RA coeffs true = Ok (rs, tr) ->
  exists rs0 tr0 (ls : list (lres (KK RA))),
    poly_solve RA coeffs false = Ok (rs0, tr0) /\ length ls = length coeffs - 1 /\ tr = tr0 ++ ls /\
    forall j, j < length coeffs - 1 ->
      exists l, nth_error ls j = Some l /\ laguer RA coeffs (nth j rs0 zero) = Ok l /\ nth j rs zero = lx l.
Proof. intros RA coeffs rs tr. exact (refine_polishes_all_lemma RA coeffs rs tr). Qed.
Check refine_polishes_all : forall (RA : RootArith) coeffs rs tr,
  poly_solve RA coeffs true = Ok (rs, tr) ->
  exists rs0 tr0 (ls : list (lres (KK RA))),
    poly_solve RA coeffs false = Ok (rs0, tr0) /\ length ls = length coeffs - 1 /\ tr = tr0 ++ ls /\
    forall j, j < length coeffs - 1 ->
      exists l, nth_error ls j = Some l /\ laguer RA coeffs (nth j rs0 zero) = Ok l /\ nth j rs zero = lx l.
Print Assumptions refine_polishes_all.

(* a polished root whose polishing call (entry |tr| - n + j of the trace) exits Converged passes the code's own
   smallness test ON THE UNDEFLATED POLYNOMIAL *)
Theorem polished_converged : forall (RA : RootArith) coeffs rs tr j l,
  poly_solve RA coeffs true = Ok (rs, tr) -> j < length coeffs - 1 ->
  nth_error tr (length tr - (length coeffs - 1) + j) = Some l -> lwhy l = Converged ->
  conv_test RA coeffs (length coeffs - 1) (nth j rs zero).
Proof. intros RA coeffs rs tr j l H. exact (polished_converged_lemma RA coeffs rs tr j l H). Qed.
Check polished_converged : forall (RA : RootArith) coeffs rs tr j l,
  poly_solve RA coeffs true = Ok (rs, tr) -> j < length coeffs - 1 ->
  nth_error tr (length tr - (length coeffs - 1) + j) = Some l -> lwhy l = Converged ->
  conv_test RA coeffs (length coeffs - 1) (nth j rs zero).
Print Assumptions polished_converged.
Example polished_converged_nonvacuous :
  exists rs tr l, roots_f64 tbl_1234 p1234 true = Ok (rs, tr) /\
                  nth_error tr (length tr - (length p1234 - 1) + 0) = Some l /\ lwhy l = Converged.
Proof. exact ex_polish_float. Qed.

(* real-axis snapping: the value is kept, or its imaginary part is replaced by zero *)
Theorem snap_cases : forall (RA : RootArith) (x : KK RA), snap RA x = x \/ snap RA x = mkk RA (kre RA x) zero.
Proof. intros RA x. exact (snap_cases_lemma RA x). Qed.
Check snap_cases : forall (RA : RootArith) (x : KK RA), snap RA x = x \/ snap RA x = mkk RA (kre RA x) zero.
Print Assumptions snap_cases.


(* ================= any commutative ring on KK (nothing assumed of RR, of the oracles, of the tests) ================= *)

(* ev, dv, hv are p(x), p'(x), p''(x)/2: the Taylor expansion at x *)
Theorem taylor_expansion : forall (RA : RootArith), RingLaws (KK RA) -> forall (l : list (KK RA)) (x t : KK RA),
  ev RA l (x + t)%A = (ev RA l x + t * dv RA l x + t * t * hv RA l x + t * t * t * tv RA l x t)%A.
Proof. intros RA RL l x t. exact (taylor_lemma RA RL l x t). Qed.
Check taylor_expansion : forall (RA : RootArith), RingLaws (KK RA) -> forall (l : list (KK RA)) (x t : KK RA),
  ev RA l (x + t)%A = (ev RA l x + t * dv RA l x + t * t * hv RA l x + t * t * t * tv RA l x t)%A.
Print Assumptions taylor_expansion.

(* laguer's inner loop returns (p(x), p'(x), p''(x)/2) and the running error bound
   errv(a_m) = |a_m|,  errv(c + X Q) = |(c + X Q)(x)| + |x| errv(Q) *)
Theorem horner_triple : forall (RA : RootArith), RingLaws (KK RA) -> forall a m x b err d f,
  m + 1 = length a -> horner3 RA a m x = Ok (b, err, d, f) ->
  b = ev RA a x /\ d = dv RA a x /\ f = hv RA a x /\ err = errv RA a x.
Proof. intros RA RL a m x b err d f. exact (horner_triple_lemma RA RL a m x b err d f). Qed.
Check horner_triple : forall (RA : RootArith), RingLaws (KK RA) -> forall a m x b err d f,
  m + 1 = length a -> horner3 RA a m x = Ok (b, err, d, f) ->
  b = ev RA a x /\ d = dv RA a x /\ f = hv RA a x /\ err = errv RA a x.
Print Assumptions horner_triple.
Example horner_triple_nonvacuous :
  RingLaws (KK (RA7 f0)) /\ exists b e d f, horner3 (RA7 f0) [f1; f2; f3; f1] 3 f2 = Ok (b, e, d, f).
Proof. split; [exact A7_RingLaws | exact ex_horner7]. Qed.


(* the meaning of a Converged exit: |p(x)| <= EPS * errv(p, x) at the returned iterate (the code's own test, with the
   values the inner loop computes identified as p(x) and the running error bound) *)
Theorem converged_means_small : forall (RA : RootArith), RingLaws (KK RA) -> forall a x l,
  laguer RA a x = Ok l -> lwhy l = Converged ->
  leb (kabs RA (ev RA a (lx l))) (mul (errv RA a (lx l)) (reps RA)) = true.
Proof. intros RA RL a x l. exact (laguer_converged_meaning RA RL a x l). Qed.
Check converged_means_small : forall (RA : RootArith), RingLaws (KK RA) -> forall a x l,
  laguer RA a x = Ok l -> lwhy l = Converged ->
  leb (kabs RA (ev RA a (lx l))) (mul (errv RA a (lx l)) (reps RA)) = true.
Print Assumptions converged_means_small.

(* ... and for a polished value: the test is on the UNDEFLATED polynomial *)
Theorem polished_converged_small : forall (RA : RootArith), RingLaws (KK RA) -> forall coeffs rs tr j l,
  poly_solve RA coeffs true = Ok (rs, tr) -> j < length coeffs - 1 ->
  nth_error tr (length tr - (length coeffs - 1) + j) = Some l -> lwhy l = Converged ->
  leb (kabs RA (ev RA coeffs (nth j rs zero))) (mul (errv RA coeffs (nth j rs zero)) (reps RA)) = true.
Proof. intros RA RL coeffs rs tr j l. exact (polished_converged_meaning RA RL coeffs rs tr j l). Qed.
Check polished_converged_small : forall (RA : RootArith), RingLaws (KK RA) -> forall coeffs rs tr j l,
  poly_solve RA coeffs true = Ok (rs, tr) -> j < length coeffs - 1 ->
  nth_error tr (length tr - (length coeffs - 1) + j) = Some l -> lwhy l = Converged ->
  leb (kabs RA (ev RA coeffs (nth j rs zero))) (mul (errv RA coeffs (nth j rs zero)) (reps RA)) = true.
Print Assumptions polished_converged_small.
(* non-vacuity over GF(7) (EPS = 0, so Converged means p(x) = 0 exactly): x^4, refine = true *)
Example polished_converged_small_nonvacuous :
  RingLaws (KK RA7r) /\
  exists rs tr l, poly_solve RA7r [f0; f0; f0; f0; f1] true = Ok (rs, tr) /\
                  nth_error tr (length tr - 4 + 0) = Some l /\ lwhy l = Converged.
Proof. split; [exact A7_RingLaws | exact ex_polish7]. Qed.

(* forward deflation: p(t) = (t - x) q(t) + p(x), everything above index j untouched *)
Theorem deflate_spec : forall (RA : RootArith), RingLaws (KK RA) -> forall ad j x ad' r,
  deflate RA ad j x = Ok (ad', r) ->
  length ad' = length ad /\ skipn (j + 1) ad' = skipn (j + 1) ad /\
  (forall t, ev RA (firstn (j + 2) ad) t = ((t - x) * ev RA (firstn (j + 1) ad') t + r)%A) /\
  r = ev RA (firstn (j + 2) ad) x.
Proof. intros RA RL ad j x ad' r. exact (deflate_spec_lemma RA RL ad j x ad' r). Qed.
Check deflate_spec : forall (RA : RootArith), RingLaws (KK RA) -> forall ad j x ad' r,
  deflate RA ad j x = Ok (ad', r) ->
  length ad' = length ad /\ skipn (j + 1) ad' = skipn (j + 1) ad /\
  (forall t, ev RA (firstn (j + 2) ad) t = ((t - x) * ev RA (firstn (j + 1) ad') t + r)%A) /\
  r = ev RA (firstn (j + 2) ad) x.
Print Assumptions deflate_spec.
Example deflate_spec_nonvacuous :
  RingLaws (KK (RA7 f0)) /\ exists ad' r, deflate (RA7 f0) [f1; f2; f3; f1] 2 f2 = Ok (ad', r).
Proof. split; [exact A7_RingLaws | exact ex_deflate7]. Qed.


(* the whole deflation phase (degree >= 4, no refinement): p is recomposed EXACTLY from the values found (in the order
   found, index n-1 first; each is the snapped result of one laguer call) and one residual per value,
     p(t) = (t - x_{n-1}) ((t - x_{n-2}) ( ... ((t - x_0) a_n + r_0) ... ) + r_{n-2}) + r_{n-1},
   so if every value is an exact root of its own deflated polynomial (all residuals 0) then p(t) = a_n prod (t - x_j).
   In floating point the residuals are not 0 and nothing bounds them: that is the recorded finding KF-C10-C. *)
Theorem deflation_recomposes : forall (RA : RootArith), RingLaws (KK RA) -> forall coeffs rs tr,
  3 < length coeffs - 1 -> poly_solve RA coeffs false = Ok (rs, tr) ->
  exists L : list (KK RA * KK RA),
    map fst L = rev rs /\ map fst L = map (fun l => snap RA (lx l)) tr /\
    (forall t, ev RA coeffs t = comp RA L (nth (length coeffs - 1) coeffs zero) t) /\
    (Forall (fun xr => snd xr = zero) L ->
     forall t, ev RA coeffs t = (linprod RA (rev rs) t * nth (length coeffs - 1) coeffs zero)%A).
Proof. intros RA RL coeffs rs tr. exact (deflation_recomposes_lemma RA RL coeffs rs tr). Qed.
Check deflation_recomposes : forall (RA : RootArith), RingLaws (KK RA) -> forall coeffs rs tr,
  3 < length coeffs - 1 -> poly_solve RA coeffs false = Ok (rs, tr) ->
  exists L : list (KK RA * KK RA),
    map fst L = rev rs /\ map fst L = map (fun l => snap RA (lx l)) tr /\
    (forall t, ev RA coeffs t = comp RA L (nth (length coeffs - 1) coeffs zero) t) /\
    (Forall (fun xr => snd xr = zero) L ->
     forall t, ev RA coeffs t = (linprod RA (rev rs) t * nth (length coeffs - 1) coeffs zero)%A).
Print Assumptions deflation_recomposes.
(* x^4 over GF(7) *)
Example deflation_recomposes_nonvacuous :
  RingLaws (KK RA7r) /\
  exists tr, poly_solve RA7r [f0; f0; f0; f0; f1] false = Ok ([f0; f0; f0; f0], tr) /\ length tr = 4.
Proof. split; [exact A7_RingLaws | exact ex_deflation7]. Qed.

(* ================= the closed forms over an abstract field ================= *)

(* degree 1: the value returned is the root *)
Theorem linear_root : forall (A : Arith) (FL : FieldLaws A) (O : FieldOps A) (c0 c1 : A),
  c1 <> zero -> exists r, poly_solve (FieldRA A FL O) [c0; c1] false = Ok ([r], []) /\ (c1 * r + c0 = zero)%A.
Proof. intros A FL O c0 c1 H. exact (linear_root_lemma A FL O c0 c1 false H eq_refl). Qed.
Check linear_root : forall (A : Arith) (FL : FieldLaws A) (O : FieldOps A) (c0 c1 : A),
  c1 <> zero -> exists r, poly_solve (FieldRA A FL O) [c0; c1] false = Ok ([r], []) /\ (c1 * r + c0 = zero)%A.
Print Assumptions linear_root.
Example linear_root_nonvacuous : (f3 : A7) <> zero.
Proof. exact ex_linear7. Qed.

(* degree 2: whatever sign the code chooses (f_re, f_conj, leb are arbitrary), if the square root primitive
   returned a square root of the discriminant and q <> 0 (r0 = q/a <> 0), the two values are THE two roots *)
Theorem quadratic_factors : forall (A : Arith) (FL : FieldLaws A) (O : FieldOps A) (a b c r0 r1 : A),
  (f_sqrt A O (b * b - a * natA A 4 * c) * f_sqrt A O (b * b - a * natA A 4 * c) = b * b - a * natA A 4 * c)%A ->
  natA A 2 <> zero -> a <> zero ->
  quadratic_solve (FieldRA A FL O) a b c = Ok [r0; r1] -> r0 <> zero ->
  forall x : A, (a * x * x + b * x + c = a * (x - r0) * (x - r1))%A.
Proof. intros A FL O a b c r0 r1. exact (quadratic_factors_lemma A FL O a b c r0 r1). Qed.
Check quadratic_factors : forall (A : Arith) (FL : FieldLaws A) (O : FieldOps A) (a b c r0 r1 : A),
  (f_sqrt A O (b * b - a * natA A 4 * c) * f_sqrt A O (b * b - a * natA A 4 * c) = b * b - a * natA A 4 * c)%A ->
  natA A 2 <> zero -> a <> zero ->
  quadratic_solve (FieldRA A FL O) a b c = Ok [r0; r1] -> r0 <> zero ->
  forall x : A, (a * x * x + b * x + c = a * (x - r0) * (x - r1))%A.
Print Assumptions quadratic_factors.
(* x^2 + 4x + 2 = (x-1)(x-2) over GF(7) *)
Example quadratic_factors_nonvacuous :
  let a : A7 := f1 in let b : A7 := f4 in let c : A7 := f2 in
  ((f1 : A7) * f1 = b * b - a * natA A7 4 * c)%A /\ natA A7 2 <> zero /\ a <> zero /\
  quadratic_solve (RA7 f1) a b c = Ok [f1; f2] /\ (f1 : A7) <> zero.
Proof. exact ex_quadratic7. Qed.

(* degree 2, the repaired branch (fix 1e066e6): b = c = 0 gives the double root 0; the legacy code panics
   (exact arithmetic) / returns NaN (floats: Legacy/C10Refuted.v) *)
Theorem quadratic_q0 : forall (A : Arith) (FL : FieldLaws A) (O : FieldOps A) (a : A),
  (f_sqrt A O zero * f_sqrt A O zero = zero)%A -> natA A 2 <> zero -> a <> zero ->
  quadratic_solve (FieldRA A FL O) a zero zero = Ok [zero; zero] /\
  quadratic_solve_gen (FieldRA A FL O) false a zero zero = Panic DivZero.
Proof. intros A FL O a. exact (quadratic_q0_lemma A FL O a). Qed.
Check quadratic_q0 : forall (A : Arith) (FL : FieldLaws A) (O : FieldOps A) (a : A),
  (f_sqrt A O zero * f_sqrt A O zero = zero)%A -> natA A 2 <> zero -> a <> zero ->
  quadratic_solve (FieldRA A FL O) a zero zero = Ok [zero; zero] /\
  quadratic_solve_gen (FieldRA A FL O) false a zero zero = Panic DivZero.
Print Assumptions quadratic_q0.

(* degree 2 never panics on a nonzero leading coefficient *)
Theorem quadratic_total : forall (A : Arith) (FL : FieldLaws A) (O : FieldOps A) (a b c : A),
  a <> zero -> exists r0 r1, quadratic_solve (FieldRA A FL O) a b c = Ok [r0; r1].
Proof. intros A FL O a b c. exact (quadratic_total_lemma A FL O a b c). Qed.
Check quadratic_total : forall (A : Arith) (FL : FieldLaws A) (O : FieldOps A) (a b c : A),
  a <> zero -> exists r0 r1, quadratic_solve (FieldRA A FL O) a b c = Ok [r0; r1].
Print Assumptions quadratic_total.

(* degree 3 (Cardano), for EITHER sign test (cs = true: the repaired code, fix eb1fb9c; cs = false: legacy) and for
   the triple-root branch: if the sqrt primitive returned a square root of the radicand, the pow primitive a cube
   root of `base`, and the constant (-0.5, sqrt(3)/2) is a primitive cube root of unity, then whenever the function
   returns (no division by k = 0), the three values are THE three roots *)
Theorem cubic_factors : forall (A : Arith) (FL : FieldLaws A) (O : FieldOps A) (cs : bool) (a b c d r0 r1 r2 : A),
  (f_sqrt A O (cubic_rad A FL O a b c d) * f_sqrt A O (cubic_rad A FL O a b c d) = cubic_rad A FL O a b c d)%A ->
  cube A (f_pow A O (cubic_base A FL O cs a b c d) (f_mk A O (one * fl_inv A FL (natA A 3))%A zero))
    = cubic_base A FL O cs a b c d ->
  (let u := f_mk A O (- fl_inv A FL (one + one))%A (f_rsqrt A O (natA A 3) * fl_inv A FL (natA A 2))%A in
   u * u + u + one = zero)%A ->
  natA A 2 <> zero -> natA A 3 <> zero -> a <> zero ->
  cubic_solve_gen (FieldRA A FL O) cs a b c d = Ok [r0; r1; r2] ->
  forall x : A, (a * x * x * x + b * x * x + c * x + d = a * (x - r0) * (x - r1) * (x - r2))%A.
Proof. intros A FL O cs a b c d r0 r1 r2. exact (cubic_factors_lemma A FL O cs a b c d r0 r1 r2). Qed.
Check cubic_factors : forall (A : Arith) (FL : FieldLaws A) (O : FieldOps A) (cs : bool) (a b c d r0 r1 r2 : A),
  (f_sqrt A O (cubic_rad A FL O a b c d) * f_sqrt A O (cubic_rad A FL O a b c d) = cubic_rad A FL O a b c d)%A ->
  cube A (f_pow A O (cubic_base A FL O cs a b c d) (f_mk A O (one * fl_inv A FL (natA A 3))%A zero))
    = cubic_base A FL O cs a b c d ->
  (let u := f_mk A O (- fl_inv A FL (one + one))%A (f_rsqrt A O (natA A 3) * fl_inv A FL (natA A 2))%A in
   u * u + u + one = zero)%A ->
  natA A 2 <> zero -> natA A 3 <> zero -> a <> zero ->
  cubic_solve_gen (FieldRA A FL O) cs a b c d = Ok [r0; r1; r2] ->
  forall x : A, (a * x * x * x + b * x * x + c * x + d = a * (x - r0) * (x - r1) * (x - r2))%A.
Print Assumptions cubic_factors.
(* x^3 + 4x + 5 = (x-6)^2 (x-2) over GF(7) (u = 2 is a primitive cube root of unity there): Cardano branch *)
Example cubic_factors_nonvacuous :
  let a : A7 := f1 in let b : A7 := f0 in let c : A7 := f4 in let d : A7 := f5 in
  cubic_rad A7 A7_FieldLaws (O7 f0) a b c d = f0 /\
  cubic_base A7 A7_FieldLaws (O7 f0) true a b c d = f1 /\
  (let u : A7 := f2 in u * u + u + one = zero)%A /\
  natA A7 2 <> zero /\ natA A7 3 <> zero /\ a <> zero /\
  cubic_solve (RA7 f0) a b c d = Ok [f6; f6; f2].
Proof. exact ex_cubic7. Qed.
(* 2 (x-1)^3 over GF(7): the triple-root branch *)
Example cubic_factors_triple_nonvacuous : cubic_solve (RA7 f0) (f2 : A7) f1 f6 f5 = Ok [f1; f1; f1].
Proof. exact ex_triple7. Qed.

(* ================= the float instance ================= *)
(* (last in the file: its Print Assumptions lists Coq's primitive-float constants, which are not axioms of this development) *)
(* index safety of the float instance, whatever the three libm-backed primitives return (ANY oracle table), for every
   nonempty coefficient list and both refinement settings: no Vec access of poly_solve / laguer / the deflation is out
   of bounds (frac[iter / MT] included: frac[] has MR + 1 entries, regenerated from the source) and no usize subtraction
   underflows.  With roots_length / degree0_rejected: the ONLY panic of Polynomial::roots is the degree-0 guard
   (the empty coefficient list underflows in `coeffs.size() - 1`: empty_rejected_lemma). *)
Theorem float_roots_memory_safe : forall (tbl : list PrimFloat.float) coeffs refine,
  coeffs <> [] ->
  poly_solve (FloatRA tbl) coeffs refine <> Panic Index /\ poly_solve (FloatRA tbl) coeffs refine <> Panic Underflow.
Proof. intros tbl coeffs refine. exact (float_roots_memory_safe_both tbl coeffs refine). Qed.
Check float_roots_memory_safe : forall (tbl : list PrimFloat.float) coeffs refine,
  coeffs <> [] ->
  poly_solve (FloatRA tbl) coeffs refine <> Panic Index /\ poly_solve (FloatRA tbl) coeffs refine <> Panic Underflow.
Print Assumptions float_roots_memory_safe.

(* ---- tie of the model to the source of this run (package r2c2): gen/SrcRoots.v is regenerated from src/polynomial/mod.rs
   (quadratic_solve, cubic_solve, laguer, poly_solve and the two public `roots`) by driver/rust2coq.py on every check run, over
   the model's two-sorted RootArith (f64 / Cmplx; the libm-backed Complex::sqrt / pow / polar are its oracle operations);
   Proofs/SrcEqRoots.v proves each regenerated function equal to Model/Roots.v -- laguer / poly_solve / roots as ERASURE
   lemmas (the exit reasons and the traces of the laguer calls projected away) -- for EVERY RootArith: the float instance with
   its oracle table (what the correspondence check runs) and the field instance of the theorems above alike. *)
From OV Require Proofs.SrcEqRoots.
Theorem model_is_source_C10_Roots : forall RA : RootArith, SrcEqRoots.model_is_source_Roots RA.
Proof. intros RA. exact (SrcEqRoots.model_is_source_Roots_lemma RA). Qed.
Check model_is_source_C10_Roots : forall RA : RootArith, SrcEqRoots.model_is_source_Roots RA.
Print Assumptions model_is_source_C10_Roots.

(* ================= the FLOAT half for the closed forms, in the standard model of rounding (package quadround) =================
   degree 1 and 2 completely; degree 3: the triple-root branch, and the Cardano branch under the hypotheses that exclude KF-C10-F.
   Proofs/RootsRound.v: the model's poly_solve / quadratic_solve instantiated at [RoundRAo eps O]: Complex<f64> = C = R * R
   (Coquelicot), every ROUNDED complex operation an arbitrary function with normwise relative error eps ([std_model eps O]:
   + - * / , Complex * f64, and Complex::sqrt with relative error eps with respect to SOME square root); negation, conjugation,
   .real, the comparisons `>= 0.0` / `== zero` and the literals 4.0 1.0 -1.0 0.5 exact, as in IEEE arithmetic; every other
   operation of the arithmetic (O : RoundOps) arbitrary.  NO hypothesis on the discriminant: cancellation in b^2 - 4ac does not
   harm the residual (normwise backward error of ONE root); the sign choice of the code is PROVED to avoid cancellation in
   b + sgn * sqrt(disc), with the rounded product conj(b) * sqrt(disc) the code tests.
   NO UNDERFLOW, NO OVERFLOW: [std_model eps O] demands the relative error bound at EVERY argument, so it is a statement about an
   arithmetic with an unbounded exponent range (binary64 satisfies it only on operands whose exact results stay in the normal
   range); [quad_ops_ok eps O a b c] (theorem quadratic_residual_local) demands it exactly at the arguments of the (at most) twelve
   rounded operations performed on the input (a, b, c) -- for binary64: none of these operations underflows or overflows.  Every
   theorem below carries one of the two hypotheses, and that is what excludes the recorded class KF-C10-H
   (findings/C10-closed-form-scale.md: on the real code 1e-30 (x-1)(x-2)(x-3) gives NaN, 1e-85 (x-1)(x-2) gives 1.5 and 1.333,
   because Complex::sqrt / pow / abs / div square their argument's components): see the Example
   quadratic_hypotheses_exclude_KF_C10_H_example -- an arithmetic whose sqrt flushes small arguments to 0, as the code's does,
   violates quad_ops_ok, returns the same wrong values and violates the bound.
   The simultaneous COMPONENTWISE form (both values roots of ONE quadratic with |db| <= k eps |b|) is false -- see
   quadratic_componentwise_simultaneous_refuted_example below (b = 0: the two returned values do not sum to 0); the true simultaneous
   statement is quadratic_simultaneous_backward_error. *)
From Coq Require Import Reals.
From Coquelicot Require Import Complex.
From OV Require Import Proofs.RoundFlx Proofs.RootsRound Proofs.RootsRoundEx Proofs.RootsRoundFwd Proofs.RootsRoundCubic Proofs.RootsRoundCardano Proofs.RootsRoundFlx.

(* degree 1: the returned value is the exact root of c1 x + c0 (1 + d), |d| <= eps (one negation, exact; one division) *)
Theorem linear_root_backward_error : forall (eps : R) (O : RoundOps) (c0 c1 : C),
  (0 <= eps)%R -> std_model eps O -> c1 <> RtoC 0 ->
  exists r d : C, poly_solve (RoundRAo eps O) [c0; c1] false = Ok ([r], []) /\
    (Cmod d <= eps)%R /\ (c1 * r + c0 * (RtoC 1 + d))%C = RtoC 0.
Proof. intros eps O c0 c1. exact (linear_root_backward_error_lemma eps O c0 c1). Qed.
Check linear_root_backward_error : forall (eps : R) (O : RoundOps) (c0 c1 : C),
  (0 <= eps)%R -> std_model eps O -> c1 <> RtoC 0 ->
  exists r d : C, poly_solve (RoundRAo eps O) [c0; c1] false = Ok ([r], []) /\
    (Cmod d <= eps)%R /\ (c1 * r + c0 * (RtoC 1 + d))%C = RtoC 0.
Print Assumptions linear_root_backward_error.

(* degree 2, residual form: |a x^2 + b x + c| <= 16 eps (|a||x|^2 + |b||x| + |c|) for BOTH returned values, every a <> 0, b, c
   (std_model: relative error eps at EVERY argument = no underflow, no overflow: the class KF-C10-H is outside the hypothesis) *)
Theorem quadratic_residual_bound : forall (eps : R) (O : RoundOps) (a b c : C),
  (0 <= eps <= / 100)%R -> std_model eps O -> a <> RtoC 0 ->
  exists r0 r1 : C, poly_solve (RoundRAo eps O) [c; b; a] false = Ok ([r0; r1], []) /\
    forall x : C, x = r0 \/ x = r1 ->
      (Cmod (a * x * x + b * x + c)%C <= 16 * eps * (Cmod a * Cmod x * Cmod x + Cmod b * Cmod x + Cmod c))%R.
Proof. intros eps O a b c. exact (quadratic_residual_bound_lemma eps O a b c). Qed.
Check quadratic_residual_bound : forall (eps : R) (O : RoundOps) (a b c : C),
  (0 <= eps <= / 100)%R -> std_model eps O -> a <> RtoC 0 ->
  exists r0 r1 : C, poly_solve (RoundRAo eps O) [c; b; a] false = Ok ([r0; r1], []) /\
    forall x : C, x = r0 \/ x = r1 ->
      (Cmod (a * x * x + b * x + c)%C <= 16 * eps * (Cmod a * Cmod x * Cmod x + Cmod b * Cmod x + Cmod c))%R.
Print Assumptions quadratic_residual_bound.

(* the same bound from the LOCAL hypotheses only: [quad_ops_ok eps O a b c] (Proofs/RootsRound.v) says that each of the at most
   twelve rounded operations quadratic_solve performs ON THIS INPUT -- b*b, a*4.0, (4a)*c, the subtraction, sqrt(disc),
   conj(b)*sqrt(disc), sqrt(disc)*sgn, the addition, the scaling by -0.5, q/a and (when q <> 0) c/q -- has normwise relative
   error eps at the arguments that occur; nothing is assumed about any other argument, so an arithmetic with a bounded
   exponent range qualifies on the inputs that stay in range *)
Theorem quadratic_residual_local : forall (eps : R) (O : RoundOps) (a b c : C),
  (0 <= eps <= / 100)%R -> a <> RtoC 0 -> quad_ops_ok eps O a b c ->
  exists r0 r1 : C, poly_solve (RoundRAo eps O) [c; b; a] false = Ok ([r0; r1], []) /\
    forall x : C, x = r0 \/ x = r1 ->
      (Cmod (a * x * x + b * x + c)%C <= 16 * eps * (Cmod a * Cmod x * Cmod x + Cmod b * Cmod x + Cmod c))%R.
Proof. intros eps O a b c. exact (quadratic_residual_local_lemma eps O a b c). Qed.
Check quadratic_residual_local : forall (eps : R) (O : RoundOps) (a b c : C),
  (0 <= eps <= / 100)%R -> a <> RtoC 0 -> quad_ops_ok eps O a b c ->
  exists r0 r1 : C, poly_solve (RoundRAo eps O) [c; b; a] false = Ok ([r0; r1], []) /\
    forall x : C, x = r0 \/ x = r1 ->
      (Cmod (a * x * x + b * x + c)%C <= 16 * eps * (Cmod a * Cmod x * Cmod x + Cmod b * Cmod x + Cmod c))%R.
Print Assumptions quadratic_residual_local.
Example quadratic_residual_local_nonvacuous :
  (0 <= / 1024 <= / 100)%R /\ RtoC 1 <> RtoC 0 /\ quad_ops_ok (/ 1024) (pert_ops (/ 1024)) (RtoC 1) (RtoC (-5)) (RtoC 2).
Proof. exact quad_ops_ok_nonvacuous. Qed.
(* strictly more general than the global form: [sat_ops e] = the perturbing arithmetic whose products of modulus > 1000 "overflow"
   (0 is returned) is NOT an instance of std_model, yet on x^2 - 5x + 2 every operation performed stays in range *)
Example quadratic_residual_local_bounded_range_nonvacuous :
  let e := (/ 1024)%R in
  (0 <= e <= / 100)%R /\ RtoC 1 <> RtoC 0 /\ ~ std_model e (sat_ops e) /\ quad_ops_ok e (sat_ops e) (RtoC 1) (RtoC (-5)) (RtoC 2).
Proof. exact sat_ops_ok_lemma. Qed.

(* ... and the backward form from the same local hypotheses: if none of the operations performed on (a, b, c) leaves the range in
   which it has relative error eps, each returned value is an exact root of a quadratic within 16 eps, coefficient by coefficient *)
Theorem quadratic_backward_error_local : forall (eps : R) (O : RoundOps) (a b c : C),
  (0 <= eps <= / 100)%R -> a <> RtoC 0 -> quad_ops_ok eps O a b c ->
  exists r0 r1 : C, poly_solve (RoundRAo eps O) [c; b; a] false = Ok ([r0; r1], []) /\
    forall x : C, x = r0 \/ x = r1 ->
      exists da db dc : C,
        (Cmod da <= 16 * eps * Cmod a)%R /\ (Cmod db <= 16 * eps * Cmod b)%R /\ (Cmod dc <= 16 * eps * Cmod c)%R /\
        ((a + da) * x * x + (b + db) * x + (c + dc))%C = RtoC 0.
Proof. intros eps O a b c. exact (quadratic_backward_local_lemma eps O a b c). Qed.
Check quadratic_backward_error_local : forall (eps : R) (O : RoundOps) (a b c : C),
  (0 <= eps <= / 100)%R -> a <> RtoC 0 -> quad_ops_ok eps O a b c ->
  exists r0 r1 : C, poly_solve (RoundRAo eps O) [c; b; a] false = Ok ([r0; r1], []) /\
    forall x : C, x = r0 \/ x = r1 ->
      exists da db dc : C,
        (Cmod da <= 16 * eps * Cmod a)%R /\ (Cmod db <= 16 * eps * Cmod b)%R /\ (Cmod dc <= 16 * eps * Cmod c)%R /\
        ((a + da) * x * x + (b + db) * x + (c + dc))%C = RtoC 0.
Print Assumptions quadratic_backward_error_local.
(* non-vacuity: quadratic_residual_local_nonvacuous, quadratic_residual_local_bounded_range_nonvacuous above *)

(* ... and both returned values at once (the statement of quadratic_simultaneous_backward_error below) from the local hypotheses *)
Theorem quadratic_simultaneous_backward_error_local : forall (eps : R) (O : RoundOps) (a b c : C),
  (0 <= eps <= / 100)%R -> a <> RtoC 0 -> quad_ops_ok eps O a b c ->
  exists r0 r1 db dc : C, poly_solve (RoundRAo eps O) [c; b; a] false = Ok ([r0; r1], []) /\
    (forall x : C, (a * x * x + (b + db) * x + (c + dc))%C = (a * (x - r0) * (x - r1))%C) /\
    (Cmod dc <= (2 * eps + eps * eps) * Cmod c)%R /\
    (Cmod db * Cmod db <= (16 * eps) * (16 * eps) * (Cmod b * Cmod b + 4 * (Cmod a * Cmod c)))%R.
Proof. intros eps O a b c. exact (quadratic_simultaneous_local_lemma eps O a b c). Qed.
Check quadratic_simultaneous_backward_error_local : forall (eps : R) (O : RoundOps) (a b c : C),
  (0 <= eps <= / 100)%R -> a <> RtoC 0 -> quad_ops_ok eps O a b c ->
  exists r0 r1 db dc : C, poly_solve (RoundRAo eps O) [c; b; a] false = Ok ([r0; r1], []) /\
    (forall x : C, (a * x * x + (b + db) * x + (c + dc))%C = (a * (x - r0) * (x - r1))%C) /\
    (Cmod dc <= (2 * eps + eps * eps) * Cmod c)%R /\
    (Cmod db * Cmod db <= (16 * eps) * (16 * eps) * (Cmod b * Cmod b + 4 * (Cmod a * Cmod c)))%R.
Print Assumptions quadratic_simultaneous_backward_error_local.

(* the hypothesis is what excludes the range failures KF-C10-H: [flush_ops e] = the perturbing arithmetic whose Complex::sqrt returns 0
   for arguments of modulus <= 1 (the real Complex::sqrt does so below 1e-162, where re^2 + im^2 underflows).  On (x^2 - 3x + 2)/10
   (discriminant 0.01) quad_ops_ok FAILS -- 0 is within eps of no square root of a non-zero number --, the model returns
   -b/2a (1+e)^3 = 1.5 (1+e)^3 as on the real code for 1e-85 (x-1)(x-2), and the bound of quadratic_residual_local is violated *)
Example quadratic_hypotheses_exclude_KF_C10_H_example :
  let e := (/ 4096)%R in let a := RtoC (/ 10) in let b := RtoC (-3 / 10) in let c := RtoC (2 / 10) in
  ~ quad_ops_ok e (flush_ops e) a b c /\
  exists r0 r1 : C, poly_solve (RoundRAo e (flush_ops e)) [c; b; a] false = Ok ([r0; r1], []) /\
    ~ (Cmod (a * r0 * r0 + b * r0 + c)%C <= 16 * e * (Cmod a * Cmod r0 * Cmod r0 + Cmod b * Cmod r0 + Cmod c))%R.
Proof. exact flush_excluded_4096. Qed.

(* degree 2, backward form: each returned value is an EXACT root of a quadratic whose three coefficients are within 16 eps,
   relatively and componentwise (the perturbation depends on the root) *)
Theorem quadratic_backward_error : forall (eps : R) (O : RoundOps) (a b c : C),
  (0 <= eps <= / 100)%R -> std_model eps O -> a <> RtoC 0 ->
  exists r0 r1 : C, poly_solve (RoundRAo eps O) [c; b; a] false = Ok ([r0; r1], []) /\
    forall x : C, x = r0 \/ x = r1 ->
      exists da db dc : C,
        (Cmod da <= 16 * eps * Cmod a)%R /\ (Cmod db <= 16 * eps * Cmod b)%R /\ (Cmod dc <= 16 * eps * Cmod c)%R /\
        ((a + da) * x * x + (b + db) * x + (c + dc))%C = RtoC 0.
Proof. intros eps O a b c. exact (quadratic_backward_error_lemma eps O a b c). Qed.
Check quadratic_backward_error : forall (eps : R) (O : RoundOps) (a b c : C),
  (0 <= eps <= / 100)%R -> std_model eps O -> a <> RtoC 0 ->
  exists r0 r1 : C, poly_solve (RoundRAo eps O) [c; b; a] false = Ok ([r0; r1], []) /\
    forall x : C, x = r0 \/ x = r1 ->
      exists da db dc : C,
        (Cmod da <= 16 * eps * Cmod a)%R /\ (Cmod db <= 16 * eps * Cmod b)%R /\ (Cmod dc <= 16 * eps * Cmod c)%R /\
        ((a + da) * x * x + (b + db) * x + (c + dc))%C = RtoC 0.
Print Assumptions quadratic_backward_error.

(* degree 2, BOTH returned values at once: they are the two roots of a x^2 + (b + db) x + (c + dc) (a unperturbed) with
   |dc| <= (2 eps + eps^2) |c| and |db| <= 16 eps sqrt(|b|^2 + 4|a||c|) -- normwise in the scaling of the quadratic; a bound
   relative to |b| alone is not attainable (quadratic_componentwise_simultaneous_refuted_example below) *)
Theorem quadratic_simultaneous_backward_error : forall (eps : R) (O : RoundOps) (a b c : C),
  (0 <= eps <= / 100)%R -> std_model eps O -> a <> RtoC 0 ->
  exists r0 r1 db dc : C, poly_solve (RoundRAo eps O) [c; b; a] false = Ok ([r0; r1], []) /\
    (forall x : C, (a * x * x + (b + db) * x + (c + dc))%C = (a * (x - r0) * (x - r1))%C) /\
    (Cmod dc <= (2 * eps + eps * eps) * Cmod c)%R /\
    (Cmod db * Cmod db <= (16 * eps) * (16 * eps) * (Cmod b * Cmod b + 4 * (Cmod a * Cmod c)))%R.
Proof. intros eps O a b c. exact (quadratic_simultaneous_backward_lemma eps O a b c). Qed.
Check quadratic_simultaneous_backward_error : forall (eps : R) (O : RoundOps) (a b c : C),
  (0 <= eps <= / 100)%R -> std_model eps O -> a <> RtoC 0 ->
  exists r0 r1 db dc : C, poly_solve (RoundRAo eps O) [c; b; a] false = Ok ([r0; r1], []) /\
    (forall x : C, (a * x * x + (b + db) * x + (c + dc))%C = (a * (x - r0) * (x - r1))%C) /\
    (Cmod dc <= (2 * eps + eps * eps) * Cmod c)%R /\
    (Cmod db * Cmod db <= (16 * eps) * (16 * eps) * (Cmod b * Cmod b + 4 * (Cmod a * Cmod c)))%R.
Print Assumptions quadratic_simultaneous_backward_error.

(* degree 2, in the measure of the failing-input search of driver/c10.py: |p(x)| / (max |a_k| max(1,|x|)^2) <= 48 eps *)
Theorem quadratic_search_measure_bound : forall (eps : R) (O : RoundOps) (a b c : C) (M : R),
  (0 <= eps <= / 100)%R -> std_model eps O -> a <> RtoC 0 -> (Cmod a <= M)%R -> (Cmod b <= M)%R -> (Cmod c <= M)%R ->
  exists r0 r1 : C, poly_solve (RoundRAo eps O) [c; b; a] false = Ok ([r0; r1], []) /\
    forall x : C, x = r0 \/ x = r1 ->
      (Cmod (a * x * x + b * x + c)%C <= 48 * eps * (M * (Rmax 1 (Cmod x) * Rmax 1 (Cmod x))))%R.
Proof. intros eps O a b c M. exact (quadratic_search_measure_bound_lemma eps O a b c M). Qed.
Check quadratic_search_measure_bound : forall (eps : R) (O : RoundOps) (a b c : C) (M : R),
  (0 <= eps <= / 100)%R -> std_model eps O -> a <> RtoC 0 -> (Cmod a <= M)%R -> (Cmod b <= M)%R -> (Cmod c <= M)%R ->
  exists r0 r1 : C, poly_solve (RoundRAo eps O) [c; b; a] false = Ok ([r0; r1], []) /\
    forall x : C, x = r0 \/ x = r1 ->
      (Cmod (a * x * x + b * x + c)%C <= 48 * eps * (M * (Rmax 1 (Cmod x) * Rmax 1 (Cmod x))))%R.
Print Assumptions quadratic_search_measure_bound.

(* the repaired branch `q == zero` in rounded arithmetic: taken if and only if b = c = 0, and then the values returned are
   [0; 0], the exact roots of a x^2; otherwise the product of the two returned values is c / a to within two roundings *)
Theorem quadratic_q0_backward : forall (eps : R) (O : RoundOps) (a b c : C),
  (0 <= eps <= / 100)%R -> std_model eps O -> a <> RtoC 0 ->
  let q := q_q (o_add O) (o_sub O) (o_mul O) (o_scale O) (o_sqrt O) a b c in
  (q = RtoC 0 <-> b = RtoC 0 /\ c = RtoC 0) /\
  (q = RtoC 0 -> poly_solve (RoundRAo eps O) [c; b; a] false = Ok ([RtoC 0; RtoC 0], [])) /\
  (q <> RtoC 0 -> exists r0 r1 d : C, poly_solve (RoundRAo eps O) [c; b; a] false = Ok ([r0; r1], []) /\
                   (Cmod d <= 2 * eps + eps * eps)%R /\ (r0 * r1)%C = (c / a * (RtoC 1 + d))%C).
Proof. intros eps O a b c. exact (quadratic_q0_backward_lemma eps O a b c). Qed.
Check quadratic_q0_backward : forall (eps : R) (O : RoundOps) (a b c : C),
  (0 <= eps <= / 100)%R -> std_model eps O -> a <> RtoC 0 ->
  let q := q_q (o_add O) (o_sub O) (o_mul O) (o_scale O) (o_sqrt O) a b c in
  (q = RtoC 0 <-> b = RtoC 0 /\ c = RtoC 0) /\
  (q = RtoC 0 -> poly_solve (RoundRAo eps O) [c; b; a] false = Ok ([RtoC 0; RtoC 0], [])) /\
  (q <> RtoC 0 -> exists r0 r1 d : C, poly_solve (RoundRAo eps O) [c; b; a] false = Ok ([r0; r1], []) /\
                   (Cmod d <= 2 * eps + eps * eps)%R /\ (r0 * r1)%C = (c / a * (RtoC 1 + d))%C).
Print Assumptions quadratic_q0_backward.
(* non-vacuity of the theorems above: eps = 1/1024 is admissible and [pert_ops (1/1024)] (every rounded operation returns
   the exact result times 1 + 1/1024; Complex::sqrt = the principal square root times 1 + 1/1024) satisfies std_model and is
   really inexact: fl(1 * 1) <> 1 *)
Example quadratic_backward_error_nonvacuous :
  (0 <= / 1024 <= / 100)%R /\ std_model (/ 1024) (pert_ops (/ 1024)) /\ o_mul (pert_ops (/ 1024)) (RtoC 1) (RtoC 1) <> RtoC 1.
Proof. exact pert_nonvacuous. Qed.
(* why the theorems are stated per root: in that arithmetic, on x^2 - 1 (b = 0) the two returned values do not sum to 0, so NO
   quadratic a' x^2 + 0 x + c' with a' <> 0 -- the only ones allowed by |db| <= k eps |b| = 0 -- has both of them as roots *)
Example quadratic_componentwise_simultaneous_refuted_example :
  exists r0 r1 : C, poly_solve (RoundRAo (/ 1024) (pert_ops (/ 1024))) [RtoC (-1); RtoC 0; RtoC 1] false = Ok ([r0; r1], []) /\
    (r0 + r1)%C <> RtoC 0 /\ r0 <> r1 /\
    forall a' c' : C, a' <> RtoC 0 ->
      ~ ((a' * r0 * r0 + RtoC 0 * r0 + c')%C = RtoC 0 /\ (a' * r1 * r1 + RtoC 0 * r1 + c')%C = RtoC 0).
Proof. exact quadratic_componentwise_simultaneous_refuted_1024. Qed.

(* ---- forward error (Proofs/RootsRoundFwd.v).  o_sh O a b c is the value Complex::sqrt returned for the COMPUTED discriminant,
   qdisc a b c = b*b - a*4*c the exact one.  GIVEN an accurate discriminant -- |sh^2 - disc| <= eta |disc|; the discriminant may
   suffer cancellation (b^2 ~ 4ac), then eta is not O(eps) and the hypothesis says so -- both returned values have relative
   error 6 eps + 2 eta with respect to the two exact roots (the textbook result for q = -(b + sgn sqrt(disc))/2, q/a, c/q) *)
Theorem quadratic_forward_error : forall (eps : R) (O : RoundOps) (a b c : C) (eta : R),
  (0 <= eps <= / 100)%R -> std_model eps O -> a <> RtoC 0 -> (0 <= eta <= / 6)%R ->
  (Cmod (o_sh O a b c * o_sh O a b c - qdisc a b c)%C <= eta * Cmod (qdisc a b c))%R ->
  exists r0 r1 x0 x1 : C, poly_solve (RoundRAo eps O) [c; b; a] false = Ok ([r0; r1], []) /\
    (forall x : C, (a * x * x + b * x + c)%C = (a * (x - x0) * (x - x1))%C) /\
    (Cmod (r0 - x0)%C <= (6 * eps + 2 * eta) * Cmod x0)%R /\ (Cmod (r1 - x1)%C <= (6 * eps + 2 * eta) * Cmod x1)%R.
Proof. intros eps O a b c eta. exact (quadratic_forward_lemma eps O a b c eta). Qed.
Check quadratic_forward_error : forall (eps : R) (O : RoundOps) (a b c : C) (eta : R),
  (0 <= eps <= / 100)%R -> std_model eps O -> a <> RtoC 0 -> (0 <= eta <= / 6)%R ->
  (Cmod (o_sh O a b c * o_sh O a b c - qdisc a b c)%C <= eta * Cmod (qdisc a b c))%R ->
  exists r0 r1 x0 x1 : C, poly_solve (RoundRAo eps O) [c; b; a] false = Ok ([r0; r1], []) /\
    (forall x : C, (a * x * x + b * x + c)%C = (a * (x - x0) * (x - x1))%C) /\
    (Cmod (r0 - x0)%C <= (6 * eps + 2 * eta) * Cmod x0)%R /\ (Cmod (r1 - x1)%C <= (6 * eps + 2 * eta) * Cmod x1)%R.
Print Assumptions quadratic_forward_error.
Example quadratic_forward_error_nonvacuous :
  (0 <= / 1024 <= / 100)%R /\ std_model (/ 1024) (pert_ops (/ 1024)) /\ RtoC 1 <> RtoC 0 /\ (0 <= 15.33 * / 1024 <= / 6)%R /\
  disc_accurate (pert_ops (/ 1024)) (RtoC 1) (RtoC (-5)) (RtoC 2) (15.33 * / 1024).
Proof. exact forward_nonvacuous. Qed.

(* the hypothesis discharged in general: with kD >= (|b|^2 + 4|a||c|) / |b^2 - 4ac|, the condition number of the discriminant (large
   near a double root), the computed discriminant is accurate to 5.11 eps kD, hence -- no hypothesis left but 5.11 eps kD <= 1/6 --
   both returned values have relative error (6 + 10.22 kD) eps: the conditioning statement of the textbook *)
Theorem quadratic_forward_error_conditioned : forall (eps : R) (O : RoundOps) (a b c : C) (kD : R),
  (0 <= eps <= / 100)%R -> std_model eps O -> a <> RtoC 0 -> (0 <= kD)%R ->
  (Cmod b * Cmod b + 4 * (Cmod a * Cmod c) <= kD * Cmod (qdisc a b c))%R -> (5.11 * eps * kD <= / 6)%R ->
  exists r0 r1 x0 x1 : C, poly_solve (RoundRAo eps O) [c; b; a] false = Ok ([r0; r1], []) /\
    (forall x : C, (a * x * x + b * x + c)%C = (a * (x - x0) * (x - x1))%C) /\
    (Cmod (r0 - x0)%C <= (6 + 10.22 * kD) * eps * Cmod x0)%R /\ (Cmod (r1 - x1)%C <= (6 + 10.22 * kD) * eps * Cmod x1)%R.
Proof. intros eps O a b c kD. exact (quadratic_forward_conditioned_lemma eps O a b c kD). Qed.
Check quadratic_forward_error_conditioned : forall (eps : R) (O : RoundOps) (a b c : C) (kD : R),
  (0 <= eps <= / 100)%R -> std_model eps O -> a <> RtoC 0 -> (0 <= kD)%R ->
  (Cmod b * Cmod b + 4 * (Cmod a * Cmod c) <= kD * Cmod (qdisc a b c))%R -> (5.11 * eps * kD <= / 6)%R ->
  exists r0 r1 x0 x1 : C, poly_solve (RoundRAo eps O) [c; b; a] false = Ok ([r0; r1], []) /\
    (forall x : C, (a * x * x + b * x + c)%C = (a * (x - x0) * (x - x1))%C) /\
    (Cmod (r0 - x0)%C <= (6 + 10.22 * kD) * eps * Cmod x0)%R /\ (Cmod (r1 - x1)%C <= (6 + 10.22 * kD) * eps * Cmod x1)%R.
Print Assumptions quadratic_forward_error_conditioned.
(* non-vacuity: quadratic_forward_error_dominant_nonvacuous below (kD = 3) *)

(* the same from the LOCAL hypotheses (quad_ops_ok: no operation performed on (a, b, c) leaves the range in which it has relative
   error eps -- for binary64: no underflow, no overflow on this input; KF-C10-H excluded) *)
Theorem quadratic_forward_error_conditioned_local : forall (eps : R) (O : RoundOps) (a b c : C) (kD : R),
  (0 <= eps <= / 100)%R -> a <> RtoC 0 -> quad_ops_ok eps O a b c -> (0 <= kD)%R ->
  (Cmod b * Cmod b + 4 * (Cmod a * Cmod c) <= kD * Cmod (qdisc a b c))%R -> (5.11 * eps * kD <= / 6)%R ->
  exists r0 r1 x0 x1 : C, poly_solve (RoundRAo eps O) [c; b; a] false = Ok ([r0; r1], []) /\
    (forall x : C, (a * x * x + b * x + c)%C = (a * (x - x0) * (x - x1))%C) /\
    (Cmod (r0 - x0)%C <= (6 + 10.22 * kD) * eps * Cmod x0)%R /\ (Cmod (r1 - x1)%C <= (6 + 10.22 * kD) * eps * Cmod x1)%R.
Proof. intros eps O a b c kD. exact (quadratic_forward_conditioned_local_lemma eps O a b c kD). Qed.
Check quadratic_forward_error_conditioned_local : forall (eps : R) (O : RoundOps) (a b c : C) (kD : R),
  (0 <= eps <= / 100)%R -> a <> RtoC 0 -> quad_ops_ok eps O a b c -> (0 <= kD)%R ->
  (Cmod b * Cmod b + 4 * (Cmod a * Cmod c) <= kD * Cmod (qdisc a b c))%R -> (5.11 * eps * kD <= / 6)%R ->
  exists r0 r1 x0 x1 : C, poly_solve (RoundRAo eps O) [c; b; a] false = Ok ([r0; r1], []) /\
    (forall x : C, (a * x * x + b * x + c)%C = (a * (x - x0) * (x - x1))%C) /\
    (Cmod (r0 - x0)%C <= (6 + 10.22 * kD) * eps * Cmod x0)%R /\ (Cmod (r1 - x1)%C <= (6 + 10.22 * kD) * eps * Cmod x1)%R.
Print Assumptions quadratic_forward_error_conditioned_local.
(* non-vacuity: quadratic_residual_local_bounded_range_nonvacuous above (x^2 - 5x + 2: kD = 3) *)

(* the discriminant IS accurate, with no hypothesis, when one of b^2, 4ac dominates the other by a factor 2 ... *)
Theorem disc_accurate_dominant : forall (eps : R) (O : RoundOps) (a b c : C),
  (0 <= eps <= / 100)%R -> std_model eps O ->
  (8 * (Cmod a * Cmod c) <= Cmod b * Cmod b)%R \/ (2 * (Cmod b * Cmod b) <= 4 * (Cmod a * Cmod c))%R ->
  (Cmod (o_sh O a b c * o_sh O a b c - qdisc a b c)%C <= 15.33 * eps * Cmod (qdisc a b c))%R.
Proof. intros eps O a b c. exact (disc_accurate_dominant_lemma eps O a b c). Qed.
Check disc_accurate_dominant : forall (eps : R) (O : RoundOps) (a b c : C),
  (0 <= eps <= / 100)%R -> std_model eps O ->
  (8 * (Cmod a * Cmod c) <= Cmod b * Cmod b)%R \/ (2 * (Cmod b * Cmod b) <= 4 * (Cmod a * Cmod c))%R ->
  (Cmod (o_sh O a b c * o_sh O a b c - qdisc a b c)%C <= 15.33 * eps * Cmod (qdisc a b c))%R.
Print Assumptions disc_accurate_dominant.

(* ... and then both returned values have relative error 37 eps, unconditionally *)
Theorem quadratic_forward_error_dominant : forall (eps : R) (O : RoundOps) (a b c : C),
  (0 <= eps <= / 100)%R -> std_model eps O -> a <> RtoC 0 ->
  (8 * (Cmod a * Cmod c) <= Cmod b * Cmod b)%R \/ (2 * (Cmod b * Cmod b) <= 4 * (Cmod a * Cmod c))%R ->
  exists r0 r1 x0 x1 : C, poly_solve (RoundRAo eps O) [c; b; a] false = Ok ([r0; r1], []) /\
    (forall x : C, (a * x * x + b * x + c)%C = (a * (x - x0) * (x - x1))%C) /\
    (Cmod (r0 - x0)%C <= 37 * eps * Cmod x0)%R /\ (Cmod (r1 - x1)%C <= 37 * eps * Cmod x1)%R.
Proof. intros eps O a b c. exact (quadratic_forward_dominant_lemma eps O a b c). Qed.
Check quadratic_forward_error_dominant : forall (eps : R) (O : RoundOps) (a b c : C),
  (0 <= eps <= / 100)%R -> std_model eps O -> a <> RtoC 0 ->
  (8 * (Cmod a * Cmod c) <= Cmod b * Cmod b)%R \/ (2 * (Cmod b * Cmod b) <= 4 * (Cmod a * Cmod c))%R ->
  exists r0 r1 x0 x1 : C, poly_solve (RoundRAo eps O) [c; b; a] false = Ok ([r0; r1], []) /\
    (forall x : C, (a * x * x + b * x + c)%C = (a * (x - x0) * (x - x1))%C) /\
    (Cmod (r0 - x0)%C <= 37 * eps * Cmod x0)%R /\ (Cmod (r1 - x1)%C <= 37 * eps * Cmod x1)%R.
Print Assumptions quadratic_forward_error_dominant.
(* x^2 - 5x + 2 in the perturbing arithmetic: b^2 = 25 >= 16 = 8|a||c| *)
Example quadratic_forward_error_dominant_nonvacuous :
  RtoC 1 <> RtoC 0 /\ (8 * (Cmod (RtoC 1) * Cmod (RtoC 2)) <= Cmod (RtoC (-5)) * Cmod (RtoC (-5)))%R.
Proof. exact forward_dominant_nonvacuous. Qed.

(* ---- degree 3 (std_model again: no underflow / overflow -- KF-C10-H excluded), the triple-root branch only (Proofs/RootsRoundCubic.v): when the COMPUTED d0 = fl(b^2 - 3ac) and
   d1 = fl(2b^3 - 9abc + 27a^2 d) are both zero ([c_d0], [c_d1]: every operation rounded) cubic_solve returns three copies of
   r = fl(-b / fl(3a)) and r has a small residual, although the cubic need not be a perfect cube.  The Cardano branch -- where the
   recorded class KF-C10-F lives -- is not covered. *)
Theorem cubic_triple_branch_residual : forall (eps : R) (O : RoundOps) (a b c d : C),
  (0 <= eps <= / 100)%R -> std_model eps O -> a <> RtoC 0 -> c_d0 O a b c = RtoC 0 -> c_d1 O a b c d = RtoC 0 ->
  cubic_solve (RoundRAo eps O) a b c d = Ok [c_r O a b; c_r O a b; c_r O a b] /\
  (Cmod (a * c_r O a b * c_r O a b * c_r O a b + b * c_r O a b * c_r O a b + c * c_r O a b + d)%C
   <= 16 * eps * (Cmod a * Cmod (c_r O a b) * Cmod (c_r O a b) * Cmod (c_r O a b)
                  + Cmod b * Cmod (c_r O a b) * Cmod (c_r O a b) + Cmod c * Cmod (c_r O a b) + Cmod d))%R.
Proof. intros eps O a b c d. exact (cubic_triple_branch_lemma eps O a b c d). Qed.
Check cubic_triple_branch_residual : forall (eps : R) (O : RoundOps) (a b c d : C),
  (0 <= eps <= / 100)%R -> std_model eps O -> a <> RtoC 0 -> c_d0 O a b c = RtoC 0 -> c_d1 O a b c d = RtoC 0 ->
  cubic_solve (RoundRAo eps O) a b c d = Ok [c_r O a b; c_r O a b; c_r O a b] /\
  (Cmod (a * c_r O a b * c_r O a b * c_r O a b + b * c_r O a b * c_r O a b + c * c_r O a b + d)%C
   <= 16 * eps * (Cmod a * Cmod (c_r O a b) * Cmod (c_r O a b) * Cmod (c_r O a b)
                  + Cmod b * Cmod (c_r O a b) * Cmod (c_r O a b) + Cmod c * Cmod (c_r O a b) + Cmod d))%R.
Print Assumptions cubic_triple_branch_residual.
(* x^3 - 3x^2 + (3/f) x + (2f - 3), f = 1 + 1/1024, in the perturbing arithmetic: computed d0 = d1 = 0, the value 1 is returned,
   and it is NOT a root (the cubic is not a perfect cube) *)
Example cubic_triple_branch_residual_nonvacuous :
  let e := (/ 1024)%R in let f := (1 + e)%R in
  let a := RtoC 1 in let b := RtoC (-3) in let c := RtoC (3 / f) in let d := RtoC (2 * f - 3) in
  (0 <= e <= / 100)%R /\ std_model e (pert_ops e) /\ a <> RtoC 0 /\
  c_d0 (pert_ops e) a b c = RtoC 0 /\ c_d1 (pert_ops e) a b c d = RtoC 0 /\
  c_r (pert_ops e) a b = RtoC 1 /\ cval a b c d (RtoC 1) <> RtoC 0.
Proof. exact cubic_triple_branch_nonvacuous_lemma. Qed.

(* ---- degree 3, the CARDANO branch, AWAY from the recorded class KF-C10-F (Proofs/RootsRoundCardano.v).  Both mechanisms of
   KF-C10-F are hypotheses here, and that is the point of the statement:
     (1) accuracy: the value k^ the code obtains from Complex::pow (c_khat: computed from the EXPANDED discriminant, the libm
         sqrt and pow) is within eps of an exact Cardano cube root k (cardano_eq: k^3 is a root of K^2 - d1 K + d0^3), the
         constant u^ the code builds from sqrt(3)/2 is within eps of a primitive cube root of unity u, the computed d0 within
         eps of b^2 - 3ac  -- fails near a multiple root (cancellation in dis / d0), where KF-C10-F records root errors ~1e-3;
     (2) no cancellation in the final sums: |b| + |w| + |d0/w| <= kap |b + w + d0/w| for w = k, u k, u^2 k  -- fails for roots
         of very different size (the second mechanism of KF-C10-F); kap is the condition number that multiplies the bound.
   Then the three returned values are within relative distance 12 kap eps of the three exact roots -(b + w + d0/w)/(3a) ... *)
Theorem cubic_cardano_forward_error : forall (eps : R) (O : RoundOps) (a b c d k u : C) (kap : R),
  (0 <= eps <= / 100)%R -> std_model eps O -> a <> RtoC 0 ->
  ~ (c_d0 O a b c = RtoC 0 /\ c_d1 O a b c d = RtoC 0) ->
  k <> RtoC 0 -> cardano_eq a b c d k -> (u * u + u + RtoC 1)%C = RtoC 0 ->
  relc eps (c_khat eps O a b c d) k -> relc eps (c_uhat O) u -> relc eps (c_d0 O a b c) (d0x a b c) ->
  (forall w : C, w = k \/ w = (u * k)%C \/ w = (u * u * k)%C ->
     (Cmod b + Cmod w + Cmod (d0x a b c / w)%C <= kap * Cmod (b + w + d0x a b c / w)%C)%R) ->
  exists r0 r1 r2 : C, cubic_solve (RoundRAo eps O) a b c d = Ok [r0; r1; r2] /\
    cval a b c d (cardano_val a b c k) = RtoC 0 /\ cval a b c d (cardano_val a b c (u * k)%C) = RtoC 0 /\
    cval a b c d (cardano_val a b c (u * u * k)%C) = RtoC 0 /\
    (Cmod (r0 - cardano_val a b c k)%C <= kap * (12 * eps) * Cmod (cardano_val a b c k))%R /\
    (Cmod (r1 - cardano_val a b c (u * k)%C)%C <= kap * (12 * eps) * Cmod (cardano_val a b c (u * k)%C))%R /\
    (Cmod (r2 - cardano_val a b c (u * u * k)%C)%C <= kap * (12 * eps) * Cmod (cardano_val a b c (u * u * k)%C))%R.
Proof. intros eps O a b c d k u kap. exact (cubic_cardano_forward_lemma eps O a b c d k u kap). Qed.
Check cubic_cardano_forward_error : forall (eps : R) (O : RoundOps) (a b c d k u : C) (kap : R),
  (0 <= eps <= / 100)%R -> std_model eps O -> a <> RtoC 0 ->
  ~ (c_d0 O a b c = RtoC 0 /\ c_d1 O a b c d = RtoC 0) ->
  k <> RtoC 0 -> cardano_eq a b c d k -> (u * u + u + RtoC 1)%C = RtoC 0 ->
  relc eps (c_khat eps O a b c d) k -> relc eps (c_uhat O) u -> relc eps (c_d0 O a b c) (d0x a b c) ->
  (forall w : C, w = k \/ w = (u * k)%C \/ w = (u * u * k)%C ->
     (Cmod b + Cmod w + Cmod (d0x a b c / w)%C <= kap * Cmod (b + w + d0x a b c / w)%C)%R) ->
  exists r0 r1 r2 : C, cubic_solve (RoundRAo eps O) a b c d = Ok [r0; r1; r2] /\
    cval a b c d (cardano_val a b c k) = RtoC 0 /\ cval a b c d (cardano_val a b c (u * k)%C) = RtoC 0 /\
    cval a b c d (cardano_val a b c (u * u * k)%C) = RtoC 0 /\
    (Cmod (r0 - cardano_val a b c k)%C <= kap * (12 * eps) * Cmod (cardano_val a b c k))%R /\
    (Cmod (r1 - cardano_val a b c (u * k)%C)%C <= kap * (12 * eps) * Cmod (cardano_val a b c (u * k)%C))%R /\
    (Cmod (r2 - cardano_val a b c (u * u * k)%C)%C <= kap * (12 * eps) * Cmod (cardano_val a b c (u * u * k)%C))%R.
Print Assumptions cubic_cardano_forward_error.

(* ... and have residual |p(x)| <= 60 kap eps (|a||x|^3 + |b||x|^2 + |c||x| + |d|) *)
Theorem cubic_cardano_residual : forall (eps : R) (O : RoundOps) (a b c d k u : C) (kap : R),
  (0 <= eps <= / 100)%R -> std_model eps O -> a <> RtoC 0 ->
  ~ (c_d0 O a b c = RtoC 0 /\ c_d1 O a b c d = RtoC 0) ->
  k <> RtoC 0 -> cardano_eq a b c d k -> (u * u + u + RtoC 1)%C = RtoC 0 ->
  relc eps (c_khat eps O a b c d) k -> relc eps (c_uhat O) u -> relc eps (c_d0 O a b c) (d0x a b c) ->
  (forall w : C, w = k \/ w = (u * k)%C \/ w = (u * u * k)%C ->
     (Cmod b + Cmod w + Cmod (d0x a b c / w)%C <= kap * Cmod (b + w + d0x a b c / w)%C)%R) ->
  (0 <= kap)%R -> (kap * (12 * eps) <= / 10)%R ->
  exists r0 r1 r2 : C, cubic_solve (RoundRAo eps O) a b c d = Ok [r0; r1; r2] /\
    forall x : C, x = r0 \/ x = r1 \/ x = r2 -> (Cmod (cval a b c d x) <= 60 * kap * eps * csize a b c d x)%R.
Proof. intros eps O a b c d k u kap. exact (cubic_cardano_residual_lemma eps O a b c d k u kap). Qed.
Check cubic_cardano_residual : forall (eps : R) (O : RoundOps) (a b c d k u : C) (kap : R),
  (0 <= eps <= / 100)%R -> std_model eps O -> a <> RtoC 0 ->
  ~ (c_d0 O a b c = RtoC 0 /\ c_d1 O a b c d = RtoC 0) ->
  k <> RtoC 0 -> cardano_eq a b c d k -> (u * u + u + RtoC 1)%C = RtoC 0 ->
  relc eps (c_khat eps O a b c d) k -> relc eps (c_uhat O) u -> relc eps (c_d0 O a b c) (d0x a b c) ->
  (forall w : C, w = k \/ w = (u * k)%C \/ w = (u * u * k)%C ->
     (Cmod b + Cmod w + Cmod (d0x a b c / w)%C <= kap * Cmod (b + w + d0x a b c / w)%C)%R) ->
  (0 <= kap)%R -> (kap * (12 * eps) <= / 10)%R ->
  exists r0 r1 r2 : C, cubic_solve (RoundRAo eps O) a b c d = Ok [r0; r1; r2] /\
    forall x : C, x = r0 \/ x = r1 \/ x = r2 -> (Cmod (cval a b c d x) <= 60 * kap * eps * csize a b c d x)%R.
Print Assumptions cubic_cardano_residual.
(* x^3 - 1 in the perturbing arithmetic with pow returning the exact Cardano cube root -3 (pow is an oracle of the model; its
   accuracy is hypothesis (1)): every hypothesis holds with kap = 1, and the first exact root is 1 *)
Example cubic_cardano_residual_nonvacuous :
  let e := (/ 1024)%R in let O := cardano_ops e in
  let a := RtoC 1 in let b := RtoC 0 in let c := RtoC 0 in let d := RtoC (-1) in
  let k := RtoC (-3) in let u : C := (Ropp (/ 2), (R_sqrt.sqrt 3 / 2)%R) in
  (0 <= e <= / 100)%R /\ std_model e O /\ a <> RtoC 0 /\ ~ (c_d0 O a b c = RtoC 0 /\ c_d1 O a b c d = RtoC 0) /\
  k <> RtoC 0 /\ cardano_eq a b c d k /\ (u * u + u + RtoC 1)%C = RtoC 0 /\
  relc e (c_khat e O a b c d) k /\ relc e (c_uhat O) u /\ relc e (c_d0 O a b c) (d0x a b c) /\
  (forall w : C, w = k \/ w = (u * k)%C \/ w = (u * u * k)%C ->
     (Cmod b + Cmod w + Cmod (d0x a b c / w)%C <= 1 * Cmod (b + w + d0x a b c / w)%C)%R) /\
  (0 <= 1)%R /\ (1 * (12 * e) <= / 10)%R /\ cardano_val a b c k = RtoC 1.
Proof. exact cardano_nonvacuous_lemma. Qed.

(* ---- an instance of std_model that REALLY ROUNDS (unbounded exponent range: no underflow, no overflow), built from the model's own
   complex operators (Proofs/RootsRoundFlx.v):
   [flx_ops fsqrt] = cadd / csub / cmul / cdiv / cmul_r of Model/Complex.v (the formulas of src/complex/mod.rs) over the
   arithmetic AFlx of Proofs/RoundFlx.v (every real operation rounded to nearest-even at 53 bits, unbounded exponent; ux = 2^-53),
   through the normwise bounds of Proofs/ComplexRound.v:  eps_flx = (3/2) kappa(2u + u^2) <= 8 ux  (the quotient is the worst
   operator).  Complex::sqrt is libm-backed: it stays a function fsqrt with relative error eps_flx w.r.t. some square root. *)
Theorem flx_std_model : forall fsqrt : C -> C,
  (forall z : C, exists w : C, (w * w)%C = z /\ (Cmod (fsqrt z - w)%C <= eps_flx * Cmod w)%R) ->
  (0 <= eps_flx <= / 100)%R /\ (eps_flx <= 8 * ux)%R /\ std_model eps_flx (flx_ops fsqrt).
Proof. intros fsqrt. exact (flx_std_model_lemma fsqrt). Qed.
Check flx_std_model : forall fsqrt : C -> C,
  (forall z : C, exists w : C, (w * w)%C = z /\ (Cmod (fsqrt z - w)%C <= eps_flx * Cmod w)%R) ->
  (0 <= eps_flx <= / 100)%R /\ (eps_flx <= 8 * ux)%R /\ std_model eps_flx (flx_ops fsqrt).
Print Assumptions flx_std_model.

(* hence, for the model's quadratic_solve over the model's complex operators over correctly rounded reals:
   |a x^2 + b x + c| <= 128 * 2^-53 * (|a||x|^2 + |b||x| + |c|) for both returned values, every a <> 0, b, c *)
Theorem quadratic_residual_flx : forall (fsqrt : C -> C) (a b c : C),
  (forall z : C, exists w : C, (w * w)%C = z /\ (Cmod (fsqrt z - w)%C <= eps_flx * Cmod w)%R) -> a <> RtoC 0 ->
  exists r0 r1 : C, poly_solve (RoundRAo eps_flx (flx_ops fsqrt)) [c; b; a] false = Ok ([r0; r1], []) /\
    forall x : C, x = r0 \/ x = r1 ->
      (Cmod (a * x * x + b * x + c)%C <= 128 * ux * (Cmod a * Cmod x * Cmod x + Cmod b * Cmod x + Cmod c))%R.
Proof. intros fsqrt a b c. exact (quadratic_residual_flx_lemma fsqrt a b c). Qed.
Check quadratic_residual_flx : forall (fsqrt : C -> C) (a b c : C),
  (forall z : C, exists w : C, (w * w)%C = z /\ (Cmod (fsqrt z - w)%C <= eps_flx * Cmod w)%R) -> a <> RtoC 0 ->
  exists r0 r1 : C, poly_solve (RoundRAo eps_flx (flx_ops fsqrt)) [c; b; a] false = Ok ([r0; r1], []) /\
    forall x : C, x = r0 \/ x = r1 ->
      (Cmod (a * x * x + b * x + c)%C <= 128 * ux * (Cmod a * Cmod x * Cmod x + Cmod b * Cmod x + Cmod c))%R.
Print Assumptions quadratic_residual_flx.
(* the exact principal square root is an admissible fsqrt, and the arithmetic really rounds: fl((1 + 0i) * (1/3)) <> 1/3 *)
Example quadratic_residual_flx_nonvacuous :
  (forall z : C, exists w : C, (w * w)%C = z /\ (Cmod (Csqrt z - w)%C <= eps_flx * Cmod w)%R) /\ RtoC 1 <> RtoC 0 /\
  flx_scale (RtoC 1) (1 / 3)%R <> (RtoC 1 * RtoC (1 / 3)%R)%C.
Proof. exact flx_nonvacuous. Qed.
