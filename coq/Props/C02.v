(* Props/C02.v -- stub, to be filled in *)
