(* Props/C02.v -- property theorems only: Theorem / exact lemma / Check (pins the statement) / Print Assumptions.
   C02: determinant and inverse agree with exact linear algebra.
   Notions (Proofs/LUPrim.v): ent m i j = the (i,j) entry of the flat buffer; shape m r c = wf m /\ rows m = r /\ cols m = c;
   mprod n X Y r c = sum_{k<n} X r k * Y k c; unit_lower / upper = the two triangular parts of the in-place LU buffer;
   perm_by_swaps n piv P sw = P is the identity with its rows exchanged by the piv genuine transpositions sw.
   PivLaws (abs x = 0 <-> x = 0, x <> 0 -> 0 < |x|, not |x| < 0) is an auxiliary hypothesis the code genuinely needs: the skip of a
   zero pivot column is decided by Signed::abs and PartialOrd::gt (with abs = const 0 the code's LU is not a factorisation). *)
From Coq Require Import List Arith.
From OV Require Import Base.Panic Base.Arith Inst.QcInst Model.Vector Model.Matrix Model.Solve
  Proofs.Matrix Proofs.LUPrim Proofs.LUSum Proofs.LU Proofs.LUQc.
Import ListNotations.

Theorem lu_spec : forall (A : Arith), FieldLaws A -> PivLaws A -> forall M : matrix A, wf M -> rows M = cols M ->
  exists LU piv P sw, lu_decomp M = Ok (LU, piv, P) /\
    shape LU (rows M) (rows M) /\ shape P (rows M) (rows M) /\ perm_by_swaps (rows M) piv P sw /\
    forall r c, r < rows M -> c < rows M ->
      mprod (rows M) (ent P) (ent M) r c = mprod (rows M) (unit_lower LU) (upper LU) r c.
Proof. intros A FL PL M. exact (lu_spec_lemma FL PL M). Qed.
Check lu_spec : forall (A : Arith), FieldLaws A -> PivLaws A -> forall M : matrix A, wf M -> rows M = cols M ->
  exists LU piv P sw, lu_decomp M = Ok (LU, piv, P) /\
    shape LU (rows M) (rows M) /\ shape P (rows M) (rows M) /\ perm_by_swaps (rows M) piv P sw /\
    forall r c, r < rows M -> c < rows M ->
      mprod (rows M) (ent P) (ent M) r c = mprod (rows M) (unit_lower LU) (upper LU) r c.
Print Assumptions lu_spec.
(* non-vacuity: the laws hold at Qc and a 3x3 rational matrix with a zero leading entry meets the hypotheses and needs two exchanges *)
Example lu_spec_nonvacuous : PivLaws AQ /\ wf M3 /\ rows M3 = cols M3 /\ exists LU P, lu_decomp M3 = Ok (LU, 2, P).
Proof. split; [exact AQ_PivLaws|]. split; [reflexivity|]. split; [reflexivity|]. eexists; eexists. vm_compute. reflexivity. Qed.
