(* Props/C02.v -- property theorems only: Theorem / exact lemma / Check (pins the statement) / Print Assumptions.
   C02: determinant and inverse agree with exact linear algebra.
   Notions (Proofs/LUPrim.v): ent m i j = the (i,j) entry of the flat buffer; shape m r c = wf m /\ rows m = r /\ cols m = c;
   mprod n X Y r c = sum_{k<n} X r k * Y k c; unit_lower / upper = the two triangular parts of the in-place LU buffer;
   perm_by_swaps n piv P sw = P is the identity with its rows exchanged by the piv genuine transpositions sw.
   PivLaws (abs x = 0 <-> x = 0, x <> 0 -> 0 < |x|, not |x| < 0) is an auxiliary hypothesis the code genuinely needs: the skip of a
   zero pivot column is decided by Signed::abs and PartialOrd::gt (with abs = const 0 the code's LU is not a factorisation). *)
From Coq Require Import List Arith.
From OV Require Import Base.Panic Base.Arith Inst.QcInst Model.Vector Model.Matrix Model.Solve
  Proofs.Matrix Proofs.LUPrim Proofs.LUSum Proofs.LU Proofs.LUSolve Proofs.LUInv Proofs.LUQc.
Import ListNotations.

Theorem lu_spec : forall (A : Arith), FieldLaws A -> PivLaws A -> forall M : matrix A, wf M -> rows M = cols M ->
  exists LU piv P sw, lu_decomp M = Ok (LU, piv, P) /\
    shape LU (rows M) (rows M) /\ shape P (rows M) (rows M) /\ perm_by_swaps (rows M) piv P sw /\
    forall r c, r < rows M -> c < rows M ->
      mprod (rows M) (ent P) (ent M) r c = mprod (rows M) (unit_lower LU) (upper LU) r c.
Proof. intros A FL PL M. exact (lu_spec_lemma FL PL M). Qed.
Check lu_spec : forall (A : Arith), FieldLaws A -> PivLaws A -> forall M : matrix A, wf M -> rows M = cols M ->
  exists LU piv P sw, lu_decomp M = Ok (LU, piv, P) /\
    shape LU (rows M) (rows M) /\ shape P (rows M) (rows M) /\ perm_by_swaps (rows M) piv P sw /\
    forall r c, r < rows M -> c < rows M ->
      mprod (rows M) (ent P) (ent M) r c = mprod (rows M) (unit_lower LU) (upper LU) r c.
Print Assumptions lu_spec.
(* non-vacuity: the laws hold at Qc and a 3x3 rational matrix with a zero leading entry meets the hypotheses and needs two exchanges *)
Example lu_spec_nonvacuous : PivLaws AQ /\ wf M3 /\ rows M3 = cols M3 /\ exists LU P, lu_decomp M3 = Ok (LU, 2, P).
Proof. split; [exact AQ_PivLaws|]. split; [reflexivity|]. split; [reflexivity|]. eexists; eexists. vm_compute. reflexivity. Qed.

(* inverse: whatever it returns is a right inverse (a zero pivot makes the code panic on the exact types: then there is no N).
   The left-inverse half (inverse_two_sided) is in Bridge (mathcomp, mulmx1C). *)
Theorem inverse_right : forall (A : Arith), FieldLaws A -> PivLaws A -> forall M N : matrix A, wf M -> rows M = cols M ->
  inverse M = Ok N ->
  shape N (rows M) (rows M) /\
  forall i j, i < rows M -> j < rows M -> mprod (rows M) (ent M) (ent N) i j = delta i j.
Proof. intros A FL PL M N. exact (inverse_right_lemma FL PL M N). Qed.
Check inverse_right : forall (A : Arith), FieldLaws A -> PivLaws A -> forall M N : matrix A, wf M -> rows M = cols M ->
  inverse M = Ok N ->
  shape N (rows M) (rows M) /\
  forall i j, i < rows M -> j < rows M -> mprod (rows M) (ent M) (ent N) i j = delta i j.
Print Assumptions inverse_right.
Example inverse_right_nonvacuous : wf M3 /\ rows M3 = cols M3 /\ exists N, inverse M3 = Ok N.
Proof. split; [reflexivity|]. split; [reflexivity|]. eexists. vm_compute. reflexivity. Qed.

(* the LU half of C01 (pinned in Props/C01.v by the coordinator): solve_lu is sound *)
Theorem solve_lu_sound_c02 : forall (A : Arith), FieldLaws A -> PivLaws A -> forall (M : matrix A) (b x : list A),
  wf M -> rows M = cols M -> length b = rows M -> solve_lu M b = Ok x ->
  length x = rows M /\
  forall i, i < rows M -> mvprod (rows M) (ent M) (fun k => nth k x zero) i = nth i b zero.
Proof. intros A FL PL M b x. exact (solve_lu_sound_lemma FL PL M b x). Qed.
Check solve_lu_sound_c02 : forall (A : Arith), FieldLaws A -> PivLaws A -> forall (M : matrix A) (b x : list A),
  wf M -> rows M = cols M -> length b = rows M -> solve_lu M b = Ok x ->
  length x = rows M /\
  forall i, i < rows M -> mvprod (rows M) (ent M) (fun k => nth k x zero) i = nth i b zero.
Print Assumptions solve_lu_sound_c02.
Example solve_lu_sound_nonvacuous : wf M3 /\ rows M3 = cols M3 /\ exists x, solve_lu M3 b3 = Ok x.
Proof. split; [reflexivity|]. split; [reflexivity|]. eexists. vm_compute. reflexivity. Qed.
