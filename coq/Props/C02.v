(* Props/C02.v -- property theorems only: Theorem / exact lemma / Check (pins the statement) / Print Assumptions.
   C02: determinant and inverse agree with exact linear algebra; matrix left intact.

   Notions (Proofs/LUPrim.v): ent m i j = the (i,j) entry of the flat row-major buffer; shape m r c = wf m /\ rows m = r /\ cols m = c;
   mprod n X Y r c = sum_{k<n} X r k * Y k c; mvprod n X v r = sum_{k<n} X r k * v k; delta i j = 1 if i = j else 0;
   unit_lower / upper = the two triangular parts of the in-place LU buffer; perm_by_swaps n piv P sw = P is the identity with its rows
   exchanged by the piv genuine (a <> b) transpositions sw; tabulate n n f (Proofs/LUTab.v) = the matrix with entries f i j as the
   code stores it (every wf matrix is the tabulation of its entries: tabulate_ent_id).

   Hypotheses.  FieldLaws A (Base/Arith.v): field_theory for A's operations, eqb decides equality, div x y = Panic DivZero when y = 0
   and x * y^-1 otherwise (what the exact Rust types do).  PivLaws A (Proofs/LUPrim.v) -- an auxiliary hypothesis the code genuinely
   needs, absent from DESIGN Appendix E:
       pl_abs0 : abs x = zero <-> x = zero      pl_pos : x <> zero -> ltb zero (abs x) = true      pl_nneg : ltb (abs x) zero = false
   i.e. Signed::abs and PartialOrd::lt behave like a magnitude.  lu_decomp_in_place decides "skip this column" by `max_a == 0` where
   max_a is the running maximum of |a_ki| under the strict test |a| > max_a; with a degenerate abs (say abs = const 0) every column
   is skipped and P*M <> L*U, so no theorem below holds under FieldLaws alone.  Both records are PROVED, not assumed, for the
   arithmetics the code is used at: Qc (AQ_FieldLaws in Inst/QcInst.v, AQ_PivLaws in Proofs/LUQc.v -- the instance the exact tier of
   the correspondence check runs against the Rust Rat), R with Rabs and < (AR_FieldLaws, AR_PivLaws in Proofs/LUReal.v), C = R[i]
   with the code's Signed::abs = (|z|, 0) and its lexicographic PartialOrd (CR_FieldLaws, CR_PivLaws, same file), and every mathcomp
   numFieldType instance such as rat (rat_PivLaws in Bridge/Det.v).  See the Examples `laws_hold_at_*` below.

   "Matrix left intact".  determinant and inverse take &self and work on a clone; in the value model they are functions
   matrix -> res T / matrix -> res matrix that return no modified operand, so the statement is true by typing and there is nothing to
   prove about the model.  What can go wrong in Rust (an &self method writing through interior mutability or unsafe) is observed at
   run time: the executor snapshots the operand before determinant()/inverse() and compares it bit for bit afterwards (kinds mat.det,
   mat.inverse in harness/src/k_matrix.rs; a difference is reported as a violation of C02).

   Floating point.  The theorems are exact-arithmetic statements about the same Gallina functions whose float instances (AF, ACF)
   are compared with the implementation; rounding accuracy of det/inverse over f64/Complex<f64> is tied and searched, not proved. *)
From Coq Require Import List Arith.
From OV Require Import Base.Panic Base.Arith Inst.QcInst Model.Vector Model.Matrix Model.Solve
  Proofs.Matrix Proofs.LUPrim Proofs.LUSum Proofs.LU Proofs.LUSolve Proofs.LUInv Proofs.LUInvC Proofs.LUPanic Proofs.LUSolveC Proofs.LUKernel Proofs.LUQc Proofs.LUQcEx Proofs.LUReal Legacy.C02Refuted.
Import ListNotations.

Theorem lu_spec : forall (A : Arith), FieldLaws A -> PivLaws A -> forall M : matrix A, wf M -> rows M = cols M ->
  exists LU piv P sw, lu_decomp M = Ok (LU, piv, P) /\
    shape LU (rows M) (rows M) /\ shape P (rows M) (rows M) /\ perm_by_swaps (rows M) piv P sw /\
    forall r c, r < rows M -> c < rows M ->
      mprod (rows M) (ent P) (ent M) r c = mprod (rows M) (unit_lower LU) (upper LU) r c.
Proof. intros A FL PL M. exact (lu_spec_lemma FL PL M). Qed.
Check lu_spec : forall (A : Arith), FieldLaws A -> PivLaws A -> forall M : matrix A, wf M -> rows M = cols M ->
  exists LU piv P sw, lu_decomp M = Ok (LU, piv, P) /\
    shape LU (rows M) (rows M) /\ shape P (rows M) (rows M) /\ perm_by_swaps (rows M) piv P sw /\
    forall r c, r < rows M -> c < rows M ->
      mprod (rows M) (ent P) (ent M) r c = mprod (rows M) (unit_lower LU) (upper LU) r c.
Print Assumptions lu_spec.
(* non-vacuity: the laws hold at Qc and a 3x3 rational matrix with a zero leading entry meets the hypotheses and needs two exchanges *)
Example lu_spec_nonvacuous : PivLaws AQ /\ wf M3 /\ rows M3 = cols M3 /\
  (match lu_decomp M3 with Ok (_, piv, _) => piv =? 2 | Panic _ => false end) = true.
Proof. split; [exact AQ_PivLaws|]. split; [reflexivity|]. split; [reflexivity|]. vm_compute. reflexivity. Qed.

(* inverse: whatever it returns is a right inverse (a zero pivot makes the code panic on the exact types: then there is no N).
   The left-inverse half (inverse_two_sided) is in Bridge (mathcomp, mulmx1C). *)
Theorem inverse_right : forall (A : Arith), FieldLaws A -> PivLaws A -> forall M N : matrix A, wf M -> rows M = cols M ->
  inverse M = Ok N ->
  shape N (rows M) (rows M) /\
  forall i j, i < rows M -> j < rows M -> mprod (rows M) (ent M) (ent N) i j = delta i j.
Proof. intros A FL PL M N. exact (inverse_right_lemma FL PL M N). Qed.
Check inverse_right : forall (A : Arith), FieldLaws A -> PivLaws A -> forall M N : matrix A, wf M -> rows M = cols M ->
  inverse M = Ok N ->
  shape N (rows M) (rows M) /\
  forall i j, i < rows M -> j < rows M -> mprod (rows M) (ent M) (ent N) i j = delta i j.
Print Assumptions inverse_right.
Example inverse_right_nonvacuous : wf M3 /\ rows M3 = cols M3 /\ is_ok (inverse M3) = true.
Proof. split; [reflexivity|]. split; [reflexivity|]. vm_compute. reflexivity. Qed.

(* the LU half of C01 (pinned in Props/C01.v by the coordinator): solve_lu is sound *)
Theorem solve_lu_sound_c02 : forall (A : Arith), FieldLaws A -> PivLaws A -> forall (M : matrix A) (b x : list A),
  wf M -> rows M = cols M -> length b = rows M -> solve_lu M b = Ok x ->
  length x = rows M /\
  forall i, i < rows M -> mvprod (rows M) (ent M) (fun k => nth k x zero) i = nth i b zero.
Proof. intros A FL PL M b x. exact (solve_lu_sound_lemma FL PL M b x). Qed.
Check solve_lu_sound_c02 : forall (A : Arith), FieldLaws A -> PivLaws A -> forall (M : matrix A) (b x : list A),
  wf M -> rows M = cols M -> length b = rows M -> solve_lu M b = Ok x ->
  length x = rows M /\
  forall i, i < rows M -> mvprod (rows M) (ent M) (fun k => nth k x zero) i = nth i b zero.
Print Assumptions solve_lu_sound_c02.
Example solve_lu_sound_nonvacuous : wf M3 /\ rows M3 = cols M3 /\ length b3 = rows M3 /\ is_ok (solve_lu M3 b3) = true.
Proof. split; [reflexivity|]. split; [reflexivity|]. split; [reflexivity|]. vm_compute. reflexivity. Qed.

(* determinant: total on square matrices; its value is (+/-) the product of U's diagonal, the sign being the parity of the number
   of row exchanges `piv` that produced the permutation (sign rule); inverse is decided by the code's own determinant. *)
Theorem determinant_sign_rule : forall (A : Arith), FieldLaws A -> PivLaws A -> forall (M : matrix A) (n : nat), shape M n n ->
  exists LU piv P sw, lu_decomp M = Ok (LU, piv, P) /\ shape LU n n /\ shape P n n /\
    perm_by_swaps n piv P sw /\
    (forall r c, r < n -> c < n -> ent M (perm_of sw r) c = mprod n (unit_lower LU) (upper LU) r c) /\
    determinant M = Ok (if Nat.even piv then prod_n n (fun i => ent LU i i)
                        else neg (prod_n n (fun i => ent LU i i))).
Proof. intros A FL PL M n. exact (determinant_eq FL PL M n). Qed.
Check determinant_sign_rule : forall (A : Arith), FieldLaws A -> PivLaws A -> forall (M : matrix A) (n : nat), shape M n n ->
  exists LU piv P sw, lu_decomp M = Ok (LU, piv, P) /\ shape LU n n /\ shape P n n /\
    perm_by_swaps n piv P sw /\
    (forall r c, r < n -> c < n -> ent M (perm_of sw r) c = mprod n (unit_lower LU) (upper LU) r c) /\
    determinant M = Ok (if Nat.even piv then prod_n n (fun i => ent LU i i)
                        else neg (prod_n n (fun i => ent LU i i))).
Print Assumptions determinant_sign_rule.

Theorem determinant_total : forall (A : Arith), FieldLaws A -> PivLaws A -> forall (M : matrix A), wf M -> rows M = cols M ->
  exists d, determinant M = Ok d.
Proof. intros A FL PL M. exact (determinant_total_lemma FL PL M). Qed.
Check determinant_total : forall (A : Arith), FieldLaws A -> PivLaws A -> forall (M : matrix A), wf M -> rows M = cols M ->
  exists d, determinant M = Ok d.
Print Assumptions determinant_total.

Theorem inverse_result : forall (A : Arith), FieldLaws A -> PivLaws A -> forall (M : matrix A) (d : A), wf M -> rows M = cols M -> 1 <= rows M ->
  determinant M = Ok d ->
  (d = zero -> inverse M = Panic DivZero) /\ (d <> zero -> exists N, inverse M = Ok N).
Proof. intros A FL PL M d. exact (inverse_result_lemma FL PL M d). Qed.
Check inverse_result : forall (A : Arith), FieldLaws A -> PivLaws A -> forall (M : matrix A) (d : A), wf M -> rows M = cols M -> 1 <= rows M ->
  determinant M = Ok d ->
  (d = zero -> inverse M = Panic DivZero) /\ (d <> zero -> exists N, inverse M = Ok N).
Print Assumptions inverse_result.
Example inverse_result_nonvacuous : wf M3 /\ rows M3 = cols M3 /\ 1 <= rows M3 /\ is_ok (determinant M3) = true.
Proof. split; [reflexivity|]. split; [reflexivity|]. split; [repeat constructor|]. vm_compute. reflexivity. Qed.

(* C02's inverse half for EVERY nonsingular matrix (nonsingular = has a left inverse Nf) over any field with a magnitude -- Qc, R, C
   included, no mathcomp: inverse returns, the result is Nf, and it is a two-sided inverse; the determinant is a nonzero value. *)
Theorem inverse_nonsingular : forall (A : Arith), FieldLaws A -> PivLaws A -> forall (M : matrix A) (Nf : nat -> nat -> A), wf M -> rows M = cols M ->
  left_inverse (rows M) Nf (ent M) ->
  exists N, inverse M = Ok N /\ shape N (rows M) (rows M) /\
    (forall i j, i < rows M -> j < rows M -> ent N i j = Nf i j) /\
    (forall i j, i < rows M -> j < rows M -> mprod (rows M) (ent M) (ent N) i j = delta i j) /\
    (forall i j, i < rows M -> j < rows M -> mprod (rows M) (ent N) (ent M) i j = delta i j).
Proof. intros A FL PL M Nf. exact (inverse_nonsingular_lemma FL PL M Nf). Qed.
Check inverse_nonsingular : forall (A : Arith), FieldLaws A -> PivLaws A -> forall (M : matrix A) (Nf : nat -> nat -> A), wf M -> rows M = cols M ->
  left_inverse (rows M) Nf (ent M) ->
  exists N, inverse M = Ok N /\ shape N (rows M) (rows M) /\
    (forall i j, i < rows M -> j < rows M -> ent N i j = Nf i j) /\
    (forall i j, i < rows M -> j < rows M -> mprod (rows M) (ent M) (ent N) i j = delta i j) /\
    (forall i j, i < rows M -> j < rows M -> mprod (rows M) (ent N) (ent M) i j = delta i j).
Print Assumptions inverse_nonsingular.
Example inverse_nonsingular_nonvacuous : wf M3 /\ rows M3 = cols M3 /\ left_inverse (rows M3) (ent N3) (ent M3).
Proof. split; [reflexivity|]. split; [reflexivity|]. exact M3_left_inverse. Qed.

Theorem determinant_nonsingular : forall (A : Arith), FieldLaws A -> PivLaws A -> forall (M : matrix A) (Nf : nat -> nat -> A), wf M -> rows M = cols M ->
  left_inverse (rows M) Nf (ent M) -> exists d, determinant M = Ok d /\ d <> zero.
Proof. intros A FL PL M Nf. exact (determinant_nonsingular_lemma FL PL M Nf). Qed.
Check determinant_nonsingular : forall (A : Arith), FieldLaws A -> PivLaws A -> forall (M : matrix A) (Nf : nat -> nat -> A), wf M -> rows M = cols M ->
  left_inverse (rows M) Nf (ent M) -> exists d, determinant M = Ok d /\ d <> zero.
Print Assumptions determinant_nonsingular.

Theorem solve_lu_complete_field_c02 : forall (A : Arith), FieldLaws A -> PivLaws A -> forall (M : matrix A) (b : list A) (Nf : nat -> nat -> A),
  wf M -> rows M = cols M -> 1 <= rows M -> length b = rows M -> left_inverse (rows M) Nf (ent M) ->
  exists x, solve_lu M b = Ok x.
Proof. intros A FL PL M b Nf. exact (solve_lu_nonsingular_lemma FL PL M b Nf). Qed.
Check solve_lu_complete_field_c02 : forall (A : Arith), FieldLaws A -> PivLaws A -> forall (M : matrix A) (b : list A) (Nf : nat -> nat -> A),
  wf M -> rows M = cols M -> 1 <= rows M -> length b = rows M -> left_inverse (rows M) Nf (ent M) ->
  exists x, solve_lu M b = Ok x.
Print Assumptions solve_lu_complete_field_c02.

Theorem determinant_singular_zero_field : forall (A : Arith), FieldLaws A -> PivLaws A -> forall (M : matrix A), wf M -> rows M = cols M ->
  ~ (exists Nf : nat -> nat -> A, forall i j, i < rows M -> j < rows M -> mprod (rows M) (ent M) Nf i j = delta i j) ->
  determinant M = Ok zero.
Proof. intros A FL PL M. exact (determinant_singular_field_lemma FL PL M). Qed.
Check determinant_singular_zero_field : forall (A : Arith), FieldLaws A -> PivLaws A -> forall (M : matrix A), wf M -> rows M = cols M ->
  ~ (exists Nf : nat -> nat -> A, forall i j, i < rows M -> j < rows M -> mprod (rows M) (ent M) Nf i j = delta i j) ->
  determinant M = Ok zero.
Print Assumptions determinant_singular_zero_field.
Example determinant_singular_zero_field_nonvacuous : (* the all-ones witness of the repaired defect: the pre-repair code panics there *)
  wf ones3 /\ rows ones3 = cols ones3 /\
  ~ (exists Nf : nat -> nat -> AQ, forall i j, i < rows ones3 -> j < rows ones3 -> mprod (rows ones3) (ent ones3) Nf i j = delta i j).
Proof. split; [reflexivity|]. split; [reflexivity|]. exact ones3_no_right_inverse. Qed.

(* the hypotheses are met by the arithmetics the code is used at (proved instances, not assumptions) *)
Example laws_hold_at_Qc : PivLaws AQ.  Proof. exact AQ_PivLaws. Qed.
Example field_laws_at_Qc : FieldLaws AQ := AQ_FieldLaws.
Example laws_hold_at_R : PivLaws AR.  Proof. exact AR_PivLaws. Qed.
Example field_laws_at_R : FieldLaws AR := AR_FieldLaws.
Example laws_hold_at_C : PivLaws CR.  Proof. exact CR_PivLaws. Qed.
Example field_laws_at_C : FieldLaws CR := CR_FieldLaws.

(* ---------- the mathcomp half (Bridge/Det.v, Bridge/Inv.v): the model's determinant IS \det ---------- *)
(* For every mathcomp fieldType F (mathcomp's rat included) with any abs/ltb meeting PivLaws, the arithmetic ArithOf F abs ltb leb
   (div x y = Panic DivZero when y == 0, else x / y) inherits FieldLaws, and the code's determinant of the matrix with entries f i j
   is mathcomp's \det -- for EVERY square matrix: hence the sign rule under any number of exchanges, multiplicativity, and the value 0
   on singular input are mathcomp's theorems about \det (det_perm, det_mulmx, det0P).  tabulate n n f is the flat row-major buffer
   the code stores (Proofs/LUTab.v: every wf matrix is tabulate of its entries). *)
From OV Require Import Proofs.LUTab Bridge.Det Bridge.Inv Bridge.DetCor Bridge.InvCor Legacy.C02Refuted.
From mathcomp Require Import all_ssreflect all_algebra.
Local Open Scope ring_scope.

Theorem determinant_is_det : forall (F : fieldType) (abs : F -> F) (ltb leb : F -> F -> bool),
  PivLaws (ArithOf F abs ltb leb) -> forall (n : nat) (f : nat -> nat -> F),
  @Solve.determinant (ArithOf F abs ltb leb) (@tabulate (ArithOf F abs ltb leb) n n f) = Ok (\det (\matrix_(i < n, j < n) f i j)).
Proof. intros F abs ltb leb PL n f. exact (determinant_is_det_lemma PL n f). Qed.
Check determinant_is_det : forall (F : fieldType) (abs : F -> F) (ltb leb : F -> F -> bool),
  PivLaws (ArithOf F abs ltb leb) -> forall (n : nat) (f : nat -> nat -> F),
  @Solve.determinant (ArithOf F abs ltb leb) (@tabulate (ArithOf F abs ltb leb) n n f) = Ok (\det (\matrix_(i < n, j < n) f i j)).
Print Assumptions determinant_is_det.
Example determinant_is_det_nonvacuous : PivLaws ratArith.
Proof. exact rat_PivLaws. Qed.

Theorem inverse_two_sided : forall (F : fieldType) (abs : F -> F) (ltb leb : F -> F -> bool),
  PivLaws (ArithOf F abs ltb leb) -> forall M N : Matrix.matrix (ArithOf F abs ltb leb),
  wf M -> rows M = cols M -> @Solve.inverse (ArithOf F abs ltb leb) M = Ok N ->
  @LUPrim.shape (ArithOf F abs ltb leb) N (rows M) (rows M) /\
  (forall i j, (i < rows M)%coq_nat -> (j < rows M)%coq_nat ->
     @mprod (ArithOf F abs ltb leb) (rows M) (@ent _ M) (@ent _ N) i j = @delta (ArithOf F abs ltb leb) i j) /\
  (forall i j, (i < rows M)%coq_nat -> (j < rows M)%coq_nat ->
     @mprod (ArithOf F abs ltb leb) (rows M) (@ent _ N) (@ent _ M) i j = @delta (ArithOf F abs ltb leb) i j).
Proof. intros F abs ltb leb PL M N. exact (inverse_two_sided_lemma PL (M:=M) (N:=N)). Qed.
Check inverse_two_sided : forall (F : fieldType) (abs : F -> F) (ltb leb : F -> F -> bool),
  PivLaws (ArithOf F abs ltb leb) -> forall M N : Matrix.matrix (ArithOf F abs ltb leb),
  wf M -> rows M = cols M -> @Solve.inverse (ArithOf F abs ltb leb) M = Ok N ->
  @LUPrim.shape (ArithOf F abs ltb leb) N (rows M) (rows M) /\
  (forall i j, (i < rows M)%coq_nat -> (j < rows M)%coq_nat ->
     @mprod (ArithOf F abs ltb leb) (rows M) (@ent _ M) (@ent _ N) i j = @delta (ArithOf F abs ltb leb) i j) /\
  (forall i j, (i < rows M)%coq_nat -> (j < rows M)%coq_nat ->
     @mprod (ArithOf F abs ltb leb) (rows M) (@ent _ N) (@ent _ M) i j = @delta (ArithOf F abs ltb leb) i j).
Print Assumptions inverse_two_sided.
Example inverse_two_sided_nonvacuous : PivLaws ratArith /\ wf R2 /\ rows R2 = cols R2 /\ is_ok (@Solve.inverse ratArith R2) = true.
Proof. split; [exact rat_PivLaws|]. split; [reflexivity|]. split; [reflexivity|]. vm_compute. reflexivity. Qed.

(* completeness: every nonsingular matrix HAS an inverse according to the code (no pivot is zero), and it is two-sided *)
Theorem inverse_complete : forall (F : fieldType) (abs : F -> F) (ltb leb : F -> F -> bool),
  PivLaws (ArithOf F abs ltb leb) -> forall (n : nat) (f : nat -> nat -> F),
  \det (\matrix_(i < n, j < n) f i j) != 0 ->
  exists N : Matrix.matrix (ArithOf F abs ltb leb), @Solve.inverse (ArithOf F abs ltb leb) (@tabulate (ArithOf F abs ltb leb) n n f) = Ok N /\
    @LUPrim.shape (ArithOf F abs ltb leb) N n n /\
    (forall i j, (i < n)%coq_nat -> (j < n)%coq_nat -> @mprod (ArithOf F abs ltb leb) n f (@ent _ N) i j = @delta (ArithOf F abs ltb leb) i j) /\
    (forall i j, (i < n)%coq_nat -> (j < n)%coq_nat -> @mprod (ArithOf F abs ltb leb) n (@ent _ N) f i j = @delta (ArithOf F abs ltb leb) i j).
Proof. intros F abs ltb leb PL n f. exact (inverse_complete_bridge PL (n:=n) (f:=f)). Qed.
Check inverse_complete : forall (F : fieldType) (abs : F -> F) (ltb leb : F -> F -> bool),
  PivLaws (ArithOf F abs ltb leb) -> forall (n : nat) (f : nat -> nat -> F),
  \det (\matrix_(i < n, j < n) f i j) != 0 ->
  exists N : Matrix.matrix (ArithOf F abs ltb leb), @Solve.inverse (ArithOf F abs ltb leb) (@tabulate (ArithOf F abs ltb leb) n n f) = Ok N /\
    @LUPrim.shape (ArithOf F abs ltb leb) N n n /\
    (forall i j, (i < n)%coq_nat -> (j < n)%coq_nat -> @mprod (ArithOf F abs ltb leb) n f (@ent _ N) i j = @delta (ArithOf F abs ltb leb) i j) /\
    (forall i j, (i < n)%coq_nat -> (j < n)%coq_nat -> @mprod (ArithOf F abs ltb leb) n (@ent _ N) f i j = @delta (ArithOf F abs ltb leb) i j).
Print Assumptions inverse_complete.
Example inverse_complete_nonvacuous : PivLaws ratArith /\ \det (\matrix_(i < 3, j < 3) (if Nat.eqb i j then 1 else 0 : rat)) != 0.
Proof. split; [exact rat_PivLaws | exact (det_id_neq0 rat_fieldType 3)]. Qed.

(* the three halves of the property text that follow from determinant = \det, stated about the code's determinant *)
Theorem determinant_singular_zero : forall (F : fieldType) (abs : F -> F) (ltb leb : F -> F -> bool),
  PivLaws (ArithOf F abs ltb leb) -> forall (n : nat) (f : nat -> nat -> F) (v : nat -> F),
  (exists i, (i < n)%coq_nat /\ v i <> 0) ->
  (forall j, (j < n)%coq_nat -> @sum_n (ArithOf F abs ltb leb) n (fun i => v i * f i j) = 0) ->
  @Solve.determinant (ArithOf F abs ltb leb) (@tabulate (ArithOf F abs ltb leb) n n f) = Ok (0 : F).
Proof. intros F abs ltb leb PL n f v. exact (determinant_singular_zero_lemma PL (n:=n) (f:=f) (v:=v)). Qed.
Check determinant_singular_zero : forall (F : fieldType) (abs : F -> F) (ltb leb : F -> F -> bool),
  PivLaws (ArithOf F abs ltb leb) -> forall (n : nat) (f : nat -> nat -> F) (v : nat -> F),
  (exists i, (i < n)%coq_nat /\ v i <> 0) ->
  (forall j, (j < n)%coq_nat -> @sum_n (ArithOf F abs ltb leb) n (fun i => v i * f i j) = 0) ->
  @Solve.determinant (ArithOf F abs ltb leb) (@tabulate (ArithOf F abs ltb leb) n n f) = Ok (0 : F).
Print Assumptions determinant_singular_zero.
Example determinant_singular_zero_nonvacuous : (* all-ones 3x3: the witness of the repaired defect; v = (1,-1,0) *)
  (exists i, (i < 3)%coq_nat /\ (fun i => if Nat.eqb i 0 then 1 else if Nat.eqb i 1 then -1 else 0 : rat) i <> 0) /\
  (forall j, (j < 3)%coq_nat -> @sum_n ratArith 3 (fun i => (if Nat.eqb i 0 then 1 else if Nat.eqb i 1 then -1 else 0 : rat) * 1) = 0).
Proof. split; [exists 0%N; split; [repeat constructor | discriminate] | intros j _; vm_compute; reflexivity]. Qed.

Theorem determinant_row_swap : forall (F : fieldType) (abs : F -> F) (ltb leb : F -> F -> bool),
  PivLaws (ArithOf F abs ltb leb) -> forall (n : nat) (f : nat -> nat -> F) (a b : nat) (d : F),
  (a < n)%coq_nat -> (b < n)%coq_nat -> a <> b ->
  @Solve.determinant (ArithOf F abs ltb leb) (@tabulate (ArithOf F abs ltb leb) n n f) = Ok d ->
  @Solve.determinant (ArithOf F abs ltb leb) (@tabulate (ArithOf F abs ltb leb) n n (fun i j => f (tr a b i) j)) = Ok (- d).
Proof. intros F abs ltb leb PL n f a b d. exact (determinant_row_swap_lemma PL (n:=n) (f:=f) (a:=a) (b:=b) (d:=d)). Qed.
Check determinant_row_swap : forall (F : fieldType) (abs : F -> F) (ltb leb : F -> F -> bool),
  PivLaws (ArithOf F abs ltb leb) -> forall (n : nat) (f : nat -> nat -> F) (a b : nat) (d : F),
  (a < n)%coq_nat -> (b < n)%coq_nat -> a <> b ->
  @Solve.determinant (ArithOf F abs ltb leb) (@tabulate (ArithOf F abs ltb leb) n n f) = Ok d ->
  @Solve.determinant (ArithOf F abs ltb leb) (@tabulate (ArithOf F abs ltb leb) n n (fun i j => f (tr a b i) j)) = Ok (- d).
Print Assumptions determinant_row_swap.

Theorem determinant_mul : forall (F : fieldType) (abs : F -> F) (ltb leb : F -> F -> bool),
  PivLaws (ArithOf F abs ltb leb) -> forall (n : nat) (f g : nat -> nat -> F) (df dg : F),
  @Solve.determinant (ArithOf F abs ltb leb) (@tabulate (ArithOf F abs ltb leb) n n f) = Ok df ->
  @Solve.determinant (ArithOf F abs ltb leb) (@tabulate (ArithOf F abs ltb leb) n n g) = Ok dg ->
  @Solve.determinant (ArithOf F abs ltb leb) (@tabulate (ArithOf F abs ltb leb) n n (@mprod (ArithOf F abs ltb leb) n f g)) = Ok (df * dg).
Proof. intros F abs ltb leb PL n f g df dg. exact (determinant_mul_lemma PL (n:=n) (f:=f) (g:=g) (df:=df) (dg:=dg)). Qed.
Check determinant_mul : forall (F : fieldType) (abs : F -> F) (ltb leb : F -> F -> bool),
  PivLaws (ArithOf F abs ltb leb) -> forall (n : nat) (f g : nat -> nat -> F) (df dg : F),
  @Solve.determinant (ArithOf F abs ltb leb) (@tabulate (ArithOf F abs ltb leb) n n f) = Ok df ->
  @Solve.determinant (ArithOf F abs ltb leb) (@tabulate (ArithOf F abs ltb leb) n n g) = Ok dg ->
  @Solve.determinant (ArithOf F abs ltb leb) (@tabulate (ArithOf F abs ltb leb) n n (@mprod (ArithOf F abs ltb leb) n f g)) = Ok (df * dg).
Print Assumptions determinant_mul.
(* determinant_row_swap / determinant_mul: their determinant hypotheses always hold (determinant_is_det: the code's determinant
   returns a value on every square matrix), so they are not vacuous; Legacy/C02Refuted.v (determinant_legacy_refuted) shows the
   pre-repair code violates determinant_singular_zero on the all-ones matrix. *)

(* the inverse the code returns is THE inverse; it returns exactly on nonsingular input and panics (DivZero) exactly on singular input *)
Theorem inverse_unique : forall (F : fieldType) (abs : F -> F) (ltb leb : F -> F -> bool),
  PivLaws (ArithOf F abs ltb leb) -> forall (M N : Matrix.matrix (ArithOf F abs ltb leb)) (N'f : nat -> nat -> F),
  wf M -> rows M = cols M -> @Solve.inverse (ArithOf F abs ltb leb) M = Ok N ->
  (forall i j, (i < rows M)%coq_nat -> (j < rows M)%coq_nat -> @mprod (ArithOf F abs ltb leb) (rows M) (@ent _ M) N'f i j = @delta (ArithOf F abs ltb leb) i j) ->
  forall i j, (i < rows M)%coq_nat -> (j < rows M)%coq_nat -> N'f i j = @ent (ArithOf F abs ltb leb) N i j.
Proof. intros F abs ltb leb PL M N N'f. exact (inverse_unique_lemma PL (M:=M) (N:=N) (N'f:=N'f)). Qed.
Check inverse_unique : forall (F : fieldType) (abs : F -> F) (ltb leb : F -> F -> bool),
  PivLaws (ArithOf F abs ltb leb) -> forall (M N : Matrix.matrix (ArithOf F abs ltb leb)) (N'f : nat -> nat -> F),
  wf M -> rows M = cols M -> @Solve.inverse (ArithOf F abs ltb leb) M = Ok N ->
  (forall i j, (i < rows M)%coq_nat -> (j < rows M)%coq_nat -> @mprod (ArithOf F abs ltb leb) (rows M) (@ent _ M) N'f i j = @delta (ArithOf F abs ltb leb) i j) ->
  forall i j, (i < rows M)%coq_nat -> (j < rows M)%coq_nat -> N'f i j = @ent (ArithOf F abs ltb leb) N i j.
Print Assumptions inverse_unique.

Theorem inverse_returns_iff_nonsingular : forall (F : fieldType) (abs : F -> F) (ltb leb : F -> F -> bool),
  PivLaws (ArithOf F abs ltb leb) -> forall (n : nat) (f : nat -> nat -> F),
  (exists N, @Solve.inverse (ArithOf F abs ltb leb) (@tabulate (ArithOf F abs ltb leb) n n f) = Ok N) <-> \det (\matrix_(i < n, j < n) f i j) != 0.
Proof. intros F abs ltb leb PL n f. exact (inverse_ok_iff PL n f). Qed.
Check inverse_returns_iff_nonsingular : forall (F : fieldType) (abs : F -> F) (ltb leb : F -> F -> bool),
  PivLaws (ArithOf F abs ltb leb) -> forall (n : nat) (f : nat -> nat -> F),
  (exists N, @Solve.inverse (ArithOf F abs ltb leb) (@tabulate (ArithOf F abs ltb leb) n n f) = Ok N) <-> \det (\matrix_(i < n, j < n) f i j) != 0.
Print Assumptions inverse_returns_iff_nonsingular.

Theorem inverse_panics_iff_singular : forall (F : fieldType) (abs : F -> F) (ltb leb : F -> F -> bool),
  PivLaws (ArithOf F abs ltb leb) -> forall (n : nat) (f : nat -> nat -> F), (1 <= n)%coq_nat ->
  @Solve.inverse (ArithOf F abs ltb leb) (@tabulate (ArithOf F abs ltb leb) n n f) = Panic DivZero <-> \det (\matrix_(i < n, j < n) f i j) = 0.
Proof. intros F abs ltb leb PL n f. exact (inverse_panic_iff PL (n:=n) f). Qed.
Check inverse_panics_iff_singular : forall (F : fieldType) (abs : F -> F) (ltb leb : F -> F -> bool),
  PivLaws (ArithOf F abs ltb leb) -> forall (n : nat) (f : nat -> nat -> F), (1 <= n)%coq_nat ->
  @Solve.inverse (ArithOf F abs ltb leb) (@tabulate (ArithOf F abs ltb leb) n n f) = Panic DivZero <-> \det (\matrix_(i < n, j < n) f i j) = 0.
Print Assumptions inverse_panics_iff_singular.

(* C01 completeness of the LU solver (pinned in Props/C01.v by the coordinator): a left inverse makes solve_lu return *)
Theorem solve_lu_complete_c02 : forall (F : fieldType) (abs : F -> F) (ltb leb : F -> F -> bool),
  PivLaws (ArithOf F abs ltb leb) -> forall (n : nat) (f Nf : nat -> nat -> F) (b : list F), (1 <= n)%coq_nat -> length b = n ->
  (forall i j, (i < n)%coq_nat -> (j < n)%coq_nat -> @mprod (ArithOf F abs ltb leb) n Nf f i j = @delta (ArithOf F abs ltb leb) i j) ->
  exists x, @Solve.solve_lu (ArithOf F abs ltb leb) (@tabulate (ArithOf F abs ltb leb) n n f) b = Ok x.
Proof. intros F abs ltb leb PL n f Nf b. exact (solve_lu_complete_bridge PL (n:=n) (f:=f) (Nf:=Nf) (b:=b)). Qed.
Check solve_lu_complete_c02 : forall (F : fieldType) (abs : F -> F) (ltb leb : F -> F -> bool),
  PivLaws (ArithOf F abs ltb leb) -> forall (n : nat) (f Nf : nat -> nat -> F) (b : list F), (1 <= n)%coq_nat -> length b = n ->
  (forall i j, (i < n)%coq_nat -> (j < n)%coq_nat -> @mprod (ArithOf F abs ltb leb) n Nf f i j = @delta (ArithOf F abs ltb leb) i j) ->
  exists x, @Solve.solve_lu (ArithOf F abs ltb leb) (@tabulate (ArithOf F abs ltb leb) n n f) b = Ok x.
Print Assumptions solve_lu_complete_c02.
Example solve_lu_complete_nonvacuous : (* the identity is its own left inverse *)
  forall i j, (i < 3)%coq_nat -> (j < 3)%coq_nat ->
    @mprod ratArith 3 (fun i j => if Nat.eqb i j then 1 else 0 : rat) (fun i j => if Nat.eqb i j then 1 else 0 : rat) i j = @delta ratArith i j.
Proof. intros [|[|[|i]]] [|[|[|j]]] Hi Hj; try (vm_compute; reflexivity); exfalso; move: Hi Hj => /ltP Hi /ltP Hj; discriminate. Qed.

(* ---- tie to the source by proof (package r2c): the functions regenerated from /repo/src on this run by the Rust-subset ->
   Gallina translator (driver/rust2coq.py -> gen/Src*.v) are equal, for all arguments, to the hand-written model functions
   the theorems above are about (Proofs/SrcEq*.v).  A change of a loop bound, index, operator or statement order in the
   source breaks the corresponding src_<function> lemma and with it this obligation. *)
From OV Require Proofs.SrcEqSolve.
Theorem model_is_source_C02_Solve : forall A : Arith, @SrcEqSolve.model_is_source_Solve A.
Proof. intros A. exact SrcEqSolve.model_is_source_Solve_lemma. Qed.
Check model_is_source_C02_Solve : forall A : Arith, @SrcEqSolve.model_is_source_Solve A.
Print Assumptions model_is_source_C02_Solve.
(* ======================================================================================================
   C02 (determinant and inverse), rounding half -- package round.  Append to Props/C02.v.
   The determinant "to rounding accuracy", in the STANDARD MODEL of floating-point arithmetic (the same Gallina
   [determinant] of Model/Solve.v at ARm): the computed determinant is +- the exact product of the diagonal of the
   COMPUTED factor, up to n roundings: relative error gam n = n u / (1 - n u), every size with n u < 1.
   The inverse: column-wise backward error of its two in-place triangular sweeps (second block below).
   NOT covered: the factorisation (how far the computed factors are from exact factors of the input: growth factor of
   Gaussian elimination with partial pivoting) -- hence nothing about X A - I or det(A) itself -- and the standard
   model itself for IEEE binary64.
   ====================================================================================================== *)
From Coq Require Import Reals Lra Lia.
From OV Require Import Base.RoundModel Proofs.Matrix Proofs.RoundMatvec Proofs.RoundDet Proofs.RoundFlx Proofs.RoundExamples.

Theorem determinant_product_error : forall (u : R), (0 <= u < 1)%R ->
  forall (fadd fsub fmul fdiv : R -> R -> R),
  (forall x y : R, exists d : R, (Rabs d <= u)%R /\ fmul x y = (x * y * (1 + d))%R) ->
  forall (m lu perm : Model.Matrix.matrix (ARm fadd fsub fmul fdiv)) (piv : nat) (d : R),
  Proofs.Matrix.wf m -> (INR (Model.Matrix.rows m) * u < 1)%R ->
  Model.Solve.lu_decomp m = Base.Panic.Ok (lu, piv, perm) -> Model.Solve.determinant m = Base.Panic.Ok d ->
  exists th : R, (Rabs th <= gam u (Model.Matrix.rows m))%R /\
    d = ((if Nat.even piv then 1 else -1) * Rprod (Model.Matrix.rows m) (fun i => rentry fadd fsub fmul fdiv lu i i) * (1 + th))%R.
Proof. intros u Hu fadd fsub fmul fdiv Hm m lu perm piv d. exact (determinant_product_error_lemma u Hu fadd fsub fmul fdiv Hm m lu perm piv d). Qed.
Check determinant_product_error : forall (u : R), (0 <= u < 1)%R ->
  forall (fadd fsub fmul fdiv : R -> R -> R),
  (forall x y : R, exists d : R, (Rabs d <= u)%R /\ fmul x y = (x * y * (1 + d))%R) ->
  forall (m lu perm : Model.Matrix.matrix (ARm fadd fsub fmul fdiv)) (piv : nat) (d : R),
  Proofs.Matrix.wf m -> (INR (Model.Matrix.rows m) * u < 1)%R ->
  Model.Solve.lu_decomp m = Base.Panic.Ok (lu, piv, perm) -> Model.Solve.determinant m = Base.Panic.Ok d ->
  exists th : R, (Rabs th <= gam u (Model.Matrix.rows m))%R /\
    d = ((if Nat.even piv then 1 else -1) * Rprod (Model.Matrix.rows m) (fun i => rentry fadd fsub fmul fdiv lu i i) * (1 + th))%R.
Print Assumptions determinant_product_error.
(* [[2,1],[0,3]] in the arithmetic that rounds every operation to 53 bits: lu_decomp returns ex_lu2, determinant answers *)
Example determinant_product_error_nonvacuous :
  (0 <= ux < 1)%R /\
  (forall x y : R, exists d : R, (Rabs d <= ux)%R /\ xmul x y = (x * y * (1 + d))%R) /\
  Proofs.Matrix.wf ex_m2 /\ (INR (Model.Matrix.rows ex_m2) * ux < 1)%R /\
  Model.Solve.lu_decomp ex_m2 = Base.Panic.Ok (ex_lu2, 0%nat, ex_id2) /\ exists d, Model.Solve.determinant ex_m2 = Base.Panic.Ok d.
Proof.
  split; [exact ux_range|]. split; [exact xmul_ok|]. split; [reflexivity|]. split; [exact ex_size2|].
  split; [exact ex_lu_decomp|exact ex_determinant].
Qed.

(* ---- the inverse: column-wise backward error of its two triangular sweeps, standard model ----
   Every column x_j of the computed inverse satisfies (L + dL_j) y_j = P e_j, (U + dU_j) x_j = y_j with the COMPUTED
   factors L (unit lower), U (upper) of lu_decomp and |dL_j| <= gam n |L|, |dU_j| <= gam n |U| (Proofs/RoundInverse.v:
   the in-place sweeps have the closed form of forward/back substitution over ANY arithmetic, [inverse_trace]).
   (Names are fully qualified: this file has mathcomp's matrix/nth/< in scope.) *)
From OV Require Import Proofs.RoundBacksolve Proofs.RoundInverse Proofs.RoundExamples2.

Theorem inverse_columns_backward_error : forall (u : R), (0 <= u < 1)%R ->
  forall (fadd fsub fmul fdiv : R -> R -> R),
  (forall x y : R, exists d : R, (Rabs d <= u)%R /\ fsub x y = ((x - y) * (1 + d))%R) ->
  (forall x y : R, exists d : R, (Rabs d <= u)%R /\ fmul x y = (x * y * (1 + d))%R) ->
  (forall x y : R, y <> 0%R -> exists d : R, (Rabs d <= u)%R /\ fdiv x y = (x / y * (1 + d))%R) ->
  forall (m lu perm inv : Model.Matrix.matrix (ARm fadd fsub fmul fdiv)) (piv : nat),
  Proofs.Matrix.wf m -> (INR (Model.Matrix.rows m) * u < 1)%R ->
  Model.Solve.lu_decomp m = Base.Panic.Ok (lu, piv, perm) ->
  (forall k, Peano.lt k (Model.Matrix.rows m) -> rentry fadd fsub fmul fdiv lu k k <> 0%R) ->
  Model.Solve.inverse m = Base.Panic.Ok inv ->
  Proofs.Matrix.wf inv /\ Model.Matrix.rows inv = Model.Matrix.rows m /\ Model.Matrix.cols inv = Model.Matrix.rows m /\
  forall j, Peano.lt j (Model.Matrix.rows m) ->
    exists (y : list R) (dL dU : nat -> nat -> R),
      List.length y = Model.Matrix.rows m /\
      (forall i k, Peano.lt i (Model.Matrix.rows m) -> Peano.lt k (Model.Matrix.rows m) ->
         (Rabs (dL i k) <= gam u (Model.Matrix.rows m) * Rabs (tril1 fadd fsub fmul fdiv lu i k))%R) /\
      (forall i k, Peano.lt i (Model.Matrix.rows m) -> Peano.lt k (Model.Matrix.rows m) ->
         (Rabs (dU i k) <= gam u (Model.Matrix.rows m) * Rabs (triu fadd fsub fmul fdiv lu i k))%R) /\
      (forall i, Peano.lt i (Model.Matrix.rows m) ->
         Rsum (Model.Matrix.rows m) (fun k => ((tril1 fadd fsub fmul fdiv lu i k + dL i k) * List.nth k y 0)%R)
         = rentry fadd fsub fmul fdiv perm i j) /\
      (forall i, Peano.lt i (Model.Matrix.rows m) ->
         Rsum (Model.Matrix.rows m) (fun k => ((triu fadd fsub fmul fdiv lu i k + dU i k) * rentry fadd fsub fmul fdiv inv k j)%R)
         = List.nth i y 0%R).
Proof. intros u Hu fadd fsub fmul fdiv Hs Hm Hd m lu perm inv piv. exact (inverse_columns_backward_error_lemma u Hu fadd fsub fmul fdiv Hs Hm Hd m lu perm inv piv). Qed.
Check inverse_columns_backward_error : forall (u : R), (0 <= u < 1)%R ->
  forall (fadd fsub fmul fdiv : R -> R -> R),
  (forall x y : R, exists d : R, (Rabs d <= u)%R /\ fsub x y = ((x - y) * (1 + d))%R) ->
  (forall x y : R, exists d : R, (Rabs d <= u)%R /\ fmul x y = (x * y * (1 + d))%R) ->
  (forall x y : R, y <> 0%R -> exists d : R, (Rabs d <= u)%R /\ fdiv x y = (x / y * (1 + d))%R) ->
  forall (m lu perm inv : Model.Matrix.matrix (ARm fadd fsub fmul fdiv)) (piv : nat),
  Proofs.Matrix.wf m -> (INR (Model.Matrix.rows m) * u < 1)%R ->
  Model.Solve.lu_decomp m = Base.Panic.Ok (lu, piv, perm) ->
  (forall k, Peano.lt k (Model.Matrix.rows m) -> rentry fadd fsub fmul fdiv lu k k <> 0%R) ->
  Model.Solve.inverse m = Base.Panic.Ok inv ->
  Proofs.Matrix.wf inv /\ Model.Matrix.rows inv = Model.Matrix.rows m /\ Model.Matrix.cols inv = Model.Matrix.rows m /\
  forall j, Peano.lt j (Model.Matrix.rows m) ->
    exists (y : list R) (dL dU : nat -> nat -> R),
      List.length y = Model.Matrix.rows m /\
      (forall i k, Peano.lt i (Model.Matrix.rows m) -> Peano.lt k (Model.Matrix.rows m) ->
         (Rabs (dL i k) <= gam u (Model.Matrix.rows m) * Rabs (tril1 fadd fsub fmul fdiv lu i k))%R) /\
      (forall i k, Peano.lt i (Model.Matrix.rows m) -> Peano.lt k (Model.Matrix.rows m) ->
         (Rabs (dU i k) <= gam u (Model.Matrix.rows m) * Rabs (triu fadd fsub fmul fdiv lu i k))%R) /\
      (forall i, Peano.lt i (Model.Matrix.rows m) ->
         Rsum (Model.Matrix.rows m) (fun k => ((tril1 fadd fsub fmul fdiv lu i k + dL i k) * List.nth k y 0)%R)
         = rentry fadd fsub fmul fdiv perm i j) /\
      (forall i, Peano.lt i (Model.Matrix.rows m) ->
         Rsum (Model.Matrix.rows m) (fun k => ((triu fadd fsub fmul fdiv lu i k + dU i k) * rentry fadd fsub fmul fdiv inv k j)%R)
         = List.nth i y 0%R).
Print Assumptions inverse_columns_backward_error.
(* [[2,1],[0,3]] in the arithmetic that rounds every operation to 53 bits: the factors have a nonzero diagonal, inverse answers *)
Example inverse_columns_backward_error_nonvacuous :
  (0 <= ux < 1)%R /\ Proofs.Matrix.wf ex_m2 /\ (INR (Model.Matrix.rows ex_m2) * ux < 1)%R /\
  Model.Solve.lu_decomp ex_m2 = Base.Panic.Ok (ex_lu2, 0%nat, ex_id2) /\
  (forall k, Peano.lt k (Model.Matrix.rows ex_m2) -> rentry xadd xsub xmul xdiv ex_lu2 k k <> 0%R) /\
  exists inv, Model.Solve.inverse ex_m2 = Base.Panic.Ok inv.
Proof.
  split; [exact ux_range|]. split; [reflexivity|]. split; [exact ex_size2|]. split; [exact ex_lu_decomp|].
  split; [exact ex_lu2_diag|exact ex_inverse].
Qed.

(* ---- the inverse as a whole: every column is the exact column of the inverse of a nearby matrix ----
   (A + dA_j) x_j = e_j with |dA_j| <= (3 gam n + gam n^2) P^T |L^||U^| (Higham sec. 14.1): Thm 9.3 for the factorisation
   (Proofs/RoundLUError.v) combined with the column sweeps above.  In terms of the COMPUTED |L^||U^|: the comparison with
   |A| (growth factor) is not made, and since dA_j depends on the column nothing is claimed about X A - I. *)
From OV Require Import Proofs.RoundInverseLU.

Theorem inverse_backward_error : forall (u : R), (0 <= u < 1)%R ->
  forall (fadd fsub fmul fdiv : R -> R -> R),
  (forall x y : R, exists d : R, (Rabs d <= u)%R /\ fsub x y = ((x - y) * (1 + d))%R) ->
  (forall x y : R, exists d : R, (Rabs d <= u)%R /\ fmul x y = (x * y * (1 + d))%R) ->
  (forall x y : R, y <> 0%R -> exists d : R, (Rabs d <= u)%R /\ fdiv x y = (x / y * (1 + d))%R) ->
  forall (m lu perm inv : Model.Matrix.matrix (ARm fadd fsub fmul fdiv)) (piv : nat),
  Proofs.Matrix.wf m -> (INR (Model.Matrix.rows m) * u < 1)%R ->
  Model.Solve.lu_decomp m = Base.Panic.Ok (lu, piv, perm) ->
  (forall k, Peano.lt k (Model.Matrix.rows m) -> rentry fadd fsub fmul fdiv lu k k <> 0%R) ->
  Model.Solve.inverse m = Base.Panic.Ok inv ->
  Proofs.Matrix.wf inv /\ Model.Matrix.rows inv = Model.Matrix.rows m /\ Model.Matrix.cols inv = Model.Matrix.rows m /\
  exists tau : nat -> nat,
    (forall r, Peano.lt r (Model.Matrix.rows m) -> Peano.lt (tau r) (Model.Matrix.rows m)) /\
    (forall r r', Peano.lt r (Model.Matrix.rows m) -> Peano.lt r' (Model.Matrix.rows m) -> tau r = tau r' -> r = r') /\
    forall j, Peano.lt j (Model.Matrix.rows m) ->
      exists dA : nat -> nat -> R,
        (forall i c, Peano.lt i (Model.Matrix.rows m) -> Peano.lt c (Model.Matrix.rows m) ->
           (Rabs (dA i c) <= (3 * gam u (Model.Matrix.rows m) + gam u (Model.Matrix.rows m) * gam u (Model.Matrix.rows m))
                             * Rsum (Model.Matrix.rows m)
                                 (fun k => Rabs (tril1 fadd fsub fmul fdiv lu i k) * Rabs (triu fadd fsub fmul fdiv lu k c)))%R) /\
        forall i, Peano.lt i (Model.Matrix.rows m) ->
          Rsum (Model.Matrix.rows m)
            (fun c => ((rentry fadd fsub fmul fdiv m (tau i) c + dA i c) * rentry fadd fsub fmul fdiv inv c j)%R)
          = if Nat.eqb j (tau i) then 1%R else 0%R.
Proof. intros u Hu fadd fsub fmul fdiv Hs Hm Hd m lu perm inv piv. exact (inverse_backward_error_lemma u Hu fadd fsub fmul fdiv Hs Hm Hd m lu perm inv piv). Qed.
Check inverse_backward_error : forall (u : R), (0 <= u < 1)%R ->
  forall (fadd fsub fmul fdiv : R -> R -> R),
  (forall x y : R, exists d : R, (Rabs d <= u)%R /\ fsub x y = ((x - y) * (1 + d))%R) ->
  (forall x y : R, exists d : R, (Rabs d <= u)%R /\ fmul x y = (x * y * (1 + d))%R) ->
  (forall x y : R, y <> 0%R -> exists d : R, (Rabs d <= u)%R /\ fdiv x y = (x / y * (1 + d))%R) ->
  forall (m lu perm inv : Model.Matrix.matrix (ARm fadd fsub fmul fdiv)) (piv : nat),
  Proofs.Matrix.wf m -> (INR (Model.Matrix.rows m) * u < 1)%R ->
  Model.Solve.lu_decomp m = Base.Panic.Ok (lu, piv, perm) ->
  (forall k, Peano.lt k (Model.Matrix.rows m) -> rentry fadd fsub fmul fdiv lu k k <> 0%R) ->
  Model.Solve.inverse m = Base.Panic.Ok inv ->
  Proofs.Matrix.wf inv /\ Model.Matrix.rows inv = Model.Matrix.rows m /\ Model.Matrix.cols inv = Model.Matrix.rows m /\
  exists tau : nat -> nat,
    (forall r, Peano.lt r (Model.Matrix.rows m) -> Peano.lt (tau r) (Model.Matrix.rows m)) /\
    (forall r r', Peano.lt r (Model.Matrix.rows m) -> Peano.lt r' (Model.Matrix.rows m) -> tau r = tau r' -> r = r') /\
    forall j, Peano.lt j (Model.Matrix.rows m) ->
      exists dA : nat -> nat -> R,
        (forall i c, Peano.lt i (Model.Matrix.rows m) -> Peano.lt c (Model.Matrix.rows m) ->
           (Rabs (dA i c) <= (3 * gam u (Model.Matrix.rows m) + gam u (Model.Matrix.rows m) * gam u (Model.Matrix.rows m))
                             * Rsum (Model.Matrix.rows m)
                                 (fun k => Rabs (tril1 fadd fsub fmul fdiv lu i k) * Rabs (triu fadd fsub fmul fdiv lu k c)))%R) /\
        forall i, Peano.lt i (Model.Matrix.rows m) ->
          Rsum (Model.Matrix.rows m)
            (fun c => ((rentry fadd fsub fmul fdiv m (tau i) c + dA i c) * rentry fadd fsub fmul fdiv inv c j)%R)
          = if Nat.eqb j (tau i) then 1%R else 0%R.
Print Assumptions inverse_backward_error.
Example inverse_backward_error_nonvacuous :   (* same instance as inverse_columns_backward_error_nonvacuous *)
  (0 <= ux < 1)%R /\ Proofs.Matrix.wf ex_m2 /\ (INR (Model.Matrix.rows ex_m2) * ux < 1)%R /\
  Model.Solve.lu_decomp ex_m2 = Base.Panic.Ok (ex_lu2, 0%nat, ex_id2) /\
  (forall k, Peano.lt k (Model.Matrix.rows ex_m2) -> rentry xadd xsub xmul xdiv ex_lu2 k k <> 0%R) /\
  exists inv, Model.Solve.inverse ex_m2 = Base.Panic.Ok inv.
Proof.
  split; [exact ux_range|]. split; [reflexivity|]. split; [exact ex_size2|]. split; [exact ex_lu_decomp|].
  split; [exact ex_lu2_diag|exact ex_inverse].
Qed.
