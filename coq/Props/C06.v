(* Props/C06.v -- stub, to be filled in *)
