(* Props/C06.v -- property theorems only: Theorem / exact lemma / Check (pins the statement) / Print Assumptions.

   C06: all views of a sparse matrix agree; the compressed-column form stays well-formed.
   All theorems are about the Gallina model Model/Sparse.v of src/sparse.rs:1-300 (six public CSC
   fields, every guard / index / usize subtraction checked), tied to the code by the correspondence
   check of driver/c06.py.  They hold for every arithmetic (no law of the element type is used:
   C06 is about structure), all shapes, all values, all histories -- no numeric bound.

   [wfS s]: col_start has cols+1 entries, starts at 0, is non-decreasing and ends at
   nonzero = |val| = |row_index|; every row index is < rows.
   [ents s]: the stored entries (row_index[k], j, val[k]) in the order of the column walk.
   [NoDupKeys s] / [NoDupKeysL ts]: no position (row, column) occurs twice.
   [absS s]: the abstract matrix, the partial map (i,j) |-> sp_get s i j.

   Differences from DESIGN Appendix E (forced by the model, none weakens a statement):
   * from_triplets_wf is stronger: the triplet list of the result is *equal* to the stably
     column-sorted input ([sort_by_col], the modelled semantics of Vec::sort_by_key), and that is
     a permutation of the input.
   * wfS_step / wfS_history are the partial-correctness statements pinned in Appendix E ("if the
     history returns, the result is well-formed"); history_total adds that every history whose
     insertions address positions inside the current shape does return (duplicates allowed).
   * views_agree states the dense view through the modelled dense index [mget D i j] and adds the
     two list views (to_triplets = the column walk, col_index = the column of each stored entry).
   * sp_refines_map is stated for whole histories: the abstraction is the lookup function, the
     specification steps are point update / value map / argument swap on partial maps, and
     agreement is on the in-range positions of the final shape. *)
From Coq Require Import List Arith ZArith QArith Qcanon Lia Permutation.
From OV Require Import Base.Panic Base.Arith Base.Flat Model.Vector Model.Matrix Model.Sparse Inst.QcInst
                       Proofs.SparseBase Proofs.SparseMul Proofs.SparseWf Proofs.SparseHist
                       Proofs.SparseViews Proofs.SparseRefine Proofs.SparseTranspose Proofs.SparseFinal Proofs.SparseVecs.
Import ListNotations.
Local Open Scope nat_scope.

Theorem from_triplets_wf : forall (A : Arith) r c (ts : list (triplet A)),
  (forall t, In t ts -> trow t < r /\ tcol t < c) ->
  exists s, sp_from_triplets r c ts = Ok s /\ wfS s /\ sp_rows s = r /\ sp_cols s = c /\
            sp_to_triplets s = Ok (sort_by_col ts) /\ Permutation (sort_by_col ts) ts.
Proof. intros A r c ts. exact (from_triplets_wf_lemma r c ts). Qed.
Check from_triplets_wf : forall (A : Arith) r c (ts : list (triplet A)),
  (forall t, In t ts -> trow t < r /\ tcol t < c) ->
  exists s, sp_from_triplets r c ts = Ok s /\ wfS s /\ sp_rows s = r /\ sp_cols s = c /\
            sp_to_triplets s = Ok (sort_by_col ts) /\ Permutation (sort_by_col ts) ts.
Print Assumptions from_triplets_wf.

(* raw arrays: from_vecs echoes well-formed arrays (nonzero = the last column start) *)
Theorem from_vecs_wf : forall (A : Arith) r c (v : list A) (ri cs : list nat),
  wfS (mkS r c (nth c cs 0) v ri cs) ->
  sp_from_vecs r c v ri cs = Ok (mkS r c (nth c cs 0) v ri cs).
Proof. intros A r c v ri cs. exact (from_vecs_wf_lemma r c v ri cs). Qed.
Check from_vecs_wf : forall (A : Arith) r c (v : list A) (ri cs : list nat),
  wfS (mkS r c (nth c cs 0) v ri cs) ->
  sp_from_vecs r c v ri cs = Ok (mkS r c (nth c cs 0) v ri cs).
Print Assumptions from_vecs_wf.

(* one modifying step: insert (overwrite or rebuild), scale, transpose *)
Theorem wfS_step : forall (A : Arith) (s s' : sparse A) (o : sop A),
  wfS s -> sp_step s o = Ok s' -> wfS s'.
Proof. intros A s s' o. exact (sp_step_wf s s' o). Qed.
Check wfS_step : forall (A : Arith) (s s' : sparse A) (o : sop A),
  wfS s -> sp_step s o = Ok s' -> wfS s'.
Print Assumptions wfS_step.

(* any finite history *)
Theorem wfS_history : forall (A : Arith) (ops : list (sop A)) (s : sparse A),
  wfS s -> forall s', sp_run ops s = Ok s' -> wfS s'.
Proof. intros A ops s. exact (wfS_history_lemma ops s). Qed.
Check wfS_history : forall (A : Arith) (ops : list (sop A)) (s : sparse A),
  wfS s -> forall s', sp_run ops s = Ok s' -> wfS s'.
Print Assumptions wfS_history.

(* ... and every in-range history does return *)
Theorem history_total : forall (A : Arith) (ops : list (sop A)) (s : sparse A),
  wfS s -> ops_ok (sp_rows s) (sp_cols s) ops ->
  exists s', sp_run ops s = Ok s' /\ wfS s' /\ (sp_rows s', sp_cols s') = dims_after (sp_rows s) (sp_cols s) ops.
Proof. intros A ops s. exact (history_total_lemma ops s). Qed.
Check history_total : forall (A : Arith) (ops : list (sop A)) (s : sparse A),
  wfS s -> ops_ok (sp_rows s) (sp_cols s) ops ->
  exists s', sp_run ops s = Ok s' /\ wfS s' /\ (sp_rows s', sp_cols s') = dims_after (sp_rows s) (sp_cols s) ops.
Print Assumptions history_total.

(* the four views describe one matrix *)
Theorem views_agree : forall (A : Arith) (s : sparse A), wfS s -> NoDupKeys s ->
  sp_to_triplets s = Ok (ents s) /\
  sp_col_index s = Ok (map (@tcol A) (ents s)) /\
  exists D, sp_to_dense s = Ok D /\ rows D = sp_rows s /\ cols D = sp_cols s /\
  forall i j, i < sp_rows s -> j < sp_cols s ->
    (forall v, sp_get s i j = Ok (Some v) <-> In (i, j, v) (ents s)) /\
    (exists o, sp_get s i j = Ok o /\ mget D i j = Ok (match o with Some v => v | None => zero end)).
Proof. intros A s. exact (views_agree_lemma s). Qed.
Check views_agree : forall (A : Arith) (s : sparse A), wfS s -> NoDupKeys s ->
  sp_to_triplets s = Ok (ents s) /\
  sp_col_index s = Ok (map (@tcol A) (ents s)) /\
  exists D, sp_to_dense s = Ok D /\ rows D = sp_rows s /\ cols D = sp_cols s /\
  forall i j, i < sp_rows s -> j < sp_cols s ->
    (forall v, sp_get s i j = Ok (Some v) <-> In (i, j, v) (ents s)) /\
    (exists o, sp_get s i j = Ok o /\ mget D i j = Ok (match o with Some v => v | None => zero end)).
Print Assumptions views_agree.

(* construction does not depend on the order of the triplets *)
Theorem order_independent : forall (A : Arith) r c (ts ts' : list (triplet A)),
  Permutation ts ts' -> NoDupKeysL ts -> (forall t, In t ts -> trow t < r /\ tcol t < c) ->
  exists s s', sp_from_triplets r c ts = Ok s /\ sp_from_triplets r c ts' = Ok s' /\
    forall i j, i < r -> j < c -> sp_get s i j = sp_get s' i j.
Proof. intros A r c ts ts'. exact (order_independent_lemma r c ts ts'). Qed.
Check order_independent : forall (A : Arith) r c (ts ts' : list (triplet A)),
  Permutation ts ts' -> NoDupKeysL ts -> (forall t, In t ts -> trow t < r /\ tcol t < c) ->
  exists s s', sp_from_triplets r c ts = Ok s /\ sp_from_triplets r c ts' = Ok s' /\
    forall i j, i < r -> j < c -> sp_get s i j = sp_get s' i j.
Print Assumptions order_independent.

(* transpose is a (stable counting) sort of the swapped entries: it returns, and nothing is lost or invented *)
Theorem transpose_entries : forall (A : Arith) (s : sparse A), wfS s ->
  exists s', sp_transpose s = Ok s' /\ wfS s' /\ sp_rows s' = sp_cols s /\ sp_cols s' = sp_rows s /\
             Permutation (ents s') (map tswap (ents s)).
Proof. intros A s. exact (sp_transpose_spec_lemma s). Qed.
Check transpose_entries : forall (A : Arith) (s : sparse A), wfS s ->
  exists s', sp_transpose s = Ok s' /\ wfS s' /\ sp_rows s' = sp_cols s /\ sp_cols s' = sp_rows s /\
             Permutation (ents s') (map tswap (ents s)).
Print Assumptions transpose_entries.

(* P2: every history refines the same history of finite-map operations on the abstract matrix *)
Theorem sp_refines_map : forall (A : Arith) (ops : list (sop A)) (s : sparse A), wfS s -> NoDupKeys s ->
  ops_ok (sp_rows s) (sp_cols s) ops ->
  exists s', sp_run ops s = Ok s' /\ wfS s' /\ NoDupKeys s' /\
    (sp_rows s', sp_cols s') = dims_after (sp_rows s) (sp_cols s) ops /\
    agree (sp_rows s') (sp_cols s') (absS s') (spec_run ops (absS s)).
Proof. intros A ops s. exact (sp_refines_map_lemma ops s). Qed.
Check sp_refines_map : forall (A : Arith) (ops : list (sop A)) (s : sparse A), wfS s -> NoDupKeys s ->
  ops_ok (sp_rows s) (sp_cols s) ops ->
  exists s', sp_run ops s = Ok s' /\ wfS s' /\ NoDupKeys s' /\
    (sp_rows s', sp_cols s') = dims_after (sp_rows s) (sp_cols s) ops /\
    agree (sp_rows s') (sp_cols s') (absS s') (spec_run ops (absS s)).
Print Assumptions sp_refines_map.

(* ---- non-vacuity: the hypotheses hold for concrete non-trivial inputs at the exact instance ---- *)
Definition ex_ts : list (triplet AQ) :=
  [(2, 3, q 5 3); (0, 1, q (-1) 2); (1, 2, q 7 1); (2, 1, q 2 1)].      (* not in column order; column 0 empty *)
Definition ex_ts' : list (triplet AQ) :=
  [(0, 1, q (-1) 2); (2, 1, q 2 1); (2, 3, q 5 3); (1, 2, q 7 1)].

Example ex_ts_in_range : forall t, In t ex_ts -> trow t < 3 /\ tcol t < 4.
Proof.
  intros t Ht. unfold ex_ts in Ht. cbn [In] in Ht.
  repeat (destruct Ht as [<-|Ht]; [unfold trow, tcol; cbn [fst snd]; lia|]). destruct Ht.
Qed.

Example from_triplets_wf_nonvacuous :
  (forall t, In t ex_ts -> trow t < 3 /\ tcol t < 4) /\
  fl_res (fun s => fl_list fl_nat (sp_col_start s) ++ fl_list fl_nat (sp_row_index s)) (sp_from_triplets 3 4 ex_ts)
  = [0; 5; 0; 0; 0; 0; 0; 2; 0; 3; 0; 4;  0; 4; 0; 0; 0; 2; 0; 1; 0; 2]%Z.    (* col_start [0;0;2;3;4], row_index [0;2;1;2] *)
Proof. split; [exact ex_ts_in_range|]. vm_compute. reflexivity. Qed.

Example order_independent_nonvacuous :
  Permutation ex_ts ex_ts' /\ NoDupKeysL ex_ts /\ (forall t, In t ex_ts -> trow t < 3 /\ tcol t < 4).
Proof.
  split; [|split; [|exact ex_ts_in_range]].
  - unfold ex_ts, ex_ts'.
    apply (perm_trans (l' := [(0, 1, q (-1) 2); (2, 3, q 5 3); (1, 2, q 7 1); (2, 1, q 2 1)])); [apply perm_swap|].
    apply perm_skip.
    apply (perm_trans (l' := [(2, 3, q 5 3); (2, 1, q 2 1); (1, 2, q 7 1)])); [apply perm_skip, perm_swap|].
    apply (perm_trans (l' := [(2, 1, q 2 1); (2, 3, q 5 3); (1, 2, q 7 1)])); [apply perm_swap|]. apply Permutation_refl.
  - unfold NoDupKeysL, ex_ts, tkey, trow, tcol. cbn [map fst snd].
    repeat constructor; cbn [In]; intros H; repeat (destruct H as [H|H]; [discriminate H|]); destruct H.
Qed.

Definition ex_s : sparse AQ :=
  @mkS AQ 3 4 4 [q 2 1; q (-1) 2; q 7 1; q 5 3] [2; 0; 1; 2] [0; 0; 2; 3; 4].
Definition ex_ops : list (sop AQ) :=
  [@SInsert AQ 1 0 (q 9 1); @STranspose AQ; @SInsert AQ 3 2 (q 1 2); @SScale AQ (q (-2) 1); @SInsert AQ 3 2 (q 4 1); @STranspose AQ].

Example ex_s_wf : wfS ex_s.
Proof.
  unfold wfS, ex_s; cbn [sp_rows sp_cols sp_nonzero sp_val sp_row_index sp_col_start length nth Nat.add].
  repeat split; try reflexivity.
  - intros j Hj. do 4 (destruct j as [|j]; [cbn [nth Nat.add]; lia|]). lia.
  - intros k Hk. do 4 (destruct k as [|k]; [cbn [nth]; lia|]). lia.
Qed.

Example ex_s_nodup : NoDupKeys ex_s.
Proof.
  unfold NoDupKeys, ents, visits, seg, ent, ex_s, trow, tcol.
  cbn [sp_rows sp_cols sp_nonzero sp_val sp_row_index sp_col_start seq flat_map map nth Nat.add Nat.sub app fst snd].
  repeat constructor; cbn [In]; intros H; repeat (destruct H as [H|H]; [discriminate H|]); destruct H.
Qed.

Example ex_ops_ok : ops_ok (sp_rows ex_s) (sp_cols ex_s) ex_ops.
Proof. unfold ex_ops, ex_s. cbn [ops_ok sp_rows sp_cols]. repeat split; lia. Qed.

(* fresh insertion, transposition, insertion, scaling, overwrite, transposition: the history returns *)
Example wfS_history_nonvacuous : wfS ex_s /\ is_ok (sp_run ex_ops ex_s) = true /\
  is_ok (sp_step ex_s (@SInsert AQ 1 0 (q 9 1))) = true.
Proof. split; [exact ex_s_wf|]. split; vm_compute; reflexivity. Qed.

Example history_total_nonvacuous : wfS ex_s /\ ops_ok (sp_rows ex_s) (sp_cols ex_s) ex_ops.
Proof. split; [exact ex_s_wf|exact ex_ops_ok]. Qed.

Example views_agree_nonvacuous : wfS ex_s /\ NoDupKeys ex_s.
Proof. split; [exact ex_s_wf|exact ex_s_nodup]. Qed.

Example transpose_entries_nonvacuous : wfS ex_s.
Proof. exact ex_s_wf. Qed.

Example sp_refines_map_nonvacuous : wfS ex_s /\ NoDupKeys ex_s /\ ops_ok (sp_rows ex_s) (sp_cols ex_s) ex_ops.
Proof. split; [exact ex_s_wf|]. split; [exact ex_s_nodup|exact ex_ops_ok]. Qed.

Example from_vecs_wf_nonvacuous :
  wfS (@mkS AQ 3 4 (nth 4 [0; 0; 2; 3; 4] 0) [q 2 1; q (-1) 2; q 7 1; q 5 3] [2; 0; 1; 2] [0; 0; 2; 3; 4]).
Proof. exact ex_s_wf. Qed.

(* ---- tie to the source by proof (package r2c): the functions regenerated from /repo/src on this run by the Rust-subset ->
   Gallina translator (driver/rust2coq.py -> gen/Src*.v) are equal, for all arguments, to the hand-written model functions
   the theorems above are about (Proofs/SrcEq*.v).  A change of a loop bound, index, operator or statement order in the
   source breaks the corresponding src_<function> lemma and with it this obligation. *)
From OV Require Proofs.SrcEqSparse.
Theorem model_is_source_C06_Sparse : forall A : Arith, @SrcEqSparse.model_is_source_Sparse A.
Proof. intros A. exact SrcEqSparse.model_is_source_Sparse_lemma. Qed.
Check model_is_source_C06_Sparse : forall A : Arith, @SrcEqSparse.model_is_source_Sparse A.
Print Assumptions model_is_source_C06_Sparse.

(* ======================================================================================================
   C06 (sparse views), duplicate positions -- package dups.  Append to Props/C06.v.
   The behaviour of src/sparse.rs on storage that holds one position several times, SPECIFIED (until now: tied,
   model = implementation, but outside every theorem).  For every well-formed storage, duplicates allowed:
   [dvals s i j] = the values stored for position (i,j), in storage order (= their order in to_triplets).
     get          returns the FIRST of them  (None when there is none)        get_first_duplicate
     to_dense     keeps the LAST of them     (zero when there is none)        to_dense_last_duplicate
     multiply / transpose_multiply work with their SUM (sp_entry)             Props/C07.v sp_entry_is_sum
   so the views agree at a position iff first = last (= sum) there (views_agree_iff); with no position stored twice
   the list has at most one element and views_agree follows (views_agree_from_duplicates: the same statement, re-derived).
     from_triplets  stores the duplicates of a position in the order of the INPUT list (stable sort)    from_triplets_duplicates
     insert         overwrites the first stored duplicate, leaves the others; an absent position is appended   insert_with_duplicates
     transpose      keeps the duplicates of every position in their order (stable counting sort)        transpose_duplicates
                    -- it IS from_triplets of the swapped triplet listing, field by field               transpose_is_stable_sort
     order_independent with duplicates: construction depends on the input order only through the relative order of the
                    triplets of one position                                                            from_triplets_same_duplicate_order
   and every in-range history refines the same history of list operations on the abstract matrix
   (i,j) |-> list of stored values: sp_refines_map without the NoDupKeys hypothesis                    history_with_duplicates
   Well-formedness is preserved in all cases (wfS_step, history_total above -- proved with duplicates allowed).
   Executable instances (a 2x2 storage holding (1,1) three times) and the answers of the Rust executor on the same
   input: Proofs/SparseDupExamples.v.
   ====================================================================================================== *)
From OV Require Import Proofs.SparseDup Proofs.SparseDupOps Proofs.SparseDupHist Proofs.SparseDupTranspose Proofs.SparseDupOrder Proofs.SparseDupExamples.

(* the list of the values stored for (i,j), read off to_triplets: the values of the triplets (i, j, _) in the order of the listing *)
Theorem dvals_listing : forall (A : Arith) (s : sparse A) i j, j < sp_cols s ->
  dvals s i j = map (@tval A) (filter (tmatch i j) (ents s)).
Proof. intros A s i j. exact (dvals_ents s i j). Qed.
Check dvals_listing : forall (A : Arith) (s : sparse A) i j, j < sp_cols s ->
  dvals s i j = map (@tval A) (filter (tmatch i j) (ents s)).
Print Assumptions dvals_listing.
Example dvals_listing_nonvacuous :   (* position (1,1) of dup_s is stored three times *)
  1 < sp_cols dup_s /\ length (dvals dup_s 1 1) = 3.
Proof. split; [cbn; lia|reflexivity]. Qed.

(* get returns the FIRST stored duplicate *)
Theorem get_first_duplicate : forall (A : Arith) (s : sparse A) i j, wfS s -> i < sp_rows s -> j < sp_cols s ->
  sp_get s i j = Ok (hd_error (dvals s i j)).
Proof. intros A s i j. exact (get_first_duplicate_lemma s i j). Qed.
Check get_first_duplicate : forall (A : Arith) (s : sparse A) i j, wfS s -> i < sp_rows s -> j < sp_cols s ->
  sp_get s i j = Ok (hd_error (dvals s i j)).
Print Assumptions get_first_duplicate.
Example get_first_duplicate_nonvacuous :
  wfS dup_s /\ 1 < sp_rows dup_s /\ 1 < sp_cols dup_s /\ length (dvals dup_s 1 1) = 3 /\ ~ NoDupKeys dup_s.
Proof. split; [exact dup_s_wf|]. split; [cbn; lia|]. split; [cbn; lia|]. split; [reflexivity|exact dup_s_has_duplicates]. Qed.

(* to_dense keeps the LAST stored duplicate *)
Theorem to_dense_last_duplicate : forall (A : Arith) (s : sparse A), wfS s ->
  exists D, sp_to_dense s = Ok D /\ rows D = sp_rows s /\ cols D = sp_cols s /\
    forall i j, i < sp_rows s -> j < sp_cols s -> mget D i j = Ok (last (dvals s i j) (@Arith.zero A)).
Proof. intros A s. exact (to_dense_last_duplicate_lemma s). Qed.
Check to_dense_last_duplicate : forall (A : Arith) (s : sparse A), wfS s ->
  exists D, sp_to_dense s = Ok D /\ rows D = sp_rows s /\ cols D = sp_cols s /\
    forall i j, i < sp_rows s -> j < sp_cols s -> mget D i j = Ok (last (dvals s i j) (@Arith.zero A)).
Print Assumptions to_dense_last_duplicate.
Example to_dense_last_duplicate_nonvacuous :
  wfS dup_s /\ 1 < sp_rows dup_s /\ 1 < sp_cols dup_s /\ length (dvals dup_s 1 1) = 3 /\ ~ NoDupKeys dup_s.
Proof. split; [exact dup_s_wf|]. split; [cbn; lia|]. split; [cbn; lia|]. split; [reflexivity|exact dup_s_has_duplicates]. Qed.

(* the four views of a well-formed storage, duplicates allowed *)
Theorem views_with_duplicates : forall (A : Arith) (s : sparse A), wfS s ->
  sp_to_triplets s = Ok (ents s) /\
  sp_col_index s = Ok (map (@tcol A) (ents s)) /\
  exists D, sp_to_dense s = Ok D /\ rows D = sp_rows s /\ cols D = sp_cols s /\
  forall i j, i < sp_rows s -> j < sp_cols s ->
    dvals s i j = map (@tval A) (filter (tmatch i j) (ents s)) /\
    sp_get s i j = Ok (hd_error (dvals s i j)) /\
    mget D i j = Ok (last (dvals s i j) (@Arith.zero A)) /\
    sp_entry s i j = suml (dvals s i j).
Proof. intros A s. exact (views_with_duplicates_lemma s). Qed.
Check views_with_duplicates : forall (A : Arith) (s : sparse A), wfS s ->
  sp_to_triplets s = Ok (ents s) /\
  sp_col_index s = Ok (map (@tcol A) (ents s)) /\
  exists D, sp_to_dense s = Ok D /\ rows D = sp_rows s /\ cols D = sp_cols s /\
  forall i j, i < sp_rows s -> j < sp_cols s ->
    dvals s i j = map (@tval A) (filter (tmatch i j) (ents s)) /\
    sp_get s i j = Ok (hd_error (dvals s i j)) /\
    mget D i j = Ok (last (dvals s i j) (@Arith.zero A)) /\
    sp_entry s i j = suml (dvals s i j).
Print Assumptions views_with_duplicates.
Example views_with_duplicates_nonvacuous :
  wfS dup_s /\ 1 < sp_rows dup_s /\ 1 < sp_cols dup_s /\ length (dvals dup_s 1 1) = 3 /\ ~ NoDupKeys dup_s.
Proof. split; [exact dup_s_wf|]. split; [cbn; lia|]. split; [cbn; lia|]. split; [reflexivity|exact dup_s_has_duplicates]. Qed.

(* the views agree at a position exactly when first = last (get vs to_dense) and last = sum (to_dense vs the products) *)
Theorem views_agree_iff : forall (A : Arith) (s : sparse A) (D : matrix A), wfS s -> sp_to_dense s = Ok D ->
  forall i j, i < sp_rows s -> j < sp_cols s ->
    ((exists o, sp_get s i j = Ok o /\ mget D i j = Ok (oval o)) <-> hd (@Arith.zero A) (dvals s i j) = last (dvals s i j) (@Arith.zero A)) /\
    (mget D i j = Ok (sp_entry s i j) <-> last (dvals s i j) (@Arith.zero A) = suml (dvals s i j)).
Proof. intros A s D. exact (views_agree_iff_lemma s D). Qed.
Check views_agree_iff : forall (A : Arith) (s : sparse A) (D : matrix A), wfS s -> sp_to_dense s = Ok D ->
  forall i j, i < sp_rows s -> j < sp_cols s ->
    ((exists o, sp_get s i j = Ok o /\ mget D i j = Ok (oval o)) <-> hd (@Arith.zero A) (dvals s i j) = last (dvals s i j) (@Arith.zero A)) /\
    (mget D i j = Ok (sp_entry s i j) <-> last (dvals s i j) (@Arith.zero A) = suml (dvals s i j)).
Print Assumptions views_agree_iff.
Example views_agree_iff_nonvacuous :   (* at (1,1) of dup_s first = 2, last = 500, sum = 532: the views disagree there *)
  wfS dup_s /\ (exists D, sp_to_dense dup_s = Ok D) /\ 1 < sp_rows dup_s /\ 1 < sp_cols dup_s /\
  flat_q (hd (@Arith.zero AQ) (dvals dup_s 1 1)) <> flat_q (last (dvals dup_s 1 1) (@Arith.zero AQ)) /\
  flat_q (last (dvals dup_s 1 1) (@Arith.zero AQ)) <> flat_q (suml (dvals dup_s 1 1)).
Proof. split; [exact dup_s_wf|]. split; [eexists; reflexivity|]. split; [cbn; lia|]. split; [cbn; lia|]. split; vm_compute; discriminate. Qed.

(* views_agree (above), re-derived from the statements with duplicates: under NoDupKeys every list has at most one element *)
Theorem views_agree_from_duplicates : forall (A : Arith) (s : sparse A), wfS s -> NoDupKeys s ->
  sp_to_triplets s = Ok (ents s) /\
  sp_col_index s = Ok (map (@tcol A) (ents s)) /\
  exists D, sp_to_dense s = Ok D /\ rows D = sp_rows s /\ cols D = sp_cols s /\
  forall i j, i < sp_rows s -> j < sp_cols s ->
    (forall v, sp_get s i j = Ok (Some v) <-> In (i, j, v) (ents s)) /\
    (exists o, sp_get s i j = Ok o /\ mget D i j = Ok (match o with Some v => v | None => @Arith.zero A end)).
Proof. intros A s. exact (views_agree_rederived_lemma s). Qed.
Check views_agree_from_duplicates : forall (A : Arith) (s : sparse A), wfS s -> NoDupKeys s ->
  sp_to_triplets s = Ok (ents s) /\
  sp_col_index s = Ok (map (@tcol A) (ents s)) /\
  exists D, sp_to_dense s = Ok D /\ rows D = sp_rows s /\ cols D = sp_cols s /\
  forall i j, i < sp_rows s -> j < sp_cols s ->
    (forall v, sp_get s i j = Ok (Some v) <-> In (i, j, v) (ents s)) /\
    (exists o, sp_get s i j = Ok o /\ mget D i j = Ok (match o with Some v => v | None => @Arith.zero A end)).
Print Assumptions views_agree_from_duplicates.
Example views_agree_from_duplicates_nonvacuous :
  wfS nd_s /\ NoDupKeys nd_s.
Proof. split; [exact nd_s_wf|exact nd_s_nodup]. Qed.

(* from_triplets: the duplicates of a position are stored in the order of the input list; get picks the first input triplet with that (row, col), to_dense the last, the products their sum *)
Theorem from_triplets_duplicates : forall (A : Arith) r c (ts : list (triplet A)),
  (forall t, In t ts -> trow t < r /\ tcol t < c) ->
  exists s D, sp_from_triplets r c ts = Ok s /\ wfS s /\ sp_rows s = r /\ sp_cols s = c /\
    sp_to_dense s = Ok D /\
    forall i j, i < r -> j < c ->
      dvals s i j = map (@tval A) (filter (tmatch i j) ts) /\
      sp_get s i j = Ok (hd_error (map (@tval A) (filter (tmatch i j) ts))) /\
      mget D i j = Ok (last (map (@tval A) (filter (tmatch i j) ts)) (@Arith.zero A)) /\
      sp_entry s i j = suml (map (@tval A) (filter (tmatch i j) ts)).
Proof. intros A r c ts. exact (from_triplets_duplicates_lemma r c ts). Qed.
Check from_triplets_duplicates : forall (A : Arith) r c (ts : list (triplet A)),
  (forall t, In t ts -> trow t < r /\ tcol t < c) ->
  exists s D, sp_from_triplets r c ts = Ok s /\ wfS s /\ sp_rows s = r /\ sp_cols s = c /\
    sp_to_dense s = Ok D /\
    forall i j, i < r -> j < c ->
      dvals s i j = map (@tval A) (filter (tmatch i j) ts) /\
      sp_get s i j = Ok (hd_error (map (@tval A) (filter (tmatch i j) ts))) /\
      mget D i j = Ok (last (map (@tval A) (filter (tmatch i j) ts)) (@Arith.zero A)) /\
      sp_entry s i j = suml (map (@tval A) (filter (tmatch i j) ts)).
Print Assumptions from_triplets_duplicates.
Example from_triplets_duplicates_nonvacuous :   (* dup_ts lists (1,1) three times, not adjacent *)
  (forall t, In t dup_ts -> trow t < 2 /\ tcol t < 2) /\ length (filter (tmatch 1 1) dup_ts) = 3.
Proof. split; [exact dup_ts_in_range|reflexivity]. Qed.

(* insert: the first stored duplicate of the target is overwritten, the others stay; an absent target is appended; every other position keeps its list.  (wfS of the result: also wfS_step above) *)
Theorem insert_with_duplicates : forall (A : Arith) (s : sparse A) i j (v : A), wfS s -> i < sp_rows s -> j < sp_cols s ->
  exists s', sp_insert s i j v = Ok s' /\ wfS s' /\ sp_rows s' = sp_rows s /\ sp_cols s' = sp_cols s /\
    forall i' j', i' < sp_rows s -> j' < sp_cols s ->
      dvals s' i' j' = if (i' =? i) && (j' =? j) then v :: tl (dvals s i j) else dvals s i' j'.
Proof. intros A s i j v. exact (insert_with_duplicates_lemma s i j v). Qed.
Check insert_with_duplicates : forall (A : Arith) (s : sparse A) i j (v : A), wfS s -> i < sp_rows s -> j < sp_cols s ->
  exists s', sp_insert s i j v = Ok s' /\ wfS s' /\ sp_rows s' = sp_rows s /\ sp_cols s' = sp_cols s /\
    forall i' j', i' < sp_rows s -> j' < sp_cols s ->
      dvals s' i' j' = if (i' =? i) && (j' =? j) then v :: tl (dvals s i j) else dvals s i' j'.
Print Assumptions insert_with_duplicates.
Example insert_with_duplicates_nonvacuous :
  wfS dup_s /\ 1 < sp_rows dup_s /\ 1 < sp_cols dup_s /\ length (dvals dup_s 1 1) = 3 /\ ~ NoDupKeys dup_s.
Proof. split; [exact dup_s_wf|]. split; [cbn; lia|]. split; [cbn; lia|]. split; [reflexivity|exact dup_s_has_duplicates]. Qed.

(* transpose: nothing lost or invented (transpose_entries above), and the values stored for (j,i) in the result are those stored for (i,j) in the argument, in the same order *)
Theorem transpose_duplicates : forall (A : Arith) (s : sparse A), wfS s ->
  exists s', sp_transpose s = Ok s' /\ wfS s' /\ sp_rows s' = sp_cols s /\ sp_cols s' = sp_rows s /\
    Permutation (ents s') (map tswap (ents s)) /\
    forall i j, i < sp_rows s -> j < sp_cols s -> dvals s' j i = dvals s i j.
Proof. intros A s. exact (transpose_duplicates_lemma s). Qed.
Check transpose_duplicates : forall (A : Arith) (s : sparse A), wfS s ->
  exists s', sp_transpose s = Ok s' /\ wfS s' /\ sp_rows s' = sp_cols s /\ sp_cols s' = sp_rows s /\
    Permutation (ents s') (map tswap (ents s)) /\
    forall i j, i < sp_rows s -> j < sp_cols s -> dvals s' j i = dvals s i j.
Print Assumptions transpose_duplicates.
Example transpose_duplicates_nonvacuous :
  wfS dup_s /\ 1 < sp_rows dup_s /\ 1 < sp_cols dup_s /\ length (dvals dup_s 1 1) = 3 /\ ~ NoDupKeys dup_s.
Proof. split; [exact dup_s_wf|]. split; [cbn; lia|]. split; [cbn; lia|]. split; [reflexivity|exact dup_s_has_duplicates]. Qed.

(* transpose is the STABLE sort by row of the swapped listing: the triplet listing of the result, and the result itself (all six fields), are those of from_triplets on the swapped listing *)
Theorem transpose_is_stable_sort : forall (A : Arith) (s : sparse A), wfS s ->
  exists s', sp_transpose s = Ok s' /\ wfS s' /\ sp_rows s' = sp_cols s /\ sp_cols s' = sp_rows s /\
    ents s' = sort_by_col (map tswap (ents s)) /\
    sp_from_triplets (sp_cols s) (sp_rows s) (map tswap (ents s)) = Ok s'.
Proof. intros A s. exact (transpose_is_stable_sort_lemma s). Qed.
Check transpose_is_stable_sort : forall (A : Arith) (s : sparse A), wfS s ->
  exists s', sp_transpose s = Ok s' /\ wfS s' /\ sp_rows s' = sp_cols s /\ sp_cols s' = sp_rows s /\
    ents s' = sort_by_col (map tswap (ents s)) /\
    sp_from_triplets (sp_cols s) (sp_rows s) (map tswap (ents s)) = Ok s'.
Print Assumptions transpose_is_stable_sort.
Example transpose_is_stable_sort_nonvacuous :
  wfS dup_s /\ 1 < sp_rows dup_s /\ 1 < sp_cols dup_s /\ length (dvals dup_s 1 1) = 3 /\ ~ NoDupKeys dup_s.
Proof. split; [exact dup_s_wf|]. split; [cbn; lia|]. split; [cbn; lia|]. split; [reflexivity|exact dup_s_has_duplicates]. Qed.

(* P2 without duplicate-freeness: every in-range history on ANY well-formed storage returns and refines the same history of list operations (insert: replace the head; scale: map; transpose: swap) on the abstract matrix (i,j) |-> list of stored values; lookup = head, dense entry = last, product entry = sum of the final list *)
Theorem history_with_duplicates : forall (A : Arith) (ops : list (sop A)) (s : sparse A), wfS s ->
  ops_ok (sp_rows s) (sp_cols s) ops ->
  exists s' D, sp_run ops s = Ok s' /\ wfS s' /\
    (sp_rows s', sp_cols s') = dims_after (sp_rows s) (sp_cols s) ops /\
    sp_to_dense s' = Ok D /\
    forall i j, i < sp_rows s' -> j < sp_cols s' ->
      dvals s' i j = dspec_run ops (dabs s) i j /\
      sp_get s' i j = Ok (hd_error (dspec_run ops (dabs s) i j)) /\
      mget D i j = Ok (last (dspec_run ops (dabs s) i j) (@Arith.zero A)) /\
      sp_entry s' i j = suml (dspec_run ops (dabs s) i j).
Proof. intros A ops s. exact (history_with_duplicates_lemma ops s). Qed.
Check history_with_duplicates : forall (A : Arith) (ops : list (sop A)) (s : sparse A), wfS s ->
  ops_ok (sp_rows s) (sp_cols s) ops ->
  exists s' D, sp_run ops s = Ok s' /\ wfS s' /\
    (sp_rows s', sp_cols s') = dims_after (sp_rows s) (sp_cols s) ops /\
    sp_to_dense s' = Ok D /\
    forall i j, i < sp_rows s' -> j < sp_cols s' ->
      dvals s' i j = dspec_run ops (dabs s) i j /\
      sp_get s' i j = Ok (hd_error (dspec_run ops (dabs s) i j)) /\
      mget D i j = Ok (last (dspec_run ops (dabs s) i j) (@Arith.zero A)) /\
      sp_entry s' i j = suml (dspec_run ops (dabs s) i j).
Print Assumptions history_with_duplicates.
Example history_with_duplicates_nonvacuous :   (* six steps on dup_s: two overwrites of the tripled position, a transposition, a scaling, an overwrite and a fresh insertion *)
  wfS dup_s /\ ops_ok (sp_rows dup_s) (sp_cols dup_s) dup_ops /\ ~ NoDupKeys dup_s /\ length dup_ops = 6.
Proof. split; [exact dup_s_wf|]. split; [exact dup_ops_ok|]. split; [exact dup_s_has_duplicates|reflexivity]. Qed.

(* order_independent (above) with duplicates: two in-range triplet lists in which every position has the same sub-list of triplets (the same duplicates in the same relative order) give storages with the same value lists, lookups, dense entries and product entries everywhere *)
Theorem from_triplets_same_duplicate_order : forall (A : Arith) r c (ts ts' : list (triplet A)),
  (forall t, In t ts -> trow t < r /\ tcol t < c) -> (forall t, In t ts' -> trow t < r /\ tcol t < c) ->
  (forall i j, i < r -> j < c -> filter (tmatch i j) ts = filter (tmatch i j) ts') ->
  exists s s' D D', sp_from_triplets r c ts = Ok s /\ sp_from_triplets r c ts' = Ok s' /\
    sp_to_dense s = Ok D /\ sp_to_dense s' = Ok D' /\
    forall i j, i < r -> j < c ->
      dvals s i j = dvals s' i j /\ sp_get s i j = sp_get s' i j /\ mget D i j = mget D' i j /\
      sp_entry s i j = sp_entry s' i j.
Proof. intros A r c ts ts'. exact (from_triplets_same_duplicate_order_lemma r c ts ts'). Qed.
Check from_triplets_same_duplicate_order : forall (A : Arith) r c (ts ts' : list (triplet A)),
  (forall t, In t ts -> trow t < r /\ tcol t < c) -> (forall t, In t ts' -> trow t < r /\ tcol t < c) ->
  (forall i j, i < r -> j < c -> filter (tmatch i j) ts = filter (tmatch i j) ts') ->
  exists s s' D D', sp_from_triplets r c ts = Ok s /\ sp_from_triplets r c ts' = Ok s' /\
    sp_to_dense s = Ok D /\ sp_to_dense s' = Ok D' /\
    forall i j, i < r -> j < c ->
      dvals s i j = dvals s' i j /\ sp_get s i j = sp_get s' i j /\ mget D i j = mget D' i j /\
      sp_entry s i j = sp_entry s' i j.
Print Assumptions from_triplets_same_duplicate_order.
Example from_triplets_same_duplicate_order_nonvacuous :   (* dup_ts and dup_ts' differ as lists and list the three (1,1) triplets in the same relative order *)
  (forall t, In t dup_ts -> trow t < 2 /\ tcol t < 2) /\ (forall t, In t dup_ts' -> trow t < 2 /\ tcol t < 2) /\
  (forall i j, i < 2 -> j < 2 -> filter (tmatch i j) dup_ts = filter (tmatch i j) dup_ts') /\ map (@tcol AQ) dup_ts <> map (@tcol AQ) dup_ts'.
Proof. split; [exact dup_ts_in_range|]. split; [exact dup_ts'_in_range|]. split; [exact dup_ts_same_duplicate_order|]. vm_compute. discriminate. Qed.
