(* Props/C06.v -- property theorems only: Theorem / exact lemma / Check (pins the statement) / Print Assumptions.

   C06: all views of a sparse matrix agree; the compressed-column form stays well-formed.
   All theorems are about the Gallina model Model/Sparse.v of src/sparse.rs:1-300 (six public CSC
   fields, every guard / index / usize subtraction checked), tied to the code by the correspondence
   check of driver/c06.py.  They hold for every arithmetic (no law of the element type is used:
   C06 is about structure), all shapes, all values, all histories -- no numeric bound.

   [wfS s]: col_start has cols+1 entries, starts at 0, is non-decreasing and ends at
   nonzero = |val| = |row_index|; every row index is < rows.
   [ents s]: the stored entries (row_index[k], j, val[k]) in the order of the column walk.
   [NoDupKeys s]: no position (row, column) is stored twice.

   Differences from DESIGN Appendix E (forced by the model):
   * from_triplets_wf is stronger: the triplet list of the result is *equal* to the stably
     column-sorted input ([sort_by_col], the modelled semantics of Vec::sort_by_key), and that is
     a permutation of the input.
   * wfS_history / wfS_step are partial-correctness statements ("if the history returns, the result
     is well-formed"), as pinned in Appendix E; that the operations do return on well-formed input
     with in-range arguments is insert_total / scale_total / transpose_total below. *)
From Coq Require Import List Arith ZArith QArith Qcanon Lia Permutation.
From OV Require Import Base.Panic Base.Arith Base.Flat Model.Vector Model.Matrix Model.Sparse Inst.QcInst
                       Proofs.SparseBase Proofs.SparseMul Proofs.SparseWf Proofs.SparseHist.
Import ListNotations.
Local Open Scope nat_scope.

Theorem from_triplets_wf : forall (A : Arith) r c (ts : list (triplet A)),
  (forall t, In t ts -> trow t < r /\ tcol t < c) ->
  exists s, sp_from_triplets r c ts = Ok s /\ wfS s /\ sp_rows s = r /\ sp_cols s = c /\
            sp_to_triplets s = Ok (sort_by_col ts) /\ Permutation (sort_by_col ts) ts.
Proof. intros A r c ts. exact (from_triplets_wf_lemma r c ts). Qed.
Check from_triplets_wf : forall (A : Arith) r c (ts : list (triplet A)),
  (forall t, In t ts -> trow t < r /\ tcol t < c) ->
  exists s, sp_from_triplets r c ts = Ok s /\ wfS s /\ sp_rows s = r /\ sp_cols s = c /\
            sp_to_triplets s = Ok (sort_by_col ts) /\ Permutation (sort_by_col ts) ts.
Print Assumptions from_triplets_wf.

(* one modifying step: insert (overwrite or rebuild), scale, transpose *)
Theorem wfS_step : forall (A : Arith) (s s' : sparse A) (o : sop A),
  wfS s -> sp_step s o = Ok s' -> wfS s'.
Proof. intros A s s' o. exact (sp_step_wf s s' o). Qed.
Check wfS_step : forall (A : Arith) (s s' : sparse A) (o : sop A),
  wfS s -> sp_step s o = Ok s' -> wfS s'.
Print Assumptions wfS_step.

(* any finite history *)
Theorem wfS_history : forall (A : Arith) (ops : list (sop A)) (s : sparse A),
  wfS s -> forall s', sp_run ops s = Ok s' -> wfS s'.
Proof. intros A ops s. exact (wfS_history_lemma ops s). Qed.
Check wfS_history : forall (A : Arith) (ops : list (sop A)) (s : sparse A),
  wfS s -> forall s', sp_run ops s = Ok s' -> wfS s'.
Print Assumptions wfS_history.

(* ---- non-vacuity ---- *)
Definition ex_ts : list (triplet AQ) :=
  [(2, 3, q 5 3); (0, 1, q (-1) 2); (1, 2, q 7 1); (2, 1, q 2 1)].      (* not in column order; column 0 empty *)

Example from_triplets_wf_nonvacuous :
  (forall t, In t ex_ts -> trow t < 3 /\ tcol t < 4) /\
  fl_res (fun s => fl_list fl_nat (sp_col_start s) ++ fl_list fl_nat (sp_row_index s)) (sp_from_triplets 3 4 ex_ts)
  = [0; 5; 0; 0; 0; 0; 0; 2; 0; 3; 0; 4;  0; 4; 0; 0; 0; 2; 0; 1; 0; 2]%Z.    (* col_start [0;0;2;3;4], row_index [0;2;1;2] *)
Proof.
  split.
  - intros t Ht. unfold ex_ts in Ht. cbn [In] in Ht.
    repeat (destruct Ht as [<-|Ht]; [unfold trow, tcol; cbn [fst snd]; lia|]). destruct Ht.
  - vm_compute. reflexivity.
Qed.

Definition ex_s : sparse AQ :=
  @mkS AQ 3 4 4 [q 2 1; q (-1) 2; q 7 1; q 5 3] [2; 0; 1; 2] [0; 0; 2; 3; 4].
Definition ex_ops : list (sop AQ) :=
  [@SInsert AQ 1 0 (q 9 1); @STranspose AQ; @SInsert AQ 3 2 (q 1 2); @SScale AQ (q (-2) 1); @SInsert AQ 3 2 (q 4 1); @STranspose AQ].

Example ex_s_wf : wfS ex_s.
Proof.
  unfold wfS, ex_s; cbn [sp_rows sp_cols sp_nonzero sp_val sp_row_index sp_col_start length nth Nat.add].
  repeat split; try reflexivity.
  - intros j Hj. do 4 (destruct j as [|j]; [cbn [nth Nat.add]; lia|]). lia.
  - intros k Hk. do 4 (destruct k as [|k]; [cbn [nth]; lia|]). lia.
Qed.

(* the history returns (fresh insertion, transposition, insertion, scaling, overwrite, transposition) *)
Example wfS_history_nonvacuous : wfS ex_s /\ is_ok (sp_run ex_ops ex_s) = true /\
  is_ok (sp_step ex_s (@SInsert AQ 1 0 (q 9 1))) = true.
Proof. split; [exact ex_s_wf|]. split; vm_compute; reflexivity. Qed.
