(* Props/C20.v -- property theorems only.  guard_<entry>: for all (non-negative) sizes and arguments, the explicit guards
   of the entry point -- as regenerated from /repo/src into gen/GuardTable.v on this run -- let the call through
   exactly when the arguments are conformable / in the documented range (Model/Guards.v). *)
From Coq Require Import ZArith Bool Lia.
From OV Require Import gen.GuardTable Model.Guards Proofs.Guards.
Local Open Scope Z_scope.

Theorem guard_vec_add_ref : forall n1 n2 : Z, 0 <= n1 -> 0 <= n2 -> (g_vec_add_ref n1 n2 = false <-> ok_vec_add_ref n1 n2).
Proof. exact guard_vec_add_ref_lemma. Qed.
Check guard_vec_add_ref : forall n1 n2 : Z, 0 <= n1 -> 0 <= n2 -> (g_vec_add_ref n1 n2 = false <-> ok_vec_add_ref n1 n2).
Print Assumptions guard_vec_add_ref.

Theorem guard_vec_sub_ref : forall n1 n2 : Z, 0 <= n1 -> 0 <= n2 -> (g_vec_sub_ref n1 n2 = false <-> ok_vec_sub_ref n1 n2).
Proof. exact guard_vec_sub_ref_lemma. Qed.
Check guard_vec_sub_ref : forall n1 n2 : Z, 0 <= n1 -> 0 <= n2 -> (g_vec_sub_ref n1 n2 = false <-> ok_vec_sub_ref n1 n2).
Print Assumptions guard_vec_sub_ref.

Theorem guard_vec_add_assign : forall n1 n2 : Z, 0 <= n1 -> 0 <= n2 -> (g_vec_add_assign n1 n2 = false <-> ok_vec_add_assign n1 n2).
Proof. exact guard_vec_add_assign_lemma. Qed.
Check guard_vec_add_assign : forall n1 n2 : Z, 0 <= n1 -> 0 <= n2 -> (g_vec_add_assign n1 n2 = false <-> ok_vec_add_assign n1 n2).
Print Assumptions guard_vec_add_assign.

Theorem guard_vec_sub_assign : forall n1 n2 : Z, 0 <= n1 -> 0 <= n2 -> (g_vec_sub_assign n1 n2 = false <-> ok_vec_sub_assign n1 n2).
Proof. exact guard_vec_sub_assign_lemma. Qed.
Check guard_vec_sub_assign : forall n1 n2 : Z, 0 <= n1 -> 0 <= n2 -> (g_vec_sub_assign n1 n2 = false <-> ok_vec_sub_assign n1 n2).
Print Assumptions guard_vec_sub_assign.

Theorem guard_vec_dot : forall n1 n2 : Z, 0 <= n1 -> 0 <= n2 -> (g_vec_dot n1 n2 = false <-> ok_vec_dot n1 n2).
Proof. exact guard_vec_dot_lemma. Qed.
Check guard_vec_dot : forall n1 n2 : Z, 0 <= n1 -> 0 <= n2 -> (g_vec_dot n1 n2 = false <-> ok_vec_dot n1 n2).
Print Assumptions guard_vec_dot.

Theorem guard_vec_dot_f64 : forall n1 n2 : Z, 0 <= n1 -> 0 <= n2 -> (g_vec_dot_f64 n1 n2 = false <-> ok_vec_dot_f64 n1 n2).
Proof. exact guard_vec_dot_f64_lemma. Qed.
Check guard_vec_dot_f64 : forall n1 n2 : Z, 0 <= n1 -> 0 <= n2 -> (g_vec_dot_f64 n1 n2 = false <-> ok_vec_dot_f64 n1 n2).
Print Assumptions guard_vec_dot_f64.

Theorem guard_vec_sum_slice : forall n s e : Z, 0 <= n -> 0 <= s -> 0 <= e -> (g_vec_sum_slice n s e = false <-> ok_vec_sum_slice n s e).
Proof. exact guard_vec_sum_slice_lemma. Qed.
Check guard_vec_sum_slice : forall n s e : Z, 0 <= n -> 0 <= s -> 0 <= e -> (g_vec_sum_slice n s e = false <-> ok_vec_sum_slice n s e).
Print Assumptions guard_vec_sum_slice.

Theorem guard_vec_product_slice : forall n s e : Z, 0 <= n -> 0 <= s -> 0 <= e -> (g_vec_product_slice n s e = false <-> ok_vec_product_slice n s e).
Proof. exact guard_vec_product_slice_lemma. Qed.
Check guard_vec_product_slice : forall n s e : Z, 0 <= n -> 0 <= s -> 0 <= e -> (g_vec_product_slice n s e = false <-> ok_vec_product_slice n s e).
Print Assumptions guard_vec_product_slice.

Theorem guard_mat_get_row : forall r c row : Z, 0 <= r -> 0 <= c -> 0 <= row -> (g_mat_get_row r c row = false <-> ok_mat_get_row r c row).
Proof. exact guard_mat_get_row_lemma. Qed.
Check guard_mat_get_row : forall r c row : Z, 0 <= r -> 0 <= c -> 0 <= row -> (g_mat_get_row r c row = false <-> ok_mat_get_row r c row).
Print Assumptions guard_mat_get_row.

Theorem guard_mat_get_col : forall r c col : Z, 0 <= r -> 0 <= c -> 0 <= col -> (g_mat_get_col r c col = false <-> ok_mat_get_col r c col).
Proof. exact guard_mat_get_col_lemma. Qed.
Check guard_mat_get_col : forall r c col : Z, 0 <= r -> 0 <= c -> 0 <= col -> (g_mat_get_col r c col = false <-> ok_mat_get_col r c col).
Print Assumptions guard_mat_get_col.

Theorem guard_mat_set_row : forall r c row vl : Z, 0 <= r -> 0 <= c -> 0 <= row -> 0 <= vl -> (g_mat_set_row r c row vl = false <-> ok_mat_set_row r c row vl).
Proof. exact guard_mat_set_row_lemma. Qed.
Check guard_mat_set_row : forall r c row vl : Z, 0 <= r -> 0 <= c -> 0 <= row -> 0 <= vl -> (g_mat_set_row r c row vl = false <-> ok_mat_set_row r c row vl).
Print Assumptions guard_mat_set_row.

Theorem guard_mat_set_col : forall r c col vl : Z, 0 <= r -> 0 <= c -> 0 <= col -> 0 <= vl -> (g_mat_set_col r c col vl = false <-> ok_mat_set_col r c col vl).
Proof. exact guard_mat_set_col_lemma. Qed.
Check guard_mat_set_col : forall r c col vl : Z, 0 <= r -> 0 <= c -> 0 <= col -> 0 <= vl -> (g_mat_set_col r c col vl = false <-> ok_mat_set_col r c col vl).
Print Assumptions guard_mat_set_col.

Theorem guard_mat_delete_row : forall r c row : Z, 0 <= r -> 0 <= c -> 0 <= row -> (g_mat_delete_row r c row = false <-> ok_mat_delete_row r c row).
Proof. exact guard_mat_delete_row_lemma. Qed.
Check guard_mat_delete_row : forall r c row : Z, 0 <= r -> 0 <= c -> 0 <= row -> (g_mat_delete_row r c row = false <-> ok_mat_delete_row r c row).
Print Assumptions guard_mat_delete_row.

Theorem guard_mat_multiply : forall r c vl : Z, 0 <= r -> 0 <= c -> 0 <= vl -> (g_mat_multiply r c vl = false <-> ok_mat_multiply r c vl).
Proof. exact guard_mat_multiply_lemma. Qed.
Check guard_mat_multiply : forall r c vl : Z, 0 <= r -> 0 <= c -> 0 <= vl -> (g_mat_multiply r c vl = false <-> ok_mat_multiply r c vl).
Print Assumptions guard_mat_multiply.

Theorem guard_mat_swap_rows : forall r c r1 r2 : Z, 0 <= r -> 0 <= c -> 0 <= r1 -> 0 <= r2 -> (g_mat_swap_rows r c r1 r2 = false <-> ok_mat_swap_rows r c r1 r2).
Proof. exact guard_mat_swap_rows_lemma. Qed.
Check guard_mat_swap_rows : forall r c r1 r2 : Z, 0 <= r -> 0 <= c -> 0 <= r1 -> 0 <= r2 -> (g_mat_swap_rows r c r1 r2 = false <-> ok_mat_swap_rows r c r1 r2).
Print Assumptions guard_mat_swap_rows.

Theorem guard_mat_fill_row : forall r c row : Z, 0 <= r -> 0 <= c -> 0 <= row -> (g_mat_fill_row r c row = false <-> ok_mat_fill_row r c row).
Proof. exact guard_mat_fill_row_lemma. Qed.
Check guard_mat_fill_row : forall r c row : Z, 0 <= r -> 0 <= c -> 0 <= row -> (g_mat_fill_row r c row = false <-> ok_mat_fill_row r c row).
Print Assumptions guard_mat_fill_row.

Theorem guard_mat_fill_col : forall r c col : Z, 0 <= r -> 0 <= c -> 0 <= col -> (g_mat_fill_col r c col = false <-> ok_mat_fill_col r c col).
Proof. exact guard_mat_fill_col_lemma. Qed.
Check guard_mat_fill_col : forall r c col : Z, 0 <= r -> 0 <= c -> 0 <= col -> (g_mat_fill_col r c col = false <-> ok_mat_fill_col r c col).
Print Assumptions guard_mat_fill_col.

Theorem guard_mat_solve_basic : forall r c bl : Z, 0 <= r -> 0 <= c -> 0 <= bl -> (g_mat_solve_basic r c bl = false <-> ok_mat_solve_basic r c bl).
Proof. exact guard_mat_solve_basic_lemma. Qed.
Check guard_mat_solve_basic : forall r c bl : Z, 0 <= r -> 0 <= c -> 0 <= bl -> (g_mat_solve_basic r c bl = false <-> ok_mat_solve_basic r c bl).
Print Assumptions guard_mat_solve_basic.

Theorem guard_mat_lu : forall r c : Z, 0 <= r -> 0 <= c -> (g_mat_lu r c = false <-> ok_mat_lu r c).
Proof. exact guard_mat_lu_lemma. Qed.
Check guard_mat_lu : forall r c : Z, 0 <= r -> 0 <= c -> (g_mat_lu r c = false <-> ok_mat_lu r c).
Print Assumptions guard_mat_lu.

Theorem guard_mat_solve_lu : forall r c bl : Z, 0 <= r -> 0 <= c -> 0 <= bl -> (g_mat_solve_lu r c bl = false <-> ok_mat_solve_lu r c bl).
Proof. exact guard_mat_solve_lu_lemma. Qed.
Check guard_mat_solve_lu : forall r c bl : Z, 0 <= r -> 0 <= c -> 0 <= bl -> (g_mat_solve_lu r c bl = false <-> ok_mat_solve_lu r c bl).
Print Assumptions guard_mat_solve_lu.

Theorem guard_mat_inverse : forall r c : Z, 0 <= r -> 0 <= c -> (g_mat_inverse r c = false <-> ok_mat_inverse r c).
Proof. exact guard_mat_inverse_lemma. Qed.
Check guard_mat_inverse : forall r c : Z, 0 <= r -> 0 <= c -> (g_mat_inverse r c = false <-> ok_mat_inverse r c).
Print Assumptions guard_mat_inverse.

Theorem guard_mat_determinant : forall r c : Z, 0 <= r -> 0 <= c -> (g_mat_determinant r c = false <-> ok_mat_determinant r c).
Proof. exact guard_mat_determinant_lemma. Qed.
Check guard_mat_determinant : forall r c : Z, 0 <= r -> 0 <= c -> (g_mat_determinant r c = false <-> ok_mat_determinant r c).
Print Assumptions guard_mat_determinant.

Theorem guard_mat_add_ref : forall r c r2 c2 : Z, 0 <= r -> 0 <= c -> 0 <= r2 -> 0 <= c2 -> (g_mat_add_ref r c r2 c2 = false <-> ok_mat_add_ref r c r2 c2).
Proof. exact guard_mat_add_ref_lemma. Qed.
Check guard_mat_add_ref : forall r c r2 c2 : Z, 0 <= r -> 0 <= c -> 0 <= r2 -> 0 <= c2 -> (g_mat_add_ref r c r2 c2 = false <-> ok_mat_add_ref r c r2 c2).
Print Assumptions guard_mat_add_ref.

Theorem guard_mat_sub_ref : forall r c r2 c2 : Z, 0 <= r -> 0 <= c -> 0 <= r2 -> 0 <= c2 -> (g_mat_sub_ref r c r2 c2 = false <-> ok_mat_sub_ref r c r2 c2).
Proof. exact guard_mat_sub_ref_lemma. Qed.
Check guard_mat_sub_ref : forall r c r2 c2 : Z, 0 <= r -> 0 <= c -> 0 <= r2 -> 0 <= c2 -> (g_mat_sub_ref r c r2 c2 = false <-> ok_mat_sub_ref r c r2 c2).
Print Assumptions guard_mat_sub_ref.

Theorem guard_mat_add_assign_ref : forall r c r2 c2 : Z, 0 <= r -> 0 <= c -> 0 <= r2 -> 0 <= c2 -> (g_mat_add_assign_ref r c r2 c2 = false <-> ok_mat_add_assign_ref r c r2 c2).
Proof. exact guard_mat_add_assign_ref_lemma. Qed.
Check guard_mat_add_assign_ref : forall r c r2 c2 : Z, 0 <= r -> 0 <= c -> 0 <= r2 -> 0 <= c2 -> (g_mat_add_assign_ref r c r2 c2 = false <-> ok_mat_add_assign_ref r c r2 c2).
Print Assumptions guard_mat_add_assign_ref.

Theorem guard_mat_sub_assign_ref : forall r c r2 c2 : Z, 0 <= r -> 0 <= c -> 0 <= r2 -> 0 <= c2 -> (g_mat_sub_assign_ref r c r2 c2 = false <-> ok_mat_sub_assign_ref r c r2 c2).
Proof. exact guard_mat_sub_assign_ref_lemma. Qed.
Check guard_mat_sub_assign_ref : forall r c r2 c2 : Z, 0 <= r -> 0 <= c -> 0 <= r2 -> 0 <= c2 -> (g_mat_sub_assign_ref r c r2 c2 = false <-> ok_mat_sub_assign_ref r c r2 c2).
Print Assumptions guard_mat_sub_assign_ref.

Theorem guard_mat_mul_ref : forall r c r2 c2 : Z, 0 <= r -> 0 <= c -> 0 <= r2 -> 0 <= c2 -> (g_mat_mul_ref r c r2 c2 = false <-> ok_mat_mul_ref r c r2 c2).
Proof. exact guard_mat_mul_ref_lemma. Qed.
Check guard_mat_mul_ref : forall r c r2 c2 : Z, 0 <= r -> 0 <= c -> 0 <= r2 -> 0 <= c2 -> (g_mat_mul_ref r c r2 c2 = false <-> ok_mat_mul_ref r c r2 c2).
Print Assumptions guard_mat_mul_ref.

Theorem guard_band_fill_band : forall n m1 m2 band : Z, 0 <= n -> 0 <= m1 -> 0 <= m2 -> (g_band_fill_band n m1 m2 band = false <-> ok_band_fill_band n m1 m2 band).
Proof. exact guard_band_fill_band_lemma. Qed.
Check guard_band_fill_band : forall n m1 m2 band : Z, 0 <= n -> 0 <= m1 -> 0 <= m2 -> (g_band_fill_band n m1 m2 band = false <-> ok_band_fill_band n m1 m2 band).
Print Assumptions guard_band_fill_band.

Theorem guard_band_solve : forall n m1 m2 bl : Z, 0 <= n -> 0 <= m1 -> 0 <= m2 -> 0 <= bl -> (g_band_solve n m1 m2 bl = false <-> ok_band_solve n m1 m2 bl).
Proof. exact guard_band_solve_lemma. Qed.
Check guard_band_solve : forall n m1 m2 bl : Z, 0 <= n -> 0 <= m1 -> 0 <= m2 -> 0 <= bl -> (g_band_solve n m1 m2 bl = false <-> ok_band_solve n m1 m2 bl).
Print Assumptions guard_band_solve.

Theorem guard_band_index : forall n m1 m2 i j : Z, 0 <= n -> 0 <= m1 -> 0 <= m2 -> 0 <= i -> 0 <= j -> (g_band_index n m1 m2 i j = false <-> ok_band_index n m1 m2 i j).
Proof. exact guard_band_index_lemma. Qed.
Check guard_band_index : forall n m1 m2 i j : Z, 0 <= n -> 0 <= m1 -> 0 <= m2 -> 0 <= i -> 0 <= j -> (g_band_index n m1 m2 i j = false <-> ok_band_index n m1 m2 i j).
Print Assumptions guard_band_index.

Theorem guard_band_index_mut : forall n m1 m2 i j : Z, 0 <= n -> 0 <= m1 -> 0 <= m2 -> 0 <= i -> 0 <= j -> (g_band_index_mut n m1 m2 i j = false <-> ok_band_index_mut n m1 m2 i j).
Proof. exact guard_band_index_mut_lemma. Qed.
Check guard_band_index_mut : forall n m1 m2 i j : Z, 0 <= n -> 0 <= m1 -> 0 <= m2 -> 0 <= i -> 0 <= j -> (g_band_index_mut n m1 m2 i j = false <-> ok_band_index_mut n m1 m2 i j).
Print Assumptions guard_band_index_mut.

Theorem guard_band_add_ref : forall n m1 m2 n2 p1 p2 : Z, 0 <= n -> 0 <= m1 -> 0 <= m2 -> 0 <= n2 -> 0 <= p1 -> 0 <= p2 -> (g_band_add_ref n m1 m2 n2 p1 p2 = false <-> ok_band_add_ref n m1 m2 n2 p1 p2).
Proof. exact guard_band_add_ref_lemma. Qed.
Check guard_band_add_ref : forall n m1 m2 n2 p1 p2 : Z, 0 <= n -> 0 <= m1 -> 0 <= m2 -> 0 <= n2 -> 0 <= p1 -> 0 <= p2 -> (g_band_add_ref n m1 m2 n2 p1 p2 = false <-> ok_band_add_ref n m1 m2 n2 p1 p2).
Print Assumptions guard_band_add_ref.

Theorem guard_band_sub_ref : forall n m1 m2 n2 p1 p2 : Z, 0 <= n -> 0 <= m1 -> 0 <= m2 -> 0 <= n2 -> 0 <= p1 -> 0 <= p2 -> (g_band_sub_ref n m1 m2 n2 p1 p2 = false <-> ok_band_sub_ref n m1 m2 n2 p1 p2).
Proof. exact guard_band_sub_ref_lemma. Qed.
Check guard_band_sub_ref : forall n m1 m2 n2 p1 p2 : Z, 0 <= n -> 0 <= m1 -> 0 <= m2 -> 0 <= n2 -> 0 <= p1 -> 0 <= p2 -> (g_band_sub_ref n m1 m2 n2 p1 p2 = false <-> ok_band_sub_ref n m1 m2 n2 p1 p2).
Print Assumptions guard_band_sub_ref.

Theorem guard_band_add_assign_ref : forall n m1 m2 n2 p1 p2 : Z, 0 <= n -> 0 <= m1 -> 0 <= m2 -> 0 <= n2 -> 0 <= p1 -> 0 <= p2 -> (g_band_add_assign_ref n m1 m2 n2 p1 p2 = false <-> ok_band_add_assign_ref n m1 m2 n2 p1 p2).
Proof. exact guard_band_add_assign_ref_lemma. Qed.
Check guard_band_add_assign_ref : forall n m1 m2 n2 p1 p2 : Z, 0 <= n -> 0 <= m1 -> 0 <= m2 -> 0 <= n2 -> 0 <= p1 -> 0 <= p2 -> (g_band_add_assign_ref n m1 m2 n2 p1 p2 = false <-> ok_band_add_assign_ref n m1 m2 n2 p1 p2).
Print Assumptions guard_band_add_assign_ref.

Theorem guard_band_sub_assign_ref : forall n m1 m2 n2 p1 p2 : Z, 0 <= n -> 0 <= m1 -> 0 <= m2 -> 0 <= n2 -> 0 <= p1 -> 0 <= p2 -> (g_band_sub_assign_ref n m1 m2 n2 p1 p2 = false <-> ok_band_sub_assign_ref n m1 m2 n2 p1 p2).
Proof. exact guard_band_sub_assign_ref_lemma. Qed.
Check guard_band_sub_assign_ref : forall n m1 m2 n2 p1 p2 : Z, 0 <= n -> 0 <= m1 -> 0 <= m2 -> 0 <= n2 -> 0 <= p1 -> 0 <= p2 -> (g_band_sub_assign_ref n m1 m2 n2 p1 p2 = false <-> ok_band_sub_assign_ref n m1 m2 n2 p1 p2).
Print Assumptions guard_band_sub_assign_ref.

Theorem guard_band_mul_vec : forall n m1 m2 vl : Z, 0 <= n -> 0 <= m1 -> 0 <= m2 -> 0 <= vl -> (g_band_mul_vec n m1 m2 vl = false <-> ok_band_mul_vec n m1 m2 vl).
Proof. exact guard_band_mul_vec_lemma. Qed.
Check guard_band_mul_vec : forall n m1 m2 vl : Z, 0 <= n -> 0 <= m1 -> 0 <= m2 -> 0 <= vl -> (g_band_mul_vec n m1 m2 vl = false <-> ok_band_mul_vec n m1 m2 vl).
Print Assumptions guard_band_mul_vec.

Theorem guard_tri_with_vectors : forall ns nm nu : Z, 0 <= ns -> 0 <= nm -> 0 <= nu -> (g_tri_with_vectors ns nm nu = false <-> ok_tri_with_vectors ns nm nu).
Proof. exact guard_tri_with_vectors_lemma. Qed.
Check guard_tri_with_vectors : forall ns nm nu : Z, 0 <= ns -> 0 <= nm -> 0 <= nu -> (g_tri_with_vectors ns nm nu = false <-> ok_tri_with_vectors ns nm nu).
Print Assumptions guard_tri_with_vectors.

Theorem guard_tri_with_vecs : forall ns nm nu : Z, 0 <= ns -> 0 <= nm -> 0 <= nu -> (g_tri_with_vecs ns nm nu = false <-> ok_tri_with_vecs ns nm nu).
Proof. exact guard_tri_with_vecs_lemma. Qed.
Check guard_tri_with_vecs : forall ns nm nu : Z, 0 <= ns -> 0 <= nm -> 0 <= nu -> (g_tri_with_vecs ns nm nu = false <-> ok_tri_with_vecs ns nm nu).
Print Assumptions guard_tri_with_vecs.

Theorem guard_tri_convert : forall n : Z, 0 <= n -> (g_tri_convert n = false <-> ok_tri_convert n).
Proof. exact guard_tri_convert_lemma. Qed.
Check guard_tri_convert : forall n : Z, 0 <= n -> (g_tri_convert n = false <-> ok_tri_convert n).
Print Assumptions guard_tri_convert.

Theorem guard_tri_solve : forall n rl : Z, 0 <= n -> 0 <= rl -> (g_tri_solve n rl = false <-> ok_tri_solve n rl).
Proof. exact guard_tri_solve_lemma. Qed.
Check guard_tri_solve : forall n rl : Z, 0 <= n -> 0 <= rl -> (g_tri_solve n rl = false <-> ok_tri_solve n rl).
Print Assumptions guard_tri_solve.

Theorem guard_tri_index : forall n i j : Z, 0 <= n -> 0 <= i -> 0 <= j -> (g_tri_index n i j = false <-> ok_tri_index n i j).
Proof. exact guard_tri_index_lemma. Qed.
Check guard_tri_index : forall n i j : Z, 0 <= n -> 0 <= i -> 0 <= j -> (g_tri_index n i j = false <-> ok_tri_index n i j).
Print Assumptions guard_tri_index.

Theorem guard_tri_index_mut : forall n i j : Z, 0 <= n -> 0 <= i -> 0 <= j -> (g_tri_index_mut n i j = false <-> ok_tri_index_mut n i j).
Proof. exact guard_tri_index_mut_lemma. Qed.
Check guard_tri_index_mut : forall n i j : Z, 0 <= n -> 0 <= i -> 0 <= j -> (g_tri_index_mut n i j = false <-> ok_tri_index_mut n i j).
Print Assumptions guard_tri_index_mut.

Theorem guard_tri_add : forall n1 n2 : Z, 0 <= n1 -> 0 <= n2 -> (g_tri_add n1 n2 = false <-> ok_tri_add n1 n2).
Proof. exact guard_tri_add_lemma. Qed.
Check guard_tri_add : forall n1 n2 : Z, 0 <= n1 -> 0 <= n2 -> (g_tri_add n1 n2 = false <-> ok_tri_add n1 n2).
Print Assumptions guard_tri_add.

Theorem guard_tri_sub : forall n1 n2 : Z, 0 <= n1 -> 0 <= n2 -> (g_tri_sub n1 n2 = false <-> ok_tri_sub n1 n2).
Proof. exact guard_tri_sub_lemma. Qed.
Check guard_tri_sub : forall n1 n2 : Z, 0 <= n1 -> 0 <= n2 -> (g_tri_sub n1 n2 = false <-> ok_tri_sub n1 n2).
Print Assumptions guard_tri_sub.

Theorem guard_tri_mul_vec : forall n vl : Z, 0 <= n -> 0 <= vl -> (g_tri_mul_vec n vl = false <-> ok_tri_mul_vec n vl).
Proof. exact guard_tri_mul_vec_lemma. Qed.
Check guard_tri_mul_vec : forall n vl : Z, 0 <= n -> 0 <= vl -> (g_tri_mul_vec n vl = false <-> ok_tri_mul_vec n vl).
Print Assumptions guard_tri_mul_vec.

Theorem guard_sp_from_triplets : forall r c row col : Z, 0 <= r -> 0 <= c -> 0 <= row -> 0 <= col -> (g_sp_from_triplets r c row col = false <-> ok_sp_from_triplets r c row col).
Proof. exact guard_sp_from_triplets_lemma. Qed.
Check guard_sp_from_triplets : forall r c row col : Z, 0 <= r -> 0 <= c -> 0 <= row -> 0 <= col -> (g_sp_from_triplets r c row col = false <-> ok_sp_from_triplets r c row col).
Print Assumptions guard_sp_from_triplets.

Theorem guard_sp_get : forall r c row col : Z, 0 <= r -> 0 <= c -> 0 <= row -> 0 <= col -> (g_sp_get r c row col = false <-> ok_sp_get r c row col).
Proof. exact guard_sp_get_lemma. Qed.
Check guard_sp_get : forall r c row col : Z, 0 <= r -> 0 <= c -> 0 <= row -> 0 <= col -> (g_sp_get r c row col = false <-> ok_sp_get r c row col).
Print Assumptions guard_sp_get.

Theorem guard_sp_insert : forall r c row col : Z, 0 <= r -> 0 <= c -> 0 <= row -> 0 <= col -> (g_sp_insert r c row col = false <-> ok_sp_insert r c row col).
Proof. exact guard_sp_insert_lemma. Qed.
Check guard_sp_insert : forall r c row col : Z, 0 <= r -> 0 <= c -> 0 <= row -> 0 <= col -> (g_sp_insert r c row col = false <-> ok_sp_insert r c row col).
Print Assumptions guard_sp_insert.

Theorem guard_sp_multiply : forall r c xl : Z, 0 <= r -> 0 <= c -> 0 <= xl -> (g_sp_multiply r c xl = false <-> ok_sp_multiply r c xl).
Proof. exact guard_sp_multiply_lemma. Qed.
Check guard_sp_multiply : forall r c xl : Z, 0 <= r -> 0 <= c -> 0 <= xl -> (g_sp_multiply r c xl = false <-> ok_sp_multiply r c xl).
Print Assumptions guard_sp_multiply.

Theorem guard_sp_transpose_multiply : forall r c xl : Z, 0 <= r -> 0 <= c -> 0 <= xl -> (g_sp_transpose_multiply r c xl = false <-> ok_sp_transpose_multiply r c xl).
Proof. exact guard_sp_transpose_multiply_lemma. Qed.
Check guard_sp_transpose_multiply : forall r c xl : Z, 0 <= r -> 0 <= c -> 0 <= xl -> (g_sp_transpose_multiply r c xl = false <-> ok_sp_transpose_multiply r c xl).
Print Assumptions guard_sp_transpose_multiply.

Theorem guard_sp_solve_bicgstab : forall r c bl xl : Z, 0 <= r -> 0 <= c -> 0 <= bl -> 0 <= xl -> (g_sp_solve_bicgstab r c bl xl = false <-> ok_sp_solve_bicgstab r c bl xl).
Proof. exact guard_sp_solve_bicgstab_lemma. Qed.
Check guard_sp_solve_bicgstab : forall r c bl xl : Z, 0 <= r -> 0 <= c -> 0 <= bl -> 0 <= xl -> (g_sp_solve_bicgstab r c bl xl = false <-> ok_sp_solve_bicgstab r c bl xl).
Print Assumptions guard_sp_solve_bicgstab.

Theorem guard_sp_solve_cg : forall r c bl xl : Z, 0 <= r -> 0 <= c -> 0 <= bl -> 0 <= xl -> (g_sp_solve_cg r c bl xl = false <-> ok_sp_solve_cg r c bl xl).
Proof. exact guard_sp_solve_cg_lemma. Qed.
Check guard_sp_solve_cg : forall r c bl xl : Z, 0 <= r -> 0 <= c -> 0 <= bl -> 0 <= xl -> (g_sp_solve_cg r c bl xl = false <-> ok_sp_solve_cg r c bl xl).
Print Assumptions guard_sp_solve_cg.

Theorem guard_sp_solve_qmr : forall r c bl xl : Z, 0 <= r -> 0 <= c -> 0 <= bl -> 0 <= xl -> (g_sp_solve_qmr r c bl xl = false <-> ok_sp_solve_qmr r c bl xl).
Proof. exact guard_sp_solve_qmr_lemma. Qed.
Check guard_sp_solve_qmr : forall r c bl xl : Z, 0 <= r -> 0 <= c -> 0 <= bl -> 0 <= xl -> (g_sp_solve_qmr r c bl xl = false <-> ok_sp_solve_qmr r c bl xl).
Print Assumptions guard_sp_solve_qmr.

Theorem guard_sp_solve_bicg : forall r c bl xl itol : Z, 0 <= r -> 0 <= c -> 0 <= bl -> 0 <= xl -> 0 <= itol -> (g_sp_solve_bicg r c bl xl itol = false <-> ok_sp_solve_bicg r c bl xl itol).
Proof. exact guard_sp_solve_bicg_lemma. Qed.
Check guard_sp_solve_bicg : forall r c bl xl itol : Z, 0 <= r -> 0 <= c -> 0 <= bl -> 0 <= xl -> 0 <= itol -> (g_sp_solve_bicg r c bl xl itol = false <-> ok_sp_solve_bicg r c bl xl itol).
Print Assumptions guard_sp_solve_bicg.

Theorem guard_mesh1_set_nodes_vars : forall nn nv node vl : Z, 0 <= nn -> 0 <= nv -> 0 <= node -> 0 <= vl -> (g_mesh1_set_nodes_vars nn nv node vl = false <-> ok_mesh1_set_nodes_vars nn nv node vl).
Proof. exact guard_mesh1_set_nodes_vars_lemma. Qed.
Check guard_mesh1_set_nodes_vars : forall nn nv node vl : Z, 0 <= nn -> 0 <= nv -> 0 <= node -> 0 <= vl -> (g_mesh1_set_nodes_vars nn nv node vl = false <-> ok_mesh1_set_nodes_vars nn nv node vl).
Print Assumptions guard_mesh1_set_nodes_vars.

Theorem guard_mesh1_get_nodes_vars : forall nn nv node : Z, 0 <= nn -> 0 <= nv -> 0 <= node -> (g_mesh1_get_nodes_vars nn nv node = false <-> ok_mesh1_get_nodes_vars nn nv node).
Proof. exact guard_mesh1_get_nodes_vars_lemma. Qed.
Check guard_mesh1_get_nodes_vars : forall nn nv node : Z, 0 <= nn -> 0 <= nv -> 0 <= node -> (g_mesh1_get_nodes_vars nn nv node = false <-> ok_mesh1_get_nodes_vars nn nv node).
Print Assumptions guard_mesh1_get_nodes_vars.

Theorem guard_mesh2_set_nodes_vars : forall nx ny nv i j vl : Z, 0 <= nx -> 0 <= ny -> 0 <= nv -> 0 <= i -> 0 <= j -> 0 <= vl -> (g_mesh2_set_nodes_vars nx ny nv i j vl = false <-> ok_mesh2_set_nodes_vars nx ny nv i j vl).
Proof. exact guard_mesh2_set_nodes_vars_lemma. Qed.
Check guard_mesh2_set_nodes_vars : forall nx ny nv i j vl : Z, 0 <= nx -> 0 <= ny -> 0 <= nv -> 0 <= i -> 0 <= j -> 0 <= vl -> (g_mesh2_set_nodes_vars nx ny nv i j vl = false <-> ok_mesh2_set_nodes_vars nx ny nv i j vl).
Print Assumptions guard_mesh2_set_nodes_vars.

Theorem guard_mesh2_get_nodes_vars : forall nx ny i j : Z, 0 <= nx -> 0 <= ny -> 0 <= i -> 0 <= j -> (g_mesh2_get_nodes_vars nx ny i j = false <-> ok_mesh2_get_nodes_vars nx ny i j).
Proof. exact guard_mesh2_get_nodes_vars_lemma. Qed.
Check guard_mesh2_get_nodes_vars : forall nx ny i j : Z, 0 <= nx -> 0 <= ny -> 0 <= i -> 0 <= j -> (g_mesh2_get_nodes_vars nx ny i j = false <-> ok_mesh2_get_nodes_vars nx ny i j).
Print Assumptions guard_mesh2_get_nodes_vars.

Theorem guard_mesh2_var_as_matrix : forall nx ny nv var : Z, 0 <= nx -> 0 <= ny -> 0 <= nv -> 0 <= var -> (g_mesh2_var_as_matrix nx ny nv var = false <-> ok_mesh2_var_as_matrix nx ny nv var).
Proof. exact guard_mesh2_var_as_matrix_lemma. Qed.
Check guard_mesh2_var_as_matrix : forall nx ny nv var : Z, 0 <= nx -> 0 <= ny -> 0 <= nv -> 0 <= var -> (g_mesh2_var_as_matrix nx ny nv var = false <-> ok_mesh2_var_as_matrix nx ny nv var).
Print Assumptions guard_mesh2_var_as_matrix.

Theorem guard_poly_index : forall len i : Z, 0 <= len -> 0 <= i -> (g_poly_index len i = false <-> ok_poly_index len i).
Proof. exact guard_poly_index_lemma. Qed.
Check guard_poly_index : forall len i : Z, 0 <= len -> 0 <= i -> (g_poly_index len i = false <-> ok_poly_index len i).
Print Assumptions guard_poly_index.

Theorem guard_poly_index_mut : forall len i : Z, 0 <= len -> 0 <= i -> (g_poly_index_mut len i = false <-> ok_poly_index_mut len i).
Proof. exact guard_poly_index_mut_lemma. Qed.
Check guard_poly_index_mut : forall len i : Z, 0 <= len -> 0 <= i -> (g_poly_index_mut len i = false <-> ok_poly_index_mut len i).
Print Assumptions guard_poly_index_mut.

Theorem guard_poly_roots_degree : forall len : Z, 0 <= len -> 1 <= len -> (g_poly_roots_degree len = false <-> ok_poly_roots_degree len).
Proof. exact guard_poly_roots_degree_lemma. Qed.
Check guard_poly_roots_degree : forall len : Z, 0 <= len -> 1 <= len -> (g_poly_roots_degree len = false <-> ok_poly_roots_degree len).
Print Assumptions guard_poly_roots_degree.

(* non-vacuity: every range specification has an instance that holds (and the guards let it through) *)
Example guard_vec_add_ref_nonvacuous : ok_vec_add_ref (0) (0) /\ g_vec_add_ref (0) (0) = false.
Proof. unfold ok_vec_add_ref, g_vec_add_ref; split; [lia | reflexivity]. Qed.
Example guard_vec_sub_ref_nonvacuous : ok_vec_sub_ref (0) (0) /\ g_vec_sub_ref (0) (0) = false.
Proof. unfold ok_vec_sub_ref, g_vec_sub_ref; split; [lia | reflexivity]. Qed.
Example guard_vec_add_assign_nonvacuous : ok_vec_add_assign (0) (0) /\ g_vec_add_assign (0) (0) = false.
Proof. unfold ok_vec_add_assign, g_vec_add_assign; split; [lia | reflexivity]. Qed.
Example guard_vec_sub_assign_nonvacuous : ok_vec_sub_assign (0) (0) /\ g_vec_sub_assign (0) (0) = false.
Proof. unfold ok_vec_sub_assign, g_vec_sub_assign; split; [lia | reflexivity]. Qed.
Example guard_vec_dot_nonvacuous : ok_vec_dot (0) (0) /\ g_vec_dot (0) (0) = false.
Proof. unfold ok_vec_dot, g_vec_dot; split; [lia | reflexivity]. Qed.
Example guard_vec_dot_f64_nonvacuous : ok_vec_dot_f64 (0) (0) /\ g_vec_dot_f64 (0) (0) = false.
Proof. unfold ok_vec_dot_f64, g_vec_dot_f64; split; [lia | reflexivity]. Qed.
Example guard_vec_sum_slice_nonvacuous : ok_vec_sum_slice (1) (0) (0) /\ g_vec_sum_slice (1) (0) (0) = false.
Proof. unfold ok_vec_sum_slice, g_vec_sum_slice; split; [lia | reflexivity]. Qed.
Example guard_vec_product_slice_nonvacuous : ok_vec_product_slice (1) (0) (0) /\ g_vec_product_slice (1) (0) (0) = false.
Proof. unfold ok_vec_product_slice, g_vec_product_slice; split; [lia | reflexivity]. Qed.
Example guard_mat_get_row_nonvacuous : ok_mat_get_row (1) (0) (0) /\ g_mat_get_row (1) (0) (0) = false.
Proof. unfold ok_mat_get_row, g_mat_get_row; split; [lia | reflexivity]. Qed.
Example guard_mat_get_col_nonvacuous : ok_mat_get_col (0) (1) (0) /\ g_mat_get_col (0) (1) (0) = false.
Proof. unfold ok_mat_get_col, g_mat_get_col; split; [lia | reflexivity]. Qed.
Example guard_mat_set_row_nonvacuous : ok_mat_set_row (1) (0) (0) (0) /\ g_mat_set_row (1) (0) (0) (0) = false.
Proof. unfold ok_mat_set_row, g_mat_set_row; split; [lia | reflexivity]. Qed.
Example guard_mat_set_col_nonvacuous : ok_mat_set_col (0) (1) (0) (0) /\ g_mat_set_col (0) (1) (0) (0) = false.
Proof. unfold ok_mat_set_col, g_mat_set_col; split; [lia | reflexivity]. Qed.
Example guard_mat_delete_row_nonvacuous : ok_mat_delete_row (1) (0) (0) /\ g_mat_delete_row (1) (0) (0) = false.
Proof. unfold ok_mat_delete_row, g_mat_delete_row; split; [lia | reflexivity]. Qed.
Example guard_mat_multiply_nonvacuous : ok_mat_multiply (0) (0) (0) /\ g_mat_multiply (0) (0) (0) = false.
Proof. unfold ok_mat_multiply, g_mat_multiply; split; [lia | reflexivity]. Qed.
Example guard_mat_swap_rows_nonvacuous : ok_mat_swap_rows (1) (0) (0) (0) /\ g_mat_swap_rows (1) (0) (0) (0) = false.
Proof. unfold ok_mat_swap_rows, g_mat_swap_rows; split; [lia | reflexivity]. Qed.
Example guard_mat_fill_row_nonvacuous : ok_mat_fill_row (1) (0) (0) /\ g_mat_fill_row (1) (0) (0) = false.
Proof. unfold ok_mat_fill_row, g_mat_fill_row; split; [lia | reflexivity]. Qed.
Example guard_mat_fill_col_nonvacuous : ok_mat_fill_col (0) (1) (0) /\ g_mat_fill_col (0) (1) (0) = false.
Proof. unfold ok_mat_fill_col, g_mat_fill_col; split; [lia | reflexivity]. Qed.
Example guard_mat_solve_basic_nonvacuous : ok_mat_solve_basic (1) (1) (1) /\ g_mat_solve_basic (1) (1) (1) = false.
Proof. unfold ok_mat_solve_basic, g_mat_solve_basic; split; [lia | reflexivity]. Qed.
Example guard_mat_lu_nonvacuous : ok_mat_lu (0) (0) /\ g_mat_lu (0) (0) = false.
Proof. unfold ok_mat_lu, g_mat_lu; split; [lia | reflexivity]. Qed.
Example guard_mat_solve_lu_nonvacuous : ok_mat_solve_lu (1) (1) (1) /\ g_mat_solve_lu (1) (1) (1) = false.
Proof. unfold ok_mat_solve_lu, g_mat_solve_lu; split; [lia | reflexivity]. Qed.
Example guard_mat_inverse_nonvacuous : ok_mat_inverse (0) (0) /\ g_mat_inverse (0) (0) = false.
Proof. unfold ok_mat_inverse, g_mat_inverse; split; [lia | reflexivity]. Qed.
Example guard_mat_determinant_nonvacuous : ok_mat_determinant (0) (0) /\ g_mat_determinant (0) (0) = false.
Proof. unfold ok_mat_determinant, g_mat_determinant; split; [lia | reflexivity]. Qed.
Example guard_mat_add_ref_nonvacuous : ok_mat_add_ref (0) (0) (0) (0) /\ g_mat_add_ref (0) (0) (0) (0) = false.
Proof. unfold ok_mat_add_ref, g_mat_add_ref; split; [lia | reflexivity]. Qed.
Example guard_mat_sub_ref_nonvacuous : ok_mat_sub_ref (0) (0) (0) (0) /\ g_mat_sub_ref (0) (0) (0) (0) = false.
Proof. unfold ok_mat_sub_ref, g_mat_sub_ref; split; [lia | reflexivity]. Qed.
Example guard_mat_add_assign_ref_nonvacuous : ok_mat_add_assign_ref (0) (0) (0) (0) /\ g_mat_add_assign_ref (0) (0) (0) (0) = false.
Proof. unfold ok_mat_add_assign_ref, g_mat_add_assign_ref; split; [lia | reflexivity]. Qed.
Example guard_mat_sub_assign_ref_nonvacuous : ok_mat_sub_assign_ref (0) (0) (0) (0) /\ g_mat_sub_assign_ref (0) (0) (0) (0) = false.
Proof. unfold ok_mat_sub_assign_ref, g_mat_sub_assign_ref; split; [lia | reflexivity]. Qed.
Example guard_mat_mul_ref_nonvacuous : ok_mat_mul_ref (0) (0) (0) (0) /\ g_mat_mul_ref (0) (0) (0) (0) = false.
Proof. unfold ok_mat_mul_ref, g_mat_mul_ref; split; [lia | reflexivity]. Qed.
Example guard_band_fill_band_nonvacuous : ok_band_fill_band (0) (0) (0) (0) /\ g_band_fill_band (0) (0) (0) (0) = false.
Proof. unfold ok_band_fill_band, g_band_fill_band; split; [lia | reflexivity]. Qed.
Example guard_band_solve_nonvacuous : ok_band_solve (1) (0) (0) (1) /\ g_band_solve (1) (0) (0) (1) = false.
Proof. unfold ok_band_solve, g_band_solve; split; [lia | reflexivity]. Qed.
Example guard_band_index_nonvacuous : ok_band_index (1) (0) (0) (0) (0) /\ g_band_index (1) (0) (0) (0) (0) = false.
Proof. unfold ok_band_index, g_band_index; split; [lia | reflexivity]. Qed.
Example guard_band_index_mut_nonvacuous : ok_band_index_mut (1) (0) (0) (0) (0) /\ g_band_index_mut (1) (0) (0) (0) (0) = false.
Proof. unfold ok_band_index_mut, g_band_index_mut; split; [lia | reflexivity]. Qed.
Example guard_band_add_ref_nonvacuous : ok_band_add_ref (0) (0) (0) (0) (0) (0) /\ g_band_add_ref (0) (0) (0) (0) (0) (0) = false.
Proof. unfold ok_band_add_ref, g_band_add_ref; split; [lia | reflexivity]. Qed.
Example guard_band_sub_ref_nonvacuous : ok_band_sub_ref (0) (0) (0) (0) (0) (0) /\ g_band_sub_ref (0) (0) (0) (0) (0) (0) = false.
Proof. unfold ok_band_sub_ref, g_band_sub_ref; split; [lia | reflexivity]. Qed.
Example guard_band_add_assign_ref_nonvacuous : ok_band_add_assign_ref (0) (0) (0) (0) (0) (0) /\ g_band_add_assign_ref (0) (0) (0) (0) (0) (0) = false.
Proof. unfold ok_band_add_assign_ref, g_band_add_assign_ref; split; [lia | reflexivity]. Qed.
Example guard_band_sub_assign_ref_nonvacuous : ok_band_sub_assign_ref (0) (0) (0) (0) (0) (0) /\ g_band_sub_assign_ref (0) (0) (0) (0) (0) (0) = false.
Proof. unfold ok_band_sub_assign_ref, g_band_sub_assign_ref; split; [lia | reflexivity]. Qed.
Example guard_band_mul_vec_nonvacuous : ok_band_mul_vec (0) (0) (0) (0) /\ g_band_mul_vec (0) (0) (0) (0) = false.
Proof. unfold ok_band_mul_vec, g_band_mul_vec; split; [lia | reflexivity]. Qed.
Example guard_tri_with_vectors_nonvacuous : ok_tri_with_vectors (0) (1) (0) /\ g_tri_with_vectors (0) (1) (0) = false.
Proof. unfold ok_tri_with_vectors, g_tri_with_vectors; split; [lia | reflexivity]. Qed.
Example guard_tri_with_vecs_nonvacuous : ok_tri_with_vecs (0) (1) (0) /\ g_tri_with_vecs (0) (1) (0) = false.
Proof. unfold ok_tri_with_vecs, g_tri_with_vecs; split; [lia | reflexivity]. Qed.
Example guard_tri_convert_nonvacuous : ok_tri_convert (1) /\ g_tri_convert (1) = false.
Proof. unfold ok_tri_convert, g_tri_convert; split; [lia | reflexivity]. Qed.
Example guard_tri_solve_nonvacuous : ok_tri_solve (1) (1) /\ g_tri_solve (1) (1) = false.
Proof. unfold ok_tri_solve, g_tri_solve; split; [lia | reflexivity]. Qed.
Example guard_tri_index_nonvacuous : ok_tri_index (1) (0) (0) /\ g_tri_index (1) (0) (0) = false.
Proof. unfold ok_tri_index, g_tri_index; split; [lia | reflexivity]. Qed.
Example guard_tri_index_mut_nonvacuous : ok_tri_index_mut (1) (0) (0) /\ g_tri_index_mut (1) (0) (0) = false.
Proof. unfold ok_tri_index_mut, g_tri_index_mut; split; [lia | reflexivity]. Qed.
Example guard_tri_add_nonvacuous : ok_tri_add (1) (1) /\ g_tri_add (1) (1) = false.
Proof. unfold ok_tri_add, g_tri_add; split; [lia | reflexivity]. Qed.
Example guard_tri_sub_nonvacuous : ok_tri_sub (1) (1) /\ g_tri_sub (1) (1) = false.
Proof. unfold ok_tri_sub, g_tri_sub; split; [lia | reflexivity]. Qed.
Example guard_tri_mul_vec_nonvacuous : ok_tri_mul_vec (1) (1) /\ g_tri_mul_vec (1) (1) = false.
Proof. unfold ok_tri_mul_vec, g_tri_mul_vec; split; [lia | reflexivity]. Qed.
Example guard_sp_from_triplets_nonvacuous : ok_sp_from_triplets (1) (1) (0) (0) /\ g_sp_from_triplets (1) (1) (0) (0) = false.
Proof. unfold ok_sp_from_triplets, g_sp_from_triplets; split; [lia | reflexivity]. Qed.
Example guard_sp_get_nonvacuous : ok_sp_get (1) (1) (0) (0) /\ g_sp_get (1) (1) (0) (0) = false.
Proof. unfold ok_sp_get, g_sp_get; split; [lia | reflexivity]. Qed.
Example guard_sp_insert_nonvacuous : ok_sp_insert (1) (1) (0) (0) /\ g_sp_insert (1) (1) (0) (0) = false.
Proof. unfold ok_sp_insert, g_sp_insert; split; [lia | reflexivity]. Qed.
Example guard_sp_multiply_nonvacuous : ok_sp_multiply (0) (0) (0) /\ g_sp_multiply (0) (0) (0) = false.
Proof. unfold ok_sp_multiply, g_sp_multiply; split; [lia | reflexivity]. Qed.
Example guard_sp_transpose_multiply_nonvacuous : ok_sp_transpose_multiply (0) (0) (0) /\ g_sp_transpose_multiply (0) (0) (0) = false.
Proof. unfold ok_sp_transpose_multiply, g_sp_transpose_multiply; split; [lia | reflexivity]. Qed.
Example guard_sp_solve_bicgstab_nonvacuous : ok_sp_solve_bicgstab (0) (0) (0) (0) /\ g_sp_solve_bicgstab (0) (0) (0) (0) = false.
Proof. unfold ok_sp_solve_bicgstab, g_sp_solve_bicgstab; split; [lia | reflexivity]. Qed.
Example guard_sp_solve_cg_nonvacuous : ok_sp_solve_cg (0) (0) (0) (0) /\ g_sp_solve_cg (0) (0) (0) (0) = false.
Proof. unfold ok_sp_solve_cg, g_sp_solve_cg; split; [lia | reflexivity]. Qed.
Example guard_sp_solve_qmr_nonvacuous : ok_sp_solve_qmr (0) (0) (0) (0) /\ g_sp_solve_qmr (0) (0) (0) (0) = false.
Proof. unfold ok_sp_solve_qmr, g_sp_solve_qmr; split; [lia | reflexivity]. Qed.
Example guard_sp_solve_bicg_nonvacuous : ok_sp_solve_bicg (0) (0) (0) (0) (1) /\ g_sp_solve_bicg (0) (0) (0) (0) (1) = false.
Proof. unfold ok_sp_solve_bicg, g_sp_solve_bicg; split; [lia | reflexivity]. Qed.
Example guard_mesh1_set_nodes_vars_nonvacuous : ok_mesh1_set_nodes_vars (1) (0) (0) (0) /\ g_mesh1_set_nodes_vars (1) (0) (0) (0) = false.
Proof. unfold ok_mesh1_set_nodes_vars, g_mesh1_set_nodes_vars; split; [lia | reflexivity]. Qed.
Example guard_mesh1_get_nodes_vars_nonvacuous : ok_mesh1_get_nodes_vars (1) (0) (0) /\ g_mesh1_get_nodes_vars (1) (0) (0) = false.
Proof. unfold ok_mesh1_get_nodes_vars, g_mesh1_get_nodes_vars; split; [lia | reflexivity]. Qed.
Example guard_mesh2_set_nodes_vars_nonvacuous : ok_mesh2_set_nodes_vars (1) (1) (0) (0) (0) (0) /\ g_mesh2_set_nodes_vars (1) (1) (0) (0) (0) (0) = false.
Proof. unfold ok_mesh2_set_nodes_vars, g_mesh2_set_nodes_vars; split; [lia | reflexivity]. Qed.
Example guard_mesh2_get_nodes_vars_nonvacuous : ok_mesh2_get_nodes_vars (1) (1) (0) (0) /\ g_mesh2_get_nodes_vars (1) (1) (0) (0) = false.
Proof. unfold ok_mesh2_get_nodes_vars, g_mesh2_get_nodes_vars; split; [lia | reflexivity]. Qed.
Example guard_mesh2_var_as_matrix_nonvacuous : ok_mesh2_var_as_matrix (0) (0) (1) (0) /\ g_mesh2_var_as_matrix (0) (0) (1) (0) = false.
Proof. unfold ok_mesh2_var_as_matrix, g_mesh2_var_as_matrix; split; [lia | reflexivity]. Qed.
Example guard_poly_index_nonvacuous : ok_poly_index (1) (0) /\ g_poly_index (1) (0) = false.
Proof. unfold ok_poly_index, g_poly_index; split; [lia | reflexivity]. Qed.
Example guard_poly_index_mut_nonvacuous : ok_poly_index_mut (1) (0) /\ g_poly_index_mut (1) (0) = false.
Proof. unfold ok_poly_index_mut, g_poly_index_mut; split; [lia | reflexivity]. Qed.
Example guard_poly_roots_degree_nonvacuous : ok_poly_roots_degree (2) /\ g_poly_roots_degree (2) = false.
Proof. unfold ok_poly_roots_degree, g_poly_roots_degree; split; [lia | reflexivity]. Qed.
