(* Props/C20.v -- property theorems only.  guard_<entry>: for all (non-negative) sizes and arguments, the explicit guards
   of the entry point -- as regenerated from /repo/src into gen/GuardTable.v on this run -- let the call through
   exactly when the arguments are conformable / in the documented range (Model/Guards.v). *)
From Coq Require Import ZArith Bool Lia.
From OV Require Import gen.GuardTable Model.Guards Proofs.Guards.
Local Open Scope Z_scope.

Theorem guard_vec_add_ref : forall n1 n2 : Z, 0 <= n1 -> 0 <= n2 -> (g_vec_add_ref n1 n2 = false <-> ok_vec_add_ref n1 n2).
Proof. exact guard_vec_add_ref_lemma. Qed.
Check guard_vec_add_ref : forall n1 n2 : Z, 0 <= n1 -> 0 <= n2 -> (g_vec_add_ref n1 n2 = false <-> ok_vec_add_ref n1 n2).
Print Assumptions guard_vec_add_ref.

Theorem guard_vec_sub_ref : forall n1 n2 : Z, 0 <= n1 -> 0 <= n2 -> (g_vec_sub_ref n1 n2 = false <-> ok_vec_sub_ref n1 n2).
Proof. exact guard_vec_sub_ref_lemma. Qed.
Check guard_vec_sub_ref : forall n1 n2 : Z, 0 <= n1 -> 0 <= n2 -> (g_vec_sub_ref n1 n2 = false <-> ok_vec_sub_ref n1 n2).
Print Assumptions guard_vec_sub_ref.

Theorem guard_vec_add_assign : forall n1 n2 : Z, 0 <= n1 -> 0 <= n2 -> (g_vec_add_assign n1 n2 = false <-> ok_vec_add_assign n1 n2).
Proof. exact guard_vec_add_assign_lemma. Qed.
Check guard_vec_add_assign : forall n1 n2 : Z, 0 <= n1 -> 0 <= n2 -> (g_vec_add_assign n1 n2 = false <-> ok_vec_add_assign n1 n2).
Print Assumptions guard_vec_add_assign.

Theorem guard_vec_sub_assign : forall n1 n2 : Z, 0 <= n1 -> 0 <= n2 -> (g_vec_sub_assign n1 n2 = false <-> ok_vec_sub_assign n1 n2).
Proof. exact guard_vec_sub_assign_lemma. Qed.
Check guard_vec_sub_assign : forall n1 n2 : Z, 0 <= n1 -> 0 <= n2 -> (g_vec_sub_assign n1 n2 = false <-> ok_vec_sub_assign n1 n2).
Print Assumptions guard_vec_sub_assign.

Theorem guard_vec_dot : forall n1 n2 : Z, 0 <= n1 -> 0 <= n2 -> (g_vec_dot n1 n2 = false <-> ok_vec_dot n1 n2).
Proof. exact guard_vec_dot_lemma. Qed.
Check guard_vec_dot : forall n1 n2 : Z, 0 <= n1 -> 0 <= n2 -> (g_vec_dot n1 n2 = false <-> ok_vec_dot n1 n2).
Print Assumptions guard_vec_dot.

Theorem guard_vec_dot_f64 : forall n1 n2 : Z, 0 <= n1 -> 0 <= n2 -> (g_vec_dot_f64 n1 n2 = false <-> ok_vec_dot_f64 n1 n2).
Proof. exact guard_vec_dot_f64_lemma. Qed.
Check guard_vec_dot_f64 : forall n1 n2 : Z, 0 <= n1 -> 0 <= n2 -> (g_vec_dot_f64 n1 n2 = false <-> ok_vec_dot_f64 n1 n2).
Print Assumptions guard_vec_dot_f64.

Theorem guard_vec_sum_slice : forall n s e : Z, 0 <= n -> 0 <= s -> 0 <= e -> (g_vec_sum_slice n s e = false <-> ok_vec_sum_slice n s e).
Proof. exact guard_vec_sum_slice_lemma. Qed.
Check guard_vec_sum_slice : forall n s e : Z, 0 <= n -> 0 <= s -> 0 <= e -> (g_vec_sum_slice n s e = false <-> ok_vec_sum_slice n s e).
Print Assumptions guard_vec_sum_slice.

Theorem guard_vec_product_slice : forall n s e : Z, 0 <= n -> 0 <= s -> 0 <= e -> (g_vec_product_slice n s e = false <-> ok_vec_product_slice n s e).
Proof. exact guard_vec_product_slice_lemma. Qed.
Check guard_vec_product_slice : forall n s e : Z, 0 <= n -> 0 <= s -> 0 <= e -> (g_vec_product_slice n s e = false <-> ok_vec_product_slice n s e).
Print Assumptions guard_vec_product_slice.

Theorem guard_mat_get_row : forall r c row : Z, 0 <= r -> 0 <= c -> 0 <= row -> (g_mat_get_row r c row = false <-> ok_mat_get_row r c row).
Proof. exact guard_mat_get_row_lemma. Qed.
Check guard_mat_get_row : forall r c row : Z, 0 <= r -> 0 <= c -> 0 <= row -> (g_mat_get_row r c row = false <-> ok_mat_get_row r c row).
Print Assumptions guard_mat_get_row.

Theorem guard_mat_get_col : forall r c col : Z, 0 <= r -> 0 <= c -> 0 <= col -> (g_mat_get_col r c col = false <-> ok_mat_get_col r c col).
Proof. exact guard_mat_get_col_lemma. Qed.
Check guard_mat_get_col : forall r c col : Z, 0 <= r -> 0 <= c -> 0 <= col -> (g_mat_get_col r c col = false <-> ok_mat_get_col r c col).
Print Assumptions guard_mat_get_col.

Theorem guard_mat_set_row : forall r c row vl : Z, 0 <= r -> 0 <= c -> 0 <= row -> 0 <= vl -> (g_mat_set_row r c row vl = false <-> ok_mat_set_row r c row vl).
Proof. exact guard_mat_set_row_lemma. Qed.
Check guard_mat_set_row : forall r c row vl : Z, 0 <= r -> 0 <= c -> 0 <= row -> 0 <= vl -> (g_mat_set_row r c row vl = false <-> ok_mat_set_row r c row vl).
Print Assumptions guard_mat_set_row.

Theorem guard_mat_set_col : forall r c col vl : Z, 0 <= r -> 0 <= c -> 0 <= col -> 0 <= vl -> (g_mat_set_col r c col vl = false <-> ok_mat_set_col r c col vl).
Proof. exact guard_mat_set_col_lemma. Qed.
Check guard_mat_set_col : forall r c col vl : Z, 0 <= r -> 0 <= c -> 0 <= col -> 0 <= vl -> (g_mat_set_col r c col vl = false <-> ok_mat_set_col r c col vl).
Print Assumptions guard_mat_set_col.

Theorem guard_mat_delete_row : forall r c row : Z, 0 <= r -> 0 <= c -> 0 <= row -> (g_mat_delete_row r c row = false <-> ok_mat_delete_row r c row).
Proof. exact guard_mat_delete_row_lemma. Qed.
Check guard_mat_delete_row : forall r c row : Z, 0 <= r -> 0 <= c -> 0 <= row -> (g_mat_delete_row r c row = false <-> ok_mat_delete_row r c row).
Print Assumptions guard_mat_delete_row.

Theorem guard_mat_multiply : forall r c vl : Z, 0 <= r -> 0 <= c -> 0 <= vl -> (g_mat_multiply r c vl = false <-> ok_mat_multiply r c vl).
Proof. exact guard_mat_multiply_lemma. Qed.
Check guard_mat_multiply : forall r c vl : Z, 0 <= r -> 0 <= c -> 0 <= vl -> (g_mat_multiply r c vl = false <-> ok_mat_multiply r c vl).
Print Assumptions guard_mat_multiply.

Theorem guard_mat_swap_rows : forall r c r1 r2 : Z, 0 <= r -> 0 <= c -> 0 <= r1 -> 0 <= r2 -> (g_mat_swap_rows r c r1 r2 = false <-> ok_mat_swap_rows r c r1 r2).
Proof. exact guard_mat_swap_rows_lemma. Qed.
Check guard_mat_swap_rows : forall r c r1 r2 : Z, 0 <= r -> 0 <= c -> 0 <= r1 -> 0 <= r2 -> (g_mat_swap_rows r c r1 r2 = false <-> ok_mat_swap_rows r c r1 r2).
Print Assumptions guard_mat_swap_rows.

Theorem guard_mat_fill_row : forall r c row : Z, 0 <= r -> 0 <= c -> 0 <= row -> (g_mat_fill_row r c row = false <-> ok_mat_fill_row r c row).
Proof. exact guard_mat_fill_row_lemma. Qed.
Check guard_mat_fill_row : forall r c row : Z, 0 <= r -> 0 <= c -> 0 <= row -> (g_mat_fill_row r c row = false <-> ok_mat_fill_row r c row).
Print Assumptions guard_mat_fill_row.

Theorem guard_mat_fill_col : forall r c col : Z, 0 <= r -> 0 <= c -> 0 <= col -> (g_mat_fill_col r c col = false <-> ok_mat_fill_col r c col).
Proof. exact guard_mat_fill_col_lemma. Qed.
Check guard_mat_fill_col : forall r c col : Z, 0 <= r -> 0 <= c -> 0 <= col -> (g_mat_fill_col r c col = false <-> ok_mat_fill_col r c col).
Print Assumptions guard_mat_fill_col.

Theorem guard_mat_solve_basic : forall r c bl : Z, 0 <= r -> 0 <= c -> 0 <= bl -> (g_mat_solve_basic r c bl = false <-> ok_mat_solve_basic r c bl).
Proof. exact guard_mat_solve_basic_lemma. Qed.
Check guard_mat_solve_basic : forall r c bl : Z, 0 <= r -> 0 <= c -> 0 <= bl -> (g_mat_solve_basic r c bl = false <-> ok_mat_solve_basic r c bl).
Print Assumptions guard_mat_solve_basic.

Theorem guard_mat_lu : forall r c : Z, 0 <= r -> 0 <= c -> (g_mat_lu r c = false <-> ok_mat_lu r c).
Proof. exact guard_mat_lu_lemma. Qed.
Check guard_mat_lu : forall r c : Z, 0 <= r -> 0 <= c -> (g_mat_lu r c = false <-> ok_mat_lu r c).
Print Assumptions guard_mat_lu.

Theorem guard_mat_solve_lu : forall r c bl : Z, 0 <= r -> 0 <= c -> 0 <= bl -> (g_mat_solve_lu r c bl = false <-> ok_mat_solve_lu r c bl).
Proof. exact guard_mat_solve_lu_lemma. Qed.
Check guard_mat_solve_lu : forall r c bl : Z, 0 <= r -> 0 <= c -> 0 <= bl -> (g_mat_solve_lu r c bl = false <-> ok_mat_solve_lu r c bl).
Print Assumptions guard_mat_solve_lu.

Theorem guard_mat_inverse : forall r c : Z, 0 <= r -> 0 <= c -> (g_mat_inverse r c = false <-> ok_mat_inverse r c).
Proof. exact guard_mat_inverse_lemma. Qed.
Check guard_mat_inverse : forall r c : Z, 0 <= r -> 0 <= c -> (g_mat_inverse r c = false <-> ok_mat_inverse r c).
Print Assumptions guard_mat_inverse.

Theorem guard_mat_determinant : forall r c : Z, 0 <= r -> 0 <= c -> (g_mat_determinant r c = false <-> ok_mat_determinant r c).
Proof. exact guard_mat_determinant_lemma. Qed.
Check guard_mat_determinant : forall r c : Z, 0 <= r -> 0 <= c -> (g_mat_determinant r c = false <-> ok_mat_determinant r c).
Print Assumptions guard_mat_determinant.

Theorem guard_mat_add_ref : forall r c r2 c2 : Z, 0 <= r -> 0 <= c -> 0 <= r2 -> 0 <= c2 -> (g_mat_add_ref r c r2 c2 = false <-> ok_mat_add_ref r c r2 c2).
Proof. exact guard_mat_add_ref_lemma. Qed.
Check guard_mat_add_ref : forall r c r2 c2 : Z, 0 <= r -> 0 <= c -> 0 <= r2 -> 0 <= c2 -> (g_mat_add_ref r c r2 c2 = false <-> ok_mat_add_ref r c r2 c2).
Print Assumptions guard_mat_add_ref.

Theorem guard_mat_sub_ref : forall r c r2 c2 : Z, 0 <= r -> 0 <= c -> 0 <= r2 -> 0 <= c2 -> (g_mat_sub_ref r c r2 c2 = false <-> ok_mat_sub_ref r c r2 c2).
Proof. exact guard_mat_sub_ref_lemma. Qed.
Check guard_mat_sub_ref : forall r c r2 c2 : Z, 0 <= r -> 0 <= c -> 0 <= r2 -> 0 <= c2 -> (g_mat_sub_ref r c r2 c2 = false <-> ok_mat_sub_ref r c r2 c2).
Print Assumptions guard_mat_sub_ref.

Theorem guard_mat_add_assign_ref : forall r c r2 c2 : Z, 0 <= r -> 0 <= c -> 0 <= r2 -> 0 <= c2 -> (g_mat_add_assign_ref r c r2 c2 = false <-> ok_mat_add_assign_ref r c r2 c2).
Proof. exact guard_mat_add_assign_ref_lemma. Qed.
Check guard_mat_add_assign_ref : forall r c r2 c2 : Z, 0 <= r -> 0 <= c -> 0 <= r2 -> 0 <= c2 -> (g_mat_add_assign_ref r c r2 c2 = false <-> ok_mat_add_assign_ref r c r2 c2).
Print Assumptions guard_mat_add_assign_ref.

Theorem guard_mat_sub_assign_ref : forall r c r2 c2 : Z, 0 <= r -> 0 <= c -> 0 <= r2 -> 0 <= c2 -> (g_mat_sub_assign_ref r c r2 c2 = false <-> ok_mat_sub_assign_ref r c r2 c2).
Proof. exact guard_mat_sub_assign_ref_lemma. Qed.
Check guard_mat_sub_assign_ref : forall r c r2 c2 : Z, 0 <= r -> 0 <= c -> 0 <= r2 -> 0 <= c2 -> (g_mat_sub_assign_ref r c r2 c2 = false <-> ok_mat_sub_assign_ref r c r2 c2).
Print Assumptions guard_mat_sub_assign_ref.

Theorem guard_mat_mul_ref : forall r c r2 c2 : Z, 0 <= r -> 0 <= c -> 0 <= r2 -> 0 <= c2 -> (g_mat_mul_ref r c r2 c2 = false <-> ok_mat_mul_ref r c r2 c2).
Proof. exact guard_mat_mul_ref_lemma. Qed.
Check guard_mat_mul_ref : forall r c r2 c2 : Z, 0 <= r -> 0 <= c -> 0 <= r2 -> 0 <= c2 -> (g_mat_mul_ref r c r2 c2 = false <-> ok_mat_mul_ref r c r2 c2).
Print Assumptions guard_mat_mul_ref.

Theorem guard_band_fill_band : forall n m1 m2 band : Z, 0 <= n -> 0 <= m1 -> 0 <= m2 -> (g_band_fill_band n m1 m2 band = false <-> ok_band_fill_band n m1 m2 band).
Proof. exact guard_band_fill_band_lemma. Qed.
Check guard_band_fill_band : forall n m1 m2 band : Z, 0 <= n -> 0 <= m1 -> 0 <= m2 -> (g_band_fill_band n m1 m2 band = false <-> ok_band_fill_band n m1 m2 band).
Print Assumptions guard_band_fill_band.

Theorem guard_band_solve : forall n m1 m2 bl : Z, 0 <= n -> 0 <= m1 -> 0 <= m2 -> 0 <= bl -> (g_band_solve n m1 m2 bl = false <-> ok_band_solve n m1 m2 bl).
Proof. exact guard_band_solve_lemma. Qed.
Check guard_band_solve : forall n m1 m2 bl : Z, 0 <= n -> 0 <= m1 -> 0 <= m2 -> 0 <= bl -> (g_band_solve n m1 m2 bl = false <-> ok_band_solve n m1 m2 bl).
Print Assumptions guard_band_solve.

Theorem guard_band_index : forall n m1 m2 i j : Z, 0 <= n -> 0 <= m1 -> 0 <= m2 -> 0 <= i -> 0 <= j -> (g_band_index n m1 m2 i j = false <-> ok_band_index n m1 m2 i j).
Proof. exact guard_band_index_lemma. Qed.
Check guard_band_index : forall n m1 m2 i j : Z, 0 <= n -> 0 <= m1 -> 0 <= m2 -> 0 <= i -> 0 <= j -> (g_band_index n m1 m2 i j = false <-> ok_band_index n m1 m2 i j).
Print Assumptions guard_band_index.

Theorem guard_band_index_mut : forall n m1 m2 i j : Z, 0 <= n -> 0 <= m1 -> 0 <= m2 -> 0 <= i -> 0 <= j -> (g_band_index_mut n m1 m2 i j = false <-> ok_band_index_mut n m1 m2 i j).
Proof. exact guard_band_index_mut_lemma. Qed.
Check guard_band_index_mut : forall n m1 m2 i j : Z, 0 <= n -> 0 <= m1 -> 0 <= m2 -> 0 <= i -> 0 <= j -> (g_band_index_mut n m1 m2 i j = false <-> ok_band_index_mut n m1 m2 i j).
Print Assumptions guard_band_index_mut.

Theorem guard_band_add_ref : forall n m1 m2 n2 p1 p2 : Z, 0 <= n -> 0 <= m1 -> 0 <= m2 -> 0 <= n2 -> 0 <= p1 -> 0 <= p2 -> (g_band_add_ref n m1 m2 n2 p1 p2 = false <-> ok_band_add_ref n m1 m2 n2 p1 p2).
Proof. exact guard_band_add_ref_lemma. Qed.
Check guard_band_add_ref : forall n m1 m2 n2 p1 p2 : Z, 0 <= n -> 0 <= m1 -> 0 <= m2 -> 0 <= n2 -> 0 <= p1 -> 0 <= p2 -> (g_band_add_ref n m1 m2 n2 p1 p2 = false <-> ok_band_add_ref n m1 m2 n2 p1 p2).
Print Assumptions guard_band_add_ref.

Theorem guard_band_sub_ref : forall n m1 m2 n2 p1 p2 : Z, 0 <= n -> 0 <= m1 -> 0 <= m2 -> 0 <= n2 -> 0 <= p1 -> 0 <= p2 -> (g_band_sub_ref n m1 m2 n2 p1 p2 = false <-> ok_band_sub_ref n m1 m2 n2 p1 p2).
Proof. exact guard_band_sub_ref_lemma. Qed.
Check guard_band_sub_ref : forall n m1 m2 n2 p1 p2 : Z, 0 <= n -> 0 <= m1 -> 0 <= m2 -> 0 <= n2 -> 0 <= p1 -> 0 <= p2 -> (g_band_sub_ref n m1 m2 n2 p1 p2 = false <-> ok_band_sub_ref n m1 m2 n2 p1 p2).
Print Assumptions guard_band_sub_ref.

Theorem guard_band_add_assign_ref : forall n m1 m2 n2 p1 p2 : Z, 0 <= n -> 0 <= m1 -> 0 <= m2 -> 0 <= n2 -> 0 <= p1 -> 0 <= p2 -> (g_band_add_assign_ref n m1 m2 n2 p1 p2 = false <-> ok_band_add_assign_ref n m1 m2 n2 p1 p2).
Proof. exact guard_band_add_assign_ref_lemma. Qed.
Check guard_band_add_assign_ref : forall n m1 m2 n2 p1 p2 : Z, 0 <= n -> 0 <= m1 -> 0 <= m2 -> 0 <= n2 -> 0 <= p1 -> 0 <= p2 -> (g_band_add_assign_ref n m1 m2 n2 p1 p2 = false <-> ok_band_add_assign_ref n m1 m2 n2 p1 p2).
Print Assumptions guard_band_add_assign_ref.

Theorem guard_band_sub_assign_ref : forall n m1 m2 n2 p1 p2 : Z, 0 <= n -> 0 <= m1 -> 0 <= m2 -> 0 <= n2 -> 0 <= p1 -> 0 <= p2 -> (g_band_sub_assign_ref n m1 m2 n2 p1 p2 = false <-> ok_band_sub_assign_ref n m1 m2 n2 p1 p2).
Proof. exact guard_band_sub_assign_ref_lemma. Qed.
Check guard_band_sub_assign_ref : forall n m1 m2 n2 p1 p2 : Z, 0 <= n -> 0 <= m1 -> 0 <= m2 -> 0 <= n2 -> 0 <= p1 -> 0 <= p2 -> (g_band_sub_assign_ref n m1 m2 n2 p1 p2 = false <-> ok_band_sub_assign_ref n m1 m2 n2 p1 p2).
Print Assumptions guard_band_sub_assign_ref.

Theorem guard_band_mul_vec : forall n m1 m2 vl : Z, 0 <= n -> 0 <= m1 -> 0 <= m2 -> 0 <= vl -> (g_band_mul_vec n m1 m2 vl = false <-> ok_band_mul_vec n m1 m2 vl).
Proof. exact guard_band_mul_vec_lemma. Qed.
Check guard_band_mul_vec : forall n m1 m2 vl : Z, 0 <= n -> 0 <= m1 -> 0 <= m2 -> 0 <= vl -> (g_band_mul_vec n m1 m2 vl = false <-> ok_band_mul_vec n m1 m2 vl).
Print Assumptions guard_band_mul_vec.

Theorem guard_tri_with_vectors : forall ns nm nu : Z, 0 <= ns -> 0 <= nm -> 0 <= nu -> (g_tri_with_vectors ns nm nu = false <-> ok_tri_with_vectors ns nm nu).
Proof. exact guard_tri_with_vectors_lemma. Qed.
Check guard_tri_with_vectors : forall ns nm nu : Z, 0 <= ns -> 0 <= nm -> 0 <= nu -> (g_tri_with_vectors ns nm nu = false <-> ok_tri_with_vectors ns nm nu).
Print Assumptions guard_tri_with_vectors.

Theorem guard_tri_with_vecs : forall ns nm nu : Z, 0 <= ns -> 0 <= nm -> 0 <= nu -> (g_tri_with_vecs ns nm nu = false <-> ok_tri_with_vecs ns nm nu).
Proof. exact guard_tri_with_vecs_lemma. Qed.
Check guard_tri_with_vecs : forall ns nm nu : Z, 0 <= ns -> 0 <= nm -> 0 <= nu -> (g_tri_with_vecs ns nm nu = false <-> ok_tri_with_vecs ns nm nu).
Print Assumptions guard_tri_with_vecs.

Theorem guard_tri_convert : forall n : Z, 0 <= n -> (g_tri_convert n = false <-> ok_tri_convert n).
Proof. exact guard_tri_convert_lemma. Qed.
Check guard_tri_convert : forall n : Z, 0 <= n -> (g_tri_convert n = false <-> ok_tri_convert n).
Print Assumptions guard_tri_convert.

Theorem guard_tri_solve : forall n rl : Z, 0 <= n -> 0 <= rl -> (g_tri_solve n rl = false <-> ok_tri_solve n rl).
Proof. exact guard_tri_solve_lemma. Qed.
Check guard_tri_solve : forall n rl : Z, 0 <= n -> 0 <= rl -> (g_tri_solve n rl = false <-> ok_tri_solve n rl).
Print Assumptions guard_tri_solve.

Theorem guard_tri_index : forall n i j : Z, 0 <= n -> 0 <= i -> 0 <= j -> (g_tri_index n i j = false <-> ok_tri_index n i j).
Proof. exact guard_tri_index_lemma. Qed.
Check guard_tri_index : forall n i j : Z, 0 <= n -> 0 <= i -> 0 <= j -> (g_tri_index n i j = false <-> ok_tri_index n i j).
Print Assumptions guard_tri_index.

Theorem guard_tri_index_mut : forall n i j : Z, 0 <= n -> 0 <= i -> 0 <= j -> (g_tri_index_mut n i j = false <-> ok_tri_index_mut n i j).
Proof. exact guard_tri_index_mut_lemma. Qed.
Check guard_tri_index_mut : forall n i j : Z, 0 <= n -> 0 <= i -> 0 <= j -> (g_tri_index_mut n i j = false <-> ok_tri_index_mut n i j).
Print Assumptions guard_tri_index_mut.

Theorem guard_tri_add : forall n1 n2 : Z, 0 <= n1 -> 0 <= n2 -> (g_tri_add n1 n2 = false <-> ok_tri_add n1 n2).
Proof. exact guard_tri_add_lemma. Qed.
Check guard_tri_add : forall n1 n2 : Z, 0 <= n1 -> 0 <= n2 -> (g_tri_add n1 n2 = false <-> ok_tri_add n1 n2).
Print Assumptions guard_tri_add.

Theorem guard_tri_sub : forall n1 n2 : Z, 0 <= n1 -> 0 <= n2 -> (g_tri_sub n1 n2 = false <-> ok_tri_sub n1 n2).
Proof. exact guard_tri_sub_lemma. Qed.
Check guard_tri_sub : forall n1 n2 : Z, 0 <= n1 -> 0 <= n2 -> (g_tri_sub n1 n2 = false <-> ok_tri_sub n1 n2).
Print Assumptions guard_tri_sub.

Theorem guard_tri_mul_vec : forall n vl : Z, 0 <= n -> 0 <= vl -> (g_tri_mul_vec n vl = false <-> ok_tri_mul_vec n vl).
Proof. exact guard_tri_mul_vec_lemma. Qed.
Check guard_tri_mul_vec : forall n vl : Z, 0 <= n -> 0 <= vl -> (g_tri_mul_vec n vl = false <-> ok_tri_mul_vec n vl).
Print Assumptions guard_tri_mul_vec.

Theorem guard_sp_from_triplets : forall r c row col : Z, 0 <= r -> 0 <= c -> 0 <= row -> 0 <= col -> (g_sp_from_triplets r c row col = false <-> ok_sp_from_triplets r c row col).
Proof. exact guard_sp_from_triplets_lemma. Qed.
Check guard_sp_from_triplets : forall r c row col : Z, 0 <= r -> 0 <= c -> 0 <= row -> 0 <= col -> (g_sp_from_triplets r c row col = false <-> ok_sp_from_triplets r c row col).
Print Assumptions guard_sp_from_triplets.

Theorem guard_sp_get : forall r c row col : Z, 0 <= r -> 0 <= c -> 0 <= row -> 0 <= col -> (g_sp_get r c row col = false <-> ok_sp_get r c row col).
Proof. exact guard_sp_get_lemma. Qed.
Check guard_sp_get : forall r c row col : Z, 0 <= r -> 0 <= c -> 0 <= row -> 0 <= col -> (g_sp_get r c row col = false <-> ok_sp_get r c row col).
Print Assumptions guard_sp_get.

Theorem guard_sp_insert : forall r c row col : Z, 0 <= r -> 0 <= c -> 0 <= row -> 0 <= col -> (g_sp_insert r c row col = false <-> ok_sp_insert r c row col).
Proof. exact guard_sp_insert_lemma. Qed.
Check guard_sp_insert : forall r c row col : Z, 0 <= r -> 0 <= c -> 0 <= row -> 0 <= col -> (g_sp_insert r c row col = false <-> ok_sp_insert r c row col).
Print Assumptions guard_sp_insert.

Theorem guard_sp_multiply : forall r c xl : Z, 0 <= r -> 0 <= c -> 0 <= xl -> (g_sp_multiply r c xl = false <-> ok_sp_multiply r c xl).
Proof. exact guard_sp_multiply_lemma. Qed.
Check guard_sp_multiply : forall r c xl : Z, 0 <= r -> 0 <= c -> 0 <= xl -> (g_sp_multiply r c xl = false <-> ok_sp_multiply r c xl).
Print Assumptions guard_sp_multiply.

Theorem guard_sp_transpose_multiply : forall r c xl : Z, 0 <= r -> 0 <= c -> 0 <= xl -> (g_sp_transpose_multiply r c xl = false <-> ok_sp_transpose_multiply r c xl).
Proof. exact guard_sp_transpose_multiply_lemma. Qed.
Check guard_sp_transpose_multiply : forall r c xl : Z, 0 <= r -> 0 <= c -> 0 <= xl -> (g_sp_transpose_multiply r c xl = false <-> ok_sp_transpose_multiply r c xl).
Print Assumptions guard_sp_transpose_multiply.

Theorem guard_sp_solve_bicgstab : forall r c bl xl : Z, 0 <= r -> 0 <= c -> 0 <= bl -> 0 <= xl -> (g_sp_solve_bicgstab r c bl xl = false <-> ok_sp_solve_bicgstab r c bl xl).
Proof. exact guard_sp_solve_bicgstab_lemma. Qed.
Check guard_sp_solve_bicgstab : forall r c bl xl : Z, 0 <= r -> 0 <= c -> 0 <= bl -> 0 <= xl -> (g_sp_solve_bicgstab r c bl xl = false <-> ok_sp_solve_bicgstab r c bl xl).
Print Assumptions guard_sp_solve_bicgstab.

Theorem guard_sp_solve_cg : forall r c bl xl : Z, 0 <= r -> 0 <= c -> 0 <= bl -> 0 <= xl -> (g_sp_solve_cg r c bl xl = false <-> ok_sp_solve_cg r c bl xl).
Proof. exact guard_sp_solve_cg_lemma. Qed.
Check guard_sp_solve_cg : forall r c bl xl : Z, 0 <= r -> 0 <= c -> 0 <= bl -> 0 <= xl -> (g_sp_solve_cg r c bl xl = false <-> ok_sp_solve_cg r c bl xl).
Print Assumptions guard_sp_solve_cg.

Theorem guard_sp_solve_qmr : forall r c bl xl : Z, 0 <= r -> 0 <= c -> 0 <= bl -> 0 <= xl -> (g_sp_solve_qmr r c bl xl = false <-> ok_sp_solve_qmr r c bl xl).
Proof. exact guard_sp_solve_qmr_lemma. Qed.
Check guard_sp_solve_qmr : forall r c bl xl : Z, 0 <= r -> 0 <= c -> 0 <= bl -> 0 <= xl -> (g_sp_solve_qmr r c bl xl = false <-> ok_sp_solve_qmr r c bl xl).
Print Assumptions guard_sp_solve_qmr.

Theorem guard_sp_solve_bicg : forall r c bl xl itol : Z, 0 <= r -> 0 <= c -> 0 <= bl -> 0 <= xl -> 0 <= itol -> (g_sp_solve_bicg r c bl xl itol = false <-> ok_sp_solve_bicg r c bl xl itol).
Proof. exact guard_sp_solve_bicg_lemma. Qed.
Check guard_sp_solve_bicg : forall r c bl xl itol : Z, 0 <= r -> 0 <= c -> 0 <= bl -> 0 <= xl -> 0 <= itol -> (g_sp_solve_bicg r c bl xl itol = false <-> ok_sp_solve_bicg r c bl xl itol).
Print Assumptions guard_sp_solve_bicg.

Theorem guard_mesh1_set_nodes_vars : forall nn nv node vl : Z, 0 <= nn -> 0 <= nv -> 0 <= node -> 0 <= vl -> (g_mesh1_set_nodes_vars nn nv node vl = false <-> ok_mesh1_set_nodes_vars nn nv node vl).
Proof. exact guard_mesh1_set_nodes_vars_lemma. Qed.
Check guard_mesh1_set_nodes_vars : forall nn nv node vl : Z, 0 <= nn -> 0 <= nv -> 0 <= node -> 0 <= vl -> (g_mesh1_set_nodes_vars nn nv node vl = false <-> ok_mesh1_set_nodes_vars nn nv node vl).
Print Assumptions guard_mesh1_set_nodes_vars.

Theorem guard_mesh1_get_nodes_vars : forall nn nv node : Z, 0 <= nn -> 0 <= nv -> 0 <= node -> (g_mesh1_get_nodes_vars nn nv node = false <-> ok_mesh1_get_nodes_vars nn nv node).
Proof. exact guard_mesh1_get_nodes_vars_lemma. Qed.
Check guard_mesh1_get_nodes_vars : forall nn nv node : Z, 0 <= nn -> 0 <= nv -> 0 <= node -> (g_mesh1_get_nodes_vars nn nv node = false <-> ok_mesh1_get_nodes_vars nn nv node).
Print Assumptions guard_mesh1_get_nodes_vars.

Theorem guard_mesh2_set_nodes_vars : forall nx ny nv i j vl : Z, 0 <= nx -> 0 <= ny -> 0 <= nv -> 0 <= i -> 0 <= j -> 0 <= vl -> (g_mesh2_set_nodes_vars nx ny nv i j vl = false <-> ok_mesh2_set_nodes_vars nx ny nv i j vl).
Proof. exact guard_mesh2_set_nodes_vars_lemma. Qed.
Check guard_mesh2_set_nodes_vars : forall nx ny nv i j vl : Z, 0 <= nx -> 0 <= ny -> 0 <= nv -> 0 <= i -> 0 <= j -> 0 <= vl -> (g_mesh2_set_nodes_vars nx ny nv i j vl = false <-> ok_mesh2_set_nodes_vars nx ny nv i j vl).
Print Assumptions guard_mesh2_set_nodes_vars.

Theorem guard_mesh2_get_nodes_vars : forall nx ny i j : Z, 0 <= nx -> 0 <= ny -> 0 <= i -> 0 <= j -> (g_mesh2_get_nodes_vars nx ny i j = false <-> ok_mesh2_get_nodes_vars nx ny i j).
Proof. exact guard_mesh2_get_nodes_vars_lemma. Qed.
Check guard_mesh2_get_nodes_vars : forall nx ny i j : Z, 0 <= nx -> 0 <= ny -> 0 <= i -> 0 <= j -> (g_mesh2_get_nodes_vars nx ny i j = false <-> ok_mesh2_get_nodes_vars nx ny i j).
Print Assumptions guard_mesh2_get_nodes_vars.

Theorem guard_mesh2_var_as_matrix : forall nx ny nv var : Z, 0 <= nx -> 0 <= ny -> 0 <= nv -> 0 <= var -> (g_mesh2_var_as_matrix nx ny nv var = false <-> ok_mesh2_var_as_matrix nx ny nv var).
Proof. exact guard_mesh2_var_as_matrix_lemma. Qed.
Check guard_mesh2_var_as_matrix : forall nx ny nv var : Z, 0 <= nx -> 0 <= ny -> 0 <= nv -> 0 <= var -> (g_mesh2_var_as_matrix nx ny nv var = false <-> ok_mesh2_var_as_matrix nx ny nv var).
Print Assumptions guard_mesh2_var_as_matrix.

Theorem guard_poly_index : forall len i : Z, 0 <= len -> 0 <= i -> (g_poly_index len i = false <-> ok_poly_index len i).
Proof. exact guard_poly_index_lemma. Qed.
Check guard_poly_index : forall len i : Z, 0 <= len -> 0 <= i -> (g_poly_index len i = false <-> ok_poly_index len i).
Print Assumptions guard_poly_index.

Theorem guard_poly_index_mut : forall len i : Z, 0 <= len -> 0 <= i -> (g_poly_index_mut len i = false <-> ok_poly_index_mut len i).
Proof. exact guard_poly_index_mut_lemma. Qed.
Check guard_poly_index_mut : forall len i : Z, 0 <= len -> 0 <= i -> (g_poly_index_mut len i = false <-> ok_poly_index_mut len i).
Print Assumptions guard_poly_index_mut.

Theorem guard_poly_roots_degree : forall len : Z, 0 <= len -> 1 <= len -> (g_poly_roots_degree len = false <-> ok_poly_roots_degree len).
Proof. exact guard_poly_roots_degree_lemma. Qed.
Check guard_poly_roots_degree : forall len : Z, 0 <= len -> 1 <= len -> (g_poly_roots_degree len = false <-> ok_poly_roots_degree len).
Print Assumptions guard_poly_roots_degree.

(* non-vacuity: every range specification has an instance that holds (and the guards let it through) *)
Example guard_vec_add_ref_nonvacuous : ok_vec_add_ref (0) (0) /\ g_vec_add_ref (0) (0) = false.
Proof. unfold ok_vec_add_ref, g_vec_add_ref; split; [lia | reflexivity]. Qed.
Example guard_vec_sub_ref_nonvacuous : ok_vec_sub_ref (0) (0) /\ g_vec_sub_ref (0) (0) = false.
Proof. unfold ok_vec_sub_ref, g_vec_sub_ref; split; [lia | reflexivity]. Qed.
Example guard_vec_add_assign_nonvacuous : ok_vec_add_assign (0) (0) /\ g_vec_add_assign (0) (0) = false.
Proof. unfold ok_vec_add_assign, g_vec_add_assign; split; [lia | reflexivity]. Qed.
Example guard_vec_sub_assign_nonvacuous : ok_vec_sub_assign (0) (0) /\ g_vec_sub_assign (0) (0) = false.
Proof. unfold ok_vec_sub_assign, g_vec_sub_assign; split; [lia | reflexivity]. Qed.
Example guard_vec_dot_nonvacuous : ok_vec_dot (0) (0) /\ g_vec_dot (0) (0) = false.
Proof. unfold ok_vec_dot, g_vec_dot; split; [lia | reflexivity]. Qed.
Example guard_vec_dot_f64_nonvacuous : ok_vec_dot_f64 (0) (0) /\ g_vec_dot_f64 (0) (0) = false.
Proof. unfold ok_vec_dot_f64, g_vec_dot_f64; split; [lia | reflexivity]. Qed.
Example guard_vec_sum_slice_nonvacuous : ok_vec_sum_slice (1) (0) (0) /\ g_vec_sum_slice (1) (0) (0) = false.
Proof. unfold ok_vec_sum_slice, g_vec_sum_slice; split; [lia | reflexivity]. Qed.
Example guard_vec_product_slice_nonvacuous : ok_vec_product_slice (1) (0) (0) /\ g_vec_product_slice (1) (0) (0) = false.
Proof. unfold ok_vec_product_slice, g_vec_product_slice; split; [lia | reflexivity]. Qed.
Example guard_mat_get_row_nonvacuous : ok_mat_get_row (1) (0) (0) /\ g_mat_get_row (1) (0) (0) = false.
Proof. unfold ok_mat_get_row, g_mat_get_row; split; [lia | reflexivity]. Qed.
Example guard_mat_get_col_nonvacuous : ok_mat_get_col (0) (1) (0) /\ g_mat_get_col (0) (1) (0) = false.
Proof. unfold ok_mat_get_col, g_mat_get_col; split; [lia | reflexivity]. Qed.
Example guard_mat_set_row_nonvacuous : ok_mat_set_row (1) (0) (0) (0) /\ g_mat_set_row (1) (0) (0) (0) = false.
Proof. unfold ok_mat_set_row, g_mat_set_row; split; [lia | reflexivity]. Qed.
Example guard_mat_set_col_nonvacuous : ok_mat_set_col (0) (1) (0) (0) /\ g_mat_set_col (0) (1) (0) (0) = false.
Proof. unfold ok_mat_set_col, g_mat_set_col; split; [lia | reflexivity]. Qed.
Example guard_mat_delete_row_nonvacuous : ok_mat_delete_row (1) (0) (0) /\ g_mat_delete_row (1) (0) (0) = false.
Proof. unfold ok_mat_delete_row, g_mat_delete_row; split; [lia | reflexivity]. Qed.
Example guard_mat_multiply_nonvacuous : ok_mat_multiply (0) (0) (0) /\ g_mat_multiply (0) (0) (0) = false.
Proof. unfold ok_mat_multiply, g_mat_multiply; split; [lia | reflexivity]. Qed.
Example guard_mat_swap_rows_nonvacuous : ok_mat_swap_rows (1) (0) (0) (0) /\ g_mat_swap_rows (1) (0) (0) (0) = false.
Proof. unfold ok_mat_swap_rows, g_mat_swap_rows; split; [lia | reflexivity]. Qed.
Example guard_mat_fill_row_nonvacuous : ok_mat_fill_row (1) (0) (0) /\ g_mat_fill_row (1) (0) (0) = false.
Proof. unfold ok_mat_fill_row, g_mat_fill_row; split; [lia | reflexivity]. Qed.
Example guard_mat_fill_col_nonvacuous : ok_mat_fill_col (0) (1) (0) /\ g_mat_fill_col (0) (1) (0) = false.
Proof. unfold ok_mat_fill_col, g_mat_fill_col; split; [lia | reflexivity]. Qed.
Example guard_mat_solve_basic_nonvacuous : ok_mat_solve_basic (1) (1) (1) /\ g_mat_solve_basic (1) (1) (1) = false.
Proof. unfold ok_mat_solve_basic, g_mat_solve_basic; split; [lia | reflexivity]. Qed.
Example guard_mat_lu_nonvacuous : ok_mat_lu (0) (0) /\ g_mat_lu (0) (0) = false.
Proof. unfold ok_mat_lu, g_mat_lu; split; [lia | reflexivity]. Qed.
Example guard_mat_solve_lu_nonvacuous : ok_mat_solve_lu (1) (1) (1) /\ g_mat_solve_lu (1) (1) (1) = false.
Proof. unfold ok_mat_solve_lu, g_mat_solve_lu; split; [lia | reflexivity]. Qed.
Example guard_mat_inverse_nonvacuous : ok_mat_inverse (0) (0) /\ g_mat_inverse (0) (0) = false.
Proof. unfold ok_mat_inverse, g_mat_inverse; split; [lia | reflexivity]. Qed.
Example guard_mat_determinant_nonvacuous : ok_mat_determinant (0) (0) /\ g_mat_determinant (0) (0) = false.
Proof. unfold ok_mat_determinant, g_mat_determinant; split; [lia | reflexivity]. Qed.
Example guard_mat_add_ref_nonvacuous : ok_mat_add_ref (0) (0) (0) (0) /\ g_mat_add_ref (0) (0) (0) (0) = false.
Proof. unfold ok_mat_add_ref, g_mat_add_ref; split; [lia | reflexivity]. Qed.
Example guard_mat_sub_ref_nonvacuous : ok_mat_sub_ref (0) (0) (0) (0) /\ g_mat_sub_ref (0) (0) (0) (0) = false.
Proof. unfold ok_mat_sub_ref, g_mat_sub_ref; split; [lia | reflexivity]. Qed.
Example guard_mat_add_assign_ref_nonvacuous : ok_mat_add_assign_ref (0) (0) (0) (0) /\ g_mat_add_assign_ref (0) (0) (0) (0) = false.
Proof. unfold ok_mat_add_assign_ref, g_mat_add_assign_ref; split; [lia | reflexivity]. Qed.
Example guard_mat_sub_assign_ref_nonvacuous : ok_mat_sub_assign_ref (0) (0) (0) (0) /\ g_mat_sub_assign_ref (0) (0) (0) (0) = false.
Proof. unfold ok_mat_sub_assign_ref, g_mat_sub_assign_ref; split; [lia | reflexivity]. Qed.
Example guard_mat_mul_ref_nonvacuous : ok_mat_mul_ref (0) (0) (0) (0) /\ g_mat_mul_ref (0) (0) (0) (0) = false.
Proof. unfold ok_mat_mul_ref, g_mat_mul_ref; split; [lia | reflexivity]. Qed.
Example guard_band_fill_band_nonvacuous : ok_band_fill_band (0) (0) (0) (0) /\ g_band_fill_band (0) (0) (0) (0) = false.
Proof. unfold ok_band_fill_band, g_band_fill_band; split; [lia | reflexivity]. Qed.
Example guard_band_solve_nonvacuous : ok_band_solve (1) (0) (0) (1) /\ g_band_solve (1) (0) (0) (1) = false.
Proof. unfold ok_band_solve, g_band_solve; split; [lia | reflexivity]. Qed.
Example guard_band_index_nonvacuous : ok_band_index (1) (0) (0) (0) (0) /\ g_band_index (1) (0) (0) (0) (0) = false.
Proof. unfold ok_band_index, g_band_index; split; [lia | reflexivity]. Qed.
Example guard_band_index_mut_nonvacuous : ok_band_index_mut (1) (0) (0) (0) (0) /\ g_band_index_mut (1) (0) (0) (0) (0) = false.
Proof. unfold ok_band_index_mut, g_band_index_mut; split; [lia | reflexivity]. Qed.
Example guard_band_add_ref_nonvacuous : ok_band_add_ref (0) (0) (0) (0) (0) (0) /\ g_band_add_ref (0) (0) (0) (0) (0) (0) = false.
Proof. unfold ok_band_add_ref, g_band_add_ref; split; [lia | reflexivity]. Qed.
Example guard_band_sub_ref_nonvacuous : ok_band_sub_ref (0) (0) (0) (0) (0) (0) /\ g_band_sub_ref (0) (0) (0) (0) (0) (0) = false.
Proof. unfold ok_band_sub_ref, g_band_sub_ref; split; [lia | reflexivity]. Qed.
Example guard_band_add_assign_ref_nonvacuous : ok_band_add_assign_ref (0) (0) (0) (0) (0) (0) /\ g_band_add_assign_ref (0) (0) (0) (0) (0) (0) = false.
Proof. unfold ok_band_add_assign_ref, g_band_add_assign_ref; split; [lia | reflexivity]. Qed.
Example guard_band_sub_assign_ref_nonvacuous : ok_band_sub_assign_ref (0) (0) (0) (0) (0) (0) /\ g_band_sub_assign_ref (0) (0) (0) (0) (0) (0) = false.
Proof. unfold ok_band_sub_assign_ref, g_band_sub_assign_ref; split; [lia | reflexivity]. Qed.
Example guard_band_mul_vec_nonvacuous : ok_band_mul_vec (0) (0) (0) (0) /\ g_band_mul_vec (0) (0) (0) (0) = false.
Proof. unfold ok_band_mul_vec, g_band_mul_vec; split; [lia | reflexivity]. Qed.
Example guard_tri_with_vectors_nonvacuous : ok_tri_with_vectors (0) (1) (0) /\ g_tri_with_vectors (0) (1) (0) = false.
Proof. unfold ok_tri_with_vectors, g_tri_with_vectors; split; [lia | reflexivity]. Qed.
Example guard_tri_with_vecs_nonvacuous : ok_tri_with_vecs (0) (1) (0) /\ g_tri_with_vecs (0) (1) (0) = false.
Proof. unfold ok_tri_with_vecs, g_tri_with_vecs; split; [lia | reflexivity]. Qed.
Example guard_tri_convert_nonvacuous : ok_tri_convert (1) /\ g_tri_convert (1) = false.
Proof. unfold ok_tri_convert, g_tri_convert; split; [lia | reflexivity]. Qed.
Example guard_tri_solve_nonvacuous : ok_tri_solve (1) (1) /\ g_tri_solve (1) (1) = false.
Proof. unfold ok_tri_solve, g_tri_solve; split; [lia | reflexivity]. Qed.
Example guard_tri_index_nonvacuous : ok_tri_index (1) (0) (0) /\ g_tri_index (1) (0) (0) = false.
Proof. unfold ok_tri_index, g_tri_index; split; [lia | reflexivity]. Qed.
Example guard_tri_index_mut_nonvacuous : ok_tri_index_mut (1) (0) (0) /\ g_tri_index_mut (1) (0) (0) = false.
Proof. unfold ok_tri_index_mut, g_tri_index_mut; split; [lia | reflexivity]. Qed.
Example guard_tri_add_nonvacuous : ok_tri_add (1) (1) /\ g_tri_add (1) (1) = false.
Proof. unfold ok_tri_add, g_tri_add; split; [lia | reflexivity]. Qed.
Example guard_tri_sub_nonvacuous : ok_tri_sub (1) (1) /\ g_tri_sub (1) (1) = false.
Proof. unfold ok_tri_sub, g_tri_sub; split; [lia | reflexivity]. Qed.
Example guard_tri_mul_vec_nonvacuous : ok_tri_mul_vec (1) (1) /\ g_tri_mul_vec (1) (1) = false.
Proof. unfold ok_tri_mul_vec, g_tri_mul_vec; split; [lia | reflexivity]. Qed.
Example guard_sp_from_triplets_nonvacuous : ok_sp_from_triplets (1) (1) (0) (0) /\ g_sp_from_triplets (1) (1) (0) (0) = false.
Proof. unfold ok_sp_from_triplets, g_sp_from_triplets; split; [lia | reflexivity]. Qed.
Example guard_sp_get_nonvacuous : ok_sp_get (1) (1) (0) (0) /\ g_sp_get (1) (1) (0) (0) = false.
Proof. unfold ok_sp_get, g_sp_get; split; [lia | reflexivity]. Qed.
Example guard_sp_insert_nonvacuous : ok_sp_insert (1) (1) (0) (0) /\ g_sp_insert (1) (1) (0) (0) = false.
Proof. unfold ok_sp_insert, g_sp_insert; split; [lia | reflexivity]. Qed.
Example guard_sp_multiply_nonvacuous : ok_sp_multiply (0) (0) (0) /\ g_sp_multiply (0) (0) (0) = false.
Proof. unfold ok_sp_multiply, g_sp_multiply; split; [lia | reflexivity]. Qed.
Example guard_sp_transpose_multiply_nonvacuous : ok_sp_transpose_multiply (0) (0) (0) /\ g_sp_transpose_multiply (0) (0) (0) = false.
Proof. unfold ok_sp_transpose_multiply, g_sp_transpose_multiply; split; [lia | reflexivity]. Qed.
Example guard_sp_solve_bicgstab_nonvacuous : ok_sp_solve_bicgstab (0) (0) (0) (0) /\ g_sp_solve_bicgstab (0) (0) (0) (0) = false.
Proof. unfold ok_sp_solve_bicgstab, g_sp_solve_bicgstab; split; [lia | reflexivity]. Qed.
Example guard_sp_solve_cg_nonvacuous : ok_sp_solve_cg (0) (0) (0) (0) /\ g_sp_solve_cg (0) (0) (0) (0) = false.
Proof. unfold ok_sp_solve_cg, g_sp_solve_cg; split; [lia | reflexivity]. Qed.
Example guard_sp_solve_qmr_nonvacuous : ok_sp_solve_qmr (0) (0) (0) (0) /\ g_sp_solve_qmr (0) (0) (0) (0) = false.
Proof. unfold ok_sp_solve_qmr, g_sp_solve_qmr; split; [lia | reflexivity]. Qed.
Example guard_sp_solve_bicg_nonvacuous : ok_sp_solve_bicg (0) (0) (0) (0) (1) /\ g_sp_solve_bicg (0) (0) (0) (0) (1) = false.
Proof. unfold ok_sp_solve_bicg, g_sp_solve_bicg; split; [lia | reflexivity]. Qed.
Example guard_mesh1_set_nodes_vars_nonvacuous : ok_mesh1_set_nodes_vars (1) (0) (0) (0) /\ g_mesh1_set_nodes_vars (1) (0) (0) (0) = false.
Proof. unfold ok_mesh1_set_nodes_vars, g_mesh1_set_nodes_vars; split; [lia | reflexivity]. Qed.
Example guard_mesh1_get_nodes_vars_nonvacuous : ok_mesh1_get_nodes_vars (1) (0) (0) /\ g_mesh1_get_nodes_vars (1) (0) (0) = false.
Proof. unfold ok_mesh1_get_nodes_vars, g_mesh1_get_nodes_vars; split; [lia | reflexivity]. Qed.
Example guard_mesh2_set_nodes_vars_nonvacuous : ok_mesh2_set_nodes_vars (1) (1) (0) (0) (0) (0) /\ g_mesh2_set_nodes_vars (1) (1) (0) (0) (0) (0) = false.
Proof. unfold ok_mesh2_set_nodes_vars, g_mesh2_set_nodes_vars; split; [lia | reflexivity]. Qed.
Example guard_mesh2_get_nodes_vars_nonvacuous : ok_mesh2_get_nodes_vars (1) (1) (0) (0) /\ g_mesh2_get_nodes_vars (1) (1) (0) (0) = false.
Proof. unfold ok_mesh2_get_nodes_vars, g_mesh2_get_nodes_vars; split; [lia | reflexivity]. Qed.
Example guard_mesh2_var_as_matrix_nonvacuous : ok_mesh2_var_as_matrix (0) (0) (1) (0) /\ g_mesh2_var_as_matrix (0) (0) (1) (0) = false.
Proof. unfold ok_mesh2_var_as_matrix, g_mesh2_var_as_matrix; split; [lia | reflexivity]. Qed.
Example guard_poly_index_nonvacuous : ok_poly_index (1) (0) /\ g_poly_index (1) (0) = false.
Proof. unfold ok_poly_index, g_poly_index; split; [lia | reflexivity]. Qed.
Example guard_poly_index_mut_nonvacuous : ok_poly_index_mut (1) (0) /\ g_poly_index_mut (1) (0) = false.
Proof. unfold ok_poly_index_mut, g_poly_index_mut; split; [lia | reflexivity]. Qed.
Example guard_poly_roots_degree_nonvacuous : ok_poly_roots_degree (2) /\ g_poly_roots_degree (2) = false.
Proof. unfold ok_poly_roots_degree, g_poly_roots_degree; split; [lia | reflexivity]. Qed.
(* ======================================================================================================
   C20 at the level of the model functions (package guards2): for every checked entry point, the model function
   PANICS when the regenerated guard g_<entry> fires on the sizes of its arguments (rejects), RETURNS when it does
   not (accepts: every checked rd/upd/usub inside succeeded -- no index or underflow panic for any size; where
   the algorithm divides, the data-dependent panic is named in the statement), and for the mutating entries
   leaves everything it does not address unchanged (frame).  The model is state-passing: a mutating function
   returns `res state`, and `Panic k` carries no state -- a rejected call leaves the receiver the caller passed in.
   One theorem per family; every entry is named in it (g_<entry> occurs in its conjuncts).
   Lemmas: Proofs/GuardsModel{Vec,Mat,Solve,Band,Tri,Sparse,Iter,Mesh,Poly,Native,Atomic,Legacy}.v, bridged through guard_<entry>.
   ====================================================================================================== *)
From Coq Require Import List Arith Permutation Floats.
From OV Require Import Base.Panic Base.Arith Inst.QcInst Inst.FloatInst Model.Complex.
From OV Require Import Model.Vector Model.ParDot Model.Matrix Model.Solve Model.Banded Model.Tridiag Model.Sparse Model.Iter Model.Mesh Model.Poly Model.Roots.
From OV Require Proofs.Matrix Proofs.LUPrim Proofs.LUQc Proofs.SolveBase Proofs.Solve Proofs.Banded Proofs.BandedComplete Proofs.Tridiag Proofs.SparseBase Proofs.SparseViews Proofs.MeshBase Proofs.MeshStore.
From OV Require Proofs.GuardsModelBase Proofs.GuardsModelVec Proofs.GuardsModelMat Proofs.GuardsModelSolve Proofs.GuardsModelBand Proofs.GuardsModelTri Proofs.GuardsModelSparse Proofs.GuardsModelIter Proofs.GuardsModelMesh Proofs.GuardsModelPoly Proofs.GuardsModelNative Proofs.GuardsModelAtomic Proofs.GuardsModelLegacy Proofs.GuardsModelFamilies.
Import ListNotations.
Local Open Scope nat_scope.
(* used by the non-vacuity Examples only: `panics_with k r = true` iff r = Panic k (keeps the evaluated goals small) *)
Definition panics_with {X} (k : pkind) (r : res X) : bool :=
  match r, k with
  | Panic Guard, Guard | Panic Index, Index | Panic Underflow, Underflow | Panic DivZero, DivZero | Panic Unwrap, Unwrap => true
  | _, _ => false
  end.

(* ---- Vector (8 entries): + - += -= dot dot_f64 (every worker count t >= 1) sum_slice product_slice; any arithmetic. ---- *)
Theorem entry_contract_vector :
  (* rejects_vec_add_ref *)
    (forall (A : Arith) (u v : list A), g_vec_add_ref (Z.of_nat (length u)) (Z.of_nat (length v)) = true -> vadd u v = Panic Guard) /\
  (* accepts_vec_add_ref *)
    (forall (A : Arith) (u v : list A),
     g_vec_add_ref (Z.of_nat (length u)) (Z.of_nat (length v)) = false -> exists r : list A, vadd u v = Ok r /\ length r = length u) /\
  (* rejects_vec_sub_ref *)
    (forall (A : Arith) (u v : list A), g_vec_sub_ref (Z.of_nat (length u)) (Z.of_nat (length v)) = true -> vsub u v = Panic Guard) /\
  (* accepts_vec_sub_ref *)
    (forall (A : Arith) (u v : list A),
     g_vec_sub_ref (Z.of_nat (length u)) (Z.of_nat (length v)) = false -> exists r : list A, vsub u v = Ok r /\ length r = length u) /\
  (* rejects_vec_add_assign *)
    (forall (A : Arith) (u v : list A), g_vec_add_assign (Z.of_nat (length u)) (Z.of_nat (length v)) = true -> vadd_assign u v = Panic Guard) /\
  (* accepts_vec_add_assign *)
    (forall (A : Arith) (u v : list A),
     g_vec_add_assign (Z.of_nat (length u)) (Z.of_nat (length v)) = false -> exists r : list A, vadd_assign u v = Ok r /\ length r = length u) /\
  (* rejects_vec_sub_assign *)
    (forall (A : Arith) (u v : list A), g_vec_sub_assign (Z.of_nat (length u)) (Z.of_nat (length v)) = true -> vsub_assign u v = Panic Guard) /\
  (* accepts_vec_sub_assign *)
    (forall (A : Arith) (u v : list A),
     g_vec_sub_assign (Z.of_nat (length u)) (Z.of_nat (length v)) = false -> exists r : list A, vsub_assign u v = Ok r /\ length r = length u) /\
  (* rejects_vec_dot *)
    (forall (A : Arith) (u w : list A), g_vec_dot (Z.of_nat (length u)) (Z.of_nat (length w)) = true -> dot u w = Panic Guard) /\
  (* accepts_vec_dot *)
    (forall (A : Arith) (u w : list A), g_vec_dot (Z.of_nat (length u)) (Z.of_nat (length w)) = false -> exists x : A, dot u w = Ok x) /\
  (* rejects_vec_dot_f64 *)
    (forall (A : Arith) (t : nat) (u w : list A), g_vec_dot_f64 (Z.of_nat (length u)) (Z.of_nat (length w)) = true -> pardot t u w = Panic Guard) /\
  (* accepts_vec_dot_f64 *)
    (forall (A : Arith) (t : nat) (u w : list A),
     1 <= t -> g_vec_dot_f64 (Z.of_nat (length u)) (Z.of_nat (length w)) = false -> exists x : A, pardot t u w = Ok x) /\
  (* rejects_vec_sum_slice *)
    (forall (A : Arith) (v : list A) (s e : nat),
     g_vec_sum_slice (Z.of_nat (length v)) (Z.of_nat s) (Z.of_nat e) = true -> sum_slice v s e = Panic Guard) /\
  (* accepts_vec_sum_slice *)
    (forall (A : Arith) (v : list A) (s e : nat),
     g_vec_sum_slice (Z.of_nat (length v)) (Z.of_nat s) (Z.of_nat e) = false -> exists x : A, sum_slice v s e = Ok x) /\
  (* rejects_vec_product_slice *)
    (forall (A : Arith) (v : list A) (s e : nat),
     g_vec_product_slice (Z.of_nat (length v)) (Z.of_nat s) (Z.of_nat e) = true -> product_slice v s e = Panic Guard) /\
  (* accepts_vec_product_slice *)
    (forall (A : Arith) (v : list A) (s e : nat),
     g_vec_product_slice (Z.of_nat (length v)) (Z.of_nat s) (Z.of_nat e) = false -> exists x : A, product_slice v s e = Ok x).
Proof. exact GuardsModelFamilies.entry_contract_vector_lemma. Qed.
Check entry_contract_vector :
  (* rejects_vec_add_ref *)
    (forall (A : Arith) (u v : list A), g_vec_add_ref (Z.of_nat (length u)) (Z.of_nat (length v)) = true -> vadd u v = Panic Guard) /\
  (* accepts_vec_add_ref *)
    (forall (A : Arith) (u v : list A),
     g_vec_add_ref (Z.of_nat (length u)) (Z.of_nat (length v)) = false -> exists r : list A, vadd u v = Ok r /\ length r = length u) /\
  (* rejects_vec_sub_ref *)
    (forall (A : Arith) (u v : list A), g_vec_sub_ref (Z.of_nat (length u)) (Z.of_nat (length v)) = true -> vsub u v = Panic Guard) /\
  (* accepts_vec_sub_ref *)
    (forall (A : Arith) (u v : list A),
     g_vec_sub_ref (Z.of_nat (length u)) (Z.of_nat (length v)) = false -> exists r : list A, vsub u v = Ok r /\ length r = length u) /\
  (* rejects_vec_add_assign *)
    (forall (A : Arith) (u v : list A), g_vec_add_assign (Z.of_nat (length u)) (Z.of_nat (length v)) = true -> vadd_assign u v = Panic Guard) /\
  (* accepts_vec_add_assign *)
    (forall (A : Arith) (u v : list A),
     g_vec_add_assign (Z.of_nat (length u)) (Z.of_nat (length v)) = false -> exists r : list A, vadd_assign u v = Ok r /\ length r = length u) /\
  (* rejects_vec_sub_assign *)
    (forall (A : Arith) (u v : list A), g_vec_sub_assign (Z.of_nat (length u)) (Z.of_nat (length v)) = true -> vsub_assign u v = Panic Guard) /\
  (* accepts_vec_sub_assign *)
    (forall (A : Arith) (u v : list A),
     g_vec_sub_assign (Z.of_nat (length u)) (Z.of_nat (length v)) = false -> exists r : list A, vsub_assign u v = Ok r /\ length r = length u) /\
  (* rejects_vec_dot *)
    (forall (A : Arith) (u w : list A), g_vec_dot (Z.of_nat (length u)) (Z.of_nat (length w)) = true -> dot u w = Panic Guard) /\
  (* accepts_vec_dot *)
    (forall (A : Arith) (u w : list A), g_vec_dot (Z.of_nat (length u)) (Z.of_nat (length w)) = false -> exists x : A, dot u w = Ok x) /\
  (* rejects_vec_dot_f64 *)
    (forall (A : Arith) (t : nat) (u w : list A), g_vec_dot_f64 (Z.of_nat (length u)) (Z.of_nat (length w)) = true -> pardot t u w = Panic Guard) /\
  (* accepts_vec_dot_f64 *)
    (forall (A : Arith) (t : nat) (u w : list A),
     1 <= t -> g_vec_dot_f64 (Z.of_nat (length u)) (Z.of_nat (length w)) = false -> exists x : A, pardot t u w = Ok x) /\
  (* rejects_vec_sum_slice *)
    (forall (A : Arith) (v : list A) (s e : nat),
     g_vec_sum_slice (Z.of_nat (length v)) (Z.of_nat s) (Z.of_nat e) = true -> sum_slice v s e = Panic Guard) /\
  (* accepts_vec_sum_slice *)
    (forall (A : Arith) (v : list A) (s e : nat),
     g_vec_sum_slice (Z.of_nat (length v)) (Z.of_nat s) (Z.of_nat e) = false -> exists x : A, sum_slice v s e = Ok x) /\
  (* rejects_vec_product_slice *)
    (forall (A : Arith) (v : list A) (s e : nat),
     g_vec_product_slice (Z.of_nat (length v)) (Z.of_nat s) (Z.of_nat e) = true -> product_slice v s e = Panic Guard) /\
  (* accepts_vec_product_slice *)
    (forall (A : Arith) (v : list A) (s e : nat),
     g_vec_product_slice (Z.of_nat (length v)) (Z.of_nat s) (Z.of_nat e) = false -> exists x : A, product_slice v s e = Ok x).
Print Assumptions entry_contract_vector.
(* non-vacuity: both halves of the guards occur, and the model functions behave as stated, on concrete rational vectors *)
Example entry_contract_vector_nonvacuous :
  let u3 : list AQ := [q 1 1; q 2 1; q 3 1] in let u2 : list AQ := [q 1 2; q (-1) 3] in
  g_vec_add_ref 3 2 = true /\ panics_with Guard (vadd u3 u2) = true /\ g_vec_add_ref 3 3 = false /\ is_ok (vadd u3 u3) = true /\
  g_vec_sub_assign 2 3 = true /\ panics_with Guard (vsub_assign u2 u3) = true /\
  g_vec_dot_f64 3 2 = true /\ panics_with Guard (pardot 4 u3 u2) = true /\ g_vec_dot_f64 3 3 = false /\ is_ok (pardot 4 u3 u3) = true /\
  g_vec_sum_slice 3 1 3 = true /\ panics_with Guard (sum_slice u3 1 3) = true /\ g_vec_sum_slice 3 2 1 = true /\ panics_with Guard (sum_slice u3 2 1) = true /\
  g_vec_product_slice 3 1 2 = false /\ is_ok (product_slice u3 1 2) = true.
Proof. vm_compute. repeat split; reflexivity. Qed.

(* ---- dense Matrix, operations.rs / arithmetic.rs (14 entries): get_row get_col set_row set_col fill_row fill_col swap_rows delete_row multiply + - += -= *;
   rejection needs no well-formedness; same_shape m' m := wf m' /\ rows m' = rows m /\ cols m' = cols m; any arithmetic. ---- *)
Theorem entry_contract_matrix :
  (* rejects_mat_get_row *)
    (forall (A : Arith) (m : matrix A) (row : nat),
     g_mat_get_row (Z.of_nat (rows m)) (Z.of_nat (cols m)) (Z.of_nat row) = true -> get_row m row = Panic Guard) /\
  (* accepts_mat_get_row *)
    (forall (A : Arith) (m : matrix A) (row : nat),
     Matrix.wf m ->
     g_mat_get_row (Z.of_nat (rows m)) (Z.of_nat (cols m)) (Z.of_nat row) = false -> exists v : list A, get_row m row = Ok v /\ length v = cols m) /\
  (* rejects_mat_get_col *)
    (forall (A : Arith) (m : matrix A) (col : nat),
     g_mat_get_col (Z.of_nat (rows m)) (Z.of_nat (cols m)) (Z.of_nat col) = true -> get_col m col = Panic Guard) /\
  (* accepts_mat_get_col *)
    (forall (A : Arith) (m : matrix A) (col : nat),
     Matrix.wf m ->
     g_mat_get_col (Z.of_nat (rows m)) (Z.of_nat (cols m)) (Z.of_nat col) = false -> exists v : list A, get_col m col = Ok v /\ length v = rows m) /\
  (* rejects_mat_set_row *)
    (forall (A : Arith) (m : matrix A) (row : nat) (v : list A),
     g_mat_set_row (Z.of_nat (rows m)) (Z.of_nat (cols m)) (Z.of_nat row) (Z.of_nat (length v)) = true -> set_row m row v = Panic Guard) /\
  (* accepts_mat_set_row *)
    (forall (A : Arith) (m : matrix A) (row : nat) (v : list A),
     Matrix.wf m ->
     g_mat_set_row (Z.of_nat (rows m)) (Z.of_nat (cols m)) (Z.of_nat row) (Z.of_nat (length v)) = false ->
     exists m' : matrix A, set_row m row v = Ok m') /\
  (* frame_mat_set_row *)
    (forall (A : Arith) (m : matrix A) (row : nat) (v : list A) (m' : matrix A),
     Matrix.wf m ->
     set_row m row v = Ok m' ->
     GuardsModelMat.same_shape m' m /\ (forall i j : nat, i < rows m -> j < cols m -> i <> row -> Matrix.entry m' i j = Matrix.entry m i j)) /\
  (* rejects_mat_set_col *)
    (forall (A : Arith) (m : matrix A) (col : nat) (v : list A),
     g_mat_set_col (Z.of_nat (rows m)) (Z.of_nat (cols m)) (Z.of_nat col) (Z.of_nat (length v)) = true -> set_col m col v = Panic Guard) /\
  (* accepts_mat_set_col *)
    (forall (A : Arith) (m : matrix A) (col : nat) (v : list A),
     Matrix.wf m ->
     g_mat_set_col (Z.of_nat (rows m)) (Z.of_nat (cols m)) (Z.of_nat col) (Z.of_nat (length v)) = false ->
     exists m' : matrix A, set_col m col v = Ok m') /\
  (* frame_mat_set_col *)
    (forall (A : Arith) (m : matrix A) (col : nat) (v : list A) (m' : matrix A),
     Matrix.wf m ->
     set_col m col v = Ok m' ->
     GuardsModelMat.same_shape m' m /\ (forall i j : nat, i < rows m -> j < cols m -> j <> col -> Matrix.entry m' i j = Matrix.entry m i j)) /\
  (* rejects_mat_fill_row *)
    (forall (A : Arith) (m : matrix A) (row : nat) (x : A),
     g_mat_fill_row (Z.of_nat (rows m)) (Z.of_nat (cols m)) (Z.of_nat row) = true -> fill_row m row x = Panic Guard) /\
  (* accepts_mat_fill_row *)
    (forall (A : Arith) (m : matrix A) (row : nat) (x : A),
     Matrix.wf m -> g_mat_fill_row (Z.of_nat (rows m)) (Z.of_nat (cols m)) (Z.of_nat row) = false -> exists m' : matrix A, fill_row m row x = Ok m') /\
  (* frame_mat_fill_row *)
    (forall (A : Arith) (m : matrix A) (row : nat) (x : A) (m' : matrix A),
     Matrix.wf m ->
     fill_row m row x = Ok m' ->
     GuardsModelMat.same_shape m' m /\ (forall i j : nat, i < rows m -> j < cols m -> i <> row -> Matrix.entry m' i j = Matrix.entry m i j)) /\
  (* rejects_mat_fill_col *)
    (forall (A : Arith) (m : matrix A) (col : nat) (x : A),
     g_mat_fill_col (Z.of_nat (rows m)) (Z.of_nat (cols m)) (Z.of_nat col) = true -> fill_col m col x = Panic Guard) /\
  (* accepts_mat_fill_col *)
    (forall (A : Arith) (m : matrix A) (col : nat) (x : A),
     Matrix.wf m -> g_mat_fill_col (Z.of_nat (rows m)) (Z.of_nat (cols m)) (Z.of_nat col) = false -> exists m' : matrix A, fill_col m col x = Ok m') /\
  (* frame_mat_fill_col *)
    (forall (A : Arith) (m : matrix A) (col : nat) (x : A) (m' : matrix A),
     Matrix.wf m ->
     fill_col m col x = Ok m' ->
     GuardsModelMat.same_shape m' m /\ (forall i j : nat, i < rows m -> j < cols m -> j <> col -> Matrix.entry m' i j = Matrix.entry m i j)) /\
  (* rejects_mat_swap_rows *)
    (forall (A : Arith) (m : matrix A) (r1 r2 : nat),
     g_mat_swap_rows (Z.of_nat (rows m)) (Z.of_nat (cols m)) (Z.of_nat r1) (Z.of_nat r2) = true -> swap_rows m r1 r2 = Panic Guard) /\
  (* accepts_mat_swap_rows *)
    (forall (A : Arith) (m : matrix A) (r1 r2 : nat),
     Matrix.wf m ->
     g_mat_swap_rows (Z.of_nat (rows m)) (Z.of_nat (cols m)) (Z.of_nat r1) (Z.of_nat r2) = false -> exists m' : matrix A, swap_rows m r1 r2 = Ok m') /\
  (* frame_mat_swap_rows *)
    (forall (A : Arith) (m : matrix A) (r1 r2 : nat) (m' : matrix A),
     Matrix.wf m ->
     swap_rows m r1 r2 = Ok m' ->
     GuardsModelMat.same_shape m' m /\
     (forall i j : nat, i < rows m -> j < cols m -> i <> r1 -> i <> r2 -> Matrix.entry m' i j = Matrix.entry m i j)) /\
  (* rejects_mat_delete_row *)
    (forall (A : Arith) (m : matrix A) (row : nat),
     g_mat_delete_row (Z.of_nat (rows m)) (Z.of_nat (cols m)) (Z.of_nat row) = true -> delete_row m row = Panic Guard) /\
  (* accepts_mat_delete_row *)
    (forall (A : Arith) (m : matrix A) (row : nat),
     Matrix.wf m ->
     g_mat_delete_row (Z.of_nat (rows m)) (Z.of_nat (cols m)) (Z.of_nat row) = false -> exists m' : matrix A, delete_row m row = Ok m') /\
  (* frame_mat_delete_row *)
    (forall (A : Arith) (m : matrix A) (row : nat) (m' : matrix A),
     Matrix.wf m ->
     delete_row m row = Ok m' ->
     Matrix.wf m' /\
     rows m' = rows m - 1 /\
     cols m' = cols m /\
     (forall i j : nat, i < row -> j < cols m -> Matrix.entry m' i j = Matrix.entry m i j) /\
     (forall i j : nat, row <= i -> i < rows m - 1 -> j < cols m -> Matrix.entry m' i j = Matrix.entry m (S i) j)) /\
  (* rejects_mat_multiply *)
    (forall (A : Arith) (m : matrix A) (v : list A),
     g_mat_multiply (Z.of_nat (rows m)) (Z.of_nat (cols m)) (Z.of_nat (length v)) = true -> multiply m v = Panic Guard) /\
  (* accepts_mat_multiply *)
    (forall (A : Arith) (m : matrix A) (v : list A),
     Matrix.wf m ->
     g_mat_multiply (Z.of_nat (rows m)) (Z.of_nat (cols m)) (Z.of_nat (length v)) = false ->
     exists w : list A, multiply m v = Ok w /\ length w = rows m) /\
  (* rejects_mat_add_ref *)
    (forall (A : Arith) (a b : matrix A),
     g_mat_add_ref (Z.of_nat (rows a)) (Z.of_nat (cols a)) (Z.of_nat (rows b)) (Z.of_nat (cols b)) = true -> madd a b = Panic Guard) /\
  (* accepts_mat_add_ref *)
    (forall (A : Arith) (a b : matrix A),
     Matrix.wf a ->
     Matrix.wf b ->
     g_mat_add_ref (Z.of_nat (rows a)) (Z.of_nat (cols a)) (Z.of_nat (rows b)) (Z.of_nat (cols b)) = false ->
     exists m' : matrix A, madd a b = Ok m' /\ GuardsModelMat.same_shape m' a) /\
  (* rejects_mat_sub_ref *)
    (forall (A : Arith) (a b : matrix A),
     g_mat_sub_ref (Z.of_nat (rows a)) (Z.of_nat (cols a)) (Z.of_nat (rows b)) (Z.of_nat (cols b)) = true -> msub a b = Panic Guard) /\
  (* accepts_mat_sub_ref *)
    (forall (A : Arith) (a b : matrix A),
     Matrix.wf a ->
     Matrix.wf b ->
     g_mat_sub_ref (Z.of_nat (rows a)) (Z.of_nat (cols a)) (Z.of_nat (rows b)) (Z.of_nat (cols b)) = false ->
     exists m' : matrix A, msub a b = Ok m' /\ GuardsModelMat.same_shape m' a) /\
  (* rejects_mat_add_assign_ref *)
    (forall (A : Arith) (a b : matrix A),
     g_mat_add_assign_ref (Z.of_nat (rows a)) (Z.of_nat (cols a)) (Z.of_nat (rows b)) (Z.of_nat (cols b)) = true -> madd_assign a b = Panic Guard) /\
  (* accepts_mat_add_assign_ref *)
    (forall (A : Arith) (a b : matrix A),
     Matrix.wf a ->
     Matrix.wf b ->
     g_mat_add_assign_ref (Z.of_nat (rows a)) (Z.of_nat (cols a)) (Z.of_nat (rows b)) (Z.of_nat (cols b)) = false ->
     exists m' : matrix A, madd_assign a b = Ok m' /\ GuardsModelMat.same_shape m' a) /\
  (* rejects_mat_sub_assign_ref *)
    (forall (A : Arith) (a b : matrix A),
     g_mat_sub_assign_ref (Z.of_nat (rows a)) (Z.of_nat (cols a)) (Z.of_nat (rows b)) (Z.of_nat (cols b)) = true -> msub_assign a b = Panic Guard) /\
  (* accepts_mat_sub_assign_ref *)
    (forall (A : Arith) (a b : matrix A),
     Matrix.wf a ->
     Matrix.wf b ->
     g_mat_sub_assign_ref (Z.of_nat (rows a)) (Z.of_nat (cols a)) (Z.of_nat (rows b)) (Z.of_nat (cols b)) = false ->
     exists m' : matrix A, msub_assign a b = Ok m' /\ GuardsModelMat.same_shape m' a) /\
  (* rejects_mat_mul_ref *)
    (forall (A : Arith) (a b : matrix A),
     g_mat_mul_ref (Z.of_nat (rows a)) (Z.of_nat (cols a)) (Z.of_nat (rows b)) (Z.of_nat (cols b)) = true -> mat_mul a b = Panic Guard) /\
  (* accepts_mat_mul_ref *)
    (forall (A : Arith) (a b : matrix A),
     Matrix.wf a ->
     Matrix.wf b ->
     g_mat_mul_ref (Z.of_nat (rows a)) (Z.of_nat (cols a)) (Z.of_nat (rows b)) (Z.of_nat (cols b)) = false ->
     exists c : matrix A, mat_mul a b = Ok c /\ Matrix.wf c /\ rows c = rows a /\ cols c = cols b).
Proof. exact GuardsModelFamilies.entry_contract_matrix_lemma. Qed.
Check entry_contract_matrix :
  (* rejects_mat_get_row *)
    (forall (A : Arith) (m : matrix A) (row : nat),
     g_mat_get_row (Z.of_nat (rows m)) (Z.of_nat (cols m)) (Z.of_nat row) = true -> get_row m row = Panic Guard) /\
  (* accepts_mat_get_row *)
    (forall (A : Arith) (m : matrix A) (row : nat),
     Matrix.wf m ->
     g_mat_get_row (Z.of_nat (rows m)) (Z.of_nat (cols m)) (Z.of_nat row) = false -> exists v : list A, get_row m row = Ok v /\ length v = cols m) /\
  (* rejects_mat_get_col *)
    (forall (A : Arith) (m : matrix A) (col : nat),
     g_mat_get_col (Z.of_nat (rows m)) (Z.of_nat (cols m)) (Z.of_nat col) = true -> get_col m col = Panic Guard) /\
  (* accepts_mat_get_col *)
    (forall (A : Arith) (m : matrix A) (col : nat),
     Matrix.wf m ->
     g_mat_get_col (Z.of_nat (rows m)) (Z.of_nat (cols m)) (Z.of_nat col) = false -> exists v : list A, get_col m col = Ok v /\ length v = rows m) /\
  (* rejects_mat_set_row *)
    (forall (A : Arith) (m : matrix A) (row : nat) (v : list A),
     g_mat_set_row (Z.of_nat (rows m)) (Z.of_nat (cols m)) (Z.of_nat row) (Z.of_nat (length v)) = true -> set_row m row v = Panic Guard) /\
  (* accepts_mat_set_row *)
    (forall (A : Arith) (m : matrix A) (row : nat) (v : list A),
     Matrix.wf m ->
     g_mat_set_row (Z.of_nat (rows m)) (Z.of_nat (cols m)) (Z.of_nat row) (Z.of_nat (length v)) = false ->
     exists m' : matrix A, set_row m row v = Ok m') /\
  (* frame_mat_set_row *)
    (forall (A : Arith) (m : matrix A) (row : nat) (v : list A) (m' : matrix A),
     Matrix.wf m ->
     set_row m row v = Ok m' ->
     GuardsModelMat.same_shape m' m /\ (forall i j : nat, i < rows m -> j < cols m -> i <> row -> Matrix.entry m' i j = Matrix.entry m i j)) /\
  (* rejects_mat_set_col *)
    (forall (A : Arith) (m : matrix A) (col : nat) (v : list A),
     g_mat_set_col (Z.of_nat (rows m)) (Z.of_nat (cols m)) (Z.of_nat col) (Z.of_nat (length v)) = true -> set_col m col v = Panic Guard) /\
  (* accepts_mat_set_col *)
    (forall (A : Arith) (m : matrix A) (col : nat) (v : list A),
     Matrix.wf m ->
     g_mat_set_col (Z.of_nat (rows m)) (Z.of_nat (cols m)) (Z.of_nat col) (Z.of_nat (length v)) = false ->
     exists m' : matrix A, set_col m col v = Ok m') /\
  (* frame_mat_set_col *)
    (forall (A : Arith) (m : matrix A) (col : nat) (v : list A) (m' : matrix A),
     Matrix.wf m ->
     set_col m col v = Ok m' ->
     GuardsModelMat.same_shape m' m /\ (forall i j : nat, i < rows m -> j < cols m -> j <> col -> Matrix.entry m' i j = Matrix.entry m i j)) /\
  (* rejects_mat_fill_row *)
    (forall (A : Arith) (m : matrix A) (row : nat) (x : A),
     g_mat_fill_row (Z.of_nat (rows m)) (Z.of_nat (cols m)) (Z.of_nat row) = true -> fill_row m row x = Panic Guard) /\
  (* accepts_mat_fill_row *)
    (forall (A : Arith) (m : matrix A) (row : nat) (x : A),
     Matrix.wf m -> g_mat_fill_row (Z.of_nat (rows m)) (Z.of_nat (cols m)) (Z.of_nat row) = false -> exists m' : matrix A, fill_row m row x = Ok m') /\
  (* frame_mat_fill_row *)
    (forall (A : Arith) (m : matrix A) (row : nat) (x : A) (m' : matrix A),
     Matrix.wf m ->
     fill_row m row x = Ok m' ->
     GuardsModelMat.same_shape m' m /\ (forall i j : nat, i < rows m -> j < cols m -> i <> row -> Matrix.entry m' i j = Matrix.entry m i j)) /\
  (* rejects_mat_fill_col *)
    (forall (A : Arith) (m : matrix A) (col : nat) (x : A),
     g_mat_fill_col (Z.of_nat (rows m)) (Z.of_nat (cols m)) (Z.of_nat col) = true -> fill_col m col x = Panic Guard) /\
  (* accepts_mat_fill_col *)
    (forall (A : Arith) (m : matrix A) (col : nat) (x : A),
     Matrix.wf m -> g_mat_fill_col (Z.of_nat (rows m)) (Z.of_nat (cols m)) (Z.of_nat col) = false -> exists m' : matrix A, fill_col m col x = Ok m') /\
  (* frame_mat_fill_col *)
    (forall (A : Arith) (m : matrix A) (col : nat) (x : A) (m' : matrix A),
     Matrix.wf m ->
     fill_col m col x = Ok m' ->
     GuardsModelMat.same_shape m' m /\ (forall i j : nat, i < rows m -> j < cols m -> j <> col -> Matrix.entry m' i j = Matrix.entry m i j)) /\
  (* rejects_mat_swap_rows *)
    (forall (A : Arith) (m : matrix A) (r1 r2 : nat),
     g_mat_swap_rows (Z.of_nat (rows m)) (Z.of_nat (cols m)) (Z.of_nat r1) (Z.of_nat r2) = true -> swap_rows m r1 r2 = Panic Guard) /\
  (* accepts_mat_swap_rows *)
    (forall (A : Arith) (m : matrix A) (r1 r2 : nat),
     Matrix.wf m ->
     g_mat_swap_rows (Z.of_nat (rows m)) (Z.of_nat (cols m)) (Z.of_nat r1) (Z.of_nat r2) = false -> exists m' : matrix A, swap_rows m r1 r2 = Ok m') /\
  (* frame_mat_swap_rows *)
    (forall (A : Arith) (m : matrix A) (r1 r2 : nat) (m' : matrix A),
     Matrix.wf m ->
     swap_rows m r1 r2 = Ok m' ->
     GuardsModelMat.same_shape m' m /\
     (forall i j : nat, i < rows m -> j < cols m -> i <> r1 -> i <> r2 -> Matrix.entry m' i j = Matrix.entry m i j)) /\
  (* rejects_mat_delete_row *)
    (forall (A : Arith) (m : matrix A) (row : nat),
     g_mat_delete_row (Z.of_nat (rows m)) (Z.of_nat (cols m)) (Z.of_nat row) = true -> delete_row m row = Panic Guard) /\
  (* accepts_mat_delete_row *)
    (forall (A : Arith) (m : matrix A) (row : nat),
     Matrix.wf m ->
     g_mat_delete_row (Z.of_nat (rows m)) (Z.of_nat (cols m)) (Z.of_nat row) = false -> exists m' : matrix A, delete_row m row = Ok m') /\
  (* frame_mat_delete_row *)
    (forall (A : Arith) (m : matrix A) (row : nat) (m' : matrix A),
     Matrix.wf m ->
     delete_row m row = Ok m' ->
     Matrix.wf m' /\
     rows m' = rows m - 1 /\
     cols m' = cols m /\
     (forall i j : nat, i < row -> j < cols m -> Matrix.entry m' i j = Matrix.entry m i j) /\
     (forall i j : nat, row <= i -> i < rows m - 1 -> j < cols m -> Matrix.entry m' i j = Matrix.entry m (S i) j)) /\
  (* rejects_mat_multiply *)
    (forall (A : Arith) (m : matrix A) (v : list A),
     g_mat_multiply (Z.of_nat (rows m)) (Z.of_nat (cols m)) (Z.of_nat (length v)) = true -> multiply m v = Panic Guard) /\
  (* accepts_mat_multiply *)
    (forall (A : Arith) (m : matrix A) (v : list A),
     Matrix.wf m ->
     g_mat_multiply (Z.of_nat (rows m)) (Z.of_nat (cols m)) (Z.of_nat (length v)) = false ->
     exists w : list A, multiply m v = Ok w /\ length w = rows m) /\
  (* rejects_mat_add_ref *)
    (forall (A : Arith) (a b : matrix A),
     g_mat_add_ref (Z.of_nat (rows a)) (Z.of_nat (cols a)) (Z.of_nat (rows b)) (Z.of_nat (cols b)) = true -> madd a b = Panic Guard) /\
  (* accepts_mat_add_ref *)
    (forall (A : Arith) (a b : matrix A),
     Matrix.wf a ->
     Matrix.wf b ->
     g_mat_add_ref (Z.of_nat (rows a)) (Z.of_nat (cols a)) (Z.of_nat (rows b)) (Z.of_nat (cols b)) = false ->
     exists m' : matrix A, madd a b = Ok m' /\ GuardsModelMat.same_shape m' a) /\
  (* rejects_mat_sub_ref *)
    (forall (A : Arith) (a b : matrix A),
     g_mat_sub_ref (Z.of_nat (rows a)) (Z.of_nat (cols a)) (Z.of_nat (rows b)) (Z.of_nat (cols b)) = true -> msub a b = Panic Guard) /\
  (* accepts_mat_sub_ref *)
    (forall (A : Arith) (a b : matrix A),
     Matrix.wf a ->
     Matrix.wf b ->
     g_mat_sub_ref (Z.of_nat (rows a)) (Z.of_nat (cols a)) (Z.of_nat (rows b)) (Z.of_nat (cols b)) = false ->
     exists m' : matrix A, msub a b = Ok m' /\ GuardsModelMat.same_shape m' a) /\
  (* rejects_mat_add_assign_ref *)
    (forall (A : Arith) (a b : matrix A),
     g_mat_add_assign_ref (Z.of_nat (rows a)) (Z.of_nat (cols a)) (Z.of_nat (rows b)) (Z.of_nat (cols b)) = true -> madd_assign a b = Panic Guard) /\
  (* accepts_mat_add_assign_ref *)
    (forall (A : Arith) (a b : matrix A),
     Matrix.wf a ->
     Matrix.wf b ->
     g_mat_add_assign_ref (Z.of_nat (rows a)) (Z.of_nat (cols a)) (Z.of_nat (rows b)) (Z.of_nat (cols b)) = false ->
     exists m' : matrix A, madd_assign a b = Ok m' /\ GuardsModelMat.same_shape m' a) /\
  (* rejects_mat_sub_assign_ref *)
    (forall (A : Arith) (a b : matrix A),
     g_mat_sub_assign_ref (Z.of_nat (rows a)) (Z.of_nat (cols a)) (Z.of_nat (rows b)) (Z.of_nat (cols b)) = true -> msub_assign a b = Panic Guard) /\
  (* accepts_mat_sub_assign_ref *)
    (forall (A : Arith) (a b : matrix A),
     Matrix.wf a ->
     Matrix.wf b ->
     g_mat_sub_assign_ref (Z.of_nat (rows a)) (Z.of_nat (cols a)) (Z.of_nat (rows b)) (Z.of_nat (cols b)) = false ->
     exists m' : matrix A, msub_assign a b = Ok m' /\ GuardsModelMat.same_shape m' a) /\
  (* rejects_mat_mul_ref *)
    (forall (A : Arith) (a b : matrix A),
     g_mat_mul_ref (Z.of_nat (rows a)) (Z.of_nat (cols a)) (Z.of_nat (rows b)) (Z.of_nat (cols b)) = true -> mat_mul a b = Panic Guard) /\
  (* accepts_mat_mul_ref *)
    (forall (A : Arith) (a b : matrix A),
     Matrix.wf a ->
     Matrix.wf b ->
     g_mat_mul_ref (Z.of_nat (rows a)) (Z.of_nat (cols a)) (Z.of_nat (rows b)) (Z.of_nat (cols b)) = false ->
     exists c : matrix A, mat_mul a b = Ok c /\ Matrix.wf c /\ rows c = rows a /\ cols c = cols b).
Print Assumptions entry_contract_matrix.
(* non-vacuity on a 2x3 rational matrix: column 2 exists (the pre-repair set_col guard refused it) and is accepted, column 3 and a
   vector of the wrong length are rejected; 2x3 * 2x3 is rejected, 2x3 * 3x2 accepted *)
Example entry_contract_matrix_nonvacuous :
  let M : matrix AQ := @mkM AQ [q 1 1; q 2 1; q 3 1; q 4 1; q 5 1; q 6 1] 2 3 in
  let N : matrix AQ := @mkM AQ [q 1 1; q 0 1; q 0 1; q 1 1; q 2 1; q 2 1] 3 2 in
  Matrix.wf M /\ Matrix.wf N /\
  g_mat_set_col 2 3 2 2 = false /\ is_ok (set_col M 2 [q 9 1; q 8 1]) = true /\
  g_mat_set_col 2 3 3 2 = true /\ panics_with Guard (set_col M 3 [q 9 1; q 8 1]) = true /\
  g_mat_set_col 2 3 1 3 = true /\ panics_with Guard (set_col M 1 [q 9 1; q 8 1; q 7 1]) = true /\
  g_mat_swap_rows 2 3 0 2 = true /\ panics_with Guard (swap_rows M 0 2) = true /\ g_mat_delete_row 2 3 1 = false /\ is_ok (delete_row M 1) = true /\
  g_mat_mul_ref 2 3 2 3 = true /\ panics_with Guard (mat_mul M M) = true /\ g_mat_mul_ref 2 3 3 2 = false /\ is_ok (mat_mul M N) = true /\
  g_mat_add_assign_ref 2 3 3 2 = true /\ panics_with Guard (madd_assign M N) = true.
Proof. vm_compute. repeat split; reflexivity. Qed.

(* ---- dense Matrix, solve.rs (5 entries): solve_basic lu_decomp_in_place solve_lu inverse determinant; rejection unconditional;
   acceptance over any field with a magnitude, data-dependent division panics named. ---- *)
Theorem entry_contract_solve :
  (* rejects_mat_solve_basic *)
    (forall (A : Arith) (M : matrix A) (b : list A),
     g_mat_solve_basic (Z.of_nat (rows M)) (Z.of_nat (cols M)) (Z.of_nat (length b)) = true -> solve_basic M b = Panic Guard) /\
  (* rejects_mat_lu *)
    (forall (A : Arith) (M : matrix A), g_mat_lu (Z.of_nat (rows M)) (Z.of_nat (cols M)) = true -> lu_decomp M = Panic Guard) /\
  (* rejects_mat_solve_lu *)
    (forall (A : Arith) (M : matrix A) (b : list A),
     g_mat_solve_lu (Z.of_nat (rows M)) (Z.of_nat (cols M)) (Z.of_nat (length b)) = true -> solve_lu M b = Panic Guard) /\
  (* rejects_mat_inverse *)
    (forall (A : Arith) (M : matrix A), g_mat_inverse (Z.of_nat (rows M)) (Z.of_nat (cols M)) = true -> inverse M = Panic Guard) /\
  (* rejects_mat_determinant *)
    (forall (A : Arith) (M : matrix A), g_mat_determinant (Z.of_nat (rows M)) (Z.of_nat (cols M)) = true -> determinant M = Panic Guard) /\
  (* accepts_mat_lu *)
    (forall A : Arith,
     FieldLaws A ->
     forall M : matrix A,
     LUPrim.PivLaws A ->
     Matrix.wf M ->
     g_mat_lu (Z.of_nat (rows M)) (Z.of_nat (cols M)) = false ->
     exists (LU : matrix A) (piv : nat) (P : matrix A),
       lu_decomp M = Ok (LU, piv, P) /\ LUPrim.shape LU (rows M) (rows M) /\ LUPrim.shape P (rows M) (rows M)) /\
  (* accepts_mat_determinant *)
    (forall A : Arith,
     FieldLaws A ->
     forall M : matrix A,
     LUPrim.PivLaws A -> Matrix.wf M -> g_mat_determinant (Z.of_nat (rows M)) (Z.of_nat (cols M)) = false -> exists d : A, determinant M = Ok d) /\
  (* accepts_mat_inverse *)
    (forall A : Arith,
     FieldLaws A ->
     forall M : matrix A,
     LUPrim.PivLaws A ->
     Matrix.wf M ->
     g_mat_inverse (Z.of_nat (rows M)) (Z.of_nat (cols M)) = false ->
     exists d : A,
       determinant M = Ok d /\ (d <> zero -> exists N : matrix A, inverse M = Ok N) /\ (1 <= rows M -> d = zero -> inverse M = Panic DivZero)) /\
  (* accepts_mat_solve_lu *)
    (forall A : Arith,
     FieldLaws A ->
     forall (M : matrix A) (b : list A),
     LUPrim.PivLaws A ->
     Matrix.wf M ->
     g_mat_solve_lu (Z.of_nat (rows M)) (Z.of_nat (cols M)) (Z.of_nat (length b)) = false ->
     1 <= rows M -> forall d : A, determinant M = Ok d -> d <> zero -> exists x : list A, solve_lu M b = Ok x) /\
  (* accepts_mat_solve_basic *)
    (forall A : Arith,
     FieldLaws A ->
     forall (M : matrix A) (b : list A),
     Matrix.wf M ->
     g_mat_solve_basic (Z.of_nat (rows M)) (Z.of_nat (cols M)) (Z.of_nat (length b)) = false ->
     1 <= rows M ->
     (forall k : pkind, solve_basic M b = Panic k -> k = DivZero) /\
     (SolveBase.PivLaws A ->
      (exists N : nat -> nat -> A, Solve.left_inverse (rows M) N (Matrix.entry M)) -> exists x : list A, solve_basic M b = Ok x)).
Proof. exact GuardsModelFamilies.entry_contract_solve_lemma. Qed.
Check entry_contract_solve :
  (* rejects_mat_solve_basic *)
    (forall (A : Arith) (M : matrix A) (b : list A),
     g_mat_solve_basic (Z.of_nat (rows M)) (Z.of_nat (cols M)) (Z.of_nat (length b)) = true -> solve_basic M b = Panic Guard) /\
  (* rejects_mat_lu *)
    (forall (A : Arith) (M : matrix A), g_mat_lu (Z.of_nat (rows M)) (Z.of_nat (cols M)) = true -> lu_decomp M = Panic Guard) /\
  (* rejects_mat_solve_lu *)
    (forall (A : Arith) (M : matrix A) (b : list A),
     g_mat_solve_lu (Z.of_nat (rows M)) (Z.of_nat (cols M)) (Z.of_nat (length b)) = true -> solve_lu M b = Panic Guard) /\
  (* rejects_mat_inverse *)
    (forall (A : Arith) (M : matrix A), g_mat_inverse (Z.of_nat (rows M)) (Z.of_nat (cols M)) = true -> inverse M = Panic Guard) /\
  (* rejects_mat_determinant *)
    (forall (A : Arith) (M : matrix A), g_mat_determinant (Z.of_nat (rows M)) (Z.of_nat (cols M)) = true -> determinant M = Panic Guard) /\
  (* accepts_mat_lu *)
    (forall A : Arith,
     FieldLaws A ->
     forall M : matrix A,
     LUPrim.PivLaws A ->
     Matrix.wf M ->
     g_mat_lu (Z.of_nat (rows M)) (Z.of_nat (cols M)) = false ->
     exists (LU : matrix A) (piv : nat) (P : matrix A),
       lu_decomp M = Ok (LU, piv, P) /\ LUPrim.shape LU (rows M) (rows M) /\ LUPrim.shape P (rows M) (rows M)) /\
  (* accepts_mat_determinant *)
    (forall A : Arith,
     FieldLaws A ->
     forall M : matrix A,
     LUPrim.PivLaws A -> Matrix.wf M -> g_mat_determinant (Z.of_nat (rows M)) (Z.of_nat (cols M)) = false -> exists d : A, determinant M = Ok d) /\
  (* accepts_mat_inverse *)
    (forall A : Arith,
     FieldLaws A ->
     forall M : matrix A,
     LUPrim.PivLaws A ->
     Matrix.wf M ->
     g_mat_inverse (Z.of_nat (rows M)) (Z.of_nat (cols M)) = false ->
     exists d : A,
       determinant M = Ok d /\ (d <> zero -> exists N : matrix A, inverse M = Ok N) /\ (1 <= rows M -> d = zero -> inverse M = Panic DivZero)) /\
  (* accepts_mat_solve_lu *)
    (forall A : Arith,
     FieldLaws A ->
     forall (M : matrix A) (b : list A),
     LUPrim.PivLaws A ->
     Matrix.wf M ->
     g_mat_solve_lu (Z.of_nat (rows M)) (Z.of_nat (cols M)) (Z.of_nat (length b)) = false ->
     1 <= rows M -> forall d : A, determinant M = Ok d -> d <> zero -> exists x : list A, solve_lu M b = Ok x) /\
  (* accepts_mat_solve_basic *)
    (forall A : Arith,
     FieldLaws A ->
     forall (M : matrix A) (b : list A),
     Matrix.wf M ->
     g_mat_solve_basic (Z.of_nat (rows M)) (Z.of_nat (cols M)) (Z.of_nat (length b)) = false ->
     1 <= rows M ->
     (forall k : pkind, solve_basic M b = Panic k -> k = DivZero) /\
     (SolveBase.PivLaws A ->
      (exists N : nat -> nat -> A, Solve.left_inverse (rows M) N (Matrix.entry M)) -> exists x : list A, solve_basic M b = Ok x)).
Print Assumptions entry_contract_solve.
(* non-vacuity: the field and magnitude laws hold at Qc; a nonsingular 2x2 system is solved by both solvers and inverted, a non-square one
   and a wrong right-hand side are rejected, the singular all-ones matrix has determinant Ok 0 and its inverse is the division panic *)
Example entry_contract_solve_nonvacuous :
  let M : matrix AQ := @mkM AQ [q 2 1; q 1 1; q 1 1; q 3 1] 2 2 in
  let J : matrix AQ := @mkM AQ [q 1 1; q 1 1; q 1 1; q 1 1] 2 2 in
  let R : matrix AQ := @mkM AQ [q 1 1; q 2 1; q 3 1; q 4 1; q 5 1; q 6 1] 2 3 in
  LUPrim.PivLaws AQ /\ Matrix.wf M /\
  g_mat_solve_basic 2 2 2 = false /\ is_ok (solve_basic M [q 1 1; q 2 1]) = true /\ is_ok (solve_lu M [q 1 1; q 2 1]) = true /\
  g_mat_solve_basic 2 2 3 = true /\ panics_with Guard (solve_basic M [q 1 1; q 2 1; q 3 1]) = true /\ panics_with Guard (solve_lu M [q 1 1; q 2 1; q 3 1]) = true /\
  g_mat_determinant 2 3 = true /\ panics_with Guard (determinant R) = true /\ panics_with Guard (inverse R) = true /\ panics_with Guard (lu_decomp R) = true /\
  is_ok (inverse M) = true /\ is_ok (determinant J) = true /\ panics_with DivZero (inverse J) = true.
Proof. split; [exact LUQc.AQ_PivLaws|]. vm_compute. repeat split; reflexivity. Qed.

(* ---- Banded (9 entries): fill_band solve index index_mut + - += -= (matrix * vector); acceptance over ANY arithmetic for every (n, m1, m2)
   (solve: over a field, the complete outcome list); frames on the raw compact storage, padding included. ---- *)
Theorem entry_contract_banded :
  (* rejects_band_fill_band *)
    (forall (A : Arith) (B : banded A) (band : Z) (x : A),
     g_band_fill_band (Z.of_nat (bn B)) (Z.of_nat (bm1 B)) (Z.of_nat (bm2 B)) band = true -> band_fill_band B band x = Panic Guard) /\
  (* accepts_band_fill_band *)
    (forall (A : Arith) (B : banded A) (band : Z) (x : A),
     Banded.wfB B ->
     g_band_fill_band (Z.of_nat (bn B)) (Z.of_nat (bm1 B)) (Z.of_nat (bm2 B)) band = false -> exists B' : banded A, band_fill_band B band x = Ok B') /\
  (* frame_band_fill_band *)
    (forall (A : Arith) (B : banded A) (band : Z) (x : A) (B' : banded A),
     Banded.wfB B ->
     band_fill_band B band x = Ok B' ->
     GuardsModelBand.same_sizes B' B /\
     (forall i s : nat,
      i < bn B -> s < bm1 B + bm2 B + 1 -> s <> Z.to_nat (Z.of_nat (bm1 B) + band) -> Matrix.entry (compact B') i s = Matrix.entry (compact B) i s)) /\
  (* rejects_band_index *)
    (forall (A : Arith) (B : banded A) (i j : nat),
     g_band_index (Z.of_nat (bn B)) (Z.of_nat (bm1 B)) (Z.of_nat (bm2 B)) (Z.of_nat i) (Z.of_nat j) = true -> band_get B i j = Panic Guard) /\
  (* accepts_band_index *)
    (forall (A : Arith) (B : banded A) (i j : nat),
     Banded.wfB B ->
     i < bn B ->
     g_band_index (Z.of_nat (bn B)) (Z.of_nat (bm1 B)) (Z.of_nat (bm2 B)) (Z.of_nat i) (Z.of_nat j) = false -> exists x : A, band_get B i j = Ok x) /\
  (* rejects_band_index_mut *)
    (forall (A : Arith) (B : banded A) (i j : nat) (x : A),
     g_band_index_mut (Z.of_nat (bn B)) (Z.of_nat (bm1 B)) (Z.of_nat (bm2 B)) (Z.of_nat i) (Z.of_nat j) = true -> band_set B i j x = Panic Guard) /\
  (* accepts_band_index_mut *)
    (forall (A : Arith) (B : banded A) (i j : nat) (x : A),
     Banded.wfB B ->
     i < bn B ->
     g_band_index_mut (Z.of_nat (bn B)) (Z.of_nat (bm1 B)) (Z.of_nat (bm2 B)) (Z.of_nat i) (Z.of_nat j) = false ->
     exists B' : banded A, band_set B i j x = Ok B') /\
  (* frame_band_index_mut *)
    (forall (A : Arith) (B : banded A) (i j : nat) (x : A) (B' : banded A),
     Banded.wfB B ->
     i < bn B ->
     band_set B i j x = Ok B' ->
     GuardsModelBand.same_sizes B' B /\
     (forall i' s : nat,
      i' < bn B -> s < bm1 B + bm2 B + 1 -> (i', s) <> (i, band_slot (bm1 B) i j) -> Matrix.entry (compact B') i' s = Matrix.entry (compact B) i' s)) /\
  (* rejects_band_add_ref *)
    (forall (A : Arith) (B C : banded A),
     g_band_add_ref (Z.of_nat (bn B)) (Z.of_nat (bm1 B)) (Z.of_nat (bm2 B)) (Z.of_nat (bn C)) (Z.of_nat (bm1 C)) (Z.of_nat (bm2 C)) = true ->
     band_add B C = Panic Guard) /\
  (* accepts_band_add_ref *)
    (forall (A : Arith) (B C : banded A),
     Banded.wfB B ->
     Banded.wfB C ->
     g_band_add_ref (Z.of_nat (bn B)) (Z.of_nat (bm1 B)) (Z.of_nat (bm2 B)) (Z.of_nat (bn C)) (Z.of_nat (bm1 C)) (Z.of_nat (bm2 C)) = false ->
     exists R : banded A, band_add B C = Ok R /\ GuardsModelBand.same_sizes R B) /\
  (* rejects_band_sub_ref *)
    (forall (A : Arith) (B C : banded A),
     g_band_sub_ref (Z.of_nat (bn B)) (Z.of_nat (bm1 B)) (Z.of_nat (bm2 B)) (Z.of_nat (bn C)) (Z.of_nat (bm1 C)) (Z.of_nat (bm2 C)) = true ->
     band_sub B C = Panic Guard) /\
  (* accepts_band_sub_ref *)
    (forall (A : Arith) (B C : banded A),
     Banded.wfB B ->
     Banded.wfB C ->
     g_band_sub_ref (Z.of_nat (bn B)) (Z.of_nat (bm1 B)) (Z.of_nat (bm2 B)) (Z.of_nat (bn C)) (Z.of_nat (bm1 C)) (Z.of_nat (bm2 C)) = false ->
     exists R : banded A, band_sub B C = Ok R /\ GuardsModelBand.same_sizes R B) /\
  (* rejects_band_add_assign_ref *)
    (forall (A : Arith) (B C : banded A),
     g_band_add_assign_ref (Z.of_nat (bn B)) (Z.of_nat (bm1 B)) (Z.of_nat (bm2 B)) (Z.of_nat (bn C)) (Z.of_nat (bm1 C)) (Z.of_nat (bm2 C)) = true ->
     band_add_assign B C = Panic Guard) /\
  (* accepts_band_add_assign_ref *)
    (forall (A : Arith) (B C : banded A),
     Banded.wfB B ->
     Banded.wfB C ->
     g_band_add_assign_ref (Z.of_nat (bn B)) (Z.of_nat (bm1 B)) (Z.of_nat (bm2 B)) (Z.of_nat (bn C)) (Z.of_nat (bm1 C)) (Z.of_nat (bm2 C)) = false ->
     exists R : banded A, band_add_assign B C = Ok R /\ GuardsModelBand.same_sizes R B) /\
  (* rejects_band_sub_assign_ref *)
    (forall (A : Arith) (B C : banded A),
     g_band_sub_assign_ref (Z.of_nat (bn B)) (Z.of_nat (bm1 B)) (Z.of_nat (bm2 B)) (Z.of_nat (bn C)) (Z.of_nat (bm1 C)) (Z.of_nat (bm2 C)) = true ->
     band_sub_assign B C = Panic Guard) /\
  (* accepts_band_sub_assign_ref *)
    (forall (A : Arith) (B C : banded A),
     Banded.wfB B ->
     Banded.wfB C ->
     g_band_sub_assign_ref (Z.of_nat (bn B)) (Z.of_nat (bm1 B)) (Z.of_nat (bm2 B)) (Z.of_nat (bn C)) (Z.of_nat (bm1 C)) (Z.of_nat (bm2 C)) = false ->
     exists R : banded A, band_sub_assign B C = Ok R /\ GuardsModelBand.same_sizes R B) /\
  (* rejects_band_mul_vec *)
    (forall (A : Arith) (B : banded A) (v : list A),
     g_band_mul_vec (Z.of_nat (bn B)) (Z.of_nat (bm1 B)) (Z.of_nat (bm2 B)) (Z.of_nat (length v)) = true -> band_mul B v = Panic Guard) /\
  (* accepts_band_mul_vec *)
    (forall (A : Arith) (B : banded A) (v : list A),
     Banded.wfB B ->
     g_band_mul_vec (Z.of_nat (bn B)) (Z.of_nat (bm1 B)) (Z.of_nat (bm2 B)) (Z.of_nat (length v)) = false ->
     exists w : list A, band_mul B v = Ok w /\ length w = bn B) /\
  (* rejects_band_solve *)
    (forall (A : Arith) (B : banded A) (b : list A),
     g_band_solve (Z.of_nat (bn B)) (Z.of_nat (bm1 B)) (Z.of_nat (bm2 B)) (Z.of_nat (length b)) = true -> band_solve B b = Panic Guard) /\
  (* accepts_band_solve *)
    (forall A : Arith,
     FieldLaws A ->
     forall (B : banded A) (b : list A),
     Banded.wfB B ->
     g_band_solve (Z.of_nat (bn B)) (Z.of_nat (bm1 B)) (Z.of_nat (bm2 B)) (Z.of_nat (length b)) = false ->
     (exists x : list A, band_solve B b = Ok x /\ length x = bn B) \/
     bm1 B <= bn B /\ band_solve B b = Panic DivZero \/ bn B < bm1 B /\ band_solve B b = Panic Index) /\
  (* accepts_band_solve_nonsingular *)
    (forall A : Arith,
     FieldLaws A ->
     BandedComplete.PivotLaws A ->
     forall (B : banded A) (b : list A),
     Banded.wfB B ->
     g_band_solve (Z.of_nat (bn B)) (Z.of_nat (bm1 B)) (Z.of_nat (bm2 B)) (Z.of_nat (length b)) = false ->
     bm1 B <= bn B -> BandedComplete.trivial_kernel B -> exists x : list A, band_solve B b = Ok x).
Proof. exact GuardsModelFamilies.entry_contract_banded_lemma. Qed.
Check entry_contract_banded :
  (* rejects_band_fill_band *)
    (forall (A : Arith) (B : banded A) (band : Z) (x : A),
     g_band_fill_band (Z.of_nat (bn B)) (Z.of_nat (bm1 B)) (Z.of_nat (bm2 B)) band = true -> band_fill_band B band x = Panic Guard) /\
  (* accepts_band_fill_band *)
    (forall (A : Arith) (B : banded A) (band : Z) (x : A),
     Banded.wfB B ->
     g_band_fill_band (Z.of_nat (bn B)) (Z.of_nat (bm1 B)) (Z.of_nat (bm2 B)) band = false -> exists B' : banded A, band_fill_band B band x = Ok B') /\
  (* frame_band_fill_band *)
    (forall (A : Arith) (B : banded A) (band : Z) (x : A) (B' : banded A),
     Banded.wfB B ->
     band_fill_band B band x = Ok B' ->
     GuardsModelBand.same_sizes B' B /\
     (forall i s : nat,
      i < bn B -> s < bm1 B + bm2 B + 1 -> s <> Z.to_nat (Z.of_nat (bm1 B) + band) -> Matrix.entry (compact B') i s = Matrix.entry (compact B) i s)) /\
  (* rejects_band_index *)
    (forall (A : Arith) (B : banded A) (i j : nat),
     g_band_index (Z.of_nat (bn B)) (Z.of_nat (bm1 B)) (Z.of_nat (bm2 B)) (Z.of_nat i) (Z.of_nat j) = true -> band_get B i j = Panic Guard) /\
  (* accepts_band_index *)
    (forall (A : Arith) (B : banded A) (i j : nat),
     Banded.wfB B ->
     i < bn B ->
     g_band_index (Z.of_nat (bn B)) (Z.of_nat (bm1 B)) (Z.of_nat (bm2 B)) (Z.of_nat i) (Z.of_nat j) = false -> exists x : A, band_get B i j = Ok x) /\
  (* rejects_band_index_mut *)
    (forall (A : Arith) (B : banded A) (i j : nat) (x : A),
     g_band_index_mut (Z.of_nat (bn B)) (Z.of_nat (bm1 B)) (Z.of_nat (bm2 B)) (Z.of_nat i) (Z.of_nat j) = true -> band_set B i j x = Panic Guard) /\
  (* accepts_band_index_mut *)
    (forall (A : Arith) (B : banded A) (i j : nat) (x : A),
     Banded.wfB B ->
     i < bn B ->
     g_band_index_mut (Z.of_nat (bn B)) (Z.of_nat (bm1 B)) (Z.of_nat (bm2 B)) (Z.of_nat i) (Z.of_nat j) = false ->
     exists B' : banded A, band_set B i j x = Ok B') /\
  (* frame_band_index_mut *)
    (forall (A : Arith) (B : banded A) (i j : nat) (x : A) (B' : banded A),
     Banded.wfB B ->
     i < bn B ->
     band_set B i j x = Ok B' ->
     GuardsModelBand.same_sizes B' B /\
     (forall i' s : nat,
      i' < bn B -> s < bm1 B + bm2 B + 1 -> (i', s) <> (i, band_slot (bm1 B) i j) -> Matrix.entry (compact B') i' s = Matrix.entry (compact B) i' s)) /\
  (* rejects_band_add_ref *)
    (forall (A : Arith) (B C : banded A),
     g_band_add_ref (Z.of_nat (bn B)) (Z.of_nat (bm1 B)) (Z.of_nat (bm2 B)) (Z.of_nat (bn C)) (Z.of_nat (bm1 C)) (Z.of_nat (bm2 C)) = true ->
     band_add B C = Panic Guard) /\
  (* accepts_band_add_ref *)
    (forall (A : Arith) (B C : banded A),
     Banded.wfB B ->
     Banded.wfB C ->
     g_band_add_ref (Z.of_nat (bn B)) (Z.of_nat (bm1 B)) (Z.of_nat (bm2 B)) (Z.of_nat (bn C)) (Z.of_nat (bm1 C)) (Z.of_nat (bm2 C)) = false ->
     exists R : banded A, band_add B C = Ok R /\ GuardsModelBand.same_sizes R B) /\
  (* rejects_band_sub_ref *)
    (forall (A : Arith) (B C : banded A),
     g_band_sub_ref (Z.of_nat (bn B)) (Z.of_nat (bm1 B)) (Z.of_nat (bm2 B)) (Z.of_nat (bn C)) (Z.of_nat (bm1 C)) (Z.of_nat (bm2 C)) = true ->
     band_sub B C = Panic Guard) /\
  (* accepts_band_sub_ref *)
    (forall (A : Arith) (B C : banded A),
     Banded.wfB B ->
     Banded.wfB C ->
     g_band_sub_ref (Z.of_nat (bn B)) (Z.of_nat (bm1 B)) (Z.of_nat (bm2 B)) (Z.of_nat (bn C)) (Z.of_nat (bm1 C)) (Z.of_nat (bm2 C)) = false ->
     exists R : banded A, band_sub B C = Ok R /\ GuardsModelBand.same_sizes R B) /\
  (* rejects_band_add_assign_ref *)
    (forall (A : Arith) (B C : banded A),
     g_band_add_assign_ref (Z.of_nat (bn B)) (Z.of_nat (bm1 B)) (Z.of_nat (bm2 B)) (Z.of_nat (bn C)) (Z.of_nat (bm1 C)) (Z.of_nat (bm2 C)) = true ->
     band_add_assign B C = Panic Guard) /\
  (* accepts_band_add_assign_ref *)
    (forall (A : Arith) (B C : banded A),
     Banded.wfB B ->
     Banded.wfB C ->
     g_band_add_assign_ref (Z.of_nat (bn B)) (Z.of_nat (bm1 B)) (Z.of_nat (bm2 B)) (Z.of_nat (bn C)) (Z.of_nat (bm1 C)) (Z.of_nat (bm2 C)) = false ->
     exists R : banded A, band_add_assign B C = Ok R /\ GuardsModelBand.same_sizes R B) /\
  (* rejects_band_sub_assign_ref *)
    (forall (A : Arith) (B C : banded A),
     g_band_sub_assign_ref (Z.of_nat (bn B)) (Z.of_nat (bm1 B)) (Z.of_nat (bm2 B)) (Z.of_nat (bn C)) (Z.of_nat (bm1 C)) (Z.of_nat (bm2 C)) = true ->
     band_sub_assign B C = Panic Guard) /\
  (* accepts_band_sub_assign_ref *)
    (forall (A : Arith) (B C : banded A),
     Banded.wfB B ->
     Banded.wfB C ->
     g_band_sub_assign_ref (Z.of_nat (bn B)) (Z.of_nat (bm1 B)) (Z.of_nat (bm2 B)) (Z.of_nat (bn C)) (Z.of_nat (bm1 C)) (Z.of_nat (bm2 C)) = false ->
     exists R : banded A, band_sub_assign B C = Ok R /\ GuardsModelBand.same_sizes R B) /\
  (* rejects_band_mul_vec *)
    (forall (A : Arith) (B : banded A) (v : list A),
     g_band_mul_vec (Z.of_nat (bn B)) (Z.of_nat (bm1 B)) (Z.of_nat (bm2 B)) (Z.of_nat (length v)) = true -> band_mul B v = Panic Guard) /\
  (* accepts_band_mul_vec *)
    (forall (A : Arith) (B : banded A) (v : list A),
     Banded.wfB B ->
     g_band_mul_vec (Z.of_nat (bn B)) (Z.of_nat (bm1 B)) (Z.of_nat (bm2 B)) (Z.of_nat (length v)) = false ->
     exists w : list A, band_mul B v = Ok w /\ length w = bn B) /\
  (* rejects_band_solve *)
    (forall (A : Arith) (B : banded A) (b : list A),
     g_band_solve (Z.of_nat (bn B)) (Z.of_nat (bm1 B)) (Z.of_nat (bm2 B)) (Z.of_nat (length b)) = true -> band_solve B b = Panic Guard) /\
  (* accepts_band_solve *)
    (forall A : Arith,
     FieldLaws A ->
     forall (B : banded A) (b : list A),
     Banded.wfB B ->
     g_band_solve (Z.of_nat (bn B)) (Z.of_nat (bm1 B)) (Z.of_nat (bm2 B)) (Z.of_nat (length b)) = false ->
     (exists x : list A, band_solve B b = Ok x /\ length x = bn B) \/
     bm1 B <= bn B /\ band_solve B b = Panic DivZero \/ bn B < bm1 B /\ band_solve B b = Panic Index) /\
  (* accepts_band_solve_nonsingular *)
    (forall A : Arith,
     FieldLaws A ->
     BandedComplete.PivotLaws A ->
     forall (B : banded A) (b : list A),
     Banded.wfB B ->
     g_band_solve (Z.of_nat (bn B)) (Z.of_nat (bm1 B)) (Z.of_nat (bm2 B)) (Z.of_nat (length b)) = false ->
     bm1 B <= bn B -> BandedComplete.trivial_kernel B -> exists x : list A, band_solve B b = Ok x).
Print Assumptions entry_contract_banded.
(* non-vacuity on Banded::new(3, 1, 1, 1): (0,2) is outside the band and rejected; (2,3) is INSIDE the band test (j <= i + m2) although
   column 3 does not exist: accepted, it addresses the padding slot of row 2; (3,3) passes the band test too and falls off the buffer --
   the named precondition i < n of the acceptance half is necessary *)
Example entry_contract_banded_nonvacuous :
  let B : banded AQ := @band_new AQ 3 1 1 (q 1 1) in
  Banded.wfB B /\
  g_band_index 3 1 1 0 2 = true /\ panics_with Guard (band_get B 0 2) = true /\
  g_band_index 3 1 1 2 3 = false /\ is_ok (band_get B 2 3) = true /\
  g_band_index 3 1 1 3 3 = false /\ panics_with Index (band_get B 3 3) = true /\
  g_band_index_mut 3 1 1 2 0 = true /\ panics_with Guard (band_set B 2 0 (q 5 1)) = true /\ is_ok (band_set B 2 1 (q 5 1)) = true /\
  g_band_fill_band 3 1 1 (-2) = true /\ panics_with Guard (band_fill_band B (-2) (q 7 1)) = true /\ is_ok (band_fill_band B (-1) (q 7 1)) = true /\
  g_band_mul_vec 3 1 1 2 = true /\ panics_with Guard (band_mul B [q 1 1; q 2 1]) = true /\ is_ok (band_mul B [q 1 1; q 2 1; q 3 1]) = true /\
  g_band_add_ref 3 1 1 3 1 0 = true /\ panics_with Guard (band_add B (@band_new AQ 3 1 0 (q 1 1))) = true /\
  g_band_solve 3 1 1 2 = true /\ panics_with Guard (band_solve B [q 1 1; q 2 1]) = true /\ is_ok (band_solve B [q 1 1; q 2 1; q 3 1]) = true.
Proof. split; [apply Banded.band_new_wf|]. vm_compute. repeat split; reflexivity. Qed.

(* ---- Tridiagonal (9 entries): with_vectors with_vecs convert solve index index_mut + - (matrix * vector); any arithmetic. ---- *)
Theorem entry_contract_tridiagonal :
  (* rejects_tri_with_vecs *)
    (forall (A : Arith) (sub main sup : list A),
     g_tri_with_vecs (Z.of_nat (length sub)) (Z.of_nat (length main)) (Z.of_nat (length sup)) = true ->
     with_vecs sub main sup = Panic (if length main =? 0 then Underflow else Guard)) /\
  (* accepts_tri_with_vecs *)
    (forall (A : Arith) (sub main sup : list A),
     g_tri_with_vecs (Z.of_nat (length sub)) (Z.of_nat (length main)) (Z.of_nat (length sup)) = false ->
     exists t : tridiag A, with_vecs sub main sup = Ok t /\ Tridiag.wfT t /\ tn t = length main) /\
  (* rejects_tri_with_vectors *)
    (forall (A : Arith) (sub main sup : list A),
     g_tri_with_vectors (Z.of_nat (length sub)) (Z.of_nat (length main)) (Z.of_nat (length sup)) = true ->
     with_vectors sub main sup = Panic (if length main =? 0 then Underflow else Guard)) /\
  (* accepts_tri_with_vectors *)
    (forall (A : Arith) (sub main sup : list A),
     g_tri_with_vectors (Z.of_nat (length sub)) (Z.of_nat (length main)) (Z.of_nat (length sup)) = false ->
     exists t : tridiag A, with_vectors sub main sup = Ok t /\ Tridiag.wfT t /\ tn t = length main) /\
  (* rejects_tri_convert *)
    (forall (A : Arith) (t : tridiag A), g_tri_convert (Z.of_nat (tn t)) = true -> tconvert t = Panic Guard) /\
  (* accepts_tri_convert *)
    (forall (A : Arith) (t : tridiag A),
     Tridiag.wfT t ->
     g_tri_convert (Z.of_nat (tn t)) = false -> exists m : matrix A, tconvert t = Ok m /\ Tridiag.wfM m /\ rows m = tn t /\ cols m = tn t) /\
  (* rejects_tri_index *)
    (forall (A : Arith) (t : tridiag A) (i j : nat), g_tri_index (Z.of_nat (tn t)) (Z.of_nat i) (Z.of_nat j) = true -> tindex t i j = Panic Guard) /\
  (* accepts_tri_index *)
    (forall (A : Arith) (t : tridiag A) (i j : nat),
     Tridiag.wfT t -> g_tri_index (Z.of_nat (tn t)) (Z.of_nat i) (Z.of_nat j) = false -> exists x : A, tindex t i j = Ok x) /\
  (* rejects_tri_index_mut *)
    (forall (A : Arith) (t : tridiag A) (i j : nat) (x : A),
     g_tri_index_mut (Z.of_nat (tn t)) (Z.of_nat i) (Z.of_nat j) = true -> tset t i j x = Panic Guard) /\
  (* accepts_tri_index_mut *)
    (forall (A : Arith) (t : tridiag A) (i j : nat) (x : A),
     Tridiag.wfT t -> g_tri_index_mut (Z.of_nat (tn t)) (Z.of_nat i) (Z.of_nat j) = false -> exists t' : tridiag A, tset t i j x = Ok t') /\
  (* frame_tri_index_mut *)
    (forall (A : Arith) (t : tridiag A) (i j : nat) (x : A) (t' : tridiag A),
     Tridiag.wfT t ->
     tset t i j x = Ok t' ->
     Tridiag.wfT t' /\ tn t' = tn t /\ (forall p q : nat, p < tn t -> q < tn t -> (p, q) <> (i, j) -> dense t' p q = dense t p q)) /\
  (* rejects_tri_add *)
    (forall (A : Arith) (a b : tridiag A), g_tri_add (Z.of_nat (tn a)) (Z.of_nat (tn b)) = true -> tadd a b = Panic Guard) /\
  (* rejects_tri_sub *)
    (forall (A : Arith) (a b : tridiag A), g_tri_sub (Z.of_nat (tn a)) (Z.of_nat (tn b)) = true -> tminus a b = Panic Guard) /\
  (* accepts_tri_add *)
    (forall (A : Arith) (a b : tridiag A),
     Tridiag.wfT a ->
     Tridiag.wfT b ->
     g_tri_add (Z.of_nat (tn a)) (Z.of_nat (tn b)) = false -> exists c : tridiag A, tadd a b = Ok c /\ Tridiag.wfT c /\ tn c = tn a) /\
  (* accepts_tri_sub *)
    (forall (A : Arith) (a b : tridiag A),
     Tridiag.wfT a ->
     Tridiag.wfT b ->
     g_tri_sub (Z.of_nat (tn a)) (Z.of_nat (tn b)) = false -> exists c : tridiag A, tminus a b = Ok c /\ Tridiag.wfT c /\ tn c = tn a) /\
  (* rejects_tri_mul_vec *)
    (forall (A : Arith) (t : tridiag A) (v : list A), g_tri_mul_vec (Z.of_nat (tn t)) (Z.of_nat (length v)) = true -> tmul t v = Panic Guard) /\
  (* accepts_tri_mul_vec *)
    (forall (A : Arith) (t : tridiag A) (v : list A),
     Tridiag.wfT t ->
     1 <= tn t -> g_tri_mul_vec (Z.of_nat (tn t)) (Z.of_nat (length v)) = false -> exists w : list A, tmul t v = Ok w /\ length w = tn t) /\
  (* rejects_tri_solve *)
    (forall (A : Arith) (t : tridiag A) (r : list A), g_tri_solve (Z.of_nat (tn t)) (Z.of_nat (length r)) = true -> tsolve t r = Panic Guard) /\
  (* accepts_tri_solve *)
    (forall (A : Arith) (t : tridiag A) (r : list A),
     (forall x y : A, eqb y zero = false -> exists z : A, div x y = Ok z) ->
     Tridiag.wfT t ->
     1 <= tn t ->
     g_tri_solve (Z.of_nat (tn t)) (Z.of_nat (length r)) = false ->
     (exists u : list A, tsolve t r = Ok u /\ length u = tn t) \/ tsolve t r = Panic Guard) /\
  (* accepts_tri_solve_field *)
    (forall A : Arith,
     FieldLaws A ->
     forall (t : tridiag A) (r : list A),
     Tridiag.wfT t ->
     1 <= tn t ->
     g_tri_solve (Z.of_nat (tn t)) (Z.of_nat (length r)) = false ->
     (exists u : list A, tsolve t r = Ok u /\ length u = tn t /\ (forall k : nat, k < tn t -> exists p : A, thomas_pivot t k = Ok p /\ p <> zero)) \/
     tsolve t r = Panic Guard /\ (exists k : nat, k < tn t /\ thomas_pivot t k = Ok zero)).
Proof. exact GuardsModelFamilies.entry_contract_tridiagonal_lemma. Qed.
Check entry_contract_tridiagonal :
  (* rejects_tri_with_vecs *)
    (forall (A : Arith) (sub main sup : list A),
     g_tri_with_vecs (Z.of_nat (length sub)) (Z.of_nat (length main)) (Z.of_nat (length sup)) = true ->
     with_vecs sub main sup = Panic (if length main =? 0 then Underflow else Guard)) /\
  (* accepts_tri_with_vecs *)
    (forall (A : Arith) (sub main sup : list A),
     g_tri_with_vecs (Z.of_nat (length sub)) (Z.of_nat (length main)) (Z.of_nat (length sup)) = false ->
     exists t : tridiag A, with_vecs sub main sup = Ok t /\ Tridiag.wfT t /\ tn t = length main) /\
  (* rejects_tri_with_vectors *)
    (forall (A : Arith) (sub main sup : list A),
     g_tri_with_vectors (Z.of_nat (length sub)) (Z.of_nat (length main)) (Z.of_nat (length sup)) = true ->
     with_vectors sub main sup = Panic (if length main =? 0 then Underflow else Guard)) /\
  (* accepts_tri_with_vectors *)
    (forall (A : Arith) (sub main sup : list A),
     g_tri_with_vectors (Z.of_nat (length sub)) (Z.of_nat (length main)) (Z.of_nat (length sup)) = false ->
     exists t : tridiag A, with_vectors sub main sup = Ok t /\ Tridiag.wfT t /\ tn t = length main) /\
  (* rejects_tri_convert *)
    (forall (A : Arith) (t : tridiag A), g_tri_convert (Z.of_nat (tn t)) = true -> tconvert t = Panic Guard) /\
  (* accepts_tri_convert *)
    (forall (A : Arith) (t : tridiag A),
     Tridiag.wfT t ->
     g_tri_convert (Z.of_nat (tn t)) = false -> exists m : matrix A, tconvert t = Ok m /\ Tridiag.wfM m /\ rows m = tn t /\ cols m = tn t) /\
  (* rejects_tri_index *)
    (forall (A : Arith) (t : tridiag A) (i j : nat), g_tri_index (Z.of_nat (tn t)) (Z.of_nat i) (Z.of_nat j) = true -> tindex t i j = Panic Guard) /\
  (* accepts_tri_index *)
    (forall (A : Arith) (t : tridiag A) (i j : nat),
     Tridiag.wfT t -> g_tri_index (Z.of_nat (tn t)) (Z.of_nat i) (Z.of_nat j) = false -> exists x : A, tindex t i j = Ok x) /\
  (* rejects_tri_index_mut *)
    (forall (A : Arith) (t : tridiag A) (i j : nat) (x : A),
     g_tri_index_mut (Z.of_nat (tn t)) (Z.of_nat i) (Z.of_nat j) = true -> tset t i j x = Panic Guard) /\
  (* accepts_tri_index_mut *)
    (forall (A : Arith) (t : tridiag A) (i j : nat) (x : A),
     Tridiag.wfT t -> g_tri_index_mut (Z.of_nat (tn t)) (Z.of_nat i) (Z.of_nat j) = false -> exists t' : tridiag A, tset t i j x = Ok t') /\
  (* frame_tri_index_mut *)
    (forall (A : Arith) (t : tridiag A) (i j : nat) (x : A) (t' : tridiag A),
     Tridiag.wfT t ->
     tset t i j x = Ok t' ->
     Tridiag.wfT t' /\ tn t' = tn t /\ (forall p q : nat, p < tn t -> q < tn t -> (p, q) <> (i, j) -> dense t' p q = dense t p q)) /\
  (* rejects_tri_add *)
    (forall (A : Arith) (a b : tridiag A), g_tri_add (Z.of_nat (tn a)) (Z.of_nat (tn b)) = true -> tadd a b = Panic Guard) /\
  (* rejects_tri_sub *)
    (forall (A : Arith) (a b : tridiag A), g_tri_sub (Z.of_nat (tn a)) (Z.of_nat (tn b)) = true -> tminus a b = Panic Guard) /\
  (* accepts_tri_add *)
    (forall (A : Arith) (a b : tridiag A),
     Tridiag.wfT a ->
     Tridiag.wfT b ->
     g_tri_add (Z.of_nat (tn a)) (Z.of_nat (tn b)) = false -> exists c : tridiag A, tadd a b = Ok c /\ Tridiag.wfT c /\ tn c = tn a) /\
  (* accepts_tri_sub *)
    (forall (A : Arith) (a b : tridiag A),
     Tridiag.wfT a ->
     Tridiag.wfT b ->
     g_tri_sub (Z.of_nat (tn a)) (Z.of_nat (tn b)) = false -> exists c : tridiag A, tminus a b = Ok c /\ Tridiag.wfT c /\ tn c = tn a) /\
  (* rejects_tri_mul_vec *)
    (forall (A : Arith) (t : tridiag A) (v : list A), g_tri_mul_vec (Z.of_nat (tn t)) (Z.of_nat (length v)) = true -> tmul t v = Panic Guard) /\
  (* accepts_tri_mul_vec *)
    (forall (A : Arith) (t : tridiag A) (v : list A),
     Tridiag.wfT t ->
     1 <= tn t -> g_tri_mul_vec (Z.of_nat (tn t)) (Z.of_nat (length v)) = false -> exists w : list A, tmul t v = Ok w /\ length w = tn t) /\
  (* rejects_tri_solve *)
    (forall (A : Arith) (t : tridiag A) (r : list A), g_tri_solve (Z.of_nat (tn t)) (Z.of_nat (length r)) = true -> tsolve t r = Panic Guard) /\
  (* accepts_tri_solve *)
    (forall (A : Arith) (t : tridiag A) (r : list A),
     (forall x y : A, eqb y zero = false -> exists z : A, div x y = Ok z) ->
     Tridiag.wfT t ->
     1 <= tn t ->
     g_tri_solve (Z.of_nat (tn t)) (Z.of_nat (length r)) = false ->
     (exists u : list A, tsolve t r = Ok u /\ length u = tn t) \/ tsolve t r = Panic Guard) /\
  (* accepts_tri_solve_field *)
    (forall A : Arith,
     FieldLaws A ->
     forall (t : tridiag A) (r : list A),
     Tridiag.wfT t ->
     1 <= tn t ->
     g_tri_solve (Z.of_nat (tn t)) (Z.of_nat (length r)) = false ->
     (exists u : list A, tsolve t r = Ok u /\ length u = tn t /\ (forall k : nat, k < tn t -> exists p : A, thomas_pivot t k = Ok p /\ p <> zero)) \/
     tsolve t r = Panic Guard /\ (exists k : nat, k < tn t /\ thomas_pivot t k = Ok zero)).
Print Assumptions entry_contract_tridiagonal.
(* non-vacuity: an empty main diagonal is refused by the checked `n - 1` (Underflow), a short sub-diagonal by the guard; on the 3x3 matrix
   [[1,2,0],[3,4,5],[0,6,7]] entry (2,0) is rejected for read and write, (2,1) accepted; a zero leading entry is the data-dependent refusal *)
Example entry_contract_tridiagonal_nonvacuous :
  let t : tridiag AQ := @mkT AQ [q 3 1; q 6 1] [q 1 1; q 4 1; q 7 1] [q 2 1; q 5 1] 3 in
  let z : tridiag AQ := @mkT AQ [q 3 1] [q 0 1; q 4 1] [q 2 1] 2 in
  Tridiag.wfT t /\
  g_tri_with_vecs 0 0 0 = true /\ panics_with Underflow (with_vecs (A := AQ) [] [] []) = true /\
  g_tri_with_vecs 0 2 1 = true /\ panics_with Guard (with_vecs (A := AQ) [] [q 1 1; q 2 1] [q 3 1]) = true /\
  g_tri_with_vecs 1 2 1 = false /\ is_ok (with_vecs (A := AQ) [q 5 1] [q 1 1; q 2 1] [q 3 1]) = true /\
  g_tri_index 3 2 0 = true /\ panics_with Guard (tindex t 2 0) = true /\ panics_with Guard (tset t 2 0 (q 9 1)) = true /\
  g_tri_index_mut 3 2 1 = false /\ is_ok (tset t 2 1 (q 9 1)) = true /\
  g_tri_mul_vec 3 2 = true /\ panics_with Guard (tmul t [q 1 1; q 2 1]) = true /\ is_ok (tmul t [q 1 1; q 2 1; q 3 1]) = true /\
  g_tri_solve 3 2 = true /\ panics_with Guard (tsolve t [q 1 1; q 2 1]) = true /\ is_ok (tsolve t [q 1 1; q 2 1; q 3 1]) = true /\
  g_tri_solve 2 2 = false /\ panics_with Guard (tsolve z [q 1 1; q 2 1]) = true /\
  g_tri_convert 0 = true /\ panics_with Guard (tconvert (A := AQ) tempty) = true /\ is_ok (tconvert t) = true.
Proof. split; [unfold Tridiag.wfT; cbn; auto|]. vm_compute. repeat split; reflexivity. Qed.

(* ---- Sparse, structural (5 entries): from_triplets (guard per triplet) get insert multiply transpose_multiply; no law of the element type. ---- *)
Theorem entry_contract_sparse :
  (* rejects_sp_from_triplets *)
    (forall (A : Arith) (r c : nat) (ts : list (triplet A)),
     (exists t : triplet A, In t ts /\ g_sp_from_triplets (Z.of_nat r) (Z.of_nat c) (Z.of_nat (trow t)) (Z.of_nat (tcol t)) = true) ->
     sp_from_triplets r c ts = Panic Guard) /\
  (* accepts_sp_from_triplets *)
    (forall (A : Arith) (r c : nat) (ts : list (triplet A)),
     (forall t : triplet A, In t ts -> g_sp_from_triplets (Z.of_nat r) (Z.of_nat c) (Z.of_nat (trow t)) (Z.of_nat (tcol t)) = false) ->
     exists s : sparse A, sp_from_triplets r c ts = Ok s /\ SparseBase.wfS s /\ sp_rows s = r /\ sp_cols s = c) /\
  (* rejects_sp_get *)
    (forall (A : Arith) (s : sparse A) (row col : nat),
     g_sp_get (Z.of_nat (sp_rows s)) (Z.of_nat (sp_cols s)) (Z.of_nat row) (Z.of_nat col) = true -> sp_get s row col = Panic Guard) /\
  (* accepts_sp_get *)
    (forall (A : Arith) (s : sparse A) (row col : nat),
     SparseBase.wfS s ->
     g_sp_get (Z.of_nat (sp_rows s)) (Z.of_nat (sp_cols s)) (Z.of_nat row) (Z.of_nat col) = false -> exists o : option A, sp_get s row col = Ok o) /\
  (* rejects_sp_insert *)
    (forall (A : Arith) (s : sparse A) (row col : nat) (v : A),
     g_sp_insert (Z.of_nat (sp_rows s)) (Z.of_nat (sp_cols s)) (Z.of_nat row) (Z.of_nat col) = true -> sp_insert s row col v = Panic Guard) /\
  (* accepts_sp_insert *)
    (forall (A : Arith) (s : sparse A) (row col : nat) (v : A),
     SparseBase.wfS s ->
     g_sp_insert (Z.of_nat (sp_rows s)) (Z.of_nat (sp_cols s)) (Z.of_nat row) (Z.of_nat col) = false ->
     exists s' : sparse A, sp_insert s row col v = Ok s' /\ SparseBase.wfS s' /\ sp_rows s' = sp_rows s /\ sp_cols s' = sp_cols s) /\
  (* frame_sp_insert *)
    (forall (A : Arith) (s : sparse A) (row col : nat) (v : A) (s' : sparse A),
     SparseBase.wfS s ->
     SparseBase.NoDupKeys s ->
     sp_insert s row col v = Ok s' ->
     SparseBase.wfS s' /\
     SparseBase.NoDupKeys s' /\
     sp_rows s' = sp_rows s /\
     sp_cols s' = sp_cols s /\
     sp_get s' row col = Ok (Some v) /\ (forall i j : nat, i < sp_rows s -> j < sp_cols s -> (i, j) <> (row, col) -> sp_get s' i j = sp_get s i j)) /\
  (* rejects_sp_multiply *)
    (forall (A : Arith) (s : sparse A) (x : list A),
     g_sp_multiply (Z.of_nat (sp_rows s)) (Z.of_nat (sp_cols s)) (Z.of_nat (length x)) = true -> sp_mul s x = Panic Guard) /\
  (* accepts_sp_multiply *)
    (forall (A : Arith) (s : sparse A) (x : list A),
     SparseBase.wfS s ->
     g_sp_multiply (Z.of_nat (sp_rows s)) (Z.of_nat (sp_cols s)) (Z.of_nat (length x)) = false ->
     exists y : list A, sp_mul s x = Ok y /\ length y = sp_rows s) /\
  (* rejects_sp_transpose_multiply *)
    (forall (A : Arith) (s : sparse A) (x : list A),
     g_sp_transpose_multiply (Z.of_nat (sp_rows s)) (Z.of_nat (sp_cols s)) (Z.of_nat (length x)) = true -> sp_tmul s x = Panic Guard) /\
  (* accepts_sp_transpose_multiply *)
    (forall (A : Arith) (s : sparse A) (x : list A),
     SparseBase.wfS s ->
     g_sp_transpose_multiply (Z.of_nat (sp_rows s)) (Z.of_nat (sp_cols s)) (Z.of_nat (length x)) = false ->
     exists y : list A, sp_tmul s x = Ok y /\ length y = sp_cols s).
Proof. exact GuardsModelFamilies.entry_contract_sparse_lemma. Qed.
Check entry_contract_sparse :
  (* rejects_sp_from_triplets *)
    (forall (A : Arith) (r c : nat) (ts : list (triplet A)),
     (exists t : triplet A, In t ts /\ g_sp_from_triplets (Z.of_nat r) (Z.of_nat c) (Z.of_nat (trow t)) (Z.of_nat (tcol t)) = true) ->
     sp_from_triplets r c ts = Panic Guard) /\
  (* accepts_sp_from_triplets *)
    (forall (A : Arith) (r c : nat) (ts : list (triplet A)),
     (forall t : triplet A, In t ts -> g_sp_from_triplets (Z.of_nat r) (Z.of_nat c) (Z.of_nat (trow t)) (Z.of_nat (tcol t)) = false) ->
     exists s : sparse A, sp_from_triplets r c ts = Ok s /\ SparseBase.wfS s /\ sp_rows s = r /\ sp_cols s = c) /\
  (* rejects_sp_get *)
    (forall (A : Arith) (s : sparse A) (row col : nat),
     g_sp_get (Z.of_nat (sp_rows s)) (Z.of_nat (sp_cols s)) (Z.of_nat row) (Z.of_nat col) = true -> sp_get s row col = Panic Guard) /\
  (* accepts_sp_get *)
    (forall (A : Arith) (s : sparse A) (row col : nat),
     SparseBase.wfS s ->
     g_sp_get (Z.of_nat (sp_rows s)) (Z.of_nat (sp_cols s)) (Z.of_nat row) (Z.of_nat col) = false -> exists o : option A, sp_get s row col = Ok o) /\
  (* rejects_sp_insert *)
    (forall (A : Arith) (s : sparse A) (row col : nat) (v : A),
     g_sp_insert (Z.of_nat (sp_rows s)) (Z.of_nat (sp_cols s)) (Z.of_nat row) (Z.of_nat col) = true -> sp_insert s row col v = Panic Guard) /\
  (* accepts_sp_insert *)
    (forall (A : Arith) (s : sparse A) (row col : nat) (v : A),
     SparseBase.wfS s ->
     g_sp_insert (Z.of_nat (sp_rows s)) (Z.of_nat (sp_cols s)) (Z.of_nat row) (Z.of_nat col) = false ->
     exists s' : sparse A, sp_insert s row col v = Ok s' /\ SparseBase.wfS s' /\ sp_rows s' = sp_rows s /\ sp_cols s' = sp_cols s) /\
  (* frame_sp_insert *)
    (forall (A : Arith) (s : sparse A) (row col : nat) (v : A) (s' : sparse A),
     SparseBase.wfS s ->
     SparseBase.NoDupKeys s ->
     sp_insert s row col v = Ok s' ->
     SparseBase.wfS s' /\
     SparseBase.NoDupKeys s' /\
     sp_rows s' = sp_rows s /\
     sp_cols s' = sp_cols s /\
     sp_get s' row col = Ok (Some v) /\ (forall i j : nat, i < sp_rows s -> j < sp_cols s -> (i, j) <> (row, col) -> sp_get s' i j = sp_get s i j)) /\
  (* rejects_sp_multiply *)
    (forall (A : Arith) (s : sparse A) (x : list A),
     g_sp_multiply (Z.of_nat (sp_rows s)) (Z.of_nat (sp_cols s)) (Z.of_nat (length x)) = true -> sp_mul s x = Panic Guard) /\
  (* accepts_sp_multiply *)
    (forall (A : Arith) (s : sparse A) (x : list A),
     SparseBase.wfS s ->
     g_sp_multiply (Z.of_nat (sp_rows s)) (Z.of_nat (sp_cols s)) (Z.of_nat (length x)) = false ->
     exists y : list A, sp_mul s x = Ok y /\ length y = sp_rows s) /\
  (* rejects_sp_transpose_multiply *)
    (forall (A : Arith) (s : sparse A) (x : list A),
     g_sp_transpose_multiply (Z.of_nat (sp_rows s)) (Z.of_nat (sp_cols s)) (Z.of_nat (length x)) = true -> sp_tmul s x = Panic Guard) /\
  (* accepts_sp_transpose_multiply *)
    (forall (A : Arith) (s : sparse A) (x : list A),
     SparseBase.wfS s ->
     g_sp_transpose_multiply (Z.of_nat (sp_rows s)) (Z.of_nat (sp_cols s)) (Z.of_nat (length x)) = false ->
     exists y : list A, sp_tmul s x = Ok y /\ length y = sp_cols s).
Print Assumptions entry_contract_sparse.
(* non-vacuity: four triplets of a 3x4 matrix, not in column order; one out-of-range triplet anywhere in the list rejects the construction *)
Example entry_contract_sparse_nonvacuous :
  let ts : list (triplet AQ) := [(2, 3, q 5 3); (0, 1, q (-1) 2); (1, 2, q 7 1); (2, 1, q 2 1)] in
  (forall t, In t ts -> g_sp_from_triplets 3 4 (Z.of_nat (trow t)) (Z.of_nat (tcol t)) = false) /\
  g_sp_from_triplets 3 4 3 0 = true /\ panics_with Guard (sp_from_triplets (A := AQ) 3 4 ((1, 1, q 1 1) :: (3, 0, q 1 1) :: ts)) = true /\
  match sp_from_triplets 3 4 ts with
  | Ok s => is_ok (sp_get s 2 3) = true /\ panics_with Guard (sp_get s 3 0) = true /\ panics_with Guard (sp_get s 0 4) = true /\
            is_ok (sp_insert s 1 0 (q 9 1)) = true /\ panics_with Guard (sp_insert s 1 4 (q 9 1)) = true /\
            panics_with Guard (sp_mul s [q 1 1; q 2 1; q 3 1]) = true /\ is_ok (sp_mul s [q 1 1; q 2 1; q 3 1; q 4 1]) = true /\
            panics_with Guard (sp_tmul s [q 1 1; q 2 1; q 3 1; q 4 1]) = true /\ is_ok (sp_tmul s [q 1 1; q 2 1; q 3 1]) = true
  | Panic _ => False
  end /\
  g_sp_get 3 4 3 0 = true /\ g_sp_insert 3 4 1 4 = true /\ g_sp_multiply 3 4 3 = true /\ g_sp_transpose_multiply 3 4 4 = true.
Proof.
  split.
  { intros t Ht. cbn [In] in Ht. repeat (destruct Ht as [<-|Ht]; [vm_compute; reflexivity|]). destruct Ht. }
  vm_compute. repeat split; reflexivity.
Qed.

(* ---- Sparse, iterative solvers (4 entries): solve_cg solve_bicg solve_bicgstab solve_qmr.  Rejection: for ANY operator (the size guards come first;
   bicg's itol test after the first product: for the CSC products of a well-formed receiver).  Acceptance: for every budget and tolerance the only
   panic is one raised by the arithmetic's own division (Kd: = DivZero on the exact types, empty for f64 -- then the solver always returns). ---- *)
Theorem entry_contract_solvers :
  (* rejects_sp_solve_cg *)
    (forall (S : SArith) (mulA : list S -> res (list S)) (rows cols : nat) (b x : list S) (n : nat) (tol : S),
     g_sp_solve_cg (Z.of_nat rows) (Z.of_nat cols) (Z.of_nat (length b)) (Z.of_nat (length x)) = true ->
     solve_cg mulA rows cols b x n tol = Panic Guard) /\
  (* rejects_sp_solve_bicgstab *)
    (forall (S : SArith) (mulA : list S -> res (list S)) (rows cols : nat) (b x : list S) (n : nat) (tol : S),
     g_sp_solve_bicgstab (Z.of_nat rows) (Z.of_nat cols) (Z.of_nat (length b)) (Z.of_nat (length x)) = true ->
     solve_bicgstab mulA rows cols b x n tol = Panic Guard) /\
  (* rejects_sp_solve_qmr *)
    (forall (S : SArith) (mulA mulAT : list S -> res (list S)) (rows cols : nat) (b x : list S) (n : nat) (tol : S),
     g_sp_solve_qmr (Z.of_nat rows) (Z.of_nat cols) (Z.of_nat (length b)) (Z.of_nat (length x)) = true ->
     solve_qmr mulA mulAT rows cols b x n tol = Panic Guard) /\
  (* rejects_sp_solve_bicg *)
    (forall (S : SArith) (s : sparse S) (itol : nat) (b x : list S) (n : nat) (tol : S),
     SparseBase.wfS s ->
     g_sp_solve_bicg (Z.of_nat (sp_rows s)) (Z.of_nat (sp_cols s)) (Z.of_nat (length b)) (Z.of_nat (length x)) (Z.of_nat itol) = true ->
     solve_bicg (sp_mul s) (sp_tmul s) (sp_rows s) (sp_cols s) itol b x n tol = Panic Guard) /\
  (* accepts_sp_solve_cg *)
    (forall (S : SArith) (Kd : pkind -> Prop),
     (forall (x y : S) (k : pkind), div x y = Panic k -> Kd k) ->
     forall (s : sparse S) (b x : list S) (max : nat) (tol : S),
     SparseBase.wfS s ->
     g_sp_solve_cg (Z.of_nat (sp_rows s)) (Z.of_nat (sp_cols s)) (Z.of_nat (length b)) (Z.of_nat (length x)) = false ->
     forall k : pkind, solve_cg (sp_mul s) (sp_rows s) (sp_cols s) b x max tol = Panic k -> Kd k) /\
  (* accepts_sp_solve_bicgstab *)
    (forall (S : SArith) (Kd : pkind -> Prop),
     (forall (x y : S) (k : pkind), div x y = Panic k -> Kd k) ->
     forall (s : sparse S) (b x : list S) (max : nat) (tol : S),
     SparseBase.wfS s ->
     g_sp_solve_bicgstab (Z.of_nat (sp_rows s)) (Z.of_nat (sp_cols s)) (Z.of_nat (length b)) (Z.of_nat (length x)) = false ->
     forall k : pkind, solve_bicgstab (sp_mul s) (sp_rows s) (sp_cols s) b x max tol = Panic k -> Kd k) /\
  (* accepts_sp_solve_qmr *)
    (forall (S : SArith) (Kd : pkind -> Prop),
     (forall (x y : S) (k : pkind), div x y = Panic k -> Kd k) ->
     forall (s : sparse S) (b x : list S) (max : nat) (tol : S),
     SparseBase.wfS s ->
     g_sp_solve_qmr (Z.of_nat (sp_rows s)) (Z.of_nat (sp_cols s)) (Z.of_nat (length b)) (Z.of_nat (length x)) = false ->
     forall k : pkind, solve_qmr (sp_mul s) (sp_tmul s) (sp_rows s) (sp_cols s) b x max tol = Panic k -> Kd k) /\
  (* accepts_sp_solve_bicg *)
    (forall (S : SArith) (Kd : pkind -> Prop),
     (forall (x y : S) (k : pkind), div x y = Panic k -> Kd k) ->
     forall (s : sparse S) (itol : nat) (b x : list S) (max : nat) (tol : S),
     SparseBase.wfS s ->
     g_sp_solve_bicg (Z.of_nat (sp_rows s)) (Z.of_nat (sp_cols s)) (Z.of_nat (length b)) (Z.of_nat (length x)) (Z.of_nat itol) = false ->
     forall k : pkind, solve_bicg (sp_mul s) (sp_tmul s) (sp_rows s) (sp_cols s) itol b x max tol = Panic k -> Kd k).
Proof. exact GuardsModelFamilies.entry_contract_solvers_lemma. Qed.
Check entry_contract_solvers :
  (* rejects_sp_solve_cg *)
    (forall (S : SArith) (mulA : list S -> res (list S)) (rows cols : nat) (b x : list S) (n : nat) (tol : S),
     g_sp_solve_cg (Z.of_nat rows) (Z.of_nat cols) (Z.of_nat (length b)) (Z.of_nat (length x)) = true ->
     solve_cg mulA rows cols b x n tol = Panic Guard) /\
  (* rejects_sp_solve_bicgstab *)
    (forall (S : SArith) (mulA : list S -> res (list S)) (rows cols : nat) (b x : list S) (n : nat) (tol : S),
     g_sp_solve_bicgstab (Z.of_nat rows) (Z.of_nat cols) (Z.of_nat (length b)) (Z.of_nat (length x)) = true ->
     solve_bicgstab mulA rows cols b x n tol = Panic Guard) /\
  (* rejects_sp_solve_qmr *)
    (forall (S : SArith) (mulA mulAT : list S -> res (list S)) (rows cols : nat) (b x : list S) (n : nat) (tol : S),
     g_sp_solve_qmr (Z.of_nat rows) (Z.of_nat cols) (Z.of_nat (length b)) (Z.of_nat (length x)) = true ->
     solve_qmr mulA mulAT rows cols b x n tol = Panic Guard) /\
  (* rejects_sp_solve_bicg *)
    (forall (S : SArith) (s : sparse S) (itol : nat) (b x : list S) (n : nat) (tol : S),
     SparseBase.wfS s ->
     g_sp_solve_bicg (Z.of_nat (sp_rows s)) (Z.of_nat (sp_cols s)) (Z.of_nat (length b)) (Z.of_nat (length x)) (Z.of_nat itol) = true ->
     solve_bicg (sp_mul s) (sp_tmul s) (sp_rows s) (sp_cols s) itol b x n tol = Panic Guard) /\
  (* accepts_sp_solve_cg *)
    (forall (S : SArith) (Kd : pkind -> Prop),
     (forall (x y : S) (k : pkind), div x y = Panic k -> Kd k) ->
     forall (s : sparse S) (b x : list S) (max : nat) (tol : S),
     SparseBase.wfS s ->
     g_sp_solve_cg (Z.of_nat (sp_rows s)) (Z.of_nat (sp_cols s)) (Z.of_nat (length b)) (Z.of_nat (length x)) = false ->
     forall k : pkind, solve_cg (sp_mul s) (sp_rows s) (sp_cols s) b x max tol = Panic k -> Kd k) /\
  (* accepts_sp_solve_bicgstab *)
    (forall (S : SArith) (Kd : pkind -> Prop),
     (forall (x y : S) (k : pkind), div x y = Panic k -> Kd k) ->
     forall (s : sparse S) (b x : list S) (max : nat) (tol : S),
     SparseBase.wfS s ->
     g_sp_solve_bicgstab (Z.of_nat (sp_rows s)) (Z.of_nat (sp_cols s)) (Z.of_nat (length b)) (Z.of_nat (length x)) = false ->
     forall k : pkind, solve_bicgstab (sp_mul s) (sp_rows s) (sp_cols s) b x max tol = Panic k -> Kd k) /\
  (* accepts_sp_solve_qmr *)
    (forall (S : SArith) (Kd : pkind -> Prop),
     (forall (x y : S) (k : pkind), div x y = Panic k -> Kd k) ->
     forall (s : sparse S) (b x : list S) (max : nat) (tol : S),
     SparseBase.wfS s ->
     g_sp_solve_qmr (Z.of_nat (sp_rows s)) (Z.of_nat (sp_cols s)) (Z.of_nat (length b)) (Z.of_nat (length x)) = false ->
     forall k : pkind, solve_qmr (sp_mul s) (sp_tmul s) (sp_rows s) (sp_cols s) b x max tol = Panic k -> Kd k) /\
  (* accepts_sp_solve_bicg *)
    (forall (S : SArith) (Kd : pkind -> Prop),
     (forall (x y : S) (k : pkind), div x y = Panic k -> Kd k) ->
     forall (s : sparse S) (itol : nat) (b x : list S) (max : nat) (tol : S),
     SparseBase.wfS s ->
     g_sp_solve_bicg (Z.of_nat (sp_rows s)) (Z.of_nat (sp_cols s)) (Z.of_nat (length b)) (Z.of_nat (length x)) (Z.of_nat itol) = false ->
     forall k : pkind, solve_bicg (sp_mul s) (sp_tmul s) (sp_rows s) (sp_cols s) itol b x max tol = Panic k -> Kd k).
Print Assumptions entry_contract_solvers.
(* non-vacuity at binary64 (the arithmetic the solvers are written for): the division never panics (Kd = fun _ => False), a 2x2 diagonal
   system is accepted and every solver returns; a right-hand side of length 3 and itol = 3 are rejected *)
Example entry_contract_solvers_nonvacuous :
  (forall (x y : SAF) (k : pkind), div x y = Panic k -> False) /\
  match sp_from_triplets (A := AF) 2 2 [(0, 0, 2%float); (1, 1, 4%float)] with
  | Ok s =>
      let b : list SAF := [2%float; 4%float] in let x0 : list SAF := [0%float; 0%float] in let tol : SAF := 0x1p-30%float in
      is_ok (solve_cg (A := SAF) (sp_mul s) 2 2 b x0 10 tol) = true /\ is_ok (solve_bicg (A := SAF) (sp_mul s) (sp_tmul s) 2 2 1 b x0 10 tol) = true /\
      is_ok (solve_bicgstab (A := SAF) (sp_mul s) 2 2 b x0 10 tol) = true /\ is_ok (solve_qmr (A := SAF) (sp_mul s) (sp_tmul s) 2 2 b x0 10 tol) = true /\
      panics_with Guard (solve_cg (A := SAF) (sp_mul s) 2 2 (1%float :: b) x0 10 tol) = true /\ panics_with Guard (solve_qmr (A := SAF) (sp_mul s) (sp_tmul s) 2 2 b (1%float :: x0) 10 tol) = true /\
      panics_with Guard (solve_bicg (A := SAF) (sp_mul s) (sp_tmul s) 2 2 3 b x0 10 tol) = true
  | Panic _ => False
  end /\
  g_sp_solve_cg 2 2 3 2 = true /\ g_sp_solve_qmr 2 2 2 3 = true /\ g_sp_solve_bicg 2 2 2 2 3 = true /\ g_sp_solve_bicg 2 2 2 2 1 = false.
Proof. split; [intros x y k E; discriminate E|]. vm_compute. repeat split; reflexivity. Qed.

(* ---- Mesh1D / Mesh2D (5 entries): set_nodes_vars get_nodes_vars (1-D and 2-D) var_as_matrix; any arithmetic, any coordinate type.
   Mesh2D range rejections: the explicit guard, or -- only on a mesh with an empty direction -- the checked usize `nx - 1` / `ny - 1`. ---- *)
Theorem entry_contract_mesh :
  (* rejects_mesh1_set_nodes_vars *)
    (forall (A : Arith) (X : Type) (m : mesh1 A X) (node : nat) (v : list A),
     g_mesh1_set_nodes_vars (Z.of_nat (length (m1_nodes m))) (Z.of_nat (m1_nvars m)) (Z.of_nat node) (Z.of_nat (length v)) = true ->
     set_nodes_vars1 m node v = Panic Guard) /\
  (* accepts_mesh1_set_nodes_vars *)
    (forall (A : Arith) (X : Type) (m : mesh1 A X) (node : nat) (v : list A),
     MeshBase.wf1 m ->
     g_mesh1_set_nodes_vars (Z.of_nat (length (m1_nodes m))) (Z.of_nat (m1_nvars m)) (Z.of_nat node) (Z.of_nat (length v)) = false ->
     exists m' : mesh1 A X, set_nodes_vars1 m node v = Ok m') /\
  (* frame_mesh1_set_nodes_vars *)
    (forall (A : Arith) (X : Type) (m : mesh1 A X) (node : nat) (v : list A) (m' : mesh1 A X),
     MeshBase.wf1 m ->
     set_nodes_vars1 m node v = Ok m' ->
     MeshBase.wf1 m' /\
     m1_nodes m' = m1_nodes m /\
     m1_nvars m' = m1_nvars m /\
     get_nodes_vars1 m' node = Ok v /\
     (forall node' : nat, node' < length (m1_nodes m) -> node' <> node -> get_nodes_vars1 m' node' = get_nodes_vars1 m node')) /\
  (* rejects_mesh1_get_nodes_vars *)
    (forall (A : Arith) (X : Type) (m : mesh1 A X) (node : nat),
     g_mesh1_get_nodes_vars (Z.of_nat (length (m1_nodes m))) (Z.of_nat (m1_nvars m)) (Z.of_nat node) = true -> get_nodes_vars1 m node = Panic Guard) /\
  (* accepts_mesh1_get_nodes_vars *)
    (forall (A : Arith) (X : Type) (m : mesh1 A X) (node : nat),
     MeshBase.wf1 m ->
     g_mesh1_get_nodes_vars (Z.of_nat (length (m1_nodes m))) (Z.of_nat (m1_nvars m)) (Z.of_nat node) = false ->
     exists v : list A, get_nodes_vars1 m node = Ok v /\ length v = m1_nvars m) /\
  (* rejects_mesh2_set_nodes_vars *)
    (forall (A : Arith) (X : Type) (m : mesh2 A X) (i j : nat) (v : list A),
     g_mesh2_set_nodes_vars (Z.of_nat (m2_nx m)) (Z.of_nat (m2_ny m)) (Z.of_nat (m2_nvars m)) (Z.of_nat i) (Z.of_nat j) (Z.of_nat (length v)) =
     true -> exists k : pkind, set_nodes_vars2 m i j v = Panic k /\ GuardsModelMesh.guard_or_empty_underflow m k) /\
  (* accepts_mesh2_set_nodes_vars *)
    (forall (A : Arith) (X : Type) (m : mesh2 A X) (i j : nat) (v : list A),
     MeshBase.wf2 m ->
     g_mesh2_set_nodes_vars (Z.of_nat (m2_nx m)) (Z.of_nat (m2_ny m)) (Z.of_nat (m2_nvars m)) (Z.of_nat i) (Z.of_nat j) (Z.of_nat (length v)) =
     false -> exists m' : mesh2 A X, set_nodes_vars2 m i j v = Ok m') /\
  (* frame_mesh2_set_nodes_vars *)
    (forall (A : Arith) (X : Type) (m : mesh2 A X) (i j : nat) (v : list A) (m' : mesh2 A X),
     MeshBase.wf2 m ->
     set_nodes_vars2 m i j v = Ok m' ->
     MeshBase.wf2 m' /\
     MeshStore.shape2_eq m' m /\
     get_nodes_vars2 m' i j = Ok v /\
     (forall i' j' : nat, i' < m2_nx m -> j' < m2_ny m -> (i', j') <> (i, j) -> get_nodes_vars2 m' i' j' = get_nodes_vars2 m i' j')) /\
  (* rejects_mesh2_get_nodes_vars *)
    (forall (A : Arith) (X : Type) (m : mesh2 A X) (i j : nat),
     g_mesh2_get_nodes_vars (Z.of_nat (m2_nx m)) (Z.of_nat (m2_ny m)) (Z.of_nat i) (Z.of_nat j) = true ->
     exists k : pkind, get_nodes_vars2 m i j = Panic k /\ GuardsModelMesh.guard_or_empty_underflow m k) /\
  (* accepts_mesh2_get_nodes_vars *)
    (forall (A : Arith) (X : Type) (m : mesh2 A X) (i j : nat),
     MeshBase.wf2 m ->
     g_mesh2_get_nodes_vars (Z.of_nat (m2_nx m)) (Z.of_nat (m2_ny m)) (Z.of_nat i) (Z.of_nat j) = false ->
     exists v : list A, get_nodes_vars2 m i j = Ok v /\ length v = m2_nvars m) /\
  (* rejects_mesh2_var_as_matrix *)
    (forall (A : Arith) (X : Type) (m : mesh2 A X) (var : nat),
     g_mesh2_var_as_matrix (Z.of_nat (m2_nx m)) (Z.of_nat (m2_ny m)) (Z.of_nat (m2_nvars m)) (Z.of_nat var) = true ->
     var_as_matrix m var = Panic Guard) /\
  (* accepts_mesh2_var_as_matrix *)
    (forall (A : Arith) (X : Type) (m : mesh2 A X) (var : nat),
     MeshBase.wf2 m ->
     g_mesh2_var_as_matrix (Z.of_nat (m2_nx m)) (Z.of_nat (m2_ny m)) (Z.of_nat (m2_nvars m)) (Z.of_nat var) = false ->
     exists M : matrix A, var_as_matrix m var = Ok M /\ rows M = m2_nx m /\ cols M = m2_ny m /\ length (buf M) = m2_nx m * m2_ny m).
Proof. exact GuardsModelFamilies.entry_contract_mesh_lemma. Qed.
Check entry_contract_mesh :
  (* rejects_mesh1_set_nodes_vars *)
    (forall (A : Arith) (X : Type) (m : mesh1 A X) (node : nat) (v : list A),
     g_mesh1_set_nodes_vars (Z.of_nat (length (m1_nodes m))) (Z.of_nat (m1_nvars m)) (Z.of_nat node) (Z.of_nat (length v)) = true ->
     set_nodes_vars1 m node v = Panic Guard) /\
  (* accepts_mesh1_set_nodes_vars *)
    (forall (A : Arith) (X : Type) (m : mesh1 A X) (node : nat) (v : list A),
     MeshBase.wf1 m ->
     g_mesh1_set_nodes_vars (Z.of_nat (length (m1_nodes m))) (Z.of_nat (m1_nvars m)) (Z.of_nat node) (Z.of_nat (length v)) = false ->
     exists m' : mesh1 A X, set_nodes_vars1 m node v = Ok m') /\
  (* frame_mesh1_set_nodes_vars *)
    (forall (A : Arith) (X : Type) (m : mesh1 A X) (node : nat) (v : list A) (m' : mesh1 A X),
     MeshBase.wf1 m ->
     set_nodes_vars1 m node v = Ok m' ->
     MeshBase.wf1 m' /\
     m1_nodes m' = m1_nodes m /\
     m1_nvars m' = m1_nvars m /\
     get_nodes_vars1 m' node = Ok v /\
     (forall node' : nat, node' < length (m1_nodes m) -> node' <> node -> get_nodes_vars1 m' node' = get_nodes_vars1 m node')) /\
  (* rejects_mesh1_get_nodes_vars *)
    (forall (A : Arith) (X : Type) (m : mesh1 A X) (node : nat),
     g_mesh1_get_nodes_vars (Z.of_nat (length (m1_nodes m))) (Z.of_nat (m1_nvars m)) (Z.of_nat node) = true -> get_nodes_vars1 m node = Panic Guard) /\
  (* accepts_mesh1_get_nodes_vars *)
    (forall (A : Arith) (X : Type) (m : mesh1 A X) (node : nat),
     MeshBase.wf1 m ->
     g_mesh1_get_nodes_vars (Z.of_nat (length (m1_nodes m))) (Z.of_nat (m1_nvars m)) (Z.of_nat node) = false ->
     exists v : list A, get_nodes_vars1 m node = Ok v /\ length v = m1_nvars m) /\
  (* rejects_mesh2_set_nodes_vars *)
    (forall (A : Arith) (X : Type) (m : mesh2 A X) (i j : nat) (v : list A),
     g_mesh2_set_nodes_vars (Z.of_nat (m2_nx m)) (Z.of_nat (m2_ny m)) (Z.of_nat (m2_nvars m)) (Z.of_nat i) (Z.of_nat j) (Z.of_nat (length v)) =
     true -> exists k : pkind, set_nodes_vars2 m i j v = Panic k /\ GuardsModelMesh.guard_or_empty_underflow m k) /\
  (* accepts_mesh2_set_nodes_vars *)
    (forall (A : Arith) (X : Type) (m : mesh2 A X) (i j : nat) (v : list A),
     MeshBase.wf2 m ->
     g_mesh2_set_nodes_vars (Z.of_nat (m2_nx m)) (Z.of_nat (m2_ny m)) (Z.of_nat (m2_nvars m)) (Z.of_nat i) (Z.of_nat j) (Z.of_nat (length v)) =
     false -> exists m' : mesh2 A X, set_nodes_vars2 m i j v = Ok m') /\
  (* frame_mesh2_set_nodes_vars *)
    (forall (A : Arith) (X : Type) (m : mesh2 A X) (i j : nat) (v : list A) (m' : mesh2 A X),
     MeshBase.wf2 m ->
     set_nodes_vars2 m i j v = Ok m' ->
     MeshBase.wf2 m' /\
     MeshStore.shape2_eq m' m /\
     get_nodes_vars2 m' i j = Ok v /\
     (forall i' j' : nat, i' < m2_nx m -> j' < m2_ny m -> (i', j') <> (i, j) -> get_nodes_vars2 m' i' j' = get_nodes_vars2 m i' j')) /\
  (* rejects_mesh2_get_nodes_vars *)
    (forall (A : Arith) (X : Type) (m : mesh2 A X) (i j : nat),
     g_mesh2_get_nodes_vars (Z.of_nat (m2_nx m)) (Z.of_nat (m2_ny m)) (Z.of_nat i) (Z.of_nat j) = true ->
     exists k : pkind, get_nodes_vars2 m i j = Panic k /\ GuardsModelMesh.guard_or_empty_underflow m k) /\
  (* accepts_mesh2_get_nodes_vars *)
    (forall (A : Arith) (X : Type) (m : mesh2 A X) (i j : nat),
     MeshBase.wf2 m ->
     g_mesh2_get_nodes_vars (Z.of_nat (m2_nx m)) (Z.of_nat (m2_ny m)) (Z.of_nat i) (Z.of_nat j) = false ->
     exists v : list A, get_nodes_vars2 m i j = Ok v /\ length v = m2_nvars m) /\
  (* rejects_mesh2_var_as_matrix *)
    (forall (A : Arith) (X : Type) (m : mesh2 A X) (var : nat),
     g_mesh2_var_as_matrix (Z.of_nat (m2_nx m)) (Z.of_nat (m2_ny m)) (Z.of_nat (m2_nvars m)) (Z.of_nat var) = true ->
     var_as_matrix m var = Panic Guard) /\
  (* accepts_mesh2_var_as_matrix *)
    (forall (A : Arith) (X : Type) (m : mesh2 A X) (var : nat),
     MeshBase.wf2 m ->
     g_mesh2_var_as_matrix (Z.of_nat (m2_nx m)) (Z.of_nat (m2_ny m)) (Z.of_nat (m2_nvars m)) (Z.of_nat var) = false ->
     exists M : matrix A, var_as_matrix m var = Ok M /\ rows M = m2_nx m /\ cols M = m2_ny m /\ length (buf M) = m2_nx m * m2_ny m).
Print Assumptions entry_contract_mesh.
(* non-vacuity: a 3x2 mesh with two variables per node; node (3,0) and a vector of the wrong length are rejected by the guard; on a mesh with
   no x-nodes the rejection of get_nodes_vars(0,0) is the checked `nx - 1` *)
Example entry_contract_mesh_nonvacuous :
  let m : mesh2 AQ nat := @mesh2_new AQ nat [0; 1; 2] [0; 1] 2 in
  let e : mesh2 AQ nat := @mesh2_new AQ nat [] [0; 1] 1 in
  let l : mesh1 AQ nat := @mesh1_new AQ nat [0; 1; 2] 2 in
  MeshBase.wf2 m /\ MeshBase.wf1 l /\
  g_mesh2_set_nodes_vars 3 2 2 3 0 2 = true /\ panics_with Guard (set_nodes_vars2 m 3 0 [q 1 1; q 2 1]) = true /\
  g_mesh2_set_nodes_vars 3 2 2 2 1 3 = true /\ panics_with Guard (set_nodes_vars2 m 2 1 [q 1 1; q 2 1; q 3 1]) = true /\
  g_mesh2_set_nodes_vars 3 2 2 2 1 2 = false /\ is_ok (set_nodes_vars2 m 2 1 [q 1 1; q 2 1]) = true /\
  g_mesh2_get_nodes_vars 0 2 0 0 = true /\ panics_with Underflow (get_nodes_vars2 e 0 0) = true /\
  g_mesh2_var_as_matrix 3 2 2 2 = true /\ panics_with Guard (var_as_matrix m 2) = true /\ is_ok (var_as_matrix m 1) = true /\
  g_mesh1_set_nodes_vars 3 2 3 2 = true /\ panics_with Guard (set_nodes_vars1 l 3 [q 1 1; q 2 1]) = true /\ is_ok (set_nodes_vars1 l 2 [q 1 1; q 2 1]) = true /\
  g_mesh1_get_nodes_vars 3 2 3 = true /\ panics_with Guard (get_nodes_vars1 l 3) = true.
Proof. split; [apply MeshStore.mesh2_new_wf|]. split; [apply MeshStore.mesh1_new_wf|]. vm_compute. repeat split; reflexivity. Qed.

(* ---- nothing else is written: every MUTATING checked entry point, on EVERY well-formed receiver / operand and for ALL arguments, either raises
   the guard panic on entry (the model returns no state: the receiver is untouched) or returns the new state -- there is no third outcome, in
   particular no index / underflow panic part-way through a writing loop (which would leave a half-written receiver in the implementation). ---- *)
Theorem mutators_guard_or_return :
  (* atomic_vec_add_assign *)
    (forall (A : Arith) (u v : list A), vadd_assign u v = Panic Guard \/ (exists s' : list A, vadd_assign u v = Ok s')) /\
  (* atomic_vec_sub_assign *)
    (forall (A : Arith) (u v : list A), vsub_assign u v = Panic Guard \/ (exists s' : list A, vsub_assign u v = Ok s')) /\
  (* atomic_mat_set_row *)
    (forall (A : Arith) (m : matrix A) (row : nat) (v : list A),
     Matrix.wf m -> set_row m row v = Panic Guard \/ (exists s' : matrix A, set_row m row v = Ok s')) /\
  (* atomic_mat_set_col *)
    (forall (A : Arith) (m : matrix A) (col : nat) (v : list A),
     Matrix.wf m -> set_col m col v = Panic Guard \/ (exists s' : matrix A, set_col m col v = Ok s')) /\
  (* atomic_mat_fill_row *)
    (forall (A : Arith) (m : matrix A) (row : nat) (x : A),
     Matrix.wf m -> fill_row m row x = Panic Guard \/ (exists s' : matrix A, fill_row m row x = Ok s')) /\
  (* atomic_mat_fill_col *)
    (forall (A : Arith) (m : matrix A) (col : nat) (x : A),
     Matrix.wf m -> fill_col m col x = Panic Guard \/ (exists s' : matrix A, fill_col m col x = Ok s')) /\
  (* atomic_mat_swap_rows *)
    (forall (A : Arith) (m : matrix A) (r1 r2 : nat),
     Matrix.wf m -> swap_rows m r1 r2 = Panic Guard \/ (exists s' : matrix A, swap_rows m r1 r2 = Ok s')) /\
  (* atomic_mat_delete_row *)
    (forall (A : Arith) (m : matrix A) (row : nat),
     Matrix.wf m -> delete_row m row = Panic Guard \/ (exists s' : matrix A, delete_row m row = Ok s')) /\
  (* atomic_mat_add_assign *)
    (forall (A : Arith) (a b : matrix A),
     Matrix.wf a -> Matrix.wf b -> madd_assign a b = Panic Guard \/ (exists s' : matrix A, madd_assign a b = Ok s')) /\
  (* atomic_mat_sub_assign *)
    (forall (A : Arith) (a b : matrix A),
     Matrix.wf a -> Matrix.wf b -> msub_assign a b = Panic Guard \/ (exists s' : matrix A, msub_assign a b = Ok s')) /\
  (* atomic_band_fill_band *)
    (forall (A : Arith) (B : banded A) (band : Z) (x : A),
     Banded.wfB B -> band_fill_band B band x = Panic Guard \/ (exists s' : banded A, band_fill_band B band x = Ok s')) /\
  (* atomic_band_index_mut *)
    (forall (A : Arith) (B : banded A) (i j : nat) (x : A),
     Banded.wfB B -> i < bn B -> band_set B i j x = Panic Guard \/ (exists s' : banded A, band_set B i j x = Ok s')) /\
  (* atomic_band_add_assign *)
    (forall (A : Arith) (B C : banded A),
     Banded.wfB B -> Banded.wfB C -> band_add_assign B C = Panic Guard \/ (exists s' : banded A, band_add_assign B C = Ok s')) /\
  (* atomic_band_sub_assign *)
    (forall (A : Arith) (B C : banded A),
     Banded.wfB B -> Banded.wfB C -> band_sub_assign B C = Panic Guard \/ (exists s' : banded A, band_sub_assign B C = Ok s')) /\
  (* atomic_tri_index_mut *)
    (forall (A : Arith) (t : tridiag A) (i j : nat) (x : A),
     Tridiag.wfT t -> tset t i j x = Panic Guard \/ (exists s' : tridiag A, tset t i j x = Ok s')) /\
  (* atomic_sp_insert *)
    (forall (A : Arith) (s : sparse A) (row col : nat) (v : A),
     SparseBase.wfS s -> sp_insert s row col v = Panic Guard \/ (exists s' : sparse A, sp_insert s row col v = Ok s')) /\
  (* atomic_poly_index_mut *)
    (forall (A : Arith) (p : list A) (i : nat) (x : A), pindex_set p i x = Panic Guard \/ (exists s' : poly, pindex_set p i x = Ok s')) /\
  (* atomic_mesh1_set_nodes_vars *)
    (forall (A : Arith) (X : Type) (m : mesh1 A X) (node : nat) (v : list A),
     MeshBase.wf1 m -> set_nodes_vars1 m node v = Panic Guard \/ (exists s' : mesh1 A X, set_nodes_vars1 m node v = Ok s')) /\
  (* atomic_mesh2_set_nodes_vars *)
    (forall (A : Arith) (X : Type) (m : mesh2 A X) (i j : nat) (v : list A),
     MeshBase.wf2 m ->
     (exists k : pkind, set_nodes_vars2 m i j v = Panic k /\ GuardsModelMesh.guard_or_empty_underflow m k) \/
     (exists m' : mesh2 A X, set_nodes_vars2 m i j v = Ok m')).
Proof. exact GuardsModelFamilies.mutators_guard_or_return_lemma. Qed.
Check mutators_guard_or_return :
  (* atomic_vec_add_assign *)
    (forall (A : Arith) (u v : list A), vadd_assign u v = Panic Guard \/ (exists s' : list A, vadd_assign u v = Ok s')) /\
  (* atomic_vec_sub_assign *)
    (forall (A : Arith) (u v : list A), vsub_assign u v = Panic Guard \/ (exists s' : list A, vsub_assign u v = Ok s')) /\
  (* atomic_mat_set_row *)
    (forall (A : Arith) (m : matrix A) (row : nat) (v : list A),
     Matrix.wf m -> set_row m row v = Panic Guard \/ (exists s' : matrix A, set_row m row v = Ok s')) /\
  (* atomic_mat_set_col *)
    (forall (A : Arith) (m : matrix A) (col : nat) (v : list A),
     Matrix.wf m -> set_col m col v = Panic Guard \/ (exists s' : matrix A, set_col m col v = Ok s')) /\
  (* atomic_mat_fill_row *)
    (forall (A : Arith) (m : matrix A) (row : nat) (x : A),
     Matrix.wf m -> fill_row m row x = Panic Guard \/ (exists s' : matrix A, fill_row m row x = Ok s')) /\
  (* atomic_mat_fill_col *)
    (forall (A : Arith) (m : matrix A) (col : nat) (x : A),
     Matrix.wf m -> fill_col m col x = Panic Guard \/ (exists s' : matrix A, fill_col m col x = Ok s')) /\
  (* atomic_mat_swap_rows *)
    (forall (A : Arith) (m : matrix A) (r1 r2 : nat),
     Matrix.wf m -> swap_rows m r1 r2 = Panic Guard \/ (exists s' : matrix A, swap_rows m r1 r2 = Ok s')) /\
  (* atomic_mat_delete_row *)
    (forall (A : Arith) (m : matrix A) (row : nat),
     Matrix.wf m -> delete_row m row = Panic Guard \/ (exists s' : matrix A, delete_row m row = Ok s')) /\
  (* atomic_mat_add_assign *)
    (forall (A : Arith) (a b : matrix A),
     Matrix.wf a -> Matrix.wf b -> madd_assign a b = Panic Guard \/ (exists s' : matrix A, madd_assign a b = Ok s')) /\
  (* atomic_mat_sub_assign *)
    (forall (A : Arith) (a b : matrix A),
     Matrix.wf a -> Matrix.wf b -> msub_assign a b = Panic Guard \/ (exists s' : matrix A, msub_assign a b = Ok s')) /\
  (* atomic_band_fill_band *)
    (forall (A : Arith) (B : banded A) (band : Z) (x : A),
     Banded.wfB B -> band_fill_band B band x = Panic Guard \/ (exists s' : banded A, band_fill_band B band x = Ok s')) /\
  (* atomic_band_index_mut *)
    (forall (A : Arith) (B : banded A) (i j : nat) (x : A),
     Banded.wfB B -> i < bn B -> band_set B i j x = Panic Guard \/ (exists s' : banded A, band_set B i j x = Ok s')) /\
  (* atomic_band_add_assign *)
    (forall (A : Arith) (B C : banded A),
     Banded.wfB B -> Banded.wfB C -> band_add_assign B C = Panic Guard \/ (exists s' : banded A, band_add_assign B C = Ok s')) /\
  (* atomic_band_sub_assign *)
    (forall (A : Arith) (B C : banded A),
     Banded.wfB B -> Banded.wfB C -> band_sub_assign B C = Panic Guard \/ (exists s' : banded A, band_sub_assign B C = Ok s')) /\
  (* atomic_tri_index_mut *)
    (forall (A : Arith) (t : tridiag A) (i j : nat) (x : A),
     Tridiag.wfT t -> tset t i j x = Panic Guard \/ (exists s' : tridiag A, tset t i j x = Ok s')) /\
  (* atomic_sp_insert *)
    (forall (A : Arith) (s : sparse A) (row col : nat) (v : A),
     SparseBase.wfS s -> sp_insert s row col v = Panic Guard \/ (exists s' : sparse A, sp_insert s row col v = Ok s')) /\
  (* atomic_poly_index_mut *)
    (forall (A : Arith) (p : list A) (i : nat) (x : A), pindex_set p i x = Panic Guard \/ (exists s' : poly, pindex_set p i x = Ok s')) /\
  (* atomic_mesh1_set_nodes_vars *)
    (forall (A : Arith) (X : Type) (m : mesh1 A X) (node : nat) (v : list A),
     MeshBase.wf1 m -> set_nodes_vars1 m node v = Panic Guard \/ (exists s' : mesh1 A X, set_nodes_vars1 m node v = Ok s')) /\
  (* atomic_mesh2_set_nodes_vars *)
    (forall (A : Arith) (X : Type) (m : mesh2 A X) (i j : nat) (v : list A),
     MeshBase.wf2 m ->
     (exists k : pkind, set_nodes_vars2 m i j v = Panic k /\ GuardsModelMesh.guard_or_empty_underflow m k) \/
     (exists m' : mesh2 A X, set_nodes_vars2 m i j v = Ok m')).
Print Assumptions mutators_guard_or_return.
(* non-vacuity: both outcomes occur for the same receiver *)
Example mutators_guard_or_return_nonvacuous :
  let M : matrix AQ := @mkM AQ [q 1 1; q 2 1; q 3 1; q 4 1; q 5 1; q 6 1] 2 3 in
  Matrix.wf M /\ panics_with Guard (set_row M 2 [q 1 1; q 2 1; q 3 1]) = true /\ is_ok (set_row M 1 [q 1 1; q 2 1; q 3 1]) = true /\
  panics_with Guard (fill_col M 3 (q 0 1)) = true /\ is_ok (fill_col M 2 (q 0 1)) = true.
Proof. vm_compute. repeat split; reflexivity. Qed.

(* ---- the 13 entry points protected by std's own bounds checks only (no guard in the source, hence no g_<entry>; ranges = the `spec` column of
   driver/guardtable.py): Vector Index IndexMut swap insert pop, Banded Index beyond the last row, Mesh1D Index IndexMut coord, Mesh2D coord
   cross_section_xnode cross_section_ynode apply.  Outside the range: a native panic (Index; Unwrap for pop; the Mesh2D range rejection for the
   cross sections), no value; inside: a value; writers change only what they address. ---- *)
Theorem entry_contract_native :
  (* native_vec_index *)
    (forall (A : Arith) (v : list A) (i : nat), (length v <= i -> vget v i = Panic Index) /\ (i < length v -> vget v i = Ok (nth i v zero))) /\
  (* native_vec_index_mut *)
    (forall (A : Arith) (v : list A) (i : nat) (x : A),
     (length v <= i -> vset v i x = Panic Index) /\
     (i < length v ->
      exists v' : list A,
        vset v i x = Ok v' /\ length v' = length v /\ nth i v' zero = x /\ (forall j : nat, j <> i -> nth j v' zero = nth j v zero))) /\
  (* native_vec_swap *)
    (forall (A : Arith) (v : list A) (i j : nat),
     (length v <= i \/ length v <= j -> vswap v i j = Panic Index) /\
     (i < length v ->
      j < length v ->
      exists v' : list A, vswap v i j = Ok v' /\ length v' = length v /\ (forall k : nat, k <> i -> k <> j -> nth k v' zero = nth k v zero))) /\
  (* native_vec_insert *)
    (forall (A : Arith) (v : list A) (pos : nat) (x : A),
     (length v < pos -> vinsert v pos x = Panic Index) /\
     (pos <= length v -> exists v' : list A, vinsert v pos x = Ok v' /\ length v' = S (length v))) /\
  (* native_vec_pop *)
    (forall (A : Arith) (v : list A),
     (length v = 0 -> vpop v = Panic Unwrap) /\ (1 <= length v -> exists (v' : list A) (x : A), vpop v = Ok (v', x) /\ v = v' ++ [x])) /\
  (* native_band_index_rows *)
    (forall (A : Arith) (B : banded A) (i : nat),
     Banded.wfB B -> (bn B <= i -> band_get B i i = Panic Index) /\ (i < bn B -> exists x : A, band_get B i i = Ok x)) /\
  (* native_mesh1_index *)
    (forall (A : Arith) (X : Type) (m : mesh1 A X) (node : nat),
     MeshBase.wf1 m ->
     (length (m1_nodes m) <= node -> index1 m node = Panic Index) /\
     (node < length (m1_nodes m) -> exists v : list A, index1 m node = Ok v /\ length v = m1_nvars m)) /\
  (* native_mesh1_index_mut *)
    (forall (A : Arith) (X : Type) (m : mesh1 A X) (node : nat) (v : list A),
     MeshBase.wf1 m ->
     (length (m1_nodes m) <= node -> index1_set m node v = Panic Index) /\
     (node < length (m1_nodes m) ->
      exists m' : mesh1 A X,
        index1_set m node v = Ok m' /\
        m1_nodes m' = m1_nodes m /\
        m1_nvars m' = m1_nvars m /\ index1 m' node = Ok v /\ (forall node' : nat, node' <> node -> index1 m' node' = index1 m node'))) /\
  (* native_mesh1_coord *)
    (forall (A : Arith) (X : Type) (m : mesh1 A X) (node : nat),
     (length (m1_nodes m) <= node -> coord1 m node = Panic Index) /\ (node < length (m1_nodes m) -> exists x : X, coord1 m node = Ok x)) /\
  (* native_mesh2_coord *)
    (forall (A : Arith) (X : Type) (m : mesh2 A X) (i j : nat),
     MeshBase.wf2 m ->
     (m2_nx m <= i \/ m2_ny m <= j -> coord2 m i j = Panic Index) /\ (i < m2_nx m -> j < m2_ny m -> exists p : X * X, coord2 m i j = Ok p)) /\
  (* native_mesh2_cross_section_xnode *)
    (forall (A : Arith) (X : Type) (m : mesh2 A X) (i : nat),
     MeshBase.wf2 m ->
     1 <= m2_ny m ->
     (m2_nx m <= i -> exists k : pkind, cross_section_xnode m i = Panic k /\ GuardsModelMesh.guard_or_empty_underflow m k) /\
     (i < m2_nx m -> exists s : mesh1 A X, cross_section_xnode m i = Ok s /\ MeshBase.wf1 s /\ m1_nodes s = m2_y m)) /\
  (* native_mesh2_cross_section_ynode *)
    (forall (A : Arith) (X : Type) (m : mesh2 A X) (j : nat),
     MeshBase.wf2 m ->
     1 <= m2_nx m ->
     (m2_ny m <= j -> exists k : pkind, cross_section_ynode m j = Panic k /\ GuardsModelMesh.guard_or_empty_underflow m k) /\
     (j < m2_ny m -> exists s : mesh1 A X, cross_section_ynode m j = Ok s /\ MeshBase.wf1 s /\ m1_nodes s = m2_x m)) /\
  (* native_mesh2_apply *)
    (forall (A : Arith) (X : Type) (func : X -> X -> res A) (m : mesh2 A X) (var : nat),
     MeshBase.wf2 m ->
     1 <= m2_nx m ->
     1 <= m2_ny m ->
     (m2_nvars m <= var -> (forall x y : X, exists v : A, func x y = Ok v) -> apply2 func m var = Panic Index) /\
     (var < m2_nvars m ->
      (forall x y : X, exists v : A, func x y = Ok v) ->
      exists m' : mesh2 A X, apply2 func m var = Ok m' /\ MeshBase.wf2 m' /\ MeshStore.shape2_eq m' m)).
Proof. exact GuardsModelFamilies.entry_contract_native_lemma. Qed.
Check entry_contract_native :
  (* native_vec_index *)
    (forall (A : Arith) (v : list A) (i : nat), (length v <= i -> vget v i = Panic Index) /\ (i < length v -> vget v i = Ok (nth i v zero))) /\
  (* native_vec_index_mut *)
    (forall (A : Arith) (v : list A) (i : nat) (x : A),
     (length v <= i -> vset v i x = Panic Index) /\
     (i < length v ->
      exists v' : list A,
        vset v i x = Ok v' /\ length v' = length v /\ nth i v' zero = x /\ (forall j : nat, j <> i -> nth j v' zero = nth j v zero))) /\
  (* native_vec_swap *)
    (forall (A : Arith) (v : list A) (i j : nat),
     (length v <= i \/ length v <= j -> vswap v i j = Panic Index) /\
     (i < length v ->
      j < length v ->
      exists v' : list A, vswap v i j = Ok v' /\ length v' = length v /\ (forall k : nat, k <> i -> k <> j -> nth k v' zero = nth k v zero))) /\
  (* native_vec_insert *)
    (forall (A : Arith) (v : list A) (pos : nat) (x : A),
     (length v < pos -> vinsert v pos x = Panic Index) /\
     (pos <= length v -> exists v' : list A, vinsert v pos x = Ok v' /\ length v' = S (length v))) /\
  (* native_vec_pop *)
    (forall (A : Arith) (v : list A),
     (length v = 0 -> vpop v = Panic Unwrap) /\ (1 <= length v -> exists (v' : list A) (x : A), vpop v = Ok (v', x) /\ v = v' ++ [x])) /\
  (* native_band_index_rows *)
    (forall (A : Arith) (B : banded A) (i : nat),
     Banded.wfB B -> (bn B <= i -> band_get B i i = Panic Index) /\ (i < bn B -> exists x : A, band_get B i i = Ok x)) /\
  (* native_mesh1_index *)
    (forall (A : Arith) (X : Type) (m : mesh1 A X) (node : nat),
     MeshBase.wf1 m ->
     (length (m1_nodes m) <= node -> index1 m node = Panic Index) /\
     (node < length (m1_nodes m) -> exists v : list A, index1 m node = Ok v /\ length v = m1_nvars m)) /\
  (* native_mesh1_index_mut *)
    (forall (A : Arith) (X : Type) (m : mesh1 A X) (node : nat) (v : list A),
     MeshBase.wf1 m ->
     (length (m1_nodes m) <= node -> index1_set m node v = Panic Index) /\
     (node < length (m1_nodes m) ->
      exists m' : mesh1 A X,
        index1_set m node v = Ok m' /\
        m1_nodes m' = m1_nodes m /\
        m1_nvars m' = m1_nvars m /\ index1 m' node = Ok v /\ (forall node' : nat, node' <> node -> index1 m' node' = index1 m node'))) /\
  (* native_mesh1_coord *)
    (forall (A : Arith) (X : Type) (m : mesh1 A X) (node : nat),
     (length (m1_nodes m) <= node -> coord1 m node = Panic Index) /\ (node < length (m1_nodes m) -> exists x : X, coord1 m node = Ok x)) /\
  (* native_mesh2_coord *)
    (forall (A : Arith) (X : Type) (m : mesh2 A X) (i j : nat),
     MeshBase.wf2 m ->
     (m2_nx m <= i \/ m2_ny m <= j -> coord2 m i j = Panic Index) /\ (i < m2_nx m -> j < m2_ny m -> exists p : X * X, coord2 m i j = Ok p)) /\
  (* native_mesh2_cross_section_xnode *)
    (forall (A : Arith) (X : Type) (m : mesh2 A X) (i : nat),
     MeshBase.wf2 m ->
     1 <= m2_ny m ->
     (m2_nx m <= i -> exists k : pkind, cross_section_xnode m i = Panic k /\ GuardsModelMesh.guard_or_empty_underflow m k) /\
     (i < m2_nx m -> exists s : mesh1 A X, cross_section_xnode m i = Ok s /\ MeshBase.wf1 s /\ m1_nodes s = m2_y m)) /\
  (* native_mesh2_cross_section_ynode *)
    (forall (A : Arith) (X : Type) (m : mesh2 A X) (j : nat),
     MeshBase.wf2 m ->
     1 <= m2_nx m ->
     (m2_ny m <= j -> exists k : pkind, cross_section_ynode m j = Panic k /\ GuardsModelMesh.guard_or_empty_underflow m k) /\
     (j < m2_ny m -> exists s : mesh1 A X, cross_section_ynode m j = Ok s /\ MeshBase.wf1 s /\ m1_nodes s = m2_x m)) /\
  (* native_mesh2_apply *)
    (forall (A : Arith) (X : Type) (func : X -> X -> res A) (m : mesh2 A X) (var : nat),
     MeshBase.wf2 m ->
     1 <= m2_nx m ->
     1 <= m2_ny m ->
     (m2_nvars m <= var -> (forall x y : X, exists v : A, func x y = Ok v) -> apply2 func m var = Panic Index) /\
     (var < m2_nvars m ->
      (forall x y : X, exists v : A, func x y = Ok v) ->
      exists m' : mesh2 A X, apply2 func m var = Ok m' /\ MeshBase.wf2 m' /\ MeshStore.shape2_eq m' m)).
Print Assumptions entry_contract_native.
Example entry_contract_native_nonvacuous :
  let v : list AQ := [q 1 1; q 2 1; q 3 1] in
  let m : mesh2 AQ nat := @mesh2_new AQ nat [0; 1; 2] [0; 1] 2 in
  panics_with Index (vget v 3) = true /\ is_ok (vget v 2) = true /\ panics_with Index (vswap v 0 3) = true /\ is_ok (vswap v 0 2) = true /\
  panics_with Index (vinsert v 4 (q 9 1)) = true /\ is_ok (vinsert v 3 (q 9 1)) = true /\ panics_with Unwrap (vpop (A := AQ) []) = true /\ is_ok (vpop v) = true /\
  panics_with Index (band_get (@band_new AQ 3 1 1 (q 1 1)) 3 3) = true /\
  MeshBase.wf2 m /\ panics_with Guard (cross_section_xnode m 3) = true /\ is_ok (cross_section_xnode m 2) = true /\
  panics_with Index (coord2 m 3 0) = true /\ panics_with Index (apply2 (A := AQ) (fun _ _ => Ok (q 1 1 : AQ)) m 2) = true /\ is_ok (apply2 (A := AQ) (fun _ _ => Ok (q 1 1 : AQ)) m 1) = true.
Proof.
  assert (W : MeshBase.wf2 (@mesh2_new AQ nat [0; 1; 2] [0; 1] 2)) by apply MeshStore.mesh2_new_wf.
  vm_compute. repeat split; try reflexivity; apply W.
Qed.

(* ---- Polynomial (3 entries): Index IndexMut and the degree guard of roots (every root arithmetic). ---- *)
Theorem entry_contract_polynomial :
  (* rejects_poly_index *)
    (forall (A : Arith) (p : list A) (i : nat), g_poly_index (Z.of_nat (length p)) (Z.of_nat i) = true -> pindex p i = Panic Guard) /\
  (* accepts_poly_index *)
    (forall (A : Arith) (p : list A) (i : nat), g_poly_index (Z.of_nat (length p)) (Z.of_nat i) = false -> pindex p i = Ok (nth i p zero)) /\
  (* rejects_poly_index_mut *)
    (forall (A : Arith) (p : list A) (i : nat) (x : A),
     g_poly_index_mut (Z.of_nat (length p)) (Z.of_nat i) = true -> pindex_set p i x = Panic Guard) /\
  (* accepts_poly_index_mut *)
    (forall (A : Arith) (p : list A) (i : nat) (x : A),
     g_poly_index_mut (Z.of_nat (length p)) (Z.of_nat i) = false -> exists p' : list A, pindex_set p i x = Ok p') /\
  (* frame_poly_index_mut *)
    (forall (A : Arith) (p : list A) (i : nat) (x : A) (p' : list A),
     pindex_set p i x = Ok p' -> length p' = length p /\ nth i p' zero = x /\ (forall j : nat, j <> i -> nth j p' zero = nth j p zero)) /\
  (* rejects_poly_roots_degree *)
    (forall (RA : RootArith) (coeffs : list (KK RA)) (refine : bool),
     1 <= length coeffs -> g_poly_roots_degree (Z.of_nat (length coeffs)) = true -> poly_solve RA coeffs refine = Panic Guard).
Proof. exact GuardsModelFamilies.entry_contract_polynomial_lemma. Qed.
Check entry_contract_polynomial :
  (* rejects_poly_index *)
    (forall (A : Arith) (p : list A) (i : nat), g_poly_index (Z.of_nat (length p)) (Z.of_nat i) = true -> pindex p i = Panic Guard) /\
  (* accepts_poly_index *)
    (forall (A : Arith) (p : list A) (i : nat), g_poly_index (Z.of_nat (length p)) (Z.of_nat i) = false -> pindex p i = Ok (nth i p zero)) /\
  (* rejects_poly_index_mut *)
    (forall (A : Arith) (p : list A) (i : nat) (x : A),
     g_poly_index_mut (Z.of_nat (length p)) (Z.of_nat i) = true -> pindex_set p i x = Panic Guard) /\
  (* accepts_poly_index_mut *)
    (forall (A : Arith) (p : list A) (i : nat) (x : A),
     g_poly_index_mut (Z.of_nat (length p)) (Z.of_nat i) = false -> exists p' : list A, pindex_set p i x = Ok p') /\
  (* frame_poly_index_mut *)
    (forall (A : Arith) (p : list A) (i : nat) (x : A) (p' : list A),
     pindex_set p i x = Ok p' -> length p' = length p /\ nth i p' zero = x /\ (forall j : nat, j <> i -> nth j p' zero = nth j p zero)) /\
  (* rejects_poly_roots_degree *)
    (forall (RA : RootArith) (coeffs : list (KK RA)) (refine : bool),
     1 <= length coeffs -> g_poly_roots_degree (Z.of_nat (length coeffs)) = true -> poly_solve RA coeffs refine = Panic Guard).
Print Assumptions entry_contract_polynomial.
Example entry_contract_polynomial_nonvacuous :
  let p : list AQ := [q 1 1; q 2 1; q 3 1] in
  g_poly_index 3 3 = true /\ panics_with Guard (pindex p 3) = true /\ g_poly_index 3 2 = false /\ is_ok (pindex p 2) = true /\
  g_poly_index_mut 3 3 = true /\ panics_with Guard (pindex_set p 3 (q 9 1)) = true /\ is_ok (pindex_set p 0 (q 9 1)) = true /\
  g_poly_roots_degree 1 = true /\ g_poly_roots_degree 2 = false /\
  panics_with Guard (poly_solve (FloatRA []) [@mkC AF 1%float 0%float] true) = true.
Proof. vm_compute. repeat split; reflexivity. Qed.

(* ---- Polynomial::roots accepted (>= 2 coefficients) on the float instance with ANY table of libm results: no index / underflow panic anywhere in
   poly_solve, laguer, the deflation, the polishing pass (reuses C10's float_roots_memory_safe; primitive-float axioms). ---- *)
Theorem entry_contract_roots_float :
  (* accepts_poly_roots_degree_float *)
    (forall (tbl : list float) (coeffs : list (KK (FloatRA tbl))) (refine : bool),
     g_poly_roots_degree (Z.of_nat (length coeffs)) = false ->
     1 <= length coeffs -> poly_solve (FloatRA tbl) coeffs refine <> Panic Index /\ poly_solve (FloatRA tbl) coeffs refine <> Panic Underflow).
Proof. exact GuardsModelFamilies.entry_contract_roots_float_lemma. Qed.
Check entry_contract_roots_float :
  (* accepts_poly_roots_degree_float *)
    (forall (tbl : list float) (coeffs : list (KK (FloatRA tbl))) (refine : bool),
     g_poly_roots_degree (Z.of_nat (length coeffs)) = false ->
     1 <= length coeffs -> poly_solve (FloatRA tbl) coeffs refine <> Panic Index /\ poly_solve (FloatRA tbl) coeffs refine <> Panic Underflow).
Print Assumptions entry_contract_roots_float.
Example entry_contract_roots_float_nonvacuous :
  g_poly_roots_degree 3 = false /\ 1 <= length [@mkC AF 2%float 0%float; @mkC AF 0%float 0%float; @mkC AF 1%float 0%float].
Proof. vm_compute. split; [reflexivity|]. repeat constructor. Qed.

(* ---- the contracts are not vacuous: the two pre-repair functions with a guard / range defect (set_col_legacy: the guard compared the column
   with the number of rows; tmul_legacy: no n = 1 branch) violate them on concrete rational inputs, the repaired functions meet them there ---- *)
Theorem entry_contract_refutes_legacy :
  (exists (m : matrix AQ) (col : nat) (v : list AQ),
     Matrix.wf m /\
     g_mat_set_col (Z.of_nat (rows m)) (Z.of_nat (cols m)) (Z.of_nat col) (Z.of_nat (length v)) = false /\
     set_col_legacy m col v = Panic Guard /\ is_ok (set_col m col v) = true) /\
  (exists (m : matrix AQ) (col : nat) (v : list AQ),
     Matrix.wf m /\
     g_mat_set_col (Z.of_nat (rows m)) (Z.of_nat (cols m)) (Z.of_nat col) (Z.of_nat (length v)) = true /\
     set_col_legacy m col v = Panic Index /\ set_col m col v = Panic Guard) /\
  (exists (t : tridiag AQ) (v : list AQ),
     Tridiag.wfT t /\
     1 <= tn t /\ g_tri_mul_vec (Z.of_nat (tn t)) (Z.of_nat (length v)) = false /\ tmul_legacy t v = Panic Index /\ is_ok (tmul t v) = true).
Proof. exact GuardsModelLegacy.entry_contract_refutes_legacy_lemma. Qed.
Check entry_contract_refutes_legacy :
  (exists (m : matrix AQ) (col : nat) (v : list AQ),
     Matrix.wf m /\
     g_mat_set_col (Z.of_nat (rows m)) (Z.of_nat (cols m)) (Z.of_nat col) (Z.of_nat (length v)) = false /\
     set_col_legacy m col v = Panic Guard /\ is_ok (set_col m col v) = true) /\
  (exists (m : matrix AQ) (col : nat) (v : list AQ),
     Matrix.wf m /\
     g_mat_set_col (Z.of_nat (rows m)) (Z.of_nat (cols m)) (Z.of_nat col) (Z.of_nat (length v)) = true /\
     set_col_legacy m col v = Panic Index /\ set_col m col v = Panic Guard) /\
  (exists (t : tridiag AQ) (v : list AQ),
     Tridiag.wfT t /\
     1 <= tn t /\ g_tri_mul_vec (Z.of_nat (tn t)) (Z.of_nat (length v)) = false /\ tmul_legacy t v = Panic Index /\ is_ok (tmul t v) = true).
Print Assumptions entry_contract_refutes_legacy.

(* ---- the model functions the entry contracts speak about ARE the functions in the source of this run: for 46 of the 62 entries the model
   function is equal, for all arguments, to the function regenerated from /repo/src on this run by the Rust-subset -> Gallina translator
   (gen/Src*.v, Proofs/SrcEq*.v; the same statements are obligations of C01-C07, C15).  Deleting, weakening or moving a guard, or changing a
   loop bound / index of one of these functions in the source breaks the obligation below for its file, besides guard_<entry>.
   Not regenerated (tied by differential execution only): Banded/Tridiagonal/Polynomial IndexMut and Polynomial Index, Sparse::from_triplets
   (its helper col_start_from_index is), dot_f64, the four iterative solvers, the mesh accessors, poly_solve. ---- *)
From OV Require Proofs.SrcEqVector.
Theorem model_is_source_C20_Vector : forall A : Arith, @SrcEqVector.model_is_source_Vector A.
Proof. intros A. exact SrcEqVector.model_is_source_Vector_lemma. Qed.
Check model_is_source_C20_Vector : forall A : Arith, @SrcEqVector.model_is_source_Vector A.
Print Assumptions model_is_source_C20_Vector.

From OV Require Proofs.SrcEqMatrix.
Theorem model_is_source_C20_Matrix : forall A : Arith, @SrcEqMatrix.model_is_source_Matrix A.
Proof. intros A. exact SrcEqMatrix.model_is_source_Matrix_lemma. Qed.
Check model_is_source_C20_Matrix : forall A : Arith, @SrcEqMatrix.model_is_source_Matrix A.
Print Assumptions model_is_source_C20_Matrix.

From OV Require Proofs.SrcEqMatArith.
Theorem model_is_source_C20_MatArith : forall A : Arith, @SrcEqMatArith.model_is_source_MatArith A.
Proof. intros A. exact SrcEqMatArith.model_is_source_MatArith_lemma. Qed.
Check model_is_source_C20_MatArith : forall A : Arith, @SrcEqMatArith.model_is_source_MatArith A.
Print Assumptions model_is_source_C20_MatArith.

From OV Require Proofs.SrcEqSolve.
Theorem model_is_source_C20_Solve : forall A : Arith, @SrcEqSolve.model_is_source_Solve A.
Proof. intros A. exact SrcEqSolve.model_is_source_Solve_lemma. Qed.
Check model_is_source_C20_Solve : forall A : Arith, @SrcEqSolve.model_is_source_Solve A.
Print Assumptions model_is_source_C20_Solve.

From OV Require Proofs.SrcEqBanded.
Theorem model_is_source_C20_Banded : forall A : Arith, @SrcEqBanded.model_is_source_Banded A.
Proof. intros A. exact SrcEqBanded.model_is_source_Banded_lemma. Qed.
Check model_is_source_C20_Banded : forall A : Arith, @SrcEqBanded.model_is_source_Banded A.
Print Assumptions model_is_source_C20_Banded.

From OV Require Proofs.SrcEqTridiag.
Theorem model_is_source_C20_Tridiag : forall A : Arith, @SrcEqTridiag.model_is_source_Tridiag A.
Proof. intros A. exact SrcEqTridiag.model_is_source_Tridiag_lemma. Qed.
Check model_is_source_C20_Tridiag : forall A : Arith, @SrcEqTridiag.model_is_source_Tridiag A.
Print Assumptions model_is_source_C20_Tridiag.

From OV Require Proofs.SrcEqSparse.
Theorem model_is_source_C20_Sparse : forall A : Arith, @SrcEqSparse.model_is_source_Sparse A.
Proof. intros A. exact SrcEqSparse.model_is_source_Sparse_lemma. Qed.
Check model_is_source_C20_Sparse : forall A : Arith, @SrcEqSparse.model_is_source_Sparse A.
Print Assumptions model_is_source_C20_Sparse.
