(* Props/C20.v -- stub, to be filled in *)
