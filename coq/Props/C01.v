(* Props/C01.v -- stub, to be filled in *)
