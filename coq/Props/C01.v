(* Props/C01.v -- property theorems only: Theorem / exact lemma / Check (pins the statement) / Print Assumptions.
   Conventions: wf m = (length (buf m) = rows m * cols m); ent m i j = nth (i * cols m + j) (buf m) zero;
   mvprod n X v r = sum_n n (fun k => X r k * v k), so  "M x = b"  reads
   forall i < rows M, mvprod (rows M) (ent M) (fun k => nth k x zero) i = nth i b zero. *)
From Coq Require Import List Arith ZArith.
From OV Require Import Base.Panic Base.Arith Base.Flat Model.Vector Model.Matrix Model.Solve Inst.QcInst
  Proofs.Matrix Proofs.SolveBase Proofs.SolveBack Proofs.SolveGauss Proofs.Solve.
Import ListNotations.

(* C01, Gaussian elimination half: whatever solve_basic returns solves the system (any field, any size). *)
Theorem solve_basic_sound : forall (A : Arith), FieldLaws A -> forall (M : matrix A) (b x : list A),
  wf M -> rows M = cols M -> length b = rows M -> solve_basic M b = Ok x ->
  length x = rows M /\
  forall i, i < rows M -> mvprod (rows M) (ent M) (fun k => nth k x zero) i = nth i b zero.
Proof. intros A FL M b x. exact (solve_basic_sound_lemma FL M b x). Qed.
Check solve_basic_sound : forall (A : Arith), FieldLaws A -> forall (M : matrix A) (b x : list A),
  wf M -> rows M = cols M -> length b = rows M -> solve_basic M b = Ok x ->
  length x = rows M /\
  forall i, i < rows M -> mvprod (rows M) (ent M) (fun k => nth k x zero) i = nth i b zero.
Print Assumptions solve_basic_sound.

(* non-vacuity: a 3x3 rational system with a zero leading entry; the pivot search exchanges rows at
   step 0 (row 2) and again at step 1 (row 2); solve_basic returns [1;1;1]  (corpus/C01/two_exchanges_3x3.json) *)
Definition M3 : matrix AQ := @mkM AQ [q 0 1; q 2 1; q 2 1;  q 1 1; q 1 1; q 1 1;  q 2 1; q 4 1; q 1 1] 3 3.
Definition b3 : list AQ := [q 4 1; q 3 1; q 7 1].
Example solve_basic_sound_nonvacuous :
  wf M3 /\ rows M3 = cols M3 /\ length b3 = rows M3 /\
  (exists x, solve_basic M3 b3 = Ok x) /\
  fl_res (fl_list flat_q) (solve_basic M3 b3) = [0; 3;  2; 1; 1;  2; 1; 1;  2; 1; 1]%Z /\
  max_abs_in_column M3 0 0 = Ok 2 /\
  (exists s, gauss_body 0 (M3, b3) = Ok s /\ max_abs_in_column (fst s) 1 1 = Ok 2).
Proof.
  repeat split; try reflexivity.
  - eexists. vm_compute. reflexivity.
  - eexists. split; vm_compute; reflexivity.
Qed.
