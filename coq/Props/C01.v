(* Props/C01.v -- property theorems only: Theorem / exact lemma / Check (pins the statement) / Print Assumptions.
   Conventions: wf m = (length (buf m) = rows m * cols m); ent m i j = nth (i * cols m + j) (buf m) zero;
   mvprod n X v r = sum_n n (fun k => X r k * v k), so  "M x = b"  reads
   forall i < rows M, mvprod (rows M) (ent M) (fun k => nth k x zero) i = nth i b zero. *)
From Coq Require Import List Arith ZArith Lia.
From OV Require Import Base.Panic Base.Arith Base.Flat Model.Vector Model.Matrix Model.Solve Inst.QcInst
  Proofs.Matrix Proofs.SolveBase Proofs.SolveBack Proofs.SolveGauss Proofs.Solve Proofs.SolveComplete Proofs.SolveQc Proofs.SolveR Proofs.SolveC Proofs.SolvePanic Proofs.SolveMul Proofs.SolvePivot Proofs.SolvePivotInst.
Import ListNotations.

(* C01, Gaussian elimination half: whatever solve_basic returns solves the system (any field, any size). *)
Theorem solve_basic_sound : forall (A : Arith), FieldLaws A -> forall (M : matrix A) (b x : list A),
  wf M -> rows M = cols M -> length b = rows M -> solve_basic M b = Ok x ->
  length x = rows M /\
  forall i, i < rows M -> mvprod (rows M) (ent M) (fun k => nth k x zero) i = nth i b zero.
Proof. intros A FL M b x. exact (solve_basic_sound_lemma FL M b x). Qed.
Check solve_basic_sound : forall (A : Arith), FieldLaws A -> forall (M : matrix A) (b x : list A),
  wf M -> rows M = cols M -> length b = rows M -> solve_basic M b = Ok x ->
  length x = rows M /\
  forall i, i < rows M -> mvprod (rows M) (ent M) (fun k => nth k x zero) i = nth i b zero.
Print Assumptions solve_basic_sound.

(* non-vacuity: a 3x3 rational system with a zero leading entry; the pivot search exchanges rows at
   step 0 (row 2) and again at step 1 (row 2); solve_basic returns [1;1;1]  (corpus/C01/two_exchanges_3x3.json) *)
Definition M3 : matrix AQ := @mkM AQ [q 0 1; q 2 1; q 2 1;  q 1 1; q 1 1; q 1 1;  q 2 1; q 4 1; q 1 1] 3 3.
Definition b3 : list AQ := [q 4 1; q 3 1; q 7 1].
Example solve_basic_sound_nonvacuous :
  wf M3 /\ rows M3 = cols M3 /\ length b3 = rows M3 /\
  is_ok (solve_basic M3 b3) = true /\
  fl_res (fl_list flat_q) (solve_basic M3 b3) = [0; 3;  2; 1; 1;  2; 1; 1;  2; 1; 1]%Z /\
  max_abs_in_column M3 0 0 = Ok 2 /\
  (let* s := gauss_body 0 (M3, b3) in max_abs_in_column (fst s) 1 1) = Ok 2.
Proof.
  split; [reflexivity|]. split; [reflexivity|]. split; [reflexivity|].
  split; [vm_compute; reflexivity|].
  split; [vm_compute; reflexivity|]. split; [vm_compute; reflexivity|].
  vm_compute; reflexivity.
Qed.

(* The same soundness statement phrased with the code's own product only: the vector returned by solve_basic,
   multiplied by the matrix with Matrix::multiply (get_row + dot, as modelled in Model/Matrix.v), is b. *)
Theorem solve_basic_multiply : forall (A : Arith), FieldLaws A -> forall (M : matrix A) (b x : list A),
  wf M -> rows M = cols M -> length b = rows M -> solve_basic M b = Ok x -> multiply M x = Ok b.
Proof. intros A FL M b x. exact (solve_basic_multiply_lemma FL M b x). Qed.
Check solve_basic_multiply : forall (A : Arith), FieldLaws A -> forall (M : matrix A) (b x : list A),
  wf M -> rows M = cols M -> length b = rows M -> solve_basic M b = Ok x -> multiply M x = Ok b.
Print Assumptions solve_basic_multiply.

(* A left inverse makes solutions unique (used to assemble solvers_agree from solve_basic_sound and
   package c02's solve_lu_sound).  left_inverse n N E: forall i j < n, sum_k N i k * E k j = delta i j. *)
Theorem solutions_unique : forall (A : Arith), FieldLaws A -> forall (M : matrix A) (b x y : list A),
  (exists N : nat -> nat -> A, left_inverse (rows M) N (ent M)) ->
  length x = rows M -> length y = rows M ->
  (forall i, i < rows M -> mvprod (rows M) (ent M) (fun k => nth k x zero) i = nth i b zero) ->
  (forall i, i < rows M -> mvprod (rows M) (ent M) (fun k => nth k y zero) i = nth i b zero) ->
  x = y.
Proof. intros A FL M b x y. exact (solutions_unique_lemma FL M b x y). Qed.
Check solutions_unique : forall (A : Arith), FieldLaws A -> forall (M : matrix A) (b x y : list A),
  (exists N : nat -> nat -> A, left_inverse (rows M) N (ent M)) ->
  length x = rows M -> length y = rows M ->
  (forall i, i < rows M -> mvprod (rows M) (ent M) (fun k => nth k x zero) i = nth i b zero) ->
  (forall i, i < rows M -> mvprod (rows M) (ent M) (fun k => nth k y zero) i = nth i b zero) ->
  x = y.
Print Assumptions solutions_unique.

(* non-vacuity: M3 has a left inverse (its inverse, det M3 = 6), and [1;1;1] solves M3 x = b3 *)
Definition N3 : matrix AQ := @mkM AQ [q (-1) 2; q 1 1; q 0 1;  q 1 6; q (-2) 3; q 1 3;  q 1 3; q 2 3; q (-1) 3] 3 3.
Example M3_left_inverse : left_inverse (rows M3) (ent N3) (ent M3).
Proof.
  intros i j Hi Hj. change (rows M3) with 3 in *.
  destruct i as [|[|[|i]]]; try lia; destruct j as [|[|[|j]]]; try lia;
    apply Qcanon.Qc_is_canon; vm_compute; reflexivity.
Qed.
Definition x3 : list AQ := [q 1 1; q 1 1; q 1 1].
Example solutions_unique_nonvacuous :
  (exists N : nat -> nat -> AQ, left_inverse (rows M3) N (ent M3)) /\
  length x3 = rows M3 /\
  (forall i, i < rows M3 -> mvprod (rows M3) (ent M3) (fun k => nth k x3 zero) i = nth i b3 zero).
Proof.
  split; [exists (ent N3); exact M3_left_inverse|]. split; [reflexivity|].
  intros i Hi. change (rows M3) with 3 in *.
  destruct i as [|[|[|i]]]; try lia; apply Qcanon.Qc_is_canon; vm_compute; reflexivity.
Qed.

(* Completeness (P2).  DESIGN Appendix E states it with MagLaws (abs x = 0 <-> x = 0, ltb irreflexive); that is
   not enough: with ltb = const false both laws hold and max_abs_in_column never selects a pivot, so
   solve_basic panics on [[0,1],[1,0]].  The statement therefore takes PivLaws (Proofs/SolveBase.v):
   abs x = 0 <-> x = 0;  x <> 0 -> ltb 0 (abs x) = true;  ltb (abs x) 0 = false  (met by Q, R and |.| on C).
   The left inverse is given entrywise as a function N (no well-formedness needed). *)
Theorem solve_basic_complete : forall (A : Arith), FieldLaws A -> PivLaws A -> forall (M : matrix A) (b : list A),
  wf M -> rows M = cols M -> length b = rows M -> 1 <= rows M ->
  (exists N : nat -> nat -> A, left_inverse (rows M) N (ent M)) ->
  exists x, solve_basic M b = Ok x.
Proof. intros A FL PL M b. exact (solve_basic_complete_lemma FL PL M b). Qed.
Check solve_basic_complete : forall (A : Arith), FieldLaws A -> PivLaws A -> forall (M : matrix A) (b : list A),
  wf M -> rows M = cols M -> length b = rows M -> 1 <= rows M ->
  (exists N : nat -> nat -> A, left_inverse (rows M) N (ent M)) ->
  exists x, solve_basic M b = Ok x.
Print Assumptions solve_basic_complete.

Example solve_basic_complete_nonvacuous :
  wf M3 /\ rows M3 = cols M3 /\ length b3 = rows M3 /\ 1 <= rows M3 /\
  (exists N : nat -> nat -> AQ, left_inverse (rows M3) N (ent M3)).
Proof.
  split; [reflexivity|]. split; [reflexivity|]. split; [reflexivity|]. split; [cbn; lia|].
  exists (ent N3). exact M3_left_inverse.
Qed.

(* Corollaries at Qc, the arithmetic of the exact tier of the correspondence check (AQ_FieldLaws, AQ_PivLaws):
   a rational system with a left inverse is solved by solve_basic, and the answer is its only solution. *)
Theorem solve_basic_sound_Qc : forall (M : matrix AQ) (b x : list AQ),
  wf M -> rows M = cols M -> length b = rows M -> solve_basic M b = Ok x ->
  length x = rows M /\
  forall i, i < rows M -> mvprod (rows M) (ent M) (fun k => nth k x zero) i = nth i b zero.
Proof. exact solve_basic_sound_Qc_lemma. Qed.
Check solve_basic_sound_Qc : forall (M : matrix AQ) (b x : list AQ),
  wf M -> rows M = cols M -> length b = rows M -> solve_basic M b = Ok x ->
  length x = rows M /\
  forall i, i < rows M -> mvprod (rows M) (ent M) (fun k => nth k x zero) i = nth i b zero.
Print Assumptions solve_basic_sound_Qc.

Theorem solve_basic_correct_Qc : forall (M : matrix AQ) (b : list AQ),
  wf M -> rows M = cols M -> length b = rows M -> 1 <= rows M ->
  (exists N : nat -> nat -> AQ, left_inverse (rows M) N (ent M)) ->
  exists x, solve_basic M b = Ok x /\ length x = rows M /\
    (forall i, i < rows M -> mvprod (rows M) (ent M) (fun k => nth k x zero) i = nth i b zero) /\
    (forall y, length y = rows M ->
       (forall i, i < rows M -> mvprod (rows M) (ent M) (fun k => nth k y zero) i = nth i b zero) -> y = x).
Proof. exact solve_basic_correct_Qc_lemma. Qed.
Check solve_basic_correct_Qc : forall (M : matrix AQ) (b : list AQ),
  wf M -> rows M = cols M -> length b = rows M -> 1 <= rows M ->
  (exists N : nat -> nat -> AQ, left_inverse (rows M) N (ent M)) ->
  exists x, solve_basic M b = Ok x /\ length x = rows M /\
    (forall i, i < rows M -> mvprod (rows M) (ent M) (fun k => nth k x zero) i = nth i b zero) /\
    (forall y, length y = rows M ->
       (forall i, i < rows M -> mvprod (rows M) (ent M) (fun k => nth k y zero) i = nth i b zero) -> y = x).
Print Assumptions solve_basic_correct_Qc.

(* Corollary over the real numbers (AR of Proofs/SolveR.v: R with Rabs and the classical order/equality tests),
   the idealisation of the f64 element type: a real system with a left inverse is solved, uniquely.
   Depends on the standard library's axioms of the reals only (allow-listed). *)
Theorem solve_basic_correct_R : forall (M : matrix AR) (b : list AR),
  wf M -> rows M = cols M -> length b = rows M -> 1 <= rows M ->
  (exists N : nat -> nat -> AR, left_inverse (rows M) N (ent M)) ->
  exists x, solve_basic M b = Ok x /\ length x = rows M /\
    (forall i, i < rows M -> mvprod (rows M) (ent M) (fun k => nth k x zero) i = nth i b zero) /\
    (forall y, length y = rows M ->
       (forall i, i < rows M -> mvprod (rows M) (ent M) (fun k => nth k y zero) i = nth i b zero) -> y = x).
Proof. exact solve_basic_correct_R_lemma. Qed.
Check solve_basic_correct_R : forall (M : matrix AR) (b : list AR),
  wf M -> rows M = cols M -> length b = rows M -> 1 <= rows M ->
  (exists N : nat -> nat -> AR, left_inverse (rows M) N (ent M)) ->
  exists x, solve_basic M b = Ok x /\ length x = rows M /\
    (forall i, i < rows M -> mvprod (rows M) (ent M) (fun k => nth k x zero) i = nth i b zero) /\
    (forall y, length y = rows M ->
       (forall i, i < rows M -> mvprod (rows M) (ent M) (fun k => nth k y zero) i = nth i b zero) -> y = x).
Print Assumptions solve_basic_correct_R.

(* separator for the driver's parser of Print Assumptions output (an axiom list is followed by a closed block) *)
Print Assumptions solve_basic_sound.

(* Safety: on a well-formed, conformable, non-empty square system the only panic solve_basic can raise is the
   zero divisor (no index out of range, no usize underflow, no guard), over any field; and under the
   magnitude laws a panic certifies that the matrix has no left inverse (third theorem shape of DESIGN 3.3). *)
Theorem solve_basic_panic_kind : forall (A : Arith), FieldLaws A -> forall (M : matrix A) (b : list A) (k : pkind),
  wf M -> rows M = cols M -> length b = rows M -> 1 <= rows M ->
  solve_basic M b = Panic k -> k = DivZero.
Proof. intros A FL M b k. exact (solve_basic_panic_kind_lemma FL M b k). Qed.
Check solve_basic_panic_kind : forall (A : Arith), FieldLaws A -> forall (M : matrix A) (b : list A) (k : pkind),
  wf M -> rows M = cols M -> length b = rows M -> 1 <= rows M ->
  solve_basic M b = Panic k -> k = DivZero.
Print Assumptions solve_basic_panic_kind.

Theorem solve_basic_panic_singular : forall (A : Arith), FieldLaws A -> PivLaws A ->
  forall (M : matrix A) (b : list A) (k : pkind),
  wf M -> rows M = cols M -> length b = rows M -> 1 <= rows M ->
  solve_basic M b = Panic k ->
  k = DivZero /\ ~ exists N : nat -> nat -> A, left_inverse (rows M) N (ent M).
Proof. intros A FL PL M b k. exact (solve_basic_panic_singular_lemma FL PL M b k). Qed.
Check solve_basic_panic_singular : forall (A : Arith), FieldLaws A -> PivLaws A ->
  forall (M : matrix A) (b : list A) (k : pkind),
  wf M -> rows M = cols M -> length b = rows M -> 1 <= rows M ->
  solve_basic M b = Panic k ->
  k = DivZero /\ ~ exists N : nat -> nat -> A, left_inverse (rows M) N (ent M).
Print Assumptions solve_basic_panic_singular.

(* non-vacuity: a singular 3x3 system whose sub-column at step 1 is zero: the pivot search falls back to its
   initial index 0, row 0 is exchanged into the active part, and the run ends in the zero-divisor panic
   (corpus/C01/zero_subcolumn_row0_swap.json) *)
Definition S3 : matrix AQ := @mkM AQ [q 1 1; q 1 1; q 0 1;  q 1 1; q 1 1; q 1 1;  q 1 1; q 1 1; q 2 1] 3 3.
Example solve_basic_panic_nonvacuous :
  wf S3 /\ rows S3 = cols S3 /\ length [q 1 1; q 2 1; q 3 1] = rows S3 /\ 1 <= rows S3 /\
  solve_basic S3 [q 1 1; q 2 1; q 3 1] = Panic DivZero /\
  (let* s := gauss_body 0 (S3, [q 1 1; q 2 1; q 3 1]) in max_abs_in_column (fst s) 1 1) = Ok 0.
Proof.
  split; [reflexivity|]. split; [reflexivity|]. split; [reflexivity|]. split; [cbn; lia|].
  split; vm_compute; reflexivity.
Qed.

(* Corollary over the complex numbers (ACR of Proofs/SolveC.v: Model/Complex.v's own operators -- the code's
   formulas for * and /, Signed::abs = (|z|, 0), the lexicographic PartialOrd -- over the real instance AR),
   the idealisation of the Complex<f64> element type. *)
Theorem solve_basic_correct_C : forall (M : matrix ACR) (b : list ACR),
  wf M -> rows M = cols M -> length b = rows M -> 1 <= rows M ->
  (exists N : nat -> nat -> ACR, left_inverse (rows M) N (ent M)) ->
  exists x, solve_basic M b = Ok x /\ length x = rows M /\
    (forall i, i < rows M -> mvprod (rows M) (ent M) (fun k => nth k x zero) i = nth i b zero) /\
    (forall y, length y = rows M ->
       (forall i, i < rows M -> mvprod (rows M) (ent M) (fun k => nth k y zero) i = nth i b zero) -> y = x).
Proof. exact solve_basic_correct_C_lemma. Qed.
Check solve_basic_correct_C : forall (M : matrix ACR) (b : list ACR),
  wf M -> rows M = cols M -> length b = rows M -> 1 <= rows M ->
  (exists N : nat -> nat -> ACR, left_inverse (rows M) N (ent M)) ->
  exists x, solve_basic M b = Ok x /\ length x = rows M /\
    (forall i, i < rows M -> mvprod (rows M) (ent M) (fun k => nth k x zero) i = nth i b zero) /\
    (forall y, length y = rows M ->
       (forall i, i < rows M -> mvprod (rows M) (ent M) (fun k => nth k y zero) i = nth i b zero) -> y = x).
Print Assumptions solve_basic_correct_C.

(* separator for the driver's parser of Print Assumptions output (an axiom list is followed by a closed block) *)
Print Assumptions solve_basic_sound.

(* The mechanism the property names ("the largest |a_ik| on or below the diagonal is swapped into the pivot
   row"): over any arithmetic whose `ltb` is a strict weak order (OrdLaws of Proofs/SolvePivot.v; no field law
   is needed) the pivot search returns a row of maximal magnitude in the scanned part of the column -- or, when
   no magnitude there exceeds zero, its initial index 0 (the fall-back that solve_basic_panic_nonvacuous shows). *)
Theorem pivot_rule_maximal : forall (A : Arith), OrdLaws A -> forall (m : matrix A) (col start : nat),
  wf m -> col < cols m -> start <= rows m ->
  exists p, max_abs_in_column m col start = Ok p /\
    ((p = 0 /\ forall i, start <= i < rows m -> ltb zero (abs (ent m i col)) = false) \/
     (start <= p < rows m /\ ltb zero (abs (ent m p col)) = true /\
      forall i, start <= i < rows m -> ltb (abs (ent m p col)) (abs (ent m i col)) = false)).
Proof. intros A OL m col start. exact (max_abs_maximal OL m col start). Qed.
Check pivot_rule_maximal : forall (A : Arith), OrdLaws A -> forall (m : matrix A) (col start : nat),
  wf m -> col < cols m -> start <= rows m ->
  exists p, max_abs_in_column m col start = Ok p /\
    ((p = 0 /\ forall i, start <= i < rows m -> ltb zero (abs (ent m i col)) = false) \/
     (start <= p < rows m /\ ltb zero (abs (ent m p col)) = true /\
      forall i, start <= i < rows m -> ltb (abs (ent m p col)) (abs (ent m i col)) = false)).
Print Assumptions pivot_rule_maximal.

Example pivot_rule_maximal_nonvacuous :
  OrdLaws AQ /\ OrdLaws AR /\ wf M3 /\ 0 < cols M3 /\ 0 <= rows M3 /\ max_abs_in_column M3 0 0 = Ok 2.
Proof.
  split; [exact AQ_OrdLaws|]. split; [exact AR_OrdLaws|]. split; [reflexivity|].
  split; [cbn; lia|]. split; [cbn; lia|]. vm_compute. reflexivity.
Qed.

(* ---- the LU half of C01 and the agreement of the two solvers (assembled by the coordinator from packages c01 and c02:
   Proofs/SolveAgree.v).  LUPrim.PivLaws is c02's copy of the three pivot laws (same fields as PivLaws above); it is
   proved, not assumed, for Qc, R and C = R[i] in Proofs/LUQc.v and Proofs/LUReal.v. *)
From OV Require Proofs.LUPrim Proofs.LUSolve Proofs.LUKernel Proofs.SolveAgree.

Theorem solve_lu_sound : forall (A : Arith), FieldLaws A -> LUPrim.PivLaws A -> forall (M : matrix A) (b x : list A),
  wf M -> rows M = cols M -> length b = rows M -> solve_lu M b = Ok x ->
  length x = rows M /\
  forall i, i < rows M -> mvprod (rows M) (ent M) (fun k => nth k x zero) i = nth i b zero.
Proof. intros A FL PL M b x. exact (SolveAgree.solve_lu_sound_c01form FL PL M b x). Qed.
Check solve_lu_sound : forall (A : Arith), FieldLaws A -> LUPrim.PivLaws A -> forall (M : matrix A) (b x : list A),
  wf M -> rows M = cols M -> length b = rows M -> solve_lu M b = Ok x ->
  length x = rows M /\
  forall i, i < rows M -> mvprod (rows M) (ent M) (fun k => nth k x zero) i = nth i b zero.
Print Assumptions solve_lu_sound.

Theorem solve_lu_complete : forall (A : Arith), FieldLaws A -> LUPrim.PivLaws A -> forall (M : matrix A) (b : list A) (Nf : nat -> nat -> A),
  wf M -> rows M = cols M -> 1 <= rows M -> length b = rows M -> LUKernel.left_inverse (rows M) Nf (LUPrim.ent M) ->
  exists x, solve_lu M b = Ok x.
Proof. intros A FL PL M b Nf. exact (LUKernel.solve_lu_nonsingular_lemma FL PL M b Nf). Qed.
Check solve_lu_complete : forall (A : Arith), FieldLaws A -> LUPrim.PivLaws A -> forall (M : matrix A) (b : list A) (Nf : nat -> nat -> A),
  wf M -> rows M = cols M -> 1 <= rows M -> length b = rows M -> LUKernel.left_inverse (rows M) Nf (LUPrim.ent M) ->
  exists x, solve_lu M b = Ok x.
Print Assumptions solve_lu_complete.

Theorem solvers_agree : forall (A : Arith), FieldLaws A -> LUPrim.PivLaws A -> forall (M : matrix A) (b x y : list A),
  wf M -> rows M = cols M -> length b = rows M ->
  (exists N : nat -> nat -> A, left_inverse (rows M) N (ent M)) ->
  solve_basic M b = Ok x -> solve_lu M b = Ok y -> x = y.
Proof. intros A FL PL M b x y. exact (SolveAgree.solvers_agree_lemma FL PL M b x y). Qed.
Check solvers_agree : forall (A : Arith), FieldLaws A -> LUPrim.PivLaws A -> forall (M : matrix A) (b x y : list A),
  wf M -> rows M = cols M -> length b = rows M ->
  (exists N : nat -> nat -> A, left_inverse (rows M) N (ent M)) ->
  solve_basic M b = Ok x -> solve_lu M b = Ok y -> x = y.
Print Assumptions solvers_agree.
Example solvers_agree_nonvacuous : is_ok (solve_basic M3 b3) = true /\ is_ok (solve_lu M3 b3) = true /\ solve_basic M3 b3 = solve_lu M3 b3.
Proof. vm_compute. repeat split; reflexivity. Qed.

(* ---- tie to the source by proof (package r2c): the functions regenerated from /repo/src on this run by the Rust-subset ->
   Gallina translator (driver/rust2coq.py -> gen/Src*.v) are equal, for all arguments, to the hand-written model functions
   the theorems above are about (Proofs/SrcEq*.v).  A change of a loop bound, index, operator or statement order in the
   source breaks the corresponding src_<function> lemma and with it this obligation. *)
From OV Require Proofs.SrcEqSolve.
Theorem model_is_source_C01_Solve : forall A : Arith, @SrcEqSolve.model_is_source_Solve A.
Proof. intros A. exact SrcEqSolve.model_is_source_Solve_lemma. Qed.
Check model_is_source_C01_Solve : forall A : Arith, @SrcEqSolve.model_is_source_Solve A.
Print Assumptions model_is_source_C01_Solve.
