(* Props/C01.v -- property theorems only: Theorem / exact lemma / Check (pins the statement) / Print Assumptions.
   Conventions: wf m = (length (buf m) = rows m * cols m); ent m i j = nth (i * cols m + j) (buf m) zero;
   mvprod n X v r = sum_n n (fun k => X r k * v k), so  "M x = b"  reads
   forall i < rows M, mvprod (rows M) (ent M) (fun k => nth k x zero) i = nth i b zero. *)
From Coq Require Import List Arith ZArith Lia.
From OV Require Import Base.Panic Base.Arith Base.Flat Model.Vector Model.Matrix Model.Solve Inst.QcInst
  Proofs.Matrix Proofs.SolveBase Proofs.SolveBack Proofs.SolveGauss Proofs.Solve Proofs.SolveComplete Proofs.SolveQc Proofs.SolveR Proofs.SolveC Proofs.SolvePanic Proofs.SolveMul Proofs.SolvePivot Proofs.SolvePivotInst.
Import ListNotations.

(* C01, Gaussian elimination half: whatever solve_basic returns solves the system (any field, any size). *)
Theorem solve_basic_sound : forall (A : Arith), FieldLaws A -> forall (M : matrix A) (b x : list A),
  wf M -> rows M = cols M -> length b = rows M -> solve_basic M b = Ok x ->
  length x = rows M /\
  forall i, i < rows M -> mvprod (rows M) (ent M) (fun k => nth k x zero) i = nth i b zero.
Proof. intros A FL M b x. exact (solve_basic_sound_lemma FL M b x). Qed.
Check solve_basic_sound : forall (A : Arith), FieldLaws A -> forall (M : matrix A) (b x : list A),
  wf M -> rows M = cols M -> length b = rows M -> solve_basic M b = Ok x ->
  length x = rows M /\
  forall i, i < rows M -> mvprod (rows M) (ent M) (fun k => nth k x zero) i = nth i b zero.
Print Assumptions solve_basic_sound.

(* non-vacuity: a 3x3 rational system with a zero leading entry; the pivot search exchanges rows at
   step 0 (row 2) and again at step 1 (row 2); solve_basic returns [1;1;1]  (corpus/C01/two_exchanges_3x3.json) *)
Definition M3 : matrix AQ := @mkM AQ [q 0 1; q 2 1; q 2 1;  q 1 1; q 1 1; q 1 1;  q 2 1; q 4 1; q 1 1] 3 3.
Definition b3 : list AQ := [q 4 1; q 3 1; q 7 1].
Example solve_basic_sound_nonvacuous :
  wf M3 /\ rows M3 = cols M3 /\ length b3 = rows M3 /\
  is_ok (solve_basic M3 b3) = true /\
  fl_res (fl_list flat_q) (solve_basic M3 b3) = [0; 3;  2; 1; 1;  2; 1; 1;  2; 1; 1]%Z /\
  max_abs_in_column M3 0 0 = Ok 2 /\
  (let* s := gauss_body 0 (M3, b3) in max_abs_in_column (fst s) 1 1) = Ok 2.
Proof.
  split; [reflexivity|]. split; [reflexivity|]. split; [reflexivity|].
  split; [vm_compute; reflexivity|].
  split; [vm_compute; reflexivity|]. split; [vm_compute; reflexivity|].
  vm_compute; reflexivity.
Qed.

(* The same soundness statement phrased with the code's own product only: the vector returned by solve_basic,
   multiplied by the matrix with Matrix::multiply (get_row + dot, as modelled in Model/Matrix.v), is b. *)
Theorem solve_basic_multiply : forall (A : Arith), FieldLaws A -> forall (M : matrix A) (b x : list A),
  wf M -> rows M = cols M -> length b = rows M -> solve_basic M b = Ok x -> multiply M x = Ok b.
Proof. intros A FL M b x. exact (solve_basic_multiply_lemma FL M b x). Qed.
Check solve_basic_multiply : forall (A : Arith), FieldLaws A -> forall (M : matrix A) (b x : list A),
  wf M -> rows M = cols M -> length b = rows M -> solve_basic M b = Ok x -> multiply M x = Ok b.
Print Assumptions solve_basic_multiply.

(* A left inverse makes solutions unique (used to assemble solvers_agree from solve_basic_sound and
   package c02's solve_lu_sound).  left_inverse n N E: forall i j < n, sum_k N i k * E k j = delta i j. *)
Theorem solutions_unique : forall (A : Arith), FieldLaws A -> forall (M : matrix A) (b x y : list A),
  (exists N : nat -> nat -> A, left_inverse (rows M) N (ent M)) ->
  length x = rows M -> length y = rows M ->
  (forall i, i < rows M -> mvprod (rows M) (ent M) (fun k => nth k x zero) i = nth i b zero) ->
  (forall i, i < rows M -> mvprod (rows M) (ent M) (fun k => nth k y zero) i = nth i b zero) ->
  x = y.
Proof. intros A FL M b x y. exact (solutions_unique_lemma FL M b x y). Qed.
Check solutions_unique : forall (A : Arith), FieldLaws A -> forall (M : matrix A) (b x y : list A),
  (exists N : nat -> nat -> A, left_inverse (rows M) N (ent M)) ->
  length x = rows M -> length y = rows M ->
  (forall i, i < rows M -> mvprod (rows M) (ent M) (fun k => nth k x zero) i = nth i b zero) ->
  (forall i, i < rows M -> mvprod (rows M) (ent M) (fun k => nth k y zero) i = nth i b zero) ->
  x = y.
Print Assumptions solutions_unique.

(* non-vacuity: M3 has a left inverse (its inverse, det M3 = 6), and [1;1;1] solves M3 x = b3 *)
Definition N3 : matrix AQ := @mkM AQ [q (-1) 2; q 1 1; q 0 1;  q 1 6; q (-2) 3; q 1 3;  q 1 3; q 2 3; q (-1) 3] 3 3.
Example M3_left_inverse : left_inverse (rows M3) (ent N3) (ent M3).
Proof.
  intros i j Hi Hj. change (rows M3) with 3 in *.
  destruct i as [|[|[|i]]]; try lia; destruct j as [|[|[|j]]]; try lia;
    apply Qcanon.Qc_is_canon; vm_compute; reflexivity.
Qed.
Definition x3 : list AQ := [q 1 1; q 1 1; q 1 1].
Example solutions_unique_nonvacuous :
  (exists N : nat -> nat -> AQ, left_inverse (rows M3) N (ent M3)) /\
  length x3 = rows M3 /\
  (forall i, i < rows M3 -> mvprod (rows M3) (ent M3) (fun k => nth k x3 zero) i = nth i b3 zero).
Proof.
  split; [exists (ent N3); exact M3_left_inverse|]. split; [reflexivity|].
  intros i Hi. change (rows M3) with 3 in *.
  destruct i as [|[|[|i]]]; try lia; apply Qcanon.Qc_is_canon; vm_compute; reflexivity.
Qed.

(* Completeness (P2).  DESIGN Appendix E states it with MagLaws (abs x = 0 <-> x = 0, ltb irreflexive); that is
   not enough: with ltb = const false both laws hold and max_abs_in_column never selects a pivot, so
   solve_basic panics on [[0,1],[1,0]].  The statement therefore takes PivLaws (Proofs/SolveBase.v):
   abs x = 0 <-> x = 0;  x <> 0 -> ltb 0 (abs x) = true;  ltb (abs x) 0 = false  (met by Q, R and |.| on C).
   The left inverse is given entrywise as a function N (no well-formedness needed). *)
Theorem solve_basic_complete : forall (A : Arith), FieldLaws A -> PivLaws A -> forall (M : matrix A) (b : list A),
  wf M -> rows M = cols M -> length b = rows M -> 1 <= rows M ->
  (exists N : nat -> nat -> A, left_inverse (rows M) N (ent M)) ->
  exists x, solve_basic M b = Ok x.
Proof. intros A FL PL M b. exact (solve_basic_complete_lemma FL PL M b). Qed.
Check solve_basic_complete : forall (A : Arith), FieldLaws A -> PivLaws A -> forall (M : matrix A) (b : list A),
  wf M -> rows M = cols M -> length b = rows M -> 1 <= rows M ->
  (exists N : nat -> nat -> A, left_inverse (rows M) N (ent M)) ->
  exists x, solve_basic M b = Ok x.
Print Assumptions solve_basic_complete.

Example solve_basic_complete_nonvacuous :
  wf M3 /\ rows M3 = cols M3 /\ length b3 = rows M3 /\ 1 <= rows M3 /\
  (exists N : nat -> nat -> AQ, left_inverse (rows M3) N (ent M3)).
Proof.
  split; [reflexivity|]. split; [reflexivity|]. split; [reflexivity|]. split; [cbn; lia|].
  exists (ent N3). exact M3_left_inverse.
Qed.

(* Corollaries at Qc, the arithmetic of the exact tier of the correspondence check (AQ_FieldLaws, AQ_PivLaws):
   a rational system with a left inverse is solved by solve_basic, and the answer is its only solution. *)
Theorem solve_basic_sound_Qc : forall (M : matrix AQ) (b x : list AQ),
  wf M -> rows M = cols M -> length b = rows M -> solve_basic M b = Ok x ->
  length x = rows M /\
  forall i, i < rows M -> mvprod (rows M) (ent M) (fun k => nth k x zero) i = nth i b zero.
Proof. exact solve_basic_sound_Qc_lemma. Qed.
Check solve_basic_sound_Qc : forall (M : matrix AQ) (b x : list AQ),
  wf M -> rows M = cols M -> length b = rows M -> solve_basic M b = Ok x ->
  length x = rows M /\
  forall i, i < rows M -> mvprod (rows M) (ent M) (fun k => nth k x zero) i = nth i b zero.
Print Assumptions solve_basic_sound_Qc.

Theorem solve_basic_correct_Qc : forall (M : matrix AQ) (b : list AQ),
  wf M -> rows M = cols M -> length b = rows M -> 1 <= rows M ->
  (exists N : nat -> nat -> AQ, left_inverse (rows M) N (ent M)) ->
  exists x, solve_basic M b = Ok x /\ length x = rows M /\
    (forall i, i < rows M -> mvprod (rows M) (ent M) (fun k => nth k x zero) i = nth i b zero) /\
    (forall y, length y = rows M ->
       (forall i, i < rows M -> mvprod (rows M) (ent M) (fun k => nth k y zero) i = nth i b zero) -> y = x).
Proof. exact solve_basic_correct_Qc_lemma. Qed.
Check solve_basic_correct_Qc : forall (M : matrix AQ) (b : list AQ),
  wf M -> rows M = cols M -> length b = rows M -> 1 <= rows M ->
  (exists N : nat -> nat -> AQ, left_inverse (rows M) N (ent M)) ->
  exists x, solve_basic M b = Ok x /\ length x = rows M /\
    (forall i, i < rows M -> mvprod (rows M) (ent M) (fun k => nth k x zero) i = nth i b zero) /\
    (forall y, length y = rows M ->
       (forall i, i < rows M -> mvprod (rows M) (ent M) (fun k => nth k y zero) i = nth i b zero) -> y = x).
Print Assumptions solve_basic_correct_Qc.

(* Corollary over the real numbers (AR of Proofs/SolveR.v: R with Rabs and the classical order/equality tests),
   the idealisation of the f64 element type: a real system with a left inverse is solved, uniquely.
   Depends on the standard library's axioms of the reals only (allow-listed). *)
Theorem solve_basic_correct_R : forall (M : matrix AR) (b : list AR),
  wf M -> rows M = cols M -> length b = rows M -> 1 <= rows M ->
  (exists N : nat -> nat -> AR, left_inverse (rows M) N (ent M)) ->
  exists x, solve_basic M b = Ok x /\ length x = rows M /\
    (forall i, i < rows M -> mvprod (rows M) (ent M) (fun k => nth k x zero) i = nth i b zero) /\
    (forall y, length y = rows M ->
       (forall i, i < rows M -> mvprod (rows M) (ent M) (fun k => nth k y zero) i = nth i b zero) -> y = x).
Proof. exact solve_basic_correct_R_lemma. Qed.
Check solve_basic_correct_R : forall (M : matrix AR) (b : list AR),
  wf M -> rows M = cols M -> length b = rows M -> 1 <= rows M ->
  (exists N : nat -> nat -> AR, left_inverse (rows M) N (ent M)) ->
  exists x, solve_basic M b = Ok x /\ length x = rows M /\
    (forall i, i < rows M -> mvprod (rows M) (ent M) (fun k => nth k x zero) i = nth i b zero) /\
    (forall y, length y = rows M ->
       (forall i, i < rows M -> mvprod (rows M) (ent M) (fun k => nth k y zero) i = nth i b zero) -> y = x).
Print Assumptions solve_basic_correct_R.

(* separator for the driver's parser of Print Assumptions output (an axiom list is followed by a closed block) *)
Print Assumptions solve_basic_sound.

(* Safety: on a well-formed, conformable, non-empty square system the only panic solve_basic can raise is the
   zero divisor (no index out of range, no usize underflow, no guard), over any field; and under the
   magnitude laws a panic certifies that the matrix has no left inverse (third theorem shape of DESIGN 3.3). *)
Theorem solve_basic_panic_kind : forall (A : Arith), FieldLaws A -> forall (M : matrix A) (b : list A) (k : pkind),
  wf M -> rows M = cols M -> length b = rows M -> 1 <= rows M ->
  solve_basic M b = Panic k -> k = DivZero.
Proof. intros A FL M b k. exact (solve_basic_panic_kind_lemma FL M b k). Qed.
Check solve_basic_panic_kind : forall (A : Arith), FieldLaws A -> forall (M : matrix A) (b : list A) (k : pkind),
  wf M -> rows M = cols M -> length b = rows M -> 1 <= rows M ->
  solve_basic M b = Panic k -> k = DivZero.
Print Assumptions solve_basic_panic_kind.

Theorem solve_basic_panic_singular : forall (A : Arith), FieldLaws A -> PivLaws A ->
  forall (M : matrix A) (b : list A) (k : pkind),
  wf M -> rows M = cols M -> length b = rows M -> 1 <= rows M ->
  solve_basic M b = Panic k ->
  k = DivZero /\ ~ exists N : nat -> nat -> A, left_inverse (rows M) N (ent M).
Proof. intros A FL PL M b k. exact (solve_basic_panic_singular_lemma FL PL M b k). Qed.
Check solve_basic_panic_singular : forall (A : Arith), FieldLaws A -> PivLaws A ->
  forall (M : matrix A) (b : list A) (k : pkind),
  wf M -> rows M = cols M -> length b = rows M -> 1 <= rows M ->
  solve_basic M b = Panic k ->
  k = DivZero /\ ~ exists N : nat -> nat -> A, left_inverse (rows M) N (ent M).
Print Assumptions solve_basic_panic_singular.

(* non-vacuity: a singular 3x3 system whose sub-column at step 1 is zero: the pivot search falls back to its
   initial index 0, row 0 is exchanged into the active part, and the run ends in the zero-divisor panic
   (corpus/C01/zero_subcolumn_row0_swap.json) *)
Definition S3 : matrix AQ := @mkM AQ [q 1 1; q 1 1; q 0 1;  q 1 1; q 1 1; q 1 1;  q 1 1; q 1 1; q 2 1] 3 3.
Example solve_basic_panic_nonvacuous :
  wf S3 /\ rows S3 = cols S3 /\ length [q 1 1; q 2 1; q 3 1] = rows S3 /\ 1 <= rows S3 /\
  solve_basic S3 [q 1 1; q 2 1; q 3 1] = Panic DivZero /\
  (let* s := gauss_body 0 (S3, [q 1 1; q 2 1; q 3 1]) in max_abs_in_column (fst s) 1 1) = Ok 0.
Proof.
  split; [reflexivity|]. split; [reflexivity|]. split; [reflexivity|]. split; [cbn; lia|].
  split; vm_compute; reflexivity.
Qed.

(* Corollary over the complex numbers (ACR of Proofs/SolveC.v: Model/Complex.v's own operators -- the code's
   formulas for * and /, Signed::abs = (|z|, 0), the lexicographic PartialOrd -- over the real instance AR),
   the idealisation of the Complex<f64> element type. *)
Theorem solve_basic_correct_C : forall (M : matrix ACR) (b : list ACR),
  wf M -> rows M = cols M -> length b = rows M -> 1 <= rows M ->
  (exists N : nat -> nat -> ACR, left_inverse (rows M) N (ent M)) ->
  exists x, solve_basic M b = Ok x /\ length x = rows M /\
    (forall i, i < rows M -> mvprod (rows M) (ent M) (fun k => nth k x zero) i = nth i b zero) /\
    (forall y, length y = rows M ->
       (forall i, i < rows M -> mvprod (rows M) (ent M) (fun k => nth k y zero) i = nth i b zero) -> y = x).
Proof. exact solve_basic_correct_C_lemma. Qed.
Check solve_basic_correct_C : forall (M : matrix ACR) (b : list ACR),
  wf M -> rows M = cols M -> length b = rows M -> 1 <= rows M ->
  (exists N : nat -> nat -> ACR, left_inverse (rows M) N (ent M)) ->
  exists x, solve_basic M b = Ok x /\ length x = rows M /\
    (forall i, i < rows M -> mvprod (rows M) (ent M) (fun k => nth k x zero) i = nth i b zero) /\
    (forall y, length y = rows M ->
       (forall i, i < rows M -> mvprod (rows M) (ent M) (fun k => nth k y zero) i = nth i b zero) -> y = x).
Print Assumptions solve_basic_correct_C.

(* separator for the driver's parser of Print Assumptions output (an axiom list is followed by a closed block) *)
Print Assumptions solve_basic_sound.

(* The mechanism the property names ("the largest |a_ik| on or below the diagonal is swapped into the pivot
   row"): over any arithmetic whose `ltb` is a strict weak order (OrdLaws of Proofs/SolvePivot.v; no field law
   is needed) the pivot search returns a row of maximal magnitude in the scanned part of the column -- or, when
   no magnitude there exceeds zero, its initial index 0 (the fall-back that solve_basic_panic_nonvacuous shows). *)
Theorem pivot_rule_maximal : forall (A : Arith), OrdLaws A -> forall (m : matrix A) (col start : nat),
  wf m -> col < cols m -> start <= rows m ->
  exists p, max_abs_in_column m col start = Ok p /\
    ((p = 0 /\ forall i, start <= i < rows m -> ltb zero (abs (ent m i col)) = false) \/
     (start <= p < rows m /\ ltb zero (abs (ent m p col)) = true /\
      forall i, start <= i < rows m -> ltb (abs (ent m p col)) (abs (ent m i col)) = false)).
Proof. intros A OL m col start. exact (max_abs_maximal OL m col start). Qed.
Check pivot_rule_maximal : forall (A : Arith), OrdLaws A -> forall (m : matrix A) (col start : nat),
  wf m -> col < cols m -> start <= rows m ->
  exists p, max_abs_in_column m col start = Ok p /\
    ((p = 0 /\ forall i, start <= i < rows m -> ltb zero (abs (ent m i col)) = false) \/
     (start <= p < rows m /\ ltb zero (abs (ent m p col)) = true /\
      forall i, start <= i < rows m -> ltb (abs (ent m p col)) (abs (ent m i col)) = false)).
Print Assumptions pivot_rule_maximal.

Example pivot_rule_maximal_nonvacuous :
  OrdLaws AQ /\ OrdLaws AR /\ wf M3 /\ 0 < cols M3 /\ 0 <= rows M3 /\ max_abs_in_column M3 0 0 = Ok 2.
Proof.
  split; [exact AQ_OrdLaws|]. split; [exact AR_OrdLaws|]. split; [reflexivity|].
  split; [cbn; lia|]. split; [cbn; lia|]. vm_compute. reflexivity.
Qed.

(* ---- the LU half of C01 and the agreement of the two solvers (assembled by the coordinator from packages c01 and c02:
   Proofs/SolveAgree.v).  LUPrim.PivLaws is c02's copy of the three pivot laws (same fields as PivLaws above); it is
   proved, not assumed, for Qc, R and C = R[i] in Proofs/LUQc.v and Proofs/LUReal.v. *)
From OV Require Proofs.LUPrim Proofs.LUSolve Proofs.LUKernel Proofs.SolveAgree.

Theorem solve_lu_sound : forall (A : Arith), FieldLaws A -> LUPrim.PivLaws A -> forall (M : matrix A) (b x : list A),
  wf M -> rows M = cols M -> length b = rows M -> solve_lu M b = Ok x ->
  length x = rows M /\
  forall i, i < rows M -> mvprod (rows M) (ent M) (fun k => nth k x zero) i = nth i b zero.
Proof. intros A FL PL M b x. exact (SolveAgree.solve_lu_sound_c01form FL PL M b x). Qed.
Check solve_lu_sound : forall (A : Arith), FieldLaws A -> LUPrim.PivLaws A -> forall (M : matrix A) (b x : list A),
  wf M -> rows M = cols M -> length b = rows M -> solve_lu M b = Ok x ->
  length x = rows M /\
  forall i, i < rows M -> mvprod (rows M) (ent M) (fun k => nth k x zero) i = nth i b zero.
Print Assumptions solve_lu_sound.

Theorem solve_lu_complete : forall (A : Arith), FieldLaws A -> LUPrim.PivLaws A -> forall (M : matrix A) (b : list A) (Nf : nat -> nat -> A),
  wf M -> rows M = cols M -> 1 <= rows M -> length b = rows M -> LUKernel.left_inverse (rows M) Nf (LUPrim.ent M) ->
  exists x, solve_lu M b = Ok x.
Proof. intros A FL PL M b Nf. exact (LUKernel.solve_lu_nonsingular_lemma FL PL M b Nf). Qed.
Check solve_lu_complete : forall (A : Arith), FieldLaws A -> LUPrim.PivLaws A -> forall (M : matrix A) (b : list A) (Nf : nat -> nat -> A),
  wf M -> rows M = cols M -> 1 <= rows M -> length b = rows M -> LUKernel.left_inverse (rows M) Nf (LUPrim.ent M) ->
  exists x, solve_lu M b = Ok x.
Print Assumptions solve_lu_complete.

Theorem solvers_agree : forall (A : Arith), FieldLaws A -> LUPrim.PivLaws A -> forall (M : matrix A) (b x y : list A),
  wf M -> rows M = cols M -> length b = rows M ->
  (exists N : nat -> nat -> A, left_inverse (rows M) N (ent M)) ->
  solve_basic M b = Ok x -> solve_lu M b = Ok y -> x = y.
Proof. intros A FL PL M b x y. exact (SolveAgree.solvers_agree_lemma FL PL M b x y). Qed.
Check solvers_agree : forall (A : Arith), FieldLaws A -> LUPrim.PivLaws A -> forall (M : matrix A) (b x y : list A),
  wf M -> rows M = cols M -> length b = rows M ->
  (exists N : nat -> nat -> A, left_inverse (rows M) N (ent M)) ->
  solve_basic M b = Ok x -> solve_lu M b = Ok y -> x = y.
Print Assumptions solvers_agree.
Example solvers_agree_nonvacuous : is_ok (solve_basic M3 b3) = true /\ is_ok (solve_lu M3 b3) = true /\ solve_basic M3 b3 = solve_lu M3 b3.
Proof. vm_compute. repeat split; reflexivity. Qed.

(* ---- tie to the source by proof (package r2c): the functions regenerated from /repo/src on this run by the Rust-subset ->
   Gallina translator (driver/rust2coq.py -> gen/Src*.v) are equal, for all arguments, to the hand-written model functions
   the theorems above are about (Proofs/SrcEq*.v).  A change of a loop bound, index, operator or statement order in the
   source breaks the corresponding src_<function> lemma and with it this obligation. *)
From OV Require Proofs.SrcEqSolve.
Theorem model_is_source_C01_Solve : forall A : Arith, @SrcEqSolve.model_is_source_Solve A.
Proof. intros A. exact SrcEqSolve.model_is_source_Solve_lemma. Qed.
Check model_is_source_C01_Solve : forall A : Arith, @SrcEqSolve.model_is_source_Solve A.
Print Assumptions model_is_source_C01_Solve.
(* ======================================================================================================
   C01 (dense direct solvers), rounding half -- package round.  Append to Props/C01.v.
   The TRIANGULAR half of the backward-error claim, in the STANDARD MODEL of floating-point arithmetic
   (Base/RoundModel.v; the same Gallina [backsolve] / [solve_lu] / [solve_basic] of Model/Solve.v at ARm), for every
   size n with n u < 1 (Higham, Accuracy and Stability of Numerical Algorithms, Theorem 8.5):
     backsolve:             (U + dU) x^ = b ,  |dU| <= gam n |U| ,  U = upper triangle of the matrix handed to backsolve
     forward substitution:  (L + dL) y^ = b ,  |dL| <= gam n |L| ,  L = unit lower triangle (the loop inside solve_lu)
     solve_lu / solve_basic: what they return went through exactly these solves with the COMPUTED factors.
   and (third block below) the FACTORISATION and the solver as a whole, Higham Theorems 9.3 and 9.4:
     lu_decomp:  L^ U^ = P A + dA,  |dA| <= gam n |L^||U^|;     solve_lu:  (A + dA) x^ = b + db,
     |dA| <= (3 gam n + gam n^2) P^T |L^||U^|,  |db| <= gam n |b|   (in IEEE arithmetic P b is exact; the pure standard
     model charges its rounding to b), L^, U^, P the COMPUTED factors and permutation, pivots nonzero.
   NOT COVERED (stated, not proved): the comparison of |L^||U^| with |A| -- that, and only that, is where the growth
   factor of Gaussian elimination with partial pivoting enters (Higham sec. 9.3-9.4); runs of solve_basic in which a
   pivot search meets an all-zero column (the known quirk of max_abs_in_column: its index starts at row 0); that IEEE
   binary64 obeys the standard model absent underflow/overflow is re-proved for the two triangular solves (second
   block), dot and multiply (Props/C15.v, Props/C03.v), not for the factorisation.
   ====================================================================================================== *)
From Coq Require Import Reals Lra Lia.
From OV Require Import Base.RoundModel Proofs.Matrix Proofs.LUSolve Proofs.RoundDot Proofs.RoundMatvec Proofs.RoundBacksolve
  Proofs.RoundSolve Proofs.RoundFlx Proofs.RoundExamples.

Theorem backsolve_backward_error : forall (u : R), (0 <= u < 1)%R ->
  forall (fadd fsub fmul fdiv : R -> R -> R),
  (forall x y : R, exists d : R, (Rabs d <= u)%R /\ fsub x y = ((x - y) * (1 + d))%R) ->
  (forall x y : R, exists d : R, (Rabs d <= u)%R /\ fmul x y = (x * y * (1 + d))%R) ->
  (forall x y : R, y <> 0%R -> exists d : R, (Rabs d <= u)%R /\ fdiv x y = (x / y * (1 + d))%R) ->
  forall (m : matrix (ARm fadd fsub fmul fdiv)) (b x : list R),
  Proofs.Matrix.wf m -> rows m = cols m -> length b = rows m -> (INR (rows m) * u < 1)%R ->
  (forall k, (k < rows m)%nat -> rentry fadd fsub fmul fdiv m k k <> 0%R) ->
  backsolve m b = Ok x ->
  length x = rows m /\
  exists dU : nat -> nat -> R,
    (forall i j, (i < rows m)%nat -> (j < rows m)%nat ->
       (Rabs (dU i j) <= gam u (rows m) * Rabs (triu fadd fsub fmul fdiv m i j))%R) /\
    forall i, (i < rows m)%nat ->
      Rsum (rows m) (fun j => ((triu fadd fsub fmul fdiv m i j + dU i j) * nth j x 0)%R) = nth i b 0%R.
Proof. intros u Hu fadd fsub fmul fdiv Hs Hm Hd m b x. exact (backsolve_backward_error_lemma u Hu fadd fsub fmul fdiv Hs Hm Hd m b x). Qed.
Check backsolve_backward_error : forall (u : R), (0 <= u < 1)%R ->
  forall (fadd fsub fmul fdiv : R -> R -> R),
  (forall x y : R, exists d : R, (Rabs d <= u)%R /\ fsub x y = ((x - y) * (1 + d))%R) ->
  (forall x y : R, exists d : R, (Rabs d <= u)%R /\ fmul x y = (x * y * (1 + d))%R) ->
  (forall x y : R, y <> 0%R -> exists d : R, (Rabs d <= u)%R /\ fdiv x y = (x / y * (1 + d))%R) ->
  forall (m : matrix (ARm fadd fsub fmul fdiv)) (b x : list R),
  Proofs.Matrix.wf m -> rows m = cols m -> length b = rows m -> (INR (rows m) * u < 1)%R ->
  (forall k, (k < rows m)%nat -> rentry fadd fsub fmul fdiv m k k <> 0%R) ->
  backsolve m b = Ok x ->
  length x = rows m /\
  exists dU : nat -> nat -> R,
    (forall i j, (i < rows m)%nat -> (j < rows m)%nat ->
       (Rabs (dU i j) <= gam u (rows m) * Rabs (triu fadd fsub fmul fdiv m i j))%R) /\
    forall i, (i < rows m)%nat ->
      Rsum (rows m) (fun j => ((triu fadd fsub fmul fdiv m i j + dU i j) * nth j x 0)%R) = nth i b 0%R.
Print Assumptions backsolve_backward_error.
(* [[2,1],[0,3]] x = [1,1] in the arithmetic that rounds every operation to 53 bits (1/3 is not representable) *)
Example backsolve_backward_error_nonvacuous :
  (0 <= ux < 1)%R /\
  (forall x y : R, exists d : R, (Rabs d <= ux)%R /\ xsub x y = ((x - y) * (1 + d))%R) /\
  (forall x y : R, exists d : R, (Rabs d <= ux)%R /\ xmul x y = (x * y * (1 + d))%R) /\
  (forall x y : R, y <> 0%R -> exists d : R, (Rabs d <= ux)%R /\ xdiv x y = (x / y * (1 + d))%R) /\
  Proofs.Matrix.wf ex_m2 /\ rows ex_m2 = cols ex_m2 /\ length ex_b2 = rows ex_m2 /\ (INR (rows ex_m2) * ux < 1)%R /\
  (forall k, (k < rows ex_m2)%nat -> rentry xadd xsub xmul xdiv ex_m2 k k <> 0%R) /\
  (exists x, backsolve ex_m2 ex_b2 = Ok x) /\ xdiv 1%R 3%R <> (1 / 3)%R.
Proof.
  split; [exact ux_range|]. split; [exact xsub_ok|]. split; [exact xmul_ok|]. split; [exact xdiv_ok|].
  split; [reflexivity|]. split; [reflexivity|]. split; [reflexivity|]. split; [exact ex_size2|].
  split; [intros [|[|k]] Hk; cbn in Hk; try lia; cbn; lra|]. split; [eexists; reflexivity|exact xdiv_inexact].
Qed.

(* the unit-lower forward substitution inside solve_lu ([fwd_loop] of Proofs/LUSolve.v is that loop, verbatim) *)
Theorem fwdsolve_backward_error : forall (u : R), (0 <= u < 1)%R ->
  forall (fadd fsub fmul fdiv : R -> R -> R),
  (forall x y : R, exists d : R, (Rabs d <= u)%R /\ fsub x y = ((x - y) * (1 + d))%R) ->
  (forall x y : R, exists d : R, (Rabs d <= u)%R /\ fmul x y = (x * y * (1 + d))%R) ->
  forall (m : matrix (ARm fadd fsub fmul fdiv)) (b y : list R),
  Proofs.Matrix.wf m -> rows m = cols m -> length b = rows m -> (INR (rows m) * u < 1)%R ->
  Proofs.LUSolve.fwd_loop (A := ARm fadd fsub fmul fdiv) m b = Ok y ->
  length y = rows m /\
  exists dL : nat -> nat -> R,
    (forall i j, (i < rows m)%nat -> (j < rows m)%nat ->
       (Rabs (dL i j) <= gam u (rows m) * Rabs (tril1 fadd fsub fmul fdiv m i j))%R) /\
    forall i, (i < rows m)%nat ->
      Rsum (rows m) (fun j => ((tril1 fadd fsub fmul fdiv m i j + dL i j) * nth j y 0)%R) = nth i b 0%R.
Proof. intros u Hu fadd fsub fmul fdiv Hs Hm m b y. exact (fwdsolve_backward_error_lemma u Hu fadd fsub fmul fdiv Hs Hm m b y). Qed.
Check fwdsolve_backward_error : forall (u : R), (0 <= u < 1)%R ->
  forall (fadd fsub fmul fdiv : R -> R -> R),
  (forall x y : R, exists d : R, (Rabs d <= u)%R /\ fsub x y = ((x - y) * (1 + d))%R) ->
  (forall x y : R, exists d : R, (Rabs d <= u)%R /\ fmul x y = (x * y * (1 + d))%R) ->
  forall (m : matrix (ARm fadd fsub fmul fdiv)) (b y : list R),
  Proofs.Matrix.wf m -> rows m = cols m -> length b = rows m -> (INR (rows m) * u < 1)%R ->
  Proofs.LUSolve.fwd_loop (A := ARm fadd fsub fmul fdiv) m b = Ok y ->
  length y = rows m /\
  exists dL : nat -> nat -> R,
    (forall i j, (i < rows m)%nat -> (j < rows m)%nat ->
       (Rabs (dL i j) <= gam u (rows m) * Rabs (tril1 fadd fsub fmul fdiv m i j))%R) /\
    forall i, (i < rows m)%nat ->
      Rsum (rows m) (fun j => ((tril1 fadd fsub fmul fdiv m i j + dL i j) * nth j y 0)%R) = nth i b 0%R.
Print Assumptions fwdsolve_backward_error.
Example fwdsolve_backward_error_nonvacuous :   (* unit lower triangle of [[1,0],[3,1]] *)
  let m := @mkM AFlx [1%R; 0%R; 3%R; 1%R] 2 2 in
  (0 <= ux < 1)%R /\ Proofs.Matrix.wf m /\ rows m = cols m /\ length ex_b2 = rows m /\ (INR (rows m) * ux < 1)%R /\
  exists y, Proofs.LUSolve.fwd_loop (A := AFlx) m ex_b2 = Ok y.
Proof.
  cbn zeta. split; [exact ux_range|]. split; [reflexivity|]. split; [reflexivity|]. split; [reflexivity|].
  split; [exact ex_size2|eexists; reflexivity].
Qed.

(* solve_lu: both triangular solves, with the computed factors *)
Theorem solve_lu_triangular_backward_error : forall (u : R), (0 <= u < 1)%R ->
  forall (fadd fsub fmul fdiv : R -> R -> R),
  (forall x y : R, exists d : R, (Rabs d <= u)%R /\ fsub x y = ((x - y) * (1 + d))%R) ->
  (forall x y : R, exists d : R, (Rabs d <= u)%R /\ fmul x y = (x * y * (1 + d))%R) ->
  (forall x y : R, y <> 0%R -> exists d : R, (Rabs d <= u)%R /\ fdiv x y = (x / y * (1 + d))%R) ->
  forall (m lu perm : matrix (ARm fadd fsub fmul fdiv)) (piv : nat) (b x : list R),
  Proofs.Matrix.wf m -> (INR (rows m) * u < 1)%R ->
  lu_decomp m = Ok (lu, piv, perm) ->
  (forall k, (k < rows m)%nat -> rentry fadd fsub fmul fdiv lu k k <> 0%R) ->
  solve_lu m b = Ok x ->
  length x = rows m /\
  exists (pb y : list R) (dL dU : nat -> nat -> R),
    multiply perm b = Ok pb /\ length y = rows m /\
    (forall i j, (i < rows m)%nat -> (j < rows m)%nat ->
       (Rabs (dL i j) <= gam u (rows m) * Rabs (tril1 fadd fsub fmul fdiv lu i j))%R) /\
    (forall i j, (i < rows m)%nat -> (j < rows m)%nat ->
       (Rabs (dU i j) <= gam u (rows m) * Rabs (triu fadd fsub fmul fdiv lu i j))%R) /\
    (forall i, (i < rows m)%nat ->
       Rsum (rows m) (fun j => ((tril1 fadd fsub fmul fdiv lu i j + dL i j) * nth j y 0)%R) = nth i pb 0%R) /\
    (forall i, (i < rows m)%nat ->
       Rsum (rows m) (fun j => ((triu fadd fsub fmul fdiv lu i j + dU i j) * nth j x 0)%R) = nth i y 0%R).
Proof. intros u Hu fadd fsub fmul fdiv Hs Hm Hd m lu perm piv b x. exact (solve_lu_triangular_backward_error_lemma u Hu fadd fsub fmul fdiv Hs Hm Hd m lu perm piv b x). Qed.
Check solve_lu_triangular_backward_error : forall (u : R), (0 <= u < 1)%R ->
  forall (fadd fsub fmul fdiv : R -> R -> R),
  (forall x y : R, exists d : R, (Rabs d <= u)%R /\ fsub x y = ((x - y) * (1 + d))%R) ->
  (forall x y : R, exists d : R, (Rabs d <= u)%R /\ fmul x y = (x * y * (1 + d))%R) ->
  (forall x y : R, y <> 0%R -> exists d : R, (Rabs d <= u)%R /\ fdiv x y = (x / y * (1 + d))%R) ->
  forall (m lu perm : matrix (ARm fadd fsub fmul fdiv)) (piv : nat) (b x : list R),
  Proofs.Matrix.wf m -> (INR (rows m) * u < 1)%R ->
  lu_decomp m = Ok (lu, piv, perm) ->
  (forall k, (k < rows m)%nat -> rentry fadd fsub fmul fdiv lu k k <> 0%R) ->
  solve_lu m b = Ok x ->
  length x = rows m /\
  exists (pb y : list R) (dL dU : nat -> nat -> R),
    multiply perm b = Ok pb /\ length y = rows m /\
    (forall i j, (i < rows m)%nat -> (j < rows m)%nat ->
       (Rabs (dL i j) <= gam u (rows m) * Rabs (tril1 fadd fsub fmul fdiv lu i j))%R) /\
    (forall i j, (i < rows m)%nat -> (j < rows m)%nat ->
       (Rabs (dU i j) <= gam u (rows m) * Rabs (triu fadd fsub fmul fdiv lu i j))%R) /\
    (forall i, (i < rows m)%nat ->
       Rsum (rows m) (fun j => ((tril1 fadd fsub fmul fdiv lu i j + dL i j) * nth j y 0)%R) = nth i pb 0%R) /\
    (forall i, (i < rows m)%nat ->
       Rsum (rows m) (fun j => ((triu fadd fsub fmul fdiv lu i j + dU i j) * nth j x 0)%R) = nth i y 0%R).
Print Assumptions solve_lu_triangular_backward_error.
(* lu_decomp of [[2,1],[0,3]] in the rounding arithmetic returns the factors ex_lu2 (nonzero diagonal), and solve_lu answers *)
Example solve_lu_triangular_backward_error_nonvacuous :
  (0 <= ux < 1)%R /\ Proofs.Matrix.wf ex_m2 /\ (INR (rows ex_m2) * ux < 1)%R /\
  lu_decomp ex_m2 = Ok (ex_lu2, 0%nat, ex_id2) /\
  (forall k, (k < rows ex_m2)%nat -> rentry xadd xsub xmul xdiv ex_lu2 k k <> 0%R) /\
  exists x, solve_lu ex_m2 ex_b2 = Ok x.
Proof.
  split; [exact ux_range|]. split; [reflexivity|]. split; [exact ex_size2|]. split; [exact ex_lu_decomp|].
  split; [exact ex_lu2_diag|exact ex_solve_lu].
Qed.

(* solve_basic: the back substitution, with the computed echelon form *)
Theorem solve_basic_triangular_backward_error : forall (u : R), (0 <= u < 1)%R ->
  forall (fadd fsub fmul fdiv : R -> R -> R),
  (forall x y : R, exists d : R, (Rabs d <= u)%R /\ fsub x y = ((x - y) * (1 + d))%R) ->
  (forall x y : R, exists d : R, (Rabs d <= u)%R /\ fmul x y = (x * y * (1 + d))%R) ->
  (forall x y : R, y <> 0%R -> exists d : R, (Rabs d <= u)%R /\ fdiv x y = (x / y * (1 + d))%R) ->
  forall (m m' : matrix (ARm fadd fsub fmul fdiv)) (b b' x : list R),
  Proofs.Matrix.wf m -> (INR (rows m) * u < 1)%R ->
  gauss_with_pivot m b = Ok (m', b') ->
  (forall k, (k < rows m)%nat -> rentry fadd fsub fmul fdiv m' k k <> 0%R) ->
  solve_basic m b = Ok x ->
  length x = rows m /\
  exists dU : nat -> nat -> R,
    (forall i j, (i < rows m)%nat -> (j < rows m)%nat ->
       (Rabs (dU i j) <= gam u (rows m) * Rabs (triu fadd fsub fmul fdiv m' i j))%R) /\
    (forall i, (i < rows m)%nat ->
       Rsum (rows m) (fun j => ((triu fadd fsub fmul fdiv m' i j + dU i j) * nth j x 0)%R) = nth i b' 0%R).
Proof. intros u Hu fadd fsub fmul fdiv Hs Hm Hd m m' b b' x. exact (solve_basic_triangular_backward_error_lemma u Hu fadd fsub fmul fdiv Hs Hm Hd m m' b b' x). Qed.
Check solve_basic_triangular_backward_error : forall (u : R), (0 <= u < 1)%R ->
  forall (fadd fsub fmul fdiv : R -> R -> R),
  (forall x y : R, exists d : R, (Rabs d <= u)%R /\ fsub x y = ((x - y) * (1 + d))%R) ->
  (forall x y : R, exists d : R, (Rabs d <= u)%R /\ fmul x y = (x * y * (1 + d))%R) ->
  (forall x y : R, y <> 0%R -> exists d : R, (Rabs d <= u)%R /\ fdiv x y = (x / y * (1 + d))%R) ->
  forall (m m' : matrix (ARm fadd fsub fmul fdiv)) (b b' x : list R),
  Proofs.Matrix.wf m -> (INR (rows m) * u < 1)%R ->
  gauss_with_pivot m b = Ok (m', b') ->
  (forall k, (k < rows m)%nat -> rentry fadd fsub fmul fdiv m' k k <> 0%R) ->
  solve_basic m b = Ok x ->
  length x = rows m /\
  exists dU : nat -> nat -> R,
    (forall i j, (i < rows m)%nat -> (j < rows m)%nat ->
       (Rabs (dU i j) <= gam u (rows m) * Rabs (triu fadd fsub fmul fdiv m' i j))%R) /\
    (forall i, (i < rows m)%nat ->
       Rsum (rows m) (fun j => ((triu fadd fsub fmul fdiv m' i j + dU i j) * nth j x 0)%R) = nth i b' 0%R).
Print Assumptions solve_basic_triangular_backward_error.
Example solve_basic_triangular_backward_error_nonvacuous :
  (0 <= ux < 1)%R /\ Proofs.Matrix.wf ex_m2 /\ (INR (rows ex_m2) * ux < 1)%R /\
  gauss_with_pivot ex_m2 ex_b2 = Ok (ex_g2, ex_gb2) /\
  (forall k, (k < rows ex_m2)%nat -> rentry xadd xsub xmul xdiv ex_g2 k k <> 0%R) /\
  exists x, solve_basic ex_m2 ex_b2 = Ok x.
Proof.
  split; [exact ux_range|]. split; [reflexivity|]. split; [exact ex_size2|]. split; [exact ex_gauss|].
  split; [exact ex_g2_diag|exact ex_solve_basic].
Qed.

(* ---- the same two solves at the PRIMITIVE-FLOAT instance (IEEE binary64, u = 2^-53), through Flocq ----
   No hypothesis about rounding remains.  The side conditions are about computable values: the answer is finite,
   the diagonal is nonzero, no product m_kj * x_j and no quotient racc/m_kk falls into the underflow range
   ([racc m b x k n] = ((b_k - m_{k,k+1} x_{k+1}) - ...) - m_{k,n-1} x_{n-1}, the accumulated value of row k as the
   code forms it: Proofs/RoundTrace.v proves  x_k = racc / m_kk  for backsolve over ANY arithmetic).
   Unproved remainder: subnormal products/quotients, overflow, and the factorisation (as above). *)
From Coq Require Import Floats.
From OV Require Import Inst.FloatInst Proofs.ComplexRound Proofs.RoundDotFloat Proofs.RoundTrace Proofs.RoundTriFloat.

Theorem backsolve_backward_error_float : forall (m : matrix AF) (b x : list PrimFloat.float),
  Proofs.Matrix.wf m -> rows m = cols m -> length b = rows m -> (INR (rows m) * u64 < 1)%R ->
  backsolve (A := AF) m b = Ok x ->
  (forall k, (k < rows m)%nat -> ffinite (nth k x 0%float) /\ fentry m k k <> 0%R) ->
  (forall k j, (k < j)%nat -> (j < rows m)%nat -> no_underflow (fentry m k j * FR (nth j x 0%float))%R) ->
  (forall k, (k < rows m)%nat -> no_underflow (FR (racc (A := AF) m b x k (rows m)) / fentry m k k)%R) ->
  length x = rows m /\
  exists dU : nat -> nat -> R,
    (forall i j, (i < rows m)%nat -> (j < rows m)%nat ->
       (Rabs (dU i j) <= g64 (rows m) * Rabs (triu Fadd Fsub Fmul Fdiv (mFR m) i j))%R) /\
    forall i, (i < rows m)%nat ->
      Rsum (rows m) (fun j => ((triu Fadd Fsub Fmul Fdiv (mFR m) i j + dU i j) * FR (nth j x 0%float))%R)
      = FR (nth i b 0%float).
Proof. exact backsolve_backward_error_float_lemma. Qed.
Check backsolve_backward_error_float : forall (m : matrix AF) (b x : list PrimFloat.float),
  Proofs.Matrix.wf m -> rows m = cols m -> length b = rows m -> (INR (rows m) * u64 < 1)%R ->
  backsolve (A := AF) m b = Ok x ->
  (forall k, (k < rows m)%nat -> ffinite (nth k x 0%float) /\ fentry m k k <> 0%R) ->
  (forall k j, (k < j)%nat -> (j < rows m)%nat -> no_underflow (fentry m k j * FR (nth j x 0%float))%R) ->
  (forall k, (k < rows m)%nat -> no_underflow (FR (racc (A := AF) m b x k (rows m)) / fentry m k k)%R) ->
  length x = rows m /\
  exists dU : nat -> nat -> R,
    (forall i j, (i < rows m)%nat -> (j < rows m)%nat ->
       (Rabs (dU i j) <= g64 (rows m) * Rabs (triu Fadd Fsub Fmul Fdiv (mFR m) i j))%R) /\
    forall i, (i < rows m)%nat ->
      Rsum (rows m) (fun j => ((triu Fadd Fsub Fmul Fdiv (mFR m) i j + dU i j) * FR (nth j x 0%float))%R)
      = FR (nth i b 0%float).
Print Assumptions backsolve_backward_error_float.
(* [[2,1],[0,3]] x = [1,1] in binary64: x_1 = fl(1/3) and x_0 = fl(fl(1 - fl(1/3))/2) are inexact *)
Example backsolve_backward_error_float_nonvacuous :
  Proofs.Matrix.wf exf_m /\ rows exf_m = cols exf_m /\ length exf_b = rows exf_m /\ (INR (rows exf_m) * u64 < 1)%R /\
  backsolve (A := AF) exf_m exf_b = Ok exf_x /\
  (forall k, (k < rows exf_m)%nat -> ffinite (nth k exf_x 0%float) /\ fentry exf_m k k <> 0%R) /\
  (forall k j, (k < j)%nat -> (j < rows exf_m)%nat -> no_underflow (fentry exf_m k j * FR (nth j exf_x 0%float))%R) /\
  (forall k, (k < rows exf_m)%nat ->
     no_underflow (FR (racc (A := AF) exf_m exf_b exf_x k (rows exf_m)) / fentry exf_m k k)%R).
Proof.
  split; [reflexivity|]. split; [reflexivity|]. split; [reflexivity|].
  split; [cbn [exf_m rows INR]; pose proof u64_small; lra|]. split; [exact exf_backsolve|exact exf_conditions].
Qed.

Theorem fwdsolve_backward_error_float : forall (m : matrix AF) (b y : list PrimFloat.float),
  Proofs.Matrix.wf m -> rows m = cols m -> length b = rows m -> (INR (rows m) * u64 < 1)%R ->
  Proofs.LUSolve.fwd_loop (A := AF) m b = Ok y ->
  (forall i, (i < rows m)%nat -> ffinite (nth i y 0%float)) ->
  (forall i j, (j < i)%nat -> (i < rows m)%nat -> no_underflow (fentry m i j * FR (nth j y 0%float))%R) ->
  length y = rows m /\
  exists dL : nat -> nat -> R,
    (forall i j, (i < rows m)%nat -> (j < rows m)%nat ->
       (Rabs (dL i j) <= g64 (rows m) * Rabs (tril1 Fadd Fsub Fmul Fdiv (mFR m) i j))%R) /\
    forall i, (i < rows m)%nat ->
      Rsum (rows m) (fun j => ((tril1 Fadd Fsub Fmul Fdiv (mFR m) i j + dL i j) * FR (nth j y 0%float))%R)
      = FR (nth i b 0%float).
Proof. exact fwdsolve_backward_error_float_lemma. Qed.
Check fwdsolve_backward_error_float : forall (m : matrix AF) (b y : list PrimFloat.float),
  Proofs.Matrix.wf m -> rows m = cols m -> length b = rows m -> (INR (rows m) * u64 < 1)%R ->
  Proofs.LUSolve.fwd_loop (A := AF) m b = Ok y ->
  (forall i, (i < rows m)%nat -> ffinite (nth i y 0%float)) ->
  (forall i j, (j < i)%nat -> (i < rows m)%nat -> no_underflow (fentry m i j * FR (nth j y 0%float))%R) ->
  length y = rows m /\
  exists dL : nat -> nat -> R,
    (forall i j, (i < rows m)%nat -> (j < rows m)%nat ->
       (Rabs (dL i j) <= g64 (rows m) * Rabs (tril1 Fadd Fsub Fmul Fdiv (mFR m) i j))%R) /\
    forall i, (i < rows m)%nat ->
      Rsum (rows m) (fun j => ((tril1 Fadd Fsub Fmul Fdiv (mFR m) i j + dL i j) * FR (nth j y 0%float))%R)
      = FR (nth i b 0%float).
Print Assumptions fwdsolve_backward_error_float.
(* unit lower triangle of [[1,0],[0x1.999999999999ap-4,1]] (the double nearest 0.1): y_1 = fl(1 - 0.1) is inexact *)
Example fwdsolve_backward_error_float_nonvacuous :
  let m := @mkM AF [1%float; 0%float; 0x1.999999999999ap-4%float; 1%float] 2 2 in
  let b := [1%float; 1%float] in
  Proofs.Matrix.wf m /\ rows m = cols m /\ length b = rows m /\ (INR (rows m) * u64 < 1)%R /\
  exists y, Proofs.LUSolve.fwd_loop (A := AF) m b = Ok y /\
    (forall i, (i < rows m)%nat -> ffinite (nth i y 0%float)) /\
    (forall i j, (j < i)%nat -> (i < rows m)%nat -> no_underflow (fentry m i j * FR (nth j y 0%float))%R).
Proof.
  cbn zeta. split; [reflexivity|]. split; [reflexivity|]. split; [reflexivity|].
  split; [cbn [rows INR]; pose proof u64_small; lra|].
  exists [1%float; (1 - 0x1.999999999999ap-4 * 1)%float]. split; [vm_compute; reflexivity|]. split.
  - intros [|[|i]] Hi; cbn in Hi; try lia; apply ffinite_SF; reflexivity.
  - intros [|[|i]] [|j] Hji Hi; cbn in Hi; try lia.
    unfold fentry; cbn [nth buf cols Nat.mul Nat.add].
    assert (E1 : FR 1%float = 1%R) by fr_eval.
    assert (Ea : (/ 16 <= FR 0x1.999999999999ap-4%float)%R) by fr_eval.
    rewrite E1. apply no_underflow_ge_small. rewrite Rabs_pos_eq; lra.
Qed.

(* ---- the factorisation and the solver as a whole (Higham Theorems 9.3, 9.4), standard model ---- *)
From OV Require Import Proofs.RoundLUFun Proofs.RoundLUTrace Proofs.RoundLUError Proofs.RoundSolveLU.

Theorem lu_factor_backward_error : forall (u : R), (0 <= u < 1)%R ->
  forall (fadd fsub fmul fdiv : R -> R -> R),
  (forall x y : R, exists d : R, (Rabs d <= u)%R /\ fsub x y = ((x - y) * (1 + d))%R) ->
  (forall x y : R, exists d : R, (Rabs d <= u)%R /\ fmul x y = (x * y * (1 + d))%R) ->
  (forall x y : R, y <> 0%R -> exists d : R, (Rabs d <= u)%R /\ fdiv x y = (x / y * (1 + d))%R) ->
  forall (m lu perm : matrix (ARm fadd fsub fmul fdiv)) (piv : nat),
  Proofs.Matrix.wf m -> (INR (rows m) * u < 1)%R -> lu_decomp m = Ok (lu, piv, perm) ->
  (forall k, (k < rows m)%nat -> rentry fadd fsub fmul fdiv lu k k <> 0%R) ->
  Proofs.LUPrim.shape lu (rows m) (rows m) /\ Proofs.LUPrim.shape perm (rows m) (rows m) /\
  exists tau : nat -> nat, PermOK fadd fsub fmul fdiv (rows m) tau perm /\
    forall i c, (i < rows m)%nat -> (c < rows m)%nat ->
      exists th : nat -> R, (forall k, (k < rows m)%nat -> (Rabs (th k) <= gam u (rows m))%R) /\
        rentry fadd fsub fmul fdiv m (tau i) c
        = Rsum (rows m) (fun k => (tril1 fadd fsub fmul fdiv lu i k * triu fadd fsub fmul fdiv lu k c * (1 + th k))%R).
Proof. intros u Hu fadd fsub fmul fdiv Hs Hm Hd m lu perm piv. exact (lu_factor_backward_error_lemma u Hu fadd fsub fmul fdiv Hs Hm Hd m lu perm piv). Qed.
Check lu_factor_backward_error : forall (u : R), (0 <= u < 1)%R ->
  forall (fadd fsub fmul fdiv : R -> R -> R),
  (forall x y : R, exists d : R, (Rabs d <= u)%R /\ fsub x y = ((x - y) * (1 + d))%R) ->
  (forall x y : R, exists d : R, (Rabs d <= u)%R /\ fmul x y = (x * y * (1 + d))%R) ->
  (forall x y : R, y <> 0%R -> exists d : R, (Rabs d <= u)%R /\ fdiv x y = (x / y * (1 + d))%R) ->
  forall (m lu perm : matrix (ARm fadd fsub fmul fdiv)) (piv : nat),
  Proofs.Matrix.wf m -> (INR (rows m) * u < 1)%R -> lu_decomp m = Ok (lu, piv, perm) ->
  (forall k, (k < rows m)%nat -> rentry fadd fsub fmul fdiv lu k k <> 0%R) ->
  Proofs.LUPrim.shape lu (rows m) (rows m) /\ Proofs.LUPrim.shape perm (rows m) (rows m) /\
  exists tau : nat -> nat, PermOK fadd fsub fmul fdiv (rows m) tau perm /\
    forall i c, (i < rows m)%nat -> (c < rows m)%nat ->
      exists th : nat -> R, (forall k, (k < rows m)%nat -> (Rabs (th k) <= gam u (rows m))%R) /\
        rentry fadd fsub fmul fdiv m (tau i) c
        = Rsum (rows m) (fun k => (tril1 fadd fsub fmul fdiv lu i k * triu fadd fsub fmul fdiv lu k c * (1 + th k))%R).
Print Assumptions lu_factor_backward_error.
Example lu_factor_backward_error_nonvacuous :   (* the factors of [[2,1],[0,3]] in the rounding arithmetic have a nonzero diagonal *)
  (0 <= ux < 1)%R /\ Proofs.Matrix.wf ex_m2 /\ (INR (rows ex_m2) * ux < 1)%R /\
  lu_decomp ex_m2 = Ok (ex_lu2, 0%nat, ex_id2) /\
  (forall k, (k < rows ex_m2)%nat -> rentry xadd xsub xmul xdiv ex_lu2 k k <> 0%R).
Proof.
  split; [exact ux_range|]. split; [reflexivity|]. split; [exact ex_size2|]. split; [exact ex_lu_decomp|exact ex_lu2_diag].
Qed.

Theorem solve_lu_backward_error : forall (u : R), (0 <= u < 1)%R ->
  forall (fadd fsub fmul fdiv : R -> R -> R),
  (forall x y : R, exists d : R, (Rabs d <= u)%R /\ fadd x y = ((x + y) * (1 + d))%R) ->
  (forall x y : R, exists d : R, (Rabs d <= u)%R /\ fsub x y = ((x - y) * (1 + d))%R) ->
  (forall x y : R, exists d : R, (Rabs d <= u)%R /\ fmul x y = (x * y * (1 + d))%R) ->
  (forall x y : R, y <> 0%R -> exists d : R, (Rabs d <= u)%R /\ fdiv x y = (x / y * (1 + d))%R) ->
  (forall a b : R, fadd 0%R (fmul a b) = fmul a b) ->
  forall (m lu perm : matrix (ARm fadd fsub fmul fdiv)) (piv : nat) (b x : list R),
  Proofs.Matrix.wf m -> (INR (rows m) * u < 1)%R ->
  lu_decomp m = Ok (lu, piv, perm) ->
  (forall k, (k < rows m)%nat -> rentry fadd fsub fmul fdiv lu k k <> 0%R) ->
  solve_lu m b = Ok x ->
  length x = rows m /\
  exists tau : nat -> nat,
    (forall r, (r < rows m)%nat -> (tau r < rows m)%nat) /\
    (forall r r', (r < rows m)%nat -> (r' < rows m)%nat -> tau r = tau r' -> r = r') /\
    exists (dA : nat -> nat -> R) (db : nat -> R),
      (forall i c, (i < rows m)%nat -> (c < rows m)%nat ->
         (Rabs (dA i c) <= (3 * gam u (rows m) + gam u (rows m) * gam u (rows m))
                           * Rsum (rows m) (fun k => Rabs (tril1 fadd fsub fmul fdiv lu i k)
                                                     * Rabs (triu fadd fsub fmul fdiv lu k c)))%R) /\
      (forall i, (i < rows m)%nat -> (Rabs (db i) <= gam u (rows m) * Rabs (nth (tau i) b 0))%R) /\
      (forall i, (i < rows m)%nat ->
         Rsum (rows m) (fun c => ((rentry fadd fsub fmul fdiv m (tau i) c + dA i c) * nth c x 0)%R)
         = (nth (tau i) b 0 + db i)%R).
Proof. intros u Hu fadd fsub fmul fdiv Ha Hs Hm Hd H0 m lu perm piv b x. exact (solve_lu_backward_error_lemma u Hu fadd fsub fmul fdiv Ha Hs Hm Hd H0 m lu perm piv b x). Qed.
Check solve_lu_backward_error : forall (u : R), (0 <= u < 1)%R ->
  forall (fadd fsub fmul fdiv : R -> R -> R),
  (forall x y : R, exists d : R, (Rabs d <= u)%R /\ fadd x y = ((x + y) * (1 + d))%R) ->
  (forall x y : R, exists d : R, (Rabs d <= u)%R /\ fsub x y = ((x - y) * (1 + d))%R) ->
  (forall x y : R, exists d : R, (Rabs d <= u)%R /\ fmul x y = (x * y * (1 + d))%R) ->
  (forall x y : R, y <> 0%R -> exists d : R, (Rabs d <= u)%R /\ fdiv x y = (x / y * (1 + d))%R) ->
  (forall a b : R, fadd 0%R (fmul a b) = fmul a b) ->
  forall (m lu perm : matrix (ARm fadd fsub fmul fdiv)) (piv : nat) (b x : list R),
  Proofs.Matrix.wf m -> (INR (rows m) * u < 1)%R ->
  lu_decomp m = Ok (lu, piv, perm) ->
  (forall k, (k < rows m)%nat -> rentry fadd fsub fmul fdiv lu k k <> 0%R) ->
  solve_lu m b = Ok x ->
  length x = rows m /\
  exists tau : nat -> nat,
    (forall r, (r < rows m)%nat -> (tau r < rows m)%nat) /\
    (forall r r', (r < rows m)%nat -> (r' < rows m)%nat -> tau r = tau r' -> r = r') /\
    exists (dA : nat -> nat -> R) (db : nat -> R),
      (forall i c, (i < rows m)%nat -> (c < rows m)%nat ->
         (Rabs (dA i c) <= (3 * gam u (rows m) + gam u (rows m) * gam u (rows m))
                           * Rsum (rows m) (fun k => Rabs (tril1 fadd fsub fmul fdiv lu i k)
                                                     * Rabs (triu fadd fsub fmul fdiv lu k c)))%R) /\
      (forall i, (i < rows m)%nat -> (Rabs (db i) <= gam u (rows m) * Rabs (nth (tau i) b 0))%R) /\
      (forall i, (i < rows m)%nat ->
         Rsum (rows m) (fun c => ((rentry fadd fsub fmul fdiv m (tau i) c + dA i c) * nth c x 0)%R)
         = (nth (tau i) b 0 + db i)%R).
Print Assumptions solve_lu_backward_error.
Example solve_lu_backward_error_nonvacuous :   (* every operation of the example arithmetic rounds; solve_lu answers on [[2,1],[0,3]] x = [1,1] *)
  (0 <= ux < 1)%R /\
  (forall x y : R, exists d : R, (Rabs d <= ux)%R /\ xadd x y = ((x + y) * (1 + d))%R) /\
  (forall x y : R, exists d : R, (Rabs d <= ux)%R /\ xsub x y = ((x - y) * (1 + d))%R) /\
  (forall x y : R, exists d : R, (Rabs d <= ux)%R /\ xmul x y = (x * y * (1 + d))%R) /\
  (forall x y : R, y <> 0%R -> exists d : R, (Rabs d <= ux)%R /\ xdiv x y = (x / y * (1 + d))%R) /\
  (forall a b : R, xadd 0%R (xmul a b) = xmul a b) /\
  Proofs.Matrix.wf ex_m2 /\ (INR (rows ex_m2) * ux < 1)%R /\
  lu_decomp ex_m2 = Ok (ex_lu2, 0%nat, ex_id2) /\
  (forall k, (k < rows ex_m2)%nat -> rentry xadd xsub xmul xdiv ex_lu2 k k <> 0%R) /\
  exists x, solve_lu ex_m2 ex_b2 = Ok x.
Proof.
  split; [exact ux_range|]. split; [exact xadd_ok|]. split; [exact xsub_ok|]. split; [exact xmul_ok|].
  split; [exact xdiv_ok|]. split; [exact xadd_0_mul|]. split; [reflexivity|]. split; [exact ex_size2|].
  split; [exact ex_lu_decomp|]. split; [exact ex_lu2_diag|exact ex_solve_lu].
Qed.

(* the same with Higham's constant gam (3n)  (3 gam n + gam n^2 <= gam (3n), Lemma 3.3), for 3 n u < 1 *)
Theorem solve_lu_backward_error_gam3n : forall (u : R), (0 <= u < 1)%R ->
  forall (fadd fsub fmul fdiv : R -> R -> R),
  (forall x y : R, exists d : R, (Rabs d <= u)%R /\ fadd x y = ((x + y) * (1 + d))%R) ->
  (forall x y : R, exists d : R, (Rabs d <= u)%R /\ fsub x y = ((x - y) * (1 + d))%R) ->
  (forall x y : R, exists d : R, (Rabs d <= u)%R /\ fmul x y = (x * y * (1 + d))%R) ->
  (forall x y : R, y <> 0%R -> exists d : R, (Rabs d <= u)%R /\ fdiv x y = (x / y * (1 + d))%R) ->
  (forall a b : R, fadd 0%R (fmul a b) = fmul a b) ->
  forall (m lu perm : matrix (ARm fadd fsub fmul fdiv)) (piv : nat) (b x : list R),
  Proofs.Matrix.wf m -> (INR (3 * rows m) * u < 1)%R ->
  lu_decomp m = Ok (lu, piv, perm) ->
  (forall k, (k < rows m)%nat -> rentry fadd fsub fmul fdiv lu k k <> 0%R) ->
  solve_lu m b = Ok x ->
  length x = rows m /\
  exists tau : nat -> nat,
    (forall r, (r < rows m)%nat -> (tau r < rows m)%nat) /\
    (forall r r', (r < rows m)%nat -> (r' < rows m)%nat -> tau r = tau r' -> r = r') /\
    exists (dA : nat -> nat -> R) (db : nat -> R),
      (forall i c, (i < rows m)%nat -> (c < rows m)%nat ->
         (Rabs (dA i c) <= gam u (3 * rows m)
                           * Rsum (rows m) (fun k => Rabs (tril1 fadd fsub fmul fdiv lu i k)
                                                     * Rabs (triu fadd fsub fmul fdiv lu k c)))%R) /\
      (forall i, (i < rows m)%nat -> (Rabs (db i) <= gam u (rows m) * Rabs (nth (tau i) b 0))%R) /\
      (forall i, (i < rows m)%nat ->
         Rsum (rows m) (fun c => ((rentry fadd fsub fmul fdiv m (tau i) c + dA i c) * nth c x 0)%R)
         = (nth (tau i) b 0 + db i)%R).
Proof. intros u Hu fadd fsub fmul fdiv Ha Hs Hm Hd H0 m lu perm piv b x. exact (solve_lu_backward_error_gam3n_lemma u Hu fadd fsub fmul fdiv Ha Hs Hm Hd H0 m lu perm piv b x). Qed.
Check solve_lu_backward_error_gam3n : forall (u : R), (0 <= u < 1)%R ->
  forall (fadd fsub fmul fdiv : R -> R -> R),
  (forall x y : R, exists d : R, (Rabs d <= u)%R /\ fadd x y = ((x + y) * (1 + d))%R) ->
  (forall x y : R, exists d : R, (Rabs d <= u)%R /\ fsub x y = ((x - y) * (1 + d))%R) ->
  (forall x y : R, exists d : R, (Rabs d <= u)%R /\ fmul x y = (x * y * (1 + d))%R) ->
  (forall x y : R, y <> 0%R -> exists d : R, (Rabs d <= u)%R /\ fdiv x y = (x / y * (1 + d))%R) ->
  (forall a b : R, fadd 0%R (fmul a b) = fmul a b) ->
  forall (m lu perm : matrix (ARm fadd fsub fmul fdiv)) (piv : nat) (b x : list R),
  Proofs.Matrix.wf m -> (INR (3 * rows m) * u < 1)%R ->
  lu_decomp m = Ok (lu, piv, perm) ->
  (forall k, (k < rows m)%nat -> rentry fadd fsub fmul fdiv lu k k <> 0%R) ->
  solve_lu m b = Ok x ->
  length x = rows m /\
  exists tau : nat -> nat,
    (forall r, (r < rows m)%nat -> (tau r < rows m)%nat) /\
    (forall r r', (r < rows m)%nat -> (r' < rows m)%nat -> tau r = tau r' -> r = r') /\
    exists (dA : nat -> nat -> R) (db : nat -> R),
      (forall i c, (i < rows m)%nat -> (c < rows m)%nat ->
         (Rabs (dA i c) <= gam u (3 * rows m)
                           * Rsum (rows m) (fun k => Rabs (tril1 fadd fsub fmul fdiv lu i k)
                                                     * Rabs (triu fadd fsub fmul fdiv lu k c)))%R) /\
      (forall i, (i < rows m)%nat -> (Rabs (db i) <= gam u (rows m) * Rabs (nth (tau i) b 0))%R) /\
      (forall i, (i < rows m)%nat ->
         Rsum (rows m) (fun c => ((rentry fadd fsub fmul fdiv m (tau i) c + dA i c) * nth c x 0)%R)
         = (nth (tau i) b 0 + db i)%R).
Print Assumptions solve_lu_backward_error_gam3n.
Example solve_lu_backward_error_gam3n_nonvacuous :   (* the instance of solve_lu_backward_error_nonvacuous; 6 u < 1 *)
  (0 <= ux < 1)%R /\ Proofs.Matrix.wf ex_m2 /\ (INR (3 * rows ex_m2) * ux < 1)%R /\
  lu_decomp ex_m2 = Ok (ex_lu2, 0%nat, ex_id2) /\
  (forall k, (k < rows ex_m2)%nat -> rentry xadd xsub xmul xdiv ex_lu2 k k <> 0%R) /\
  exists x, solve_lu ex_m2 ex_b2 = Ok x.
Proof.
  split; [exact ux_range|]. split; [reflexivity|]. split; [cbn; pose proof ux_small; lra|].
  split; [exact ex_lu_decomp|]. split; [exact ex_lu2_diag|exact ex_solve_lu].
Qed.

(* ---- solve_basic as a whole (Higham Theorem 9.4 for elimination on the augmented system), standard model ----
   (A + dA) x^ = b EXACTLY in b; L^ = the multipliers the elimination used (not stored by the code, hence existential;
   |l_ik| <= 1 + u by partial pivoting), U^ = the computed echelon form; g = gam (n+1).  The first alternative of the conclusion is the run in which a pivot
   search met an all-zero column ([BadRun]: a prefix of the run and the zero column are exhibited). *)
From OV Require Import Proofs.RoundGaussTrace Proofs.RoundSolveBasic Proofs.RoundExamples3.

Theorem solve_basic_backward_error : forall (u : R), (0 <= u < 1)%R ->
  forall (fadd fsub fmul fdiv : R -> R -> R),
  (forall x y : R, exists d : R, (Rabs d <= u)%R /\ fsub x y = ((x - y) * (1 + d))%R) ->
  (forall x y : R, exists d : R, (Rabs d <= u)%R /\ fmul x y = (x * y * (1 + d))%R) ->
  (forall x y : R, y <> 0%R -> exists d : R, (Rabs d <= u)%R /\ fdiv x y = (x / y * (1 + d))%R) ->
  forall (m m' : matrix (ARm fadd fsub fmul fdiv)) (b b' x : list R),
  Proofs.Matrix.wf m -> (INR (S (rows m)) * u < 1)%R ->
  gauss_with_pivot m b = Ok (m', b') ->
  (forall k, (k < rows m)%nat -> rentry fadd fsub fmul fdiv m' k k <> 0%R) ->
  solve_basic m b = Ok x ->
  length x = rows m /\
  (BadRun fadd fsub fmul fdiv m b (rows m) (rows m - 1) \/
   exists (tau : nat -> nat) (L : nat -> nat -> R),
     (forall r, (r < rows m)%nat -> (tau r < rows m)%nat) /\
     (forall r r', (r < rows m)%nat -> (r' < rows m)%nat -> tau r = tau r' -> r = r') /\
     (forall i, L i i = 1%R) /\ (forall i k, (i < k)%nat -> L i k = 0%R) /\
     (forall i k, (k < i)%nat -> (i < rows m)%nat -> (Rabs (L i k) <= 1 + u)%R) /\
     exists dA : nat -> nat -> R,
       (forall i c, (i < rows m)%nat -> (c < rows m)%nat ->
          (Rabs (dA i c) <= (3 * gam u (S (rows m)) + gam u (S (rows m)) * gam u (S (rows m)))
                            * Rsum (rows m) (fun k => Rabs (L i k) * Rabs (triu fadd fsub fmul fdiv m' k c)))%R) /\
       (forall i, (i < rows m)%nat ->
          Rsum (rows m) (fun c => ((rentry fadd fsub fmul fdiv m (tau i) c + dA i c) * nth c x 0)%R)
          = nth (tau i) b 0%R)).
Proof. intros u Hu fadd fsub fmul fdiv Hs Hm Hd m m' b b' x. exact (solve_basic_backward_error_lemma u Hu fadd fsub fmul fdiv Hs Hm Hd m m' b b' x). Qed.
Check solve_basic_backward_error : forall (u : R), (0 <= u < 1)%R ->
  forall (fadd fsub fmul fdiv : R -> R -> R),
  (forall x y : R, exists d : R, (Rabs d <= u)%R /\ fsub x y = ((x - y) * (1 + d))%R) ->
  (forall x y : R, exists d : R, (Rabs d <= u)%R /\ fmul x y = (x * y * (1 + d))%R) ->
  (forall x y : R, y <> 0%R -> exists d : R, (Rabs d <= u)%R /\ fdiv x y = (x / y * (1 + d))%R) ->
  forall (m m' : matrix (ARm fadd fsub fmul fdiv)) (b b' x : list R),
  Proofs.Matrix.wf m -> (INR (S (rows m)) * u < 1)%R ->
  gauss_with_pivot m b = Ok (m', b') ->
  (forall k, (k < rows m)%nat -> rentry fadd fsub fmul fdiv m' k k <> 0%R) ->
  solve_basic m b = Ok x ->
  length x = rows m /\
  (BadRun fadd fsub fmul fdiv m b (rows m) (rows m - 1) \/
   exists (tau : nat -> nat) (L : nat -> nat -> R),
     (forall r, (r < rows m)%nat -> (tau r < rows m)%nat) /\
     (forall r r', (r < rows m)%nat -> (r' < rows m)%nat -> tau r = tau r' -> r = r') /\
     (forall i, L i i = 1%R) /\ (forall i k, (i < k)%nat -> L i k = 0%R) /\
     (forall i k, (k < i)%nat -> (i < rows m)%nat -> (Rabs (L i k) <= 1 + u)%R) /\
     exists dA : nat -> nat -> R,
       (forall i c, (i < rows m)%nat -> (c < rows m)%nat ->
          (Rabs (dA i c) <= (3 * gam u (S (rows m)) + gam u (S (rows m)) * gam u (S (rows m)))
                            * Rsum (rows m) (fun k => Rabs (L i k) * Rabs (triu fadd fsub fmul fdiv m' k c)))%R) /\
       (forall i, (i < rows m)%nat ->
          Rsum (rows m) (fun c => ((rentry fadd fsub fmul fdiv m (tau i) c + dA i c) * nth c x 0)%R)
          = nth (tau i) b 0%R)).
Print Assumptions solve_basic_backward_error.
(* [[2,1],[0,3]] x = [1,1] in the arithmetic that rounds every operation: the run is not the excluded one *)
Example solve_basic_backward_error_nonvacuous :
  (0 <= ux < 1)%R /\ Proofs.Matrix.wf ex_m2 /\ (INR (S (rows ex_m2)) * ux < 1)%R /\
  gauss_with_pivot ex_m2 ex_b2 = Ok (ex_g2, ex_gb2) /\
  (forall k, (k < rows ex_m2)%nat -> rentry xadd xsub xmul xdiv ex_g2 k k <> 0%R) /\
  (exists x, solve_basic ex_m2 ex_b2 = Ok x) /\
  ~ BadRun xadd xsub xmul xdiv ex_m2 ex_b2 (rows ex_m2) (rows ex_m2 - 1).
Proof.
  split; [exact ux_range|]. split; [reflexivity|]. split; [exact ex_size3|]. split; [exact ex_gauss|].
  split; [exact ex_g2_diag|]. split; [exact ex_solve_basic|exact ex_no_badrun].
Qed.

(* ---- partial pivoting keeps the computed multipliers small: |l_ik| <= 1 + u, hence (|L^||U^|)_ic <= (1+u) Sum_k |u_kc| ----
   (needs the standard-model hypothesis for the division only; the pivot search compares exactly).  With it the bound of
   solve_lu_backward_error reads in terms of U^ alone; how large U^ is compared with A is the growth factor: not estimated. *)
From OV Require Import Proofs.RoundLUMult.

Theorem lu_multipliers_bounded : forall (u : R), (0 <= u < 1)%R ->
  forall (fadd fsub fmul fdiv : R -> R -> R),
  (forall x y : R, y <> 0%R -> exists d : R, (Rabs d <= u)%R /\ fdiv x y = (x / y * (1 + d))%R) ->
  forall (m lu perm : matrix (ARm fadd fsub fmul fdiv)) (piv : nat),
  Proofs.Matrix.wf m -> lu_decomp m = Ok (lu, piv, perm) ->
  (forall k, (k < rows m)%nat -> rentry fadd fsub fmul fdiv lu k k <> 0%R) ->
  (forall i k, (k < i)%nat -> (i < rows m)%nat -> (Rabs (rentry fadd fsub fmul fdiv lu i k) <= 1 + u)%R) /\
  (forall i c, (i < rows m)%nat -> (c < rows m)%nat ->
     (Rsum (rows m) (fun k => Rabs (tril1 fadd fsub fmul fdiv lu i k) * Rabs (triu fadd fsub fmul fdiv lu k c))
      <= (1 + u) * Rsum (rows m) (fun k => Rabs (triu fadd fsub fmul fdiv lu k c)))%R).
Proof.
  intros u Hu fadd fsub fmul fdiv Hd m lu perm piv W E Dg. split.
  - exact (lu_multipliers_bounded_lemma u Hu fadd fsub fmul fdiv Hd m lu perm piv W E Dg).
  - exact (lu_abs_product_bound_lemma u Hu fadd fsub fmul fdiv Hd m lu perm piv W E Dg).
Qed.
Check lu_multipliers_bounded : forall (u : R), (0 <= u < 1)%R ->
  forall (fadd fsub fmul fdiv : R -> R -> R),
  (forall x y : R, y <> 0%R -> exists d : R, (Rabs d <= u)%R /\ fdiv x y = (x / y * (1 + d))%R) ->
  forall (m lu perm : matrix (ARm fadd fsub fmul fdiv)) (piv : nat),
  Proofs.Matrix.wf m -> lu_decomp m = Ok (lu, piv, perm) ->
  (forall k, (k < rows m)%nat -> rentry fadd fsub fmul fdiv lu k k <> 0%R) ->
  (forall i k, (k < i)%nat -> (i < rows m)%nat -> (Rabs (rentry fadd fsub fmul fdiv lu i k) <= 1 + u)%R) /\
  (forall i c, (i < rows m)%nat -> (c < rows m)%nat ->
     (Rsum (rows m) (fun k => Rabs (tril1 fadd fsub fmul fdiv lu i k) * Rabs (triu fadd fsub fmul fdiv lu k c))
      <= (1 + u) * Rsum (rows m) (fun k => Rabs (triu fadd fsub fmul fdiv lu k c)))%R).
Print Assumptions lu_multipliers_bounded.
Example lu_multipliers_bounded_nonvacuous :   (* the factors of [[2,1],[0,3]] in the rounding arithmetic; row 1 has a multiplier *)
  (0 <= ux < 1)%R /\
  (forall x y : R, y <> 0%R -> exists d : R, (Rabs d <= ux)%R /\ xdiv x y = (x / y * (1 + d))%R) /\
  Proofs.Matrix.wf ex_m2 /\ lu_decomp ex_m2 = Ok (ex_lu2, 0%nat, ex_id2) /\
  (forall k, (k < rows ex_m2)%nat -> rentry xadd xsub xmul xdiv ex_lu2 k k <> 0%R) /\ (0 < 1 < rows ex_m2)%nat.
Proof.
  split; [exact ux_range|]. split; [exact xdiv_ok|]. split; [reflexivity|]. split; [exact ex_lu_decomp|].
  split; [exact ex_lu2_diag|cbn; lia].
Qed.
